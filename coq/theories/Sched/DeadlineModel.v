(* C30 — deadline-missed counting, per instance, as a function of the sequence of sample
   times and worker wake times.  Definitions only.  Times and periods are Z nanoseconds
   (the (sec, nanosec) arithmetic is exact away from the i32 clamp: Time/TimeProofs.v
   add_exact / sub_exact / dur_le_nanos); the whole-stack tie uses Sched/WorkerModel.v,
   which keeps the code's representation.

   discovery_methods.rs:372 check_missed_writer_deadline, one registered instance:
       if now - *t > deadline { *t += deadline; total_count += 1; signal }
   discovery_methods.rs:315 check_missed_reader_deadline, one instance:
       if now - last_received_time_stamp > deadline { rearm_deadline(deadline);
                                                      total_count += 1; signal }
   data_writer_entity.rs:147 / data_reader_entity.rs:77: a new sample sets the time
   (writer: only forward; reader: the reception time). *)
From DustDDS Require Export Base.Machine.
Open Scope Z_scope.

Inductive dev : Type :=
| Sample (t : Z)      (* a new sample for the instance at time t *)
| Wake (t : Z).       (* the worker's loop body runs at time t *)

Definition ev_time (e : dev) : Z := match e with Sample t => t | Wake t => t end.

Record dstate : Type := mkD { d_t : Z; d_count : Z; d_signals : list Z }.

Definition wstep (D : Z) (s : dstate) (e : dev) : dstate :=
  match e with
  | Sample t => mkD (if d_t s <? t then t else d_t s) (d_count s) (d_signals s)
  | Wake now => if D <? now - d_t s
                then mkD (d_t s + D) (d_count s + 1) (d_signals s ++ [d_count s + 1])
                else s
  end.
Definition rstep (D : Z) (s : dstate) (e : dev) : dstate :=
  match e with
  | Sample t => mkD t (d_count s) (d_signals s)
  | Wake now => if D <? now - d_t s
                then mkD (d_t s + D) (d_count s + 1) (d_signals s ++ [d_count s + 1])
                else s
  end.
Definition wrun (D : Z) (evs : list dev) (s : dstate) : dstate := fold_left (wstep D) evs s.
Definition rrun (D : Z) (evs : list dev) (s : dstate) : dstate := fold_left (rstep D) evs s.
Definition dinit (t0 : Z) : dstate := mkD t0 0 [].

(* number of full deadline periods that have elapsed (strictly: the code tests `>`) in a
   silence of length x *)
Definition elapsed_periods (D x : Z) : Z := if x <=? 0 then 0 else (x - 1) / D.

(* the wakes of a sequence, in order *)
Fixpoint wakes_of (evs : list dev) : list Z :=
  match evs with
  | [] => []
  | Wake t :: r => t :: wakes_of r
  | Sample _ :: r => wakes_of r
  end.
Definition no_samples (evs : list dev) : Prop := forall e, In e evs -> exists t, e = Wake t.

(* consecutive wakes, starting from `last`, are non-decreasing and at most D apart *)
Fixpoint dense (D last : Z) (ws : list Z) : Prop :=
  match ws with
  | [] => True
  | w :: r => last <= w /\ w - last <= D /\ dense D w r
  end.

(* ---------------------------------------------------------------- oracle on observations *)
(* sample times of one instance (in order) -> expected total at time T *)
Fixpoint expected_inst (D : Z) (samples : list Z) (T : Z) : Z :=
  match samples with
  | [] => 0
  | a :: r => match r with
              | [] => elapsed_periods D (T - a)
              | b :: _ => elapsed_periods D (Z.min b T - a) + expected_inst D r T
              end
  end.
Definition expected_total (D : Z) (insts : list (list Z)) (T : Z) : Z :=
  fold_left (fun acc l => acc + expected_inst D l T) insts 0.
