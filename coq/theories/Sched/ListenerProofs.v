(* C33 — proofs about the listener dispatch model (ListenerModel.v). *)
From DustDDS Require Import Base.Machine Sched.ListenerModel.
Open Scope Z_scope.

Ltac chain3 k e g p :=
  unfold spec_calls, spec_target; cbn [find lv];
  destruct (en e k), (en g k), (en p k); reflexivity.

(* ------------------------------------------------------------------ code = rule, chain by chain *)
Lemma sample_rejected_eq_spec :
  forall r s p, dispatch_sample_rejected r s p = spec_calls KSR r s p.
Proof. intros r s p. unfold dispatch_sample_rejected. chain3 KSR r s p. Qed.

Lemma requested_deadline_missed_eq_spec :
  forall r s p, dispatch_requested_deadline_missed r s p = spec_calls KRDM r s p.
Proof. intros r s p. unfold dispatch_requested_deadline_missed. chain3 KRDM r s p. Qed.

Lemma subscription_matched_eq_spec :
  forall r s p, dispatch_subscription_matched r s p = spec_calls KSM r s p.
Proof. intros r s p. unfold dispatch_subscription_matched. chain3 KSM r s p. Qed.

Lemma requested_incompatible_qos_eq_spec :
  forall r s p, dispatch_requested_incompatible_qos r s p = spec_calls KRIQ r s p.
Proof. intros r s p. unfold dispatch_requested_incompatible_qos. chain3 KRIQ r s p. Qed.

Lemma offered_deadline_missed_eq_spec :
  forall w b p, dispatch_offered_deadline_missed w b p = spec_calls KODM w b p.
Proof. intros w b p. unfold dispatch_offered_deadline_missed. chain3 KODM w b p. Qed.

Lemma publication_matched_eq_spec :
  forall w b p, dispatch_publication_matched w b p = spec_calls KPM w b p.
Proof. intros w b p. unfold dispatch_publication_matched. chain3 KPM w b p. Qed.

Lemma offered_incompatible_qos_eq_spec :
  forall w b p, dispatch_offered_incompatible_qos w b p = spec_calls KOIQ w b p.
Proof. intros w b p. unfold dispatch_offered_incompatible_qos. chain3 KOIQ w b p. Qed.

Lemma inconsistent_topic_eq_spec :
  forall t p, dispatch_inconsistent_topic t p = spec_topic t p.
Proof. reflexivity. Qed.

(* the topic chain is the three-level rule with an absent middle level *)
Lemma spec_topic_is_rule :
  forall t p, spec_topic t p =
    map (fun c => (match fst c with Group => Participant | w => w end, snd c))
        (spec_calls KIT t no_l p).
Proof.
  intros t p. unfold spec_topic, spec_calls, spec_target. cbn [find lv].
  change (en no_l KIT) with false. cbn iota.
  destruct (en t KIT), (en p KIT); unfold send; cbn [lv];
    try destruct (l_inst t); try destruct (l_inst p); reflexivity.
Qed.

Lemma inconsistent_topic_is_rule :
  forall t p, dispatch_inconsistent_topic t p =
    map (fun c => (match fst c with Group => Participant | w => w end, snd c)) (spec_calls KIT t no_l p).
Proof. intros t p. rewrite inconsistent_topic_eq_spec. apply spec_topic_is_rule. Qed.

(* ------------------------------------------------------------------ new data *)
Lemma data_eq_spec : forall r s p, dispatch_data r s p = spec_data r s p.
Proof.
  intros r s p. unfold dispatch_data, spec_data, spec_calls, spec_target.
  cbn [find lv]. destruct (en s KDOR), (en r KDA), (en s KDA), (en p KDA); reflexivity.
Qed.

(* ------------------------------------------------------------------ a match is lost *)
Lemma publication_unmatched_eq_spec :
  forall w b p, dispatch_publication_unmatched w b p = spec_calls KPM w b p.
Proof. intros w b p. unfold dispatch_publication_unmatched. chain3 KPM w b p. Qed.

Lemma subscription_unmatched_eq_spec :
  forall r s p, dispatch_subscription_unmatched r s p = spec_calls KSM r s p.
Proof. intros r s p. unfold dispatch_subscription_unmatched. chain3 KSM r s p. Qed.

Definition w_all (ks : list kind) : lcfg := mkL true ks.

(* ------------------------------------------------------------------ the rule, declaratively *)
Definition more_specific (a b : who) : bool :=
  match a, b with
  | Entity, Group | Entity, Participant | Group, Participant => true
  | _, _ => false
  end.

(* (w, k) is called iff w's mask enables k, w has a listener, and no more specific mask enables k *)
Lemma spec_calls_char :
  forall k e g p w k',
    In (w, k') (spec_calls k e g p) <->
    (k' = k /\ en (lv e g p w) k = true /\ l_inst (lv e g p w) = true /\
     forall w', more_specific w' w = true -> en (lv e g p w') k = false).
Proof.
  intros k e g p w k'. unfold spec_calls, spec_target. cbn [find lv].
  destruct (en e k) eqn:Ee; [|destruct (en g k) eqn:Eg; [|destruct (en p k) eqn:Ep]];
    unfold send; cbn [lv].
  - destruct (l_inst e) eqn:Ie; cbn [In]; split.
    + intros [H|[]]. inversion H; subst. cbn [lv]. repeat split; auto.
      intros w' Hw. destruct w'; discriminate.
    + intros [Hk [Hen [Hi Hm]]]. subst. destruct w; cbn [lv] in *.
      * left. reflexivity.
      * specialize (Hm Entity eq_refl). cbn [lv] in Hm. congruence.
      * specialize (Hm Entity eq_refl). cbn [lv] in Hm. congruence.
    + intros [].
    + intros [Hk [Hen [Hi Hm]]]. destruct w; cbn [lv] in *.
      * congruence.
      * specialize (Hm Entity eq_refl). cbn [lv] in Hm. congruence.
      * specialize (Hm Entity eq_refl). cbn [lv] in Hm. congruence.
  - destruct (l_inst g) eqn:Ig; cbn [In]; split.
    + intros [H|[]]. inversion H; subst. cbn [lv]. repeat split; auto.
      intros w' Hw. destruct w'; try discriminate. cbn [lv]. exact Ee.
    + intros [Hk [Hen [Hi Hm]]]. subst. destruct w; cbn [lv] in *.
      * congruence.
      * left. reflexivity.
      * specialize (Hm Group eq_refl). cbn [lv] in Hm. congruence.
    + intros [].
    + intros [Hk [Hen [Hi Hm]]]. destruct w; cbn [lv] in *.
      * congruence.
      * congruence.
      * specialize (Hm Group eq_refl). cbn [lv] in Hm. congruence.
  - destruct (l_inst p) eqn:Ip; cbn [In]; split.
    + intros [H|[]]. inversion H; subst. cbn [lv]. repeat split; auto.
      intros w' Hw. destruct w'; try discriminate; cbn [lv]; assumption.
    + intros [Hk [Hen [Hi Hm]]]. subst. destruct w; cbn [lv] in *; try congruence.
      left. reflexivity.
    + intros [].
    + intros [Hk [Hen [Hi Hm]]]. destruct w; cbn [lv] in *; congruence.
  - cbn [In]. split; [intros []|].
    intros [Hk [Hen [Hi Hm]]]. destruct w; cbn [lv] in *; congruence.
Qed.

Lemma spec_calls_at_most_one : forall k e g p, (length (spec_calls k e g p) <= 1)%nat.
Proof.
  intros k e g p. unfold spec_calls. destruct (spec_target k e g p) as [w|]; [|cbn; lia].
  unfold send. destruct (l_inst (lv e g p w)); cbn; lia.
Qed.

(* none iff no mask enables the status or the selected level has the nil listener *)
Lemma spec_calls_none_iff :
  forall k e g p,
    spec_calls k e g p = [] <->
    (spec_target k e g p = None \/ exists w, spec_target k e g p = Some w /\ l_inst (lv e g p w) = false).
Proof.
  intros k e g p. unfold spec_calls. destruct (spec_target k e g p) as [w|]; split; intros H.
  - right. exists w. split; [reflexivity|]. unfold send in H. destruct (l_inst (lv e g p w)); [discriminate|reflexivity].
  - destruct H as [H|[w' [Hw Hi]]]; [discriminate|]. inversion Hw; subst. unfold send. rewrite Hi. reflexivity.
  - left. reflexivity.
  - reflexivity.
Qed.

Lemma spec_target_none_iff :
  forall k e g p, spec_target k e g p = None <-> (en e k = false /\ en g k = false /\ en p k = false).
Proof.
  intros k e g p. unfold spec_target. cbn [find lv].
  destruct (en e k), (en g k), (en p k); split; intros H; try discriminate; try tauto;
    destruct H as [H1 [H2 H3]]; discriminate.
Qed.

(* the stricter reading differs exactly on `swallowed` configurations *)
Lemma strict_eq_unless_swallowed :
  forall k e g p, swallowed k e g p = false -> spec_calls_strict k e g p = spec_calls k e g p.
Proof.
  intros k e g p. unfold swallowed, spec_calls_strict, spec_calls, spec_target_strict, spec_target, send.
  cbn [find lv].
  destruct (en e k), (en g k), (en p k); cbn;
    destruct (l_inst e), (l_inst g), (l_inst p);
    cbn; intros H; try reflexivity; discriminate.
Qed.

Lemma swallowed_differs :
  forall k e g p, swallowed k e g p = true ->
    spec_calls k e g p = [] /\ exists w, spec_calls_strict k e g p = [(w, k)].
Proof.
  intros k e g p. unfold swallowed, spec_calls_strict, spec_calls, spec_target_strict, spec_target, send.
  cbn [find lv].
  destruct (en e k), (en g k), (en p k); cbn;
    destruct (l_inst e), (l_inst g), (l_inst p);
    cbn; intros H; try discriminate; (split; [reflexivity|eexists; reflexivity]).
Qed.

(* ------------------------------------------------------------------ events and histories *)
Lemma dispatch_ev_eq_spec : forall c e, dispatch_ev c e = spec_ev c e.
Proof.
  intros c e. destruct e; cbn [dispatch_ev spec_ev];
    rewrite ?publication_matched_eq_spec, ?offered_incompatible_qos_eq_spec,
            ?offered_deadline_missed_eq_spec, ?publication_unmatched_eq_spec,
            ?subscription_matched_eq_spec, ?requested_incompatible_qos_eq_spec,
            ?requested_deadline_missed_eq_spec, ?subscription_unmatched_eq_spec,
            ?data_eq_spec, ?sample_rejected_eq_spec; reflexivity.
Qed.

Lemma run_events_eq_spec : forall c es, run_events c es = spec_events c es.
Proof.
  intros c es. unfold run_events, spec_events. induction es as [|e t IH]; [reflexivity|].
  cbn [flat_map]. rewrite dispatch_ev_eq_spec, IH. reflexivity.
Qed.

Lemma chain3_at_most_one :
  forall (a b c : bool) (x y z : list call),
    (length x <= 1)%nat -> (length y <= 1)%nat -> (length z <= 1)%nat ->
    (length (if a then x else if b then y else if c then z else []) <= 1)%nat.
Proof. intros [] [] [] x y z; cbn; intros; lia. Qed.

Lemma send_at_most_one : forall l w k, (length (send l w k) <= 1)%nat.
Proof. intros l w k. unfold send. destruct (l_inst l); cbn; lia. Qed.

(* every event, known class or not: at most one listener is called *)
Lemma dispatch_ev_at_most_one : forall c e, (length (dispatch_ev c e) <= 1)%nat.
Proof.
  intros c e. rewrite dispatch_ev_eq_spec. destruct e; cbn [spec_ev]; rewrite map_length;
    try apply spec_calls_at_most_one.
  unfold spec_data. destruct (en (w_sub c) KDOR); [apply send_at_most_one|apply spec_calls_at_most_one].
Qed.

Lemma run_events_length : forall c es, (length (run_events c es) <= length es)%nat.
Proof.
  intros c es. unfold run_events. induction es as [|e t IH]; [cbn; lia|].
  cbn [flat_map length]. rewrite app_length. pose proof (dispatch_ev_at_most_one c e). lia.
Qed.

Lemma run_history_eq_spec : forall h, run_history h = spec_history h.
Proof.
  intros h. unfold run_history, spec_history. induction h as [|[w e] t IH]; [reflexivity|].
  cbn [flat_map fst snd]. rewrite dispatch_ev_eq_spec, IH. reflexivity.
Qed.

Lemma run_history_length : forall h, (length (run_history h) <= length h)%nat.
Proof.
  intros h. unfold run_history. induction h as [|[w e] t IH]; [cbn; lia|].
  cbn [flat_map length fst snd]. rewrite app_length. pose proof (dispatch_ev_at_most_one w e). lia.
Qed.

(* several changes in one pass: each one is routed by the rule on its own *)
Lemma data_pass_eq_spec :
  forall c added, dispatch_data_pass c added = flat_map (fun i => spec_ev c (EvData i)) added.
Proof.
  intros c added. unfold dispatch_data_pass. induction added as [|i t IH]; [reflexivity|].
  cbn [flat_map]. rewrite dispatch_ev_eq_spec, IH. reflexivity.
Qed.

(* when the subscriber's mask enables data-on-readers EVERY change of the pass is signalled as
   data-on-readers on the subscriber and none as data-available *)
Lemma data_pass_all_on_readers :
  forall c added, en (w_sub c) KDOR = true ->
    dispatch_data_pass c added =
      if l_inst (w_sub c) then repeat (LSub, KDOR) (length added) else [].
Proof.
  intros c added H. unfold dispatch_data_pass. induction added as [|i t IH].
  - destruct (l_inst (w_sub c)); reflexivity.
  - cbn [flat_map length repeat]. rewrite IH. cbn [dispatch_ev]. unfold dispatch_data. rewrite H.
    unfold send. destruct (l_inst (w_sub c)); reflexivity.
Qed.

(* the finite decision table, as a check of the whole table by computation: for the 2^6
   installed/enabled combinations the coded chain and the rule give the same answer *)
Definition bools : list bool := [true; false].
Definition mk1 (k : kind) (i m : bool) : lcfg := mkL i (if m then [k] else []).
Definition table3 (k : kind) (f : lcfg -> lcfg -> lcfg -> list call) : bool :=
  forallb (fun ie => forallb (fun me => forallb (fun ig => forallb (fun mg =>
  forallb (fun ip => forallb (fun mp =>
    let e := mk1 k ie me in let g := mk1 k ig mg in let p := mk1 k ip mp in
    match f e g p, spec_calls k e g p with
    | [], [] => true
    | [(a, x)], [(b, y)] => kind_eqb x y && match a, b with Entity, Entity | Group, Group | Participant, Participant => true | _, _ => false end
    | _, _ => false
    end) bools) bools) bools) bools) bools) bools.

Lemma decision_tables :
  table3 KSR dispatch_sample_rejected = true /\
  table3 KRDM dispatch_requested_deadline_missed = true /\
  table3 KSM dispatch_subscription_matched = true /\
  table3 KRIQ dispatch_requested_incompatible_qos = true /\
  table3 KODM dispatch_offered_deadline_missed = true /\
  table3 KPM dispatch_publication_matched = true /\
  table3 KOIQ dispatch_offered_incompatible_qos = true /\
  table3 KPM dispatch_publication_unmatched = true /\
  table3 KSM dispatch_subscription_unmatched = true.
Proof. vm_compute. repeat split. Qed.

(* the new-data table: 2^7 combinations (three installed bits, three data-available mask bits,
   data-on-readers at the subscriber) *)
Definition table_data : bool :=
  forallb (fun ir : bool => forallb (fun mr : bool => forallb (fun is_ : bool => forallb (fun ms : bool => forallb (fun ds : bool =>
  forallb (fun ip : bool => forallb (fun mp : bool =>
    let r := mkL ir (if mr then [KDA] else @nil kind) in
    let s := mkL is_ ((if ms then [KDA] else @nil kind) ++ (if ds then [KDOR] else @nil kind)) in
    let p := mkL ip (if mp then [KDA] else @nil kind) in
    match dispatch_data r s p, spec_data r s p with
    | [], [] => true
    | [(a, x)], [(b, y)] => kind_eqb x y && match a, b with Entity, Entity | Group, Group | Participant, Participant => true | _, _ => false end
    | _, _ => false
    end) bools) bools) bools) bools) bools) bools) bools.

Lemma decision_table_data : table_data = true.
Proof. vm_compute. reflexivity. Qed.
