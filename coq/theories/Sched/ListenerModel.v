(* C33 — listener dispatch.  Model (definitions only): ONE function per dispatch chain, written
   exactly as the chain is coded (as of commits 8c56825, 1fc584d, 16b74b1), of
     dds/src/dcps/dcps_domain_participant/communication_methods.rs
        l.306-328  new data (DataOnReaders / DataAvailable with subscriber and participant fallback)
        l.340-372  SampleRejected
     dds/src/dcps/dcps_domain_participant/discovery_methods.rs
        l.313-359  RequestedDeadlineMissed        l.418-455  OfferedDeadlineMissed
        l.1162-1200 PublicationMatched            l.1238-1282 OfferedIncompatibleQos (only when
        l.1779-1816 SubscriptionMatched           l.1850-1889 RequestedIncompatibleQos   the status changed)
        l.1306-1335, 1913-1942, 2596-2627 InconsistentTopic (three copies of the same chain)
        notify_publication_match_lost / notify_subscription_match_lost: the PublicationMatched /
                    SubscriptionMatched chain for a LOST match, called from the three places where a
                    match is lost: remove_discovered_reader / _writer (the matched endpoint was deleted),
                    process_discovered_readers / _writers (the matched endpoint's updated QoS is
                    incompatible) and remove_discovered_participant (through remove_discovered_reader /
                    _writer)
   Inputs of a chain: for each level (entity, publisher/subscriber, participant) whether a listener
   is installed (`listener_sender` is Some) and the level's listener mask (`listener_mask`).
   SampleLost, LivelinessLost and LivelinessChanged are never raised by this implementation (no
   ListenerMail kind, no add_communication_state): there is no chain to model. *)
From DustDDS Require Import Base.Machine.
Open Scope Z_scope.

Inductive kind : Type :=
| KIT | KODM | KRDM | KOIQ | KRIQ | KSL | KSR | KDOR | KDA | KLL | KLC | KPM | KSM.

Definition kind_code (k : kind) : Z :=
  match k with
  | KIT => 0 | KODM => 1 | KRDM => 2 | KOIQ => 3 | KRIQ => 4 | KSL => 5 | KSR => 6
  | KDOR => 7 | KDA => 8 | KLL => 9 | KLC => 10 | KPM => 11 | KSM => 12
  end.      (* the bit numbers of StatusMask::status_kind_bit *)
Definition kind_eqb (a b : kind) : bool := kind_code a =? kind_code b.

(* one level: listener_sender.is_some(), listener_mask *)
Record lcfg : Type := mkL { l_inst : bool; l_mask : list kind }.
Definition en (l : lcfg) (k : kind) : bool := existsb (kind_eqb k) (l_mask l).   (* mask.is_enabled(&k) *)

Inductive who : Type := Entity | Group | Participant.
Definition call : Type := (who * kind)%type.      (* which level's listener gets which callback *)

(* `if let Some(l) = &<level>.listener_sender { l.send(ListenerMail::K {..}).ok(); }` *)
Definition send (l : lcfg) (w : who) (k : kind) : list call := if l_inst l then [(w, k)] else [].

(* ---- reader-side chains: r = data reader, s = subscriber, p = participant *)
Definition dispatch_sample_rejected (r s p : lcfg) : list call :=
  if en r KSR then send r Entity KSR
  else if en s KSR then send s Group KSR
  else if en p KSR then send p Participant KSR
  else [].

Definition dispatch_requested_deadline_missed (r s p : lcfg) : list call :=
  if en r KRDM then send r Entity KRDM
  else if en s KRDM then send s Group KRDM
  else if en p KRDM then send p Participant KRDM
  else [].

Definition dispatch_subscription_matched (r s p : lcfg) : list call :=
  if en r KSM then send r Entity KSM
  else if en s KSM then send s Group KSM
  else if en p KSM then send p Participant KSM
  else [].

Definition dispatch_requested_incompatible_qos (r s p : lcfg) : list call :=
  if en r KRIQ then send r Entity KRIQ
  else if en s KRIQ then send s Group KRIQ
  else if en p KRIQ then send p Participant KRIQ
  else [].

(* communication_methods.rs:306-328 *)
Definition dispatch_data (r s p : lcfg) : list call :=
  if en s KDOR then send s Group KDOR
  else if en r KDA then send r Entity KDA
  else if en s KDA then send s Group KDA
  else if en p KDA then send p Participant KDA
  else [].

(* notify_subscription_match_lost: a match of the reader is lost (all three causes) *)
Definition dispatch_subscription_unmatched (r s p : lcfg) : list call :=
  if en r KSM then send r Entity KSM
  else if en s KSM then send s Group KSM
  else if en p KSM then send p Participant KSM
  else [].

(* ---- writer-side chains: w = data writer, b = publisher, p = participant *)
Definition dispatch_offered_deadline_missed (w b p : lcfg) : list call :=
  if en w KODM then send w Entity KODM
  else if en b KODM then send b Group KODM
  else if en p KODM then send p Participant KODM
  else [].

Definition dispatch_publication_matched (w b p : lcfg) : list call :=
  if en w KPM then send w Entity KPM
  else if en b KPM then send b Group KPM
  else if en p KPM then send p Participant KPM
  else [].

Definition dispatch_offered_incompatible_qos (w b p : lcfg) : list call :=
  if en w KOIQ then send w Entity KOIQ
  else if en b KOIQ then send b Group KOIQ
  else if en p KOIQ then send p Participant KOIQ
  else [].

(* notify_publication_match_lost: a match of the writer is lost (all three causes) *)
Definition dispatch_publication_unmatched (w b p : lcfg) : list call :=
  if en w KPM then send w Entity KPM
  else if en b KPM then send b Group KPM
  else if en p KPM then send p Participant KPM
  else [].

(* ---- topic chain: t = topic, p = participant (there is no middle level) *)
Definition dispatch_inconsistent_topic (t p : lcfg) : list call :=
  if en t KIT then send t Entity KIT
  else if en p KIT then send p Participant KIT
  else [].

(* ------------------------------------------------------------------ the property (DDS rule) *)
Definition lv (e g p : lcfg) (w : who) : lcfg :=
  match w with Entity => e | Group => g | Participant => p end.

(* the most specific level whose mask enables the status *)
Definition spec_target (k : kind) (e g p : lcfg) : option who :=
  find (fun w => en (lv e g p w) k) [Entity; Group; Participant].

(* the status change goes to that level's listener (a level without listener object has the nil
   listener, whose callbacks do nothing: DDS 1.4 2.2.4.2.3), to nobody if no mask enables it *)
Definition spec_calls (k : kind) (e g p : lcfg) : list call :=
  match spec_target k e g p with
  | Some w => send (lv e g p w) w k
  | None => []
  end.

(* new data: data-on-readers on the subscriber when enabled there, data-available otherwise *)
Definition spec_data (r s p : lcfg) : list call :=
  if en s KDOR then send s Group KDOR else spec_calls KDA r s p.

Definition spec_topic (t p : lcfg) : list call :=
  if en t KIT then send t Entity KIT
  else if en p KIT then send p Participant KIT
  else [].

(* stricter reading, for comparison only: levels without a listener object are skipped *)
Definition spec_target_strict (k : kind) (e g p : lcfg) : option who :=
  find (fun w => en (lv e g p w) k && l_inst (lv e g p w)) [Entity; Group; Participant].
Definition spec_calls_strict (k : kind) (e g p : lcfg) : list call :=
  match spec_target_strict k e g p with Some w => [(w, k)] | None => [] end.
(* a more specific level enables the status without having a listener, a less specific one would take it *)
Definition swallowed (k : kind) (e g p : lcfg) : bool :=
  match spec_target k e g p with
  | Some a => negb (l_inst (lv e g p a)) &&
              match spec_target_strict k e g p with Some _ => true | None => false end
  | None => false
  end.

(* ------------------------------------------------------------------ events and histories *)
Inductive ev : Type :=
| EvPM (w : nat) | EvOIQ (w : nat) | EvODM (w : nat) | EvPMun (w : nat)
| EvSM (r : nat) | EvRIQ (r : nat) | EvRDM (r : nat) | EvSMun (r : nat)
| EvData (r : nat) | EvSR (r : nat)
(* a match lost because the matched endpoint's updated QoS is incompatible / because its participant is gone *)
| EvPMupd (w : nat) | EvSMupd (r : nat) | EvPMgone (w : nat) | EvSMgone (r : nat).

(* the entities of the scenario: writers under one publisher of participant 0, readers under one
   subscriber of participant 1 *)
Record world : Type := mkWorld {
  w_writers : list lcfg; w_pub : lcfg; w_p0 : lcfg;
  w_readers : list lcfg; w_sub : lcfg; w_p1 : lcfg
}.
Definition no_l : lcfg := mkL false [].
Definition wr (c : world) (i : nat) : lcfg := nth i (w_writers c) no_l.
Definition rd (c : world) (i : nat) : lcfg := nth i (w_readers c) no_l.

Inductive lab : Type := LW (i : nat) | LR (i : nat) | LPub | LSub | LP (i : nat).
Definition lcall : Type := (lab * kind)%type.

Definition wlab (i : nat) (c : call) : lcall :=
  (match fst c with Entity => LW i | Group => LPub | Participant => LP 0 end, snd c).
Definition rlab (i : nat) (c : call) : lcall :=
  (match fst c with Entity => LR i | Group => LSub | Participant => LP 1 end, snd c).

Definition dispatch_ev (c : world) (e : ev) : list lcall :=
  match e with
  | EvPM i => map (wlab i) (dispatch_publication_matched (wr c i) (w_pub c) (w_p0 c))
  | EvOIQ i => map (wlab i) (dispatch_offered_incompatible_qos (wr c i) (w_pub c) (w_p0 c))
  | EvODM i => map (wlab i) (dispatch_offered_deadline_missed (wr c i) (w_pub c) (w_p0 c))
  | EvPMun i | EvPMupd i | EvPMgone i =>
      map (wlab i) (dispatch_publication_unmatched (wr c i) (w_pub c) (w_p0 c))
  | EvSM i => map (rlab i) (dispatch_subscription_matched (rd c i) (w_sub c) (w_p1 c))
  | EvRIQ i => map (rlab i) (dispatch_requested_incompatible_qos (rd c i) (w_sub c) (w_p1 c))
  | EvRDM i => map (rlab i) (dispatch_requested_deadline_missed (rd c i) (w_sub c) (w_p1 c))
  | EvSMun i | EvSMupd i | EvSMgone i =>
      map (rlab i) (dispatch_subscription_unmatched (rd c i) (w_sub c) (w_p1 c))
  | EvData i => map (rlab i) (dispatch_data (rd c i) (w_sub c) (w_p1 c))
  | EvSR i => map (rlab i) (dispatch_sample_rejected (rd c i) (w_sub c) (w_p1 c))
  end.

Definition spec_ev (c : world) (e : ev) : list lcall :=
  match e with
  | EvPM i | EvPMun i | EvPMupd i | EvPMgone i => map (wlab i) (spec_calls KPM (wr c i) (w_pub c) (w_p0 c))
  | EvOIQ i => map (wlab i) (spec_calls KOIQ (wr c i) (w_pub c) (w_p0 c))
  | EvODM i => map (wlab i) (spec_calls KODM (wr c i) (w_pub c) (w_p0 c))
  | EvSM i | EvSMun i | EvSMupd i | EvSMgone i => map (rlab i) (spec_calls KSM (rd c i) (w_sub c) (w_p1 c))
  | EvRIQ i => map (rlab i) (spec_calls KRIQ (rd c i) (w_sub c) (w_p1 c))
  | EvRDM i => map (rlab i) (spec_calls KRDM (rd c i) (w_sub c) (w_p1 c))
  | EvData i => map (rlab i) (spec_data (rd c i) (w_sub c) (w_p1 c))
  | EvSR i => map (rlab i) (spec_calls KSR (rd c i) (w_sub c) (w_p1 c))
  end.

(* a history: every event is dispatched when it happens *)
Definition run_events (c : world) (es : list ev) : list lcall := flat_map (dispatch_ev c) es.
Definition spec_events (c : world) (es : list ev) : list lcall := flat_map (spec_ev c) es.

(* a history with re-configuration (set_listener between events): every event is dispatched with the
   configuration in force when it happens (set_*_listener stores listener_sender and listener_mask,
   reader_methods.rs:515-517 and its four siblings; the chains read exactly these two fields) *)
Definition run_history (h : list (world * ev)) : list lcall :=
  flat_map (fun we => dispatch_ev (fst we) (snd we)) h.
Definition spec_history (h : list (world * ev)) : list lcall :=
  flat_map (fun we => spec_ev (fst we) (snd we)) h.

(* one pass of process_user_defined_received_cache_changes over the readers of the subscriber
   (communication_methods.rs:46-375): `added` lists, in processing order (reader by reader, change by
   change), the reader of every change that add_reader_change accepted in this pass; the new-data chain
   runs once PER CHANGE, nothing is remembered from one change to the next *)
Definition dispatch_data_pass (c : world) (added : list nat) : list lcall :=
  flat_map (fun i => dispatch_ev c (EvData i)) added.
