(* Model of dds/src/dcps/channels/{oneshot,mpsc,notification}.rs.  Definitions only.

   Every `critical_section::with(|cs| …)` body of the three files is ONE step of a
   state machine over the channel's inner struct (same fields, same order of
   tests).  A list of steps over several sender handles and the receiver is an
   interleaving of the threads owning those handles, because nothing else in the
   three files touches the shared state.  Wakers are tokens (nat); `w.wake()` is an
   output of the step.

   Rust ownership is modelled by a ghost handle table: a step names the sender
   handle it is executed through; a step through a handle that has already been
   moved/dropped cannot be written in Rust and is a no-op with result RSkip. *)
From DustDDS Require Export Base.Machine.
Open Scope Z_scope.

(* ------------------------------------------------------------------ vocabulary *)

Inductive op : Type :=
| Send (h : nat) (v : Z)   (* oneshot: body of send(); mpsc: send(); notification: notify() *)
| Clone (h : nat)          (* <Sender as Clone>::clone through handle h *)
| DropS (h : nat)          (* drop of sender handle h *)
| Poll (w : nat)           (* Future::poll of the receiving side with waker w *)
| DropR.                   (* drop of the receiver *)

Inductive ret : Type :=
| RSkip                    (* ruled out by ownership: nothing executed *)
| RUnit                    (* send/notify/clone/drop body executed *)
| RSendErr                 (* mpsc: Err(MpscSenderError::Closed) *)
| RReady (v : Z)           (* Poll::Ready(Ok v) / Ready(Some v) / Ready(Ok(())) with v = 0 *)
| RClosed                  (* Poll::Ready(Err(AlreadyDeleted)) / Ready(None) *)
| RPending                 (* Poll::Pending *)
| RPanic.                  (* arithmetic overflow panic (debug profile) *)

(* result of one step: return value and the wakers woken inside the section *)
Record out : Type := mkout { o_ret : ret; o_woke : list nat }.
Definition ev : Type := (op * out)%type.

(* ghost state of one sender handle.  HSent: oneshot only — send() has run its
   critical section, the implicit drop of `self` has not yet run *)
Inductive hstate : Type := HLive | HSent | HDead.

Definition undropped (x : hstate) : bool := match x with HDead => false | _ => true end.
Definition is_live (x : hstate) : bool := match x with HLive => true | _ => false end.
Definition hget (hs : list hstate) (h : nat) : hstate := nth h hs HDead.
Fixpoint hset (hs : list hstate) (h : nat) (x : hstate) : list hstate :=
  match hs, h with
  | [], _ => []
  | _ :: t, O => x :: t
  | y :: t, S h' => y :: hset t h' x
  end.
Definition all_dropped (hs : list hstate) : bool := forallb (fun x => negb (undropped x)) hs.
Definition live_count (hs : list hstate) : Z := Z.of_nat (length (filter undropped hs)).

(* `if let Some(w) = inner.waker.take() { w.wake() }` *)
Definition wake (w : option nat) : list nat := match w with Some x => [x] | None => [] end.
Definition skip : out := mkout RSkip [].

(* ------------------------------------------------------------------ oneshot.rs *)

Record oneshot_inner : Type := mkOI { oi_data : option Z; oi_waker : option nat; oi_has_sender : bool }.
Record oneshot : Type := mkO { o_in : oneshot_inner; o_senders : list hstate; o_recv : bool }.

(* fn oneshot() *)
Definition oneshot_init : oneshot := mkO (mkOI None None true) [HLive] true.

(* OneshotSender::send, the critical section *)
Definition oneshot_send_body (i : oneshot_inner) (v : Z) : oneshot_inner * list nat :=
  (mkOI (Some v) None (oi_has_sender i), wake (oi_waker i)).
(* <OneshotSender as Drop>::drop *)
Definition oneshot_drop_body (i : oneshot_inner) : oneshot_inner * list nat :=
  (mkOI (oi_data i) None false, wake (oi_waker i)).
(* <OneshotReceiver as Future>::poll *)
Definition oneshot_poll_body (i : oneshot_inner) (w : nat) : oneshot_inner * ret :=
  match oi_data i with
  | Some v => (mkOI None (oi_waker i) (oi_has_sender i), RReady v)
  | None => if negb (oi_has_sender i) then (i, RClosed)
            else (mkOI None (Some w) (oi_has_sender i), RPending)
  end.

Definition oneshot_step (s : oneshot) (o : op) : oneshot * out :=
  match o with
  | Send h v =>
      match hget (o_senders s) h with
      | HLive => let (i, wk) := oneshot_send_body (o_in s) v in
                 (mkO i (hset (o_senders s) h HSent) (o_recv s), mkout RUnit wk)
      | _ => (s, skip)
      end
  | DropS h =>
      if undropped (hget (o_senders s) h) then
        let (i, wk) := oneshot_drop_body (o_in s) in
        (mkO i (hset (o_senders s) h HDead) (o_recv s), mkout RUnit wk)
      else (s, skip)
  | Clone _ => (s, skip)                       (* OneshotSender is not Clone *)
  | Poll w =>
      if o_recv s then
        let (i, r) := oneshot_poll_body (o_in s) w in (mkO i (o_senders s) true, mkout r [])
      else (s, skip)
  | DropR =>                                   (* no Drop impl: only the Arc count changes *)
      if o_recv s then (mkO (o_in s) (o_senders s) false, mkout RUnit []) else (s, skip)
  end.

(* --------------------------------------------------------------------- mpsc.rs *)

Record mpsc_inner : Type :=
  mkMI { mi_data : list Z; mi_waker : option nat; mi_closed : bool; mi_count : Z (* usize *) }.
Record mpsc : Type := mkM { m_in : mpsc_inner; m_senders : list hstate; m_recv : bool }.

(* fn mpsc_channel() *)
Definition mpsc_init : mpsc := mkM (mkMI [] None false 1) [HLive] true.

(* MpscSender::send *)
Definition mpsc_send_body (i : mpsc_inner) (v : Z) : mpsc_inner * out :=
  if mi_closed i then (i, mkout RSendErr [])
  else (mkMI (mi_data i ++ [v]) None (mi_closed i) (mi_count i), mkout RUnit (wake (mi_waker i))).
(* <MpscSender as Clone>::clone: `sender_count += 1` (checked in debug) *)
Definition mpsc_clone_body (i : mpsc_inner) : option mpsc_inner :=
  if mi_count i + 1 <=? u64_max
  then Some (mkMI (mi_data i) (mi_waker i) (mi_closed i) (mi_count i + 1)) else None.
(* <MpscSender as Drop>::drop: `sender_count -= 1` (checked in debug); the last drop closes
   the channel and wakes the registered waker *)
Definition mpsc_drop_body (i : mpsc_inner) : option (mpsc_inner * list nat) :=
  if 0 <=? mi_count i - 1 then
    let c := mi_count i - 1 in
    if c =? 0 then Some (mkMI (mi_data i) None true c, wake (mi_waker i))
    else Some (mkMI (mi_data i) (mi_waker i) (mi_closed i) c, [])
  else None.
(* <MpscReceiverFuture as Future>::poll *)
Definition mpsc_poll_body (i : mpsc_inner) (w : nat) : mpsc_inner * ret :=
  match mi_data i with
  | v :: t => (mkMI t (mi_waker i) (mi_closed i) (mi_count i), RReady v)
  | [] => if mi_closed i then (i, RClosed)
          else (mkMI [] (Some w) (mi_closed i) (mi_count i), RPending)
  end.

Definition mpsc_step (s : mpsc) (o : op) : mpsc * out :=
  match o with
  | Send h v =>
      match hget (m_senders s) h with
      | HLive => let (i, r) := mpsc_send_body (m_in s) v in (mkM i (m_senders s) (m_recv s), r)
      | _ => (s, skip)
      end
  | Clone h =>
      match hget (m_senders s) h with
      | HLive => match mpsc_clone_body (m_in s) with
                 | Some i => (mkM i (m_senders s ++ [HLive]) (m_recv s), mkout RUnit [])
                 | None => (s, mkout RPanic [])
                 end
      | _ => (s, skip)
      end
  | DropS h =>
      if undropped (hget (m_senders s) h) then
        match mpsc_drop_body (m_in s) with
        | Some (i, wk) => (mkM i (hset (m_senders s) h HDead) (m_recv s), mkout RUnit wk)
        | None => (mkM (m_in s) (hset (m_senders s) h HDead) (m_recv s), mkout RPanic [])
        end
      else (s, skip)
  | Poll w =>
      if m_recv s then
        let (i, r) := mpsc_poll_body (m_in s) w in (mkM i (m_senders s) true, mkout r [])
      else (s, skip)
  | DropR =>
      if m_recv s then (mkM (m_in s) (m_senders s) false, mkout RUnit []) else (s, skip)
  end.

(* ------------------------------------------------------------- notification.rs *)

Record notif_inner : Type := mkNI { ni_notified : bool; ni_waker : option nat; ni_count : Z (* usize *) }.
Record notif : Type := mkN { n_in : notif_inner; n_senders : list hstate; n_recv : bool }.

(* fn notification() *)
Definition notif_init : notif := mkN (mkNI false None 1) [HLive] true.

(* NotificationSender::notify *)
Definition notif_notify_body (i : notif_inner) : notif_inner * list nat :=
  (mkNI true None (ni_count i), wake (ni_waker i)).
(* <NotificationSender as Clone>::clone: `sender_count += 1` (checked in debug) *)
Definition notif_clone_body (i : notif_inner) : option notif_inner :=
  if ni_count i + 1 <=? u64_max then Some (mkNI (ni_notified i) (ni_waker i) (ni_count i + 1)) else None.
(* <NotificationSender as Drop>::drop: `sender_count -= 1` (checked in debug) *)
Definition notif_drop_body (i : notif_inner) : option (notif_inner * list nat) :=
  if 0 <=? ni_count i - 1 then
    let c := ni_count i - 1 in
    if c =? 0 then Some (mkNI (ni_notified i) None c, wake (ni_waker i))
    else Some (mkNI (ni_notified i) (ni_waker i) c, [])
  else None.
(* <NotificationReceiver as Future>::poll *)
Definition notif_poll_body (i : notif_inner) (w : nat) : notif_inner * ret :=
  if ni_notified i then (mkNI false (ni_waker i) (ni_count i), RReady 0)
  else if ni_count i =? 0 then (i, RClosed)
  else (mkNI false (Some w) (ni_count i), RPending).

Definition notif_step (s : notif) (o : op) : notif * out :=
  match o with
  | Send h _ =>
      match hget (n_senders s) h with
      | HLive => let (i, wk) := notif_notify_body (n_in s) in (mkN i (n_senders s) (n_recv s), mkout RUnit wk)
      | _ => (s, skip)
      end
  | Clone h =>
      match hget (n_senders s) h with
      | HLive => match notif_clone_body (n_in s) with
                 | Some i => (mkN i (n_senders s ++ [HLive]) (n_recv s), mkout RUnit [])
                 | None => (s, mkout RPanic [])
                 end
      | _ => (s, skip)
      end
  | DropS h =>
      if undropped (hget (n_senders s) h) then
        match notif_drop_body (n_in s) with
        | Some (i, wk) => (mkN i (hset (n_senders s) h HDead) (n_recv s), mkout RUnit wk)
        | None => (mkN (n_in s) (hset (n_senders s) h HDead) (n_recv s), mkout RPanic [])
        end
      else (s, skip)
  | Poll w =>
      if n_recv s then
        let (i, r) := notif_poll_body (n_in s) w in (mkN i (n_senders s) true, mkout r [])
      else (s, skip)
  | DropR =>
      if n_recv s then (mkN (n_in s) (n_senders s) false, mkout RUnit []) else (s, skip)
  end.

(* ------------------------------------------------- histories (= interleavings) *)

Section Exec.
  Context {S : Type} (step : S -> op -> S * out).
  Definition run (s : S) (ops : list op) : S := fold_left (fun s o => fst (step s o)) ops s.
  (* what every step returned, paired with the step *)
  Fixpoint trace (s : S) (ops : list op) : list ev :=
    match ops with
    | [] => []
    | o :: t => (o, snd (step s o)) :: trace (fst (step s o)) t
    end.
End Exec.

(* observations on a trace *)
Definition sent_of (e : ev) : list Z :=
  match e with (Send _ v, mkout RUnit _) => [v] | _ => [] end.
Definition recv_of (e : ev) : list Z :=
  match e with (Poll _, mkout (RReady v) _) => [v] | _ => [] end.
Definition sent_vals (tr : list ev) : list Z := flat_map sent_of tr.   (* accepted sends, in order *)
Definition recv_vals (tr : list ev) : list Z := flat_map recv_of tr.   (* received values, in order *)
Definition wakes (tr : list ev) : list nat := flat_map (fun e => o_woke (snd e)) tr.
Definition panics (tr : list ev) : bool :=
  existsb (fun e => match o_ret (snd e) with RPanic => true | _ => false end) tr.
Definition is_poll (o : op) : bool := match o with Poll _ => true | _ => false end.
Definition no_poll (ops : list op) : bool := forallb (fun o => negb (is_poll o)) ops.
Definition is_ready (r : ret) : bool := match r with RReady _ | RClosed => true | _ => false end.
Definition opt_list {A} (x : option A) : list A := match x with Some a => [a] | None => [] end.

(* notification: is a notify outstanding (at least one since the last successful poll)? *)
Definition pending_notify (tr : list ev) : bool :=
  fold_left (fun b e => match e with
                        | (Send _ _, mkout RUnit _) => true
                        | (Poll _, mkout (RReady _) _) => false
                        | _ => b
                        end) tr false.

(* ------------------------------------------- the property as a trace monitor
   Abstract channel: the queue of values sent and not yet received, which sender
   handles exist, whether the receiver exists, and the waker of a receiver whose
   last poll returned Pending and that has not been woken since (parked).  The
   monitor looks only at operations and their observable results (return value,
   wakes) — never at the implementation's fields.
     - a send through a live handle is accepted;
     - poll returns the oldest outstanding value; Closed exactly when nothing is
       outstanding and every sender handle has been dropped; else Pending;
     - after every step: a parked receiver is never left asleep while a poll would
       be Ready (no lost wake-up);
     - no panic. *)

Inductive kind : Type := KOneshot | KMpsc | KNotif.

Record spec : Type := mkSpec { sp_queue : list Z; sp_senders : list hstate; sp_recv : bool; sp_parked : option nat }.
Definition spec_init : spec := mkSpec [] [HLive] true None.

Definition enq (k : kind) (q : list Z) (v : Z) : list Z :=
  match k with KNotif => [0] | _ => q ++ [v] end.      (* notifications coalesce *)
Definition unpark (p : option nat) (woke : list nat) : option nat :=
  match p with
  | Some w => if existsb (Nat.eqb w) woke then None else Some w
  | None => None
  end.
Definition spec_ready (s : spec) : bool :=
  match sp_queue s with
  | _ :: _ => true
  | [] => all_dropped (sp_senders s)
  end.
Definition enabled (k : kind) (s : spec) (o : op) : bool :=
  match o with
  | Send h _ => is_live (hget (sp_senders s) h)
  | Clone h => match k with KOneshot => false | _ => is_live (hget (sp_senders s) h) end
  | DropS h => undropped (hget (sp_senders s) h)
  | Poll _ | DropR => sp_recv s
  end.
(* reject a state in which the receiver sleeps although a poll would be Ready *)
Definition no_sleeper (s : spec) : option spec :=
  match sp_parked s with
  | Some _ => if sp_recv s && spec_ready s then None else Some s
  | None => Some s
  end.
Definition ret_eqb (a b : ret) : bool :=
  match a, b with
  | RSkip, RSkip | RUnit, RUnit | RSendErr, RSendErr | RClosed, RClosed
  | RPending, RPending | RPanic, RPanic => true
  | RReady x, RReady y => x =? y
  | _, _ => false
  end.

Definition spec_step (k : kind) (s : spec) (e : ev) : option spec :=
  let (o, r) := e in
  if negb (enabled k s o) then
    match o_ret r, o_woke r with RSkip, [] => Some s | _, _ => None end
  else
    let p := unpark (sp_parked s) (o_woke r) in
    match o with
    | Send h v =>
        if ret_eqb (o_ret r) RUnit then
          no_sleeper
            (mkSpec (enq k (sp_queue s) v)
                    (match k with KOneshot => hset (sp_senders s) h HSent | _ => sp_senders s end)
                    (sp_recv s) p)
        else None
    | Clone h =>
        if ret_eqb (o_ret r) RUnit then
          no_sleeper (mkSpec (sp_queue s) (sp_senders s ++ [HLive]) (sp_recv s) p)
        else None
    | DropS h =>
        if ret_eqb (o_ret r) RUnit then
          no_sleeper (mkSpec (sp_queue s) (hset (sp_senders s) h HDead) (sp_recv s) p)
        else None
    | DropR =>
        if ret_eqb (o_ret r) RUnit then Some (mkSpec (sp_queue s) (sp_senders s) false None) else None
    | Poll w =>
        match sp_queue s with
        | v :: q' =>
            if ret_eqb (o_ret r) (RReady v) then Some (mkSpec q' (sp_senders s) (sp_recv s) None) else None
        | [] =>
            if all_dropped (sp_senders s) then
              match o_ret r with
              | RClosed => Some (mkSpec [] (sp_senders s) (sp_recv s) None)
              | _ => None
              end
            else if ret_eqb (o_ret r) RPending
                 then Some (mkSpec [] (sp_senders s) (sp_recv s) (Some w)) else None
        end
    end.

Fixpoint spec_run (k : kind) (s : spec) (tr : list ev) : option spec :=
  match tr with
  | [] => Some s
  | e :: t => match spec_step k s e with Some s' => spec_run k s' t | None => None end
  end.
Definition oracle (k : kind) (tr : list ev) : bool :=
  match spec_run k spec_init tr with Some _ => true | None => false end.


(* ------------------------------------- NEGATIVE model: why poll must be ONE section
   OneshotReceiver::poll cut into two critical sections — first the test for a value / a
   dropped sender, then (after cloning the waker outside) the registration, with no re-check.
   This is NOT the code of /repo; it is the granularity of seeded change C34b.  Props/C34.v shows
   that this machine loses a wake-up, i.e. that the theorems really depend on poll being one
   step (the correspondence run checks that granularity on the real code with a second thread
   released from inside the poll). *)
Inductive sop : Type :=
| SAtomic (o : op)          (* any step of the real machine *)
| SPollCheck (w : nat)      (* first section of the split poll *)
| SPollRegister (w : nat).  (* second section: store the waker *)

Definition oneshot_split_step (s : oneshot) (o : sop) : oneshot * out :=
  match o with
  | SAtomic o => oneshot_step s o
  | SPollCheck _ =>
      if o_recv s then
        match oi_data (o_in s) with
        | Some v => (mkO (mkOI None (oi_waker (o_in s)) (oi_has_sender (o_in s))) (o_senders s) true,
                     mkout (RReady v) [])
        | None => if negb (oi_has_sender (o_in s)) then (s, mkout RClosed [])
                  else (s, mkout RPending [])
        end
      else (s, skip)
  | SPollRegister w =>
      if o_recv s then
        (mkO (mkOI (oi_data (o_in s)) (Some w) (oi_has_sender (o_in s))) (o_senders s) true, mkout RUnit [])
      else (s, skip)
  end.
Definition split_run (s : oneshot) (ops : list sop) : oneshot :=
  fold_left (fun s o => fst (oneshot_split_step s o)) ops s.
Fixpoint split_outs (s : oneshot) (ops : list sop) : list out :=
  match ops with
  | [] => []
  | o :: t => snd (oneshot_split_step s o) :: split_outs (fst (oneshot_split_step s o)) t
  end.
