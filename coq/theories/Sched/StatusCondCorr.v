(* Correspondence vocabulary for C32: one case = one operation sequence run on
   the real code together with the observations made after every operation.
   The model trace is compared with the observations (C32_model_ok) and the
   property oracle, which only knows the abstract sets enabled/changed and who
   is waiting on what, is applied to the observations (C32_oracle_ok). *)
From DustDDS Require Export Base.Machine Sched.StatusCondModel.
Open Scope Z_scope.

Inductive C32_case : Type :=
| CDirect (nc nch : nat) (ops : list dop) (out : list (list Z))
| CWait (nc nw : nat) (ops : list wop) (out : list (list Z)).

Definition b2z (b : bool) : Z := if b then 1 else 0.

Fixpoint zs_eqb (a b : list Z) : bool :=
  match a, b with
  | [], [] => true
  | x :: a', y :: b' => (x =? y) && zs_eqb a' b'
  | _, _ => false
  end.
Fixpoint zss_eqb (a b : list (list Z)) : bool :=
  match a, b with
  | [], [] => true
  | x :: a', y :: b' => zs_eqb x y && zss_eqb a' b'
  | _, _ => false
  end.

(* ------------------------------------------------------------- layer A trace *)
Definition poll_code (o : poll_out) : Z :=
  match o with PReady => 0 | PPending => 1 | PClosed => 2 end.

Definition sys_triggers (s : sys) (nc : nat) : list Z :=
  map (fun c => b2z (sys_trigger s c)) (seq 0 nc).

Definition d_obs (d : dsys) (nc nch : nat) : list Z :=
  sys_triggers (d_sys d) nc ++
  map (fun ch => Z.of_nat (wakes (nth ch (chans (d_sys d)) chan_new))) (seq 0 nch).

Definition dstep_out (d : dsys) (o : dop) : Z :=
  match o with
  | DGetTrigger c => b2z (sys_trigger (d_sys d) c)
  | DGetEnabled c => sys_enabled (d_sys d) c
  | DPoll ch => poll_code (snd (sys_poll (d_sys d) ch))
  | DRegister _ ch | DDropSender ch => if holds d ch then 0 else 9
  | _ => 0
  end.

Fixpoint d_trace (fx : bool) (nc nch : nat) (d : dsys) (ops : list dop) : list (list Z) :=
  match ops with
  | [] => []
  | o :: t =>
      let d' := dstep fx d o in
      (dstep_out d o :: d_obs d' nc nch) :: d_trace fx nc nch d' t
  end.

(* ------------------------------------------------- layer A oracle (property) *)
(* abstract state: per condition the sets enabled / changed-since-last-read; the
   registrations not yet answered; per channel whether a notification is owed
   and, if its last poll returned Pending, the wake count seen then *)
Record ospec : Type := mkO {
  o_en : list (StatusKind -> bool);
  o_chg : list (StatusKind -> bool);
  o_live : list (nat * nat);
  o_held : list bool;
  o_owed : list bool;
  o_blk : list (option Z) }.

Definition o_init (nc nch : nat) : ospec :=
  mkO (repeat (fun _ => true) nc) (repeat (fun _ => false) nc) [] (repeat true nch)
      (repeat false nch) (repeat None nch).

Definition o_trigger (o : ospec) (c : nat) : bool :=
  spec_trigger (nth c (o_en o) (fun _ => false)) (nth c (o_chg o) (fun _ => false)).

(* the registrations on a condition whose trigger value is true are answered:
   their channels are owed a notification *)
Fixpoint consume (trig : nat -> bool) (live : list (nat * nat)) (owed : list bool)
  : list (nat * nat) * list bool :=
  match live with
  | [] => ([], owed)
  | (c, ch) :: t =>
      if trig c then consume trig t (upd owed ch true)
      else let (l', o') := consume trig t owed in ((c, ch) :: l', o')
  end.

Definition o_apply (o : ospec) (op : dop) : ospec :=
  match op with
  | DAdd c k => mkO (o_en o) (upd (o_chg o) c (set_add (nth c (o_chg o) (fun _ => false)) k))
                    (o_live o) (o_held o) (o_owed o) (o_blk o)
  | DRemove c k => mkO (o_en o) (upd (o_chg o) c (set_del (nth c (o_chg o) (fun _ => false)) k))
                       (o_live o) (o_held o) (o_owed o) (o_blk o)
  | DSetEnabled c l => mkO (upd (o_en o) c (set_of_list l)) (o_chg o)
                           (o_live o) (o_held o) (o_owed o) (o_blk o)
  | DRegister c ch =>
      if nth ch (o_held o) false && (c <? length (o_en o))%nat
      then mkO (o_en o) (o_chg o) (o_live o ++ [(c, ch)]) (o_held o) (o_owed o) (o_blk o)
      else o
  | DDropSender ch => mkO (o_en o) (o_chg o) (o_live o) (upd (o_held o) ch false) (o_owed o) (o_blk o)
  | _ => o
  end.

(* observations after one op: r = op result, then nc trigger values, then nch wake counts *)
Definition obs_trig (obs : list Z) (c : nat) : Z := nth c obs (-1).
Definition obs_wakes (nc : nat) (obs : list Z) (ch : nat) : Z := nth (nc + ch) obs (-1).

Definition o_step (nc nch : nat) (o : ospec) (op : dop) (line : list Z) : ospec * bool :=
  match line with
  | [] => (o, false)
  | r :: obs =>
      let o1 := o_apply o op in
      (* the poll itself *)
      let '(ok_poll, owed1, blk1) :=
        match op with
        | DPoll ch =>
            (negb (nth ch (o_owed o1) false) || (r =? 0),
             if r =? 0 then upd (o_owed o1) ch false else o_owed o1,
             upd (o_blk o1) ch (if r =? 1 then Some (obs_wakes nc obs ch) else None))
        | _ => (true, o_owed o1, o_blk o1)
        end in
      (* part 1: trigger value = an enabled status has changed, after every op *)
      let ok_trig := forallb (fun c => obs_trig obs c =? b2z (o_trigger o1 c)) (seq 0 nc) in
      let (live2, owed2) := consume (o_trigger o1) (o_live o1) owed1 in
      (* a channel whose wake count moved is no longer blocked *)
      let blk2 := map (fun ch => match nth ch blk1 None with
                                 | Some n => if n <? obs_wakes nc obs ch then None else Some n
                                 | None => None end) (seq 0 nch) in
      (* part 2: nobody who is owed a notification is still parked *)
      let ok_wake := forallb (fun ch => negb (nth ch owed2 false &&
                                              match nth ch blk2 None with Some _ => true | None => false end))
                             (seq 0 nch) in
      (mkO (o_en o1) (o_chg o1) live2 (o_held o1) owed2 blk2,
       ok_poll && ok_trig && ok_wake && (length obs =? nc + nch)%nat)
  end.

Fixpoint o_run (nc nch : nat) (o : ospec) (ops : list dop) (out : list (list Z)) : bool :=
  match ops, out with
  | [], [] => true
  | op :: t, line :: t' => let (o', ok) := o_step nc nch o op line in ok && o_run nc nch o' t t'
  | _, _ => false
  end.

(* --------------------------------------------------------------- the three hooks *)
Definition C32_model_ok (c : C32_case) : bool :=
  match c with
  | CDirect nc nch ops out => zss_eqb (d_trace false nc nch (d_init nc nch) ops) out
  | CWait nc nw ops out => false
  end.

Definition C32_oracle_ok (c : C32_case) : bool :=
  match c with
  | CDirect nc nch ops out => o_run nc nch (o_init nc nch) ops out
  | CWait nc nw ops out => false
  end.

(* class 1: the history contains a set_enabled_statuses that makes the trigger
   value true while notifications are registered (finding C32-enable-no-notify) *)
Definition C32_known (c : C32_case) : N :=
  match c with
  | CDirect nc nch ops _ => if d_d6_free false (d_init nc nch) ops then 0%N else 1%N
  | CWait nc nw ops _ => if w_d6_free false (w_init nc nw) ops then 0%N else 1%N
  end.
