(* Correspondence vocabulary for C32: one case = one operation sequence run on
   the real code together with the observations made after every operation.
   The model trace is compared with the observations (C32_model_ok) and the
   property oracle, which only knows the abstract sets enabled/changed and who
   is waiting on what, is applied to the observations (C32_oracle_ok). *)
From DustDDS Require Export Base.Machine Sched.StatusCondModel.
Open Scope Z_scope.

(* what the harness does with the real wait futures: one [HStep] is one poll of
   the future followed by the worker handling the mail it sent *)
Inductive hop : Type :=
| HAdd (c : nat) (k : StatusKind)
| HRemove (c : nat) (k : StatusKind)
| HSet (c : nat) (l : list StatusKind)
| HGet (c : nat)
| HGetEn (c : nat)                   (* get_enabled_statuses, as a bit mask *)
| HStart (w : nat) (cs : list nat)   (* drop whatever call waiter w had, build a wait set, call wait() *)
| HStep (w : nat)
| HCancel (w : nat).

Inductive C32_case : Type :=
| CDirect (nc nch : nat) (ops : list dop) (out : list Z)
| CWait (nc nw : nat) (ops : list hop) (out : list Z).

(* the observations of one step are written as one number: 1 followed by the
   base-65536 digits (value + 4), most significant first (keeps the case files small) *)
Fixpoint unpack_aux (fuel : nat) (z : Z) (acc : list Z) : list Z :=
  match fuel with
  | O => acc
  | S f => if z <=? 1 then acc else unpack_aux f (z / 65536) ((z mod 65536 - 4) :: acc)
  end.
Definition unpack (z : Z) : list Z := unpack_aux 64 z [].

Definition b2z (b : bool) : Z := if b then 1 else 0.

Fixpoint zs_eqb (a b : list Z) : bool :=
  match a, b with
  | [], [] => true
  | x :: a', y :: b' => (x =? y) && zs_eqb a' b'
  | _, _ => false
  end.
Fixpoint zss_eqb (a b : list (list Z)) : bool :=
  match a, b with
  | [], [] => true
  | x :: a', y :: b' => zs_eqb x y && zss_eqb a' b'
  | _, _ => false
  end.

(* ------------------------------------------------------------- layer A trace *)
Definition poll_code (o : poll_out) : Z :=
  match o with PReady => 0 | PPending => 1 | PClosed => 2 end.

Definition sys_triggers (s : sys) (nc : nat) : list Z :=
  map (fun c => b2z (sys_trigger s c)) (seq 0 nc).

Definition d_obs (d : dsys) (nc nch : nat) : list Z :=
  sys_triggers (d_sys d) nc ++
  map (fun ch => Z.of_nat (wakes (nth ch (chans (d_sys d)) chan_new))) (seq 0 nch).

Definition dstep_out (d : dsys) (o : dop) : Z :=
  match o with
  | DGetTrigger c => b2z (sys_trigger (d_sys d) c)
  | DGetEnabled c => sys_enabled (d_sys d) c
  | DPoll ch => poll_code (snd (sys_poll (d_sys d) ch))
  | DRegister _ ch | DDropSender ch => if holds d ch then 0 else 9
  | _ => 0
  end.

Fixpoint d_trace (fx : bool) (nc nch : nat) (d : dsys) (ops : list dop) : list (list Z) :=
  match ops with
  | [] => []
  | o :: t =>
      let d' := dstep fx d o in
      (dstep_out d o :: d_obs d' nc nch) :: d_trace fx nc nch d' t
  end.

(* a mask read back through get_enabled_statuses shows exactly the enabled set *)
Definition mask_shows (r : Z) (en : StatusKind -> bool) : bool :=
  (0 <=? r) && (r <? 8192) &&
  forallb (fun k => Bool.eqb (Z.testbit r (kind_idx k)) (en k)) all_kinds.

(* ------------------------------------------------- layer A oracle (property) *)
(* abstract state: per condition the sets enabled / changed-since-last-read; the
   registrations not yet answered; per channel whether a notification is owed
   and, if its last poll returned Pending, the wake count seen then *)
Record ospec : Type := mkO {
  o_en : list (StatusKind -> bool);
  o_chg : list (StatusKind -> bool);
  o_live : list (nat * nat);
  o_held : list bool;
  o_owed : list bool;
  o_blk : list (option Z) }.

Definition o_init (nc nch : nat) : ospec :=
  mkO (repeat (fun _ => true) nc) (repeat (fun _ => false) nc) [] (repeat true nch)
      (repeat false nch) (repeat None nch).

Definition o_trigger (o : ospec) (c : nat) : bool :=
  spec_trigger (nth c (o_en o) (fun _ => false)) (nth c (o_chg o) (fun _ => false)).

(* the registrations on a condition whose trigger value is true are answered:
   their channels are owed a notification *)
Fixpoint consume (trig : nat -> bool) (live : list (nat * nat)) (owed : list bool)
  : list (nat * nat) * list bool :=
  match live with
  | [] => ([], owed)
  | (c, ch) :: t =>
      if trig c then consume trig t (upd owed ch true)
      else let (l', o') := consume trig t owed in ((c, ch) :: l', o')
  end.

Definition o_apply (o : ospec) (op : dop) : ospec :=
  match op with
  | DAdd c k => mkO (o_en o) (upd (o_chg o) c (set_add (nth c (o_chg o) (fun _ => false)) k))
                    (o_live o) (o_held o) (o_owed o) (o_blk o)
  | DRemove c k => mkO (o_en o) (upd (o_chg o) c (set_del (nth c (o_chg o) (fun _ => false)) k))
                       (o_live o) (o_held o) (o_owed o) (o_blk o)
  | DSetEnabled c l => mkO (upd (o_en o) c (set_of_list l)) (o_chg o)
                           (o_live o) (o_held o) (o_owed o) (o_blk o)
  | DRegister c ch =>
      if nth ch (o_held o) false && (c <? length (o_en o))%nat
      then mkO (o_en o) (o_chg o) (o_live o ++ [(c, ch)]) (o_held o) (o_owed o) (o_blk o)
      else o
  | DDropSender ch => mkO (o_en o) (o_chg o) (o_live o) (upd (o_held o) ch false) (o_owed o) (o_blk o)
  | _ => o
  end.

(* observations after one op: r = op result, then nc trigger values, then nch wake counts *)
Definition obs_trig (obs : list Z) (c : nat) : Z := nth c obs (-1).
Definition obs_wakes (nc : nat) (obs : list Z) (ch : nat) : Z := nth (nc + ch) obs (-1).

Definition o_step (nc nch : nat) (o : ospec) (op : dop) (line : list Z) : ospec * bool :=
  match line with
  | [] => (o, false)
  | r :: obs =>
      let o1 := o_apply o op in
      (* the poll itself *)
      let '(ok_poll, owed1, blk1) :=
        match op with
        | DPoll ch =>
            (negb (nth ch (o_owed o1) false) || (r =? 0),
             if r =? 0 then upd (o_owed o1) ch false else o_owed o1,
             upd (o_blk o1) ch (if r =? 1 then Some (obs_wakes nc obs ch) else None))
        | DGetEnabled c =>
            (if (c <? nc)%nat then mask_shows r (nth c (o_en o1) (fun _ => false)) else true, o_owed o1, o_blk o1)
        | DGetTrigger c => (r =? b2z (o_trigger o1 c), o_owed o1, o_blk o1)
        | _ => (true, o_owed o1, o_blk o1)
        end in
      (* part 1: trigger value = an enabled status has changed, after every op *)
      let ok_trig := forallb (fun c => obs_trig obs c =? b2z (o_trigger o1 c)) (seq 0 nc) in
      let (live2, owed2) := consume (o_trigger o1) (o_live o1) owed1 in
      (* a channel whose wake count moved is no longer blocked *)
      let blk2 := map (fun ch => match nth ch blk1 None with
                                 | Some n => if n <? obs_wakes nc obs ch then None else Some n
                                 | None => None end) (seq 0 nch) in
      (* part 2: nobody who is owed a notification is still parked *)
      let ok_wake := forallb (fun ch => negb (nth ch owed2 false &&
                                              match nth ch blk2 None with Some _ => true | None => false end))
                             (seq 0 nch) in
      (mkO (o_en o1) (o_chg o1) live2 (o_held o1) owed2 blk2,
       ok_poll && ok_trig && ok_wake && (length obs =? nc + nch)%nat)
  end.

Fixpoint o_run (nc nch : nat) (o : ospec) (ops : list dop) (out : list (list Z)) : bool :=
  match ops, out with
  | [], [] => true
  | op :: t, line :: t' => let (o', ok) := o_step nc nch o op line in ok && o_run nc nch o' t t'
  | _, _ => false
  end.


(* ------------------------------------------------------------- layer B trace *)
(* How the harness steps map to model steps.  A poll of the future runs it up
   to the next mail it sends; the worker then handles that mail.  So one HStep
   is one model step, except that a poll which finds the notification (Await,
   Ready) goes on to send the first GetTriggerValue of the collect loop in the
   same poll (two model steps), and that the completion of the call is seen by
   the poll after the last mail (the caller takes the result: WTake). *)
Definition pc_of (s : wsys) (w : nat) : wpc :=
  match nth_error (w_waiters s) w with Some wt => w_pc wt | None => Idle end.

Definition enc (l : list nat) : Z := fold_left (fun a c => a * 16 + Z.of_nat (S c)) l 0.
Definition res_code (r : res (list nat)) : Z :=
  match r with
  | Ok l => enc l
  | Err 1 => -2      (* PreconditionNotMet *)
  | Err 2 => -3      (* AlreadyDeleted *)
  | _ => -4
  end.

(* the model steps of one harness step, its result code, and whether a mail was sent *)
Definition h_ops (fx : bool) (s : wsys) (o : hop) : list wop * Z * Z :=
  match o with
  | HAdd c k => ([WAdd c k], 0, 0)
  | HRemove c k => ([WRemove c k], 0, 0)
  | HSet c l => ([WSetEnabled c l], 0, 0)
  | HGet c => ([WGetTrigger c], b2z (sys_trigger (w_sys s) c), 0)
  | HGetEn c => ([], sys_enabled (w_sys s) c, 0)
  | HStart w cs => ([WCancel w; WTake w; WStart w cs], 0, 0)
  | HCancel w => ([WCancel w; WTake w], 0, 0)
  | HStep w =>
      match pc_of s w with
      | Idle => ([], -1, 0)
      | Done r => ([WTake w], res_code r, 0)
      | Await =>
          let s1 := wstep fx s (WStep w) in
          match pc_of s1 w with
          | Check2 _ _ => ([WStep w; WStep w], -1, 1)
          | Done r => ([WStep w; WTake w], res_code r, 0)
          | _ => ([WStep w], -1, 0)
          end
      | _ => ([WStep w], -1, 1)
      end
  end.

(* waiters (as a bit mask) whose waker was called during the step, the stepped one excepted *)
Definition woken_mask (s s' : wsys) (own : option nat) (nw : nat) : Z :=
  fold_left (fun a w =>
    match nth_error (w_waiters s') w with
    | Some wt =>
        let self := match own with Some o => Nat.eqb o w | None => false end in
        if has_chan (w_pc wt) && negb self &&
           (wakes (nth (w_ch wt) (chans (w_sys s)) chan_new) <? wakes (nth (w_ch wt) (chans (w_sys s')) chan_new))%nat
        then a + 2 ^ Z.of_nat w else a
    | None => a
    end) (seq 0 nw) 0.

Fixpoint w_trace (fx : bool) (nc nw : nat) (s : wsys) (ops : list hop) : list (list Z) :=
  match ops with
  | [] => []
  | o :: t =>
      let '(ms, r, m) := h_ops fx s o in
      let s' := wrun fx s ms in
      let own := match o with HStep w => Some w | _ => None end in
      (r :: m :: sys_triggers (w_sys s') nc ++ [woken_mask s s' own nw]) :: w_trace fx nc nw s' t
  end.

(* all model steps of a case, for the known class *)
Fixpoint h_expand (fx : bool) (s : wsys) (ops : list hop) : list wop :=
  match ops with
  | [] => []
  | o :: t => let '(ms, _, _) := h_ops fx s o in ms ++ h_expand fx (wrun fx s ms) t
  end.

(* ------------------------------------------------- layer B oracle (property) *)
(* abstract state: per condition the sets enabled / changed; per waiter whether a
   wait() call is in progress, on which conditions, whether it is blocked (its
   last poll sent no mail and its waker was not called since), and for every
   attached condition for how many of the waiter's own steps (polls) it has been
   true / false without interruption *)
Record wsp : Type := mkSp { sp_run : bool; sp_att : list nat; sp_blk : bool;
                            sp_tt : list nat; sp_ff : list nat }.
Record wspec : Type := mkWS { ws_en : list (StatusKind -> bool); ws_chg : list (StatusKind -> bool);
                              ws_w : list wsp }.

Definition ws_init (nc nw : nat) : wspec :=
  mkWS (repeat (fun _ => true) nc) (repeat (fun _ => false) nc) (repeat (mkSp false [] false [] []) nw).

Definition ws_trigger (o : wspec) (c : nat) : bool :=
  spec_trigger (nth c (ws_en o) (fun _ => false)) (nth c (ws_chg o) (fun _ => false)).

Fixpoint dec (fuel : nat) (r : Z) : list nat :=
  match fuel with
  | O => []
  | S f => if r <=? 0 then [] else dec f (r / 16) ++ [Z.to_nat (r mod 16 - 1)]
  end.

Definition mem (x : nat) (l : list nat) : bool := existsb (Nat.eqb x) l.

(* the result of a finished call: Err(PreconditionNotMet) iff nothing is attached;
   otherwise a list of attached conditions that is not staler than one collect
   loop: it contains every condition that has been true during the last
   |attached|+1 polls of the call (in particular during the whole call) and none
   that has been false during that time *)
Definition result_ok (nc : nat) (sp : wsp) (r : Z) : bool :=
  sp_run sp &&
  match sp_att sp with
  | [] => r =? -2
  | att =>
      (0 <=? r) &&
      let res := dec 16 r in
      forallb (fun c => mem c att && (c <? nc)%nat) res &&
      forallb (fun i => let c := nth i att 0%nat in
                        (negb (length att <? nth i (sp_tt sp) 0)%nat || mem c res) &&
                        (negb (length att <? nth i (sp_ff sp) 0)%nat || negb (mem c res)))
              (seq 0 (length att))
  end.

Definition testbitZ (m : Z) (w : nat) : bool := Z.odd (m / 2 ^ Z.of_nat w).

Definition ws_step (nc nw : nat) (o : wspec) (op : hop) (line : list Z) : wspec * bool :=
  match line with
  | r :: m :: obs =>
      let def := fun _ : StatusKind => false in
      let en1 := match op with HSet c l => upd (ws_en o) c (set_of_list l) | _ => ws_en o end in
      let chg1 := match op with
                  | HAdd c k => upd (ws_chg o) c (set_add (nth c (ws_chg o) def) k)
                  | HRemove c k => upd (ws_chg o) c (set_del (nth c (ws_chg o) def) k)
                  | _ => ws_chg o end in
      let o1 := mkWS en1 chg1 (ws_w o) in
      let idle := mkSp false [] false [] [] in
      let '(ws1, ok_op) :=
        match op with
        | HStart w cs =>
            (upd (ws_w o) w (mkSp true cs false (map (fun _ => 0%nat) cs) (map (fun _ => 0%nat) cs)), true)
        | HCancel w => (upd (ws_w o) w idle, true)
        | HStep w =>
            let sp0 := nth w (ws_w o) idle in
            (* one more poll of this waiter *)
            let sp := mkSp (sp_run sp0) (sp_att sp0) (sp_blk sp0) (map S (sp_tt sp0)) (map S (sp_ff sp0)) in
            if r =? -1
            then (upd (ws_w o) w (mkSp (sp_run sp) (sp_att sp) (sp_run sp && (m =? 0)) (sp_tt sp) (sp_ff sp)), true)
            else (upd (ws_w o) w idle, result_ok nc sp r)
        | HGet c => (ws_w o, r =? b2z (ws_trigger o1 c))
        | HGetEn c => (ws_w o, if (c <? nc)%nat then mask_shows r (nth c en1 def) else true)
        | _ => (ws_w o, true)
        end in
      (* part 1: trigger value = an enabled status has changed, after every op *)
      let ok_trig := forallb (fun c => nth c obs (-1) =? b2z (ws_trigger o1 c)) (seq 0 nc) in
      let woken := nth nc obs 0 in
      let ws2 := map (fun w =>
                   let sp := nth w ws1 idle in
                   mkSp (sp_run sp) (sp_att sp) (sp_blk sp && negb (testbitZ woken w))
                        (map (fun i => if ws_trigger o1 (nth i (sp_att sp) 0%nat) then nth i (sp_tt sp) 0%nat else 0%nat)
                             (seq 0 (length (sp_att sp))))
                        (map (fun i => if ws_trigger o1 (nth i (sp_att sp) 0%nat) then 0%nat else nth i (sp_ff sp) 0%nat)
                             (seq 0 (length (sp_att sp)))))
                   (seq 0 nw) in
      (* part 2: no waiter is blocked while one of its attached conditions is true *)
      let ok_blk := forallb (fun sp => negb (sp_run sp && sp_blk sp) ||
                                       forallb (fun c => negb ((c <? nc)%nat && ws_trigger o1 c)) (sp_att sp)) ws2 in
      (mkWS en1 chg1 ws2, ok_op && ok_trig && ok_blk && (length obs =? S nc)%nat)
  | _ => (o, false)
  end.

Fixpoint ws_run (nc nw : nat) (o : wspec) (ops : list hop) (out : list (list Z)) : bool :=
  match ops, out with
  | [], [] => true
  | op :: t, line :: t' => let (o', ok) := ws_step nc nw o op line in ok && ws_run nc nw o' t t'
  | _, _ => false
  end.

(* --------------------------------------------------------------- the three hooks *)
(* which set_enabled_statuses the code in /repo has: false = as found (finding
   C32-enable-no-notify), true = proposed_fixes/C32-enable-no-notify.diff applied *)
Definition C32_fx : bool := true.

Definition C32_model_ok (c : C32_case) : bool :=
  match c with
  | CDirect nc nch ops out => zss_eqb (d_trace C32_fx nc nch (d_init nc nch) ops) (map unpack out)
  | CWait nc nw ops out => zss_eqb (w_trace C32_fx nc nw (w_init nc nw) ops) (map unpack out)
  end.

Definition C32_oracle_ok (c : C32_case) : bool :=
  match c with
  | CDirect nc nch ops out => o_run nc nch (o_init nc nch) ops (map unpack out)
  | CWait nc nw ops out => ws_run nc nw (ws_init nc nw) ops (map unpack out)
  end.

(* class 1: the history contains a set_enabled_statuses that makes the trigger
   value true while notifications are registered (finding C32-enable-no-notify) *)
Definition C32_known (c : C32_case) : N :=
  match c with
  | CDirect nc nch ops _ => if d_d6_free C32_fx (d_init nc nch) ops then 0%N else 1%N
  | CWait nc nw ops _ =>
      if w_d6_free C32_fx (w_init nc nw) (h_expand C32_fx (w_init nc nw) ops) then 0%N else 1%N
  end.
