(* C42 — model of dds/src/std_runtime/timer.rs (definitions only).

   Time is Z nanoseconds on the monotonic clock (std::time::Instant).  The state
   holds the objects that exist at run time:
     - the Sleep futures that are alive (id, deadline : Option<Instant>, duration),
     - the mpsc channel to the timer thread (FIFO list of TimerMessage),
     - the timer thread: its BinaryHeap<TimerWake> (a multiset; pop takes an entry
       of minimal deadline, the tie-break of std's BinaryHeap is left open) and the
       place in its loop (pc),
     - a log of the observable events (Poll::Ready, waker.wake(), ...).
   One `op` is one atomic step of one thread; a list of ops is an interleaving.
   Every `Instant::now()` reads `clock`; `Tick` advances it (any thread timing).
   What the model cannot exhibit: how long the OS takes to schedule the timer
   thread, park/unpark, and the accuracy of recv_timeout (TTimeout is merely
   allowed once the limit is reached). *)
From DustDDS Require Export Base.Machine.
Open Scope Z_scope.

Definition NSEC : Z := 1000000000.
(* Instant on Linux: i64 seconds + nanoseconds; checked_add fails beyond this *)
Definition instant_max : Z := i64_max * NSEC + 999999999.
Definition day_ns : Z := 86400 * NSEC.

(* Sleep::reset: now.checked_add(duration), else now + 1 day, else now *)
Definition add_dur (now dur : Z) : Z :=
  if now + dur <=? instant_max then now + dur
  else if now + day_ns <=? instant_max then now + day_ns
  else now.

(* TimerWake: id, deadline, waker.  The waker is represented by a token: the
   ordinal of the Pending poll that cloned it (unique). *)
Record wake : Type := mkW { w_id : Z; w_dl : Z; w_tok : Z }.
Inductive msg : Type := MWake (w : wake) | MCancel (id : Z).

(* Sleep { id, deadline, duration }; s_t0 is a ghost: the clock reading of the
   reset that set the deadline *)
Record sleep : Type := mkS { s_id : Z; s_dl : option Z; s_dur : Z; s_t0 : Z }.

(* where the timer thread is in its loop:
   Firing            = in `while timer_heap.is_next_timer_elapsed()`
   Receiving lim seen = blocked in recv_timeout(d)/recv(); lim = the deadline the
                       timeout was computed from (None = recv() forever); seen is a
                       ghost: the clock reading at which nothing was found due
   Stopped           = left the loop (channel disconnected) *)
Inductive tpc : Type := Firing | Receiving (lim : option Z) (seen : Z) | Stopped.

Inductive ev : Type :=
| EvReady (id now dl t0 dur : Z)   (* Sleep::poll returned Ready at clock reading now *)
| EvSent (w : wake)                (* Sleep::poll returned Pending after sending Wake(w) *)
| EvWoken (w : wake) (now : Z)     (* timer thread called w.waker.wake(); now = its clock reading *)
| EvDropped (id : Z)               (* Sleep dropped, Cancel(id) sent *)
| EvCancelled (id : Z)             (* timer thread consumed Cancel(id) *)
| EvPanic.                         (* "Shouldn't fail to send" *)

Record st : Type := mkSt {
  clock : Z;
  next_id : Z;            (* HandleInner.sleep_task_id *)
  next_tok : Z;           (* ghost: number of wakers cloned so far *)
  handles : bool;         (* TimerDriver / TimerHandle still alive *)
  sleeps : list sleep;
  queue : list msg;       (* channel contents, head = oldest *)
  heap : list wake;
  pc : tpc;
  log : list ev           (* newest first *)
}.

Definition init : st := mkSt 0 0 0 true [] [] [] Firing [].

Inductive op : Type :=
| Tick (d : Z)               (* time passes *)
| HSleep (dur : Z)           (* TimerHandle::sleep(dur) *)
| HDropHandles               (* TimerDriver and all TimerHandles dropped *)
| SPoll (id delta : Z)       (* Sleep::poll; delta = time between the two clock reads *)
| SElapsed (id : Z)          (* Sleep::is_elapsed *)
| SReset (id : Z)            (* Sleep::reset *)
| SDrop (id : Z)             (* drop(Sleep) *)
| TFire (tok : Z)            (* loop body: pop the (a) minimal entry, which is due, and wake it *)
| TIdle                      (* loop condition false: compute the timeout, block in recv *)
| TRecv                      (* recv returned a message: push / remove *)
| TTimeout                   (* recv_timeout returned Timeout *)
| TStop.                     (* recv returned Disconnected *)

Inductive out : Type :=
| ODisabled                  (* the step cannot happen in this state *)
| ONone
| ONew (id : Z)
| OPoll (ready : bool) (dl : Z)
| OBool (b : bool)
| ODl (dl : Z)
| OWoken (w : wake).

(* ---- helpers ---- *)
Fixpoint find_sleep (id : Z) (l : list sleep) : option sleep :=
  match l with
  | [] => None
  | s :: t => if s_id s =? id then Some s else find_sleep id t
  end.
Fixpoint upd_sleep (s' : sleep) (l : list sleep) : list sleep :=
  match l with
  | [] => []
  | s :: t => if s_id s =? s_id s' then s' :: t else s :: upd_sleep s' t
  end.
Definition del_sleep (id : Z) (l : list sleep) : list sleep :=
  filter (fun s => negb (s_id s =? id)) l.

Fixpoint find_tok (tok : Z) (h : list wake) : option wake :=
  match h with
  | [] => None
  | w :: t => if w_tok w =? tok then Some w else find_tok tok t
  end.
Fixpoint del_tok (tok : Z) (h : list wake) : list wake :=
  match h with
  | [] => []
  | w :: t => if w_tok w =? tok then t else w :: del_tok tok t
  end.
(* Ord for TimerWake is reversed on the deadline: the max of the heap is an entry
   of minimal deadline *)
Definition is_min (w : wake) (h : list wake) : bool :=
  forallb (fun x => w_dl w <=? w_dl x) h.
Definition none_due (now : Z) (h : list wake) : bool :=
  forallb (fun x => now <=? w_dl x) h.
Fixpoint min_dl (h : list wake) : option Z :=
  match h with
  | [] => None
  | w :: t => match min_dl t with None => Some (w_dl w) | Some m => Some (Z.min (w_dl w) m) end
  end.
(* TimerHeap::remove *)
Definition heap_remove (id : Z) (h : list wake) : list wake :=
  filter (fun w => negb (w_id w =? id)) h.

(* Sleep::is_elapsed *)
Definition elapsed (s : sleep) (now : Z) : bool :=
  match s_dl s with Some d => d <? now | None => false end.

Definition set_log (s : st) (e : ev) : st :=
  mkSt (clock s) (next_id s) (next_tok s) (handles s) (sleeps s) (queue s) (heap s) (pc s) (e :: log s).

(* ---- the steps ---- *)
Definition do_tick (s : st) (d : Z) : st * out :=
  (mkSt (clock s + Z.max 0 d) (next_id s) (next_tok s) (handles s) (sleeps s) (queue s) (heap s) (pc s) (log s), ONone).

Definition do_sleep (s : st) (dur : Z) : st * out :=
  if handles s && (0 <=? dur) then
    (mkSt (clock s) (next_id s + 1) (next_tok s) (handles s)
          (sleeps s ++ [mkS (next_id s) None dur 0]) (queue s) (heap s) (pc s) (log s),
     ONew (next_id s))
  else (s, ODisabled).

Definition do_drop_handles (s : st) : st * out :=
  (mkSt (clock s) (next_id s) (next_tok s) false (sleeps s) (queue s) (heap s) (pc s) (log s), ONone).

Definition do_poll (s : st) (id delta : Z) : st * out :=
  match find_sleep id (sleeps s) with
  | None => (s, ODisabled)
  | Some sl =>
      if elapsed sl (clock s) then
        match s_dl sl with
        | Some d => (set_log s (EvReady id (clock s) d (s_t0 sl) (s_dur sl)), OPoll true d)
        | None => (s, ODisabled)
        end
      else
        (* first poll: reset() reads the clock again *)
        let now2 := match s_dl sl with None => clock s + Z.max 0 delta | Some _ => clock s end in
        let sl' := match s_dl sl with
                   | None => mkS id (Some (add_dur now2 (s_dur sl))) (s_dur sl) now2
                   | Some _ => sl
                   end in
        let d := match s_dl sl' with Some d => d | None => 0 end in
        let w := mkW id d (next_tok s) in
        match pc s with
        | Stopped =>
            (mkSt now2 (next_id s) (next_tok s + 1) (handles s) (upd_sleep sl' (sleeps s))
                  (queue s) (heap s) (pc s) (EvPanic :: log s), OPoll false d)
        | _ =>
            (mkSt now2 (next_id s) (next_tok s + 1) (handles s) (upd_sleep sl' (sleeps s))
                  (queue s ++ [MWake w]) (heap s) (pc s) (EvSent w :: log s), OPoll false d)
        end
  end.

Definition do_elapsed (s : st) (id : Z) : st * out :=
  match find_sleep id (sleeps s) with
  | None => (s, ODisabled)
  | Some sl => (s, OBool (elapsed sl (clock s)))
  end.

Definition do_reset (s : st) (id : Z) : st * out :=
  match find_sleep id (sleeps s) with
  | None => (s, ODisabled)
  | Some sl =>
      let d := add_dur (clock s) (s_dur sl) in
      (mkSt (clock s) (next_id s) (next_tok s) (handles s)
            (upd_sleep (mkS id (Some d) (s_dur sl) (clock s)) (sleeps s))
            (queue s) (heap s) (pc s) (log s), ODl d)
  end.

Definition do_drop (s : st) (id : Z) : st * out :=
  match find_sleep id (sleeps s) with
  | None => (s, ODisabled)
  | Some _ =>
      (mkSt (clock s) (next_id s) (next_tok s) (handles s) (del_sleep id (sleeps s))
            (match pc s with Stopped => queue s | _ => queue s ++ [MCancel id] end)
            (heap s) (pc s) (EvDropped id :: log s), ONone)
  end.

Definition do_fire (s : st) (tok : Z) : st * out :=
  match pc s, find_tok tok (heap s) with
  | Firing, Some w =>
      if is_min w (heap s) && (w_dl w <? clock s) then
        (mkSt (clock s) (next_id s) (next_tok s) (handles s) (sleeps s) (queue s)
              (del_tok tok (heap s)) Firing (EvWoken w (clock s) :: log s), OWoken w)
      else (s, ODisabled)
  | _, _ => (s, ODisabled)
  end.

Definition do_idle (s : st) : st * out :=
  match pc s with
  | Firing =>
      if none_due (clock s) (heap s) then
        (mkSt (clock s) (next_id s) (next_tok s) (handles s) (sleeps s) (queue s) (heap s)
              (Receiving (min_dl (heap s)) (clock s)) (log s), ONone)
      else (s, ODisabled)
  | _ => (s, ODisabled)
  end.

Definition do_recv (s : st) : st * out :=
  match pc s, queue s with
  | Receiving _ _, MWake w :: q =>
      (mkSt (clock s) (next_id s) (next_tok s) (handles s) (sleeps s) q (w :: heap s) Firing (log s), ONone)
  | Receiving _ _, MCancel id :: q =>
      (mkSt (clock s) (next_id s) (next_tok s) (handles s) (sleeps s) q (heap_remove id (heap s)) Firing
            (EvCancelled id :: log s), ONone)
  | _, _ => (s, ODisabled)
  end.

Definition do_timeout (s : st) : st * out :=
  match pc s with
  | Receiving (Some lim) _ =>
      if lim <=? clock s then
        (mkSt (clock s) (next_id s) (next_tok s) (handles s) (sleeps s) (queue s) (heap s) Firing (log s), ONone)
      else (s, ODisabled)
  | _ => (s, ODisabled)
  end.

Definition do_stop (s : st) : st * out :=
  match pc s, queue s, sleeps s, handles s with
  | Receiving _ _, [], [], false =>
      (mkSt (clock s) (next_id s) (next_tok s) (handles s) (sleeps s) (queue s) (heap s) Stopped (log s), ONone)
  | _, _, _, _ => (s, ODisabled)
  end.

Definition step (s : st) (o : op) : st * out :=
  match o with
  | Tick d => do_tick s d
  | HSleep dur => do_sleep s dur
  | HDropHandles => do_drop_handles s
  | SPoll id delta => do_poll s id delta
  | SElapsed id => do_elapsed s id
  | SReset id => do_reset s id
  | SDrop id => do_drop s id
  | TFire tok => do_fire s tok
  | TIdle => do_idle s
  | TRecv => do_recv s
  | TTimeout => do_timeout s
  | TStop => do_stop s
  end.

Definition step_st (s : st) (o : op) : st := fst (step s o).
Definition run (ops : list op) (s : st) : st := fold_left step_st ops s.

(* ---- vocabulary of the theorems ---- *)
Definition is_wake_of (id : Z) (m : msg) : bool :=
  match m with MWake w => w_id w =? id | MCancel _ => false end.
Definition is_cancel_of (id : Z) (m : msg) : bool :=
  match m with MCancel i => i =? id | MWake _ => false end.
Definition heap_has (id : Z) (h : list wake) : bool := existsb (fun w => w_id w =? id) h.

(* will the heap hold an entry of `id` once the whole queue has been consumed
   (h = does it hold one now)? *)
Fixpoint residue (id : Z) (q : list msg) (h : bool) : bool :=
  match q with
  | [] => h
  | MWake w :: q' => residue id q' (h || (w_id w =? id))
  | MCancel i :: q' => residue id q' (if i =? id then false else h)
  end.

(* the wake-ups issued for sleep id so far *)
Definition woken_of (id : Z) (l : list ev) : list ev :=
  filter (fun e => match e with EvWoken w _ => w_id w =? id | _ => false end) l.

Definition alive (id : Z) (s : st) : Prop := exists sl, find_sleep id (sleeps s) = Some sl.
(* id was handed out and its Sleep has been dropped *)
Definition dropped (id : Z) (s : st) : Prop :=
  0 <= id < next_id s /\ find_sleep id (sleeps s) = None.
(* the Cancel(id) message is no longer in the channel *)
Definition cancel_consumed (id : Z) (s : st) : Prop :=
  existsb (is_cancel_of id) (queue s) = false.
