(* Correspondence vocabulary for C31: one case = one whole-stack simulation scenario
   (harness bin `timing`) together with what the real code did: the delays it asked the
   timer for during every op, the listener calls, the result of a blocked write. *)
From DustDDS Require Export Base.Machine Time.TimeModel Sched.WorkerModel.
Open Scope Z_scope.

(* observation of one op: the delays requested during the op (time of request, ns) and,
   per writer / per reader, (number of OFFERED/REQUESTED_DEADLINE_MISSED listener calls during
   the op, total_count of the last); the reply of a status query *)
Record obs : Type := mkObs { o_delays : list (Z * Z); o_wsig : list (Z * Z); o_rsig : list (Z * Z); o_reply : Z }.

Inductive C31_case : Type :=
| CSim (interval_ns : Z) (ops : list (sop * obs))
| CBlock (mbt : Z) (poisoned : bool) (rc : Z) (elapsed : Z) (delays : list (Z * Z))
(* a scenario outside the modelled family (several participants, discovery, lease expiry):
   only the property oracle is applied to the observed delays *)
| CFree (ops : list (sop * obs)).

Definition pair_eqb (a b : Z * Z) : bool := (fst a =? fst b) && (snd a =? snd b).
Fixpoint list_eqb {A B} (e : A -> B -> bool) (x : list A) (y : list B) : bool :=
  match x, y with
  | [], [] => true
  | a :: x', b :: y' => e a b && list_eqb e x' y'
  | _, _ => false
  end.
Definition delay_eqb (p : Z * res Z) (o : Z * Z) : bool :=
  (fst p =? fst o) && match snd p with Ok d => d =? snd o | _ => false end.

(* listener calls of one writer during an op, from the counter before / after *)
Definition wsig_of (before after : swriter) : Z * Z :=
  let n := sw_odm after - sw_odm before in (n, if 0 <? n then sw_odm after else 0).
Fixpoint wsigs (before after : list swriter) : list (Z * Z) :=
  match before, after with
  | b :: bs, a :: as_ => wsig_of b a :: wsigs bs as_
  | [], a :: as_ => (0, 0) :: wsigs [] as_
  | _, [] => []
  end.

Definition rsig_of (before after : sreader) : Z * Z :=
  let n := sr_rdm after - sr_rdm before in (n, if 0 <? n then sr_rdm after else 0).
Fixpoint rsigs (before after : list sreader) : list (Z * Z) :=
  match before, after with
  | b :: bs, a :: as_ => rsig_of b a :: rsigs bs as_
  | [], a :: as_ => (0, 0) :: rsigs [] as_
  | _, [] => []
  end.

Fixpoint run_sim (s : sstate) (ops : list (sop * obs)) : bool * sstate :=
  match ops with
  | [] => (true, s)
  | (o, ob) :: r =>
      let '(s1, ds, rep) := step s o (length (o_delays ob)) in
      let ok := list_eqb delay_eqb ds (o_delays ob) &&
                list_eqb pair_eqb (wsigs (ss_writers s) (ss_writers s1)) (o_wsig ob) &&
                list_eqb pair_eqb (rsigs (ss_readers s) (ss_readers s1)) (o_rsig ob) &&
                (rep =? o_reply ob) in
      let '(okr, s2) := run_sim s1 r in (ok && okr, s2)
  end.

Definition C31_model_ok (c : C31_case) : bool :=
  match c with
  | CSim iv ops => fst (run_sim (init_state iv) ops)
  | CBlock mbt poisoned rc elapsed _ =>
      (* `poisoned` = another writer of the participant is several deadline periods behind
         (regression scenario of the fixed finding C31-negative-sleep): it makes no difference *)
      (rc =? 10) && (elapsed =? mbt)
  | CFree _ => true
  end.

(* the property on the implementation's observations:
   (1) no requested delay exceeds the poke period;
   (2) while the clock advances, consecutive worker wakes (and the end of the advance)
       are at most one poke period apart;
   (3) a blocked write returns Timeout within max_blocking_time + one poke period *)
Definition delays_ok (l : list (Z * Z)) : bool := forallb (fun p => snd p <=? POKE_NS) l.
Fixpoint gaps_ok (last : Z) (l : list (Z * Z)) (fin : Z) : bool :=
  match l with
  | [] => fin - last <=? POKE_NS
  | p :: r => (fst p - last <=? POKE_NS) && gaps_ok (fst p) r fin
  end.
Definition last_time (last : Z) (l : list (Z * Z)) : Z := fst (List.last l (last, 0)).
Fixpoint oracle_sim (now last : Z) (ops : list (sop * obs)) : bool :=
  match ops with
  | [] => true
  | (o, ob) :: r =>
      let now' := match o with SAdv dt => now + dt | _ => now end in
      delays_ok (o_delays ob) && gaps_ok last (o_delays ob) now' &&
      oracle_sim now' (last_time last (o_delays ob)) r
  end.

Definition C31_oracle_ok (c : C31_case) : bool :=
  match c with
  | CSim iv ops => oracle_sim 1000000000 1000000000 ops
  | CBlock mbt _ rc elapsed ds => (rc =? 10) && (elapsed <=? mbt + POKE_NS) && delays_ok ds
  | CFree ops => oracle_sim 1000000000 1000000000 ops
  end.

(* no known classes (C31-negative-sleep was fixed by d4a5b38: the sleep is clamped at zero) *)
Definition C31_known (c : C31_case) : N := 0%N.
