(* Proofs about the worker model (C31). *)
From DustDDS Require Import Base.Machine Time.TimeModel Time.TimeProofs Sched.WorkerModel.
From Coq Require Import Lia ZArith List Bool.
Import ListNotations.
Open Scope Z_scope.

(* ------------------------------------------------------------------ the order *)
Lemma dur_leb_le a b : dur_leb a b = true <-> dur_le a b.
Proof.
  unfold dur_leb, dur_le. rewrite orb_true_iff, andb_true_iff, Z.ltb_lt, Z.eqb_eq, Z.leb_le. tauto.
Qed.
Lemma dur_le_refl a : dur_le a a.
Proof. unfold dur_le. lia. Qed.
Lemma dur_le_trans a b c : dur_le a b -> dur_le b c -> dur_le a c.
Proof. unfold dur_le. lia. Qed.
Lemma dur_le_total a b : dur_le a b \/ dur_le b a.
Proof. unfold dur_le. lia. Qed.
Lemma dur_ltb_le a b : dur_ltb a b = true -> dur_le a b.
Proof.
  unfold dur_ltb. rewrite negb_true_iff. intros H.
  destruct (dur_le_total a b) as [|H1]; [assumption|]. apply dur_leb_le in H1. congruence.
Qed.
Lemma dur_ltb_false a b : dur_ltb a b = false -> dur_le b a.
Proof. unfold dur_ltb. rewrite negb_false_iff. apply dur_leb_le. Qed.

Lemma dur_min_le_l a b : dur_le (dur_min a b) a.
Proof.
  unfold dur_min. destruct (dur_ltb b a) eqn:E; [apply dur_ltb_le; assumption | apply dur_le_refl].
Qed.
Lemma dur_min_le_r a b : dur_le (dur_min a b) b.
Proof.
  unfold dur_min. destruct (dur_ltb b a) eqn:E; [apply dur_le_refl | apply dur_ltb_false; assumption].
Qed.
Lemma dur_min_cases a b : dur_min a b = a \/ dur_min a b = b.
Proof. unfold dur_min. destruct (dur_ltb b a); auto. Qed.
Lemma dur_max_cases a b : dur_max a b = a \/ dur_max a b = b.
Proof. unfold dur_max. destruct (dur_ltb b a); auto. Qed.
Lemma dur_max_ge_r a b : dur_le b (dur_max a b).
Proof.
  unfold dur_max. destruct (dur_ltb b a) eqn:E; [apply dur_ltb_le; assumption | apply dur_le_refl].
Qed.
Lemma dur_max_le a b c : dur_le a c -> dur_le b c -> dur_le (dur_max a b) c.
Proof. intros Ha Hb. destruct (dur_max_cases a b) as [E|E]; rewrite E; assumption. Qed.

Lemma fold_min_in r : forall x, fold_left dur_min r x = x \/ In (fold_left dur_min r x) r.
Proof.
  induction r as [|y r IH]; intros x; cbn [fold_left]; [left; reflexivity|].
  destruct (IH (dur_min x y)) as [H|H].
  - rewrite H. destruct (dur_min_cases x y) as [E|E]; rewrite E; [left; reflexivity | right; left; reflexivity].
  - right; right; assumption.
Qed.
Lemma min_list_in l m : min_list l = Some m -> In m l.
Proof.
  destruct l as [|x r]; cbn [min_list]; [discriminate|]. intros H; injection H as <-.
  destruct (fold_min_in r x) as [E|E]; [rewrite E; left; reflexivity | right; assumption].
Qed.
Lemma fold_min_le r : forall x, dur_le (fold_left dur_min r x) x /\
                                 forall y, In y r -> dur_le (fold_left dur_min r x) y.
Proof.
  induction r as [|z r IH]; intros x; cbn [fold_left].
  - split; [apply dur_le_refl | intros y []].
  - destruct (IH (dur_min x z)) as [H1 H2]. split.
    + eapply dur_le_trans; [exact H1 | apply dur_min_le_l].
    + intros y [<-|Hy]; [eapply dur_le_trans; [exact H1 | apply dur_min_le_r] | apply H2; assumption].
Qed.
Lemma min_list_le l m : min_list l = Some m -> forall y, In y l -> dur_le m y.
Proof.
  destruct l as [|x r]; cbn [min_list]; [discriminate|]. intros H; injection H as <-.
  destruct (fold_min_le r x) as [H1 H2]. intros y [<-|Hy]; auto.
Qed.
Lemma in_somes {A} (l : list (option A)) x : In x (somes l) <-> In (Some x) l.
Proof.
  unfold somes. rewrite in_flat_map. split.
  - intros [o [Ho Hx]]. destruct o as [y|]; [destruct Hx as [<-|[]]; assumption | destruct Hx].
  - intros H. exists (Some x). split; [assumption | left; reflexivity].
Qed.

(* ------------------------------------------------------------------ min <= poke *)
Theorem next_le_poke ps n : dur_le (next_task_time ps n) poke_time.
Proof.
  unfold next_task_time. apply dur_max_le; [|unfold dur_le, dzero, poke_time; cbn [sec nanosec]; lia].
  repeat (eapply dur_le_trans; [apply dur_min_le_l|]). apply dur_le_refl.
Qed.
(* the clamp: the minimum is never negative *)
Theorem next_nonneg ps n : 0 <= sec (next_task_time ps n).
Proof.
  unfold next_task_time. match goal with |- 0 <= sec (dur_max ?a dzero) => pose proof (dur_max_ge_r a dzero) as H;
    remember (dur_max a dzero) as m end.
  unfold dur_le, dzero in H; cbn [sec nanosec] in H. lia.
Qed.

(* every value that can come out of the minimum satisfies Q when poke_time and all the
   contributed values do *)
Lemma dur_min_pres (Q : dur -> Prop) a b : Q a -> Q b -> Q (dur_min a b).
Proof. intros Ha Hb. destruct (dur_min_cases a b) as [E|E]; rewrite E; assumption. Qed.
Lemma unwrap_pres (Q : dur -> Prop) o d : (forall x, o = Some x -> Q x) -> Q d -> Q (unwrap_or o d).
Proof. destruct o; cbn [unwrap_or]; auto. Qed.
Lemma factory_min_pres (Q : dur -> Prop) f now ps :
  (forall p m, In p ps -> f now p = Some m -> Q m) ->
  forall x, factory_min f now ps = Some x -> Q x.
Proof.
  intros H x Hx. unfold factory_min in Hx. apply min_list_in, in_somes, in_map_iff in Hx.
  destruct Hx as [p [Hp Hin]]. eapply H; eauto.
Qed.

(* ------------------------------------------------------------------ well-formed snapshots *)
Definition opt_all {A} (Q : A -> Prop) (o : option A) : Prop := match o with Some x => Q x | None => True end.
Definition wf_reader (r : reader_s) : Prop :=
  opt_all normalized (r_deadline r) /\ Forall normalized (r_last r).
Definition wf_writer (w : writer_s) : Prop :=
  opt_all normalized (w_deadline w) /\ Forall (opt_all normalized) (w_last w) /\
  opt_all normalized (w_lifespan w) /\ Forall (opt_all normalized) (w_changes w) /\
  opt_all (opt_all normalized) (w_pending w).
Definition wf_part (p : part_s) : Prop :=
  opt_all normalized (p_last_ann p) /\ normalized (p_interval p) /\
  Forall (fun d => normalized (fst d) /\ normalized (snd d)) (p_disc p) /\
  Forall wf_reader (p_readers p) /\ Forall wf_writer (p_writers p).
Definition wf_nows (n : nows) : Prop :=
  normalized (n_rd n) /\ normalized (n_wd n) /\ normalized (n_sp n) /\
  normalized (n_ws n) /\ normalized (n_pw n) /\ normalized (n_pa n).

Lemma norm_wf d : normalized d -> wf_dur d.
Proof. unfold normalized, wf_dur, in_u32, u32_max, NS. intros [H1 H2]. split; [assumption | lia]. Qed.
Lemma time_sub_norm a b : normalized a -> normalized b -> normalized (time_sub a b).
Proof. intros Ha Hb. apply time_sub_normalized; apply norm_wf; assumption. Qed.
Lemma poke_norm : normalized poke_time.
Proof. unfold normalized, poke_time, in_i32, i32_min, i32_max, NS; cbn [sec nanosec]. lia. Qed.
Lemma dzero_norm : normalized dzero.
Proof. unfold normalized, dzero, in_i32, i32_min, i32_max, NS; cbn [sec nanosec]. lia. Qed.
Lemma transport_norm t : normalized t -> normalized (time_of_transport t).
Proof.
  intros H. unfold time_of_transport. apply new_normalized. apply norm_wf in H. apply H.
Qed.

Lemma tu_reader_norm now r m : normalized now -> wf_reader r -> tu_reader now r = Some m -> normalized m.
Proof.
  intros Hn [Hd Ho]. unfold tu_reader. destruct (r_deadline r) as [dl|]; [|discriminate].
  intros H. apply min_list_in, in_map_iff in H. destruct H as [last [<- Hin]].
  rewrite Forall_forall in Ho. apply sub_normalized; [exact Hd | apply time_sub_norm; auto].
Qed.
Lemma tu_writer_deadline_norm now w m :
  normalized now -> wf_writer w -> tu_writer_deadline now w = Some m -> normalized m.
Proof.
  intros Hn (Hd & Hl & _). unfold tu_writer_deadline. destruct (w_deadline w) as [dl|]; [|discriminate].
  intros H. apply min_list_in, in_map_iff in H. destruct H as [last [<- Hin]].
  apply in_somes in Hin. rewrite Forall_forall in Hl. specialize (Hl _ Hin).
  apply sub_normalized; [exact Hd | apply time_sub_norm; auto].
Qed.
Lemma tu_writer_sample_norm now w m :
  normalized now -> wf_writer w -> tu_writer_sample now w = Some m -> normalized m.
Proof.
  intros Hn (_ & _ & Hls & Hc & _). unfold tu_writer_sample. destruct (w_lifespan w) as [ls|]; [|discriminate].
  intros H. apply min_list_in, in_map_iff in H. destruct H as [ts [<- Hin]].
  apply in_somes in Hin. rewrite Forall_forall in Hc. specialize (Hc _ Hin).
  apply time_sub_norm; [|assumption]. apply add_normalized; [apply transport_norm; exact Hc | exact Hls].
Qed.
Lemma tu_writer_pending_norm now w m :
  normalized now -> wf_writer w -> tu_writer_pending now w = Some m -> normalized m.
Proof.
  intros Hn (_ & _ & _ & _ & Hp). unfold tu_writer_pending.
  destruct (w_pending w) as [[e|]|]; try discriminate. cbn [opt_all] in Hp.
  destruct (dur_ltb now e); intros H; injection H as <-; [apply time_sub_norm; assumption | apply dzero_norm].
Qed.

Lemma per_list_norm {A} (f : dur -> A -> option dur) (wf : A -> Prop) now (l : list A) m :
  (forall a x, wf a -> f now a = Some x -> normalized x) ->
  Forall wf l -> min_list (somes (map (f now) l)) = Some m -> normalized m.
Proof.
  intros H Hl Hm. apply min_list_in, in_somes, in_map_iff in Hm. destruct Hm as [a [Ha Hin]].
  rewrite Forall_forall in Hl. eapply H; eauto.
Qed.

Lemma tu_ann_norm now p m :
  normalized now -> wf_part p -> tu_participant_announcement now p = Some m -> normalized m.
Proof.
  intros Hn (Hla & Hi & _). unfold tu_participant_announcement.
  destruct (p_enabled p); [|discriminate]. destruct (p_last_ann p) as [la|].
  - cbn [opt_all] in Hla. destruct (dur_leb _ _); intros H; injection H as <-;
      [apply dzero_norm | apply sub_normalized; [assumption | apply time_sub_norm; assumption]].
  - intros H; injection H as <-. apply dzero_norm.
Qed.
Lemma tu_stale_part_norm now p m :
  normalized now -> wf_part p -> tu_stale_participant now p = Some m -> normalized m.
Proof.
  intros Hn (_ & _ & Hd & _). unfold tu_stale_participant.
  intros H. apply min_list_in, in_map_iff in H. destruct H as [d [<- Hin]].
  rewrite Forall_forall in Hd. destruct (Hd _ Hin) as [H1 H2].
  apply sub_normalized; [assumption | apply time_sub_norm; assumption].
Qed.

Theorem next_normalized ps n :
  Forall wf_part ps -> wf_nows n -> normalized (next_task_time ps n).
Proof.
  intros Hps (N1 & N2 & N3 & N4 & N5 & N6). rewrite Forall_forall in Hps. unfold next_task_time.
  destruct (dur_max_cases (dur_min (dur_min (dur_min (dur_min (dur_min (dur_min poke_time
      (unwrap_or (factory_min tu_missed_reader_deadline (n_rd n) ps) poke_time))
      (unwrap_or (factory_min tu_missed_writer_deadline (n_wd n) ps) poke_time))
      (unwrap_or (factory_min tu_stale_participant (n_sp n) ps) poke_time))
      (unwrap_or (factory_min tu_stale_writer_sample (n_ws n) ps) poke_time))
      (unwrap_or (factory_min tu_pending_writer_sample_timeout (n_pw n) ps) poke_time))
      (unwrap_or (factory_min tu_participant_announcement (n_pa n) ps) poke_time)) dzero) as [E|E];
    rewrite E; [|apply dzero_norm].
  repeat apply dur_min_pres; try apply poke_norm;
    (apply unwrap_pres; [|apply poke_norm]); apply factory_min_pres; intros p m Hp Hm;
    pose proof (Hps _ Hp) as Hwf; destruct Hwf as (W1 & W2 & W3 & W4 & W5).
  - eapply per_list_norm; [| exact W4 | exact Hm]. intros a x Ha Hx; exact (tu_reader_norm _ _ _ N1 Ha Hx).
  - eapply per_list_norm; [| exact W5 | exact Hm]. intros a x Ha Hx; exact (tu_writer_deadline_norm _ _ _ N2 Ha Hx).
  - eapply tu_stale_part_norm; [exact N3 | apply Hps; exact Hp | exact Hm].
  - eapply per_list_norm; [| exact W5 | exact Hm]. intros a x Ha Hx; exact (tu_writer_sample_norm _ _ _ N4 Ha Hx).
  - eapply per_list_norm; [| exact W5 | exact Hm]. intros a x Ha Hx; exact (tu_writer_pending_norm _ _ _ N5 Ha Hx).
  - eapply tu_ann_norm; [exact N6 | apply Hps; exact Hp | exact Hm].
Qed.

(* ------------------------------------------------------------------ the conversion *)
Lemma to_core_nonneg d : normalized d -> 0 <= sec d -> to_core_ns d = Ok (sec d * NS + nanosec d).
Proof.
  destruct d as [s n]. unfold normalized, to_core_ns, in_i32, i32_min, i32_max, wrap_u64, two64, u64_max, NS;
    cbn [sec nanosec]. intros [Hs Hn] H0.
  rewrite (Z.mod_small s) by lia. rewrite (Z.div_small n) by lia. rewrite (Z.mod_small n) by lia.
  rewrite Z.add_0_r. destruct (s <=? 18446744073709551615) eqn:E; [reflexivity | apply Z.leb_gt in E; lia].
Qed.
(* C31, first clause, on the snapshot model: the requested delay is at most the poke period
   and never negative — for all participants, entities, timestamps (overdue or not) and all
   six clock readings *)
Theorem sleep_le_poke ps n :
  Forall wf_part ps -> wf_nows n ->
  exists d, requested_delay ps n = Ok d /\ 0 <= d <= POKE_NS.
Proof.
  intros Hps Hn. pose proof (next_nonneg ps n) as Hneg.
  pose proof (next_normalized ps n Hps Hn) as Hnorm. pose proof (next_le_poke ps n) as Hle.
  unfold requested_delay. rewrite (to_core_nonneg _ Hnorm Hneg). eexists; split; [reflexivity|].
  destruct Hnorm as [_ Hns]. unfold dur_le, poke_time in Hle; cbn [sec nanosec] in Hle.
  unfold POKE_NS, NS in *. lia.
Qed.

(* an item that is already overdue makes the worker run again at once (delay 0) *)
Definition overdue_part : part_s :=
  mkP true (Some (mkdur 10 0)) (mkdur 5 0) [] []
      [mkW (Some (mkdur 0 100000000)) [Some (mkdur 9 750000000)] None [] None].
Lemma overdue_delay_zero : requested_delay [overdue_part] (same_now (mkdur 10 0)) = Ok 0.
Proof. vm_compute. reflexivity. Qed.

(* ------------------------------------------------------------------ blocked write *)
Lemma pending_timeout_bound P exp : forall wakes last,
  last <= exp -> gaps_le P last wakes -> (exists w, In w wakes /\ exp <= w) ->
  exists w, pending_timeout exp wakes = Some w /\ exp <= w <= exp + P.
Proof.
  induction wakes as [|w r IH]; intros last Hl Hg [x [Hin Hx]]; [destruct Hin|].
  cbn [pending_timeout gaps_le] in *. destruct Hg as (G0 & G1 & G2).
  destruct (exp <=? w) eqn:E.
  - apply Z.leb_le in E. exists w. split; [reflexivity | lia].
  - apply Z.leb_gt in E. apply (IH w); [lia | exact G2 |].
    destruct Hin as [<-|Hin]; [lia | eauto].
Qed.

(* C31, second clause: a write that blocks at t0 with max_blocking_time mbt, on a worker
   that wakes at least once per poke period, is answered Timeout at a time w with
   t0 + mbt <= w <= t0 + mbt + 50 ms *)
Theorem blocked_write_timeout_bound t0 mbt wakes :
  0 <= mbt -> gaps_le POKE_NS t0 wakes -> (exists w, In w wakes /\ t0 + mbt <= w) ->
  exists w, pending_timeout (t0 + mbt) wakes = Some w /\ t0 + mbt <= w <= t0 + mbt + POKE_NS.
Proof. intros H0 Hg Hex. apply (pending_timeout_bound POKE_NS (t0 + mbt) wakes t0); [lia | assumption | assumption]. Qed.
(* and never before max_blocking_time has elapsed *)
Lemma pending_timeout_not_early exp wakes w : pending_timeout exp wakes = Some w -> exp <= w /\ In w wakes.
Proof.
  induction wakes as [|x r IH]; cbn [pending_timeout]; [discriminate|].
  destruct (exp <=? x) eqn:E; intros H.
  - injection H as <-. apply Z.leb_le in E. split; [assumption | left; reflexivity].
  - destruct (IH H) as [H1 H2]. split; [assumption | right; assumption].
Qed.
