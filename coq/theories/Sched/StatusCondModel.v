(* Model of
     dds/src/dcps/status_mask.rs            (StatusMask: is_enabled, from_iter)
     dds/src/dcps/status_condition.rs       (DcpsStatusCondition)
     dds/src/dcps/channels/notification.rs  (the part used by the condition and by wait)
     dds/src/dds_async/wait_set.rs          (WaitSetAsync::wait as a sequence of atomic steps)
   Definitions only (no proofs) so that the correspondence check can run the
   model even when a proof is broken.

   Atomicity: every mail (GetStatusConditionTriggerValue, RegisterNotification,
   SetStatusConditionEnabledStatuses, and whatever changes a status) is handled
   by the single DCPS worker task to completion; every poll of a
   NotificationReceiver is one critical section.  One model step = one mail or
   one receiver poll, so a list of steps is an interleaving.

   The boolean [fx] selects the patched set_enabled_statuses of
   proposed_fixes/C32-enable-no-notify.diff (fx = true); the code in /repo is
   fx = false. *)
From DustDDS Require Export Base.Machine.
Open Scope Z_scope.

(* ------------------------------------------------------------------ status.rs *)
Inductive StatusKind : Type :=
| InconsistentTopic | OfferedDeadlineMissed | RequestedDeadlineMissed
| OfferedIncompatibleQos | RequestedIncompatibleQos | SampleLost | SampleRejected
| DataOnReaders | DataAvailable | LivelinessLost | LivelinessChanged
| PublicationMatched | SubscriptionMatched.

Definition all_kinds : list StatusKind :=
  [InconsistentTopic; OfferedDeadlineMissed; RequestedDeadlineMissed;
   OfferedIncompatibleQos; RequestedIncompatibleQos; SampleLost; SampleRejected;
   DataOnReaders; DataAvailable; LivelinessLost; LivelinessChanged;
   PublicationMatched; SubscriptionMatched].

Definition kind_idx (k : StatusKind) : Z :=
  match k with
  | InconsistentTopic => 0 | OfferedDeadlineMissed => 1 | RequestedDeadlineMissed => 2
  | OfferedIncompatibleQos => 3 | RequestedIncompatibleQos => 4 | SampleLost => 5
  | SampleRejected => 6 | DataOnReaders => 7 | DataAvailable => 8 | LivelinessLost => 9
  | LivelinessChanged => 10 | PublicationMatched => 11 | SubscriptionMatched => 12
  end.

(* derived PartialEq of the field-less enum *)
Definition kind_eqb (a b : StatusKind) : bool := kind_idx a =? kind_idx b.

(* ------------------------------------------------------------- status_mask.rs *)
(* StatusMask(u16); status_kind_bit = 1 << n *)
Definition kind_bit (k : StatusKind) : Z :=
  match k with
  | InconsistentTopic => 1 | OfferedDeadlineMissed => 2 | RequestedDeadlineMissed => 4
  | OfferedIncompatibleQos => 8 | RequestedIncompatibleQos => 16 | SampleLost => 32
  | SampleRejected => 64 | DataOnReaders => 128 | DataAvailable => 256 | LivelinessLost => 512
  | LivelinessChanged => 1024 | PublicationMatched => 2048 | SubscriptionMatched => 4096
  end.

(* fn is_enabled: (self.0 & bit) != 0 *)
Definition is_enabled (m : Z) (k : StatusKind) : bool := negb (Z.land m (kind_bit k) =? 0).

(* FromIterator<&StatusKind>: mask |= bit.  The field of StatusMask is private,
   so every mask in the program is the image of a list of kinds. *)
Definition mask_of_list (l : list StatusKind) : Z :=
  fold_left (fun m k => Z.lor m (kind_bit k)) l 0.

(* DcpsStatusCondition::default(): all thirteen kinds *)
Definition default_mask : Z := mask_of_list all_kinds.

(* ------------------------------------------------------------ notification.rs *)
(* NotificationInner { notified, waker: Option<Waker>, sender_count }.
   [parked] = waker.is_some(); [wakes] counts Waker::wake calls (the waker of the
   task that polled last). *)
Record chan : Type := mkChan { notified : bool; parked : bool; wakes : nat; senders : nat }.

(* notification(): one sender *)
Definition chan_new : chan := mkChan false false 0 1.

(* if let Some(w) = waker.take() { w.wake() } *)
Definition chan_wake (ch : chan) : chan :=
  if parked ch then mkChan (notified ch) false (S (wakes ch)) (senders ch) else ch.

(* NotificationSender::notify *)
Definition chan_notify (ch : chan) : chan :=
  chan_wake (mkChan true (parked ch) (wakes ch) (senders ch)).

(* Clone for NotificationSender *)
Definition chan_clone (ch : chan) : chan :=
  mkChan (notified ch) (parked ch) (wakes ch) (S (senders ch)).

(* Drop for NotificationSender: the last sender wakes the receiver *)
Definition chan_drop (ch : chan) : chan :=
  let n := pred (senders ch) in
  let ch' := mkChan (notified ch) (parked ch) (wakes ch) n in
  if Nat.eqb n 0 then chan_wake ch' else ch'.

(* what happens to a registered sender: `w.notify()` then the sender is dropped *)
Definition chan_fire (ch : chan) : chan := chan_drop (chan_notify ch).

Inductive poll_out : Type := PReady | PPending | PClosed.

(* Future for NotificationReceiver::poll *)
Definition chan_poll (ch : chan) : chan * poll_out :=
  if notified ch then (mkChan false (parked ch) (wakes ch) (senders ch), PReady)
  else if Nat.eqb (senders ch) 0 then (ch, PClosed)
  else (mkChan false true (wakes ch) (senders ch), PPending).

(* ------------------------------------------------------- status_condition.rs *)
(* registered_notifications: the channel (by index) each NotificationSender
   belongs to, in Vec order *)
Record cond : Type := mkCond { c_enabled : Z; c_changes : list StatusKind; c_registered : list nat }.

Definition cond_init : cond := mkCond default_mask [] [].

(* fn get_trigger_value: first enabled element of status_changes *)
Fixpoint trigger_loop (m : Z) (l : list StatusKind) : bool :=
  match l with
  | [] => false
  | k :: t => if is_enabled m k then true else trigger_loop m t
  end.
Definition cond_trigger (c : cond) : bool := trigger_loop (c_enabled c) (c_changes c).

(* shared state seen by the worker: all conditions and all notification channels *)
Record sys : Type := mkSys { conds : list cond; chans : list chan }.

Fixpoint upd {A} (l : list A) (i : nat) (x : A) : list A :=
  match l, i with
  | [], _ => []
  | _ :: t, O => x :: t
  | h :: t, S j => h :: upd t j x
  end.

Definition app_chan (f : chan -> chan) (chs : list chan) (i : nat) : list chan :=
  match nth_error chs i with Some c => upd chs i (f c) | None => chs end.

(* for w in registered_notifications.drain(..) { w.notify(); } *)
Definition drain (regs : list nat) (chs : list chan) : list chan :=
  fold_left (app_chan chan_fire) regs chs.

Definition with_cond (s : sys) (c : nat) (f : cond -> sys) : sys :=
  match nth_error (conds s) c with Some cd => f cd | None => s end.

(* fn add_communication_state *)
Definition sys_add (s : sys) (c : nat) (k : StatusKind) : sys :=
  with_cond s c (fun cd =>
    let cd1 := mkCond (c_enabled cd) (c_changes cd ++ [k]) (c_registered cd) in
    if cond_trigger cd1
    then mkSys (upd (conds s) c (mkCond (c_enabled cd1) (c_changes cd1) []))
               (drain (c_registered cd1) (chans s))
    else mkSys (upd (conds s) c cd1) (chans s)).

(* fn remove_communication_state: retain(|x| x != &state) *)
Definition sys_remove (s : sys) (c : nat) (k : StatusKind) : sys :=
  with_cond s c (fun cd =>
    mkSys (upd (conds s) c
             (mkCond (c_enabled cd) (filter (fun x => negb (kind_eqb x k)) (c_changes cd))
                     (c_registered cd)))
          (chans s)).

(* fn set_enabled_statuses.  /repo: the assignment only (fx = false).
   Patched (fx = true): notify the registered senders when the new mask makes
   the trigger value true. *)
Definition sys_set_enabled (fx : bool) (s : sys) (c : nat) (m : Z) : sys :=
  with_cond s c (fun cd =>
    let cd1 := mkCond m (c_changes cd) (c_registered cd) in
    if fx && cond_trigger cd1
    then mkSys (upd (conds s) c (mkCond m (c_changes cd) []))
               (drain (c_registered cd1) (chans s))
    else mkSys (upd (conds s) c cd1) (chans s)).

Definition sys_trigger (s : sys) (c : nat) : bool :=
  match nth_error (conds s) c with Some cd => cond_trigger cd | None => false end.

Definition sys_enabled (s : sys) (c : nat) : Z :=
  match nth_error (conds s) c with Some cd => c_enabled cd | None => 0 end.

(* fn register_notification, called with a clone of channel ch's sender *)
Definition sys_register (s : sys) (c ch : nat) : sys :=
  with_cond s c (fun cd =>
    let chs1 := app_chan chan_clone (chans s) ch in
    if cond_trigger cd
    then mkSys (conds s) (app_chan chan_fire chs1 ch)
    else mkSys (upd (conds s) c
                    (mkCond (c_enabled cd) (c_changes cd) (c_registered cd ++ [ch])))
               chs1).

Definition sys_poll (s : sys) (ch : nat) : sys * poll_out :=
  match nth_error (chans s) ch with
  | Some x => let (x', o) := chan_poll x in (mkSys (conds s) (upd (chans s) ch x'), o)
  | None => (s, PClosed)
  end.

Definition sys_drop (s : sys) (ch : nat) : sys :=
  mkSys (conds s) (app_chan chan_drop (chans s) ch).

Definition sys_init (nc nch : nat) : sys := mkSys (repeat cond_init nc) (repeat chan_new nch).

(* is the receiver of channel ch notified (the flag its next poll consumes) *)
Definition notif (s : sys) (ch : nat) : bool :=
  match nth_error (chans s) ch with Some x => notified x | None => false end.

(* ------------------------------------- layer A: the condition driven directly *)
(* [held]: which original senders the caller still owns (caller state, not
   part of the channel) *)
Record dsys : Type := mkD { d_sys : sys; d_held : list bool }.

Inductive dop : Type :=
| DAdd (c : nat) (k : StatusKind)
| DRemove (c : nat) (k : StatusKind)
| DSetEnabled (c : nat) (l : list StatusKind)
| DGetTrigger (c : nat)
| DGetEnabled (c : nat)
| DRegister (c ch : nat)       (* register_notification(sender[ch].clone()) *)
| DPoll (ch : nat)             (* poll receiver[ch] once *)
| DDropSender (ch : nat).      (* drop the caller's own sender of channel ch *)

Definition d_init (nc nch : nat) : dsys := mkD (sys_init nc nch) (repeat true nch).

Definition holds (d : dsys) (ch : nat) : bool := nth ch (d_held d) false.

Definition dstep (fx : bool) (d : dsys) (o : dop) : dsys :=
  match o with
  | DAdd c k => mkD (sys_add (d_sys d) c k) (d_held d)
  | DRemove c k => mkD (sys_remove (d_sys d) c k) (d_held d)
  | DSetEnabled c l => mkD (sys_set_enabled fx (d_sys d) c (mask_of_list l)) (d_held d)
  | DGetTrigger _ | DGetEnabled _ => d
  | DRegister c ch => if holds d ch then mkD (sys_register (d_sys d) c ch) (d_held d) else d
  | DPoll ch => mkD (fst (sys_poll (d_sys d) ch)) (d_held d)
  | DDropSender ch =>
      if holds d ch then mkD (sys_drop (d_sys d) ch) (upd (d_held d) ch false) else d
  end.

Definition drun (fx : bool) (d : dsys) (ops : list dop) : dsys := fold_left (dstep fx) ops d.

(* ------------------------------------------ layer B: WaitSetAsync::wait *)
(* program counter of one wait() call; conditions by index, in attach order *)
Inductive wpc : Type :=
| Idle
| Check1 (todo acc : list nat)   (* first loop: conditions still to ask, triggered so far *)
| Reg (todo : list nat)          (* register loop *)
| Await                          (* notification_receiver.await *)
| Check2 (todo acc : list nat)   (* collect loop after the notification *)
| Done (r : res (list nat)).     (* Ok(list) | Err 1 = PreconditionNotMet | Err 2 = AlreadyDeleted *)

Record waiter : Type := mkWaiter { w_att : list nat; w_pc : wpc; w_ch : nat }.
Record wsys : Type := mkW { w_sys : sys; w_waiters : list waiter }.

Inductive wop : Type :=
| WAdd (c : nat) (k : StatusKind)
| WRemove (c : nat) (k : StatusKind)
| WSetEnabled (c : nat) (l : list StatusKind)
| WGetTrigger (c : nat)
| WStart (w : nat) (cs : list nat)   (* waiter w calls wait() on a wait set with conditions cs *)
| WStep (w : nat)                    (* next atomic step of waiter w *)
| WCancel (w : nat)                  (* the wait future is dropped (timeout) *)
| WTake (w : nat).                   (* the caller takes the result of the finished call *)

Definition w_init (nc nw : nat) : wsys :=
  mkW (sys_init nc 0) (repeat (mkWaiter [] Idle 0) nw).

Definition has_chan (p : wpc) : bool :=
  match p with Reg _ | Await | Check2 _ _ => true | _ => false end.

Definition is_running (p : wpc) : bool :=
  match p with Idle | Done _ => false | _ => true end.

(* one atomic step of a waiter *)
Definition waiter_step (s : sys) (wt : waiter) : sys * waiter :=
  match w_pc wt with
  | Idle | Done _ => (s, wt)
  | Check1 [] acc => (s, wt)     (* unreachable: todo is never empty *)
  | Check1 (c :: t) acc =>
      let acc' := if sys_trigger s c then acc ++ [c] else acc in
      match t with
      | _ :: _ => (s, mkWaiter (w_att wt) (Check1 t acc') (w_ch wt))
      | [] =>
          match acc' with
          | _ :: _ => (s, mkWaiter (w_att wt) (Done (Ok acc')) (w_ch wt))
          | [] => (* let (sender, receiver) = notification(); *)
              (mkSys (conds s) (chans s ++ [chan_new]),
               mkWaiter (w_att wt) (Reg (w_att wt)) (length (chans s)))
          end
      end
  | Reg [] => (s, wt)            (* unreachable *)
  | Reg (c :: t) =>
      (sys_register s c (w_ch wt),
       mkWaiter (w_att wt) (match t with [] => Await | _ => Reg t end) (w_ch wt))
  | Await =>
      let (s', o) := sys_poll s (w_ch wt) in
      match o with
      | PReady => (s', mkWaiter (w_att wt) (Check2 (w_att wt) []) (w_ch wt))
      | PPending => (s', wt)
      | PClosed => (sys_drop s' (w_ch wt), mkWaiter (w_att wt) (Done (Err 2)) (w_ch wt))
      end
  | Check2 [] acc => (s, wt)     (* unreachable *)
  | Check2 (c :: t) acc =>
      let acc' := if sys_trigger s c then acc ++ [c] else acc in
      match t with
      | _ :: _ => (s, mkWaiter (w_att wt) (Check2 t acc') (w_ch wt))
      | [] => (* return: notification_sender and the receiver go out of scope *)
          (sys_drop s (w_ch wt), mkWaiter (w_att wt) (Done (Ok acc')) (w_ch wt))
      end
  end.

Definition wstep (fx : bool) (s : wsys) (o : wop) : wsys :=
  match o with
  | WAdd c k => mkW (sys_add (w_sys s) c k) (w_waiters s)
  | WRemove c k => mkW (sys_remove (w_sys s) c k) (w_waiters s)
  | WSetEnabled c l => mkW (sys_set_enabled fx (w_sys s) c (mask_of_list l)) (w_waiters s)
  | WGetTrigger _ => s
  | WStart w cs =>
      match nth_error (w_waiters s) w with
      | Some wt =>
          if is_running (w_pc wt) then s
          else mkW (w_sys s)
                   (upd (w_waiters s) w
                        (mkWaiter cs (match cs with [] => Done (Err 1) | _ => Check1 cs [] end) (w_ch wt)))
      | None => s
      end
  | WStep w =>
      match nth_error (w_waiters s) w with
      | Some wt => let (s', wt') := waiter_step (w_sys s) wt in mkW s' (upd (w_waiters s) w wt')
      | None => s
      end
  | WCancel w =>
      match nth_error (w_waiters s) w with
      | Some wt =>
          if is_running (w_pc wt)
          then mkW (if has_chan (w_pc wt) then sys_drop (w_sys s) (w_ch wt) else w_sys s)
                   (upd (w_waiters s) w (mkWaiter (w_att wt) Idle (w_ch wt)))
          else s
      | None => s
      end
  | WTake w =>
      match nth_error (w_waiters s) w with
      | Some wt =>
          match w_pc wt with
          | Done _ => mkW (w_sys s) (upd (w_waiters s) w (mkWaiter (w_att wt) Idle (w_ch wt)))
          | _ => s
          end
      | None => s
      end
  end.

Definition wrun (fx : bool) (s : wsys) (ops : list wop) : wsys := fold_left (wstep fx) ops s.

(* the only state in which a running wait() call makes no progress on its own:
   parked on the notification receiver, not notified, waker stored *)
Definition parked_all_false (s : wsys) (wt : waiter) : Prop :=
  w_pc wt = Await /\ notif (w_sys s) (w_ch wt) = false /\
  (exists x, nth_error (chans (w_sys s)) (w_ch wt) = Some x /\ parked x = true) /\
  forall c, In c (w_att wt) -> sys_trigger (w_sys s) c = false.

(* ---------------------------------------------- the known class (finding D6) *)
(* a set_enabled_statuses that turns the trigger value true while senders are
   registered: the unpatched code does not notify them *)
Definition sys_d6 (fx : bool) (s : sys) (c : nat) (m : Z) : bool :=
  negb fx &&
  match nth_error (conds s) c with
  | Some cd => match c_registered cd with [] => false | _ => trigger_loop m (c_changes cd) end
  | None => false
  end.

Definition wop_d6 (fx : bool) (s : wsys) (o : wop) : bool :=
  match o with WSetEnabled c l => sys_d6 fx (w_sys s) c (mask_of_list l) | _ => false end.
Definition dop_d6 (fx : bool) (d : dsys) (o : dop) : bool :=
  match o with DSetEnabled c l => sys_d6 fx (d_sys d) c (mask_of_list l) | _ => false end.

Fixpoint w_d6_free (fx : bool) (s : wsys) (ops : list wop) : bool :=
  match ops with
  | [] => true
  | o :: t => negb (wop_d6 fx s o) && w_d6_free fx (wstep fx s o) t
  end.
Fixpoint d_d6_free (fx : bool) (d : dsys) (ops : list dop) : bool :=
  match ops with
  | [] => true
  | o :: t => negb (dop_d6 fx d o) && d_d6_free fx (dstep fx d o) t
  end.

(* ------------------------------------------------- the property, as predicates *)
(* "one of its enabled statuses has changed since last read", on the abstract
   sets: enabled/changed as predicates over the thirteen kinds *)
Definition spec_trigger (en ch : StatusKind -> bool) : bool :=
  existsb (fun k => en k && ch k) all_kinds.

Definition set_add (f : StatusKind -> bool) (k : StatusKind) : StatusKind -> bool :=
  fun x => if kind_eqb x k then true else f x.
Definition set_del (f : StatusKind -> bool) (k : StatusKind) : StatusKind -> bool :=
  fun x => if kind_eqb x k then false else f x.
Definition set_of_list (l : list StatusKind) : StatusKind -> bool :=
  fun x => existsb (kind_eqb x) l.

(* the history of one condition, read off the operations: which statuses are
   enabled (last set_enabled_statuses, initially all) and which have changed
   since they were last read (an add after the last remove) *)
Inductive cev : Type :=
| EAdd (c : nat) (k : StatusKind) | ERemove (c : nat) (k : StatusKind)
| ESet (c : nat) (l : list StatusKind) | ENone.

Definition dop_ev (o : dop) : cev :=
  match o with DAdd c k => EAdd c k | DRemove c k => ERemove c k | DSetEnabled c l => ESet c l | _ => ENone end.
Definition wop_ev (o : wop) : cev :=
  match o with WAdd c k => EAdd c k | WRemove c k => ERemove c k | WSetEnabled c l => ESet c l | _ => ENone end.

Definition en_step (c : nat) (f : StatusKind -> bool) (e : cev) : StatusKind -> bool :=
  match e with ESet c' l => if Nat.eqb c' c then set_of_list l else f | _ => f end.
Definition chg_step (c : nat) (f : StatusKind -> bool) (e : cev) : StatusKind -> bool :=
  match e with
  | EAdd c' k => if Nat.eqb c' c then set_add f k else f
  | ERemove c' k => if Nat.eqb c' c then set_del f k else f
  | _ => f
  end.
Definition hist_en (evs : list cev) (c : nat) : StatusKind -> bool :=
  fold_left (en_step c) evs (fun _ => true).
Definition hist_chg (evs : list cev) (c : nat) : StatusKind -> bool :=
  fold_left (chg_step c) evs (fun _ => false).
