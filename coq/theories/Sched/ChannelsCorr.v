(* Correspondence vocabulary for C34: one case = one history of operations driven
   through a REAL channel (oneshot / mpsc / notification of dust_dds::dcps::channels)
   on one thread with counting wakers, together with what every operation returned
   and which wakers it woke.  Model and oracle are applied inside Coq. *)
From DustDDS Require Export Base.Machine Sched.ChannelsModel.
Open Scope Z_scope.

(* c_evs: harness-level operations with the implementation's observed result.
   c_races: positions i such that operation i (a poll) and operation i+1 (a sender-side
   operation) were executed CONCURRENTLY by two real threads: the second thread was released
   from inside the poll (hook in Waker::clone) and joined after the poll returned.  If poll is
   one critical section that registers the waker before it ends — the atomic-section
   assumption of the model — the lock serialises the pair in the listed order. *)
Record C34_case : Type := mkC34 { c_kind : kind; c_evs : list ev; c_races : list nat }.

(* One harness operation is one critical section, except OneshotSender::send(self, v):
   the real call runs the send section and then, when `self` goes out of scope, the
   Drop section; a single thread cannot put anything between the two. *)
Definition hstep_oneshot (s : oneshot) (o : op) : oneshot * out :=
  match o with
  | Send h v =>
      let (s1, r1) := oneshot_step s (Send h v) in
      let (s2, r2) := oneshot_step s1 (DropS h) in
      (s2, mkout (o_ret r1) (o_woke r1 ++ o_woke r2))
  | _ => oneshot_step s o
  end.

Definition outs_of (tr : list ev) : list out := map snd tr.

Definition model_outs (k : kind) (ops : list op) : list out :=
  match k with
  | KOneshot => outs_of (trace hstep_oneshot oneshot_init ops)
  | KMpsc => outs_of (trace mpsc_step mpsc_init ops)
  | KNotif => outs_of (trace notif_step notif_init ops)
  end.

Fixpoint nats_eqb (a b : list nat) : bool :=
  match a, b with
  | [], [] => true
  | x :: a', y :: b' => Nat.eqb x y && nats_eqb a' b'
  | _, _ => false
  end.
Definition out_eqb (a b : out) : bool := ret_eqb (o_ret a) (o_ret b) && nats_eqb (o_woke a) (o_woke b).
Fixpoint outs_eqb (a b : list out) : bool :=
  match a, b with
  | [], [] => true
  | x :: a', y :: b' => out_eqb x y && outs_eqb a' b'
  | _, _ => false
  end.

Definition C34_model_ok (c : C34_case) : bool :=
  outs_eqb (model_outs (c_kind c) (map fst (c_evs c))) (map snd (c_evs c)).

(* the observed history as a history of atomic sections (for the monitor): the wakes of
   a oneshot send() are attributed to its send section *)
Definition atomize (k : kind) (evs : list ev) : list ev :=
  match k with
  | KOneshot =>
      flat_map (fun e => match e with
                         | (Send h v, r) => [(Send h v, r); (DropS h, mkout (o_ret r) [])]
                         | _ => [e]
                         end) evs
  | _ => evs
  end.

(* linearizations of the observed history: each concurrent pair in either order *)
Fixpoint swap_at (i : nat) (l : list ev) : list ev :=
  match i, l with
  | O, a :: b :: t => b :: a :: t
  | S i', a :: t => a :: swap_at i' t
  | _, _ => l
  end.
Fixpoint linearizations (races : list nat) (l : list ev) : list (list ev) :=
  match races with
  | [] => [l]
  | i :: r => linearizations r l ++ linearizations r (swap_at i l)
  end.

(* the property, on the implementation's outputs: SOME order of every concurrent pair must be
   explained by the abstract channel (in particular: a poll that returned Pending while a send
   completed must have been woken, or the send must come first and the poll be Ready) *)
Definition C34_oracle_ok (c : C34_case) : bool :=
  existsb (fun l => oracle (c_kind c) (atomize (c_kind c) l)) (linearizations (c_races c) (c_evs c)).

(* no known-finding class (C34-mpsc-never-closes was fixed in /repo commit 112abf8) *)
Definition C34_known (c : C34_case) : N := 0%N.
