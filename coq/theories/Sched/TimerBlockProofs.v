(* C42 — proofs about block_timeout / block_on (all interleavings = all op lists). *)
From DustDDS Require Import Base.Machine Sched.TimerBlockModel.
Open Scope Z_scope.

Definition done_after (s : bst) (x : Z) : Prop :=
  match b_done s with Some t => x <= t | None => True end.

Definition binv (s : bst) : Prop :=
  b_start s <= b_clock s /\
  match b_done s with Some t => t <= b_clock s | None => True end /\
  match b_pc s with
  | BPolling | BWoken => True
  | BChecking => b_done s <> None -> b_tok s = true
  | BWaiting lim => lim = b_start s + b_dur s /\ (b_done s <> None -> b_tok s = true)
  | BLastPoll => b_start s + b_dur s < b_clock s
  | BDone BTimeout at_ => b_start s + b_dur s <= at_ <= b_clock s /\ done_after s at_
  | BDone (BOk v) at_ => v = b_val s /\ exists t, b_done s = Some t /\ t <= at_
  end.

Lemma bconst_step : forall s o,
  b_start (bstep s o) = b_start s /\ b_dur (bstep s o) = b_dur s /\ b_val (bstep s o) = b_val s.
Proof.
  intros s o. destruct o; cbn [bstep]; unfold bwake, set_bpc, take_tok;
    repeat match goal with |- context [match ?x with _ => _ end] => destruct x end; cbn; auto.
Qed.

Lemma bconst_run : forall ops s,
  b_start (brun ops s) = b_start s /\ b_dur (brun ops s) = b_dur s /\ b_val (brun ops s) = b_val s.
Proof.
  induction ops as [|o ops IH]; intros s; [cbn; auto|].
  change (brun (o :: ops) s) with (brun ops (bstep s o)).
  destruct (IH (bstep s o)) as (A & B & C). destruct (bconst_step s o) as (A' & B' & C').
  repeat split; congruence.
Qed.

Lemma binv_init : forall now dur val, binv (binit now dur val).
Proof. intros. unfold binv, binit. cbn. repeat split; try lia. Qed.

Ltac bsolve :=
  repeat match goal with
         | |- context [if ?b then _ else _] => destruct b eqn:?
         end;
  cbn [b_clock b_start b_dur b_val b_tok b_pc b_done b_polls negb andb] in *;
  repeat match goal with
         | H : (_ <=? _) = true |- _ => apply Z.leb_le in H
         | H : (_ <=? _) = false |- _ => apply Z.leb_gt in H
         | H : (_ <? _) = true |- _ => apply Z.ltb_lt in H
         | H : (_ <? _) = false |- _ => apply Z.ltb_ge in H
         | H : _ && _ = true |- _ => apply andb_true_iff in H; destruct H
         | H : _ /\ _ |- _ => destruct H
         | H : exists _, _ |- _ => destruct H
         | H : Some ?x <> None -> _ |- _ => specialize (H ltac:(discriminate))
         | H : negb _ = true |- _ => apply negb_true_iff in H
         end;
  try (intuition (try discriminate; try congruence; try lia); fail);
  try (repeat split; try lia; try discriminate; try congruence; eauto;
       try (eexists; split; [reflexivity|lia]); fail).

Lemma binv_step : forall s o, binv s -> binv (bstep s o).
Proof.
  intros [c st d v tk p dn n] o. unfold binv, done_after.
  cbn [b_clock b_start b_dur b_val b_tok b_pc b_done b_polls].
  intros (Hs & Hd & Hp).
  destruct o; cbn [bstep]; unfold bwake, set_bpc, take_tok;
    cbn [b_clock b_start b_dur b_val b_tok b_pc b_done b_polls];
    destruct p as [| |lim| | |[w|] a]; destruct dn as [t0|];
    cbn [b_clock b_start b_dur b_val b_tok b_pc b_done b_polls];
    bsolve.
Qed.

Lemma binv_run : forall ops s, binv s -> binv (brun ops s).
Proof.
  induction ops as [|o ops IH]; intros s H; [assumption|].
  change (brun (o :: ops) s) with (brun ops (bstep s o)). apply IH. now apply binv_step.
Qed.

(* block_timeout returns Timeout only after the whole duration has passed and only
   if the future had not completed by then: its completion, if any, is not before
   start + duration nor before the return (fix 8591c31 removed the class in which a
   pending wake was ignored) *)
Theorem block_timeout_only_late : forall ops now dur val at_,
  let s := brun ops (binit now dur val) in
  b_pc s = BDone BTimeout at_ ->
  now + dur <= at_ /\
  (forall t, b_done s = Some t -> now + dur <= t /\ at_ <= t).
Proof.
  intros ops now dur val at_ s P.
  pose proof (binv_run ops _ (binv_init now dur val)) as (Hs & Hd & Hp). fold s in Hs, Hd, Hp.
  destruct (bconst_run ops (binit now dur val)) as (A & B & _). fold s in A, B. cbn in A, B.
  rewrite P in Hp. rewrite A, B in Hp. destruct Hp as [L U].
  split; [lia|]. intros t Ht. unfold done_after in U. rewrite Ht in U. lia.
Qed.

(* the scenario of the former finding C42-timeout-unseen-wake now ends in Ok: the poll
   said Pending, the future completed (and woke) in time, the thread was stalled past
   the duration - the wake is seen by try_recv and the last poll returns the output *)
Theorem late_wake_is_seen : forall s,
  binv s -> b_pc s = BChecking -> b_done s <> None -> b_dur s < b_clock s - b_start s ->
  exists at_, b_pc (brun [BCheck; BCheck2; BPoll] s) = BDone (BOk (b_val s)) at_.
Proof.
  intros [c st d v tk p dn n] (Hs & Hd & Hp). cbn in *. intros P D L. subst p.
  destruct dn as [t0|]; [|congruence]. rewrite (Hp D).
  assert (E1 : (c - st <=? d) = false) by (apply Z.leb_gt; lia).
  assert (E2 : (d <? c - st) = true) by (apply Z.ltb_lt; lia).
  unfold brun. cbn [fold_left bstep b_pc b_clock b_start b_dur b_tok]. rewrite E1.
  unfold take_tok. cbn [bstep b_pc b_clock b_start b_dur b_tok b_done b_val b_polls]. rewrite E2.
  unfold set_bpc. cbn. eauto.
Qed.

Theorem late_wake_is_seen_reachable : forall ops now dur val,
  let s := brun ops (binit now dur val) in
  b_pc s = BChecking -> b_done s <> None -> b_dur s < b_clock s - b_start s ->
  exists at_, b_pc (brun [BCheck; BCheck2; BPoll] s) = BDone (BOk val) at_.
Proof.
  intros ops now dur val s P D L.
  destruct (late_wake_is_seen s (binv_run ops _ (binv_init now dur val)) P D L) as [a H].
  destruct (bconst_run ops (binit now dur val)) as (_ & _ & C). fold s in C. cbn in C.
  exists a. now rewrite <- C.
Qed.

Example late_wake_is_seen_run :
  b_pc (brun [BPoll; BComplete; BTick 11; BCheck; BCheck2; BPoll] (binit 0 10 7)) = BDone (BOk 7) 11.
Proof. reflexivity. Qed.

(* a wake issued from inside poll - also with a token already buffered - never blocks
   the polling thread (fix 7de0553): its place in the loop, the clock and the future
   are unchanged, a token is buffered afterwards; a wake from any other thread does
   not change the blocked thread's place either *)
Theorem self_wake_never_blocks : forall s,
  b_pc (bstep s BSelfWake) = b_pc s /\
  (b_pc s = BPolling -> b_tok (bstep s BSelfWake) = true) /\
  b_clock (bstep s BSelfWake) = b_clock s /\ b_done (bstep s BSelfWake) = b_done s /\
  b_pc (bstep s BSpurious) = b_pc s.
Proof.
  intros s. cbn [bstep]. unfold bwake. destruct (b_pc s) eqn:P; cbn; rewrite ?P; repeat split; auto;
    try discriminate.
Qed.

Theorem self_wake_then_poll_proceeds : forall s,
  b_pc s = BPolling ->
  let s' := brun [BSelfWake; BSelfWake; BPoll] s in
  match b_done s with
  | None => b_pc s' = BChecking /\ b_tok s' = true
  | Some _ => exists at_, b_pc s' = BDone (BOk (b_val s)) at_
  end.
Proof.
  intros s P. destruct s as [c st d v tk p dn n]. cbn in P. subst p.
  cbn. destruct dn; cbn; eauto.
Qed.

(* Ok(v) is only ever the future's own output, returned after its completion *)
Theorem block_timeout_ok_is_output : forall ops now dur val v at_,
  let s := brun ops (binit now dur val) in
  b_pc s = BDone (BOk v) at_ -> v = val /\ exists t, b_done s = Some t /\ t <= at_.
Proof.
  intros ops now dur val v at_ s P.
  pose proof (binv_run ops _ (binv_init now dur val)) as (Hs & Hd & Hp). fold s in Hs, Hd, Hp.
  destruct (bconst_run ops (binit now dur val)) as (_ & _ & C). fold s in C. cbn in C.
  rewrite P in Hp. destruct Hp as [E X]. split; [congruence|exact X].
Qed.

(* a completed future whose wake token is in the channel is returned: the thread's
   own next steps lead to Ok whatever the clock says (in the loop or by the last poll) *)
Theorem block_timeout_completes : forall s lim,
  b_pc s = BWaiting lim -> b_done s <> None -> b_tok s = true ->
  exists at_, b_pc (brun [BRecvOk; BCheck2; BPoll] s) = BDone (BOk (b_val s)) at_.
Proof.
  intros [c st d v tk p dn n] lim P D T. cbn in *. subst p tk.
  destruct dn as [t0|]; [|congruence].
  unfold brun. cbn [fold_left bstep b_pc b_tok]. unfold take_tok.
  cbn [bstep b_pc b_clock b_start b_dur b_tok b_done b_val b_polls].
  destruct (d <? c - st); cbn; eauto.
Qed.

(* ---------------------------------------------------------------- block_on *)
Definition oinv (s : ost) : Prop :=
  match o_pc s with ODone v => v = o_val s /\ o_done s = true | _ => True end.

Lemma oinv_step : forall s o, oinv s -> oinv (ostep s o).
Proof.
  intros s o H. destruct o; cbn [ostep]; unfold oinv in *.
  - cbn. destruct (o_pc s); auto. destruct H. auto.
  - destruct (o_pc s) eqn:P; try (rewrite P; auto). destruct (o_done s); cbn; auto.
  - destruct (o_pc s) eqn:P; try (rewrite P; auto). cbn. auto.
Qed.

Lemma oval_step : forall s o, o_val (ostep s o) = o_val s.
Proof.
  intros s o. destruct o; cbn [ostep]; auto; destruct (o_pc s); auto. destruct (o_done s); auto.
Qed.

(* block_on returns the future's output, and only after the future completed *)
Theorem block_on_returns_output : forall ops val v,
  o_pc (orun ops (oinit val)) = ODone v -> v = val /\ o_done (orun ops (oinit val)) = true.
Proof.
  intros ops val v.
  assert (G : forall ops s, oinv s -> oinv (orun ops s) /\ o_val (orun ops s) = o_val s).
  { clear. induction ops as [|o ops IH]; intros s H; [split; auto|].
    change (orun (o :: ops) s) with (orun ops (ostep s o)).
    destruct (IH _ (oinv_step s o H)) as [A B]. split; [exact A|]. now rewrite B, oval_step. }
  destruct (G ops (oinit val) Logic.I) as [A B]. intros P. unfold oinv in A. rewrite P in A.
  destruct A as [A1 A2]. split; [|exact A2]. rewrite A1, B. reflexivity.
Qed.

(* once the future has completed, block_on's own next steps return *)
Theorem block_on_completes : forall s, o_done s = true ->
  (o_pc s = OPolling -> o_pc (orun [NPoll] s) = ODone (o_val s)) /\
  (o_pc s = OParked -> o_pc (orun [NUnpark; NPoll] s) = ODone (o_val s)).
Proof.
  intros s D. split; intros P; cbn; rewrite P; cbn; rewrite D; reflexivity.
Qed.
