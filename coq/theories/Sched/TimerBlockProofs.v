(* C42 — proofs about block_timeout / block_on (all interleavings = all op lists). *)
From DustDDS Require Import Base.Machine Sched.TimerBlockModel.
Open Scope Z_scope.

Definition binv (s : bst) : Prop :=
  b_start s <= b_clock s /\
  (forall t, b_done s = Some t -> t <= b_clock s) /\
  match b_pc s with
  | BPolling => True
  | BChecking => b_done s <> None -> b_tok s = true
  | BWaiting lim => lim = b_start s + b_dur s /\ (b_done s <> None -> b_tok s = true)
  | BDone BTimeout unseen at_ =>
      b_start s + b_dur s <= at_ <= b_clock s /\
      (unseen = false -> forall t, b_done s = Some t -> at_ <= t)
  | BDone (BOk v) _ at_ => v = b_val s /\ exists t, b_done s = Some t /\ t <= at_
  end.

Lemma bconst_step : forall s o,
  b_start (bstep s o) = b_start s /\ b_dur (bstep s o) = b_dur s /\ b_val (bstep s o) = b_val s.
Proof.
  intros s o. destruct o; cbn [bstep]; unfold bwake, set_bpc;
    repeat match goal with |- context [match ?x with _ => _ end] => destruct x end; cbn; auto.
Qed.

Lemma bconst_run : forall ops s,
  b_start (brun ops s) = b_start s /\ b_dur (brun ops s) = b_dur s /\ b_val (brun ops s) = b_val s.
Proof.
  induction ops as [|o ops IH]; intros s; [cbn; auto|].
  change (brun (o :: ops) s) with (brun ops (bstep s o)).
  destruct (IH (bstep s o)) as (A & B & C). destruct (bconst_step s o) as (A' & B' & C').
  repeat split; congruence.
Qed.

Lemma binv_init : forall now dur val, binv (binit now dur val).
Proof. intros. unfold binv, binit. cbn. repeat split; try lia. discriminate. Qed.

Lemma binv_step : forall s o, binv s -> binv (bstep s o).
Proof.
  intros s o I. pose proof I as (Hs & Hd & Hp). destruct o; cbn [bstep].
  - (* tick *) unfold binv. cbn [b_start b_clock b_done b_pc b_tok b_dur b_val].
    split; [lia|]. split; [intros t Ht; specialize (Hd t Ht); lia|].
    destruct (b_pc s) as [| |lim|[v|] u a]; auto.
    destruct Hp as [A B]. split; [lia|exact B].
  - (* complete *) destruct (b_done s) as [t0|] eqn:D.
    + exact I.
    + unfold bwake, binv.
      cbn [b_start b_clock b_done b_pc b_tok b_dur b_val];
        (split; [lia|]); (split; [intros t Ht; inversion Ht; lia|]);
        (destruct (b_pc s) as [| |lim|[v|] u a]; auto;
         [ destruct Hp as [A B]; split; auto
         | destruct Hp as [A [t [B C]]]; discriminate
         | destruct Hp as [A B]; split; [lia|]; intros U t Ht; inversion Ht; lia ]).
  - (* spurious *) unfold bwake, binv.
    cbn [b_start b_clock b_done b_pc b_tok b_dur b_val];
      (split; [lia|]); (split; [exact Hd|]);
      (destruct (b_pc s) as [| |lim|[v|] u a]; auto; destruct Hp as [A B]; split; auto).
  - (* self wake *) destruct (b_pc s) eqn:P; try exact I.
    unfold bwake, binv. cbn [b_start b_clock b_done b_pc b_tok b_dur b_val].
    rewrite P. repeat split; auto.
  - (* poll *) destruct (b_pc s) eqn:P; try exact I.
    destruct (b_done s) as [t0|] eqn:D; unfold set_bpc, binv;
      cbn [b_start b_clock b_done b_pc b_tok b_dur b_val]; try rewrite D;
      (split; [lia|]); (split; [first [exact Hd | intros t Ht; apply Hd; congruence]|]).
    + split; [reflexivity|]. exists t0. split; [reflexivity|]. apply Hd. congruence.
    + intros N. congruence.
  - (* check *) destruct (b_pc s) eqn:P; try exact I.
    destruct (b_clock s - b_start s <=? b_dur s) eqn:C; unfold set_bpc, binv;
      cbn [b_start b_clock b_done b_pc b_tok b_dur b_val]; (split; [lia|]); (split; [exact Hd|]).
    + split; [reflexivity|exact Hp].
    + apply Z.leb_gt in C. split; [lia|]. intros U t Ht.
      assert (b_done s <> None) by congruence. rewrite (Hp H) in U. discriminate.
  - (* recv ok *) destruct (b_pc s) eqn:P; try exact I.
    destruct (b_tok s) eqn:T; [|exact I].
    unfold binv; cbn [b_start b_clock b_done b_pc b_tok b_dur b_val]; auto.
  - (* recv timeout *) destruct (b_pc s) eqn:P; try exact I.
    destruct (negb (b_tok s) && (lim <=? b_clock s)) eqn:G; [|exact I].
    apply andb_true_iff in G. destruct G as [G1 G2]. apply negb_true_iff in G1. apply Z.leb_le in G2.
    destruct Hp as [A B]. unfold set_bpc, binv. cbn [b_start b_clock b_done b_pc b_tok b_dur b_val].
    split; [lia|]. split; [exact Hd|]. split; [lia|]. intros _ t Ht.
    assert (b_done s <> None) by congruence. rewrite (B H) in G1. discriminate.
Qed.

Lemma binv_run : forall ops s, binv s -> binv (brun ops s).
Proof.
  induction ops as [|o ops IH]; intros s H; [assumption|].
  change (brun (o :: ops) s) with (brun ops (bstep s o)). apply IH. now apply binv_step.
Qed.

(* block_timeout returns Timeout only after the whole duration has passed, and -
   unless it took the else branch while a wake token was waiting in the channel -
   only if the future had not completed by then (its completion, if any, is not
   earlier than the return) *)
Theorem block_timeout_only_late : forall ops now dur val unseen at_,
  let s := brun ops (binit now dur val) in
  b_pc s = BDone BTimeout unseen at_ ->
  now + dur <= at_ /\
  (unseen = false -> forall t, b_done s = Some t -> now + dur <= t /\ at_ <= t).
Proof.
  intros ops now dur val unseen at_ s P.
  pose proof (binv_run ops _ (binv_init now dur val)) as (Hs & Hd & Hp). fold s in Hs, Hd, Hp.
  destruct (bconst_run ops (binit now dur val)) as (A & B & _). fold s in A, B. cbn in A, B.
  rewrite P in Hp. rewrite A, B in Hp. destruct Hp as [L U].
  split; [lia|]. intros Hu t Ht. specialize (U Hu t Ht). lia.
Qed.

(* the excluded class is real: with a stall between the Pending poll and the clock
   read, Timeout is returned although the future completed within the duration *)
Theorem late_check_window_exists :
  exists ops t at_,
    let s := brun ops (binit 0 10 7) in
    b_pc s = BDone BTimeout true at_ /\ b_done s = Some t /\ t < 0 + 10.
Proof. exists [BPoll; BComplete; BTick 11; BCheck], 0, 11. vm_compute. auto. Qed.

(* After fix 7de0553 (try_send): a wake issued from inside poll - also with a token
   already buffered - never blocks the polling thread: its place in the loop is
   unchanged, a token is buffered afterwards, nothing else changes; and every wake,
   from whichever thread, leaves the place of the blocked thread unchanged. *)
Theorem self_wake_never_blocks : forall s,
  b_pc (bstep s BSelfWake) = b_pc s /\
  (b_pc s = BPolling -> b_tok (bstep s BSelfWake) = true) /\
  b_clock (bstep s BSelfWake) = b_clock s /\ b_done (bstep s BSelfWake) = b_done s /\
  b_pc (bstep s BSpurious) = b_pc s.
Proof.
  intros s. cbn [bstep]. unfold bwake. destruct (b_pc s) eqn:P; cbn; rewrite ?P; repeat split; auto;
    try discriminate.
Qed.

(* ... and the poll that follows proceeds as usual: Pending -> the clock check, or
   Ready -> Ok(output) (the old hanging input: wake twice inside one poll) *)
Theorem self_wake_then_poll_proceeds : forall s,
  b_pc s = BPolling ->
  let s' := brun [BSelfWake; BSelfWake; BPoll] s in
  match b_done s with
  | None => b_pc s' = BChecking /\ b_tok s' = true
  | Some _ => exists at_, b_pc s' = BDone (BOk (b_val s)) false at_
  end.
Proof.
  intros s P. destruct s as [c st d v tk p dn n]. cbn in P. subst p.
  cbn. destruct dn; cbn; eauto.
Qed.

(* Ok(v) is only ever the future's own output, returned after its completion *)
Theorem block_timeout_ok_is_output : forall ops now dur val v u at_,
  let s := brun ops (binit now dur val) in
  b_pc s = BDone (BOk v) u at_ -> v = val /\ exists t, b_done s = Some t /\ t <= at_.
Proof.
  intros ops now dur val v u at_ s P.
  pose proof (binv_run ops _ (binv_init now dur val)) as (Hs & Hd & Hp). fold s in Hs, Hd, Hp.
  destruct (bconst_run ops (binit now dur val)) as (_ & _ & C). fold s in C. cbn in C.
  rewrite P in Hp. destruct Hp as [E X]. split; [congruence|exact X].
Qed.

(* a completed future whose wake token is in the channel is returned: the thread's
   own next steps lead to Ok (no timing assumption) *)
Theorem block_timeout_completes : forall s lim,
  b_pc s = BWaiting lim -> b_done s <> None -> b_tok s = true ->
  exists at_, b_pc (brun [BRecvOk; BPoll] s) = BDone (BOk (b_val s)) false at_.
Proof.
  intros s lim P D T. unfold brun. cbn [fold_left bstep]. rewrite P, T.
  destruct (b_done s) eqn:E; [|congruence].
  cbn; eauto.
Qed.

(* ---------------------------------------------------------------- block_on *)
Definition oinv (s : ost) : Prop :=
  match o_pc s with ODone v => v = o_val s /\ o_done s = true | _ => True end.

Lemma oinv_step : forall s o, oinv s -> oinv (ostep s o).
Proof.
  intros s o H. destruct o; cbn [ostep]; unfold oinv in *.
  - cbn. destruct (o_pc s); auto. destruct H. auto.
  - destruct (o_pc s) eqn:P; try (rewrite P; auto). destruct (o_done s); cbn; auto.
  - destruct (o_pc s) eqn:P; try (rewrite P; auto). cbn. auto.
Qed.

Lemma oval_step : forall s o, o_val (ostep s o) = o_val s.
Proof.
  intros s o. destruct o; cbn [ostep]; auto; destruct (o_pc s); auto. destruct (o_done s); auto.
Qed.

(* block_on returns the future's output, and only after the future completed *)
Theorem block_on_returns_output : forall ops val v,
  o_pc (orun ops (oinit val)) = ODone v -> v = val /\ o_done (orun ops (oinit val)) = true.
Proof.
  intros ops val v.
  assert (G : forall ops s, oinv s -> oinv (orun ops s) /\ o_val (orun ops s) = o_val s).
  { clear. induction ops as [|o ops IH]; intros s H; [split; auto|].
    change (orun (o :: ops) s) with (orun ops (ostep s o)).
    destruct (IH _ (oinv_step s o H)) as [A B]. split; [exact A|]. now rewrite B, oval_step. }
  destruct (G ops (oinit val) Logic.I) as [A B]. intros P. unfold oinv in A. rewrite P in A.
  destruct A as [A1 A2]. split; [|exact A2]. rewrite A1, B. reflexivity.
Qed.

(* once the future has completed, block_on's own next steps return *)
Theorem block_on_completes : forall s, o_done s = true ->
  (o_pc s = OPolling -> o_pc (orun [NPoll] s) = ODone (o_val s)) /\
  (o_pc s = OParked -> o_pc (orun [NUnpark; NPoll] s) = ODone (o_val s)).
Proof.
  intros s D. split; intros P; cbn; rewrite P; cbn; rewrite D; reflexivity.
Qed.
