(* C32, part 2: WaitSetAsync::wait as interleaved atomic steps of any number of
   waiters; the no-lost-wake-up invariant and what follows from it. *)
From DustDDS Require Import Base.Machine Sched.StatusCondModel Sched.StatusCondProofs.
Close Scope Z_scope.
Open Scope nat_scope.

(* the waiter's channel is notified, or its sender is still registered on every
   condition of [pre] *)
Definition cover (s : sys) (ch : nat) (pre : list nat) : Prop :=
  notif s ch = true \/ forall c, In c pre -> regd s c ch.

Definition pc_ok (s : sys) (wt : waiter) : Prop :=
  match w_pc wt with
  | Check1 t _ => t <> [] /\ exists pre, w_att wt = pre ++ t
  | Reg t => t <> [] /\ exists pre, w_att wt = pre ++ t /\ cover s (w_ch wt) pre
  | Await => w_att wt <> [] /\ cover s (w_ch wt) (w_att wt)
  | Check2 t _ => t <> [] /\ exists pre, w_att wt = pre ++ t
  | _ => True
  end.

Definition waiter_ok (s : sys) (wt : waiter) : Prop :=
  pc_ok s wt /\ (has_chan (w_pc wt) = true -> w_ch wt < length (chans s)).

Definition chans_distinct (ws : list waiter) : Prop :=
  forall w1 w2 wt1 wt2, w1 <> w2 ->
    nth_error ws w1 = Some wt1 -> nth_error ws w2 = Some wt2 ->
    has_chan (w_pc wt1) = true -> has_chan (w_pc wt2) = true -> w_ch wt1 <> w_ch wt2.

Definition w_inv (s : wsys) : Prop :=
  cond_inv (w_sys s) /\ chans_ok (w_sys s) /\
  (forall w wt, nth_error (w_waiters s) w = Some wt -> waiter_ok (w_sys s) wt) /\
  chans_distinct (w_waiters s).

(* ---- frames *)
Lemma cover_frame : forall ex s s' ch pre,
  sys_frame ex s s' -> Some ch <> ex -> ch < length (chans s) ->
  cover s ch pre -> cover s' ch pre.
Proof.
  intros ex s s' ch pre [F1 [F2 F3]] Hne Hlt [Hn|Hr].
  - left. eapply chans_evol_notif; eassumption.
  - destruct (notif s' ch) eqn:N; [left; exact N|]. right. intros c Hc.
    destruct (F3 c ch Hne Hlt (Hr c Hc)) as [H|H]; [exact H | congruence].
Qed.

Lemma waiter_ok_frame : forall ex s s' wt,
  sys_frame ex s s' -> (has_chan (w_pc wt) = true -> Some (w_ch wt) <> ex) ->
  waiter_ok s wt -> waiter_ok s' wt.
Proof.
  intros ex s s' wt F Hex [Hp Hl]. pose proof F as [F1 _]. split.
  - unfold pc_ok in *. destruct (w_pc wt) eqn:P; try exact Hp.
    + destruct Hp as [Ht [pre [Ha Hc]]]. split; [exact Ht|]. exists pre. split; [exact Ha|].
      eapply cover_frame; try eassumption; [apply Hex | apply Hl]; reflexivity.
    + destruct Hp as [Ha Hc]. split; [exact Ha|].
      eapply cover_frame; try eassumption; [apply Hex | apply Hl]; reflexivity.
  - intro Hh. eapply chans_evol_lt; [exact F1 | apply Hex, Hh | apply Hl, Hh].
Qed.

(* ---- registering *)
Lemma notif_app_chan_fire : forall chs ch,
  ch < length chs ->
  match nth_error (app_chan chan_fire chs ch) ch with Some y => notified y = true | None => False end.
Proof.
  intros chs ch H. rewrite nth_error_app_chan, Nat.eqb_refl.
  destruct (nth_error chs ch) eqn:E; [|apply nth_error_None in E; lia].
  cbn [option_map]. apply chan_fire_notified.
Qed.

Lemma sys_register_cover : forall s c ch,
  ch < length (chans s) ->
  notif (sys_register s c ch) ch = true \/ regd (sys_register s c ch) c ch.
Proof.
  intros s c ch Hlt. unfold sys_register, with_cond.
  destruct (nth_error (conds s) c) eqn:Hc.
  - destruct (cond_trigger c0).
    + left. unfold notif. cbn [chans].
      pose proof (notif_app_chan_fire (app_chan chan_clone (chans s) ch) ch) as H.
      rewrite app_chan_length in H. specialize (H Hlt).
      destruct (nth_error _ ch); [exact H | contradiction].
    + right. eapply regd_upd_same; [eassumption|]. cbn [c_registered]. apply in_or_app. right. left. reflexivity.
  - right. intros cd Hcd. congruence.
Qed.

(* ---- one step of the stepping waiter *)
Definition step_ex (wt : waiter) : option nat :=
  match w_pc wt with Await => Some (w_ch wt) | _ => None end.

Lemma sys_poll_conds : forall s ch, conds (fst (sys_poll s ch)) = conds s.
Proof.
  intros. unfold sys_poll. destruct (nth_error _ _); [destruct (chan_poll c)|]; reflexivity.
Qed.

Lemma sys_poll_length : forall s ch, length (chans (fst (sys_poll s ch))) = length (chans s).
Proof.
  intros. unfold sys_poll. destruct (nth_error _ _); [destruct (chan_poll c)|]; cbn [fst chans]; [apply upd_length | reflexivity].
Qed.

Lemma sys_poll_pending : forall s ch,
  snd (sys_poll s ch) = PPending -> notif s ch = false.
Proof.
  intros s ch. unfold sys_poll, notif. destruct (nth_error (chans s) ch); [|discriminate].
  unfold chan_poll. destruct (notified c); cbn [snd]; [discriminate | reflexivity].
Qed.

Lemma regd_same_conds : forall s s' c ch, conds s' = conds s -> regd s c ch -> regd s' c ch.
Proof. intros s s' c ch E H cd. rewrite E. apply H. Qed.

Lemma waiter_step_frame : forall s wt,
  sys_frame (step_ex wt) s (fst (waiter_step s wt)).
Proof.
  intros s wt. unfold waiter_step, step_ex. destruct (w_pc wt) as [|t acc|t| |t acc|r].
  - apply sys_frame_refl.
  - destruct t as [|c t]; [apply sys_frame_refl|].
    destruct t; [|apply sys_frame_refl].
    destruct (if sys_trigger s c then acc ++ [c] else acc); [apply sys_newchan_frame | apply sys_frame_refl].
  - destruct t as [|c t]; [apply sys_frame_refl | apply sys_register_frame].
  - pose proof (sys_poll_frame s (w_ch wt)) as F.
    destruct (sys_poll s (w_ch wt)) as [s' o]. cbn [fst] in F.
    destruct o; cbn [fst]; try exact F.
    eapply sys_frame_trans; [exact F | apply sys_frame_weaken, sys_drop_frame].
  - destruct t as [|c t]; [apply sys_frame_refl|]. destruct t; [apply sys_drop_frame | apply sys_frame_refl].
  - apply sys_frame_refl.
Qed.

Lemma waiter_step_cond_inv : forall s wt, cond_inv s -> cond_inv (fst (waiter_step s wt)).
Proof.
  intros s wt H. unfold waiter_step. destruct (w_pc wt) as [|t acc|t| |t acc|r]; try exact H.
  - destruct t as [|c t]; [exact H|]. destruct t; [|exact H].
    destruct (if sys_trigger s c then acc ++ [c] else acc); exact H.
  - destruct t as [|c t]; [exact H | apply sys_register_inv, H].
  - pose proof (sys_poll_conds s (w_ch wt)) as E.
    destruct (sys_poll s (w_ch wt)) as [s' o]. cbn [fst] in E.
    destruct o; cbn [fst]; eapply cond_inv_same_conds; try eassumption.
  - destruct t as [|c t]; [exact H|]. destruct t; exact H.
Qed.

Lemma waiter_step_chans_ok : forall s wt, chans_ok s -> chans_ok (fst (waiter_step s wt)).
Proof.
  intros s wt H. unfold waiter_step. destruct (w_pc wt) as [|t acc|t| |t acc|r]; try exact H.
  - destruct t as [|c t]; [exact H|]. destruct t; [|exact H].
    destruct (if sys_trigger s c then acc ++ [c] else acc); [apply sys_newchan_chans_ok, H | exact H].
  - destruct t as [|c t]; [exact H | apply sys_register_chans_ok, H].
  - pose proof (sys_poll_chans_ok s (w_ch wt) H) as E.
    destruct (sys_poll s (w_ch wt)) as [s' o]. cbn [fst] in E.
    destruct o; cbn [fst]; try exact E. apply sys_drop_chans_ok, E.
  - destruct t as [|c t]; [exact H|]. destruct t; [apply sys_drop_chans_ok, H | exact H].
Qed.

Lemma waiter_step_chan : forall s wt,
  let wt' := snd (waiter_step s wt) in
  has_chan (w_pc wt') = true ->
  (has_chan (w_pc wt) = true /\ w_ch wt' = w_ch wt) \/
  (has_chan (w_pc wt) = false /\ w_ch wt' = length (chans s)).
Proof.
  intros s wt. unfold waiter_step. cbn zeta.
  destruct (w_pc wt) as [|t acc|t| |t acc|r] eqn:P.
  - cbn [snd]. rewrite P. cbn. discriminate.
  - destruct t as [|c t]; [cbn [snd]; rewrite P; cbn; discriminate|].
    destruct t; [|cbn; discriminate].
    destruct (if sys_trigger s c then acc ++ [c] else acc); cbn; [|discriminate].
    intros _. right. auto.
  - destruct t as [|c t]; cbn [snd]; [rewrite P|]; intros _; left; auto.
  - destruct (sys_poll s (w_ch wt)) as [s' o]. destruct o; cbn [snd w_pc w_ch has_chan]; try discriminate.
    + intros _. left. auto.
    + rewrite P. intros _. left. auto.
  - destruct t as [|c t]; cbn [snd]; [rewrite P; intros _; left; auto|].
    destruct t; cbn; [discriminate | intros _; left; auto].
  - cbn [snd]. rewrite P. cbn. discriminate.
Qed.

Lemma waiter_step_ok : forall s wt,
  waiter_ok s wt -> waiter_ok (fst (waiter_step s wt)) (snd (waiter_step s wt)).
Proof.
  intros s wt [Hp Hl]. unfold waiter_ok, pc_ok, waiter_step in *.
  destruct (w_pc wt) as [|t acc|t| |t acc|r] eqn:P; cbn [fst snd].
  - rewrite P. split; [exact I | cbn; discriminate].
  - (* Check1 *)
    destruct Hp as [Ht [pre Ha]]. destruct t as [|c t]; [contradiction|].
    destruct t as [|c2 t].
    + destruct (if sys_trigger s c then acc ++ [c] else acc) eqn:A; cbn [fst snd w_pc w_att w_ch has_chan].
      * split.
        -- split; [rewrite Ha; destruct pre; discriminate|]. exists []. split; [reflexivity|]. right. intros x [].
        -- intros _. cbn [chans]. rewrite app_length. cbn. lia.
      * split; [exact I | discriminate].
    + cbn [fst snd w_pc w_att w_ch has_chan]. split; [|discriminate].
      split; [discriminate|]. exists (pre ++ [c]). rewrite <- app_assoc. exact Ha.
  - (* Reg *)
    destruct Hp as [Ht [pre [Ha Hc]]]. destruct t as [|c t]; [contradiction|].
    specialize (Hl eq_refl).
    assert (Hlen : w_ch wt < length (chans (sys_register s c (w_ch wt)))).
    { eapply chans_evol_lt; [apply (sys_register_frame s c (w_ch wt)) | discriminate | exact Hl]. }
    assert (Hcov : cover (sys_register s c (w_ch wt)) (w_ch wt) (pre ++ [c])).
    { pose proof (cover_frame None _ _ _ _ (sys_register_frame s c (w_ch wt)) ltac:(discriminate) Hl Hc) as Hc'.
      destruct (notif (sys_register s c (w_ch wt)) (w_ch wt)) eqn:N; [left; exact N|]. right.
      intros x Hx. apply in_app_or in Hx. destruct Hx as [Hx|[<-|[]]].
      - destruct Hc' as [Hc'|Hc']; [congruence | apply Hc', Hx].
      - destruct (sys_register_cover s c (w_ch wt) Hl) as [H|H]; [congruence | exact H]. }
    destruct t as [|c2 t]; cbn [w_pc w_att w_ch has_chan].
    + split; [|intros _; exact Hlen]. split; [rewrite Ha; destruct pre; discriminate|].
      rewrite Ha. exact Hcov.
    + split; [|intros _; exact Hlen]. split; [discriminate|].
      exists (pre ++ [c]). split; [rewrite <- app_assoc; exact Ha | exact Hcov].
  - (* Await *)
    destruct Hp as [Ha Hc]. specialize (Hl eq_refl).
    pose proof (sys_poll_conds s (w_ch wt)) as Ec.
    pose proof (sys_poll_length s (w_ch wt)) as El.
    pose proof (sys_poll_pending s (w_ch wt)) as Ep.
    destruct (sys_poll s (w_ch wt)) as [s' o]. cbn [fst snd] in *.
    destruct o; cbn [fst snd w_pc w_att w_ch has_chan].
    + split; [split; [exact Ha | exists []; reflexivity] | intros _; lia].
    + rewrite P. split; [|intros _; lia]. split; [exact Ha|].
      specialize (Ep eq_refl). destruct Hc as [Hc|Hc]; [congruence|].
      right. intros c Hin. eapply regd_same_conds; [exact Ec | apply Hc, Hin].
    + split; [exact I | discriminate].
  - (* Check2 *)
    destruct Hp as [Ht [pre Ha]].
    destruct t as [|c t]; [contradiction|]. destruct t as [|c2 t]; cbn [fst snd w_pc w_att w_ch has_chan].
    + split; [exact I | discriminate].
    + split; [|exact Hl]. split; [discriminate|]. exists (pre ++ [c]). rewrite <- app_assoc. exact Ha.
  - rewrite P. split; [exact I | cbn; discriminate].
Qed.

(* ---- the invariant is preserved by every step outside the D6 class *)
Lemma w_inv_env : forall s sy',
  w_inv s -> sys_frame None (w_sys s) sy' -> cond_inv sy' -> chans_ok sy' ->
  w_inv (mkW sy' (w_waiters s)).
Proof.
  intros s sy' [H1 [H2 [H3 H4]]] F C K. split; [exact C|]. split; [exact K|]. split; [|exact H4].
  intros w wt Hw. cbn [w_sys w_waiters] in *. eapply waiter_ok_frame; [exact F | intros _; discriminate | eapply H3, Hw].
Qed.

Lemma chans_distinct_upd_nochan : forall ws w wt',
  chans_distinct ws -> has_chan (w_pc wt') = false -> chans_distinct (upd ws w wt').
Proof.
  intros ws w wt' H Hn w1 w2 wt1 wt2 Hne. rewrite !nth_error_upd.
  destruct (Nat.eqb_spec w w1), (Nat.eqb_spec w w2); subst.
  - contradiction.
  - destruct (nth_error ws w1); [|discriminate]. intros E _ Hh. injection E as <-. congruence.
  - destruct (nth_error ws w2); [|discriminate]. intros _ E _ Hh. injection E as <-. congruence.
  - apply H, Hne.
Qed.

Lemma waiter_ok_nochan : forall (s s' : sys) wt, has_chan (w_pc wt) = false ->
  match w_pc wt with Check1 _ _ => False | _ => True end -> waiter_ok s' wt.
Proof.
  intros s s' wt Hn Hc. split; [|congruence]. unfold pc_ok. destruct (w_pc wt); try exact I; try discriminate. contradiction.
Qed.

Theorem wstep_inv : forall fx s o, wop_d6 fx s o = false -> w_inv s -> w_inv (wstep fx s o).
Proof.
  intros fx s o Hd Hinv. pose proof Hinv as [H1 [H2 [H3 H4]]].
  destruct o as [c k|c k|c l|c|w cs|w|w|w]; cbn [wstep wop_d6] in *.
  - apply w_inv_env; [assumption | apply sys_add_frame | apply sys_add_inv, H1 | apply sys_add_chans_ok, H2].
  - apply w_inv_env; [assumption | apply sys_remove_frame | apply sys_remove_inv, H1 | apply sys_remove_chans_ok, H2].
  - apply w_inv_env; [assumption | apply sys_set_enabled_frame | apply sys_set_enabled_inv; assumption
                      | apply sys_set_enabled_chans_ok, H2].
  - exact Hinv.
  - (* WStart *)
    destruct (nth_error (w_waiters s) w) as [wt|] eqn:Hw; [|exact Hinv].
    destruct (is_running (w_pc wt)) eqn:R; [exact Hinv|].
    split; [exact H1|]. split; [exact H2|]. cbn [w_sys w_waiters]. split.
    + intros w' wt'. rewrite nth_error_upd. destruct (Nat.eqb w w'); [|apply H3].
      destruct (nth_error (w_waiters s) w'); [|discriminate]. intro E. injection E as <-.
      destruct cs as [|c cs]; (split; [|cbn; discriminate]); unfold pc_ok; cbn [w_pc w_att].
      * exact I.
      * split; [discriminate | exists []; reflexivity].
    + apply chans_distinct_upd_nochan; [exact H4|]. destruct cs; reflexivity.
  - (* WStep *)
    destruct (nth_error (w_waiters s) w) as [wt|] eqn:Hw; [|exact Hinv].
    pose proof (waiter_step_frame (w_sys s) wt) as F.
    pose proof (waiter_step_ok (w_sys s) wt (H3 _ _ Hw)) as Hok.
    pose proof (waiter_step_chan (w_sys s) wt) as Hch.
    pose proof (waiter_step_cond_inv (w_sys s) wt H1) as C.
    pose proof (waiter_step_chans_ok (w_sys s) wt H2) as K.
    destruct (waiter_step (w_sys s) wt) as [sy' wt']. cbn [fst snd] in *. cbn zeta in Hch.
    split; [exact C|]. split; [exact K|]. cbn [w_sys w_waiters]. split.
    + intros w' wt2. rewrite nth_error_upd. destruct (Nat.eqb_spec w w') as [<-|Hne].
      * rewrite Hw. intro E. injection E as <-. exact Hok.
      * intro Hw'. eapply waiter_ok_frame; [exact F| |apply (H3 _ _ Hw')].
        intro Hh. unfold step_ex. destruct (w_pc wt) eqn:P; try discriminate.
        intro E. injection E as E. revert E. apply (H4 w' w wt2 wt); auto. rewrite P. reflexivity.
    + intros w1 w2 wt1 wt2 Hne. rewrite !nth_error_upd.
      assert (Hnew : forall w' wt2, w' <> w -> nth_error (w_waiters s) w' = Some wt2 ->
                       has_chan (w_pc wt2) = true -> has_chan (w_pc wt') = true -> w_ch wt2 <> w_ch wt').
      { intros w' wt0 Hne' Hw' Hh0 Hh'. destruct (Hch Hh') as [[Hh E]|[Hh E]]; rewrite E.
        - apply (H4 w' w wt0 wt); auto.
        - destruct (H3 _ _ Hw') as [_ Hl]. specialize (Hl Hh0). lia. }
      destruct (Nat.eqb_spec w w1), (Nat.eqb_spec w w2); subst.
      * contradiction.
      * rewrite Hw. intros E Hw2 Hh1 Hh2. injection E as <-. intro X. symmetry in X. revert X.
        apply (Hnew w2 wt2); auto.
      * rewrite Hw. intros Hw1 E Hh1 Hh2. injection E as <-. apply (Hnew w1 wt1); auto.
      * apply H4, Hne.
  - (* WCancel *)
    destruct (nth_error (w_waiters s) w) as [wt|] eqn:Hw; [|exact Hinv].
    destruct (is_running (w_pc wt)) eqn:R; [|exact Hinv].
    set (sy' := if has_chan (w_pc wt) then sys_drop (w_sys s) (w_ch wt) else w_sys s).
    assert (F : sys_frame None (w_sys s) sy').
    { unfold sy'. destruct (has_chan (w_pc wt)); [apply sys_drop_frame | apply sys_frame_refl]. }
    split; [unfold sy'; destruct (has_chan (w_pc wt)); exact H1|].
    split; [unfold sy'; destruct (has_chan (w_pc wt)); [apply sys_drop_chans_ok, H2 | exact H2]|].
    cbn [w_sys w_waiters]. split.
    + intros w' wt2. rewrite nth_error_upd. destruct (Nat.eqb w w').
      * destruct (nth_error (w_waiters s) w'); [|discriminate]. intro E. injection E as <-.
        apply (waiter_ok_nochan (w_sys s)); [reflexivity | exact I].
      * intro Hw'. eapply waiter_ok_frame; [exact F | intros _; discriminate | apply (H3 _ _ Hw')].
    + apply chans_distinct_upd_nochan; [exact H4 | reflexivity].
  - (* WTake *)
    destruct (nth_error (w_waiters s) w) as [wt|] eqn:Hw; [|exact Hinv].
    destruct (w_pc wt) eqn:P; try exact Hinv.
    split; [exact H1|]. split; [exact H2|]. cbn [w_sys w_waiters]. split.
    + intros w' wt2. rewrite nth_error_upd. destruct (Nat.eqb w w'); [|apply H3].
      destruct (nth_error (w_waiters s) w'); [|discriminate]. intro E. injection E as <-.
      apply (waiter_ok_nochan (w_sys s)); [reflexivity | exact I].
    + apply chans_distinct_upd_nochan; [exact H4 | reflexivity].
Qed.

Lemma w_init_inv : forall nc nw, w_inv (w_init nc nw).
Proof.
  intros nc nw. split; [apply sys_init_cond_inv|]. split; [apply sys_init_chans_ok|]. split.
  - intros w wt H. cbn [w_init w_waiters] in H. apply nth_error_In, repeat_spec in H. subst.
    split; [exact I | cbn; discriminate].
  - intros w1 w2 wt1 wt2 _ H _ Hh. cbn [w_init w_waiters] in H. apply nth_error_In, repeat_spec in H. subst.
    cbn in Hh. discriminate.
Qed.

Theorem wrun_inv : forall fx ops s,
  w_d6_free fx s ops = true -> w_inv s -> w_inv (wrun fx s ops).
Proof.
  intros fx. induction ops as [|o t IH]; intros s Hf Hs; cbn [wrun fold_left]; [assumption|].
  cbn [w_d6_free] in Hf. apply andb_true_iff in Hf. destruct Hf as [Ho Ht].
  apply negb_true_iff in Ho. apply IH; [assumption | apply wstep_inv; assumption].
Qed.

Lemma w_d6_free_fixed : forall ops s, w_d6_free true s ops = true.
Proof. induction ops as [|o t IH]; intro s; cbn [w_d6_free]; [reflexivity|]. rewrite IH. destruct o; reflexivity. Qed.

(* ================================================= consequences of the invariant *)
Lemma sys_trigger_regd_false : forall s c ch,
  cond_inv s -> regd s c ch -> sys_trigger s c = false.
Proof.
  intros s c ch H Hr. unfold sys_trigger. destruct (nth_error (conds s) c) eqn:E; [|reflexivity].
  apply (H _ _ E). specialize (Hr _ E). intro X. rewrite X in Hr. destruct Hr.
Qed.

(* no waiter sleeps while one of its conditions is true *)
Lemma w_inv_await_all_false : forall s w wt,
  w_inv s -> nth_error (w_waiters s) w = Some wt -> w_pc wt = Await ->
  notif (w_sys s) (w_ch wt) = false ->
  forall c, In c (w_att wt) -> sys_trigger (w_sys s) c = false.
Proof.
  intros s w wt [H1 [_ [H3 _]]] Hw Hp Hn c Hc.
  destruct (H3 _ _ Hw) as [Hok _]. unfold pc_ok in Hok. rewrite Hp in Hok.
  destruct Hok as [_ [Hcov|Hcov]]; [congruence|].
  eapply sys_trigger_regd_false; [exact H1 | apply Hcov, Hc].
Qed.

Theorem no_sleep_while_true : forall fx nc nw ops,
  w_d6_free fx (w_init nc nw) ops = true ->
  forall w wt, nth_error (w_waiters (wrun fx (w_init nc nw) ops)) w = Some wt ->
    w_pc wt = Await ->
    notif (w_sys (wrun fx (w_init nc nw) ops)) (w_ch wt) = false ->
    forall c, In c (w_att wt) -> sys_trigger (w_sys (wrun fx (w_init nc nw) ops)) c = false.
Proof.
  intros fx nc nw ops Hf w wt. apply w_inv_await_all_false.
  apply wrun_inv; [exact Hf | apply w_init_inv].
Qed.

(* also while the register loop is still running: a condition already
   registered on cannot be true without the channel being notified *)
Lemma w_inv_reg_all_false : forall s w wt t,
  w_inv s -> nth_error (w_waiters s) w = Some wt -> w_pc wt = Reg t ->
  notif (w_sys s) (w_ch wt) = false ->
  exists pre, w_att wt = pre ++ t /\ forall c, In c pre -> sys_trigger (w_sys s) c = false.
Proof.
  intros s w wt t [H1 [_ [H3 _]]] Hw Hp Hn.
  destruct (H3 _ _ Hw) as [Hok _]. unfold pc_ok in Hok. rewrite Hp in Hok.
  destruct Hok as [_ [pre [Ha [Hcov|Hcov]]]]; [congruence|].
  exists pre. split; [exact Ha|]. intros c Hc.
  eapply sys_trigger_regd_false; [exact H1 | apply Hcov, Hc].
Qed.

(* ---- which channel a step may poll *)
Definition wop_ex (s : wsys) (o : wop) : option nat :=
  match o with
  | WStep w => match nth_error (w_waiters s) w with Some wt => step_ex wt | None => None end
  | _ => None
  end.

Lemma wstep_frame : forall fx s o, sys_frame (wop_ex s o) (w_sys s) (w_sys (wstep fx s o)).
Proof.
  intros fx s o. destruct o as [c k|c k|c l|c|w cs|w|w|w]; cbn [wstep wop_ex w_sys].
  - apply sys_add_frame.
  - apply sys_remove_frame.
  - apply sys_set_enabled_frame.
  - apply sys_frame_refl.
  - destruct (nth_error (w_waiters s) w); [destruct (is_running _)|]; apply sys_frame_refl.
  - destruct (nth_error (w_waiters s) w) as [wt|]; [|apply sys_frame_refl].
    pose proof (waiter_step_frame (w_sys s) wt) as F.
    destruct (waiter_step (w_sys s) wt). exact F.
  - destruct (nth_error (w_waiters s) w) as [wt|]; [|apply sys_frame_refl].
    destruct (is_running _); [|apply sys_frame_refl]. cbn [w_sys].
    destruct (has_chan _); [apply sys_drop_frame | apply sys_frame_refl].
  - destruct (nth_error (w_waiters s) w) as [wt|]; [|apply sys_frame_refl].
    destruct (w_pc wt); apply sys_frame_refl.
Qed.

(* a waiter that is in Await before and after a step is the same waiter record *)
Lemma wstep_await_same : forall fx s o w wt wt',
  nth_error (w_waiters s) w = Some wt -> w_pc wt = Await ->
  nth_error (w_waiters (wstep fx s o)) w = Some wt' -> w_pc wt' = Await ->
  wt' = wt.
Proof.
  intros fx s o w wt wt' Hw Hp. destruct o as [c k|c k|c l|c|w2 cs|w2|w2|w2]; cbn [wstep w_waiters];
    try (intros E _; congruence).
  - destruct (nth_error (w_waiters s) w2) as [wt2|] eqn:E2; [|intros E _; congruence].
    destruct (is_running (w_pc wt2)) eqn:R; [intros E _; congruence|]. cbn [w_waiters].
    rewrite nth_error_upd. destruct (Nat.eqb_spec w2 w) as [->|_]; [|intros E _; congruence].
    assert (wt2 = wt) by congruence. subst. rewrite Hp in R. discriminate.
  - destruct (nth_error (w_waiters s) w2) as [wt2|] eqn:E2; [|intros E _; congruence].
    destruct (waiter_step (w_sys s) wt2) as [sy' wt2'] eqn:St. cbn [w_waiters].
    rewrite nth_error_upd. destruct (Nat.eqb_spec w2 w) as [->|_]; [|intros E _; congruence].
    assert (wt2 = wt) by congruence. subst. rewrite Hw. intros E Hp'. injection E as <-.
    unfold waiter_step in St. rewrite Hp in St.
    destruct (sys_poll (w_sys s) (w_ch wt)) as [s1 o1]. destruct o1; injection St as _ <-; cbn [w_pc] in Hp'; try discriminate.
    reflexivity.
  - destruct (nth_error (w_waiters s) w2) as [wt2|] eqn:E2; [|intros E _; congruence].
    destruct (is_running (w_pc wt2)) eqn:R; [|intros E _; congruence]. cbn [w_waiters].
    rewrite nth_error_upd. destruct (Nat.eqb_spec w2 w) as [->|_]; [|intros E _; congruence].
    rewrite Hw. intros E Hp'. injection E as <-. cbn in Hp'. discriminate.
  - destruct (nth_error (w_waiters s) w2) as [wt2|] eqn:E2; [|intros E _; congruence].
    destruct (w_pc wt2) eqn:P2; try (intros E _; congruence). cbn [w_waiters].
    rewrite nth_error_upd. destruct (Nat.eqb_spec w2 w) as [->|_]; [|intros E _; congruence].
    rewrite Hw. intros E Hp'. injection E as <-. cbn in Hp'. discriminate.
Qed.

(* the owner's poll of a parked, not notified channel changes nothing that matters *)
Lemma own_poll_parked : forall s wt x,
  w_pc wt = Await -> nth_error (chans s) (w_ch wt) = Some x ->
  parked x = true -> notified x = false ->
  w_pc (snd (waiter_step s wt)) = Await ->
  notif (fst (waiter_step s wt)) (w_ch wt) = false.
Proof.
  intros s wt x Hp Hx Hpk Hn. unfold waiter_step. rewrite Hp. unfold sys_poll. rewrite Hx.
  unfold chan_poll. rewrite Hn. destruct (Nat.eqb (senders x) 0); cbn [fst snd w_pc]; [discriminate|].
  intros _. unfold notif. cbn [chans]. rewrite (nth_error_upd_same _ _ _ _ _ Hx). reflexivity.
Qed.

(* every parked waiter is woken at the very step that makes one of its
   conditions true *)
Theorem woken_at_the_step : forall fx s o w wt wt' x,
  w_inv s -> wop_d6 fx s o = false ->
  nth_error (w_waiters s) w = Some wt -> w_pc wt = Await ->
  nth_error (chans (w_sys s)) (w_ch wt) = Some x -> parked x = true ->
  nth_error (w_waiters (wstep fx s o)) w = Some wt' -> w_pc wt' = Await ->
  (exists c, In c (w_att wt') /\ sys_trigger (w_sys (wstep fx s o)) c = true) ->
  exists y, nth_error (chans (w_sys (wstep fx s o))) (w_ch wt) = Some y /\
            notified y = true /\ parked y = false /\ wakes y = S (wakes x).
Proof.
  intros fx s o w wt wt' x Hinv Hd Hw Hp Hx Hpk Hw' Hp' [c [Hc Ht]].
  pose proof (wstep_inv fx s o Hd Hinv) as Hinv'.
  assert (wt' = wt) by (eapply wstep_await_same; eassumption). subst wt'.
  assert (Hn : notified x = false) by (destruct Hinv as [_ [K _]]; apply (K _ _ Hx Hpk)).
  assert (Hn' : notif (w_sys (wstep fx s o)) (w_ch wt) = true).
  { destruct (notif (w_sys (wstep fx s o)) (w_ch wt)) eqn:N; [reflexivity|].
    rewrite (w_inv_await_all_false _ _ _ Hinv' Hw' Hp N c Hc) in Ht. discriminate. }
  destruct (wstep_frame fx s o) as [F _].
  assert (Hex : Some (w_ch wt) <> wop_ex s o).
  { intro E. destruct o as [c0 k|c0 k|c0 l|c0|w2 cs|w2|w2|w2]; cbn [wop_ex] in E; try discriminate.
    destruct (nth_error (w_waiters s) w2) as [wt2|] eqn:E2; [|discriminate].
    unfold step_ex in E. destruct (w_pc wt2) eqn:P2; try discriminate. injection E as E.
    assert (w2 = w).
    { destruct (Nat.eq_dec w2 w) as [->|Hne]; [reflexivity|]. exfalso.
      destruct Hinv as [_ [_ [_ D]]]. apply (D w2 w wt2 wt Hne E2 Hw); [rewrite P2|rewrite Hp|]; auto. }
    subst w2. assert (wt2 = wt) by congruence. subst wt2.
    cbn [wstep] in Hn', Hw'. rewrite Hw in Hn', Hw'.
    pose proof (own_poll_parked (w_sys s) wt x Hp Hx Hpk Hn) as Q.
    destruct (waiter_step (w_sys s) wt) as [sy' wt2]. cbn [w_sys w_waiters fst snd] in *.
    rewrite nth_error_upd, Nat.eqb_refl, Hw in Hw'. injection Hw' as ->.
    rewrite (Q Hp) in Hn'. discriminate. }
  destruct (F _ _ Hex Hx) as [y [Hy [_ [E1 E2]]]].
  exists y. unfold notif in Hn'. rewrite Hy in Hn'.
  destruct (parked y) eqn:Py.
  - destruct (E1 eq_refl) as [_ [_ E]]. congruence.
  - specialize (E2 eq_refl). rewrite Hpk in E2. repeat split; auto. lia.
Qed.

(* ====================================================== running one waiter alone *)
Fixpoint wsteps (n : nat) (s : sys) (wt : waiter) : sys * waiter :=
  match n with
  | O => (s, wt)
  | S k => let (s', wt') := waiter_step s wt in wsteps k s' wt'
  end.

Lemma upd_same : forall A (l : list A) i x, nth_error l i = Some x -> upd l i x = l.
Proof.
  induction l as [|h t IH]; intros [|i] x H; cbn in *; try discriminate.
  - injection H as ->. reflexivity.
  - rewrite IH by assumption. reflexivity.
Qed.

Lemma upd_upd : forall A (l : list A) i x y, upd (upd l i x) i y = upd l i y.
Proof. induction l as [|h t IH]; intros [|i] x y; cbn; auto. rewrite IH. reflexivity. Qed.

Lemma wrun_wsteps : forall fx n s w wt,
  nth_error (w_waiters s) w = Some wt ->
  wrun fx s (repeat (WStep w) n) =
  mkW (fst (wsteps n (w_sys s) wt)) (upd (w_waiters s) w (snd (wsteps n (w_sys s) wt))).
Proof.
  intros fx. induction n as [|n IH]; intros s w wt Hw; cbn [repeat wrun fold_left wsteps fst snd].
  - rewrite (upd_same _ _ _ _ Hw). destruct s; reflexivity.
  - fold (wrun fx (wstep fx s (WStep w)) (repeat (WStep w) n)).
    cbn [wstep]. rewrite Hw. destruct (waiter_step (w_sys s) wt) as [s1 wt1].
    rewrite (IH _ w wt1); cbn [w_sys w_waiters].
    + rewrite upd_upd. reflexivity.
    + eapply nth_error_upd_same; eassumption.
Qed.

Definition chk (s : sys) (acc t : list nat) : list nat := acc ++ filter (sys_trigger s) t.

Lemma chk_cons : forall s acc c t,
  chk s (if sys_trigger s c then acc ++ [c] else acc) t = chk s acc (c :: t).
Proof.
  intros. unfold chk. cbn [filter]. destruct (sys_trigger s c); [rewrite <- app_assoc|]; reflexivity.
Qed.

Lemma wsteps_check1 : forall s att ch t acc, t <> [] ->
  wsteps (length t) s (mkWaiter att (Check1 t acc) ch) =
  match chk s acc t with
  | [] => (mkSys (conds s) (chans s ++ [chan_new]), mkWaiter att (Reg att) (length (chans s)))
  | r => (s, mkWaiter att (Done (Ok r)) ch)
  end.
Proof.
  intros s att ch. induction t as [|c t IH]; intros acc Hne; [contradiction|].
  destruct t as [|c2 t].
  - cbn [length wsteps waiter_step w_pc w_att w_ch]. rewrite <- chk_cons. unfold chk. cbn [filter].
    rewrite app_nil_r. destruct (if sys_trigger s c then acc ++ [c] else acc); reflexivity.
  - change (length (c :: c2 :: t)) with (S (length (c2 :: t))). cbn [wsteps].
    cbn [waiter_step w_pc w_att w_ch]. rewrite IH by discriminate. rewrite chk_cons. reflexivity.
Qed.

Lemma wsteps_check2 : forall s att ch t acc, t <> [] ->
  wsteps (length t) s (mkWaiter att (Check2 t acc) ch) =
  (sys_drop s ch, mkWaiter att (Done (Ok (chk s acc t))) ch).
Proof.
  intros s att ch. induction t as [|c t IH]; intros acc Hne; [contradiction|].
  destruct t as [|c2 t].
  - cbn [length wsteps waiter_step w_pc w_att w_ch]. rewrite <- chk_cons. unfold chk. cbn [filter].
    rewrite app_nil_r. reflexivity.
  - change (length (c :: c2 :: t)) with (S (length (c2 :: t))). cbn [wsteps].
    cbn [waiter_step w_pc w_att w_ch]. rewrite IH by discriminate. rewrite chk_cons. reflexivity.
Qed.

Lemma wsteps_reg : forall att ch t s, t <> [] ->
  snd (wsteps (length t) s (mkWaiter att (Reg t) ch)) = mkWaiter att Await ch.
Proof.
  intros att ch. induction t as [|c t IH]; intros s Hne; [contradiction|].
  destruct t as [|c2 t].
  - reflexivity.
  - change (length (c :: c2 :: t)) with (S (length (c2 :: t))). cbn [wsteps].
    cbn [waiter_step w_pc w_att w_ch]. apply IH. discriminate.
Qed.

Lemma wsteps_add : forall n m s wt,
  wsteps (n + m) s wt = wsteps m (fst (wsteps n s wt)) (snd (wsteps n s wt)).
Proof.
  induction n as [|n IH]; intros m s wt; cbn [Nat.add wsteps fst snd]; [reflexivity|].
  destruct (waiter_step s wt). apply IH.
Qed.

Lemma filter_nonempty : forall (f : nat -> bool) l c, In c l -> f c = true -> filter f l <> [].
Proof.
  intros f l c Hin Hf E. assert (In c (filter f l)) by (apply filter_In; auto). rewrite E in H. destruct H.
Qed.

(* a condition is true when wait() is called: the call returns after the first
   loop, with exactly the attached conditions that are true *)
Theorem wait_returns_if_true_at_call : forall fx s w wt cs c,
  nth_error (w_waiters s) w = Some wt -> is_running (w_pc wt) = false ->
  In c cs -> sys_trigger (w_sys s) c = true ->
  let s' := wrun fx s (WStart w cs :: repeat (WStep w) (length cs)) in
  w_sys s' = w_sys s /\
  exists wt', nth_error (w_waiters s') w = Some wt' /\
              w_pc wt' = Done (Ok (filter (sys_trigger (w_sys s)) cs)).
Proof.
  intros fx s w wt cs c Hw Hr Hc Ht. cbn zeta. cbn [wrun fold_left].
  fold (wrun fx (wstep fx s (WStart w cs)) (repeat (WStep w) (length cs))).
  cbn [wstep]. rewrite Hw, Hr.
  destruct cs as [|c0 cs0] eqn:Ecs; [destruct Hc|]. rewrite <- Ecs in *.
  assert (Hne : cs <> []) by (rewrite Ecs; discriminate).
  replace (match cs with [] => Done (Err 1%Z) | _ :: _ => Check1 cs [] end) with (Check1 cs [])
    by (rewrite Ecs; reflexivity).
  erewrite wrun_wsteps; [|cbn [w_waiters]; eapply nth_error_upd_same; eassumption].
  cbn [w_sys w_waiters]. rewrite wsteps_check1 by assumption. unfold chk. cbn [app].
  pose proof (filter_nonempty (sys_trigger (w_sys s)) cs c Hc Ht) as Hf.
  destruct (filter (sys_trigger (w_sys s)) cs) eqn:Ef; [contradiction|]. cbn [fst snd w_sys w_waiters].
  split; [reflexivity|]. rewrite upd_upd. eexists. split; [eapply nth_error_upd_same; eassumption | reflexivity].
Qed.

(* a notified waiter returns with exactly the attached conditions that are true *)
Lemma wsteps_await_notified : forall s wt,
  w_pc wt = Await -> w_att wt <> [] -> notif s (w_ch wt) = true ->
  exists s', wsteps (S (length (w_att wt))) s wt =
             (s', mkWaiter (w_att wt) (Done (Ok (filter (sys_trigger s) (w_att wt)))) (w_ch wt)) /\
             conds s' = conds s.
Proof.
  intros s wt Hp Ha Hn. cbn [wsteps]. unfold waiter_step at 1. rewrite Hp.
  unfold notif in Hn. unfold sys_poll. destruct (nth_error (chans s) (w_ch wt)) as [x|] eqn:Hx; [|discriminate].
  unfold chan_poll. rewrite Hn. cbn [fst snd].
  set (s1 := mkSys (conds s) (upd (chans s) (w_ch wt) (mkChan false (parked x) (wakes x) (senders x)))).
  rewrite wsteps_check2 by assumption. exists (sys_drop s1 (w_ch wt)). split; [|reflexivity].
  unfold chk. cbn [app]. reflexivity.
Qed.

Theorem wait_returns_when_true : forall fx s w wt c,
  w_inv s -> nth_error (w_waiters s) w = Some wt -> w_pc wt = Await ->
  In c (w_att wt) -> sys_trigger (w_sys s) c = true ->
  let s' := wrun fx s (repeat (WStep w) (S (length (w_att wt)))) in
  exists wt', nth_error (w_waiters s') w = Some wt' /\
              w_pc wt' = Done (Ok (filter (sys_trigger (w_sys s)) (w_att wt))) /\
              filter (sys_trigger (w_sys s)) (w_att wt) <> [].
Proof.
  intros fx s w wt c Hinv Hw Hp Hc Ht. cbn zeta.
  assert (Hn : notif (w_sys s) (w_ch wt) = true).
  { destruct (notif (w_sys s) (w_ch wt)) eqn:N; [reflexivity|].
    rewrite (w_inv_await_all_false _ _ _ Hinv Hw Hp N c Hc) in Ht. discriminate. }
  assert (Ha : w_att wt <> []) by (intro E; rewrite E in Hc; destruct Hc).
  destruct (wsteps_await_notified (w_sys s) wt Hp Ha Hn) as [s' [E _]].
  rewrite (wrun_wsteps fx _ s w wt Hw), E. cbn [fst snd w_waiters].
  eexists. split; [eapply nth_error_upd_same; eassumption|]. split; [reflexivity|].
  eapply filter_nonempty; eassumption.
Qed.

(* whatever the waiter is doing, if it is left to run alone it either returns
   or ends up parked with all its conditions false: the protocol has no other
   place to get stuck *)
Lemma wrun_steps_inv : forall fx n s w, w_inv s -> w_inv (wrun fx s (repeat (WStep w) n)).
Proof.
  intros fx n s w H. apply wrun_inv; [|exact H].
  generalize s. induction n as [|n IH]; intro s0; cbn [repeat w_d6_free]; [reflexivity | apply IH].
Qed.

Definition final (sy : sys) (wt : waiter) : Prop :=
  (exists r, w_pc wt = Done r) \/
  (w_pc wt = Await /\ notif sy (w_ch wt) = false /\
   exists x, nth_error (chans sy) (w_ch wt) = Some x /\ parked x = true).

Definition reaches (sy : sys) (wt : waiter) (bound : nat) : Prop :=
  exists m sy' wt', m <= bound /\ wsteps m sy wt = (sy', wt') /\ final sy' wt'.

Lemma reaches_after : forall k sy wt sy1 wt1 b,
  wsteps k sy wt = (sy1, wt1) -> reaches sy1 wt1 b -> reaches sy wt (k + b).
Proof.
  intros k sy wt sy1 wt1 b E [m [sy' [wt' [Hm [E' F]]]]].
  exists (k + m), sy', wt'. split; [lia|]. split; [|exact F].
  rewrite wsteps_add, E. exact E'.
Qed.

Lemma reaches_check2 : forall sy att ch t acc, t <> [] ->
  reaches sy (mkWaiter att (Check2 t acc) ch) (length t).
Proof.
  intros sy att ch t acc Ht. exists (length t); do 2 eexists. split; [lia|].
  split; [apply wsteps_check2; exact Ht|]. left. eexists. reflexivity.
Qed.

Lemma reaches_await : forall sy att ch, att <> [] ->
  reaches sy (mkWaiter att Await ch) (S (length att)).
Proof.
  intros sy att ch Ha.
  destruct (waiter_step sy (mkWaiter att Await ch)) as [sy1 wt1] eqn:St.
  pose proof St as St0.
  unfold waiter_step in St. cbn [w_pc w_att w_ch] in St. unfold sys_poll in St.
  destruct (nth_error (chans sy) ch) as [x|] eqn:Hx.
  - unfold chan_poll in St. destruct (notified x) eqn:N.
    + injection St as <- <-.
      change (S (length att)) with (1 + length att).
      eapply reaches_after; [cbn [wsteps]; rewrite St0; reflexivity|].
      apply reaches_check2. exact Ha.
    + destruct (Nat.eqb (senders x) 0); injection St as <- <-.
      * exists 1; do 2 eexists. split; [lia|]. split; [cbn [wsteps]; rewrite St0; reflexivity|].
        left. eexists. reflexivity.
      * exists 1; do 2 eexists. split; [lia|]. split; [cbn [wsteps]; rewrite St0; reflexivity|].
        right. cbn [w_pc w_ch]. split; [reflexivity|]. unfold notif. cbn [chans].
        rewrite (nth_error_upd_same _ _ _ _ _ Hx). split; [reflexivity|]. eexists. split; reflexivity.
  - injection St as <- <-.
    exists 1; do 2 eexists. split; [lia|]. split; [cbn [wsteps]; rewrite St0; reflexivity|].
    left. eexists. reflexivity.
Qed.

Lemma reaches_reg : forall sy att ch t, t <> [] -> att <> [] ->
  reaches sy (mkWaiter att (Reg t) ch) (length t + S (length att)).
Proof.
  intros sy att ch t Ht Ha.
  destruct (wsteps (length t) sy (mkWaiter att (Reg t) ch)) as [sy1 wt1] eqn:E.
  pose proof (wsteps_reg att ch t sy Ht) as E2. rewrite E in E2. cbn [snd] in E2. subst wt1.
  eapply reaches_after; [exact E | apply reaches_await; exact Ha].
Qed.

Lemma reaches_check1 : forall sy att ch t acc, t <> [] -> att <> [] ->
  reaches sy (mkWaiter att (Check1 t acc) ch) (length t + (length att + S (length att))).
Proof.
  intros sy att ch t acc Ht Ha.
  pose proof (wsteps_check1 sy att ch t acc Ht) as E.
  destruct (chk sy acc t) eqn:Ec.
  - eapply reaches_after; [exact E | apply reaches_reg; exact Ha].
  - exists (length t); do 2 eexists. split; [lia|]. split; [exact E|]. left. eexists. reflexivity.
Qed.

Theorem waiter_alone_returns_or_parks : forall fx s w wt,
  w_inv s -> nth_error (w_waiters s) w = Some wt -> is_running (w_pc wt) = true ->
  exists n, n <= 3 * length (w_att wt) + 1 /\
    exists wt', nth_error (w_waiters (wrun fx s (repeat (WStep w) n))) w = Some wt' /\
      ((exists r, w_pc wt' = Done r) \/ parked_all_false (wrun fx s (repeat (WStep w) n)) wt').
Proof.
  intros fx s w wt Hinv Hw Hr.
  assert (R : reaches (w_sys s) wt (3 * length (w_att wt) + 1)).
  { destruct Hinv as [_ [_ [H3 _]]]. destruct (H3 _ _ Hw) as [Hok _]. unfold pc_ok in Hok.
    destruct wt as [att pc ch]. cbn [w_att w_pc w_ch] in *.
    destruct pc as [|t acc|t| |t acc|r]; cbn in Hr; try discriminate.
    - destruct Hok as [Ht [pre Ha]].
      assert (length t <= length att) by (rewrite Ha, app_length; lia).
      assert (att <> []) by (rewrite Ha; destruct pre, t; try discriminate; contradiction).
      destruct (reaches_check1 (w_sys s) att ch t acc Ht H0) as [m [a [b [Hm Q]]]].
      exists m, a, b. split; [lia | exact Q].
    - destruct Hok as [Ht [pre [Ha _]]].
      assert (length t <= length att) by (rewrite Ha, app_length; lia).
      assert (att <> []) by (rewrite Ha; destruct pre, t; try discriminate; contradiction).
      destruct (reaches_reg (w_sys s) att ch t Ht H0) as [m [a [b [Hm Q]]]].
      exists m, a, b. split; [lia | exact Q].
    - destruct Hok as [Ha _].
      destruct (reaches_await (w_sys s) att ch Ha) as [m [a [b [Hm Q]]]].
      exists m, a, b. split; [lia | exact Q].
    - destruct Hok as [Ht [pre Ha]].
      assert (length t <= length att) by (rewrite Ha, app_length; lia).
      destruct (reaches_check2 (w_sys s) att ch t acc Ht) as [m [a [b [Hm Q]]]].
      exists m, a, b. split; [lia | exact Q]. }
  destruct R as [n [sy' [wt' [Hn [E F]]]]]. exists n. split; [exact Hn|].
  pose proof (wrun_steps_inv fx n s w Hinv) as Hinv'.
  rewrite (wrun_wsteps fx n s w wt Hw) in *. rewrite E in *. cbn [fst snd w_waiters w_sys] in *.
  assert (Hw' : nth_error (upd (w_waiters s) w wt') w = Some wt') by (eapply nth_error_upd_same; eassumption).
  exists wt'. split; [exact Hw'|]. destruct F as [F|[Hp [Hn' Hx]]]; [left; exact F|].
  right. split; [exact Hp|]. split; [exact Hn'|]. split; [exact Hx|].
  apply (w_inv_await_all_false _ w wt' Hinv'); cbn [w_waiters w_sys]; assumption.
Qed.

(* ================================================== statements over reachable states *)
Lemma w_d6_free_app : forall fx a b s,
  w_d6_free fx s (a ++ b) = w_d6_free fx s a && w_d6_free fx (wrun fx s a) b.
Proof.
  intros fx. induction a as [|o t IH]; intros b s; cbn [app w_d6_free wrun fold_left]; [reflexivity|].
  rewrite IH. rewrite andb_assoc. reflexivity.
Qed.

Lemma reach_inv : forall fx nc nw ops,
  w_d6_free fx (w_init nc nw) ops = true -> w_inv (wrun fx (w_init nc nw) ops).
Proof. intros. apply wrun_inv; [assumption | apply w_init_inv]. Qed.

Theorem reach_registered_trigger_false : forall fx nc nw ops,
  w_d6_free fx (w_init nc nw) ops = true ->
  forall c cd, nth_error (conds (w_sys (wrun fx (w_init nc nw) ops))) c = Some cd ->
    c_registered cd <> [] -> cond_trigger cd = false.
Proof. intros fx nc nw ops H. apply (reach_inv fx nc nw ops H). Qed.

Theorem reach_woken_at_the_step : forall fx nc nw ops o,
  w_d6_free fx (w_init nc nw) (ops ++ [o]) = true ->
  forall w wt wt' x,
    nth_error (w_waiters (wrun fx (w_init nc nw) ops)) w = Some wt -> w_pc wt = Await ->
    nth_error (chans (w_sys (wrun fx (w_init nc nw) ops))) (w_ch wt) = Some x -> parked x = true ->
    nth_error (w_waiters (wrun fx (w_init nc nw) (ops ++ [o]))) w = Some wt' -> w_pc wt' = Await ->
    (exists c, In c (w_att wt') /\ sys_trigger (w_sys (wrun fx (w_init nc nw) (ops ++ [o]))) c = true) ->
    exists y, nth_error (chans (w_sys (wrun fx (w_init nc nw) (ops ++ [o])))) (w_ch wt) = Some y /\
              notified y = true /\ parked y = false /\ wakes y = S (wakes x).
Proof.
  intros fx nc nw ops o Hf w wt wt' x Hw Hp Hx Hpk.
  rewrite w_d6_free_app in Hf. apply andb_true_iff in Hf. destruct Hf as [Hf Ho].
  cbn [w_d6_free] in Ho. rewrite andb_true_r in Ho. apply negb_true_iff in Ho.
  unfold wrun. rewrite fold_left_app. cbn [fold_left]. fold (wrun fx (w_init nc nw) ops).
  apply woken_at_the_step; try assumption. apply reach_inv, Hf.
Qed.

Theorem reach_wait_returns_when_true : forall fx nc nw ops,
  w_d6_free fx (w_init nc nw) ops = true ->
  forall w wt c,
    nth_error (w_waiters (wrun fx (w_init nc nw) ops)) w = Some wt -> w_pc wt = Await ->
    In c (w_att wt) -> sys_trigger (w_sys (wrun fx (w_init nc nw) ops)) c = true ->
    exists wt',
      nth_error (w_waiters (wrun fx (w_init nc nw) (ops ++ repeat (WStep w) (S (length (w_att wt)))))) w = Some wt' /\
      w_pc wt' = Done (Ok (filter (sys_trigger (w_sys (wrun fx (w_init nc nw) ops))) (w_att wt))) /\
      filter (sys_trigger (w_sys (wrun fx (w_init nc nw) ops))) (w_att wt) <> [].
Proof.
  intros fx nc nw ops Hf w wt c Hw Hp Hc Ht.
  unfold wrun at 1. rewrite fold_left_app. fold (wrun fx (w_init nc nw) ops).
  apply (wait_returns_when_true fx _ w wt c (reach_inv fx nc nw ops Hf) Hw Hp Hc Ht).
Qed.

Theorem reach_waiter_alone_returns_or_parks : forall fx nc nw ops,
  w_d6_free fx (w_init nc nw) ops = true ->
  forall w wt, nth_error (w_waiters (wrun fx (w_init nc nw) ops)) w = Some wt ->
    is_running (w_pc wt) = true ->
    exists n, n <= 3 * length (w_att wt) + 1 /\
      exists wt', nth_error (w_waiters (wrun fx (w_init nc nw) (ops ++ repeat (WStep w) n))) w = Some wt' /\
        ((exists r, w_pc wt' = Done r) \/
         parked_all_false (wrun fx (w_init nc nw) (ops ++ repeat (WStep w) n)) wt').
Proof.
  intros fx nc nw ops Hf w wt Hw Hr.
  destruct (waiter_alone_returns_or_parks fx _ w wt (reach_inv fx nc nw ops Hf) Hw Hr) as [n [Hn Q]].
  exists n. split; [exact Hn|]. unfold wrun at 1 2. rewrite fold_left_app. exact Q.
Qed.

(* ---- trigger value along wait-layer histories *)
Lemma waiter_step_repr : forall s wt en chg, repr_all s en chg -> repr_all (fst (waiter_step s wt)) en chg.
Proof.
  intros s wt en chg H. unfold waiter_step. destruct (w_pc wt) as [|t acc|t| |t acc|r]; try exact H.
  - destruct t as [|c t]; [exact H|]. destruct t; [|exact H].
    destruct (if sys_trigger s c then acc ++ [c] else acc); exact H.
  - destruct t as [|c t]; [exact H | apply sys_register_repr, H].
  - pose proof (sys_poll_conds s (w_ch wt)) as E.
    destruct (sys_poll s (w_ch wt)) as [s' o]. cbn [fst] in E.
    destruct o; cbn [fst]; eapply repr_all_ext; try eassumption; auto.
  - destruct t as [|c t]; [exact H|]. destruct t; exact H.
Qed.

Lemma wstep_repr : forall fx s o en chg,
  repr_all (w_sys s) en chg ->
  repr_all (w_sys (wstep fx s o)) (fun x => en_step x (en x) (wop_ev o)) (fun x => chg_step x (chg x) (wop_ev o)).
Proof.
  intros fx s o en chg H. destruct o as [c k|c k|c l|c|w cs|w|w|w]; cbn [wstep wop_ev w_sys].
  - apply sys_add_repr, H.
  - apply sys_remove_repr, H.
  - apply sys_set_enabled_repr, H.
  - exact H.
  - destruct (nth_error (w_waiters s) w); [destruct (is_running _)|]; exact H.
  - destruct (nth_error (w_waiters s) w) as [wt|]; [|exact H].
    pose proof (waiter_step_repr (w_sys s) wt en chg H) as Q.
    destruct (waiter_step (w_sys s) wt). exact Q.
  - destruct (nth_error (w_waiters s) w) as [wt|]; [|exact H].
    destruct (is_running _); [|exact H]. cbn [w_sys]. destruct (has_chan _); exact H.
  - destruct (nth_error (w_waiters s) w) as [wt|]; [|exact H]. destruct (w_pc wt); exact H.
Qed.

Lemma wrun_repr : forall fx ops s en chg,
  repr_all (w_sys s) en chg ->
  repr_all (w_sys (wrun fx s ops))
           (fun x => fold_left (en_step x) (map wop_ev ops) (en x))
           (fun x => fold_left (chg_step x) (map wop_ev ops) (chg x)).
Proof.
  intros fx. induction ops as [|o t IH]; intros s en chg H; cbn [wrun fold_left map]; [exact H|].
  apply (IH (wstep fx s o) (fun x => en_step x (en x) (wop_ev o)) (fun x => chg_step x (chg x) (wop_ev o))).
  apply wstep_repr. exact H.
Qed.

Lemma wrun_conds_length : forall fx ops s, length (conds (w_sys (wrun fx s ops))) = length (conds (w_sys s)).
Proof.
  intros fx. induction ops as [|o t IH]; intro s; cbn [wrun fold_left]; [reflexivity|].
  fold (wrun fx (wstep fx s o) t). rewrite IH. apply (wstep_frame fx s o).
Qed.

Theorem w_trigger_history : forall fx nc nw ops c, c < nc ->
  sys_trigger (w_sys (wrun fx (w_init nc nw) ops)) c =
  spec_trigger (hist_en (map wop_ev ops) c) (hist_chg (map wop_ev ops) c).
Proof.
  intros fx nc nw ops c Hc.
  pose proof (wrun_repr fx ops (w_init nc nw) _ _ (repr_all_init nc 0)) as H.
  apply (repr_all_trigger _ _ _ c H).
  rewrite wrun_conds_length. cbn. rewrite repeat_length. exact Hc.
Qed.

(* ====================================================== the refutation (finding D6) *)
(* mask {}, the status changes, a waiter checks, registers and parks, then the
   status is enabled *)
Definition d6_ops : list wop :=
  [WSetEnabled 0 []; WAdd 0 OfferedDeadlineMissed; WStart 0 [0]; WStep 0; WStep 0; WStep 0;
   WSetEnabled 0 [OfferedDeadlineMissed]].

Lemma d6_witness_state :
  let s := wrun false (w_init 1 1) d6_ops in
  sys_trigger (w_sys s) 0 = true /\
  (exists wt x, nth_error (w_waiters s) 0 = Some wt /\ w_pc wt = Await /\ w_att wt = [0] /\
                nth_error (chans (w_sys s)) (w_ch wt) = Some x /\
                parked x = true /\ notified x = false /\ wakes x = 0) /\
  wstep false s (WStep 0) = s.
Proof.
  cbn zeta. split; [vm_compute; reflexivity|]. split.
  - eexists. eexists. vm_compute. repeat split; reflexivity.
  - vm_compute. reflexivity.
Qed.

Theorem d6_lost_wakeup :
  exists ops, w_d6_free false (w_init 1 1) ops = false /\
    let s := wrun false (w_init 1 1) ops in
    sys_trigger (w_sys s) 0 = true /\
    forall n, exists wt x,
      nth_error (w_waiters (wrun false s (repeat (WStep 0) n))) 0 = Some wt /\
      w_pc wt = Await /\ In 0 (w_att wt) /\
      nth_error (chans (w_sys (wrun false s (repeat (WStep 0) n)))) (w_ch wt) = Some x /\
      parked x = true /\ notified x = false /\ wakes x = 0.
Proof.
  exists d6_ops. split; [vm_compute; reflexivity|]. cbn zeta.
  destruct d6_witness_state as [Ht [[wt [x [A [B [C [D [E [F G]]]]]]]] Hfix]].
  split; [exact Ht|]. intro n.
  assert (Hn : wrun false (wrun false (w_init 1 1) d6_ops) (repeat (WStep 0) n) = wrun false (w_init 1 1) d6_ops).
  { induction n as [|n IH]; cbn [repeat wrun fold_left]; [reflexivity|].
    fold (wrun false (wstep false (wrun false (w_init 1 1) d6_ops) (WStep 0)) (repeat (WStep 0) n)).
    rewrite Hfix. exact IH. }
  rewrite Hn. exists wt, x. rewrite C. repeat split; auto. left. reflexivity.
Qed.

(* the same history on the patched code: the waiter is notified and woken *)
Lemma d6_ops_patched :
  let s := wrun true (w_init 1 1) d6_ops in
  exists wt x, nth_error (w_waiters s) 0 = Some wt /\ w_pc wt = Await /\
               nth_error (chans (w_sys s)) (w_ch wt) = Some x /\
               parked x = false /\ notified x = true /\ wakes x = 1.
Proof. cbn zeta. eexists. eexists. vm_compute. repeat split; reflexivity. Qed.
