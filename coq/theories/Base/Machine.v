(* Machine integers as Z with explicit ranges, saturation and wrap-around.
   No proofs about the modelled code here: only the vocabulary every model uses. *)
From Coq Require Export ZArith List Bool Lia.
Export ListNotations.
Open Scope Z_scope.

Definition i32_min : Z := -2147483648.
Definition i32_max : Z := 2147483647.
Definition u32_max : Z := 4294967295.
Definition i64_min : Z := -9223372036854775808.
Definition i64_max : Z := 9223372036854775807.
Definition u64_max : Z := 18446744073709551615.
Definition two32 : Z := 4294967296.
Definition two64 : Z := 18446744073709551616.

Definition in_i32 (z : Z) : Prop := i32_min <= z <= i32_max.
Definition in_u32 (z : Z) : Prop := 0 <= z <= u32_max.
Definition in_i64 (z : Z) : Prop := i64_min <= z <= i64_max.
Definition in_u64 (z : Z) : Prop := 0 <= z <= u64_max.
Definition in_u16 (z : Z) : Prop := 0 <= z <= 65535.
Definition in_u8 (z : Z) : Prop := 0 <= z <= 255.

Definition in_i32b (z : Z) : bool := (i32_min <=? z) && (z <=? i32_max).
Definition in_u32b (z : Z) : bool := (0 <=? z) && (z <=? u32_max).
Definition in_i64b (z : Z) : bool := (i64_min <=? z) && (z <=? i64_max).
Definition in_u64b (z : Z) : bool := (0 <=? z) && (z <=? u64_max).

(* i32::saturating_add / saturating_sub *)
Definition sat_i32 (z : Z) : Z := Z.max i32_min (Z.min i32_max z).
(* `x as u32`, `x as i32`, `x as u64`, `x as i64` from any integer type *)
Definition wrap_u32 (z : Z) : Z := z mod two32.
Definition wrap_i32 (z : Z) : Z := (z + 2147483648) mod two32 - 2147483648.
Definition wrap_u64 (z : Z) : Z := z mod two64.
Definition wrap_i64 (z : Z) : Z := (z + 9223372036854775808) mod two64 - 9223372036854775808.
Definition wrap_u16 (z : Z) : Z := z mod 65536.
Definition wrap_i16 (z : Z) : Z := (z + 32768) mod 65536 - 32768.
Definition wrap_u8 (z : Z) : Z := z mod 256.

(* Result of running a piece of Rust: a value, a returned error, or a panic
   (overflow in the debug profile, index out of bounds, unwrap on None, todo!()). *)
Inductive res (A : Type) : Type :=
| Ok (a : A)
| Err (code : Z)
| Panic (site : Z).
Arguments Ok {A} a.
Arguments Err {A} code.
Arguments Panic {A} site.

Definition bind {A B} (r : res A) (f : A -> res B) : res B :=
  match r with Ok a => f a | Err c => Err c | Panic s => Panic s end.
Notation "x <- r ;; k" := (bind r (fun x => k)) (at level 61, r at next level, right associativity).

Definition is_panic {A} (r : res A) : bool := match r with Panic _ => true | _ => false end.
Definition is_ok {A} (r : res A) : bool := match r with Ok _ => true | _ => false end.

(* indices (as N) of the elements of l that satisfy p; used by every
   correspondence file to print the failing cases on one short line *)
Fixpoint idx_filter_from {A} (p : A -> bool) (i : N) (l : list A) : list N :=
  match l with
  | [] => []
  | x :: t => if p x then i :: idx_filter_from p (N.succ i) t else idx_filter_from p (N.succ i) t
  end.
Definition bad_idx {A} (ok : A -> bool) (l : list A) : list N :=
  idx_filter_from (fun x => negb (ok x)) 0%N l.

(* (index, known-finding class) of every element rejected by the oracle *)
Fixpoint bad_classes_from {A} (ok : A -> bool) (known : A -> N) (i : N) (l : list A) : list (N * N) :=
  match l with
  | [] => []
  | x :: t => if ok x then bad_classes_from ok known (N.succ i) t
              else (i, known x) :: bad_classes_from ok known (N.succ i) t
  end.
Definition bad_classes {A} (ok : A -> bool) (known : A -> N) (l : list A) : list (N * N) :=
  bad_classes_from ok known 0%N l.
