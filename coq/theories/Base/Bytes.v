(* Bytes as `list Z` (each element 0..255) and little/big-endian integer codecs.
   enc_le n x  = the n low-order bytes of x, least significant first (uN::to_le_bytes)
   dec_le l    = the unsigned value of the bytes l read little-endian (uN::from_le_bytes)
   enc_be / dec_be are the reversed versions.  Signed values go through
   `to_signed bits` / `mod 2^bits` (two's complement), as `iN::from_le_bytes` does. *)
From DustDDS Require Export Base.Machine.
Open Scope Z_scope.

Definition len {A} (l : list A) : Z := Z.of_nat (length l).

Definition is_byte (b : Z) : Prop := 0 <= b <= 255.
Definition is_byteb (b : Z) : bool := (0 <=? b) && (b <=? 255).
Definition bytes_ok (l : list Z) : Prop := Forall is_byte l.
Definition bytes_okb (l : list Z) : bool := forallb is_byteb l.

Fixpoint enc_le (n : nat) (x : Z) : list Z :=
  match n with
  | O => []
  | S k => x mod 256 :: enc_le k (x / 256)
  end.
Fixpoint dec_le (l : list Z) : Z :=
  match l with
  | [] => 0
  | b :: t => b + 256 * dec_le t
  end.
Definition enc_be (n : nat) (x : Z) : list Z := rev (enc_le n x).
Definition dec_be (l : list Z) : Z := dec_le (rev l).

(* two's complement reading of an unsigned `bits`-bit value *)
Definition to_signed (bits : Z) (u : Z) : Z := if u <? 2 ^ (bits - 1) then u else u - 2 ^ bits.

(* ------------------------------------------------------------------ lemmas *)
Ltac Zify.zify_post_hook ::= Z.div_mod_to_equations.

Lemma len_nonneg : forall A (l : list A), 0 <= len l.
Proof. intros; unfold len; lia. Qed.

Lemma len_app : forall A (a b : list A), len (a ++ b) = len a + len b.
Proof. intros; unfold len; rewrite app_length; lia. Qed.

Lemma len_cons : forall A (a : A) l, len (a :: l) = 1 + len l.
Proof. intros; unfold len; cbn [length]; lia. Qed.

Lemma len_nil : forall A, len (@nil A) = 0.
Proof. reflexivity. Qed.

Lemma is_byteb_true : forall b, is_byteb b = true <-> is_byte b.
Proof. intros; unfold is_byteb, is_byte; rewrite andb_true_iff, !Z.leb_le; tauto. Qed.

Lemma bytes_okb_true : forall l, bytes_okb l = true <-> bytes_ok l.
Proof.
  intros; unfold bytes_okb, bytes_ok; rewrite forallb_forall, Forall_forall.
  split; intros H x Hx; apply is_byteb_true; auto.
Qed.

Lemma bytes_ok_app : forall a b, bytes_ok (a ++ b) <-> bytes_ok a /\ bytes_ok b.
Proof. intros; unfold bytes_ok; apply Forall_app. Qed.

Lemma bytes_ok_rev : forall l, bytes_ok l -> bytes_ok (rev l).
Proof. intros; unfold bytes_ok in *; apply Forall_rev; auto. Qed.

Lemma In_firstn_elim : forall A n (l : list A) x, In x (firstn n l) -> In x l.
Proof.
  intros A n l x H; rewrite <- (firstn_skipn n l); apply in_or_app; auto.
Qed.
Lemma bytes_ok_firstn : forall n l, bytes_ok l -> bytes_ok (firstn n l).
Proof.
  unfold bytes_ok; intros n l H; rewrite Forall_forall in *; intros x Hx.
  apply H; eapply In_firstn_elim; eauto.
Qed.
Lemma In_skipn_elim : forall A n (l : list A) x, In x (skipn n l) -> In x l.
Proof.
  intros A n l x H; rewrite <- (firstn_skipn n l); apply in_or_app; auto.
Qed.
Lemma bytes_ok_skipn : forall n l, bytes_ok l -> bytes_ok (skipn n l).
Proof.
  unfold bytes_ok; intros n l H; rewrite Forall_forall in *; intros x Hx.
  apply H; eapply In_skipn_elim; eauto.
Qed.

Lemma enc_le_length : forall n x, length (enc_le n x) = n.
Proof. induction n; intros; cbn [enc_le length]; auto. Qed.

Lemma enc_be_length : forall n x, length (enc_be n x) = n.
Proof. intros; unfold enc_be; rewrite rev_length; apply enc_le_length. Qed.

Lemma enc_le_bytes : forall n x, bytes_ok (enc_le n x).
Proof.
  induction n; intros x; cbn [enc_le]; constructor.
  - unfold is_byte. pose proof (Z.mod_pos_bound x 256); lia.
  - apply IHn.
Qed.

Lemma enc_be_bytes : forall n x, bytes_ok (enc_be n x).
Proof. intros; apply bytes_ok_rev, enc_le_bytes. Qed.

Lemma pow256_S : forall n, 256 ^ Z.of_nat (S n) = 256 * 256 ^ Z.of_nat n.
Proof. intros; rewrite Nat2Z.inj_succ, Z.pow_succ_r; lia. Qed.

Lemma pow256_pos : forall n, 0 < 256 ^ Z.of_nat n.
Proof. intros; apply Z.pow_pos_nonneg; lia. Qed.

Lemma dec_enc_le : forall n x, dec_le (enc_le n x) = x mod 256 ^ Z.of_nat n.
Proof.
  induction n; intros x.
  - cbn [enc_le dec_le]. rewrite Z.pow_0_r, Z.mod_1_r; reflexivity.
  - cbn [enc_le dec_le]. rewrite IHn, pow256_S.
    pose proof (pow256_pos n) as Hp.
    rewrite Z.rem_mul_r by lia. lia.
Qed.

Lemma dec_le_range : forall l, bytes_ok l -> 0 <= dec_le l < 256 ^ len l.
Proof.
  induction l as [|b t IH]; intros H.
  - cbn; lia.
  - inversion H as [|? ? Hb Ht]; subst. specialize (IH Ht).
    unfold len in *. cbn [dec_le length]. rewrite pow256_S.
    unfold is_byte in Hb. nia.
Qed.

Lemma enc_dec_le : forall l, bytes_ok l -> enc_le (length l) (dec_le l) = l.
Proof.
  induction l as [|b t IH]; intros H; [reflexivity|].
  inversion H as [|? ? Hb Ht]; subst. unfold is_byte in Hb.
  cbn [length enc_le dec_le].
  assert (E1 : (b + 256 * dec_le t) mod 256 = b) by lia.
  assert (E2 : (b + 256 * dec_le t) / 256 = dec_le t) by lia.
  rewrite E1, E2, IH; auto.
Qed.

Lemma dec_enc_be : forall n x, dec_be (enc_be n x) = x mod 256 ^ Z.of_nat n.
Proof. intros; unfold dec_be, enc_be; rewrite rev_involutive; apply dec_enc_le. Qed.

Lemma dec_be_range : forall l, bytes_ok l -> 0 <= dec_be l < 256 ^ len l.
Proof.
  intros l H; unfold dec_be.
  replace (len l) with (len (rev l)) by (unfold len; rewrite rev_length; reflexivity).
  apply dec_le_range, bytes_ok_rev, H.
Qed.

Lemma enc_dec_be : forall l, bytes_ok l -> enc_be (length l) (dec_be l) = l.
Proof.
  intros l H; unfold enc_be, dec_be.
  rewrite <- (rev_length l), enc_dec_le by (apply bytes_ok_rev; auto).
  apply rev_involutive.
Qed.

(* the fixed widths used by the wire format *)
Lemma dec_enc_le_small : forall n x, 0 <= x < 256 ^ Z.of_nat n -> dec_le (enc_le n x) = x.
Proof. intros; rewrite dec_enc_le, Z.mod_small; lia. Qed.
Lemma dec_enc_be_small : forall n x, 0 <= x < 256 ^ Z.of_nat n -> dec_be (enc_be n x) = x.
Proof. intros; rewrite dec_enc_be, Z.mod_small; lia. Qed.

Lemma u16_le_roundtrip : forall x, in_u16 x -> dec_le (enc_le 2 x) = x.
Proof. intros x H; apply dec_enc_le_small; unfold in_u16 in H; change (256 ^ Z.of_nat 2) with 65536; lia. Qed.
Lemma u32_le_roundtrip : forall x, in_u32 x -> dec_le (enc_le 4 x) = x.
Proof. intros x H; apply dec_enc_le_small; unfold in_u32, u32_max in H; change (256 ^ Z.of_nat 4) with 4294967296; lia. Qed.
Lemma u16_be_roundtrip : forall x, in_u16 x -> dec_be (enc_be 2 x) = x.
Proof. intros x H; apply dec_enc_be_small; unfold in_u16 in H; change (256 ^ Z.of_nat 2) with 65536; lia. Qed.
Lemma u32_be_roundtrip : forall x, in_u32 x -> dec_be (enc_be 4 x) = x.
Proof. intros x H; apply dec_enc_be_small; unfold in_u32, u32_max in H; change (256 ^ Z.of_nat 4) with 4294967296; lia. Qed.

(* signed 32 / 16 bit values through their two's complement image *)
Lemma i32_roundtrip : forall x, in_i32 x -> to_signed 32 (x mod 4294967296) = x.
Proof.
  intros x H; unfold in_i32, i32_min, i32_max in H; unfold to_signed.
  change (2 ^ (32 - 1)) with 2147483648; change (2 ^ 32) with 4294967296.
  destruct (Z.ltb_spec (x mod 4294967296) 2147483648); lia.
Qed.
Lemma i16_roundtrip : forall x, -32768 <= x <= 32767 -> to_signed 16 (x mod 65536) = x.
Proof.
  intros x H; unfold to_signed.
  change (2 ^ (16 - 1)) with 32768; change (2 ^ 16) with 65536.
  destruct (Z.ltb_spec (x mod 65536) 32768); lia.
Qed.
Lemma to_signed32_range : forall u, in_u32 u -> in_i32 (to_signed 32 u).
Proof.
  intros u H; unfold in_u32, u32_max in H; unfold in_i32, i32_min, i32_max, to_signed.
  change (2 ^ (32 - 1)) with 2147483648; change (2 ^ 32) with 4294967296.
  destruct (Z.ltb_spec u 2147483648); lia.
Qed.
Lemma to_signed32_mod : forall u, in_u32 u -> (to_signed 32 u) mod 4294967296 = u.
Proof.
  intros u H; unfold in_u32, u32_max in H; unfold to_signed.
  change (2 ^ (32 - 1)) with 2147483648; change (2 ^ 32) with 4294967296.
  destruct (Z.ltb_spec u 2147483648); lia.
Qed.
Lemma to_signed16_range : forall u, in_u16 u -> -32768 <= to_signed 16 u <= 32767.
Proof.
  intros u H; unfold in_u16 in H; unfold to_signed.
  change (2 ^ (16 - 1)) with 32768; change (2 ^ 16) with 65536.
  destruct (Z.ltb_spec u 32768); lia.
Qed.
Lemma to_signed16_mod : forall u, in_u16 u -> (to_signed 16 u) mod 65536 = u.
Proof.
  intros u H; unfold in_u16 in H; unfold to_signed.
  change (2 ^ (16 - 1)) with 32768; change (2 ^ 16) with 65536.
  destruct (Z.ltb_spec u 32768); lia.
Qed.

(* i32 to/from little- and big-endian bytes *)
Lemma i32_le_roundtrip : forall x, in_i32 x -> to_signed 32 (dec_le (enc_le 4 x)) = x.
Proof. intros; rewrite dec_enc_le; change (256 ^ Z.of_nat 4) with 4294967296; apply i32_roundtrip; auto. Qed.
Lemma i32_be_roundtrip : forall x, in_i32 x -> to_signed 32 (dec_be (enc_be 4 x)) = x.
Proof. intros; rewrite dec_enc_be; change (256 ^ Z.of_nat 4) with 4294967296; apply i32_roundtrip; auto. Qed.
Lemma i16_le_roundtrip : forall x, -32768 <= x <= 32767 -> to_signed 16 (dec_le (enc_le 2 x)) = x.
Proof. intros; rewrite dec_enc_le; change (256 ^ Z.of_nat 2) with 65536; apply i16_roundtrip; auto. Qed.

(* a 64-bit sequence number as (high : i32, low : u32) *)
Lemma sn_split : forall x, in_i64 x ->
  in_i32 (x / 4294967296) /\ in_u32 (x mod 4294967296) /\ (x / 4294967296) * 4294967296 + x mod 4294967296 = x.
Proof.
  intros x H; unfold in_i64, i64_min, i64_max in H; unfold in_i32, i32_min, i32_max, in_u32, u32_max.
  Ltac Zify.zify_post_hook ::= Z.div_mod_to_equations.
  lia.
Qed.
