(* Bit-level facts about the 8 x i32 bitmaps of SequenceNumberSet / FragmentNumberSet. *)
From DustDDS Require Import Base.Machine Base.Bytes Wire.WireModel Wire.WireProofs.
Open Scope Z_scope.
Ltac Zify.zify_post_hook ::= Z.div_mod_to_equations.

(* an i32 is a Z whose bits from 31 upwards all equal the sign bit *)
Definition i32_bits (x : Z) : Prop := forall k, 31 <= k -> Z.testbit x k = Z.testbit x 31.

Lemma nonneg_small_bits : forall x, 0 <= x < 2147483648 -> forall k, 31 <= k -> Z.testbit x k = false.
Proof.
  intros x H k Hk. destruct (Z.eq_dec x 0) as [->|Hx]; [apply Z.bits_0|].
  apply Z.bits_above_log2; [lia|].
  assert (Z.log2 x < 31); [|lia]. apply Z.log2_lt_pow2; [lia|]. change (2 ^ 31) with 2147483648. lia.
Qed.

Lemma bits_small_nonneg : forall x, (forall k, 31 <= k -> Z.testbit x k = false) -> 0 <= x < 2147483648.
Proof.
  intros x H.
  assert (Hn : 0 <= x).
  { destruct (Z.neg_nonneg_cases x) as [Hneg|]; [|assumption].
    apply Z.bits_iff_neg_ex in Hneg as (k & Hk). specialize (Hk (Z.max (k + 1) 31)).
    rewrite H in Hk by lia. discriminate Hk; lia. }
  split; [assumption|].
  destruct (Z.lt_ge_cases x 2147483648) as [|Hge]; [assumption|].
  assert (Hl : 31 <= Z.log2 x). { change 31 with (Z.log2 (2 ^ 31)). apply Z.log2_le_mono. change (2 ^ 31) with 2147483648. lia. }
  pose proof (Z.bit_log2 x ltac:(lia)) as Hb. rewrite H in Hb by lia. discriminate.
Qed.

Lemma in_i32_bits : forall x, in_i32 x -> i32_bits x.
Proof.
  intros x H k Hk. unfold in_i32, i32_min, i32_max in H.
  destruct (Z.neg_nonneg_cases x) as [Hneg|Hpos].
  - (* lnot x is small and non-negative *)
    assert (Hs : 0 <= Z.lnot x < 2147483648) by (unfold Z.lnot; lia).
    pose proof (nonneg_small_bits _ Hs) as Hb.
    assert (E : forall j, 31 <= j -> Z.testbit x j = true).
    { intros j Hj. specialize (Hb j Hj). rewrite Z.lnot_spec in Hb by lia. destruct (Z.testbit x j); auto. }
    rewrite E by lia. rewrite E by lia. reflexivity.
  - rewrite !(nonneg_small_bits x) by lia. reflexivity.
Qed.

Lemma bits_in_i32 : forall x, i32_bits x -> in_i32 x.
Proof.
  intros x H. unfold in_i32, i32_min, i32_max.
  destruct (Z.testbit x 31) eqn:E.
  - assert (Hs : 0 <= Z.lnot x < 2147483648).
    { apply bits_small_nonneg. intros k Hk. rewrite Z.lnot_spec by lia. rewrite H by lia. rewrite E. reflexivity. }
    unfold Z.lnot in Hs. lia.
  - assert (Hs : 0 <= x < 2147483648).
    { apply bits_small_nonneg. intros k Hk. rewrite H by lia. exact E. }
    lia.
Qed.

Lemma i32_ext : forall a b, in_i32 a -> in_i32 b ->
  (forall k, 0 <= k <= 31 -> Z.testbit a k = Z.testbit b k) -> a = b.
Proof.
  intros a b Ha Hb H. apply in_i32_bits in Ha. apply in_i32_bits in Hb.
  apply Z.bits_inj'. intros k Hk.
  destruct (Z.le_gt_cases k 31); [apply H; lia|].
  rewrite Ha, Hb by lia. apply H; lia.
Qed.

Lemma lor_i32 : forall a b, in_i32 a -> in_i32 b -> in_i32 (Z.lor a b).
Proof.
  intros a b Ha Hb. apply in_i32_bits in Ha. apply in_i32_bits in Hb.
  apply bits_in_i32. intros k Hk. rewrite !Z.lor_spec. rewrite Ha, Hb by lia. reflexivity.
Qed.

Lemma wrap_i32_range : forall z, in_i32 (wrap_i32 z).
Proof. intros; unfold wrap_i32, two32, in_i32, i32_min, i32_max; lia. Qed.

Lemma wrap_i32_low_bits : forall z k, 0 <= k < 32 -> Z.testbit (wrap_i32 z) k = Z.testbit z k.
Proof.
  intros z k Hk.
  rewrite <- (Z.mod_pow2_bits_low (wrap_i32 z) 32 k) by lia.
  rewrite <- (Z.mod_pow2_bits_low z 32 k) by lia.
  f_equal. unfold wrap_i32, two32. change (2 ^ 32) with 4294967296. lia.
Qed.

Lemma mask_bit : forall d k, 0 <= k <= 31 -> Z.testbit (mask_i32 d) k = (k =? 31 - d mod 32).
Proof.
  intros d k Hk. unfold mask_i32. rewrite wrap_i32_low_bits by lia.
  rewrite Z.pow2_bits_eqb by lia. apply Z.eqb_sym.
Qed.
Lemma mask_i32_range : forall d, in_i32 (mask_i32 d).
Proof. intros; apply wrap_i32_range. Qed.

(* ----------------------------------------------------------- lists of words *)
Lemma upd_nth_length : forall n f l, length (upd_nth n f l) = length l.
Proof. induction n; intros f [|x t]; cbn [upd_nth length]; auto. Qed.
Lemma nth_upd_nth : forall n f l m, (n < length l)%nat ->
  nth m (upd_nth n f l) 0 = if Nat.eqb m n then f (nth n l 0) else nth m l 0.
Proof.
  induction n; intros f [|x t] m H; cbn [length] in H; try lia.
  - destruct m; reflexivity.
  - destruct m; cbn [upd_nth nth Nat.eqb]; [reflexivity|]. apply IHn. lia.
Qed.
Lemma Forall_upd_nth : forall (P : Z -> Prop) n f l, Forall P l -> (forall x, P x -> P (f x)) -> Forall P (upd_nth n f l).
Proof.
  induction n; intros f [|x t] H Hf; cbn [upd_nth]; auto; inversion H; subst; constructor; auto.
Qed.

Definition wf_words (ws : list Z) : Prop := length ws = 8%nat /\ Forall in_i32 ws.

Lemma wf_zero_map : wf_words zero_map.
Proof. split; [reflexivity|]. repeat constructor; unfold in_i32, i32_min, i32_max; lia. Qed.

Lemma set_bit_wf : forall ws d, wf_words ws -> wf_words (set_bit ws d).
Proof.
  intros ws d [Hl Hf]; unfold set_bit; split.
  - rewrite upd_nth_length; exact Hl.
  - apply Forall_upd_nth; [exact Hf|]. intros x Hx. apply lor_i32; [exact Hx|apply mask_i32_range].
Qed.

Lemma bit_set_set_bit : forall ws d i, wf_words ws -> 0 <= d < 256 -> 0 <= i < 256 ->
  bit_set (set_bit ws d) i = (i =? d) || bit_set ws i.
Proof.
  intros ws d i [Hl _] Hd Hi. unfold bit_set, set_bit.
  rewrite nth_upd_nth by (rewrite Hl; lia).
  destruct (Nat.eqb_spec (Z.to_nat (i / 32)) (Z.to_nat (d / 32))) as [E|E].
  - rewrite Z.lor_spec, mask_bit by lia. rewrite E.
    assert (Eq : i / 32 = d / 32) by lia.
    destruct (Z.eqb_spec (31 - i mod 32) (31 - d mod 32)); destruct (Z.eqb_spec i d); try lia;
      cbn [orb]; rewrite ?orb_true_r, ?orb_false_r; reflexivity.
  - destruct (Z.eqb_spec i d); [subst; contradiction|]. reflexivity.
Qed.

Lemma bit_set_zero : forall i, bit_set zero_map i = false.
Proof.
  intros i. unfold bit_set, zero_map.
  assert (E : nth (Z.to_nat (i / 32)) [0; 0; 0; 0; 0; 0; 0; 0] 0 = 0).
  { destruct (Z.to_nat (i / 32)) as [|[|[|[|[|[|[|[|n]]]]]]]]; try reflexivity. destruct n; reflexivity. }
  rewrite E. apply Z.bits_0.
Qed.

(* two well-formed bitmaps with the same 256 bits are the same *)
Lemma words_ext : forall a b, wf_words a -> wf_words b ->
  (forall i, 0 <= i < 256 -> bit_set a i = bit_set b i) -> a = b.
Proof.
  intros a b [La Fa] [Lb Fb] H.
  apply (nth_ext a b 0 0); [congruence|]. intros n Hn. rewrite La in Hn.
  rewrite Forall_forall in Fa, Fb.
  apply i32_ext.
  - apply Fa, nth_In. lia.
  - apply Fb, nth_In. lia.
  - intros k Hk. specialize (H (32 * Z.of_nat n + (31 - k)) ltac:(lia)). unfold bit_set in H.
    replace ((32 * Z.of_nat n + (31 - k)) / 32) with (Z.of_nat n) in H by lia.
    replace (31 - (32 * Z.of_nat n + (31 - k)) mod 32) with k in H by lia.
    rewrite Nat2Z.id in H. exact H.
Qed.
