(* C06 — isolation: handling a datagram changes no proxy of a participant the datagram does not
   speak for (its header prefix and its INFO_SOURCE prefixes).  No invariant is needed. *)
From DustDDS Require Import Base.Machine Base.Bytes Wire.WireModel Wire.RecvModel.
Open Scope Z_scope.

Lemma list_eqb_true : forall a b, list_eqb a b = true -> a = b.
Proof.
  induction a as [|x a IH]; destruct b as [|y b]; cbn [list_eqb]; intros H; try discriminate; [reflexivity|].
  apply andb_true_iff in H as [H1 H2]. apply Z.eqb_eq in H1. subst. f_equal. auto.
Qed.
Lemma list_eqb_refl : forall a, list_eqb a a = true.
Proof. induction a as [|x a IH]; cbn [list_eqb]; [reflexivity|]. rewrite Z.eqb_refl, IH. reflexivity. Qed.

Lemma bind_ok : forall A B (r : res A) (f : A -> res B) b, (x <- r ;; f x) = Ok b -> exists a, r = Ok a /\ f a = Ok b.
Proof. intros A B [a|e|x] f b H; cbn in H; try discriminate. eauto. Qed.

(* ------------------------------------------------------------ guids are kept *)
Lemma raise_high_guid' : forall p x, wp_guid (raise_high p x) = wp_guid p.
Proof. intros. unfold raise_high. destruct (_ <? _); reflexivity. Qed.
Lemma received_set_guid' : forall p x, wp_guid (received_set p x) = wp_guid p.
Proof. intros. unfold received_set. cbn. apply raise_high_guid'. Qed.
Lemma fold_raise_guid' : forall ms p, wp_guid (fold_left raise_high ms p) = wp_guid p.
Proof. induction ms as [|m t IH]; intros p; cbn [fold_left]; [reflexivity|]. rewrite IH. apply raise_high_guid'. Qed.
Lemma push_frag_guid' : forall f p, wp_guid (push_frag p f) = wp_guid p.
Proof. intros. unfold push_frag. destruct (has_frag_num _ _ _); destruct p as [g a b c d e h i j k]; reflexivity. Qed.

Lemma on_data_proxy_guid : forall rel s p p', on_data_proxy rel s p = Ok p' -> wp_guid p' = wp_guid p.
Proof.
  intros rel s p p' H. unfold on_data_proxy in H. apply bind_ok in H as (e & _ & H).
  destruct rel.
  - inversion H; subst. destruct (s =? e); [apply received_set_guid'|reflexivity].
  - destruct (e <=? s); inversion H; subst; [|reflexivity].
    destruct (e <? s); [|apply received_set_guid'].
    pose proof (received_set_guid' p s) as G. destruct (received_set p s) as [g a b c d e0 h i j k]. exact G.
Qed.
Lemma reconstruct_guid : forall p s p' b, reconstruct p s = Ok (p', b) -> wp_guid p' = wp_guid p.
Proof.
  intros p s p' b H. unfold reconstruct in H.
  destruct (find _ _) as [f0|]; [|inversion H; reflexivity].
  destruct (fr_size f0 =? 0); [discriminate|]. destruct (u32_max <? _); [discriminate|].
  destruct (_ =? _); [|inversion H; reflexivity].
  destruct (has_frag_num _ _ _); inversion H; subst; [|reflexivity]. destruct p as [g a b0 c d e h i j k]; reflexivity.
Qed.
Lemma on_frag_proxy_guid : forall rel f p p', on_frag_proxy rel f p = Ok p' -> wp_guid p' = wp_guid p.
Proof.
  intros rel f p p' H. unfold on_frag_proxy in H. apply bind_ok in H as (p1 & H1 & H).
  apply bind_ok in H as ([p2 b] & H2 & H). cbn [fst snd] in H.
  unfold frag_pushed in H1. apply bind_ok in H1 as (e & _ & H1). inversion H1; subst. clear H1.
  apply reconstruct_guid in H2.
  assert (G : wp_guid p2 = wp_guid p).
  { rewrite H2. destruct (if rel then _ else _); [apply push_frag_guid'|reflexivity]. }
  destruct b; [apply on_data_proxy_guid in H; congruence|inversion H; subst; exact G].
Qed.
Lemma raise_range_guid : forall p first last p', raise_range p first last = Ok p' -> wp_guid p' = wp_guid p.
Proof.
  intros p first last p' H. unfold raise_range in H. apply bind_ok in H as (am & _ & H). inversion H; subst.
  destruct (_ && _); [destruct p as [g a b c d e h i j k]|]; reflexivity.
Qed.
Lemma raise_all_guid : forall ms p p', raise_all ms p = Ok p' -> wp_guid p' = wp_guid p.
Proof.
  induction ms as [|m t IH]; intros p p' H; cbn [raise_all] in H; [inversion H; reflexivity|].
  apply bind_ok in H as (q & H1 & H). apply raise_range_guid in H1. apply IH in H. congruence.
Qed.
Lemma gap_proxy_guid : forall start gl p p', gap_proxy start gl p = Ok p' -> wp_guid p' = wp_guid p.
Proof.
  intros start gl p p' H. unfold gap_proxy in H. apply bind_ok in H as (p1 & H1 & H). apply raise_all_guid in H.
  destruct (start <? ss_base gl); [apply raise_range_guid in H1|inversion H1; subst]; congruence.
Qed.
Lemma write_message_guid : forall reid p p' o, write_message reid p = Ok (p', o) -> wp_guid p' = wp_guid p.
Proof.
  intros reid p p' o H. unfold write_message in H. destruct (wp_must p).
  - apply bind_ok in H as (fm & _ & H). apply bind_ok in H as (am & _ & H). apply bind_ok in H as (base & _ & H).
    destruct (find _ (range_take _ _ _)) as [s|]; [|inversion H; reflexivity].
    destruct (find (fun f => fr_sn f =? s) _) as [f|]; [|inversion H; reflexivity].
    destruct (fr_size f =? 0); [discriminate|]. inversion H; reflexivity.
  - apply bind_ok in H as (fm & _ & H). inversion H; reflexivity.
Qed.
Lemma hb_proxy_guid : forall reid final live first last count p p' o,
  hb_proxy reid final live first last count p = Ok (p', o) -> wp_guid p' = wp_guid p.
Proof.
  intros reid final live first last count p p' o H. unfold hb_proxy in H.
  destruct (wp_hb p <? count); [|inversion H; reflexivity].
  apply bind_ok in H as (must & _ & H). apply write_message_guid in H. exact H.
Qed.
Lemma hbf_proxy_guid : forall count p, wp_guid (hbf_proxy count p) = wp_guid p.
Proof. intros. unfold hbf_proxy. destruct (_ <? _); [destruct p as [g a b c d e h i j k]|]; reflexivity. Qed.
Lemma acknack_proxy_guid : forall w st count rp rp' o, acknack_proxy w st count rp = Ok (rp', o) -> rp_guid rp' = rp_guid rp.
Proof.
  intros w st count rp rp' o H. unfold acknack_proxy in H. destruct (_ && _); [|inversion H; reflexivity].
  destruct (has_unsent _ _); [discriminate|]. apply bind_ok in H as (o' & _ & H). inversion H; reflexivity.
Qed.
Lemma nackfrag_proxy_guid : forall w s fs count rp rp' o, nackfrag_proxy w s fs count rp = Ok (rp', o) -> rp_guid rp' = rp_guid rp.
Proof.
  intros w s fs count rp rp' o H. unfold nackfrag_proxy in H. destruct (_ && _); [|inversion H; reflexivity].
  destruct (find_change w s).
  - apply bind_ok in H as (n & _ & H). apply bind_ok in H as (ms & _ & H). inversion H; reflexivity.
  - inversion H; reflexivity.
Qed.

(* -------------------------------------------------------------- containers *)
Section Others.
Variable q : list Z -> bool.

Lemma upd_proxy_others : forall P (guid_of : P -> list Z) g f l l' o,
  (forall p p' o', f p = Ok (p', o') -> guid_of p' = guid_of p) ->
  upd_proxy guid_of g f l = Ok (l', o) -> q g = true ->
  filter (fun p => negb (q (guid_of p))) l' = filter (fun p => negb (q (guid_of p))) l.
Proof.
  intros P guid_of g f l. induction l as [|p t IH]; intros l' o Hf H Hq; cbn [upd_proxy] in H.
  - inversion H; reflexivity.
  - destruct (list_eqb (guid_of p) g) eqn:E.
    + apply bind_ok in H as ([p' o'] & H1 & H). inversion H; subst. cbn [fst filter].
      apply Hf in H1. apply list_eqb_true in E. rewrite H1, E, Hq. reflexivity.
    + apply bind_ok in H as ([t' o'] & H1 & H). inversion H; subst. cbn [fst filter].
      rewrite (IH _ _ Hf H1 Hq). reflexivity.
Qed.

Lemma quiet_guid : forall P (guid_of : P -> list Z) (f : P -> res P),
  (forall p p', f p = Ok p' -> guid_of p' = guid_of p) ->
  forall p p' o, quiet f p = Ok (p', o) -> guid_of p' = guid_of p.
Proof. intros P guid_of f Hf p p' o H. unfold quiet in H. apply bind_ok in H as (x & H1 & H). inversion H; subst. auto. Qed.

Definition wkeep (l : list wproxy) : list wproxy := filter (fun p => negb (q (wp_guid p))) l.
Definition rkeep (l : list rproxy) : list rproxy := filter (fun p => negb (q (rp_guid p))) l.

Lemma with_proxies_others : forall r x r' o l, with_proxies r x = Ok (r', o) ->
  (forall l' o', x = Ok (l', o') -> wkeep l' = wkeep l) -> wkeep (sr_proxies r') = wkeep l.
Proof.
  intros r x r' o l H Hx. unfold with_proxies in H. apply bind_ok in H as ([l' o'] & H1 & H). inversion H; subst.
  cbn [sr_proxies fst]. eapply Hx; eauto.
Qed.

Lemma reader_data_others : forall src wid s r r' o, q (src ++ wid) = true ->
  reader_data src wid s r = Ok (r', o) -> wkeep (sr_proxies r') = wkeep (sr_proxies r).
Proof.
  intros src wid s r r' o Hq H. unfold reader_data in H. destruct (s =? i64_max); [inversion H; reflexivity|].
  eapply with_proxies_others; [exact H|].
  intros l' o' E. eapply upd_proxy_others; [|exact E|exact Hq].
  apply quiet_guid. intros p p'. apply on_data_proxy_guid.
Qed.
Lemma reader_frag_others : forall src wid f r r' o, q (src ++ wid) = true ->
  reader_frag src wid f r = Ok (r', o) -> wkeep (sr_proxies r') = wkeep (sr_proxies r).
Proof.
  intros src wid f r r' o Hq H. unfold reader_frag in H. destruct (_ || _); [inversion H; reflexivity|].
  destruct (_ <? _); [inversion H; reflexivity|].
  eapply with_proxies_others; [exact H|].
  intros l' o' E. eapply upd_proxy_others; [|exact E|exact Hq].
  apply quiet_guid. intros p p'. apply on_frag_proxy_guid.
Qed.
Lemma reader_gap_others : forall src wid start gl r r' o, q (src ++ wid) = true ->
  reader_gap src wid start gl r = Ok (r', o) -> wkeep (sr_proxies r') = wkeep (sr_proxies r).
Proof.
  intros src wid start gl r r' o Hq H. unfold reader_gap in H. eapply with_proxies_others; [exact H|].
  intros l' o' E. eapply upd_proxy_others; [|exact E|exact Hq].
  apply quiet_guid. intros p p'. apply gap_proxy_guid.
Qed.
Lemma reader_hb_others : forall src wid final live first last count r r' o, q (src ++ wid) = true ->
  reader_hb src wid final live first last count r = Ok (r', o) -> wkeep (sr_proxies r') = wkeep (sr_proxies r).
Proof.
  intros src wid final live first last count r r' o Hq H. unfold reader_hb in H.
  apply bind_ok in H as ([r1 o1] & H1 & H). apply bind_ok in H as (u & _ & H). inversion H; subst.
  eapply with_proxies_others; [exact H1|].
  intros l' o' E. eapply upd_proxy_others; [|exact E|exact Hq].
  intros p p' o''. apply hb_proxy_guid.
Qed.
Lemma reader_hbf_others : forall src wid count r r' o, q (src ++ wid) = true ->
  reader_hbf src wid count r = Ok (r', o) -> wkeep (sr_proxies r') = wkeep (sr_proxies r).
Proof.
  intros src wid count r r' o Hq H. unfold reader_hbf in H. eapply with_proxies_others; [exact H|].
  intros l' o' E. eapply upd_proxy_others; [|exact E|exact Hq].
  apply quiet_guid. intros p p' Hp. inversion Hp; subst. apply hbf_proxy_guid.
Qed.

Lemma with_rproxies_others : forall w x w' o l, with_rproxies w x = Ok (w', o) ->
  (forall l' o', x = Ok (l', o') -> rkeep l' = rkeep l) -> rkeep (sw_proxies w') = rkeep l.
Proof.
  intros w x w' o l H Hx. unfold with_rproxies in H. apply bind_ok in H as ([l' o'] & H1 & H). inversion H; subst.
  cbn [sw_proxies fst]. eapply Hx; eauto.
Qed.
Lemma writer_acknack_others : forall src rid wid st count w w' o, q (src ++ rid) = true ->
  writer_acknack src rid wid st count w = Ok (w', o) -> rkeep (sw_proxies w') = rkeep (sw_proxies w).
Proof.
  intros src rid wid st count w w' o Hq H. unfold writer_acknack in H.
  destruct (list_eqb _ _); [|inversion H; reflexivity].
  eapply with_rproxies_others; [exact H|].
  intros l' o' E. eapply upd_proxy_others; [|exact E|exact Hq].
  intros p p' o''. apply acknack_proxy_guid.
Qed.
Lemma writer_nackfrag_others : forall src rid wid s fs count w w' o, q (src ++ rid) = true ->
  writer_nackfrag src rid wid s fs count w = Ok (w', o) -> rkeep (sw_proxies w') = rkeep (sw_proxies w).
Proof.
  intros src rid wid s fs count w w' o Hq H. unfold writer_nackfrag in H.
  destruct (list_eqb _ _); [|inversion H; reflexivity].
  eapply with_rproxies_others; [exact H|].
  intros l' o' E. eapply upd_proxy_others; [|exact E|exact Hq].
  intros p p' o''. apply nackfrag_proxy_guid.
Qed.

Lemma for_each_others : forall E K (keep : E -> K) (f : E -> res (E * outs)) l l' o,
  (forall e e' o', f e = Ok (e', o') -> keep e' = keep e) ->
  for_each f l = Ok (l', o) -> map keep l' = map keep l.
Proof.
  intros E K keep f l. induction l as [|e t IH]; intros l' o Hf H; cbn [for_each] in H.
  - inversion H; reflexivity.
  - apply bind_ok in H as ([e' o1] & H1 & H). apply bind_ok in H as ([t' o2] & H2 & H). inversion H; subst.
    cbn [fst map]. rewrite (Hf _ _ _ H1), (IH _ _ Hf H2). reflexivity.
Qed.
End Others.

(* ------------------------------------------------------------ one submessage *)
Definition keep_of (ps : list (list Z)) (st : pstate) : list (list wproxy) * list (list rproxy) := others ps st.

Lemma speaks_for_src : forall ps src x, In src ps -> speaks_for ps (src ++ x) = true.
Proof.
  intros ps src x H. unfold speaks_for. apply existsb_exists. exists src. split; [exact H|].
  rewrite firstn_app, Nat.sub_diag, firstn_all. cbn [firstn]. rewrite app_nil_r. apply list_eqb_refl.
Qed.

Definition src_after (rs : rstate) (m : psub) : list Z := match m with InfoSrc _ _ p => p | _ => rs_src rs end.

Lemma handle_sub_others : forall ps rs st m rs' st' o, In (rs_src rs) ps ->
  handle_sub rs st m = Ok (rs', st', o) -> others ps st' = others ps st /\ rs_src rs' = src_after rs m.
Proof.
  intros ps rs st m rs' st' o Hin H. unfold others.
  assert (Q : forall x, speaks_for ps (rs_src rs ++ x) = true) by (intros x; apply speaks_for_src; exact Hin).
  destruct m; cbn [handle_sub src_after] in *;
    try (inversion H; subst; split; reflexivity);
    try (apply bind_ok in H as ([st1 o1] & H1 & H); inversion H; subst; cbn [fst snd]; split; [|reflexivity]).
  - (* AckNack *) unfold on_writers in H1. apply bind_ok in H1 as ([l o2] & H1 & H2). inversion H2; subst. cbn [ps_readers ps_writers fst].
    f_equal. eapply (for_each_others _ _ (fun w => rkeep (speaks_for ps) (sw_proxies w))); [|exact H1].
    intros e e' o'. apply writer_acknack_others. apply Q.
  - (* Data *) unfold on_readers in H1. apply bind_ok in H1 as ([l o2] & H1 & H2). inversion H2; subst. cbn [ps_readers ps_writers fst].
    f_equal. eapply (for_each_others _ _ (fun r => wkeep (speaks_for ps) (sr_proxies r))); [|exact H1].
    intros e e' o'. apply reader_data_others. apply Q.
  - (* DataFrag *) unfold on_readers in H1. apply bind_ok in H1 as ([l o2] & H1 & H2). inversion H2; subst. cbn [ps_readers ps_writers fst].
    f_equal. eapply (for_each_others _ _ (fun r => wkeep (speaks_for ps) (sr_proxies r))); [|exact H1].
    intros e e' o'. apply reader_frag_others. apply Q.
  - (* Gap *) unfold on_readers in H1. apply bind_ok in H1 as ([l o2] & H1 & H2). inversion H2; subst. cbn [ps_readers ps_writers fst].
    f_equal. eapply (for_each_others _ _ (fun r => wkeep (speaks_for ps) (sr_proxies r))); [|exact H1].
    intros e e' o'. apply reader_gap_others. apply Q.
  - (* Heartbeat *) destruct (first <=? 0); [inversion H; subst; split; reflexivity|].
    apply bind_ok in H as ([st1 o1] & H1 & H); inversion H; subst; cbn [fst snd]; split; [|reflexivity].
    unfold on_readers in H1. apply bind_ok in H1 as ([l o2] & H1 & H2). inversion H2; subst. cbn [ps_readers ps_writers fst].
    f_equal. eapply (for_each_others _ _ (fun r => wkeep (speaks_for ps) (sr_proxies r))); [|exact H1].
    intros e e' o'. apply reader_hb_others. apply Q.
  - (* HeartbeatFrag *) unfold on_readers in H1. apply bind_ok in H1 as ([l o2] & H1 & H2). inversion H2; subst. cbn [ps_readers ps_writers fst].
    f_equal. eapply (for_each_others _ _ (fun r => wkeep (speaks_for ps) (sr_proxies r))); [|exact H1].
    intros e e' o'. apply reader_hbf_others. apply Q.
  - (* InfoTs *) destruct inval; inversion H; subst; split; reflexivity.
  - (* NackFrag *) unfold on_writers in H1. apply bind_ok in H1 as ([l o2] & H1 & H2). inversion H2; subst. cbn [ps_readers ps_writers fst].
    f_equal. eapply (for_each_others _ _ (fun w => rkeep (speaks_for ps) (sw_proxies w))); [|exact H1].
    intros e e' o'. apply writer_nackfrag_others. apply Q.
Qed.

Definition info_srcs (l : list psub) : list (list Z) :=
  flat_map (fun m => match m with InfoSrc _ _ p => [p] | _ => [] end) l.

Lemma handle_subs_others : forall l ps rs st st' o,
  In (rs_src rs) ps -> incl (info_srcs l) ps ->
  handle_subs rs st l = Ok (st', o) -> others ps st' = others ps st.
Proof.
  induction l as [|m t IH]; intros ps rs st st' o Hin Hinc H; cbn [handle_subs] in H.
  - inversion H; reflexivity.
  - apply bind_ok in H as ([[rs1 st1] o1] & H1 & H). apply bind_ok in H as ([st2 o2] & H2 & H). inversion H; subst. cbn [fst].
    destruct (handle_sub_others ps rs st m rs1 st1 o1 Hin H1) as [E1 E2].
    rewrite <- E1. eapply IH; [| |exact H2].
    + rewrite E2. destruct m; cbn [src_after]; try exact Hin. apply Hinc. cbn [info_srcs flat_map]. left; reflexivity.
    + intros x Hx. apply Hinc. unfold info_srcs in *. cbn [flat_map]. apply in_or_app. right; exact Hx.
Qed.

Theorem handle_datagram_isolated : forall st bytes st' o,
  handle_datagram st bytes = Ok (st', o) -> others (claimed bytes) st' = others (claimed bytes) st.
Proof.
  intros st bytes st' o H. unfold handle_datagram, claimed in *.
  destruct (parse_message bytes) as [[h l]|e|x]; [|inversion H; reflexivity|discriminate].
  eapply (handle_subs_others l _ (rs_init h)); [|  |exact H].
  - cbn [rs_init rs_src]. left; reflexivity.
  - intros x Hx. right. exact Hx.
Qed.
