(* C08: decoding an encoding gives the value back.  `rd p bs x`: parser p reads the bytes
   bs (followed by anything) as the value x and leaves exactly what followed. *)
From DustDDS Require Import Base.Machine Base.Bytes Wire.WireModel Wire.WireProofs
  Wire.WireBitsProofs Wire.WireSetsProofs.
Open Scope Z_scope.
Ltac Zify.zify_post_hook ::= Z.div_mod_to_equations.

Definition rd {A} (p : parser A) (bs : list Z) (x : A) : Prop :=
  forall r, fst (p (bs ++ r)) = Ok (x, r).

Lemma rd_pret : forall A (a : A), rd (pret a) [] a.
Proof. intros A a r; reflexivity. Qed.
Lemma rd_bind : forall A B (p : parser A) (f : A -> parser B) b1 b2 a b,
  rd p b1 a -> rd (f a) b2 b -> rd (pbind p f) (b1 ++ b2) b.
Proof.
  intros A B p f b1 b2 a b Hp Hf r. rewrite <- app_assoc.
  rewrite (pbind_ok _ _ p f _ a (b2 ++ r)); [apply Hf|apply Hp].
Qed.
Lemma rd_bind_ret : forall A B (p : parser A) (g : A -> B) bs a,
  rd p bs a -> rd (pbind p (fun x => pret (g x))) bs (g a).
Proof.
  intros A B p g bs a Hp. rewrite <- (app_nil_r bs). eapply rd_bind; [exact Hp|apply rd_pret].
Qed.
Lemma rd_read_n : forall n l, length l = n -> rd (read_n n) l l.
Proof.
  intros n l H r. unfold read_n. rewrite shorter_spec.
  destruct (Z.ltb_spec (len (l ++ r)) (Z.of_nat n)) as [Hl|Hl].
  - rewrite len_app in Hl. unfold len in Hl. lia.
  - cbn [fst]. rewrite firstn_app_exact, skipn_app_exact by exact H. reflexivity.
Qed.

Lemma enc_int_length : forall e n x, length (enc_int e n x) = n.
Proof. intros [] n x; unfold enc_int; [apply enc_le_length|apply enc_be_length]. Qed.
Lemma len_enc_int : forall e n x, len (enc_int e n x) = Z.of_nat n.
Proof. intros; unfold len; rewrite enc_int_length; reflexivity. Qed.
Lemma dec_enc_int : forall e n x, dec_int e (enc_int e n x) = x mod 256 ^ Z.of_nat n.
Proof. intros [] n x; unfold dec_int, enc_int; [apply dec_enc_le|apply dec_enc_be]. Qed.

Lemma rd_u16 : forall e x, rd (read_u16 e) (enc_int e 2 x) (x mod 65536).
Proof.
  intros e x. unfold read_u16.
  replace (x mod 65536) with (dec_int e (enc_int e 2 x)) by (rewrite dec_enc_int; reflexivity).
  apply rd_bind_ret with (g := dec_int e). apply rd_read_n, enc_int_length.
Qed.
Lemma rd_u32 : forall e x, rd (read_u32 e) (enc_int e 4 x) (x mod 4294967296).
Proof.
  intros e x. unfold read_u32.
  replace (x mod 4294967296) with (dec_int e (enc_int e 4 x)) by (rewrite dec_enc_int; reflexivity).
  apply rd_bind_ret with (g := dec_int e). apply rd_read_n, enc_int_length.
Qed.
Lemma rd_u32_in : forall e x, in_u32 x -> rd (read_u32 e) (enc_int e 4 x) x.
Proof.
  intros e x H. replace x with (x mod 4294967296) at 2; [apply rd_u32|].
  unfold in_u32, u32_max in H. lia.
Qed.
Lemma rd_u16_in : forall e x, 0 <= x <= 65535 -> rd (read_u16 e) (enc_int e 2 x) x.
Proof. intros e x H. replace x with (x mod 65536) at 2; [apply rd_u16|lia]. Qed.
Lemma rd_i32 : forall e x, in_i32 x -> rd (read_i32 e) (enc_int e 4 x) x.
Proof.
  intros e x H. unfold read_i32.
  replace x with (to_signed 32 (dec_int e (enc_int e 4 x))) at 2.
  - apply rd_bind_ret with (g := fun b => to_signed 32 (dec_int e b)). apply rd_read_n, enc_int_length.
  - rewrite dec_enc_int. change (256 ^ Z.of_nat 4) with 4294967296. apply i32_roundtrip; exact H.
Qed.
Lemma rd_sn : forall e x, in_i64 x -> rd (read_sn e) (enc_sn e x) x.
Proof.
  intros e x H. unfold read_sn, enc_sn, two32.
  destruct (sn_split x H) as (Hh & Hl & E).
  eapply rd_bind; [apply rd_i32; exact Hh|].
  assert (G : rd (pbind (read_u32 e) (fun l => pret (x / 4294967296 * 4294967296 + l))) (enc_int e 4 x)
                 (x / 4294967296 * 4294967296 + x mod 4294967296))
    by (apply rd_bind_ret with (g := fun l => x / 4294967296 * 4294967296 + l); apply rd_u32).
  rewrite E in G. exact G.
Qed.
Lemma rd_eid : forall l, length l = 4%nat -> rd read_entity_id l l.
Proof.
  intros l H. destruct l as [|a [|b [|c [|d [|? ?]]]]]; try discriminate H.
  unfold read_entity_id. change [a; b; c; d] with ([a; b; c] ++ [d]).
  eapply rd_bind; [apply rd_read_n; reflexivity|].
  apply rd_bind_ret with (g := fun x => [a; b; c] ++ x). apply rd_read_n; reflexivity.
Qed.

Lemma rd_words : forall e ws, Forall in_i32 ws -> rd (read_words e (length ws)) (enc_words e ws) ws.
Proof.
  intros e ws H; induction H as [|w t Hw Ht IH]; cbn [length read_words enc_words flat_map]; [apply rd_pret|].
  eapply rd_bind; [apply rd_i32; exact Hw|].
  rewrite <- (app_nil_r (flat_map (enc_int e 4) t)).
  eapply rd_bind; [exact IH|apply rd_pret].
Qed.

(* ------------------------------------------------------------------ number sets *)
Record wf_map (nb : Z) (ws : list Z) : Prop := {
  m_wf : wf_words ws;
  m_nb : 0 <= nb <= 256;
  m_clear : forall i, nb <= i < 256 -> bit_set ws i = false }.

Lemma wf_set_map : forall nb ws, wf_set nb ws -> wf_map nb ws.
Proof. intros nb ws [A B C D]; constructor; auto. Qed.

Lemma nth_firstn_lt : forall (l : list Z) n m, (m < n)%nat -> nth m (firstn n l) 0 = nth m l 0.
Proof.
  induction l as [|x t IH]; intros n m H; [rewrite firstn_nil; reflexivity|].
  destruct n; [lia|]. destruct m; cbn [firstn nth]; [reflexivity|]. apply IH. lia.
Qed.

Lemma pad8_firstn : forall nb ws, wf_map nb ws ->
  pad8 (firstn (Z.to_nat (div_ceil32 nb)) ws) = ws.
Proof.
  intros nb ws [[Hl Hf] Hn Hc].
  set (M := Z.to_nat (div_ceil32 nb)).
  assert (HM : (M <= 8)%nat) by (unfold M, div_ceil32; lia).
  assert (Hlen : length (firstn M ws) = M) by (rewrite firstn_length; lia).
  assert (W : wf_words (pad8 (firstn M ws))).
  { unfold pad8; split.
    - rewrite app_length, repeat_length, Hlen. lia.
    - apply Forall_app; split.
      + apply Forall_forall. intros x Hx. rewrite Forall_forall in Hf. apply Hf. eapply In_firstn_elim; eauto.
      + apply Forall_forall. intros x Hx. apply repeat_spec in Hx. subst. unfold in_i32, i32_min, i32_max; lia. }
  apply words_ext; [exact W|split; auto|].
  intros i Hi. unfold bit_set, pad8.
  destruct (Nat.lt_ge_cases (Z.to_nat (i / 32)) M) as [Hlt|Hge].
  - rewrite app_nth1 by (rewrite Hlen; exact Hlt). rewrite nth_firstn_lt by exact Hlt. reflexivity.
  - rewrite app_nth2 by (rewrite Hlen; exact Hge).
    assert (E : nth (Z.to_nat (i / 32) - length (firstn M ws)) (repeat 0 (8 - length (firstn M ws))) 0 = 0).
    { destruct (nth_in_or_default (Z.to_nat (i / 32) - length (firstn M ws)) (repeat 0 (8 - length (firstn M ws))) 0) as [Hin|Hd]; [|exact Hd].
      apply repeat_spec in Hin. exact Hin. }
    rewrite E, Z.bits_0. symmetry. apply Hc. unfold M, div_ceil32 in Hge. lia.
Qed.

Lemma div_ceil_min : forall nb, 0 <= nb <= 256 -> Z.min 8 (div_ceil32 nb) = div_ceil32 nb.
Proof. intros; unfold div_ceil32; lia. Qed.

Lemma rd_bitmap : forall e nb ws, wf_map nb ws ->
  rd (read_bitmap e nb) (enc_words e (firstn (Z.to_nat (div_ceil32 nb)) ws)) ws.
Proof.
  intros e nb ws H. unfold read_bitmap. rewrite div_ceil_min by (destruct H; auto).
  rewrite <- (pad8_firstn nb ws H) at 2.
  apply rd_bind_ret with (g := pad8).
  destruct H as [[Hl Hf] Hn Hc].
  replace (Z.to_nat (div_ceil32 nb)) with (length (firstn (Z.to_nat (div_ceil32 nb)) ws)) at 1.
  - apply rd_words. apply Forall_forall. intros x Hx. rewrite Forall_forall in Hf. apply Hf. eapply In_firstn_elim; eauto.
  - rewrite firstn_length. unfold div_ceil32. lia.
Qed.

Definition wf_snset (s : snset) : Prop := in_i64 (ss_base s) /\ wf_map (ss_bits s) (ss_map s).
Definition wf_fnset (s : fnset) : Prop :=
  in_u32 (fs_base s) /\ wf_set (fs_bits s) (fs_map s) /\
  (forall i, 0 <= i < fs_bits s -> bit_set (fs_map s) i = true -> fs_base s + i <= u32_max).

Lemma rd_snset : forall e s, wf_snset s -> rd (read_snset e) (enc_snset e s) s.
Proof.
  intros e [base nb ws] [Hb Hm]; cbn [ss_base ss_bits ss_map] in *. unfold read_snset, enc_snset; cbn [ss_base ss_bits ss_map].
  eapply rd_bind; [apply rd_sn; exact Hb|].
  assert (Hn : in_u32 nb) by (destruct Hm; unfold in_u32, u32_max; lia).
  eapply rd_bind; [apply rd_u32_in; exact Hn|].
  destruct (Z.gtb_spec nb 256) as [Hg|Hg]; [destruct Hm; lia|].
  apply rd_bind_ret with (g := mk_snset base nb). apply rd_bitmap; exact Hm.
Qed.

Lemma rd_plift : forall A (a : A), rd (plift (Ok a)) [] a.
Proof. intros A a r; reflexivity. Qed.

Lemma rd_fnset : forall e s, wf_fnset s -> rd (read_fnset e) (enc_fnset e s) s.
Proof.
  intros e [base nb ws] (Hb & Hs & Ho); cbn [fs_base fs_bits fs_map] in *. unfold read_fnset, enc_fnset; cbn [fs_base fs_bits fs_map].
  pose proof (wf_set_map _ _ Hs) as Hm.
  assert (Hn : 0 <= nb <= 256) by (destruct Hs; auto).
  eapply rd_bind; [apply rd_u32_in; exact Hb|].
  eapply rd_bind; [apply rd_u32_in; unfold in_u32, u32_max; lia|].
  rewrite <- (app_nil_r (enc_words e _)).
  eapply rd_bind; [apply rd_bitmap; exact Hm|].
  intros r. cbn [app]. unfold pbind, ptick. cbn [fst].
  replace (Z.to_nat (Z.min nb 257)) with (Z.to_nat nb) by lia.
  rewrite fn_collect_list; try lia.
  2:{ intros j Hj Hbit. apply Ho; [lia|exact Hbit]. }
  cbn [plift fst]. unfold fnset_new.
  rewrite fnset_new_loop_pure by (apply valid_set_list; lia).
  rewrite new_pure_idem by exact Hs. reflexivity.
Qed.
