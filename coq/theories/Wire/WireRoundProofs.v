(* C08: decoding an encoding gives the value back.  `rd p bs x`: parser p reads the bytes
   bs (followed by anything) as the value x and leaves exactly what followed. *)
From DustDDS Require Import Base.Machine Base.Bytes Wire.WireModel Wire.WireProofs
  Wire.WireBitsProofs Wire.WireSetsProofs.
Open Scope Z_scope.
Ltac Zify.zify_post_hook ::= Z.div_mod_to_equations.

Definition rd {A} (p : parser A) (bs : list Z) (x : A) : Prop :=
  forall r, fst (p (bs ++ r)) = Ok (x, r).

Lemma rd_pret : forall A (a : A), rd (pret a) [] a.
Proof. intros A a r; reflexivity. Qed.
Lemma rd_bind : forall A B (p : parser A) (f : A -> parser B) b1 b2 a b,
  rd p b1 a -> rd (f a) b2 b -> rd (pbind p f) (b1 ++ b2) b.
Proof.
  intros A B p f b1 b2 a b Hp Hf r. rewrite <- app_assoc.
  rewrite (pbind_ok _ _ p f _ a (b2 ++ r)); [apply Hf|apply Hp].
Qed.
Lemma rd_bind_ret : forall A B (p : parser A) (g : A -> B) bs a,
  rd p bs a -> rd (pbind p (fun x => pret (g x))) bs (g a).
Proof.
  intros A B p g bs a Hp. rewrite <- (app_nil_r bs). eapply rd_bind; [exact Hp|apply rd_pret].
Qed.
Lemma rd_read_n : forall n l, length l = n -> rd (read_n n) l l.
Proof.
  intros n l H r. unfold read_n. rewrite shorter_spec.
  destruct (Z.ltb_spec (len (l ++ r)) (Z.of_nat n)) as [Hl|Hl].
  - rewrite len_app in Hl. unfold len in Hl. lia.
  - cbn [fst]. rewrite firstn_app_exact, skipn_app_exact by exact H. reflexivity.
Qed.

Lemma enc_int_length : forall e n x, length (enc_int e n x) = n.
Proof. intros [] n x; unfold enc_int; [apply enc_le_length|apply enc_be_length]. Qed.
Lemma len_enc_int : forall e n x, len (enc_int e n x) = Z.of_nat n.
Proof. intros; unfold len; rewrite enc_int_length; reflexivity. Qed.
Lemma dec_enc_int : forall e n x, dec_int e (enc_int e n x) = x mod 256 ^ Z.of_nat n.
Proof. intros [] n x; unfold dec_int, enc_int; [apply dec_enc_le|apply dec_enc_be]. Qed.

Lemma rd_u16 : forall e x, rd (read_u16 e) (enc_int e 2 x) (x mod 65536).
Proof.
  intros e x. unfold read_u16.
  replace (x mod 65536) with (dec_int e (enc_int e 2 x)) by (rewrite dec_enc_int; reflexivity).
  apply rd_bind_ret with (g := dec_int e). apply rd_read_n, enc_int_length.
Qed.
Lemma rd_u32 : forall e x, rd (read_u32 e) (enc_int e 4 x) (x mod 4294967296).
Proof.
  intros e x. unfold read_u32.
  replace (x mod 4294967296) with (dec_int e (enc_int e 4 x)) by (rewrite dec_enc_int; reflexivity).
  apply rd_bind_ret with (g := dec_int e). apply rd_read_n, enc_int_length.
Qed.
Lemma rd_u32_in : forall e x, in_u32 x -> rd (read_u32 e) (enc_int e 4 x) x.
Proof.
  intros e x H. replace x with (x mod 4294967296) at 2; [apply rd_u32|].
  unfold in_u32, u32_max in H. lia.
Qed.
Lemma rd_u16_in : forall e x, 0 <= x <= 65535 -> rd (read_u16 e) (enc_int e 2 x) x.
Proof. intros e x H. replace x with (x mod 65536) at 2; [apply rd_u16|lia]. Qed.
Lemma rd_i32 : forall e x, in_i32 x -> rd (read_i32 e) (enc_int e 4 x) x.
Proof.
  intros e x H. unfold read_i32.
  replace x with (to_signed 32 (dec_int e (enc_int e 4 x))) at 2.
  - apply rd_bind_ret with (g := fun b => to_signed 32 (dec_int e b)). apply rd_read_n, enc_int_length.
  - rewrite dec_enc_int. change (256 ^ Z.of_nat 4) with 4294967296. apply i32_roundtrip; exact H.
Qed.
Lemma rd_sn : forall e x, in_i64 x -> rd (read_sn e) (enc_sn e x) x.
Proof.
  intros e x H. unfold read_sn, enc_sn, two32.
  destruct (sn_split x H) as (Hh & Hl & E).
  eapply rd_bind; [apply rd_i32; exact Hh|].
  assert (G : rd (pbind (read_u32 e) (fun l => pret (x / 4294967296 * 4294967296 + l))) (enc_int e 4 x)
                 (x / 4294967296 * 4294967296 + x mod 4294967296))
    by (apply rd_bind_ret with (g := fun l => x / 4294967296 * 4294967296 + l); apply rd_u32).
  rewrite E in G. exact G.
Qed.
Lemma rd_eid : forall l, length l = 4%nat -> rd read_entity_id l l.
Proof.
  intros l H. destruct l as [|a [|b [|c [|d [|? ?]]]]]; try discriminate H.
  unfold read_entity_id. change [a; b; c; d] with ([a; b; c] ++ [d]).
  eapply rd_bind; [apply rd_read_n; reflexivity|].
  apply rd_bind_ret with (g := fun x => [a; b; c] ++ x). apply rd_read_n; reflexivity.
Qed.

Lemma rd_words : forall e ws, Forall in_i32 ws -> rd (read_words e (length ws)) (enc_words e ws) ws.
Proof.
  intros e ws H; induction H as [|w t Hw Ht IH]; cbn [length read_words enc_words flat_map]; [apply rd_pret|].
  eapply rd_bind; [apply rd_i32; exact Hw|].
  rewrite <- (app_nil_r (flat_map (enc_int e 4) t)).
  eapply rd_bind; [exact IH|apply rd_pret].
Qed.

(* ------------------------------------------------------------------ number sets *)
Record wf_map (nb : Z) (ws : list Z) : Prop := {
  m_wf : wf_words ws;
  m_nb : 0 <= nb <= 256;
  m_clear : forall i, nb <= i < 256 -> bit_set ws i = false }.

Lemma wf_set_map : forall nb ws, wf_set nb ws -> wf_map nb ws.
Proof. intros nb ws [A B C D]; constructor; auto. Qed.

Lemma nth_firstn_lt : forall (l : list Z) n m, (m < n)%nat -> nth m (firstn n l) 0 = nth m l 0.
Proof.
  induction l as [|x t IH]; intros n m H; [rewrite firstn_nil; reflexivity|].
  destruct n; [lia|]. destruct m; cbn [firstn nth]; [reflexivity|]. apply IH. lia.
Qed.

Lemma pad8_firstn : forall nb ws, wf_map nb ws ->
  pad8 (firstn (Z.to_nat (div_ceil32 nb)) ws) = ws.
Proof.
  intros nb ws [[Hl Hf] Hn Hc].
  set (M := Z.to_nat (div_ceil32 nb)).
  assert (HM : (M <= 8)%nat) by (unfold M, div_ceil32; lia).
  assert (Hlen : length (firstn M ws) = M) by (rewrite firstn_length; lia).
  assert (W : wf_words (pad8 (firstn M ws))).
  { unfold pad8; split.
    - rewrite app_length, repeat_length, Hlen. lia.
    - apply Forall_app; split.
      + apply Forall_forall. intros x Hx. rewrite Forall_forall in Hf. apply Hf. eapply In_firstn_elim; eauto.
      + apply Forall_forall. intros x Hx. apply repeat_spec in Hx. subst. unfold in_i32, i32_min, i32_max; lia. }
  apply words_ext; [exact W|split; auto|].
  intros i Hi. unfold bit_set, pad8.
  destruct (Nat.lt_ge_cases (Z.to_nat (i / 32)) M) as [Hlt|Hge].
  - rewrite app_nth1 by (rewrite Hlen; exact Hlt). rewrite nth_firstn_lt by exact Hlt. reflexivity.
  - rewrite app_nth2 by (rewrite Hlen; exact Hge).
    assert (E : nth (Z.to_nat (i / 32) - length (firstn M ws)) (repeat 0 (8 - length (firstn M ws))) 0 = 0).
    { destruct (nth_in_or_default (Z.to_nat (i / 32) - length (firstn M ws)) (repeat 0 (8 - length (firstn M ws))) 0) as [Hin|Hd]; [|exact Hd].
      apply repeat_spec in Hin. exact Hin. }
    rewrite E, Z.bits_0. symmetry. apply Hc. unfold M, div_ceil32 in Hge. lia.
Qed.

Lemma div_ceil_min : forall nb, 0 <= nb <= 256 -> Z.min 8 (div_ceil32 nb) = div_ceil32 nb.
Proof. intros; unfold div_ceil32; lia. Qed.

Lemma rd_bitmap : forall e nb ws, wf_map nb ws ->
  rd (read_bitmap e nb) (enc_words e (firstn (Z.to_nat (div_ceil32 nb)) ws)) ws.
Proof.
  intros e nb ws H. unfold read_bitmap. rewrite div_ceil_min by (destruct H; auto).
  rewrite <- (pad8_firstn nb ws H) at 2.
  apply rd_bind_ret with (g := pad8).
  destruct H as [[Hl Hf] Hn Hc].
  replace (Z.to_nat (div_ceil32 nb)) with (length (firstn (Z.to_nat (div_ceil32 nb)) ws)) at 1.
  - apply rd_words. apply Forall_forall. intros x Hx. rewrite Forall_forall in Hf. apply Hf. eapply In_firstn_elim; eauto.
  - rewrite firstn_length. unfold div_ceil32. lia.
Qed.

Definition wf_snset (s : snset) : Prop := in_i64 (ss_base s) /\ wf_map (ss_bits s) (ss_map s).
Definition wf_fnset (s : fnset) : Prop :=
  in_u32 (fs_base s) /\ wf_set (fs_bits s) (fs_map s) /\
  (forall i, 0 <= i < fs_bits s -> bit_set (fs_map s) i = true -> fs_base s + i <= u32_max).

Lemma rd_snset : forall e s, wf_snset s -> rd (read_snset e) (enc_snset e s) s.
Proof.
  intros e [base nb ws] [Hb Hm]; cbn [ss_base ss_bits ss_map] in *. unfold read_snset, enc_snset; cbn [ss_base ss_bits ss_map].
  eapply rd_bind; [apply rd_sn; exact Hb|].
  assert (Hn : in_u32 nb) by (destruct Hm; unfold in_u32, u32_max; lia).
  eapply rd_bind; [apply rd_u32_in; exact Hn|].
  destruct (Z.gtb_spec nb 256) as [Hg|Hg]; [destruct Hm; lia|].
  apply rd_bind_ret with (g := mk_snset base nb). apply rd_bitmap; exact Hm.
Qed.

Lemma rd_plift : forall A (a : A), rd (plift (Ok a)) [] a.
Proof. intros A a r; reflexivity. Qed.

Lemma rd_fnset : forall e s, wf_fnset s -> rd (read_fnset e) (enc_fnset e s) s.
Proof.
  intros e [base nb ws] (Hb & Hs & Ho); cbn [fs_base fs_bits fs_map] in *. unfold read_fnset, enc_fnset; cbn [fs_base fs_bits fs_map].
  pose proof (wf_set_map _ _ Hs) as Hm.
  assert (Hn : 0 <= nb <= 256) by (destruct Hs; auto).
  eapply rd_bind; [apply rd_u32_in; exact Hb|].
  eapply rd_bind; [apply rd_u32_in; unfold in_u32, u32_max; lia|].
  destruct (Z.gtb_spec nb 256) as [Hg|Hg]; [lia|].
  rewrite <- (app_nil_r (enc_words e _)).
  eapply rd_bind; [apply rd_bitmap; exact Hm|].
  intros r. cbn [app]. unfold pbind, ptick. cbn [fst].
  rewrite fn_collect_list; try lia.
  2:{ intros j Hj Hbit. apply Ho; [lia|exact Hbit]. }
  cbn [plift fst]. unfold fnset_new.
  rewrite fnset_new_loop_pure by (apply valid_set_list; lia).
  rewrite new_pure_idem by exact Hs. reflexivity.
Qed.

(* ------------------------------------------------------------------ locators *)
Definition wf_loc (l : locator) : Prop := in_i32 (l_kind l) /\ in_u32 (l_port l) /\ length (l_addr l) = 16%nat.

Lemma rd_ptick : forall n, rd (ptick n) [] tt.
Proof. intros n r; reflexivity. Qed.

Lemma rd_locator : forall e l, wf_loc l -> rd (read_locator e) (enc_locator e l) l.
Proof.
  intros e [k p a] (Hk & Hp & Ha); cbn [l_kind l_port l_addr] in *. unfold read_locator, enc_locator; cbn [l_kind l_port l_addr].
  eapply rd_bind; [apply rd_i32; exact Hk|].
  eapply rd_bind; [apply rd_u32_in; exact Hp|].
  apply rd_bind_ret with (g := mk_loc k p). apply rd_read_n; exact Ha.
Qed.
Lemma rd_locs : forall e ls, Forall wf_loc ls ->
  rd (read_locs e (length ls)) (flat_map (enc_locator e) ls) ls.
Proof.
  intros e ls H; induction H as [|l t Hl Ht IH]; cbn [length read_locs flat_map]; [apply rd_pret|].
  eapply rd_bind; [apply rd_locator; exact Hl|].
  change (flat_map (enc_locator e) t) with ([] ++ flat_map (enc_locator e) t).
  eapply rd_bind; [apply rd_ptick|].
  apply rd_bind_ret with (g := cons l). exact IH.
Qed.
Lemma len_enc_locator : forall e l, wf_loc l -> len (enc_locator e l) = 24.
Proof.
  intros e l (_ & _ & Ha). unfold enc_locator. rewrite !len_app, !len_enc_int. unfold len. rewrite Ha. reflexivity.
Qed.
Lemma len_enc_locs : forall e ls, Forall wf_loc ls -> len (flat_map (enc_locator e) ls) = 24 * len ls.
Proof.
  intros e ls H; induction H as [|l t Hl Ht IH]; cbn [flat_map]; [reflexivity|].
  rewrite len_app, len_enc_locator, IH, len_cons by exact Hl. lia.
Qed.
Lemma rd_locator_list : forall e ls, Forall wf_loc ls -> len ls <= u32_max ->
  rd (read_locator_list e) (enc_locator_list e ls) ls.
Proof.
  intros e ls H Hn r. unfold read_locator_list, enc_locator_list. rewrite <- app_assoc.
  assert (Hu : in_u32 (len ls)) by (unfold in_u32, len in *; lia).
  rewrite (pbind_ok _ _ (read_u32 e) _ _ (len ls) (flat_map (enc_locator e) ls ++ r)) by (apply rd_u32_in; exact Hu).
  replace (Z.to_nat (Z.min (len ls) (len (flat_map (enc_locator e) ls ++ r) / 24 + 1))) with (length ls).
  - apply rd_locs; exact H.
  - rewrite len_app, len_enc_locs by exact H. unfold len. lia.
Qed.

(* ---------------------------------------------------------------- parameters *)
Lemma pad_len_spec : forall n, 0 <= n -> 0 <= pad_len n <= 3 /\ (n + pad_len n) mod 4 = 0.
Proof. intros; unfold pad_len; lia. Qed.

Lemma read_param_body : forall e i2 l2 body r,
  length i2 = 2%nat -> length l2 = 2%nat ->
  to_signed 16 (dec_int e i2) <> PID_SENTINEL ->
  dec_int e l2 = len body -> len body mod 4 = 0 ->
  fst (read_param e (i2 ++ l2 ++ body ++ r)) = Ok (mk_param (to_signed 16 (dec_int e i2)) body, r).
Proof.
  intros e i2 l2 body r H1 H2 Hs Hl Hm. unfold read_param. rewrite !shorter_spec.
  destruct (Z.ltb_spec (len (i2 ++ l2 ++ body ++ r)) 4) as [L|L].
  { rewrite !len_app in L. unfold len in L. lia. }
  rewrite (firstn_app_exact _ i2) by exact H1.
  rewrite (skipn_app_exact _ i2) by exact H1.
  rewrite (firstn_app_exact _ l2) by exact H2.
  replace (skipn 4 (i2 ++ l2 ++ body ++ r)) with (body ++ r).
  2:{ change 4%nat with (2 + 2)%nat. rewrite <- skipn_skipn, (skipn_app_exact _ i2), (skipn_app_exact _ l2); auto. }
  rewrite Hl, Hm. cbn [Z.eqb negb andb].
  destruct (Z.eqb_spec (to_signed 16 (dec_int e i2)) PID_SENTINEL) as [E|E]; [contradiction|]. cbn [negb andb].
  destruct (Z.ltb_spec (len (body ++ r)) (len body)) as [L2|L2].
  { rewrite len_app in L2. unfold len in L2. lia. }
  unfold len at 1 2. rewrite Nat2Z.id.
  rewrite firstn_app_exact, skipn_app_exact by reflexivity. reflexivity.
Qed.

Definition wf_param (p : param) : Prop :=
  -32768 <= p_id p <= 32767 /\ p_id p <> PID_SENTINEL /\ len (p_val p) + pad_len (len (p_val p)) <= 65535.

Lemma rd_param : forall e p, wf_param p -> rd (read_param e) (enc_param e p) (pad_param p).
Proof.
  intros e [id val] (Hi & Hs & Hl) r; cbn [p_id p_val] in *. unfold enc_param, pad_param; cbn [p_id p_val].
  set (pad := pad_len (len val)) in *.
  destruct (pad_len_spec (len val) (len_nonneg _ val)) as [Hp Hm]. fold pad in Hp, Hm.
  rewrite <- !app_assoc.
  assert (Eid : to_signed 16 (dec_int e (enc_int e 2 id)) = id).
  { rewrite dec_enc_int. change (256 ^ Z.of_nat 2) with 65536. apply i16_roundtrip; exact Hi. }
  replace (val ++ repeat 0 (Z.to_nat pad) ++ r) with ((val ++ repeat 0 (Z.to_nat pad)) ++ r) by (rewrite <- app_assoc; reflexivity).
  rewrite read_param_body.
  - rewrite Eid. reflexivity.
  - apply enc_int_length.
  - apply enc_int_length.
  - rewrite Eid; exact Hs.
  - rewrite dec_enc_int, len_app, len_repeat. change (256 ^ Z.of_nat 2) with 65536.
    pose proof (len_nonneg _ val). lia.
  - rewrite len_app, len_repeat. replace (Z.of_nat (Z.to_nat pad)) with pad by lia. exact Hm.
Qed.

Lemma read_param_sentinel : forall e r,
  fst (read_param e (enc_int e 2 PID_SENTINEL ++ [0; 0] ++ r)) = Ok (mk_param PID_SENTINEL [], r).
Proof.
  intros e r. unfold read_param. rewrite shorter_spec.
  destruct (Z.ltb_spec (len (enc_int e 2 PID_SENTINEL ++ [0; 0] ++ r)) 4) as [L|L].
  { rewrite !len_app, len_enc_int in L. unfold len in L. cbn [length] in L. lia. }
  rewrite (firstn_app_exact _ (enc_int e 2 PID_SENTINEL)) by apply enc_int_length.
  rewrite dec_enc_int. change (to_signed 16 (PID_SENTINEL mod 256 ^ Z.of_nat 2)) with 1.
  change (1 =? PID_SENTINEL) with true. cbn [negb andb].
  replace (skipn 4 (enc_int e 2 PID_SENTINEL ++ [0; 0] ++ r)) with r; [reflexivity|].
  change 4%nat with (2 + 2)%nat. rewrite <- skipn_skipn, (skipn_app_exact _ (enc_int e 2 PID_SENTINEL)) by apply enc_int_length.
  reflexivity.
Qed.

Lemma rd_params : forall e ps fuel, Forall wf_param ps -> (length ps < fuel)%nat ->
  rd (read_params e fuel) (enc_param_list e ps) (map pad_param ps).
Proof.
  intros e ps; induction ps as [|p t IH]; intros fuel H Hf.
  - destruct fuel; [lia|]. intros r. cbn [read_params enc_param_list flat_map map app].
    rewrite (pbind_ok _ _ (read_param e) _ _ (mk_param PID_SENTINEL []) r).
    + reflexivity.
    + rewrite <- app_assoc. apply read_param_sentinel.
  - destruct fuel; [cbn [length] in Hf; lia|]. cbn [length] in Hf.
    pose proof (Forall_inv H) as Hp. pose proof (Forall_inv_tail H) as Ht.
    unfold enc_param_list. cbn [read_params flat_map map]. rewrite <- app_assoc.
    eapply rd_bind; [apply rd_param; exact Hp|].
    destruct Hp as (_ & Hs & _).
    destruct (Z.eqb_spec (p_id (pad_param p)) PID_SENTINEL) as [E|E]; [cbn [pad_param p_id] in E; contradiction|].
    change (flat_map (enc_param e) t ++ enc_int e 2 PID_SENTINEL ++ [0; 0]) with ([] ++ enc_param_list e t).
    eapply rd_bind; [apply rd_ptick|].
    apply rd_bind_ret with (g := cons (pad_param p)). apply IH; [exact Ht|lia].
Qed.

Lemma len_enc_param_ge : forall e p, 4 <= len (enc_param e p).
Proof.
  intros; unfold enc_param. rewrite !len_app, !len_enc_int. pose proof (len_nonneg _ (p_val p)).
  pose proof (len_nonneg _ (repeat 0 (Z.to_nat (pad_len (len (p_val p)))))). lia.
Qed.
Lemma len_enc_params_ge : forall e ps, 4 * len ps <= len (flat_map (enc_param e) ps).
Proof.
  intros e ps; induction ps as [|p t IH]; cbn [flat_map]; [unfold len; cbn; lia|].
  rewrite len_app, len_cons. pose proof (len_enc_param_ge e p). lia.
Qed.
Lemma rd_param_list : forall e ps, Forall wf_param ps -> len (enc_param_list e ps) <= 65535 ->
  rd (read_param_list e) (enc_param_list e ps) (map pad_param ps).
Proof.
  intros e ps H Hl. unfold read_param_list. apply rd_params; [exact H|].
  unfold enc_param_list in Hl. rewrite len_app in Hl. pose proof (len_enc_params_ge e ps).
  pose proof (len_nonneg _ (enc_int e 2 PID_SENTINEL ++ [0; 0])).
  unfold MAX_PARAMETERS. unfold len in *. lia.
Qed.

(* ---------------------------------------------------------------- submessages *)
Definition in_u16 (z : Z) : Prop := 0 <= z <= 65535.

Definition wfp (p : psub) : Prop :=
  match p with
  | AckNack _ rid wid st c => length rid = 4%nat /\ length wid = 4%nat /\ wf_snset st /\ in_i32 c
  | Data q _ _ _ rid wid sn qos _ =>
      length rid = 4%nat /\ length wid = 4%nat /\ in_i64 sn /\ (q = true -> Forall wf_param qos)
  | DataFrag q _ _ rid wid sn fs fc fz ds qos _ =>
      length rid = 4%nat /\ length wid = 4%nat /\ in_i64 sn /\ in_u32 fs /\ in_u16 fc /\ in_u16 fz /\ in_u32 ds /\
      (q = true -> Forall wf_param qos)
  | Gap rid wid start gl => length rid = 4%nat /\ length wid = 4%nat /\ in_i64 start /\ wf_snset gl
  | Heartbeat _ _ rid wid a b c => length rid = 4%nat /\ length wid = 4%nat /\ in_i64 a /\ in_i64 b /\ in_i32 c
  | HeartbeatFrag rid wid sn lf c => length rid = 4%nat /\ length wid = 4%nat /\ in_i64 sn /\ in_u32 lf /\ in_i32 c
  | InfoDst p => length p = 12%nat
  | InfoReply m u mu => Forall wf_loc u /\ len u <= u32_max /\ (m = true -> Forall wf_loc mu /\ len mu <= u32_max)
  | InfoSrc a b c => length a = 2%nat /\ length b = 2%nat /\ length c = 12%nat
  | InfoTs _ s f => in_u32 s /\ in_u32 f
  | NackFrag rid wid sn st c => length rid = 4%nat /\ length wid = 4%nat /\ in_i64 sn /\ wf_fnset st /\ in_i32 c
  | Pad => True
  end.

Definition pcanon (p : psub) : psub :=
  match p with
  | Data q d k n rid wid sn qos pl =>
      Data q d k n rid wid sn (if q then map pad_param qos else []) (if d || k then pl else [])
  | DataFrag q k n rid wid sn a b c d qos pl =>
      DataFrag q k n rid wid sn a b c d (if q then map pad_param qos else []) pl
  | InfoTs i s f => if i then InfoTs true u32_max u32_max else InfoTs false s f
  | InfoReply m u mu => InfoReply m u (if m then mu else [])
  | other => other
  end.

Lemma run_rd : forall A (p : parser A) bs x r, rd p bs x -> fst (run p (bs ++ r)) = Ok x.
Proof.
  intros A p bs x r H. specialize (H r). unfold run.
  destruct (p (bs ++ r)) as [[[a s]|err|y] c]; cbn [fst] in *; inversion H; reflexivity.
Qed.

(* the flags octet written by SubmessageHeaderWrite::new and the flags read back *)
Lemma flags0 : forall e, let F := flags_octet e [] in
  is_le F = e /\ flag F 1 = false /\ flag F 2 = false /\ flag F 3 = false /\ flag F 4 = false.
Proof. intros []; vm_compute; repeat split. Qed.
Lemma flags1 : forall e a, let F := flags_octet e [a] in
  is_le F = e /\ flag F 1 = a /\ flag F 2 = false /\ flag F 3 = false /\ flag F 4 = false.
Proof. intros [] []; vm_compute; repeat split. Qed.
Lemma flags2 : forall e a b, let F := flags_octet e [a; b] in
  is_le F = e /\ flag F 1 = a /\ flag F 2 = b /\ flag F 3 = false /\ flag F 4 = false.
Proof. intros [] [] []; vm_compute; repeat split. Qed.
Lemma flags3 : forall e a b c, let F := flags_octet e [a; b; c] in
  is_le F = e /\ flag F 1 = a /\ flag F 2 = b /\ flag F 3 = c /\ flag F 4 = false.
Proof. intros [] [] [] []; vm_compute; repeat split. Qed.
Lemma flags4 : forall e a b c d, let F := flags_octet e [a; b; c; d] in
  is_le F = e /\ flag F 1 = a /\ flag F 2 = b /\ flag F 3 = c /\ flag F 4 = d.
Proof. intros [] [] [] [] []; vm_compute; repeat split. Qed.
Lemma flags_byte : forall e fs, (length fs <= 4)%nat -> 0 <= flags_octet e fs <= 255.
Proof.
  intros e fs H. destruct fs as [|a [|b [|c [|d [|? ?]]]]]; cbn [length] in H; try lia;
    destruct e; repeat match goal with x : bool |- _ => destruct x end; vm_compute; split; discriminate.
Qed.

Lemma parse_data_fst : forall fl sublen data o2q rid wid sn s1 qos rest,
  shorter data sublen = false ->
  fst ((_ <~ read_u16 (is_le fl) ;; o <~ read_u16 (is_le fl) ;; rid <~ read_entity_id ;; wid <~ read_entity_id ;;
        sn <~ read_sn (is_le fl) ;; pret (o + 4, rid, wid, sn)) data) = Ok ((o2q, rid, wid, sn), s1) ->
  ((if sublen =? 0 then len data else sublen) <? o2q) = false ->
  fst (if flag fl 1
       then read_param_list (is_le fl)
              (firstn (Z.to_nat ((if sublen =? 0 then len data else sublen) - o2q)) (skipn (Z.to_nat o2q) data))
       else (Ok ([], firstn (Z.to_nat ((if sublen =? 0 then len data else sublen) - o2q)) (skipn (Z.to_nat o2q) data)), 0))
    = Ok (qos, rest) ->
  fst (parse_data fl sublen data) =
    Ok (Data (flag fl 1) (flag fl 2) (flag fl 3) (flag fl 4) rid wid sn qos (if flag fl 2 || flag fl 3 then rest else [])).
Proof.
  intros fl sublen data o2q rid wid sn s1 qos rest Hs Hc He Hq. unfold parse_data. rewrite Hs.
  match goal with |- context [match ?X with _ => _ end] => destruct X as [r0 c0] end.
  cbn [fst] in Hc. subst r0. cbv zeta. rewrite He.
  match goal with |- context [match ?X with _ => _ end] => destruct X as [r1 c1] end.
  cbn [fst] in Hq. subst r1. reflexivity.
Qed.

Lemma parse_data_frag_fst : forall fl sublen data o2q rid wid sn fs fc fz ds s1 qos rest,
  shorter data sublen = false -> shorter data 32 = false ->
  fst ((_ <~ read_u16 (is_le fl) ;; o <~ read_u16 (is_le fl) ;; rid <~ read_entity_id ;; wid <~ read_entity_id ;;
        sn <~ read_sn (is_le fl) ;; fs <~ read_u32 (is_le fl) ;; fc <~ read_u16 (is_le fl) ;; fz <~ read_u16 (is_le fl) ;;
        ds <~ read_u32 (is_le fl) ;; pret (o + 4, rid, wid, sn, fs, fc, fz, ds)) data)
    = Ok ((o2q, rid, wid, sn, fs, fc, fz, ds), s1) ->
  ((if sublen =? 0 then len data else sublen) <? o2q) = false ->
  fst (if flag fl 1
       then read_param_list (is_le fl)
              (firstn (Z.to_nat ((if sublen =? 0 then len data else sublen) - o2q)) (skipn (Z.to_nat o2q) data))
       else (Ok ([], firstn (Z.to_nat ((if sublen =? 0 then len data else sublen) - o2q)) (skipn (Z.to_nat o2q) data)), 0))
    = Ok (qos, rest) ->
  fst (parse_data_frag fl sublen data) =
    Ok (DataFrag (flag fl 1) (flag fl 2) (flag fl 3) rid wid sn fs fc fz ds qos rest).
Proof.
  intros fl sublen data o2q rid wid sn fs fc fz ds s1 qos rest Hs H32 Hc He Hq. unfold parse_data_frag. rewrite Hs, H32.
  match goal with |- context [match ?X with _ => _ end] => destruct X as [r0 c0] end.
  cbn [fst] in Hc. subst r0. cbv zeta. rewrite He.
  match goal with |- context [match ?X with _ => _ end] => destruct X as [r1 c1] end.
  cbn [fst] in Hq. subst r1. reflexivity.
Qed.

Lemma len_enc_sn : forall e x, len (enc_sn e x) = 8.
Proof. intros; unfold enc_sn; rewrite len_app, !len_enc_int; reflexivity. Qed.

Lemma shorter_app_false : forall (a b : list Z) n, n <= len a -> shorter (a ++ b) n = false.
Proof.
  intros a b n H. rewrite shorter_spec, len_app. pose proof (len_nonneg _ b).
  destruct (Z.ltb_spec (len a + len b) n); [lia|reflexivity].
Qed.

Lemma region_exact : forall (hd mid rest : list Z) n,
  0 <= n -> Z.to_nat n = length hd ->
  firstn (Z.to_nat (len hd + len mid - n)) (skipn (Z.to_nat n) (hd ++ mid ++ rest)) = mid.
Proof.
  intros hd mid rest n Hn H. rewrite H, skipn_app_exact by reflexivity.
  apply firstn_app_exact. unfold len. lia.
Qed.

Ltac use_flags lem :=
  let F1 := fresh "Fle" in let F2 := fresh "Ff1" in let F3 := fresh "Ff2" in
  let F4 := fresh "Ff3" in let F5 := fresh "Ff4" in
  pose proof lem as (F1 & F2 & F3 & F4 & F5); cbv zeta in F1, F2, F3, F4, F5.

Lemma rt_acknack : forall e f rid wid st c rest, wfp (AckNack f rid wid st c) ->
  fst (parse_acknack (flags_octet e [f]) (enc_body e (AckNack f rid wid st c) ++ rest)) = Ok (AckNack f rid wid st c).
Proof.
  intros e f rid wid st c rest (H1 & H2 & H3 & H4). use_flags (flags1 e f).
  unfold parse_acknack. rewrite Fle, Ff1. apply run_rd. cbn [enc_body].
  eapply rd_bind; [apply rd_eid; exact H1|]. eapply rd_bind; [apply rd_eid; exact H2|].
  eapply rd_bind; [apply rd_snset; exact H3|].
  apply rd_bind_ret with (g := fun c => AckNack f rid wid st c). apply rd_i32; exact H4.
Qed.
Lemma rt_gap : forall e rid wid start gl rest, wfp (Gap rid wid start gl) ->
  fst (parse_gap (flags_octet e []) (enc_body e (Gap rid wid start gl) ++ rest)) = Ok (Gap rid wid start gl).
Proof.
  intros e rid wid start gl rest (H1 & H2 & H3 & H4). use_flags (flags0 e).
  unfold parse_gap. rewrite Fle. apply run_rd. cbn [enc_body].
  eapply rd_bind; [apply rd_eid; exact H1|]. eapply rd_bind; [apply rd_eid; exact H2|].
  eapply rd_bind; [apply rd_sn; exact H3|].
  apply rd_bind_ret with (g := fun g => Gap rid wid start g). apply rd_snset; exact H4.
Qed.
Lemma rt_heartbeat : forall e f l rid wid a b c rest, wfp (Heartbeat f l rid wid a b c) ->
  fst (parse_heartbeat (flags_octet e [f; l]) (enc_body e (Heartbeat f l rid wid a b c) ++ rest)) = Ok (Heartbeat f l rid wid a b c).
Proof.
  intros e f l rid wid a b c rest (H1 & H2 & H3 & H4 & H5). use_flags (flags2 e f l).
  unfold parse_heartbeat. rewrite Fle, Ff1, Ff2. apply run_rd. cbn [enc_body].
  eapply rd_bind; [apply rd_eid; exact H1|]. eapply rd_bind; [apply rd_eid; exact H2|].
  eapply rd_bind; [apply rd_sn; exact H3|]. eapply rd_bind; [apply rd_sn; exact H4|].
  apply rd_bind_ret with (g := fun c => Heartbeat f l rid wid a b c). apply rd_i32; exact H5.
Qed.
Lemma rt_heartbeat_frag : forall e rid wid sn lf c rest, wfp (HeartbeatFrag rid wid sn lf c) ->
  fst (parse_heartbeat_frag (flags_octet e []) (enc_body e (HeartbeatFrag rid wid sn lf c) ++ rest)) = Ok (HeartbeatFrag rid wid sn lf c).
Proof.
  intros e rid wid sn lf c rest (H1 & H2 & H3 & H4 & H5). use_flags (flags0 e).
  unfold parse_heartbeat_frag. rewrite Fle. apply run_rd. cbn [enc_body].
  eapply rd_bind; [apply rd_eid; exact H1|]. eapply rd_bind; [apply rd_eid; exact H2|].
  eapply rd_bind; [apply rd_sn; exact H3|]. eapply rd_bind; [apply rd_u32_in; exact H4|].
  apply rd_bind_ret with (g := fun c => HeartbeatFrag rid wid sn lf c). apply rd_i32; exact H5.
Qed.
Lemma rt_nack_frag : forall e rid wid sn st c rest, wfp (NackFrag rid wid sn st c) ->
  fst (parse_nack_frag (flags_octet e []) (enc_body e (NackFrag rid wid sn st c) ++ rest)) = Ok (NackFrag rid wid sn st c).
Proof.
  intros e rid wid sn st c rest (H1 & H2 & H3 & H4 & H5). use_flags (flags0 e).
  unfold parse_nack_frag. rewrite Fle. apply run_rd. cbn [enc_body].
  eapply rd_bind; [apply rd_eid; exact H1|]. eapply rd_bind; [apply rd_eid; exact H2|].
  eapply rd_bind; [apply rd_sn; exact H3|]. eapply rd_bind; [apply rd_fnset; exact H4|].
  apply rd_bind_ret with (g := fun c => NackFrag rid wid sn st c). apply rd_i32; exact H5.
Qed.
Lemma rt_info_dst : forall e p rest, wfp (InfoDst p) ->
  fst (parse_info_dst (flags_octet e []) (enc_body e (InfoDst p) ++ rest)) = Ok (InfoDst p).
Proof.
  intros e p rest H. unfold parse_info_dst. apply run_rd. cbn [enc_body].
  apply rd_bind_ret with (g := fun p => InfoDst p). apply rd_read_n; exact H.
Qed.
Lemma rt_info_src : forall e a b c rest, wfp (InfoSrc a b c) ->
  fst (parse_info_src (flags_octet e []) (enc_body e (InfoSrc a b c) ++ rest)) = Ok (InfoSrc a b c).
Proof.
  intros e a b c rest (H1 & H2 & H3). use_flags (flags0 e).
  unfold parse_info_src. rewrite Fle. apply run_rd. cbn [enc_body].
  eapply rd_bind.
  { assert (G : rd (read_i32 e) (enc_int e 4 0) 0) by (apply rd_i32; unfold in_i32, i32_min, i32_max; lia).
    destruct e; exact G. }
  eapply rd_bind; [apply rd_read_n; exact H1|]. eapply rd_bind; [apply rd_read_n; exact H2|].
  apply rd_bind_ret with (g := fun p => InfoSrc a b p). apply rd_read_n; exact H3.
Qed.
Lemma rt_info_ts : forall e i s f rest, wfp (InfoTs i s f) ->
  fst (parse_info_ts (flags_octet e [i]) (enc_body e (InfoTs i s f) ++ rest)) = Ok (pcanon (InfoTs i s f)).
Proof.
  intros e i s f rest (H1 & H2). use_flags (flags1 e i).
  unfold parse_info_ts. rewrite Fle, Ff1. destruct i; [reflexivity|]. apply run_rd. cbn [enc_body pcanon].
  eapply rd_bind; [apply rd_u32_in; exact H1|].
  apply rd_bind_ret with (g := fun f => InfoTs false s f). apply rd_u32_in; exact H2.
Qed.
Lemma rt_info_reply : forall e m u mu rest, wfp (InfoReply m u mu) ->
  fst (parse_info_reply (flags_octet e [m]) (enc_body e (InfoReply m u mu) ++ rest)) = Ok (pcanon (InfoReply m u mu)).
Proof.
  intros e m u mu rest (H1 & H2 & H3). use_flags (flags1 e m).
  unfold parse_info_reply. rewrite Fle, Ff1. apply run_rd. cbn [enc_body pcanon]. destruct m.
  - destruct (H3 eq_refl) as [H4 H5].
    eapply rd_bind; [apply rd_locator_list; auto|].
    apply rd_bind_ret with (g := fun x => InfoReply true u x). apply rd_locator_list; auto.
  - rewrite app_nil_r. rewrite <- (app_nil_r (enc_locator_list e u)).
    eapply rd_bind; [apply rd_locator_list; auto|].
    change (@nil Z) with (@nil Z ++ []).
    eapply rd_bind; [apply rd_pret|apply rd_pret].
Qed.

Lemma rt_data : forall e q d k n rid wid sn qos pl rest,
  wfp (Data q d k n rid wid sn qos pl) ->
  len (enc_body e (Data q d k n rid wid sn qos pl)) <= 65535 ->
  fst (parse_data (flags_octet e [q; d; k; n]) (len (enc_body e (Data q d k n rid wid sn qos pl)))
                  (enc_body e (Data q d k n rid wid sn qos pl) ++ rest)) = Ok (pcanon (Data q d k n rid wid sn qos pl)).
Proof.
  intros e q d k n rid wid sn qos pl rest (H1 & H2 & H3 & H4) HL. use_flags (flags4 e q d k n).
  cbn [enc_body pcanon] in *.
  set (qp := if q then enc_param_list e qos else []) in *.
  set (pp := if d || k then pl else []) in *.
  set (hd := enc_int e 2 0 ++ enc_int e 2 16 ++ rid ++ wid ++ enc_sn e sn).
  assert (Ehd : length hd = 20%nat).
  { unfold hd. rewrite !app_length, !enc_int_length, H1, H2. pose proof (len_enc_sn e sn) as E. unfold len in E. lia. }
  assert (Ebody : enc_int e 2 0 ++ enc_int e 2 16 ++ rid ++ wid ++ enc_sn e sn ++ qp ++ pp = hd ++ (qp ++ pp)).
  { unfold hd. rewrite <- !app_assoc. reflexivity. }
  rewrite Ebody in *. clear Ebody.
  assert (EL : len (hd ++ qp ++ pp) = 20 + len (qp ++ pp)) by (rewrite len_app; unfold len at 1; rewrite Ehd; reflexivity).
  rewrite <- (app_assoc hd).
  erewrite parse_data_fst with (o2q := 20) (s1 := (qp ++ pp) ++ rest) (qos := if q then map pad_param qos else []) (rest := pp).
  - rewrite Ff1, Ff2, Ff3, Ff4. unfold pp. destruct d, k; reflexivity.
  - rewrite app_assoc. apply shorter_app_false. lia.
  - rewrite Fle.
    match goal with |- fst (?p (hd ++ ?r)) = _ => assert (G : rd p hd (20, rid, wid, sn)) end; [|apply G].
    unfold hd.
    eapply rd_bind; [apply rd_u16|]. eapply rd_bind; [apply rd_u16|].
    eapply rd_bind; [apply rd_eid; exact H1|]. eapply rd_bind; [apply rd_eid; exact H2|].
    change (16 mod 65536 + 4) with 20.
    apply rd_bind_ret with (g := fun s => (20, rid, wid, s)). apply rd_sn; exact H3.
  - pose proof (len_nonneg _ (qp ++ pp)). destruct (Z.eqb_spec (len (hd ++ qp ++ pp)) 0); [lia|].
    apply Z.ltb_ge. lia.
  - pose proof (len_nonneg _ (qp ++ pp)). destruct (Z.eqb_spec (len (hd ++ qp ++ pp)) 0); [lia|].
    rewrite Ff1, Fle.
    replace (len (hd ++ qp ++ pp)) with (len hd + len (qp ++ pp)) by (rewrite (len_app _ hd); reflexivity).
    rewrite region_exact by (rewrite ?Ehd; lia || reflexivity).
    unfold qp. destruct q.
    + apply rd_param_list; [apply H4; reflexivity|].
      assert (E3 : len (hd ++ qp ++ pp) = len hd + (len qp + len pp)) by (rewrite !len_app; reflexivity).
      subst qp. cbv iota in E3. pose proof (len_nonneg _ pp). pose proof (len_nonneg _ hd). lia.
    + reflexivity.
Qed.

Lemma rt_data_frag : forall e q k n rid wid sn fs fc fz ds qos pl rest,
  wfp (DataFrag q k n rid wid sn fs fc fz ds qos pl) ->
  len (enc_body e (DataFrag q k n rid wid sn fs fc fz ds qos pl)) <= 65535 ->
  fst (parse_data_frag (flags_octet e [q; k; n]) (len (enc_body e (DataFrag q k n rid wid sn fs fc fz ds qos pl)))
                  (enc_body e (DataFrag q k n rid wid sn fs fc fz ds qos pl) ++ rest))
    = Ok (pcanon (DataFrag q k n rid wid sn fs fc fz ds qos pl)).
Proof.
  intros e q k n rid wid sn fs fc fz ds qos pl rest (H1 & H2 & H3 & H4 & H5 & H6 & H7 & H8) HL. use_flags (flags3 e q k n).
  cbn [enc_body pcanon] in *.
  set (qp := if q then enc_param_list e qos else []) in *.
  set (hd := enc_int e 2 0 ++ enc_int e 2 28 ++ rid ++ wid ++ enc_sn e sn ++ enc_int e 4 fs ++ enc_int e 2 fc ++ enc_int e 2 fz ++ enc_int e 4 ds).
  assert (Ehd : length hd = 32%nat).
  { unfold hd. rewrite !app_length, !enc_int_length, H1, H2. pose proof (len_enc_sn e sn) as E. unfold len in E. lia. }
  assert (Ebody : enc_int e 2 0 ++ enc_int e 2 28 ++ rid ++ wid ++ enc_sn e sn ++ enc_int e 4 fs ++ enc_int e 2 fc ++
                  enc_int e 2 fz ++ enc_int e 4 ds ++ qp ++ pl = hd ++ (qp ++ pl)).
  { unfold hd. rewrite <- !app_assoc. reflexivity. }
  rewrite Ebody in *. clear Ebody.
  assert (EL : len (hd ++ qp ++ pl) = 32 + len (qp ++ pl)) by (rewrite len_app; unfold len at 1; rewrite Ehd; reflexivity).
  rewrite <- (app_assoc hd).
  erewrite parse_data_frag_fst with (o2q := 32) (s1 := (qp ++ pl) ++ rest) (qos := if q then map pad_param qos else []) (rest := pl).
  - rewrite Ff1, Ff2, Ff3. reflexivity.
  - rewrite app_assoc. apply shorter_app_false. lia.
  - rewrite app_assoc. apply shorter_app_false. pose proof (len_nonneg _ (qp ++ pl)). lia.
  - rewrite Fle.
    match goal with |- fst (?p (hd ++ ?r)) = _ => assert (G : rd p hd (32, rid, wid, sn, fs, fc, fz, ds)) end; [|apply G].
    unfold hd.
    eapply rd_bind; [apply rd_u16|]. eapply rd_bind; [apply rd_u16|].
    eapply rd_bind; [apply rd_eid; exact H1|]. eapply rd_bind; [apply rd_eid; exact H2|].
    eapply rd_bind; [apply rd_sn; exact H3|]. eapply rd_bind; [apply rd_u32_in; exact H4|].
    eapply rd_bind; [apply rd_u16_in; exact H5|]. eapply rd_bind; [apply rd_u16_in; exact H6|].
    change (28 mod 65536 + 4) with 32.
    apply rd_bind_ret with (g := fun x => (32, rid, wid, sn, fs, fc, fz, x)). apply rd_u32_in; exact H7.
  - pose proof (len_nonneg _ (qp ++ pl)). destruct (Z.eqb_spec (len (hd ++ qp ++ pl)) 0); [lia|].
    apply Z.ltb_ge. lia.
  - pose proof (len_nonneg _ (qp ++ pl)). destruct (Z.eqb_spec (len (hd ++ qp ++ pl)) 0); [lia|].
    rewrite Ff1, Fle.
    replace (len (hd ++ qp ++ pl)) with (len hd + len (qp ++ pl)) by (rewrite (len_app _ hd); reflexivity).
    rewrite region_exact by (rewrite ?Ehd; lia || reflexivity).
    unfold qp. destruct q.
    + apply rd_param_list; [apply H8; reflexivity|].
      assert (E3 : len (hd ++ qp ++ pl) = len hd + (len qp + len pl)) by (rewrite !len_app; reflexivity).
      subst qp. cbv iota in E3. pose proof (len_nonneg _ pl). pose proof (len_nonneg _ hd). lia.
    + reflexivity.
Qed.

(* ------------------------------------------------------------- dispatch and loop *)
Lemma parse_sub_enc : forall e p rest, wfp p -> len (enc_body e p) <= 65535 ->
  fst (parse_sub (sub_id p) (flags_octet e (sub_flags p)) (len (enc_body e p)) (enc_body e p ++ rest)) = Ok (pcanon p).
Proof.
  intros e p rest H HL.
  destruct p; cbn [sub_id sub_flags]; unfold parse_sub, ID_ACKNACK, ID_DATA, ID_DATA_FRAG, ID_GAP, ID_HEARTBEAT,
    ID_HEARTBEAT_FRAG, ID_INFO_DST, ID_INFO_REPLY, ID_INFO_SRC, ID_INFO_TS, ID_NACK_FRAG, ID_PAD;
    cbn [Z.eqb Pos.eqb].
  - apply rt_acknack; exact H.
  - apply rt_data; assumption.
  - apply rt_data_frag; assumption.
  - apply rt_gap; exact H.
  - apply rt_heartbeat; exact H.
  - apply rt_heartbeat_frag; exact H.
  - apply rt_info_dst; exact H.
  - apply rt_info_reply; exact H.
  - apply rt_info_src; exact H.
  - apply rt_info_ts; exact H.
  - apply rt_nack_frag; exact H.
  - reflexivity.
Qed.

Lemma sub_flags_length : forall (p : psub), (length (sub_flags p) <= 4)%nat.
Proof. intros p; destruct p; cbn; lia. Qed.

Lemma is_le_flags : forall e fs, (length fs <= 4)%nat -> is_le (flags_octet e fs) = e.
Proof.
  intros e fs H. destruct fs as [|a [|b [|c [|d [|? ?]]]]]; cbn [length] in H; try lia;
    destruct e; repeat match goal with x : bool |- _ => destruct x end; reflexivity.
Qed.

Lemma enc_len_field : forall e fl L, is_le fl = e -> 0 <= L <= 65535 ->
  exists b2 b3, enc_int e 2 L = [b2; b3] /\ sublen_of fl b2 b3 = L.
Proof.
  intros e fl L He HL. unfold sublen_of. rewrite He. destruct e; unfold enc_int, enc_be; cbn [enc_le rev app].
  - exists (L mod 256), (L / 256 mod 256). split; [reflexivity|lia].
  - exists (L / 256 mod 256), (L mod 256). split; [reflexivity|lia].
Qed.

Lemma is_data_len : forall e p, wfp p -> is_data (pcanon p) = true -> 20 <= len (enc_body e p).
Proof.
  intros e p H Hd. destruct p; cbn in Hd; try discriminate Hd.
  - destruct H as (H1 & H2 & _). cbn [enc_body]. rewrite !len_app, !len_enc_int, len_enc_sn.
    unfold len at 1 2. rewrite H1, H2.
    pose proof (len_nonneg _ (if q then enc_param_list e qos else [])). pose proof (len_nonneg _ (if d || k then payload else [])). lia.
  - destruct H as (H1 & H2 & _). cbn [enc_body]. rewrite !len_app, !len_enc_int, len_enc_sn.
    unfold len at 1 2. rewrite H1, H2.
    pose proof (len_nonneg _ (if q then enc_param_list e qos else [])). pose proof (len_nonneg _ payload). lia.
  - destruct inval; discriminate Hd.
Qed.

Lemma is_data_id_len : forall e (p : psub), wfp p -> is_data_id (sub_id p) = true -> 20 <= len (enc_body e p).
Proof.
  intros e p H Hd. apply (is_data_len e p H). destruct p; cbn in Hd; try discriminate Hd; reflexivity.
Qed.

Definition fits (e : bool) (p : psub) : Prop := len (enc_body e p) <= 65535.

Lemma sub_loop_enc : forall e ps fuel, Forall wfp ps -> Forall (fits e) ps -> (length ps <= fuel)%nat ->
  fst (sub_loop fuel (flat_map (enc_sub e) ps)) = Ok (map pcanon ps).
Proof.
  intros e ps; induction ps as [|p t IH]; intros fuel Hw Hf Hn.
  - destruct fuel; reflexivity.
  - destruct fuel; [cbn [length] in Hn; lia|]. cbn [length] in Hn.
    pose proof (Forall_inv Hw) as Hp. pose proof (Forall_inv_tail Hw) as Hwt.
    pose proof (Forall_inv Hf) as Hl. pose proof (Forall_inv_tail Hf) as Hft. unfold fits in Hl.
    cbn [flat_map map]. unfold enc_sub at 1.
    pose proof (is_le_flags e (sub_flags p) (sub_flags_length p)) as Hle.
    destruct (enc_len_field e _ (len (enc_body e p)) Hle ltac:(pose proof (len_nonneg _ (enc_body e p)); lia)) as (b2 & b3 & E23 & Esl).
    rewrite E23. cbn [app sub_loop]. cbv zeta. rewrite Esl.
    rewrite shorter_app_false by lia.
    assert (Ec : body_len_of (sub_id p) (len (enc_body e p)) (enc_body e p ++ flat_map (enc_sub e) t) = len (enc_body e p)).
    { unfold body_len_of. destruct (is_data_id (sub_id p)) eqn:Ed; [|rewrite andb_false_r; reflexivity].
      pose proof (is_data_id_len e p Hp Ed). destruct (Z.eqb_spec (len (enc_body e p)) 0); [lia|reflexivity]. }
    rewrite Ec. replace (Z.to_nat (len (enc_body e p))) with (length (enc_body e p)) by (unfold len; lia).
    rewrite firstn_app_exact, skipn_app_exact by reflexivity.
    pose proof (parse_sub_enc e p [] Hp Hl) as Hps. rewrite app_nil_r in Hps.
    destruct (parse_sub (sub_id p) (flags_octet e (sub_flags p)) (len (enc_body e p)) (enc_body e p)) as [r0 c0].
    cbn [fst] in Hps. subst r0.
    specialize (IH fuel Hwt Hft ltac:(lia)).
    destruct (sub_loop fuel (flat_map (enc_sub e) t)) as [r1 c1]. cbn [fst] in IH. subst r1. reflexivity.
Qed.

Definition wfh (h : hdr) : Prop :=
  length (h_version h) = 2%nat /\ length (h_vendor h) = 2%nat /\ length (h_prefix h) = 12%nat.

Theorem message_roundtrip_struct : forall e h ps,
  wfh h -> Forall wfp ps -> Forall (fits e) ps -> len ps <= 65536 ->
  parse_message (encode_message e h ps) = Ok (h, map pcanon ps).
Proof.
  intros e [ver ven pre] ps (H1 & H2 & H3) Hw Hf Hn; cbn [h_version h_vendor h_prefix] in *.
  destruct ver as [|v1 [|v2 [|? ?]]]; try discriminate H1.
  destruct ven as [|w1 [|w2 [|? ?]]]; try discriminate H2.
  do 13 (destruct pre as [|? pre]; try discriminate H3).
  unfold parse_message, parse_message_cost, encode_message, enc_hdr, RTPS_MAGIC; cbn [h_version h_vendor h_prefix app].
  rewrite shorter_spec.
  match goal with |- context [len ?l <? 20] => assert (El : 20 <= len l) end.
  { unfold len. cbn [length]. lia. }
  destruct (Z.ltb_spec (len (82 :: 84 :: 80 :: 83 :: v1 :: v2 :: w1 :: w2 :: z :: z0 :: z1 :: z2 :: z3 :: z4 :: z5 :: z6 :: z7 :: z8 :: z9 :: z10 :: flat_map (enc_sub e) ps)) 20); [lia|].
  cbn [firstn skipn list_eqb Z.eqb Pos.eqb andb negb].
  pose proof (sub_loop_enc e ps MAX_SUBMESSAGES Hw Hf) as Hs.
  assert (Hm : (length ps <= MAX_SUBMESSAGES)%nat) by (unfold MAX_SUBMESSAGES, len in *; lia).
  specialize (Hs Hm).
  destruct (sub_loop MAX_SUBMESSAGES (flat_map (enc_sub e) ps)) as [r c]. cbn [fst] in Hs. subst r. reflexivity.
Qed.

Theorem length_fields_exact_struct : forall e ps, Forall (fits e) ps ->
  lengths_exact e (map sub_id ps) (flat_map (enc_sub e) ps) = true.
Proof.
  intros e ps; induction ps as [|p t IH]; intros Hf; [reflexivity|].
  pose proof (Forall_inv Hf) as Hl. pose proof (Forall_inv_tail Hf) as Hft. unfold fits in Hl.
  cbn [flat_map map]. unfold enc_sub at 1.
  pose proof (is_le_flags e (sub_flags p) (sub_flags_length p)) as Hle.
  destruct (enc_len_field e _ (len (enc_body e p)) Hle ltac:(pose proof (len_nonneg _ (enc_body e p)); lia)) as (b2 & b3 & E23 & Esl).
  rewrite E23. cbn [app lengths_exact]. rewrite Esl, Hle, Z.eqb_refl, Bool.eqb_reflx. cbn [andb].
  rewrite len_app. pose proof (len_nonneg _ (flat_map (enc_sub e) t)).
  destruct (Z.leb_spec (len (enc_body e p)) (len (enc_body e p) + len (flat_map (enc_sub e) t))); [|lia]. cbn [andb].
  replace (Z.to_nat (len (enc_body e p))) with (length (enc_body e p)) by (unfold len; lia).
  rewrite skipn_app_exact by reflexivity. apply IH; exact Hft.
Qed.

(* ------------------------------------------------ sets as base + member list *)
Lemma in_i64b_true : forall z, in_i64b z = true -> in_i64 z.
Proof. intros z H; unfold in_i64b in H; apply andb_true_iff in H as [A B]; apply Z.leb_le in A, B; split; assumption. Qed.
Lemma in_i32b_true : forall z, in_i32b z = true -> in_i32 z.
Proof. intros z H; unfold in_i32b in H; apply andb_true_iff in H as [A B]; apply Z.leb_le in A, B; split; assumption. Qed.
Lemma in_u32b_true : forall z, in_u32b z = true -> in_u32 z.
Proof. intros z H; unfold in_u32b in H; apply andb_true_iff in H as [A B]; apply Z.leb_le in A, B; split; assumption. Qed.
Lemma in_u16b_true : forall z, in_u16b z = true -> in_u16 z.
Proof. intros z H; unfold in_u16b in H; apply andb_true_iff in H as [A B]; apply Z.leb_le in A, B; split; assumption. Qed.
Lemma arrb_length : forall n l, arrb n l = true -> length l = n.
Proof. intros n l H; unfold arrb in H; apply andb_true_iff in H as [A _]; apply Nat.eqb_eq; exact A. Qed.

Lemma valid_snsetb_spec : forall s, valid_snsetb s = true ->
  in_i64 (ns_base s) /\ valid_ms (ns_base s) (ns_members s) /\ Forall (fun m => m < i64_max) (ns_members s).
Proof.
  intros s H. unfold valid_snsetb in H. apply andb_true_iff in H as [Hb Hm]. apply in_i64b_true in Hb.
  rewrite forallb_forall in Hm. split; [exact Hb|]. split; apply Forall_forall; intros m Hin; specialize (Hm m Hin);
    apply andb_true_iff in Hm as [Hm H3]; apply andb_true_iff in Hm as [Hm H2]; apply andb_true_iff in Hm as [H1 H0].
  - apply Z.leb_le in H2. apply Z.ltb_lt in H3. lia.
  - apply Z.ltb_lt in H0. exact H0.
Qed.
Lemma valid_fnsetb_spec : forall s, valid_fnsetb s = true ->
  in_u32 (ns_base s) /\ valid_ms (ns_base s) (ns_members s) /\ Forall in_u32 (ns_members s).
Proof.
  intros s H. unfold valid_fnsetb in H. apply andb_true_iff in H as [Hb Hm]. apply in_u32b_true in Hb.
  rewrite forallb_forall in Hm. split; [exact Hb|]. split; apply Forall_forall; intros m Hin; specialize (Hm m Hin);
    apply andb_true_iff in Hm as [Hm H3]; apply andb_true_iff in Hm as [H1 H2].
  - apply Z.leb_le in H2. apply Z.ltb_lt in H3. lia.
  - apply in_u32b_true; exact H1.
Qed.

(* SequenceNumberSet::new on a valid set: a well-formed struct whose iterator lists the
   canonical members *)
Lemma snset_new_valid : forall s, valid_snsetb s = true ->
  exists x, snset_new (ns_base s) (ns_members s) = Ok x /\ wf_snset x /\ ss_base x = ns_base s /\
            snset_members x = Ok (canon_members (ns_members s)).
Proof.
  intros [base ms] H. apply valid_snsetb_spec in H as (Hb & Hv & Hr); cbn [ns_base ns_members] in *.
  unfold snset_new. rewrite snset_new_loop_pure by exact Hv. cbn [bind].
  destruct (new_pure_wf_set base ms Hv) as [Hs Hbits]. cbv zeta in Hs, Hbits.
  pose proof (set_list_new_canon base ms Hv) as Hc. cbv zeta in Hc.
  set (r := new_pure base ms 0 zero_map) in *.
  eexists; split; [reflexivity|]. split; [|split; [reflexivity|]].
  - split; [exact Hb|apply wf_set_map; exact Hs].
  - unfold snset_members; cbn [ss_base ss_bits ss_map].
    rewrite snset_members_from_list; [rewrite Hc; reflexivity|].
    intros j Hj Hbit. destruct Hs as [_ Hn _ _].
    apply Hbits in Hbit; [|lia]. rewrite Forall_forall in Hr. specialize (Hr _ Hbit). cbv beta in Hr. lia.
Qed.
Lemma fnset_new_valid : forall s, valid_fnsetb s = true ->
  exists x, fnset_new (ns_base s) (ns_members s) = Ok x /\ wf_fnset x /\ fs_base x = ns_base s /\
            fnset_members x = Ok (canon_members (ns_members s)).
Proof.
  intros [base ms] H. apply valid_fnsetb_spec in H as (Hb & Hv & Hr); cbn [ns_base ns_members] in *.
  unfold fnset_new. rewrite fnset_new_loop_pure by exact Hv. cbn [bind].
  destruct (new_pure_wf_set base ms Hv) as [Hs Hbits]. cbv zeta in Hs, Hbits.
  pose proof (set_list_new_canon base ms Hv) as Hc. cbv zeta in Hc.
  set (r := new_pure base ms 0 zero_map) in *.
  assert (Ho : forall j, 0 <= j < fst r -> bit_set (snd r) j = true -> base + j <= u32_max).
  { intros j Hj Hbit. destruct Hs as [_ Hn _ _].
    apply Hbits in Hbit; [|lia]. rewrite Forall_forall in Hr. specialize (Hr _ Hbit). unfold in_u32 in Hr. lia. }
  eexists; split; [reflexivity|]. split; [|split; [reflexivity|]].
  - split; [exact Hb|]. split; [exact Hs|]. cbn [fs_base fs_bits fs_map]. exact Ho.
  - unfold fnset_members; cbn [fs_base fs_bits fs_map].
    rewrite members_from_list; [rewrite Hc; reflexivity|].
    intros j Hj Hbit. apply Ho; [lia|exact Hbit].
Qed.

(* ------------------------------------------- encoded lengths do not depend on e *)
Lemma len_enc_words : forall e ws, len (enc_words e ws) = 4 * len ws.
Proof.
  intros e ws; induction ws as [|w t IH]; cbn [enc_words flat_map]; [reflexivity|].
  fold (enc_words e t). rewrite len_app, len_enc_int, IH, len_cons. lia.
Qed.
Lemma len_enc_snset : forall e s, len (enc_snset e s) = len (enc_snset true s).
Proof. intros; unfold enc_snset; rewrite !len_app, !len_enc_sn, !len_enc_int, !len_enc_words; reflexivity. Qed.
Lemma len_enc_fnset : forall e s, len (enc_fnset e s) = len (enc_fnset true s).
Proof. intros; unfold enc_fnset; rewrite !len_app, !len_enc_int, !len_enc_words; reflexivity. Qed.
Lemma len_enc_params : forall e ps, len (enc_param_list e ps) = len (enc_param_list true ps).
Proof.
  intros e ps; unfold enc_param_list. rewrite !len_app, !len_enc_int. f_equal.
  induction ps as [|p t IH]; cbn [flat_map]; [reflexivity|].
  rewrite !len_app, IH. unfold enc_param. rewrite !len_app, !len_enc_int. reflexivity.
Qed.
Lemma len_enc_loclist : forall e ls, len (enc_locator_list e ls) = len (enc_locator_list true ls).
Proof.
  intros e ls; unfold enc_locator_list. rewrite !len_app, !len_enc_int. f_equal.
  induction ls as [|l t IH]; cbn [flat_map]; [reflexivity|].
  rewrite !len_app, IH. unfold enc_locator. rewrite !len_app, !len_enc_int. reflexivity.
Qed.
Lemma len_enc_body : forall e p, len (enc_body e p) = len (enc_body true p).
Proof.
  intros e p; destruct p; cbn [enc_body]; try reflexivity;
    repeat rewrite len_app; rewrite ?len_enc_int, ?len_enc_sn; try reflexivity.
  - rewrite (len_enc_snset e). reflexivity.
  - destruct q; [rewrite (len_enc_params e)|]; reflexivity.
  - destruct q; [rewrite (len_enc_params e)|]; reflexivity.
  - rewrite (len_enc_snset e). reflexivity.
  - rewrite (len_enc_loclist e uni). destruct mflag; [rewrite (len_enc_loclist e multi)|]; reflexivity.
  - destruct inval; [reflexivity|]. rewrite !len_app, !len_enc_int. reflexivity.
  - rewrite (len_enc_fnset e). reflexivity.
Qed.

(* ------------------------------------------------------- one submessage, user level *)
Lemma wf_params_of : forall qos, forallb wf_paramb qos = true -> existsb param_too_long qos = false ->
  Forall wf_param qos.
Proof.
  intros qos H1 H2. apply Forall_forall. intros p Hp.
  rewrite forallb_forall in H1. specialize (H1 p Hp).
  assert (H3 : param_too_long p = false).
  { destruct (param_too_long p) eqn:E; [|reflexivity].
    assert (existsb param_too_long qos = true) by (apply existsb_exists; exists p; auto). congruence. }
  unfold wf_paramb in H1. repeat (apply andb_true_iff in H1 as [H1 ?]).
  unfold wf_param, param_too_long in *. apply Z.ltb_ge in H3.
  repeat split; try (apply Z.leb_le; assumption); try assumption.
  intros E. rewrite E in H0. discriminate.
Qed.

Ltac split_wf H :=
  repeat match type of H with
         | (_ && _) = true => let H' := fresh "W" in apply andb_true_iff in H as [H H']
         end.

Ltac wf_leaf :=
  first [ apply arrb_length; assumption | apply in_i32b_true; assumption | apply in_i64b_true; assumption
        | apply in_u32b_true; assumption | apply in_u16b_true; assumption | assumption ].
Ltac wf_conj := repeat match goal with |- _ /\ _ => split end; try wf_leaf.

Lemma build_sub_ok : forall e s, wf_subb s = true -> C08_known_len s = false ->
  exists p, build_sub s = Ok p /\ wfp p /\ fits e p /\ observe_sub (pcanon p) = Ok (canon_sub s) /\ sub_id p = sub_id s.
Proof.
  intros e s Hw Hk.
  unfold C08_known_len in Hk. apply orb_false_iff in Hk as [Hlen Hq]. apply Z.ltb_ge in Hlen. unfold body_len in Hlen.
  assert (Fit : forall p, build_sub s = Ok p -> fits e p).
  { intros p Hp. rewrite Hp in Hlen. unfold fits. rewrite len_enc_body. exact Hlen. }
  destruct s; cbn [wf_subb] in Hw; cbn [qos_of] in Hq.
  - (* AckNack *) split_wf Hw.
    destruct (snset_new_valid state ltac:(assumption)) as (x & Hx & Hwx & Hbx & Hmx).
    exists (AckNack final rid wid x count). cbn [build_sub]. rewrite Hx. cbn [bind].
    split; [reflexivity|]. split; [|split; [apply Fit; cbn [build_sub]; rewrite Hx; reflexivity|]].
    + cbn [wfp]. wf_conj.
    + cbn [pcanon observe_sub canon_sub sub_id]. rewrite Hmx, Hbx. cbn [bind]. split; reflexivity.
  - (* Data *) split_wf Hw.
    exists (Data q d k n rid wid sn qos payload). split; [reflexivity|]. split; [|split; [apply Fit; reflexivity|split; reflexivity]].
    cbn [wfp]. wf_conj.
    intros ->. apply wf_params_of; assumption.
  - (* DataFrag *) split_wf Hw.
    exists (DataFrag q k n rid wid sn fstart fcount fsize dsize qos payload).
    split; [reflexivity|]. split; [|split; [apply Fit; reflexivity|split; reflexivity]].
    cbn [wfp]. wf_conj.
    intros ->. apply wf_params_of; assumption.
  - (* Gap *) split_wf Hw.
    destruct (snset_new_valid gl ltac:(assumption)) as (x & Hx & Hwx & Hbx & Hmx).
    exists (Gap rid wid start x). cbn [build_sub]. rewrite Hx. cbn [bind].
    split; [reflexivity|]. split; [|split; [apply Fit; cbn [build_sub]; rewrite Hx; reflexivity|]].
    + cbn [wfp]. wf_conj.
    + cbn [pcanon observe_sub canon_sub sub_id]. rewrite Hmx, Hbx. cbn [bind]. split; reflexivity.
  - (* Heartbeat *) split_wf Hw.
    exists (Heartbeat final live rid wid first last count). split; [reflexivity|]. split; [|split; [apply Fit; reflexivity|split; reflexivity]].
    cbn [wfp]. wf_conj.
  - (* HeartbeatFrag *) split_wf Hw.
    exists (HeartbeatFrag rid wid sn lastfrag count). split; [reflexivity|]. split; [|split; [apply Fit; reflexivity|split; reflexivity]].
    cbn [wfp]. wf_conj.
  - (* InfoDst *)
    exists (InfoDst prefix). split; [reflexivity|]. split; [|split; [apply Fit; reflexivity|split; reflexivity]].
    cbn [wfp]. apply arrb_length; exact Hw.
  - (* InfoReply *) split_wf Hw.
    exists (InfoReply mflag uni multi). split; [reflexivity|]. split; [|split; [apply Fit; reflexivity|split; reflexivity]].
    assert (WL : forall ls, forallb wf_locb ls = true -> Forall wf_loc ls).
    { intros ls Hls. apply Forall_forall. intros l Hl. rewrite forallb_forall in Hls. specialize (Hls l Hl).
      unfold wf_locb in Hls. split_wf Hls. unfold wf_loc. wf_conj. }
    cbn [wfp]. split; [apply WL; assumption|]. split; [apply Z.leb_le; assumption|].
    intros _. split; [apply WL; assumption|apply Z.leb_le; assumption].
  - (* InfoSrc *) split_wf Hw.
    exists (InfoSrc version vendor prefix). split; [reflexivity|]. split; [|split; [apply Fit; reflexivity|split; reflexivity]].
    cbn [wfp]. wf_conj.
  - (* InfoTs *) split_wf Hw.
    exists (InfoTs inval sec frac). split; [reflexivity|]. split; [|split; [apply Fit; reflexivity|]].
    + cbn [wfp]. wf_conj.
    + cbn [pcanon canon_sub sub_id]. destruct inval; split; reflexivity.
  - (* NackFrag *) split_wf Hw.
    destruct (fnset_new_valid fstate ltac:(assumption)) as (x & Hx & Hwx & Hbx & Hmx).
    exists (NackFrag rid wid sn x count). cbn [build_sub]. rewrite Hx. cbn [bind].
    split; [reflexivity|]. split; [|split; [apply Fit; cbn [build_sub]; rewrite Hx; reflexivity|]].
    + cbn [wfp]. wf_conj.
    + cbn [pcanon observe_sub canon_sub sub_id]. rewrite Hmx, Hbx. cbn [bind]. split; reflexivity.
  - (* Pad *)
    exists Pad. split; [reflexivity|]. split; [exact I|]. split; [apply Fit; reflexivity|split; reflexivity].
Qed.

(* --------------------------------------------------------------- whole messages *)
Lemma mapM_build : forall e subs,
  forallb wf_subb subs = true -> existsb C08_known_len subs = false ->
  exists ps, mapM build_sub subs = Ok ps /\ Forall wfp ps /\ Forall (fits e) ps /\
             map observe_sub (map pcanon ps) = map (fun s => Ok (canon_sub s)) subs /\
             map sub_id ps = map sub_id subs /\ length ps = length subs.
Proof.
  intros e subs; induction subs as [|s t IH]; intros Hw Hk.
  - exists []. repeat split; constructor.
  - cbn [forallb existsb] in *. apply andb_true_iff in Hw as [Hw1 Hw2].
    apply orb_false_iff in Hk as [Hk1 Hk2].
    destruct (IH Hw2 Hk2) as (ps & E & F1 & F2 & M1 & M2 & L).
    destruct (build_sub_ok e s Hw1 Hk1) as (p & Ep & Wp & Fp & Op & Ip).
    exists (p :: ps). cbn [mapM]. rewrite Ep, E. cbn [bind].
    split; [reflexivity|]. split; [constructor; assumption|]. split; [constructor; assumption|].
    cbn [map length]. rewrite Op, M1, Ip, M2, L. repeat split; reflexivity.
Qed.

Lemma wf_hdrb_wfh : forall h, wf_hdrb h = true -> wfh h.
Proof.
  intros h H. unfold wf_hdrb in H. apply andb_true_iff in H as [H H3]. apply andb_true_iff in H as [H1 H2].
  repeat split; apply arrb_length; assumption.
Qed.

Theorem message_roundtrip : forall e h subs,
  wf_hdrb h = true -> forallb wf_subb subs = true -> len subs <= 65536 ->
  existsb C08_known_len subs = false ->
  exists bytes,
    encode_umessage e h subs = Ok bytes /\
    parse_observe bytes = Ok (h, map (fun s => Ok (canon_sub s)) subs) /\
    lengths_exact e (map sub_id subs) (skipn 20 bytes) = true.
Proof.
  intros e h subs Hh Hw Hn Hk.
  destruct (mapM_build e subs Hw Hk) as (ps & E & F1 & F2 & M1 & M2 & L).
  apply wf_hdrb_wfh in Hh.
  exists (encode_message e h ps). unfold encode_umessage. rewrite E. cbn [bind].
  split; [reflexivity|]. split.
  - unfold parse_observe. rewrite message_roundtrip_struct; auto.
    + cbn [bind fst snd]. rewrite M1. reflexivity.
    + unfold len in *. lia.
  - unfold encode_message. rewrite skipn_app_exact.
    + rewrite <- M2. apply length_fields_exact_struct; exact F2.
    + destruct Hh as (H1 & H2 & H3). unfold enc_hdr, RTPS_MAGIC. rewrite !app_length, H1, H2, H3. reflexivity.
Qed.

(* -------------------------------------- outside the class the round trip is false *)
Definition big_data : usub := Data false true false false [1;2;3;4] [5;6;7;8] 1 [] (repeat 170 (Z.to_nat 70000)).
Definition hb : usub := Heartbeat true false [1;2;3;4] [5;6;7;8] 1 1 1.
Definition h0 : hdr := mk_hdr [2;3] [1;2] [0;1;2;3;4;5;6;7;8;9;10;11].
Definition big_bytes : list Z := match encode_umessage true h0 [big_data; hb] with Ok b => b | _ => [] end.
Definition dec_count (d : res (hdr * list (res usub))) : Z := match d with Ok (_, l) => len l | _ => -1 end.

(* a 70 000-byte DATA followed by a HEARTBEAT: well-formed, in the truncation class, and the
   real layout does not decode back (the decoder finds one submessage, not two) *)
Lemma roundtrip_refuted_big :
  wf_hdrb h0 = true /\ forallb wf_subb [big_data; hb] = true /\ C08_known_len big_data = true /\
  encode_umessage true h0 [big_data; hb] = Ok big_bytes /\
  parse_observe big_bytes <> Ok (h0, map (fun s => Ok (canon_sub s)) [big_data; hb]) /\
  lengths_exact true (map sub_id [big_data; hb]) (skipn 20 big_bytes) = false.
Proof.
  split; [vm_compute; reflexivity|]. split; [vm_compute; reflexivity|]. split; [vm_compute; reflexivity|].
  split.
  { assert (Hok : is_ok (encode_umessage true h0 [big_data; hb]) = true) by (vm_compute; reflexivity).
    unfold big_bytes. destruct (encode_umessage true h0 [big_data; hb]); [reflexivity|discriminate|discriminate]. }
  split.
  - intros H. apply (f_equal dec_count) in H. vm_compute in H. discriminate H.
  - vm_compute. reflexivity.
Qed.

(* regression of the repaired INFO_REPLY defect (4006ca4): with the multicast flag set, both
   locator lists come back *)
Definition reply_m : usub := InfoReply true [mk_loc 1 7400 (repeat 0 16)] [mk_loc 1 7401 (repeat 239 16)].
