(* C06 — composition with the decoder theorems of C07: no decoder hypothesis is left, and the
   bytes a datagram can add to a fragment buffer are bounded by its length. *)
From DustDDS Require Import Base.Machine Base.Bytes Wire.WireModel Wire.WireProofs Wire.WireTotalProofs
  Wire.WireMemProofs Wire.RecvModel Wire.RecvProofs Wire.RecvRangeProofs.
Open Scope Z_scope.

Lemma param_mem_nonneg : forall ps, 0 <= sumZ (map param_mem ps).
Proof.
  induction ps as [|p t IH]; [cbn; lia|]. cbn [map sumZ]. unfold param_mem at 1, PARAM_SIZE, ARC_HDR.
  pose proof (len_nonneg _ (p_val p)). lia.
Qed.
Lemma frag_bytes_sub_le_mem : forall m : psub, frag_bytes_sub m <= sub_mem m.
Proof.
  intros m. destruct m; unfold sub_mem; cbn [frag_bytes_sub]; unfold SUB_SIZE, ARC_HDR, LOC_SIZE;
    try (pose proof (param_mem_nonneg qos)); try (pose proof (len_nonneg _ payload));
    try (pose proof (len_nonneg _ uni); pose proof (len_nonneg _ multi)); lia.
Qed.
Lemma frag_bytes_le_mem : forall l : list psub, frag_bytes l <= msg_mem l.
Proof.
  induction l as [|m t IH]; [cbn; lia|]. unfold frag_bytes, msg_mem in *. cbn [map sumZ].
  pose proof (frag_bytes_sub_le_mem m). lia.
Qed.

Theorem frag_bytes_linear : forall bytes, 0 <= frag_bytes (subs_of bytes) <= 26 * len bytes.
Proof.
  intros bytes. split; [apply frag_bytes_nonneg|]. unfold subs_of. pose proof (len_nonneg _ bytes) as Hb.
  destruct (parse_message bytes) as [[h l]|e|x] eqn:E.
  - pose proof (decoded_memory_linear bytes h l E). pose proof (frag_bytes_le_mem l). lia.
  - unfold frag_bytes; cbn [map sumZ]. lia.
  - unfold frag_bytes; cbn [map sumZ]. lia.
Qed.

Theorem handle_datagram_total : forall C st bytes,
  InvC C st -> C + 26 * len bytes <= FRAG_CAP -> bytes_ok bytes ->
  exists st' o, handle_datagram st bytes = Ok (st', o) /\ InvC (C + 26 * len bytes) st' /\
                length (ps_readers st') = length (ps_readers st).
Proof.
  intros C st bytes HI HC HK. pose proof (frag_bytes_linear bytes) as [F0 F1].
  destruct (handle_datagram_ok C st bytes HI ltac:(lia) (parse_message_total bytes) (decoded_in_range bytes HK)) as (st' & o & E1 & E2 & E3).
  exists st', o. split; [exact E1|]. split; [|exact E3]. eapply InvC_weaken; [|exact E2]. lia.
Qed.

Lemma total_frag_bytes_linear : forall ds, total_frag_bytes ds <= 26 * sumZ (map (@len Z) ds).
Proof.
  induction ds as [|d t IH]; [cbn; lia|]. unfold total_frag_bytes in *. cbn [map sumZ].
  pose proof (frag_bytes_linear d). lia.
Qed.

(* every sequence of datagrams outside the classes *)
Theorem run_datagrams_total : forall ds C st,
  InvC C st -> C + 26 * sumZ (map (@len Z) ds) <= FRAG_CAP -> Forall bytes_ok ds ->
  exists st', run_datagrams st ds = Ok st' /\ InvC (C + 26 * sumZ (map (@len Z) ds)) st'.
Proof.
  intros ds C st HI HC HF. pose proof (total_frag_bytes_linear ds) as HL.
  destruct (run_datagrams_ok ds C st HI ltac:(lia)) as (st' & E1 & E2).
  { eapply Forall_impl; [|exact HF]. intros d Hd. split; [apply parse_message_total|apply decoded_in_range; exact Hd]. }
  exists st'. split; [exact E1|]. eapply InvC_weaken; [|exact E2]. lia.
Qed.

Theorem datagram_steps_bounded : forall C st bytes, 0 <= C ->
  InvC C st -> C + 26 * len bytes <= FRAG_CAP -> bytes_ok bytes ->
  0 <= datagram_steps st bytes <= steps_bound (len (subs_of bytes)) (len (ps_readers st)) (C + 26 * len bytes).
Proof.
  intros C st bytes HC0 HI HC HK. pose proof (frag_bytes_linear bytes) as [F0 F1].
  pose proof (datagram_steps_bound C st bytes HC0 HI ltac:(lia) (decoded_in_range bytes HK)) as [S0 S1]. split; [exact S0|].
  eapply Z.le_trans; [exact S1|]. unfold steps_bound.
  pose proof (len_nonneg _ (subs_of bytes)). pose proof (len_nonneg _ (ps_readers st)).
  pose proof (step_cap_mono (C + frag_bytes (subs_of bytes)) (C + 26 * len bytes) ltac:(lia)) as M.
  fold (step_cap (C + frag_bytes (subs_of bytes))). fold (step_cap (C + 26 * len bytes)).
  apply Z.mul_le_mono_nonneg_l; [apply Z.mul_nonneg_nonneg; lia|exact M].
Qed.

(* the reassembly buffers a datagram makes the handlers fill hold bytes that were RECEIVED: at most
   (bytes already buffered + 26 per datagram byte) per submessage and reader, whatever data_size,
   fragment_size and fragment counts announce *)
Theorem datagram_alloc_bounded : forall C st bytes, 0 <= C ->
  InvC C st -> C + 26 * len bytes <= FRAG_CAP -> bytes_ok bytes ->
  0 <= datagram_alloc st bytes <= alloc_bound (len (subs_of bytes)) (len (ps_readers st)) (C + 26 * len bytes).
Proof.
  intros C st bytes HC0 HI HC HK. pose proof (frag_bytes_linear bytes) as [F0 F1].
  pose proof (datagram_alloc_bound C st bytes HC0 HI ltac:(lia) (decoded_in_range bytes HK)) as [S0 S1]. split; [exact S0|].
  eapply Z.le_trans; [exact S1|]. unfold alloc_bound.
  pose proof (len_nonneg _ (subs_of bytes)). pose proof (len_nonneg _ (ps_readers st)).
  apply Z.mul_le_mono_nonneg_l; [apply Z.mul_nonneg_nonneg; lia|lia].
Qed.
