(* C06 — proofs about Wire/RecvModel.v: the handlers never panic outside the known classes,
   keep the invariant, and only touch the proxies of the participants a datagram speaks for. *)
From DustDDS Require Import Base.Machine Base.Bytes Wire.WireModel Wire.WireProofs Wire.WireSetsProofs
  Wire.RecvModel.
Open Scope Z_scope.

Ltac unf_consts := unfold i64_max, i64_min, u32_max, FRAG_CAP in *.
Ltac sw := cbn [wp_guid wp_first wp_last wp_high wp_must wp_hb wp_hbf wp_an wp_nf wp_frags set_wp_high set_wp_first set_wp_frags set_wp_hbf] in *.
Ltac wpk := unfold wproxy_ok in *; sw.

(* ------------------------------------------------------------ small arithmetic *)
Lemma add1_ok : forall site x, x < i64_max -> add1 site x = Ok (x + 1).
Proof. intros site x H. unfold add1. destruct (Z.leb_spec (x + 1) i64_max); [reflexivity|lia]. Qed.
Lemma sub1_ok : forall site x, i64_min < x -> sub1 site x = Ok (x - 1).
Proof. intros site x H. unfold sub1. destruct (Z.leb_spec i64_min (x - 1)); [reflexivity|lia]. Qed.

Lemma In_ziota : forall n j, 0 <= j < n -> In j (ziota n).
Proof.
  intros n j H. unfold ziota. apply in_map_iff. exists (Z.to_nat j). split; [lia|].
  apply in_seq. lia.
Qed.

(* ------------------------------------------------------------------ fragments *)
Lemma frag_weight_cons : forall f t, frag_weight (f :: t) = fr_len f + 1 + frag_weight t.
Proof. reflexivity. Qed.
Lemma frag_sum_cons : forall f t, frag_sum (f :: t) = fr_count f + frag_sum t.
Proof. reflexivity. Qed.
Lemma frag_weight_nonneg : forall l, Forall frag_ok l -> 0 <= frag_weight l.
Proof.
  induction l as [|f t IH]; intros H; [cbn; lia|]. rewrite frag_weight_cons.
  inversion H as [|? ? Hf Ht]; subst. destruct Hf as (_ & _ & Hl). specialize (IH Ht). lia.
Qed.
Lemma frag_weight_filter : forall g l, Forall frag_ok l -> frag_weight (filter g l) <= frag_weight l.
Proof.
  intros g; induction l as [|f t IH]; intros H; [cbn; lia|]. cbn [filter]. rewrite frag_weight_cons.
  inversion H as [|? ? Hf Ht]; subst. destruct Hf as (_ & _ & Hl). specialize (IH Ht).
  destruct (g f); [rewrite frag_weight_cons|]; lia.
Qed.
Lemma Forall_filter : forall A (P : A -> Prop) g (l : list A), Forall P l -> Forall P (filter g l).
Proof.
  intros A P g l H. apply Forall_forall. intros x Hx. apply filter_In in Hx as [Hx _].
  rewrite Forall_forall in H. auto.
Qed.
Lemma frag_weight_app : forall a b, frag_weight (a ++ b) = frag_weight a + frag_weight b.
Proof.
  induction a as [|f t IH]; intros b; [reflexivity|]. cbn [app]. rewrite !frag_weight_cons, IH. lia.
Qed.
Lemma frag_sum_le_weight : forall g l, Forall frag_ok l -> frag_sum (filter g l) <= frag_weight l.
Proof.
  intros g; induction l as [|f t IH]; intros H; [cbn; lia|]. cbn [filter]. rewrite frag_weight_cons.
  inversion H as [|? ? Hf Ht]; subst. destruct Hf as (Hc & _ & Hl). specialize (IH Ht).
  destruct (g f); [rewrite frag_sum_cons|]; lia.
Qed.
Lemma len_le_weight : forall l, Forall frag_ok l -> len l <= frag_weight l.
Proof.
  induction l as [|f t IH]; intros H; [cbn; lia|]. rewrite len_cons, frag_weight_cons.
  inversion H as [|? ? Hf Ht]; subst. destruct Hf as (_ & _ & Hl). specialize (IH Ht). lia.
Qed.
Lemma find_In : forall A (g : A -> bool) l x, find g l = Some x -> In x l /\ g x = true.
Proof. intros. apply find_some; auto. Qed.

(* ----------------------------------------------------------- the writer proxy *)
Section Proxy.
Variable C : Z.
Hypothesis HC : C <= FRAG_CAP.

Lemma wp_weaken : forall C' p, C <= C' -> wproxy_ok C p -> wproxy_ok C' p.
Proof. intros C' p H (A & B & D & E). repeat split; try tauto; lia. Qed.

Lemma avail_max_ok : forall p, wproxy_ok C p ->
  avail_max p = Ok (Z.max (wp_first p - 1) (wp_high p)).
Proof. intros p (A & _). unfold avail_max. rewrite sub1_ok by lia. reflexivity. Qed.
Lemma expected_ok : forall p, wproxy_ok C p ->
  expected p = Ok (Z.max (wp_first p - 1) (wp_high p) + 1).
Proof.
  intros p H. unfold expected. rewrite (avail_max_ok p H). cbn [bind].
  destruct H as (A & B & _). apply add1_ok. lia.
Qed.
Lemma first_missing_ok : forall p, wproxy_ok C p ->
  first_missing p = Ok (Z.max (wp_first p) (wp_high p + 1)).
Proof. intros p (_ & B & _). unfold first_missing. rewrite add1_ok by lia. reflexivity. Qed.
Lemma missing_count_ok : forall p, wproxy_ok C p -> exists n, missing_count p = Ok n.
Proof. intros p H. unfold missing_count. rewrite (first_missing_ok p H). eexists; reflexivity. Qed.

(* fields other than the sequence-number state do not matter for wproxy_ok *)
Lemma wp_ok_fields : forall g f l h m hb hbf an nf fr g' m' hb' hbf' an' nf',
  wproxy_ok C (mk_wp g f l h m hb hbf an nf fr) -> wproxy_ok C (mk_wp g' f l h m' hb' hbf' an' nf' fr).
Proof. intros. exact H. Qed.

Lemma raise_high_ok : forall p x, wproxy_ok C p -> x < i64_max -> wproxy_ok C (raise_high p x).
Proof.
  intros p x H Hx. unfold raise_high. destruct (Z.ltb_spec (wp_high p) x); [|exact H].
  destruct p as [g0 fi0 l0 h0 m0 hb0 hbf0 an0 nf0 fr0]; destruct H as (A & B & D & E); wpk. repeat split; try tauto; lia.
Qed.
Lemma raise_high_guid : forall p x, wp_guid (raise_high p x) = wp_guid p.
Proof. intros. unfold raise_high. destruct (_ <? _); reflexivity. Qed.
Lemma raise_high_frags : forall p x, wp_frags (raise_high p x) = wp_frags p.
Proof. intros. unfold raise_high. destruct (_ <? _); reflexivity. Qed.
Lemma raise_high_first : forall p x, wp_first (raise_high p x) = wp_first p.
Proof. intros. unfold raise_high. destruct (_ <? _); reflexivity. Qed.
Lemma fold_raise_ok : forall ms p, wproxy_ok C p -> Forall (fun m => m < i64_max) ms ->
  wproxy_ok C (fold_left raise_high ms p).
Proof.
  induction ms as [|m t IH]; intros p H Hm; cbn [fold_left]; [exact H|].
  inversion Hm; subst. apply IH; [apply raise_high_ok; auto|auto].
Qed.
Lemma fold_raise_guid : forall ms p, wp_guid (fold_left raise_high ms p) = wp_guid p.
Proof. induction ms as [|m t IH]; intros p; cbn [fold_left]; [reflexivity|]. rewrite IH. apply raise_high_guid. Qed.

Lemma received_set_ok : forall p x, wproxy_ok C p -> x < i64_max -> wproxy_ok C (received_set p x).
Proof.
  intros p x H Hx. unfold received_set. pose proof (raise_high_ok p x H Hx) as H1.
  destruct (raise_high p x) as [g f l h m hb hbf an nf fr]. destruct H1 as (A & B & D & E); wpk.
  repeat split; try tauto; try lia.
  - apply Forall_filter; exact D.
  - pose proof (frag_weight_filter (fun f0 => x <? fr_sn f0) fr D). lia.
Qed.
Lemma received_set_guid : forall p x, wp_guid (received_set p x) = wp_guid p.
Proof. intros. unfold received_set. cbn. apply raise_high_guid. Qed.

Lemma on_data_proxy_ok : forall rel s p, wproxy_ok C p -> s < i64_max ->
  exists p', on_data_proxy rel s p = Ok p' /\ wproxy_ok C p' /\ wp_guid p' = wp_guid p.
Proof.
  intros rel s p H Hs. unfold on_data_proxy. rewrite (expected_ok p H). cbn [bind].
  set (e := Z.max (wp_first p - 1) (wp_high p) + 1).
  assert (He : i64_min < e) by (destruct H as (A & B & _); subst e; lia).
  destruct rel.
  - eexists; split; [reflexivity|]. destruct (s =? e); [|auto].
    split; [apply received_set_ok; auto|apply received_set_guid].
  - destruct (Z.leb_spec e s); [|eexists; split; [reflexivity|auto]].
    eexists; split; [reflexivity|].
    pose proof (received_set_ok p s H Hs) as H1. pose proof (received_set_guid p s) as G.
    destruct (Z.ltb_spec e s); [|auto].
    destruct (received_set p s) as [g f l h m hb hbf an nf fr]; wpk.
    split; [|exact G]. destruct H1 as (A & B & D & E); wpk. repeat split; try tauto; lia.
Qed.

(* write_message *)
Lemma write_message_ok : forall reid p, wproxy_ok C p ->
  exists p' o, write_message reid p = Ok (p', o) /\ wproxy_ok C p' /\ wp_guid p' = wp_guid p.
Proof.
  intros reid p H. unfold write_message. destruct (wp_must p).
  - set (p1 := mk_wp _ _ _ _ false _ _ _ _ _).
    assert (H1 : wproxy_ok C p1) by (destruct p as [g0 fi0 l0 h0 m0 hb0 hbf0 an0 nf0 fr0]; exact H).
    rewrite (first_missing_ok p1 H1). cbn [bind]. rewrite (avail_max_ok p1 H1). cbn [bind].
    destruct H1 as (A & B & D & E). rewrite add1_ok by (cbn [wp_first wp_high p1] in *; lia). cbn [bind].
    destruct (find _ (range_take _ _ _)) as [s|]; [|do 2 eexists; split; [reflexivity|split; [exact (conj A (conj B (conj D E)))|reflexivity]]].
    destruct (find (fun f => fr_sn f =? s) (wp_frags p1)) as [f|] eqn:Ef;
      [|do 2 eexists; split; [reflexivity|split; [exact (conj A (conj B (conj D E)))|reflexivity]]].
    apply find_In in Ef as [Hin _]. rewrite Forall_forall in D. destruct (D f Hin) as (_ & Hz & _).
    destruct (Z.eqb_spec (fr_size f) 0); [contradiction|].
    do 2 eexists; split; [reflexivity|]. split; [|reflexivity].
    repeat split; try tauto. apply Forall_forall; exact D.
  - rewrite (first_missing_ok p H). cbn [bind]. do 2 eexists; split; [reflexivity|auto].
Qed.

Lemma hb_proxy_ok : forall reid final live first last count p, wproxy_ok C p ->
  i64_min < first <= i64_max ->
  exists p' o, hb_proxy reid final live first last count p = Ok (p', o) /\ wproxy_ok C p' /\ wp_guid p' = wp_guid p.
Proof.
  intros reid final live first last count p H Hf. unfold hb_proxy.
  destruct (wp_hb p <? count); [|do 2 eexists; split; [reflexivity|auto]].
  set (p1 := mk_wp _ first last _ _ count _ _ _ _).
  assert (H1 : wproxy_ok C p1) by (destruct p as [g0 fi0 l0 h0 m0 hb0 hbf0 an0 nf0 fr0]; destruct H as (A & B & D & E); wpk; repeat split; try tauto; lia).
  assert (exists must, (if negb final then Ok true else if live then Ok false
                        else mc <- missing_count p1;; Ok (0 <? mc)) = Ok must) as [must Hm].
  { destruct final; cbn [negb]; [|eexists; reflexivity]. destruct live; [eexists; reflexivity|].
    destruct (missing_count_ok p1 H1) as [n Hn]. rewrite Hn. eexists; reflexivity. }
  rewrite Hm. cbn [bind].
  match goal with |- context [write_message reid ?q] =>
    destruct (write_message_ok reid q) as (p' & o & E1 & E2 & E3); [exact H1|] end.
  exists p', o. split; [exact E1|]. split; [exact E2|]. rewrite E3. reflexivity.
Qed.

Lemma probe_all_ok : forall l, Forall (wproxy_ok C) l -> probe_all l = Ok tt.
Proof.
  induction l as [|p t IH]; intros H; cbn [probe_all]; [reflexivity|]. inversion H; subst.
  unfold is_hist. destruct (0 <? wp_hb p).
  - destruct (missing_count_ok p H2) as [n Hn]. rewrite Hn. cbn [bind]. destruct (n =? 0); auto.
  - reflexivity.
Qed.

(* sets *)
Lemma sn_members_from_lt : forall base ws n i, Forall (fun m => m < i64_max) (sn_members_from base ws n i).
Proof.
  intros base ws n; induction n as [|k IH]; intros i; cbn [sn_members_from]; [constructor|].
  destruct (bit_set ws i); [|apply IH].
  destruct (Z.ltb_spec (base + i) i64_max); [constructor; [assumption|apply IH]|constructor].
Qed.
Lemma sn_members_lt : forall s, Forall (fun m => m < i64_max) (sn_members s).
Proof. intros s. apply sn_members_from_lt. Qed.

Lemma raise_range_ok : forall p first last, wproxy_ok C p -> last < i64_max ->
  exists p', raise_range p first last = Ok p' /\ wproxy_ok C p' /\ wp_guid p' = wp_guid p.
Proof.
  intros p first last H Hl. unfold raise_range. rewrite (avail_max_ok p H). cbn [bind].
  eexists; split; [reflexivity|]. destruct (_ <=? _); cbn [andb]; [|auto].
  destruct (Z.ltb_spec (wp_high p) last); [|auto].
  destruct p as [g0 fi0 l0 h0 m0 hb0 hbf0 an0 nf0 fr0]; destruct H as (A & B & D & E); wpk.
  split; [|reflexivity]. repeat split; try tauto; lia.
Qed.
Lemma raise_all_ok : forall ms p, wproxy_ok C p -> Forall (fun m => m < i64_max) ms ->
  exists p', raise_all ms p = Ok p' /\ wproxy_ok C p' /\ wp_guid p' = wp_guid p.
Proof.
  induction ms as [|m t IH]; intros p H Hm; cbn [raise_all]; [eexists; split; [reflexivity|auto]|].
  inversion Hm; subst. destruct (raise_range_ok p m m H H2) as (q & E1 & E2 & E3). rewrite E1. cbn [bind].
  destruct (IH q E2 H3) as (p' & F1 & F2 & F3). exists p'. split; [exact F1|]. split; [exact F2|congruence].
Qed.
Lemma gap_proxy_ok : forall start gl p, wproxy_ok C p -> ss_base gl <= i64_max ->
  exists p', gap_proxy start gl p = Ok p' /\ wproxy_ok C p' /\ wp_guid p' = wp_guid p.
Proof.
  intros start gl p H Hb. unfold gap_proxy.
  assert (exists p1, (if start <? ss_base gl then raise_range p start (ss_base gl - 1) else Ok p) = Ok p1 /\
                     wproxy_ok C p1 /\ wp_guid p1 = wp_guid p) as (p1 & E1 & E2 & E3).
  { destruct (start <? ss_base gl); [apply raise_range_ok; [exact H|lia]|eexists; split; [reflexivity|auto]]. }
  rewrite E1. cbn [bind]. destruct (raise_all_ok (sn_members gl) p1 E2 (sn_members_lt gl)) as (p' & F1 & F2 & F3).
  exists p'. split; [exact F1|]. split; [exact F2|congruence].
Qed.

Lemma hbf_proxy_ok : forall count p, wproxy_ok C p -> wproxy_ok C (hbf_proxy count p) /\ wp_guid (hbf_proxy count p) = wp_guid p.
Proof. intros count p H. unfold hbf_proxy. destruct (_ <? _); [destruct p as [g0 fi0 l0 h0 m0 hb0 hbf0 an0 nf0 fr0]; split; [exact H|reflexivity]|auto]. Qed.
End Proxy.

(* fragments: the buffer may grow by the payload of the fragment *)
Lemma push_frag_ok : forall C f p, wproxy_ok C p -> frag_ok f -> wproxy_ok (C + fr_len f + 1) (push_frag p f).
Proof.
  intros C f p H Hf. unfold push_frag. destruct (has_frag_num _ _ _).
  - destruct Hf as (_ & _ & Hl). eapply wp_weaken; [|exact H]. lia.
  - destruct p as [g fi l h m hb hbf an nf fr]; destruct H as (A & B & D & E); wpk.
    repeat split; try tauto.
    + apply Forall_app; split; [exact D|constructor; [exact Hf|constructor]].
    + rewrite frag_weight_app, frag_weight_cons. cbn [frag_weight fold_right]. lia.
Qed.
Lemma push_frag_guid : forall f p, wp_guid (push_frag p f) = wp_guid p.
Proof. intros. unfold push_frag. destruct (has_frag_num _ _ _); destruct p as [g0 fi0 l0 h0 m0 hb0 hbf0 an0 nf0 fr0]; reflexivity. Qed.

Lemma reconstruct_ok : forall C p s, C <= FRAG_CAP -> wproxy_ok C p ->
  exists p' b, reconstruct p s = Ok (p', b) /\ wproxy_ok C p' /\ wp_guid p' = wp_guid p.
Proof.
  intros C p s HC H. unfold reconstruct.
  destruct (find (fun f => fr_sn f =? s) (wp_frags p)) as [f0|] eqn:Ef; [|do 2 eexists; split; [reflexivity|auto]].
  apply find_In in Ef as [Hin _]. destruct H as (A & B & D & E).
  pose proof D as D'. rewrite Forall_forall in D'. destruct (D' f0 Hin) as (_ & Hz & _).
  destruct (Z.eqb_spec (fr_size f0) 0); [contradiction|].
  pose proof (frag_sum_le_weight (fun f => fr_sn f =? s) (wp_frags p) D) as Hs. fold (frags_of (wp_frags p) s) in Hs.
  destruct (Z.ltb_spec u32_max (frag_sum (frags_of (wp_frags p) s))); [unf_consts; lia|].
  destruct (Z.eqb (frag_sum (frags_of (wp_frags p) s)) _); [|do 2 eexists; split; [reflexivity|split; [exact (conj A (conj B (conj D E)))|reflexivity]]].
  destruct (has_frag_num (wp_frags p) s 1); [|do 2 eexists; split; [reflexivity|split; [exact (conj A (conj B (conj D E)))|reflexivity]]].
  do 2 eexists; split; [reflexivity|]. split; [|destruct p as [g0 fi0 l0 h0 m0 hb0 hbf0 an0 nf0 fr0]; reflexivity].
  destruct p as [g fi l h m hb hbf an nf fr]; wpk. repeat split; try tauto.
  - apply Forall_filter; exact D.
  - pose proof (frag_weight_filter (fun f => negb (fr_sn f =? s)) fr D). lia.
Qed.

Lemma on_frag_proxy_ok : forall C rel f p, C + fr_len f + 1 <= FRAG_CAP -> wproxy_ok C p -> frag_ok f -> fr_sn f < i64_max ->
  exists p', on_frag_proxy rel f p = Ok p' /\ wproxy_ok (C + fr_len f + 1) p' /\ wp_guid p' = wp_guid p.
Proof.
  intros C rel f p HC H Hf Hs. unfold on_frag_proxy, frag_pushed.
  rewrite (expected_ok C p H). cbn [bind].
  match goal with |- context [if ?c then push_frag p f else p] => set (cnd := c); set (p1 := if cnd then push_frag p f else p) end.
  assert (H1 : wproxy_ok (C + fr_len f + 1) p1 /\ wp_guid p1 = wp_guid p).
  { subst p1. destruct cnd.
    - split; [apply push_frag_ok; auto|apply push_frag_guid].
    - split; [|reflexivity]. destruct Hf as (_ & _ & Hl). eapply wp_weaken; [|exact H]. lia. }
  destruct H1 as [H1 G1].
  destruct (reconstruct_ok _ p1 (fr_sn f) HC H1) as (p2 & b & E1 & E2 & E3). rewrite E1. cbn [bind fst snd].
  destruct b.
  - destruct (on_data_proxy_ok _ rel (fr_sn f) p2 E2 Hs) as (p3 & F1 & F2 & F3).
    exists p3. split; [exact F1|]. split; [exact F2|]. congruence.
  - exists p2. split; [reflexivity|]. split; [exact E2|]. congruence.
Qed.

(* --------------------------------------------------------------- containers *)
Lemma upd_proxy_ok : forall P (guid_of : P -> list Z) (Q Q' : P -> Prop) g f l,
  (forall p, Q p -> Q' p) ->
  (forall p, In p l -> Q p -> exists p' o, f p = Ok (p', o) /\ Q' p' /\ guid_of p' = guid_of p) ->
  Forall Q l ->
  exists l' o, upd_proxy guid_of g f l = Ok (l', o) /\ Forall Q' l' /\ map guid_of l' = map guid_of l.
Proof.
  intros P guid_of Q Q' g f l Hw. induction l as [|p t IH]; intros Hf H; cbn [upd_proxy].
  - do 2 eexists; split; [reflexivity|split; [constructor|reflexivity]].
  - inversion H as [|? ? Hp Ht]; subst.
    destruct (list_eqb (guid_of p) g).
    + destruct (Hf p (or_introl eq_refl) Hp) as (p' & o & E1 & E2 & E3). rewrite E1. cbn [bind fst snd].
      do 2 eexists; split; [reflexivity|]. split.
      * constructor; [exact E2|]. eapply Forall_impl; [|exact Ht]. exact Hw.
      * cbn [map]. rewrite E3. reflexivity.
    + destruct IH as (l' & o & E1 & E2 & E3); [intros q Hq; apply Hf; right; exact Hq|exact Ht|].
      rewrite E1. cbn [bind fst snd]. do 2 eexists; split; [reflexivity|]. split.
      * constructor; [apply Hw; exact Hp|exact E2].
      * cbn [map]. rewrite E3. reflexivity.
Qed.

Lemma for_each_ok : forall E (Q Q' : E -> Prop) (f : E -> res (E * outs)) l,
  (forall e, In e l -> Q e -> exists e' o, f e = Ok (e', o) /\ Q' e') ->
  Forall Q l -> exists l' o, for_each f l = Ok (l', o) /\ Forall Q' l' /\ length l' = length l.
Proof.
  intros E Q Q' f. induction l as [|e t IH]; intros Hf H; cbn [for_each].
  - do 2 eexists; split; [reflexivity|split; [constructor|reflexivity]].
  - inversion H as [|? ? He Ht]; subst.
    destruct (Hf e (or_introl eq_refl) He) as (e' & o & E1 & E2). rewrite E1. cbn [bind].
    destruct IH as (l' & o' & F1 & F2 & F3); [intros q Hq; apply Hf; right; exact Hq|exact Ht|].
    rewrite F1. cbn [bind fst snd]. do 2 eexists; split; [reflexivity|]. split; [constructor; auto|cbn; lia].
Qed.

(* -------------------------------------------------------------- the readers *)
Definition reader_ok (C : Z) (r : sreader) : Prop := Forall (wproxy_ok C) (sr_proxies r).

Lemma quiet_ok : forall P (Q : P -> Prop) (guid_of : P -> list Z) (f : P -> res P) p,
  (exists p', f p = Ok p' /\ Q p' /\ guid_of p' = guid_of p) ->
  exists p' o, quiet f p = Ok (p', o) /\ Q p' /\ guid_of p' = guid_of p.
Proof. intros P Q guid_of f p (p' & E1 & E2 & E3). unfold quiet. rewrite E1. cbn [bind]. do 2 eexists; split; [reflexivity|auto]. Qed.

Lemma with_proxies_ok : forall C r x l o, x = Ok (l, o) -> Forall (wproxy_ok C) l ->
  exists r', with_proxies r x = Ok (r', o) /\ reader_ok C r' /\ sr_user r' = sr_user r /\ sr_proxies r' = l.
Proof. intros C r x l o -> H. unfold with_proxies. cbn [bind fst snd]. eexists; split; [reflexivity|]. split; [exact H|split; reflexivity]. Qed.

Lemma reader_data_ok : forall C src wid s r, C <= FRAG_CAP -> reader_ok C r -> s <= i64_max ->
  exists r' o, reader_data src wid s r = Ok (r', o) /\ reader_ok C r'.
Proof.
  intros C src wid s r HC H Hs0. unfold reader_data.
  destruct (Z.eqb_spec s i64_max) as [Hm|Hm]; [do 2 eexists; split; [reflexivity|exact H]|].
  assert (Hs : s < i64_max) by lia.
  destruct (upd_proxy_ok _ wp_guid (wproxy_ok C) (wproxy_ok C) (src ++ wid) (quiet (on_data_proxy (sr_rel r) s)) (sr_proxies r))
    as (l & o & E1 & E2 & _); [auto| |exact H|].
  { intros p _ Hp. apply quiet_ok. apply on_data_proxy_ok; auto. }
  destruct (with_proxies_ok C r _ l o E1 E2) as (r' & F1 & F2 & _). exists r', o. auto.
Qed.

Lemma reader_frag_ok : forall C src wid f r, C + fr_len f + 1 <= FRAG_CAP -> reader_ok C r ->
  0 <= fr_len f -> 0 <= fr_count f -> fr_sn f <= i64_max ->
  exists r' o, reader_frag src wid f r = Ok (r', o) /\ reader_ok (C + fr_len f + 1) r'.
Proof.
  intros C src wid f r HC H Hl Hc0 Hs0. unfold reader_frag.
  assert (Hw : reader_ok (C + fr_len f + 1) r).
  { eapply Forall_impl; [|exact H]. intros p Hp. eapply wp_weaken; [|exact Hp]. lia. }
  destruct (Z.eqb_spec (fr_size f) 0) as [Hz|Hz]; [do 2 eexists; split; [reflexivity|exact Hw]|].
  destruct (Z.eqb_spec (fr_sn f) i64_max) as [Hm|Hm]; cbn [orb]; [do 2 eexists; split; [reflexivity|exact Hw]|].
  destruct (Z.ltb_spec (fr_len f + 1) (fr_count f)) as [Hgt|Hle]; [do 2 eexists; split; [reflexivity|exact Hw]|].
  assert (Hs : fr_sn f < i64_max) by lia. assert (Hc : 0 <= fr_count f <= fr_len f + 1) by lia.
  - destruct (upd_proxy_ok _ wp_guid (wproxy_ok C) (wproxy_ok (C + fr_len f + 1)) (src ++ wid)
                (quiet (on_frag_proxy (sr_rel r) f)) (sr_proxies r)) as (l & o & E1 & E2 & _); [| |exact H|].
    { intros p Hp. eapply wp_weaken; [|exact Hp]. lia. }
    { intros p _ Hp. apply quiet_ok. apply on_frag_proxy_ok; auto. destruct Hc; repeat split; auto. }
    destruct (with_proxies_ok _ r _ l o E1 E2) as (r' & F1 & F2 & _). exists r', o. auto.
Qed.

Lemma reader_gap_ok : forall C src wid start gl r, C <= FRAG_CAP -> reader_ok C r ->
  ss_base gl <= i64_max ->
  exists r' o, reader_gap src wid start gl r = Ok (r', o) /\ reader_ok C r'.
Proof.
  intros C src wid start gl r HC H Hb. unfold reader_gap.
  destruct (upd_proxy_ok _ wp_guid (wproxy_ok C) (wproxy_ok C) (src ++ wid) (quiet (gap_proxy start gl)) (sr_proxies r))
    as (l & o & E1 & E2 & _); [auto| |exact H|].
  { intros p _ Hp. apply quiet_ok. apply gap_proxy_ok; auto. }
  destruct (with_proxies_ok C r _ l o E1 E2) as (r' & F1 & F2 & _). exists r', o. auto.
Qed.

Lemma reader_hb_ok : forall C src wid final live first last count r, C <= FRAG_CAP -> reader_ok C r ->
  i64_min < first <= i64_max ->
  exists r' o, reader_hb src wid final live first last count r = Ok (r', o) /\ reader_ok C r'.
Proof.
  intros C src wid final live first last count r HC H Hf. unfold reader_hb.
  destruct (upd_proxy_ok _ wp_guid (wproxy_ok C) (wproxy_ok C) (src ++ wid)
              (hb_proxy (sr_eid r) final live first last count) (sr_proxies r)) as (l & o & E1 & E2 & _); [auto| |exact H|].
  { intros p _ Hp. apply hb_proxy_ok; auto. }
  destruct (with_proxies_ok C r _ l o E1 E2) as (r' & F1 & F2 & F3 & F4). rewrite F1. cbn [bind fst].
  rewrite F4. rewrite (probe_all_ok C l E2). exists r', o. split; [destruct (sr_user r); reflexivity|exact F2].
Qed.

Lemma reader_hbf_ok : forall C src wid count r, reader_ok C r ->
  exists r' o, reader_hbf src wid count r = Ok (r', o) /\ reader_ok C r'.
Proof.
  intros C src wid count r H. unfold reader_hbf.
  destruct (upd_proxy_ok _ wp_guid (wproxy_ok C) (wproxy_ok C) (src ++ wid)
              (quiet (fun p => Ok (hbf_proxy count p))) (sr_proxies r)) as (l & o & E1 & E2 & _); [auto| |exact H|].
  { intros p _ Hp. apply quiet_ok. eexists; split; [reflexivity|]. apply hbf_proxy_ok; exact Hp. }
  destruct (with_proxies_ok C r _ l o E1 E2) as (r' & F1 & F2 & _). exists r', o. auto.
Qed.

(* -------------------------------------------------------------- the writers *)
Lemma send_requested_ok : forall w rp s, sw_dmax w <> 0 -> s < i64_max -> exists o, send_requested w rp s = Ok o.
Proof.
  intros w rp s Hd Hs. unfold send_requested. destruct (find _ _) as [c|].
  - unfold nfrags. destruct (Z.eqb_spec (sw_dmax w) 0); [contradiction|]. cbn [bind].
    destruct (_ && _); eexists; reflexivity.
  - rewrite add1_ok by exact Hs. eexists; reflexivity.
Qed.
Lemma send_all_ok : forall w rp ms, sw_dmax w <> 0 -> Forall (fun m => m < i64_max) ms -> exists o, send_all w rp ms = Ok o.
Proof.
  intros w rp ms Hd. induction ms as [|m t IH]; intros H; cbn [send_all]; [eexists; reflexivity|].
  inversion H; subst. destruct (send_requested_ok w rp m Hd H2) as [o Ho]. rewrite Ho. cbn [bind].
  destruct (IH H3) as [os Hos]. rewrite Hos. eexists; reflexivity.
Qed.

Definition rp_same (w : swriter) (rp rp' : rproxy) : Prop :=
  rp_guid rp' = rp_guid rp /\ rp_sent rp' = rp_sent rp.

Lemma acknack_proxy_ok : forall w st count rp, sw_dmax w <> 0 -> has_unsent w rp = false ->
  exists rp' o, acknack_proxy w st count rp = Ok (rp', o) /\ has_unsent w rp' = false /\ rp_guid rp' = rp_guid rp.
Proof.
  intros w st count rp Hd Hu. unfold acknack_proxy.
  destruct (_ && _); [|do 2 eexists; split; [reflexivity|auto]].
  set (rp1 := mk_rp _ _ _ _ _ _ _).
  assert (Hu1 : has_unsent w rp1 = false) by exact Hu. rewrite Hu1.
  destruct (send_all_ok w rp1 (sn_members st) Hd (sn_members_lt st)) as [o Ho]. rewrite Ho. cbn [bind].
  do 2 eexists; split; [reflexivity|split; [exact Hu1|reflexivity]].
Qed.

Lemma fmembers_ok : forall fs, fset_overflows fs = false -> exists ms, fnset_members fs = Ok ms.
Proof.
  intros s H. unfold fset_overflows in H. unfold fnset_members.
  rewrite members_from_list; [eexists; reflexivity|].
  intros j Hj Hbit. destruct (Z.le_gt_cases (fs_base s + j) u32_max); [auto|].
  assert (X : existsb (fun i => bit_set (fs_map s) i && (u32_max <? fs_base s + i)) (ziota (fs_bits s)) = true).
  { apply existsb_exists. exists j. split; [apply In_ziota; lia|]. rewrite Hbit. cbn. apply Z.ltb_lt. lia. }
  rewrite X in H. discriminate.
Qed.

Lemma nackfrag_proxy_ok : forall w s fs count rp, sw_dmax w <> 0 -> has_unsent w rp = false ->
  fset_overflows fs = false ->
  exists rp' o, nackfrag_proxy w s fs count rp = Ok (rp', o) /\ has_unsent w rp' = false /\ rp_guid rp' = rp_guid rp.
Proof.
  intros w s fs count rp Hd Hu Hf. unfold nackfrag_proxy.
  destruct (_ && _); [|do 2 eexists; split; [reflexivity|auto]].
  destruct (find_change w s) as [c|].
  - unfold nfrags. destruct (Z.eqb_spec (sw_dmax w) 0); [contradiction|]. cbn [bind].
    destruct (fmembers_ok fs Hf) as [ms Hm]. rewrite Hm. cbn [lift_se bind].
    do 2 eexists; split; [reflexivity|split; [exact Hu|reflexivity]].
  - do 2 eexists; split; [reflexivity|split; [exact Hu|reflexivity]].
Qed.

Lemma with_rproxies_ok : forall w x l o, x = Ok (l, o) -> sw_dmax w <> 0 ->
  Forall (fun c => ch_sn c < i64_max) (sw_changes w) ->
  Forall (fun rp => has_unsent w rp = false) l ->
  exists w', with_rproxies w x = Ok (w', o) /\ swriter_ok w'.
Proof.
  intros w x l o -> Hd Hc Hl. unfold with_rproxies. cbn [bind fst snd]. eexists; split; [reflexivity|].
  repeat split; auto.
Qed.

Lemma writer_acknack_ok : forall src rid wid st count w, swriter_ok w ->
  exists w' o, writer_acknack src rid wid st count w = Ok (w', o) /\ swriter_ok w'.
Proof.
  intros src rid wid st count w (Hd & Hc & Hp). unfold writer_acknack.
  destruct (list_eqb (sw_eid w) wid); [|do 2 eexists; split; [reflexivity|repeat split; auto]].
  destruct (upd_proxy_ok _ rp_guid (fun rp => has_unsent w rp = false) (fun rp => has_unsent w rp = false)
              (src ++ rid) (acknack_proxy w st count) (sw_proxies w)) as (l & o & E1 & E2 & _); [auto| |exact Hp|].
  { intros rp _ Hrp. apply acknack_proxy_ok; auto. }
  destruct (with_rproxies_ok w _ l o E1 Hd Hc E2) as (w' & F1 & F2). exists w', o. auto.
Qed.

Lemma writer_nackfrag_ok : forall src rid wid s fs count w, swriter_ok w ->
  fset_overflows fs = false ->
  exists w' o, writer_nackfrag src rid wid s fs count w = Ok (w', o) /\ swriter_ok w'.
Proof.
  intros src rid wid s fs count w (Hd & Hc & Hp) Hf. unfold writer_nackfrag.
  destruct (list_eqb (sw_eid w) wid); [|do 2 eexists; split; [reflexivity|repeat split; auto]].
  destruct (upd_proxy_ok _ rp_guid (fun rp => has_unsent w rp = false) (fun rp => has_unsent w rp = false)
              (src ++ rid) (nackfrag_proxy w s fs count) (sw_proxies w)) as (l & o & E1 & E2 & _); [auto| |exact Hp|].
  { intros rp _ Hrp. apply nackfrag_proxy_ok; auto. }
  destruct (with_rproxies_ok w _ l o E1 Hd Hc E2) as (w' & F1 & F2). exists w', o. auto.
Qed.

(* --------------------------------------------------------- one submessage *)
Lemma InvC_weaken : forall C C' st, C <= C' -> InvC C st -> InvC C' st.
Proof.
  intros C C' st H [A B]. split; [|exact B]. eapply Forall_impl; [|exact A].
  intros r Hr. eapply Forall_impl; [|exact Hr]. intros p Hp. eapply wp_weaken; eauto.
Qed.

Lemma on_readers_ok : forall C C' st f,
  (forall r, reader_ok C r -> exists r' o, f r = Ok (r', o) /\ reader_ok C' r') ->
  InvC C st -> exists st' o, on_readers st f = Ok (st', o) /\ InvC C' st' /\ length (ps_readers st') = length (ps_readers st).
Proof.
  intros C C' st f Hf [A B]. unfold on_readers.
  destruct (for_each_ok _ (reader_ok C) (reader_ok C') f (ps_readers st)) as (l & o & E1 & E2 & E3); [|exact A|].
  { intros r _ Hr. apply Hf; exact Hr. }
  rewrite E1. cbn [bind fst snd]. do 2 eexists; split; [reflexivity|]. split; [split; [exact E2|exact B]|exact E3].
Qed.
Lemma on_writers_ok : forall C st f,
  (forall w, swriter_ok w -> exists w' o, f w = Ok (w', o) /\ swriter_ok w') ->
  InvC C st -> exists st' o, on_writers st f = Ok (st', o) /\ InvC C st' /\ ps_readers st' = ps_readers st.
Proof.
  intros C st f Hf [A B]. unfold on_writers.
  destruct (for_each_ok _ swriter_ok swriter_ok f (ps_writers st)) as (l & o & E1 & E2 & _); [|exact B|].
  { intros w _ Hw. apply Hf; exact Hw. }
  rewrite E1. cbn [bind fst snd]. do 2 eexists; split; [reflexivity|]. split; [split; [exact A|exact E2]|reflexivity].
Qed.

Lemma orb_false4 : forall a b, a || b = false -> a = false /\ b = false.
Proof. intros a b H. apply orb_false_iff in H. exact H. Qed.

Theorem handle_sub_ok : forall C rs st m,
  C + frag_bytes_sub m <= FRAG_CAP -> InvC C st -> sub_range m ->
  exists rs' st' o, handle_sub rs st m = Ok (rs', st', o) /\ InvC (C + frag_bytes_sub m) st' /\
                    length (ps_readers st') = length (ps_readers st).
Proof.
  intros C rs st m HC HI HR.
  destruct m; cbn [handle_sub frag_bytes_sub sub_range] in *; try rewrite Z.add_0_r in *.
  - (* AckNack *)
    destruct (on_writers_ok C st (writer_acknack (rs_src rs) rid wid state count)) as (st' & o & E1 & E2 & E3); [|exact HI|].
    { intros w Hw. apply writer_acknack_ok; auto. }
    rewrite E1. cbn [bind fst snd]. do 3 eexists; split; [reflexivity|]. split; [exact E2|rewrite E3; reflexivity].
  - (* Data *)
    destruct (on_readers_ok C C st (reader_data (rs_src rs) wid sn)) as (st' & o & E1 & E2 & E3); [|exact HI|].
    { intros r Hr. apply reader_data_ok; auto. destruct HR; assumption. }
    rewrite E1. cbn [bind fst snd]. do 3 eexists; split; [reflexivity|auto].
  - (* DataFrag *)
    destruct HR as [[_ Hs] Hfc].
    destruct (on_readers_ok C (C + (len payload + 1)) st
                (reader_frag (rs_src rs) wid (mk_frag sn fstart fcount fsize dsize (len payload)))) as (st' & o & E1 & E2 & E3); [|exact HI|].
    { intros r Hr.
      destruct (reader_frag_ok C (rs_src rs) wid (mk_frag sn fstart fcount fsize dsize (len payload)) r) as (r' & o & F1 & F2);
        cbn [fr_len fr_count fr_sn]; auto; try lia; [apply len_nonneg|].
      exists r', o. split; [exact F1|]. cbn [fr_len] in F2. replace (C + (len payload + 1)) with (C + len payload + 1) by lia. exact F2. }
    rewrite E1. cbn [bind fst snd]. do 3 eexists; split; [reflexivity|auto].
  - (* Gap *)
    destruct HR as [_ [_ Hb]].
    destruct (on_readers_ok C C st (reader_gap (rs_src rs) wid start gl)) as (st' & o & E1 & E2 & E3); [|exact HI|].
    { intros r Hr. apply reader_gap_ok; auto. }
    rewrite E1. cbn [bind fst snd]. do 3 eexists; split; [reflexivity|auto].
  - (* Heartbeat *)
    destruct HR as [[_ Hf] _].
    destruct (Z.leb_spec first 0); [do 3 eexists; split; [reflexivity|auto]|].
    destruct (on_readers_ok C C st (reader_hb (rs_src rs) wid final live first last count)) as (st' & o & E1 & E2 & E3); [|exact HI|].
    { intros r Hr. apply reader_hb_ok; auto. unfold i64_min. lia. }
    rewrite E1. cbn [bind fst snd]. do 3 eexists; split; [reflexivity|auto].
  - (* HeartbeatFrag *)
    destruct (on_readers_ok C C st (reader_hbf (rs_src rs) wid count)) as (st' & o & E1 & E2 & E3); [|exact HI|].
    { intros r Hr. apply reader_hbf_ok; auto. }
    rewrite E1. cbn [bind fst snd]. do 3 eexists; split; [reflexivity|auto].
  - do 3 eexists; split; [reflexivity|auto].
  - do 3 eexists; split; [reflexivity|auto].
  - do 3 eexists; split; [reflexivity|auto].
  - do 3 eexists; split; [reflexivity|auto].
  - (* NackFrag *)
    destruct HR as [_ Hfs].
    destruct (on_writers_ok C st (writer_nackfrag (rs_src rs) rid wid sn fstate count)) as (st' & o & E1 & E2 & E3); [|exact HI|].
    { intros w Hw. apply writer_nackfrag_ok; auto. }
    rewrite E1. cbn [bind fst snd]. do 3 eexists; split; [reflexivity|]. split; [exact E2|rewrite E3; reflexivity].
  - do 3 eexists; split; [reflexivity|auto].
Qed.

(* ------------------------------------------------------- a whole datagram *)
Lemma frag_bytes_nonneg : forall l, 0 <= frag_bytes l.
Proof.
  induction l as [|m t IH]; [cbn; lia|]. unfold frag_bytes in *. cbn [map sumZ].
  assert (0 <= frag_bytes_sub m) by (destruct m; cbn; try lia; pose proof (len_nonneg _ payload); lia). lia.
Qed.

Lemma handle_subs_ok : forall l C rs st,
  C + frag_bytes l <= FRAG_CAP -> InvC C st -> Forall sub_range l ->
  exists st' o, handle_subs rs st l = Ok (st', o) /\ InvC (C + frag_bytes l) st' /\
                length (ps_readers st') = length (ps_readers st).
Proof.
  induction l as [|m t IH]; intros C rs st HC HI HK; cbn [handle_subs].
  - do 2 eexists; split; [reflexivity|]. unfold frag_bytes; cbn. rewrite Z.add_0_r. auto.
  - inversion HK as [|? ? K1 K2]; subst.
    unfold frag_bytes in *. cbn [map sumZ] in *. pose proof (frag_bytes_nonneg t) as Hn. unfold frag_bytes in Hn.
    destruct (handle_sub_ok C rs st m) as (rs1 & st1 & o & E1 & E2 & E3); [lia|exact HI|exact K1|].
    rewrite E1. cbn [bind].
    destruct (IH (C + frag_bytes_sub m) rs1 st1) as (st2 & o2 & F1 & F2 & F3); [unfold frag_bytes; lia|exact E2|exact K2|].
    rewrite F1. cbn [bind fst snd]. do 2 eexists; split; [reflexivity|].
    split; [|congruence]. unfold frag_bytes in F2. replace (C + (frag_bytes_sub m + sumZ (map frag_bytes_sub t)))
      with (C + frag_bytes_sub m + sumZ (map frag_bytes_sub t)) by lia. exact F2.
Qed.

(* the decoder part is C07's: here it is only assumed not to panic on this byte string *)
Theorem handle_datagram_ok : forall C st bytes,
  InvC C st -> C + frag_bytes (subs_of bytes) <= FRAG_CAP ->
  is_panic (parse_message bytes) = false -> Forall sub_range (subs_of bytes) ->
  exists st' o, handle_datagram st bytes = Ok (st', o) /\ InvC (C + frag_bytes (subs_of bytes)) st' /\
                length (ps_readers st') = length (ps_readers st).
Proof.
  intros C st bytes HI HC Hp H6. unfold handle_datagram, subs_of in *.
  destruct (parse_message bytes) as [[h l]|e|x]; [|do 2 eexists; split; [reflexivity|]|discriminate].
  - apply handle_subs_ok; auto.
  - unfold frag_bytes; cbn. rewrite Z.add_0_r. auto.
Qed.

(* ------------------------------------------------------ sequences of datagrams *)
Lemma total_frag_bytes_nonneg : forall ds, 0 <= total_frag_bytes ds.
Proof.
  induction ds as [|d t IH]; [cbn; lia|]. unfold total_frag_bytes in *. cbn [map sumZ].
  pose proof (frag_bytes_nonneg (subs_of d)). lia.
Qed.

Theorem run_datagrams_ok : forall ds C st,
  InvC C st -> C + total_frag_bytes ds <= FRAG_CAP ->
  Forall (fun d => is_panic (parse_message d) = false /\ Forall sub_range (subs_of d)) ds ->
  exists st', run_datagrams st ds = Ok st' /\ InvC (C + total_frag_bytes ds) st'.
Proof.
  induction ds as [|d t IH]; intros C st HI HC HF; cbn [run_datagrams].
  - eexists; split; [reflexivity|]. unfold total_frag_bytes; cbn. rewrite Z.add_0_r. exact HI.
  - inversion HF as [|? ? [Hp Hk] Ht]; subst.
    unfold total_frag_bytes in *. cbn [map sumZ] in *. pose proof (total_frag_bytes_nonneg t) as Hn. unfold total_frag_bytes in Hn.
    destruct (handle_datagram_ok C st d HI) as (st1 & o & E1 & E2 & _); [lia|exact Hp|exact Hk|].
    rewrite E1. cbn [bind fst].
    destruct (IH (C + frag_bytes (subs_of d)) st1 E2) as (st2 & F1 & F2); [lia|exact Ht|].
    exists st2. split; [exact F1|].
    replace (C + (frag_bytes (subs_of d) + sumZ (map (fun d0 => frag_bytes (subs_of d0)) t)))
      with (C + frag_bytes (subs_of d) + sumZ (map (fun d0 => frag_bytes (subs_of d0)) t)) by lia. exact F2.
Qed.

(* ------------------------------------------------------- sender-chosen work *)
Lemma sumZ_bound : forall A (f : A -> Z) (l : list A) B, (forall x, In x l -> 0 <= f x <= B) ->
  0 <= sumZ (map f l) <= len l * B.
Proof.
  intros A f l B. induction l as [|x t IH]; intros H; [cbn; lia|]. cbn [map sumZ]. rewrite len_cons.
  pose proof (H x (or_introl eq_refl)). specialize (IH (fun y Hy => H y (or_intror Hy))). lia.
Qed.

Lemma proxy_steps_bound : forall g f l B (Q : wproxy -> Prop), 0 <= B -> Forall Q l ->
  (forall p, Q p -> 0 <= f p <= B) -> 0 <= proxy_steps g f l <= B.
Proof.
  intros g f l B Q HB HQ Hf. unfold proxy_steps. destruct (find _ l) as [p|] eqn:E; [|lia].
  apply find_In in E as [Hin _]. rewrite Forall_forall in HQ. apply Hf. auto.
Qed.

Lemma frag_sum_nonneg : forall l, Forall frag_ok l -> 0 <= frag_sum l.
Proof.
  induction l as [|f t IH]; intros H; [cbn; lia|]. rewrite frag_sum_cons.
  inversion H as [|? ? Hf Ht]; subst. destruct Hf as (Hc & _). specialize (IH Ht). lia.
Qed.

Lemma reconstruct_steps_bound : forall W p s, 0 <= W -> Forall frag_ok (wp_frags p) -> frag_weight (wp_frags p) <= W ->
  0 <= reconstruct_steps p s <= (W + 1) * (W + 1).
Proof.
  intros W p s HW D E. unfold reconstruct_steps.
  destruct (find _ _) as [f0|]; [|nia]. destruct (fr_size f0 =? 0); [nia|].
  pose proof (frag_sum_le_weight (fun f => fr_sn f =? s) (wp_frags p) D) as Hs. fold (frags_of (wp_frags p) s) in Hs.
  pose proof (frag_sum_nonneg (frags_of (wp_frags p) s) (Forall_filter _ _ _ _ D)) as Hs0.
  pose proof (len_le_weight _ D) as Hl. pose proof (len_nonneg _ (wp_frags p)) as Hl0.
  destruct (_ =? _); [|nia]. nia.
Qed.

Lemma frag_steps_bound : forall C rel f p, wproxy_ok C p -> frag_ok f -> 0 <= C ->
  0 <= frag_steps rel f p <= (C + fr_len f + 1 + 1) * (C + fr_len f + 1 + 1).
Proof.
  intros C rel f p H Hf HC0. unfold frag_steps, frag_pushed. rewrite (expected_ok C p H). cbn [bind].
  match goal with |- context [if ?c then push_frag p f else p] => set (cnd := c) end.
  assert (H1 : wproxy_ok (C + fr_len f + 1) (if cnd then push_frag p f else p)).
  { destruct cnd; [apply push_frag_ok; auto|]. destruct Hf as (_ & _ & Hl). eapply wp_weaken; [|exact H]. lia. }
  destruct H1 as (_ & _ & D & E). destruct Hf as (_ & _ & Hl).
  apply reconstruct_steps_bound; auto. lia.
Qed.

Definition step_cap (C : Z) : Z := (C + 1) * (C + 1).
Lemma step_cap_mono : forall a b, 0 <= a <= b -> step_cap a <= step_cap b.
Proof. intros a b H. unfold step_cap. nia. Qed.
Lemma step_cap_nonneg : forall a, 0 <= step_cap a.
Proof. intros a. unfold step_cap. nia. Qed.

Lemma sub_steps_bound : forall C rs st m, 0 <= C -> InvC C st -> sub_range m ->
  0 <= sub_steps rs st m <= len (ps_readers st) * step_cap (C + frag_bytes_sub m).
Proof.
  intros C rs st m HC0 [A _] HR.
  pose proof (len_nonneg _ (ps_readers st)) as Hl0.
  destruct m; cbn [sub_steps frag_bytes_sub]; try (pose proof (step_cap_nonneg (C + 0)); nia).
  (* DataFrag *)
  cbn [sub_range] in HR. destruct HR as [_ Hf0].
  destruct (fsize =? 0) eqn:Ez; cbn [orb]; [pose proof (step_cap_nonneg (C + (len payload + 1))); nia|].
  destruct (sn =? i64_max); cbn [orb]; [pose proof (step_cap_nonneg (C + (len payload + 1))); nia|].
  destruct (Z.ltb_spec (len payload + 1) fcount) as [Hgt|Kfc]; [pose proof (step_cap_nonneg (C + (len payload + 1))); nia|].
  apply sumZ_bound. intros r Hr. rewrite Forall_forall in A. specialize (A r Hr).
  apply (proxy_steps_bound _ _ _ _ (wproxy_ok C)); [apply step_cap_nonneg|exact A|].
  intros p Hp. pose proof (len_nonneg _ payload) as Hpl.
  pose proof (frag_steps_bound C (sr_rel r) (mk_frag sn fstart fcount fsize dsize (len payload)) p Hp) as Hb.
  cbn [fr_len] in Hb. destruct Hb as [Hb1 Hb2]; [repeat split; cbn [fr_count fr_len fr_size]; try lia; apply Z.eqb_neq; exact Ez|exact HC0|].
  split; [exact Hb1|]. unfold step_cap. replace (C + (len payload + 1) + 1) with (C + len payload + 1 + 1) by lia. lia.
Qed.

Lemma subs_steps_bound : forall l C rs st, 0 <= C ->
  C + frag_bytes l <= FRAG_CAP -> InvC C st -> Forall sub_range l ->
  0 <= subs_steps rs st l <= len l * len (ps_readers st) * step_cap (C + frag_bytes l).
Proof.
  induction l as [|m t IH]; intros C rs st HC0 HC HI HK; cbn [subs_steps]; [cbn; lia|].
  inversion HK as [|? ? K1 K2]; subst.
  unfold frag_bytes in *. cbn [map sumZ] in *. pose proof (frag_bytes_nonneg t) as Hn. unfold frag_bytes in Hn.
  assert (Hm0 : 0 <= frag_bytes_sub m) by (destruct m; cbn; try lia; pose proof (len_nonneg _ payload); lia).
  pose proof (sub_steps_bound C rs st m HC0 HI K1) as Hs.
  destruct (handle_sub_ok C rs st m) as (rs1 & st1 & o & E1 & E2 & E3); [lia|exact HI|exact K1|].
  rewrite E1. specialize (IH (C + frag_bytes_sub m) rs1 st1 ltac:(lia) ltac:(unfold frag_bytes; lia) E2 K2).
  unfold frag_bytes in IH. rewrite len_cons.
  assert (Hr : len (ps_readers st1) = len (ps_readers st)) by (unfold len; rewrite E3; reflexivity). rewrite Hr in IH.
  set (S1 := sumZ (map frag_bytes_sub t)) in *.
  pose proof (step_cap_mono (C + frag_bytes_sub m) (C + (frag_bytes_sub m + S1)) ltac:(lia)) as M1.
  replace (C + frag_bytes_sub m + S1) with (C + (frag_bytes_sub m + S1)) in IH by lia.
  pose proof (len_nonneg _ (ps_readers st)) as Hl0. pose proof (len_nonneg _ t) as Ht0.
  pose proof (step_cap_nonneg (C + (frag_bytes_sub m + S1))) as Hc0.
  nia.
Qed.

Theorem datagram_steps_bound : forall C st bytes, 0 <= C ->
  InvC C st -> C + frag_bytes (subs_of bytes) <= FRAG_CAP -> Forall sub_range (subs_of bytes) ->
  0 <= datagram_steps st bytes <=
  steps_bound (len (subs_of bytes)) (len (ps_readers st)) (C + frag_bytes (subs_of bytes)).
Proof.
  intros C st bytes HC0 HI HC HK. unfold datagram_steps, subs_of, steps_bound in *.
  destruct (parse_message bytes) as [[h l]|e|x].
  - apply subs_steps_bound; auto.
  - cbn. lia.
  - cbn. lia.
Qed.

(* ------------------------------------------------ reassembly allocation: bytes received *)
Lemma sum_len_le_weight : forall g l, Forall frag_ok l -> 0 <= sumZ (map fr_len (filter g l)) <= frag_weight l.
Proof.
  intros g; induction l as [|f t IH]; intros H; [cbn; lia|]. cbn [filter]. rewrite frag_weight_cons.
  inversion H as [|? ? Hf Ht]; subst. destruct Hf as (_ & _ & Hl). specialize (IH Ht).
  destruct (g f); cbn [map sumZ]; lia.
Qed.

Lemma reconstruct_alloc_bound : forall W p s, 0 <= W -> Forall frag_ok (wp_frags p) -> frag_weight (wp_frags p) <= W ->
  0 <= reconstruct_alloc p s <= W.
Proof.
  intros W p s HW D E. unfold reconstruct_alloc.
  destruct (find _ _) as [f0|]; [|lia]. destruct (fr_size f0 =? 0); [lia|].
  destruct (_ =? _); [|lia]. unfold frags_of. rewrite <- (filter_filter_and _ _ (wp_frags p)) || idtac.
  pose proof (Forall_filter _ _ (fun f => fr_sn f =? s) _ D) as D1.
  pose proof (sum_len_le_weight (fun f => (0 <=? fr_start f) && (fr_start f <=? frag_sum (filter (fun f1 => fr_sn f1 =? s) (wp_frags p))))
                                (filter (fun f => fr_sn f =? s) (wp_frags p)) D1) as [A B].
  pose proof (frag_weight_filter (fun f => fr_sn f =? s) (wp_frags p) D). split; [exact A|lia].
Qed.

Lemma frag_alloc_bound : forall C rel f p, wproxy_ok C p -> frag_ok f -> 0 <= C ->
  0 <= frag_alloc rel f p <= C + fr_len f + 1.
Proof.
  intros C rel f p H Hf HC0. unfold frag_alloc, frag_pushed. rewrite (expected_ok C p H). cbn [bind].
  match goal with |- context [if ?c then push_frag p f else p] => set (cnd := c) end.
  assert (H1 : wproxy_ok (C + fr_len f + 1) (if cnd then push_frag p f else p)).
  { destruct cnd; [apply push_frag_ok; auto|]. destruct Hf as (_ & _ & Hl). eapply wp_weaken; [|exact H]. lia. }
  destruct H1 as (_ & _ & D & E). destruct Hf as (_ & _ & Hl).
  apply reconstruct_alloc_bound; auto. lia.
Qed.

Lemma sub_alloc_bound : forall C rs st m, 0 <= C -> InvC C st -> sub_range m ->
  0 <= sub_alloc rs st m <= len (ps_readers st) * (C + frag_bytes_sub m).
Proof.
  intros C rs st m HC0 [A _] HR.
  pose proof (len_nonneg _ (ps_readers st)) as Hl0.
  destruct m; cbn [sub_alloc frag_bytes_sub]; try nia.
  cbn [sub_range] in HR. destruct HR as [_ Hf0]. pose proof (len_nonneg _ payload) as Hpl.
  destruct (fsize =? 0) eqn:Ez; cbn [orb]; [nia|].
  destruct (sn =? i64_max); cbn [orb]; [nia|].
  destruct (Z.ltb_spec (len payload + 1) fcount) as [Hgt|Kfc]; [nia|].
  apply sumZ_bound. intros r Hr. rewrite Forall_forall in A. specialize (A r Hr).
  apply (proxy_steps_bound _ _ _ _ (wproxy_ok C)); [lia|exact A|].
  intros p Hp.
  pose proof (frag_alloc_bound C (sr_rel r) (mk_frag sn fstart fcount fsize dsize (len payload)) p Hp) as Hb.
  cbn [fr_len] in Hb. destruct Hb as [Hb1 Hb2]; [repeat split; cbn [fr_count fr_len fr_size]; try lia; apply Z.eqb_neq; exact Ez|exact HC0|].
  lia.
Qed.

Lemma subs_alloc_bound : forall l C rs st, 0 <= C ->
  C + frag_bytes l <= FRAG_CAP -> InvC C st -> Forall sub_range l ->
  0 <= subs_alloc rs st l <= len l * len (ps_readers st) * (C + frag_bytes l).
Proof.
  induction l as [|m t IH]; intros C rs st HC0 HC HI HK; cbn [subs_alloc]; [cbn; lia|].
  inversion HK as [|? ? K1 K2]; subst.
  unfold frag_bytes in *. cbn [map sumZ] in *. pose proof (frag_bytes_nonneg t) as Hn. unfold frag_bytes in Hn.
  assert (Hm0 : 0 <= frag_bytes_sub m) by (destruct m; cbn; try lia; pose proof (len_nonneg _ payload); lia).
  pose proof (sub_alloc_bound C rs st m HC0 HI K1) as Hs.
  destruct (handle_sub_ok C rs st m) as (rs1 & st1 & o & E1 & E2 & E3); [lia|exact HI|exact K1|].
  rewrite E1. specialize (IH (C + frag_bytes_sub m) rs1 st1 ltac:(lia) ltac:(unfold frag_bytes; lia) E2 K2).
  unfold frag_bytes in IH. rewrite len_cons.
  assert (Hr : len (ps_readers st1) = len (ps_readers st)) by (unfold len; rewrite E3; reflexivity). rewrite Hr in IH.
  set (S1 := sumZ (map frag_bytes_sub t)) in *.
  replace (C + frag_bytes_sub m + S1) with (C + (frag_bytes_sub m + S1)) in IH by lia.
  pose proof (len_nonneg _ (ps_readers st)) as Hl0. pose proof (len_nonneg _ t) as Ht0.
  nia.
Qed.

Theorem datagram_alloc_bound : forall C st bytes, 0 <= C ->
  InvC C st -> C + frag_bytes (subs_of bytes) <= FRAG_CAP -> Forall sub_range (subs_of bytes) ->
  0 <= datagram_alloc st bytes <=
  alloc_bound (len (subs_of bytes)) (len (ps_readers st)) (C + frag_bytes (subs_of bytes)).
Proof.
  intros C st bytes HC0 HI HC HK. unfold datagram_alloc, subs_of, alloc_bound in *.
  destruct (parse_message bytes) as [[h l]|e|x].
  - apply subs_alloc_bound; auto.
  - cbn. lia.
  - cbn. lia.
Qed.
