(* C06 — what a participant does with a received datagram AFTER decoding it (definitions only).
   Sources:
     dds/src/rtps/message_receiver.rs                MessageReceiver (INFO_TS / INFO_SRC / INFO_DST / INFO_REPLY)
     dds/src/dcps/dcps_domain_participant/communication_methods.rs
                                                     handle_data: dispatch of every submessage kind to the
                                                     SPDP stateless reader, every user-defined and builtin
                                                     stateful reader / writer; handle_gap,
                                                     handle_heartbeat, HEARTBEAT_FRAG, ACKNACK, NACK_FRAG
     dds/src/rtps/stateful_reader.rs, writer_proxy.rs   on_data_submessage, on_data_frag_submessage,
                                                     reconstruct_data_from_frag, write_message (ACKNACK / NACK_FRAG reply)
     dds/src/rtps/stateful_writer.rs, reader_proxy.rs   on_acknack_submessage_received, on_nack_frag_submessage_received,
                                                     write_message_reliable (requested changes)
   The code is the one after the repairs a89778b (INFO_REPLY ignored), 8329c8d (GAP in constant time),
   6f37365 (SequenceNumberSet iterator), df6af72 (ACKNACK base), 1f8d93c (HEARTBEAT first <= 0),
   9291c1e (sequence number i64::MAX), 84c5233 (fragment count vs payload), 91937ff (a GAP only skips
   numbers contiguous with what was received), 1001a3e (NACK_FRAG only for the addressed writer).
   The decoder is Wire/WireModel.v (parse_message).  Debug profile: `+ 1` / `- 1` on i64 and `+=` on
   u32 panic on overflow.  A participant is the list of its stateful readers (user-defined first,
   then builtin: the order of the `chain` in handle_data) and of its stateful writers; every
   container is a list in storage order and look-ups return the FIRST match, as `find` does.

   Not in this model (see Props/C06.v for what is claimed): the contents of the reader caches
   (`changes`: the deserialization of accepted DATA happens later in the worker iteration, in DCPS
   code), listeners / wait-set notifications, HEARTBEAT-only messages of a writer and their count
   (is_time_for_heartbeat reads the clock), the transport. *)
From DustDDS Require Export Base.Machine Base.Bytes Wire.WireModel.
Open Scope Z_scope.

(* ------------------------------------------------------------------ panic sites
   file * 10000 + line;  files: 1 message_receiver.rs  2 communication_methods.rs
   3 stateful_reader.rs  4 writer_proxy.rs  5 stateful_writer.rs  6 submessage_elements.rs *)
Definition S_SR_EXPECTED : Z := 30098.    (* available_changes_max() + 1   (lines 81, 98, 134, 140) *)
Definition S_WP_DIV : Z := 40028.         (* data_size / fragment_size *)
Definition S_WP_FRAGSUM : Z := 40103.     (* acc += f.fragments_in_submessage() as u32 *)
Definition S_WP_FIRST : Z := 40170.       (* first_available_seq_num - 1 *)
Definition S_WP_MISSING : Z := 40207.     (* highest_received_change_sn + 1 *)
Definition S_WP_BASE : Z := 40292.        (* available_changes_max() + 1 in write_message *)
Definition S_SW_DIV : Z := 50199.         (* len.div_ceil(data_max_size_serialized) *)
Definition S_SW_REQGAP : Z := 50664.      (* next_requested_change_seq_num + 1 *)
Definition S_SE : Z := 60000.             (* + 178: FragmentNumberSet iterator; + line: a panic inside the decoder *)
Definition site_file (s : Z) : Z := s / 10000.
(* returned (not a panic): a branch this model does not describe was reached *)
Definition E_UNSENT : Z := 77.

Definition add1 (site x : Z) : res Z := if x + 1 <=? i64_max then Ok (x + 1) else Panic site.
Definition sub1 (site x : Z) : res Z := if i64_min <=? x - 1 then Ok (x - 1) else Panic site.
Definition lift_se {A} (r : res A) : res A :=
  match r with Panic x => Panic (S_SE + x) | other => other end.

(* --------------------------------------------------------------------- state *)
(* one buffered DATA_FRAG: what reconstruct_data_from_frag and write_message read of it *)
Record frag : Type := mk_frag {
  fr_sn : Z; fr_start : Z; fr_count : Z; fr_size : Z; fr_dsize : Z; fr_len : Z }.

Record wproxy : Type := mk_wp {
  wp_guid : list Z;          (* remote writer guid: 12 + 4 octets *)
  wp_first : Z;              (* first_available_seq_num *)
  wp_last : Z;               (* last_available_seq_num *)
  wp_high : Z;               (* highest_received_change_sn *)
  wp_must : bool;            (* must_send_acknacks *)
  wp_hb : Z;                 (* last_received_heartbeat_count *)
  wp_hbf : Z;                (* last_received_heartbeat_frag_count *)
  wp_an : Z;                 (* acknack_count *)
  wp_nf : Z;                 (* nack_frag_count *)
  wp_frags : list frag }.    (* frag_buffer *)

Record sreader : Type := mk_sr {
  sr_eid : list Z; sr_rel : bool; sr_user : bool; sr_proxies : list wproxy }.

Record change : Type := mk_ch { ch_sn : Z; ch_len : Z; ch_alive : bool }.

Record rproxy : Type := mk_rp {
  rp_guid : list Z;          (* remote reader guid *)
  rp_rel : bool;
  rp_sent : Z;               (* highest_sent_seq_num *)
  rp_acked : Z;              (* highest_acked_seq_num *)
  rp_an : Z;                 (* last_received_acknack_count *)
  rp_nf : Z;                 (* last_received_nack_frag_count *)
  rp_first_rel : Z }.        (* first_relevant_sample_seq_num *)
(* requested_changes is empty between two messages: on_acknack_submessage_received fills it and
   write_message_reliable drains it in the same call *)

Record swriter : Type := mk_sw {
  sw_eid : list Z; sw_changes : list change; sw_dmax : Z; sw_proxies : list rproxy }.

Record pstate : Type := mk_ps { ps_readers : list sreader; ps_writers : list swriter }.

(* MessageReceiver *)
Record rstate : Type := mk_rs { rs_src : list Z; rs_dst : list Z; rs_have_ts : bool; rs_ts : Z * Z }.
Definition rs_init (h : hdr) : rstate := mk_rs (h_prefix h) (repeat 0 12) false (u32_max, u32_max).

(* ------------------------------------------------------------------- outputs
   what the participant hands to its transport, one list per datagram; INFO_DST / INFO_TS /
   HEARTBEAT submessages are not listed *)
Inductive osum : Type :=
| OAck (rid wid : list Z) (base : Z) (members : list Z) (count : Z)
| ONackFrag (rid wid : list Z) (sn base : Z) (members : list Z) (count : Z)
| OData (rid wid : list Z) (sn len : Z)
| ODataFrag (rid wid : list Z) (sn fstart len : Z)
| OGap (rid wid : list Z) (start base : Z).
Definition outs : Type := list (list osum).

(* ------------------------------------------------------------- writer proxy *)
Definition set_wp_high (p : wproxy) (x : Z) : wproxy :=
  mk_wp (wp_guid p) (wp_first p) (wp_last p) x (wp_must p) (wp_hb p) (wp_hbf p) (wp_an p) (wp_nf p) (wp_frags p).
Definition set_wp_first (p : wproxy) (x : Z) : wproxy :=
  mk_wp (wp_guid p) x (wp_last p) (wp_high p) (wp_must p) (wp_hb p) (wp_hbf p) (wp_an p) (wp_nf p) (wp_frags p).
Definition set_wp_frags (p : wproxy) (l : list frag) : wproxy :=
  mk_wp (wp_guid p) (wp_first p) (wp_last p) (wp_high p) (wp_must p) (wp_hb p) (wp_hbf p) (wp_an p) (wp_nf p) l.
Definition set_wp_hbf (p : wproxy) (x : Z) : wproxy :=
  mk_wp (wp_guid p) (wp_first p) (wp_last p) (wp_high p) (wp_must p) (wp_hb p) x (wp_an p) (wp_nf p) (wp_frags p).

(* irrelevant_change_set *)
Definition raise_high (p : wproxy) (x : Z) : wproxy := if wp_high p <? x then set_wp_high p x else p.
(* received_change_set *)
Definition received_set (p : wproxy) (x : Z) : wproxy :=
  let p1 := raise_high p x in set_wp_frags p1 (filter (fun f => x <? fr_sn f) (wp_frags p1)).

(* available_changes_max *)
Definition avail_max (p : wproxy) : res Z := f <- sub1 S_WP_FIRST (wp_first p) ;; Ok (Z.max f (wp_high p)).
(* missing_changes(): first_missing ..= highest *)
Definition first_missing (p : wproxy) : res Z := h <- add1 S_WP_MISSING (wp_high p) ;; Ok (Z.max (wp_first p) h).
Definition highest (p : wproxy) : Z := Z.max (wp_last p) (wp_high p).
Definition missing_count (p : wproxy) : res Z := fm <- first_missing p ;; Ok (Z.max 0 (highest p - fm + 1)).
(* `available_changes_max() + 1` of stateful_reader.rs *)
Definition expected (p : wproxy) : res Z := am <- avail_max p ;; add1 S_SR_EXPECTED am.

(* a, a+1, ... <= b, at most n of them:  (a..=b).take(n) *)
Definition range_take (n a b : Z) : list Z :=
  map (fun i => a + Z.of_nat i) (seq 0 (Z.to_nat (Z.min n (b - a + 1)))).
Fixpoint take_while (f : Z -> bool) (l : list Z) : list Z :=
  match l with [] => [] | x :: t => if f x then x :: take_while f t else [] end.
Definition min_frag_sn (l : list frag) : Z := fold_right (fun f m => Z.min (fr_sn f) m) i64_max l.
Definition has_frag (l : list frag) (s : Z) : bool := existsb (fun f => fr_sn f =? s) l.
Definition has_frag_num (l : list frag) (s k : Z) : bool := existsb (fun f => (fr_sn f =? s) && (fr_start f =? k)) l.
Definition div_ceil (a b : Z) : Z := (a + b - 1) / b.

(* `(1..=te).filter(not buffered).peekable().peek()`: the first fragment number not buffered.
   Among 1 .. |frags|+1 one is not buffered, so the search needs no more fuel than that. *)
Fixpoint first_absent (fuel : nat) (present : Z -> bool) (te k : Z) : option Z :=
  match fuel with
  | O => None
  | S n => if te <? k then None else if present k then first_absent n present te (k + 1) else Some k
  end.

Definition wid_of (g : list Z) : list Z := skipn 12 g.

(* RtpsWriterProxy::write_message: the ACKNACK (+ NACK_FRAG) reply *)
Definition write_message (reid : list Z) (p : wproxy) : res (wproxy * outs) :=
  if wp_must p then
    let p1 := mk_wp (wp_guid p) (wp_first p) (wp_last p) (wp_high p) false (wp_hb p) (wp_hbf p)
                    (wrap_i32 (wp_an p + 1)) (wrap_i32 (wp_nf p + 1)) (wp_frags p) in
    fm <- first_missing p1 ;;
    let cand := range_take 256 fm (highest p1) in
    let minfrag := min_frag_sn (wp_frags p1) in
    let missing := take_while (fun x => x <? minfrag) cand in
    am <- avail_max p1 ;;
    base <- add1 S_WP_BASE am ;;
    (* SequenceNumberSet::new(base, missing): base = fm and the members lie in fm .. fm+255 *)
    let ack := OAck reid (wid_of (wp_guid p1)) base missing (wp_an p1) in
    match find (has_frag (wp_frags p1)) cand with
    | Some s =>
        match find (fun f => fr_sn f =? s) (wp_frags p1) with
        | Some f =>
            if fr_size f =? 0 then Panic S_WP_DIV else
            let te := div_ceil (fr_dsize f) (fr_size f) in
            let present := has_frag_num (wp_frags p1) s in
            let fbase := match first_absent (S (length (wp_frags p1))) present te 1 with Some k => k | None => 1 end in
            (* FragmentNumberSet::new(fbase, members): members lie in fbase .. fbase+255 *)
            let members := filter (fun k => negb (present k)) (range_take 256 fbase te) in
            Ok (p1, [[ack; ONackFrag reid (wid_of (wp_guid p1)) s fbase members (wp_nf p1)]])
        | None => Ok (p1, [[ack]])
        end
    | None => Ok (p1, [[ack]])
    end
  else
    (* `self.must_send_acknacks() || !self.missing_changes().count() == 0`: the right operand is
       evaluated; `!n == 0` is false for every count *)
    _ <- first_missing p ;; Ok (p, []).

(* push_data_frag *)
Definition push_frag (p : wproxy) (f : frag) : wproxy :=
  if has_frag_num (wp_frags p) (fr_sn f) (fr_start f) then p else set_wp_frags p (wp_frags p ++ [f]).

Definition frags_of (l : list frag) (s : Z) : list frag := filter (fun f => fr_sn f =? s) l.
Definition frag_sum (l : list frag) : Z := fold_right (fun f a => fr_count f + a) 0 l.

(* reconstruct_data_from_frag: (proxy afterwards, a DATA was rebuilt) *)
Definition reconstruct (p : wproxy) (s : Z) : res (wproxy * bool) :=
  match find (fun f => fr_sn f =? s) (wp_frags p) with
  | None => Ok (p, false)
  | Some f0 =>
      if fr_size f0 =? 0 then Panic S_WP_DIV else
      let te := fr_dsize f0 / fr_size f0 + (if fr_dsize f0 mod fr_size f0 =? 0 then 0 else 1) in
      let tot := frag_sum (frags_of (wp_frags p) s) in
      if u32_max <? tot then Panic S_WP_FRAGSUM else
      if tot =? te then
        (* `for frag_number in 0..=total_fragments`, then `find(.. fragment_starting_num() == 1)?` *)
        if has_frag_num (wp_frags p) s 1
        then Ok (set_wp_frags p (filter (fun f => negb (fr_sn f =? s)) (wp_frags p)), true)
        else Ok (p, false)
      else Ok (p, false)
  end.
(* trip count of that loop times the length of the buffer it scans in every iteration *)
Definition reconstruct_steps (p : wproxy) (s : Z) : Z :=
  match find (fun f => fr_sn f =? s) (wp_frags p) with
  | None => 0
  | Some f0 =>
      if fr_size f0 =? 0 then 0 else
      let te := fr_dsize f0 / fr_size f0 + (if fr_dsize f0 mod fr_size f0 =? 0 then 0 else 1) in
      let tot := frag_sum (frags_of (wp_frags p) s) in
      if tot =? te then (tot + 1) * len (wp_frags p) else 0
  end.

(* bytes copied into the reassembly buffer `data` of that loop (Vec::new() grown by
   extend_from_slice): the payloads of the buffered fragments of the sample whose starting number is
   in 0..=total — what is RECEIVED, never the announced data_size *)
Definition reconstruct_alloc (p : wproxy) (s : Z) : Z :=
  match find (fun f => fr_sn f =? s) (wp_frags p) with
  | None => 0
  | Some f0 =>
      if fr_size f0 =? 0 then 0 else
      let te := fr_dsize f0 / fr_size f0 + (if fr_dsize f0 mod fr_size f0 =? 0 then 0 else 1) in
      let tot := frag_sum (frags_of (wp_frags p) s) in
      if tot =? te
      then sumZ (map fr_len (filter (fun f => (0 <=? fr_start f) && (fr_start f <=? tot)) (frags_of (wp_frags p) s)))
      else 0
  end.

(* RtpsStatefulReader::on_data_submessage on the matching proxy *)
Definition on_data_proxy (rel : bool) (s : Z) (p : wproxy) : res wproxy :=
  e <- expected p ;;
  if rel then Ok (if s =? e then received_set p s else p)
  else if e <=? s then
         let p1 := received_set p s in Ok (if e <? s then set_wp_first p1 s else p1)
       else Ok p.

(* RtpsStatefulReader::on_data_frag_submessage on the matching proxy (fragment_size <> 0) *)
Definition frag_pushed (rel : bool) (f : frag) (p : wproxy) : res wproxy :=
  e <- expected p ;;
  Ok (if (if rel then fr_sn f =? e else e <=? fr_sn f) then push_frag p f else p).
Definition on_frag_proxy (rel : bool) (f : frag) (p : wproxy) : res wproxy :=
  p1 <- frag_pushed rel f p ;;
  r <- reconstruct p1 (fr_sn f) ;;
  if snd r then on_data_proxy rel (fr_sn f) (fst r) else Ok (fst r).
Definition frag_steps (rel : bool) (f : frag) (p : wproxy) : Z :=
  match frag_pushed rel f p with Ok p1 => reconstruct_steps p1 (fr_sn f) | _ => 0 end.

Definition frag_alloc (rel : bool) (f : frag) (p : wproxy) : Z :=
  match frag_pushed rel f p with Ok p1 => reconstruct_alloc p1 (fr_sn f) | _ => 0 end.

(* handle_heartbeat_submessage on the matching proxy *)
Definition hb_proxy (reid : list Z) (final live : bool) (first last count : Z) (p : wproxy) : res (wproxy * outs) :=
  if wp_hb p <? count then
    let p1 := mk_wp (wp_guid p) first last (wp_high p) (wp_must p) count (wp_hbf p) (wp_an p) (wp_nf p) (wp_frags p) in
    (* !final || (!liveliness && missing_changes().count() > 0), evaluated left to right *)
    must <- (if negb final then Ok true else if live then Ok false else mc <- missing_count p1 ;; Ok (0 <? mc)) ;;
    write_message reid (mk_wp (wp_guid p1) (wp_first p1) (wp_last p1) (wp_high p1) must (wp_hb p1) (wp_hbf p1)
                              (wp_an p1) (wp_nf p1) (wp_frags p1))
  else Ok (p, []).
(* is_historical_data_received of one proxy (user-defined readers, after every HEARTBEAT) *)
Definition is_hist (p : wproxy) : res bool :=
  if 0 <? wp_hb p then mc <- missing_count p ;; Ok (mc =? 0) else Ok false.

(* SequenceNumberSet::set(): `base.checked_add(delta).filter(|sn| *sn < i64::MAX)`: the iteration
   ends at the first set bit whose number would be i64::MAX or beyond *)
Fixpoint sn_members_from (base : Z) (ws : list Z) (n : nat) (i : Z) : list Z :=
  match n with
  | O => []
  | S k =>
      if bit_set ws i then
        if base + i <? i64_max then base + i :: sn_members_from base ws k (i + 1) else []
      else sn_members_from base ws k (i + 1)
  end.
Definition sn_members (s : snset) : list Z :=
  sn_members_from (ss_base s) (ss_map s) (Z.to_nat (ss_bits s)) 0.

(* irrelevant_change_range (91937ff): the range is only taken when it is contiguous with what is
   accounted for; available_changes_max() is evaluated first *)
Definition raise_range (p : wproxy) (first last : Z) : res wproxy :=
  am <- avail_max p ;;
  Ok (if (first <=? Z.min i64_max (am + 1)) && (wp_high p <? last) then set_wp_high p last else p).
(* irrelevant_change_set a = irrelevant_change_range a a, for every member of the set *)
Fixpoint raise_all (ms : list Z) (p : wproxy) : res wproxy :=
  match ms with [] => Ok p | x :: t => q <- raise_range p x x ;; raise_all t q end.
(* handle_gap_submessage on the matching proxy: the range gap_start..base in one step, then the set *)
Definition gap_proxy (start : Z) (gl : snset) (p : wproxy) : res wproxy :=
  p1 <- (if start <? ss_base gl then raise_range p start (ss_base gl - 1) else Ok p) ;;
  raise_all (sn_members gl) p1.

Definition hbf_proxy (count : Z) (p : wproxy) : wproxy := if wp_hb p <? count then set_wp_hbf p count else p.

(* ----------------------------------------------------------- look-ups (`find`) *)
Fixpoint upd_proxy {P} (guid_of : P -> list Z) (g : list Z) (f : P -> res (P * outs)) (l : list P) : res (list P * outs) :=
  match l with
  | [] => Ok ([], [])
  | p :: t =>
      if list_eqb (guid_of p) g then r <- f p ;; Ok (fst r :: t, snd r)
      else r <- upd_proxy guid_of g f t ;; Ok (p :: fst r, snd r)
  end.
Definition quiet {P} (f : P -> res P) (p : P) : res (P * outs) := x <- f p ;; Ok (x, []).
Fixpoint for_each {E} (f : E -> res (E * outs)) (l : list E) : res (list E * outs) :=
  match l with
  | [] => Ok ([], [])
  | e :: t => r <- f e ;; rs <- for_each f t ;; Ok (fst r :: fst rs, snd r ++ snd rs)
  end.
(* `!matched_writers.iter().any(|p| !p.is_historical_data_received())` stops at the first
   proxy that is not complete *)
Fixpoint probe_all (l : list wproxy) : res unit :=
  match l with [] => Ok tt | p :: t => h <- is_hist p ;; if h then probe_all t else Ok tt end.

Definition with_proxies (r : sreader) (x : res (list wproxy * outs)) : res (sreader * outs) :=
  y <- x ;; Ok (mk_sr (sr_eid r) (sr_rel r) (sr_user r) (fst y), snd y).

(* ---------------------------------------------------------------- the readers *)
Definition reader_data (src wid : list Z) (s : Z) (r : sreader) : res (sreader * outs) :=
  if s =? i64_max then Ok (r, []) else
  with_proxies r (upd_proxy wp_guid (src ++ wid) (quiet (on_data_proxy (sr_rel r) s)) (sr_proxies r)).
Definition reader_frag (src wid : list Z) (f : frag) (r : sreader) : res (sreader * outs) :=
  if (fr_size f =? 0) || (fr_sn f =? i64_max) then Ok (r, []) else
  if fr_len f + 1 <? fr_count f then Ok (r, []) else
  with_proxies r (upd_proxy wp_guid (src ++ wid) (quiet (on_frag_proxy (sr_rel r) f)) (sr_proxies r)).
Definition reader_gap (src wid : list Z) (start : Z) (gl : snset) (r : sreader) : res (sreader * outs) :=
  with_proxies r (upd_proxy wp_guid (src ++ wid) (quiet (gap_proxy start gl)) (sr_proxies r)).
Definition reader_hb (src wid : list Z) (final live : bool) (first last count : Z) (r : sreader) : res (sreader * outs) :=
  x <- with_proxies r (upd_proxy wp_guid (src ++ wid) (hb_proxy (sr_eid r) final live first last count) (sr_proxies r)) ;;
  _ <- (if sr_user r then probe_all (sr_proxies (fst x)) else Ok tt) ;;
  Ok x.
Definition reader_hbf (src wid : list Z) (count : Z) (r : sreader) : res (sreader * outs) :=
  with_proxies r (upd_proxy wp_guid (src ++ wid) (quiet (fun p => Ok (hbf_proxy count p))) (sr_proxies r)).

(* ---------------------------------------------------------------- the writers *)
Definition find_change (w : swriter) (s : Z) : option change := find (fun c => ch_sn c =? s) (sw_changes w).
Definition nfrags (w : swriter) (c : change) : res Z :=
  if sw_dmax w =? 0 then Panic S_SW_DIV else Ok (div_ceil (ch_len c) (sw_dmax w)).
Definition has_unsent (w : swriter) (rp : rproxy) : bool := existsb (fun c => rp_sent rp <? ch_sn c) (sw_changes w).
Definition frag_len (w : swriter) (c : change) (k : Z) : Z :=
  Z.min (k * sw_dmax w) (ch_len c) - (k - 1) * sw_dmax w.

(* the middle part of write_message_reliable for one requested sequence number *)
Definition send_requested (w : swriter) (rp : rproxy) (s : Z) : res (list osum) :=
  match find (fun c => (ch_sn c =? s) && (rp_first_rel rp <? s)) (sw_changes w) with
  | Some c =>
      n <- nfrags w c ;;
      if (1 <? n) && ch_alive c
      then Ok [ODataFrag (wid_of (rp_guid rp)) (sw_eid w) s 1 (frag_len w c 1)]
      else Ok [OData (wid_of (rp_guid rp)) (sw_eid w) s (ch_len c)]
  | None => b <- add1 S_SW_REQGAP s ;; Ok [OGap (repeat 0 4) (sw_eid w) s b]
  end.
Fixpoint send_all (w : swriter) (rp : rproxy) (l : list Z) : res outs :=
  match l with
  | [] => Ok []
  | s :: t => o <- send_requested w rp s ;; os <- send_all w rp t ;; Ok (o :: os)
  end.

(* on_acknack_submessage_received on the matching reader proxy *)
Definition acknack_proxy (w : swriter) (st : snset) (count : Z) (rp : rproxy) : res (rproxy * outs) :=
  if rp_rel rp && (rp_an rp <? count) then
    let acked := Z.max i64_min (ss_base st - 1) in       (* saturating_sub *)
    let ms := sn_members st in
    let rp1 := mk_rp (rp_guid rp) (rp_rel rp) (rp_sent rp) (if rp_acked rp <? acked then acked else rp_acked rp)
                     count (rp_nf rp) (rp_first_rel rp) in
    (* top part of write_message_reliable: changes not yet sent.  Every change is sent when it is
       added (add_change calls write_message), so a received ACKNACK finds none: not modelled *)
    if has_unsent w rp1 then Err E_UNSENT else
    o <- send_all w rp1 ms ;; Ok (rp1, o)
  else Ok (rp, []).

Definition with_rproxies (w : swriter) (x : res (list rproxy * outs)) : res (swriter * outs) :=
  y <- x ;; Ok (mk_sw (sw_eid w) (sw_changes w) (sw_dmax w) (fst y), snd y).

Definition writer_acknack (src rid wid : list Z) (st : snset) (count : Z) (w : swriter) : res (swriter * outs) :=
  if list_eqb (sw_eid w) wid
  then with_rproxies w (upd_proxy rp_guid (src ++ rid) (acknack_proxy w st count) (sw_proxies w))
  else Ok (w, []).

(* on_nack_frag_submessage_received on the matching reader proxy (1001a3e: only by the writer the
   submessage is addressed to) *)
Definition nackfrag_proxy (w : swriter) (s : Z) (fs : fnset) (count : Z) (rp : rproxy) : res (rproxy * outs) :=
  if rp_rel rp && (rp_nf rp <? count) then
    let rp1 := mk_rp (rp_guid rp) (rp_rel rp) (rp_sent rp) (rp_acked rp) (rp_an rp) count (rp_first_rel rp) in
    match find_change w s with
    | Some c =>
        n <- nfrags w c ;;
        ms <- lift_se (fnset_members fs) ;;
        let reqs := fs_base fs :: filter (fun k => negb (k =? fs_base fs)) ms in
        Ok (rp1, map (fun k => [ODataFrag (wid_of (rp_guid rp)) (sw_eid w) s k (frag_len w c k)])
                     (filter (fun k => (1 <=? k) && (k <=? n) && ch_alive c) reqs))
    | None => Ok (rp1, [[OGap (repeat 0 4) (sw_eid w) s (Z.min i64_max (s + 1))]])     (* saturating_add *)
    end
  else Ok (rp, []).
Definition writer_nackfrag (src rid wid : list Z) (s : Z) (fs : fnset) (count : Z) (w : swriter) : res (swriter * outs) :=
  if list_eqb (sw_eid w) wid
  then with_rproxies w (upd_proxy rp_guid (src ++ rid) (nackfrag_proxy w s fs count) (sw_proxies w))
  else Ok (w, []).

(* ------------------------------------------------ handle_data: one submessage *)
Definition on_readers (st : pstate) (f : sreader -> res (sreader * outs)) : res (pstate * outs) :=
  r <- for_each f (ps_readers st) ;; Ok (mk_ps (fst r) (ps_writers st), snd r).
Definition on_writers (st : pstate) (f : swriter -> res (swriter * outs)) : res (pstate * outs) :=
  r <- for_each f (ps_writers st) ;; Ok (mk_ps (ps_readers st) (fst r), snd r).

Definition handle_sub (rs : rstate) (st : pstate) (m : psub) : res (rstate * pstate * outs) :=
  match m with
  | InfoDst p => Ok (mk_rs (rs_src rs) p (rs_have_ts rs) (rs_ts rs), st, [])
  | InfoSrc _ _ p => Ok (mk_rs p (rs_dst rs) (rs_have_ts rs) (rs_ts rs), st, [])
  | InfoTs inval s f =>
      Ok (if inval then mk_rs (rs_src rs) (rs_dst rs) false (u32_max, u32_max)
          else mk_rs (rs_src rs) (rs_dst rs) true (s, f), st, [])
  | InfoReply _ _ _ => Ok (rs, st, [])
  | Pad => Ok (rs, st, [])
  | Data _ _ _ _ _ wid s _ _ =>
      (* the SPDP stateless reader only pushes a cache change; then every stateful reader *)
      r <- on_readers st (reader_data (rs_src rs) wid s) ;; Ok (rs, fst r, snd r)
  | DataFrag _ _ _ _ wid s fs fc fz ds _ payload =>
      r <- on_readers st (reader_frag (rs_src rs) wid (mk_frag s fs fc fz ds (len payload))) ;; Ok (rs, fst r, snd r)
  | Gap _ wid start gl =>
      r <- on_readers st (reader_gap (rs_src rs) wid start gl) ;; Ok (rs, fst r, snd r)
  | Heartbeat final live _ wid first last count =>
      if first <=? 0 then Ok (rs, st, []) else
      r <- on_readers st (reader_hb (rs_src rs) wid final live first last count) ;; Ok (rs, fst r, snd r)
  | HeartbeatFrag _ wid _ _ count =>
      r <- on_readers st (reader_hbf (rs_src rs) wid count) ;; Ok (rs, fst r, snd r)
  | AckNack _ rid wid state count =>
      r <- on_writers st (writer_acknack (rs_src rs) rid wid state count) ;; Ok (rs, fst r, snd r)
  | NackFrag rid wid s fstate count =>
      r <- on_writers st (writer_nackfrag (rs_src rs) rid wid s fstate count) ;; Ok (rs, fst r, snd r)
  end.

Fixpoint handle_subs (rs : rstate) (st : pstate) (l : list psub) : res (pstate * outs) :=
  match l with
  | [] => Ok (st, [])
  | m :: t => r <- handle_sub rs st m ;;
              match r with (rs1, st1, o) => r2 <- handle_subs rs1 st1 t ;; Ok (fst r2, o ++ snd r2) end
  end.

(* DcpsDomainParticipant::handle_data *)
Definition handle_datagram (st : pstate) (bytes : list Z) : res (pstate * outs) :=
  match parse_message bytes with
  | Ok (h, l) => handle_subs (rs_init h) st l
  | Err _ => Ok (st, [])
  | Panic x => Panic (S_SE + x)
  end.

(* ----------------------------------------------- work chosen by the sender
   trip count of the one loop whose bound is an arithmetic function of wire values: the
   reassembly loop (trips x buffer length).  Every other loop of the handlers runs over a decoded
   set (at most 256 members, enforced by the decoder) or over a container of the participant. *)
Definition proxy_steps (g : list Z) (f : wproxy -> Z) (l : list wproxy) : Z :=
  match find (fun p => list_eqb (wp_guid p) g) l with Some p => f p | None => 0 end.
Definition sub_steps (rs : rstate) (st : pstate) (m : psub) : Z :=
  match m with
  | DataFrag _ _ _ _ wid s fs fc fz ds _ payload =>
      if (fz =? 0) || (s =? i64_max) || (len payload + 1 <? fc) then 0 else
      sumZ (map (fun r => proxy_steps (rs_src rs ++ wid) (frag_steps (sr_rel r) (mk_frag s fs fc fz ds (len payload)))
                                      (sr_proxies r)) (ps_readers st))
  | _ => 0
  end.
Fixpoint subs_steps (rs : rstate) (st : pstate) (l : list psub) : Z :=
  match l with
  | [] => 0
  | m :: t => sub_steps rs st m +
              match handle_sub rs st m with Ok (rs1, st1, _) => subs_steps rs1 st1 t | _ => 0 end
  end.
Definition datagram_steps (st : pstate) (bytes : list Z) : Z :=
  match parse_message bytes with Ok (h, l) => subs_steps (rs_init h) st l | _ => 0 end.

(* allocation of the handlers that depends on wire values: the reassembly buffers (everything else
   the handlers allocate is a reply of fixed size or a copy of the participant's own history) *)
Definition sub_alloc (rs : rstate) (st : pstate) (m : psub) : Z :=
  match m with
  | DataFrag _ _ _ _ wid s fs fc fz ds _ payload =>
      if (fz =? 0) || (s =? i64_max) || (len payload + 1 <? fc) then 0 else
      sumZ (map (fun r => proxy_steps (rs_src rs ++ wid) (frag_alloc (sr_rel r) (mk_frag s fs fc fz ds (len payload)))
                                      (sr_proxies r)) (ps_readers st))
  | _ => 0
  end.
Fixpoint subs_alloc (rs : rstate) (st : pstate) (l : list psub) : Z :=
  match l with
  | [] => 0
  | m :: t => sub_alloc rs st m +
              match handle_sub rs st m with Ok (rs1, st1, _) => subs_alloc rs1 st1 t | _ => 0 end
  end.
Definition datagram_alloc (st : pstate) (bytes : list Z) : Z :=
  match parse_message bytes with Ok (h, l) => subs_alloc (rs_init h) st l | _ => 0 end.

(* -------------------------------------------------------------- the invariant *)
Definition frag_ok (f : frag) : Prop := 0 <= fr_count f <= fr_len f + 1 /\ fr_size f <> 0 /\ 0 <= fr_len f.
(* bytes of buffered fragments (+1 per fragment) *)
Definition frag_weight (l : list frag) : Z := fold_right (fun f a => fr_len f + 1 + a) 0 l.
Definition FRAG_CAP : Z := 2147483648.
(* C: bound on the bytes of buffered fragments per proxy *)
Definition wproxy_ok (C : Z) (p : wproxy) : Prop :=
  i64_min < wp_first p <= i64_max /\ 0 <= wp_high p < i64_max /\
  Forall frag_ok (wp_frags p) /\ frag_weight (wp_frags p) <= C.
Definition swriter_ok (w : swriter) : Prop :=
  sw_dmax w <> 0 /\ Forall (fun c => ch_sn c < i64_max) (sw_changes w) /\
  (* every change has been sent to every matched reader *)
  Forall (fun rp => has_unsent w rp = false) (sw_proxies w).
Definition InvC (C : Z) (st : pstate) : Prop :=
  Forall (fun r => Forall (wproxy_ok C) (sr_proxies r)) (ps_readers st) /\ Forall swriter_ok (ps_writers st).
Definition Inv (st : pstate) : Prop := InvC FRAG_CAP st.
(* bytes a datagram can add to a fragment buffer *)
Definition frag_bytes_sub (m : psub) : Z :=
  match m with DataFrag _ _ _ _ _ _ _ _ _ _ _ payload => len payload + 1 | _ => 0 end.
Definition frag_bytes (l : list psub) : Z := sumZ (map frag_bytes_sub l).

Definition ziota (n : Z) : list Z := map Z.of_nat (seq 0 (Z.to_nat n)).
Definition fset_overflows (s : fnset) : bool :=
  existsb (fun i => bit_set (fs_map s) i && (u32_max <? fs_base s + i)) (ziota (fs_bits s)).
Definition subs_of (bytes : list Z) : list psub :=
  match parse_message bytes with Ok (_, l) => l | _ => [] end.

(* every numeric field the handlers compute with lies in its machine range: true for whatever
   the decoder returns on a byte string (Wire/RecvRangeProofs.v) *)
Definition sub_range (m : psub) : Prop :=
  match m with
  | AckNack _ _ _ st _ => in_i64 (ss_base st)
  | Data _ _ _ _ _ _ s _ _ => in_i64 s
  | DataFrag _ _ _ _ _ s _ fc _ _ _ _ => in_i64 s /\ 0 <= fc
  | Gap _ _ start gl => in_i64 start /\ in_i64 (ss_base gl)
  | Heartbeat _ _ _ _ first last _ => in_i64 first /\ in_i64 last
  | NackFrag _ _ s fs _ => in_i64 s /\ fset_overflows fs = false
  | _ => True
  end.

(* ------------------------------------------------------------------ isolation *)
(* the guid prefixes a datagram speaks for: the header's and every INFO_SOURCE's *)
Definition claimed (bytes : list Z) : list (list Z) :=
  match parse_message bytes with
  | Ok (h, l) => h_prefix h :: flat_map (fun m => match m with InfoSrc _ _ p => [p] | _ => [] end) l
  | _ => []
  end.
Definition speaks_for (ps : list (list Z)) (g : list Z) : bool :=
  existsb (fun pre => list_eqb (firstn (length pre) g) pre) ps.
(* the proxies of the participants the datagram does not speak for *)
Definition others (ps : list (list Z)) (st : pstate) : list (list wproxy) * list (list rproxy) :=
  (map (fun r => filter (fun p => negb (speaks_for ps (wp_guid p))) (sr_proxies r)) (ps_readers st),
   map (fun w => filter (fun p => negb (speaks_for ps (rp_guid p))) (sw_proxies w)) (ps_writers st)).

(* size of the RTPS state the handlers walk over *)
Definition reader_weight (r : sreader) : Z :=
  1 + sumZ (map (fun p => 1 + frag_weight (wp_frags p)) (sr_proxies r)).
Definition state_frag_weight (st : pstate) : Z := sumZ (map reader_weight (ps_readers st)).

(* ------------------------------------------------------------------ histories *)
Fixpoint run_datagrams (st : pstate) (ds : list (list Z)) : res pstate :=
  match ds with
  | [] => Ok st
  | d :: t => r <- handle_datagram st d ;; run_datagrams (fst r) t
  end.
Definition total_frag_bytes (ds : list (list Z)) : Z := sumZ (map (fun d => frag_bytes (subs_of d)) ds).

(* the bound claimed for the sender-chosen work of one datagram *)
Definition steps_bound (nsubs nreaders C : Z) : Z := nsubs * nreaders * ((C + 1) * (C + 1)).
Definition alloc_bound (nsubs nreaders C : Z) : Z := nsubs * nreaders * C.

(* ------------------------------------------------- a concrete participant state
   one user-defined reliable reader matched with the writer 00000002 of participant S
   (nothing received yet) and one writer with one 44-byte sample matched with S's reader *)
Definition PFX_S : list Z := [5; 6; 7; 8; 1; 2; 3; 4; 2; 0; 0; 0].
Definition demo_state : pstate :=
  mk_ps [mk_sr [0; 0; 0; 7] true true [mk_wp (PFX_S ++ [0; 0; 0; 2]) 1 0 0 false 0 0 0 0 []]]
        [mk_sw [0; 0; 0; 2] [mk_ch 1 44 true] 1344 [mk_rp (PFX_S ++ [0; 0; 0; 7]) true 1 1 1 0 0]].
(* generated by /verif/props/c06_wire.py: witness datagrams *)
Definition w_inforeply : list Z := [82;84;80;83;2;4;1;20;9;9;9;9;9;9;9;9;9;9;9;9;15;1;28;0;1;0;0;0;1;0;0;0;232;28;0;0;0;0;0;0;0;0;0;0;0;0;0;0;127;0;0;1].
Definition w_gap_range : list Z := [82;84;80;83;2;4;1;20;5;6;7;8;1;2;3;4;2;0;0;0;8;1;28;0;0;0;0;7;0;0;0;2;0;0;0;0;1;0;0;0;0;0;0;64;0;0;0;0;0;0;0;0].
Definition w_set_iter : list Z := [82;84;80;83;2;4;1;20;5;6;7;8;1;2;3;4;2;0;0;0;6;1;28;0;0;0;0;7;0;0;0;2;255;255;255;127;254;255;255;255;6;0;0;0;0;0;0;4;9;0;0;0].
Definition w_set_member_max : list Z := [82;84;80;83;2;4;1;20;5;6;7;8;1;2;3;4;2;0;0;0;6;1;28;0;0;0;0;7;0;0;0;2;255;255;255;127;245;255;255;255;11;0;0;0;0;0;32;0;9;0;0;0].
Definition w_gap_member_max : list Z := [82;84;80;83;2;4;1;20;5;6;7;8;1;2;3;4;2;0;0;0;8;1;32;0;0;0;0;7;0;0;0;2;255;255;255;127;255;255;255;255;255;255;255;127;255;255;255;255;1;0;0;0;0;0;0;128].
Definition w_data_5 : list Z := [82;84;80;83;2;4;1;20;5;6;7;8;1;2;3;4;2;0;0;0;21;5;36;0;0;0;16;0;0;0;0;7;0;0;0;2;0;0;0;0;5;0;0;0;0;1;0;1;1;0;0;0;3;0;0;0;97;98;99;0].
Definition w_acknack_min : list Z := [82;84;80;83;2;4;1;20;5;6;7;8;1;2;3;4;2;0;0;0;6;1;24;0;0;0;0;7;0;0;0;2;0;0;0;128;0;0;0;0;0;0;0;0;9;0;0;0].
Definition w_hb_min : list Z := [82;84;80;83;2;4;1;20;5;6;7;8;1;2;3;4;2;0;0;0;7;1;28;0;0;0;0;7;0;0;0;2;0;0;0;128;0;0;0;0;0;0;0;0;5;0;0;0;7;0;0;0].
Definition w_hb_min_final : list Z := [82;84;80;83;2;4;1;20;5;6;7;8;1;2;3;4;2;0;0;0;7;3;28;0;0;0;0;7;0;0;0;2;0;0;0;128;0;0;0;0;0;0;0;0;0;0;0;0;7;0;0;0].
Definition w_data_1 : list Z := [82;84;80;83;2;4;1;20;5;6;7;8;1;2;3;4;2;0;0;0;21;5;36;0;0;0;16;0;0;0;0;7;0;0;0;2;0;0;0;0;1;0;0;0;0;1;0;1;1;0;0;0;3;0;0;0;97;98;99;0].
Definition w_nackfrag_max : list Z := [82;84;80;83;2;4;1;20;5;6;7;8;1;2;3;4;2;0;0;0;18;1;32;0;0;0;0;7;0;0;0;2;255;255;255;127;255;255;255;255;1;0;0;0;1;0;0;0;0;0;0;128;3;0;0;0].
Definition w_hb_first_max : list Z := [82;84;80;83;2;4;1;20;5;6;7;8;1;2;3;4;2;0;0;0;7;3;28;0;0;0;0;7;0;0;0;2;255;255;255;127;255;255;255;255;255;255;255;127;255;255;255;255;7;0;0;0].
Definition w_data_max : list Z := [82;84;80;83;2;4;1;20;5;6;7;8;1;2;3;4;2;0;0;0;21;5;36;0;0;0;16;0;0;0;0;7;0;0;0;2;255;255;255;127;255;255;255;255;0;1;0;1;1;0;0;0;3;0;0;0;97;98;99;0].
Definition w_data_3 : list Z := [82;84;80;83;2;4;1;20;5;6;7;8;1;2;3;4;2;0;0;0;21;5;36;0;0;0;16;0;0;0;0;7;0;0;0;2;0;0;0;0;3;0;0;0;0;1;0;1;1;0;0;0;3;0;0;0;97;98;99;0].
Definition w_frag_flood : list Z := [82;84;80;83;2;4;1;20;5;6;7;8;1;2;3;4;2;0;0;0;22;1;33;0;0;0;28;0;0;0;0;7;0;0;0;2;0;0;0;0;1;0;0;0;1;0;0;0;255;255;1;0;206;255;49;0;120;22;1;33;0;0;0;28;0;0;0;0;7;0;0;0;2;0;0;0;0;1;0;0;0;2;0;0;0;255;255;1;0;206;255;49;0;120;22;1;33;0;0;0;28;0;0;0;0;7;0;0;0;2;0;0;0;0;1;0;0;0;3;0;0;0;255;255;1;0;206;255;49;0;120;22;1;33;0;0;0;28;0;0;0;0;7;0;0;0;2;0;0;0;0;1;0;0;0;4;0;0;0;255;255;1;0;206;255;49;0;120;22;1;33;0;0;0;28;0;0;0;0;7;0;0;0;2;0;0;0;0;1;0;0;0;5;0;0;0;255;255;1;0;206;255;49;0;120;22;1;33;0;0;0;28;0;0;0;0;7;0;0;0;2;0;0;0;0;1;0;0;0;6;0;0;0;255;255;1;0;206;255;49;0;120;22;1;33;0;0;0;28;0;0;0;0;7;0;0;0;2;0;0;0;0;1;0;0;0;7;0;0;0;255;255;1;0;206;255;49;0;120;22;1;33;0;0;0;28;0;0;0;0;7;0;0;0;2;0;0;0;0;1;0;0;0;8;0;0;0;255;255;1;0;206;255;49;0;120;22;1;33;0;0;0;28;0;0;0;0;7;0;0;0;2;0;0;0;0;1;0;0;0;9;0;0;0;255;255;1;0;206;255;49;0;120;22;1;33;0;0;0;28;0;0;0;0;7;0;0;0;2;0;0;0;0;1;0;0;0;10;0;0;0;255;255;1;0;206;255;49;0;120;22;1;33;0;0;0;28;0;0;0;0;7;0;0;0;2;0;0;0;0;1;0;0;0;11;0;0;0;255;255;1;0;206;255;49;0;120;22;1;33;0;0;0;28;0;0;0;0;7;0;0;0;2;0;0;0;0;1;0;0;0;12;0;0;0;255;255;1;0;206;255;49;0;120;22;1;33;0;0;0;28;0;0;0;0;7;0;0;0;2;0;0;0;0;1;0;0;0;13;0;0;0;255;255;1;0;206;255;49;0;120;22;1;33;0;0;0;28;0;0;0;0;7;0;0;0;2;0;0;0;0;1;0;0;0;14;0;0;0;255;255;1;0;206;255;49;0;120;22;1;33;0;0;0;28;0;0;0;0;7;0;0;0;2;0;0;0;0;1;0;0;0;15;0;0;0;255;255;1;0;206;255;49;0;120;22;1;33;0;0;0;28;0;0;0;0;7;0;0;0;2;0;0;0;0;1;0;0;0;16;0;0;0;255;255;1;0;206;255;49;0;120;22;1;33;0;0;0;28;0;0;0;0;7;0;0;0;2;0;0;0;0;1;0;0;0;17;0;0;0;255;255;1;0;206;255;49;0;120;22;1;33;0;0;0;28;0;0;0;0;7;0;0;0;2;0;0;0;0;1;0;0;0;18;0;0;0;255;255;1;0;206;255;49;0;120;22;1;33;0;0;0;28;0;0;0;0;7;0;0;0;2;0;0;0;0;1;0;0;0;19;0;0;0;255;255;1;0;206;255;49;0;120;22;1;33;0;0;0;28;0;0;0;0;7;0;0;0;2;0;0;0;0;1;0;0;0;20;0;0;0;255;255;1;0;206;255;49;0;120;22;1;33;0;0;0;28;0;0;0;0;7;0;0;0;2;0;0;0;0;1;0;0;0;21;0;0;0;255;255;1;0;206;255;49;0;120;22;1;33;0;0;0;28;0;0;0;0;7;0;0;0;2;0;0;0;0;1;0;0;0;22;0;0;0;255;255;1;0;206;255;49;0;120;22;1;33;0;0;0;28;0;0;0;0;7;0;0;0;2;0;0;0;0;1;0;0;0;23;0;0;0;255;255;1;0;206;255;49;0;120;22;1;33;0;0;0;28;0;0;0;0;7;0;0;0;2;0;0;0;0;1;0;0;0;24;0;0;0;255;255;1;0;206;255;49;0;120;22;1;33;0;0;0;28;0;0;0;0;7;0;0;0;2;0;0;0;0;1;0;0;0;25;0;0;0;255;255;1;0;206;255;49;0;120;22;1;33;0;0;0;28;0;0;0;0;7;0;0;0;2;0;0;0;0;1;0;0;0;26;0;0;0;255;255;1;0;206;255;49;0;120;22;1;33;0;0;0;28;0;0;0;0;7;0;0;0;2;0;0;0;0;1;0;0;0;27;0;0;0;255;255;1;0;206;255;49;0;120;22;1;33;0;0;0;28;0;0;0;0;7;0;0;0;2;0;0;0;0;1;0;0;0;28;0;0;0;255;255;1;0;206;255;49;0;120;22;1;33;0;0;0;28;0;0;0;0;7;0;0;0;2;0;0;0;0;1;0;0;0;29;0;0;0;255;255;1;0;206;255;49;0;120;22;1;33;0;0;0;28;0;0;0;0;7;0;0;0;2;0;0;0;0;1;0;0;0;30;0;0;0;255;255;1;0;206;255;49;0;120;22;1;33;0;0;0;28;0;0;0;0;7;0;0;0;2;0;0;0;0;1;0;0;0;31;0;0;0;255;255;1;0;206;255;49;0;120;22;1;33;0;0;0;28;0;0;0;0;7;0;0;0;2;0;0;0;0;1;0;0;0;32;0;0;0;255;255;1;0;206;255;49;0;120;22;1;33;0;0;0;28;0;0;0;0;7;0;0;0;2;0;0;0;0;1;0;0;0;33;0;0;0;255;255;1;0;206;255;49;0;120;22;1;33;0;0;0;28;0;0;0;0;7;0;0;0;2;0;0;0;0;1;0;0;0;34;0;0;0;255;255;1;0;206;255;49;0;120;22;1;33;0;0;0;28;0;0;0;0;7;0;0;0;2;0;0;0;0;1;0;0;0;35;0;0;0;255;255;1;0;206;255;49;0;120;22;1;33;0;0;0;28;0;0;0;0;7;0;0;0;2;0;0;0;0;1;0;0;0;36;0;0;0;255;255;1;0;206;255;49;0;120;22;1;33;0;0;0;28;0;0;0;0;7;0;0;0;2;0;0;0;0;1;0;0;0;37;0;0;0;255;255;1;0;206;255;49;0;120;22;1;33;0;0;0;28;0;0;0;0;7;0;0;0;2;0;0;0;0;1;0;0;0;38;0;0;0;255;255;1;0;206;255;49;0;120;22;1;33;0;0;0;28;0;0;0;0;7;0;0;0;2;0;0;0;0;1;0;0;0;39;0;0;0;255;255;1;0;206;255;49;0;120;22;1;33;0;0;0;28;0;0;0;0;7;0;0;0;2;0;0;0;0;1;0;0;0;40;0;0;0;255;255;1;0;206;255;49;0;120;22;1;33;0;0;0;28;0;0;0;0;7;0;0;0;2;0;0;0;0;1;0;0;0;41;0;0;0;255;255;1;0;206;255;49;0;120;22;1;33;0;0;0;28;0;0;0;0;7;0;0;0;2;0;0;0;0;1;0;0;0;42;0;0;0;255;255;1;0;206;255;49;0;120;22;1;33;0;0;0;28;0;0;0;0;7;0;0;0;2;0;0;0;0;1;0;0;0;43;0;0;0;255;255;1;0;206;255;49;0;120;22;1;33;0;0;0;28;0;0;0;0;7;0;0;0;2;0;0;0;0;1;0;0;0;44;0;0;0;255;255;1;0;206;255;49;0;120;22;1;33;0;0;0;28;0;0;0;0;7;0;0;0;2;0;0;0;0;1;0;0;0;45;0;0;0;255;255;1;0;206;255;49;0;120;22;1;33;0;0;0;28;0;0;0;0;7;0;0;0;2;0;0;0;0;1;0;0;0;46;0;0;0;255;255;1;0;206;255;49;0;120;22;1;33;0;0;0;28;0;0;0;0;7;0;0;0;2;0;0;0;0;1;0;0;0;47;0;0;0;255;255;1;0;206;255;49;0;120;22;1;33;0;0;0;28;0;0;0;0;7;0;0;0;2;0;0;0;0;1;0;0;0;48;0;0;0;255;255;1;0;206;255;49;0;120;22;1;33;0;0;0;28;0;0;0;0;7;0;0;0;2;0;0;0;0;1;0;0;0;49;0;0;0;255;255;1;0;206;255;49;0;120;22;1;33;0;0;0;28;0;0;0;0;7;0;0;0;2;0;0;0;0;1;0;0;0;50;0;0;0;255;255;1;0;206;255;49;0;120].
Definition w_clean : list Z := [82;84;80;83;2;4;1;20;5;6;7;8;1;2;3;4;2;0;0;0;9;1;8;0;1;0;0;0;0;0;0;0;7;1;28;0;0;0;0;7;0;0;0;2;0;0;0;0;1;0;0;0;0;0;0;0;3;0;0;0;5;0;0;0;8;1;32;0;0;0;0;7;0;0;0;2;0;0;0;0;1;0;0;0;0;0;0;0;2;0;0;0;2;0;0;0;0;0;0;64;6;1;28;0;0;0;0;7;0;0;0;2;0;0;0;0;1;0;0;0;2;0;0;0;0;0;0;192;4;0;0;0;22;1;40;0;0;0;28;0;0;0;0;7;0;0;0;2;0;0;0;0;4;0;0;0;1;0;0;0;1;0;8;0;12;0;0;0;0;0;0;0;0;0;0;0;18;1;32;0;0;0;0;7;0;0;0;2;0;0;0;0;1;0;0;0;1;0;0;0;1;0;0;0;0;0;0;128;2;0;0;0;12;1;20;0;0;0;0;0;2;4;1;20;9;9;9;9;9;9;9;9;9;9;9;9;21;5;36;0;0;0;16;0;0;0;0;7;0;0;0;2;0;0;0;0;4;0;0;0;0;1;0;1;1;0;0;0;3;0;0;0;97;98;99;0].

(* the datagrams that panicked / hung the participant before the repairs, in one history *)
Definition former_witnesses : list (list Z) :=
  [w_inforeply; w_gap_range; w_set_iter; w_set_member_max; w_gap_member_max; w_data_5; w_acknack_min; w_hb_min;
   w_hb_min_final; w_data_1; w_nackfrag_max; w_hb_first_max; w_data_max; w_data_3; w_frag_flood].
(* 40 honest DATA_FRAGs (fragment size 1) of a 40-byte sample, in one datagram *)
Definition w_honest_frags : list Z := [82;84;80;83;2;4;1;20;5;6;7;8;1;2;3;4;2;0;0;0;22;1;33;0;0;0;28;0;0;0;0;7;0;0;0;2;0;0;0;0;1;0;0;0;1;0;0;0;1;0;1;0;40;0;0;0;120;22;1;33;0;0;0;28;0;0;0;0;7;0;0;0;2;0;0;0;0;1;0;0;0;2;0;0;0;1;0;1;0;40;0;0;0;120;22;1;33;0;0;0;28;0;0;0;0;7;0;0;0;2;0;0;0;0;1;0;0;0;3;0;0;0;1;0;1;0;40;0;0;0;120;22;1;33;0;0;0;28;0;0;0;0;7;0;0;0;2;0;0;0;0;1;0;0;0;4;0;0;0;1;0;1;0;40;0;0;0;120;22;1;33;0;0;0;28;0;0;0;0;7;0;0;0;2;0;0;0;0;1;0;0;0;5;0;0;0;1;0;1;0;40;0;0;0;120;22;1;33;0;0;0;28;0;0;0;0;7;0;0;0;2;0;0;0;0;1;0;0;0;6;0;0;0;1;0;1;0;40;0;0;0;120;22;1;33;0;0;0;28;0;0;0;0;7;0;0;0;2;0;0;0;0;1;0;0;0;7;0;0;0;1;0;1;0;40;0;0;0;120;22;1;33;0;0;0;28;0;0;0;0;7;0;0;0;2;0;0;0;0;1;0;0;0;8;0;0;0;1;0;1;0;40;0;0;0;120;22;1;33;0;0;0;28;0;0;0;0;7;0;0;0;2;0;0;0;0;1;0;0;0;9;0;0;0;1;0;1;0;40;0;0;0;120;22;1;33;0;0;0;28;0;0;0;0;7;0;0;0;2;0;0;0;0;1;0;0;0;10;0;0;0;1;0;1;0;40;0;0;0;120;22;1;33;0;0;0;28;0;0;0;0;7;0;0;0;2;0;0;0;0;1;0;0;0;11;0;0;0;1;0;1;0;40;0;0;0;120;22;1;33;0;0;0;28;0;0;0;0;7;0;0;0;2;0;0;0;0;1;0;0;0;12;0;0;0;1;0;1;0;40;0;0;0;120;22;1;33;0;0;0;28;0;0;0;0;7;0;0;0;2;0;0;0;0;1;0;0;0;13;0;0;0;1;0;1;0;40;0;0;0;120;22;1;33;0;0;0;28;0;0;0;0;7;0;0;0;2;0;0;0;0;1;0;0;0;14;0;0;0;1;0;1;0;40;0;0;0;120;22;1;33;0;0;0;28;0;0;0;0;7;0;0;0;2;0;0;0;0;1;0;0;0;15;0;0;0;1;0;1;0;40;0;0;0;120;22;1;33;0;0;0;28;0;0;0;0;7;0;0;0;2;0;0;0;0;1;0;0;0;16;0;0;0;1;0;1;0;40;0;0;0;120;22;1;33;0;0;0;28;0;0;0;0;7;0;0;0;2;0;0;0;0;1;0;0;0;17;0;0;0;1;0;1;0;40;0;0;0;120;22;1;33;0;0;0;28;0;0;0;0;7;0;0;0;2;0;0;0;0;1;0;0;0;18;0;0;0;1;0;1;0;40;0;0;0;120;22;1;33;0;0;0;28;0;0;0;0;7;0;0;0;2;0;0;0;0;1;0;0;0;19;0;0;0;1;0;1;0;40;0;0;0;120;22;1;33;0;0;0;28;0;0;0;0;7;0;0;0;2;0;0;0;0;1;0;0;0;20;0;0;0;1;0;1;0;40;0;0;0;120;22;1;33;0;0;0;28;0;0;0;0;7;0;0;0;2;0;0;0;0;1;0;0;0;21;0;0;0;1;0;1;0;40;0;0;0;120;22;1;33;0;0;0;28;0;0;0;0;7;0;0;0;2;0;0;0;0;1;0;0;0;22;0;0;0;1;0;1;0;40;0;0;0;120;22;1;33;0;0;0;28;0;0;0;0;7;0;0;0;2;0;0;0;0;1;0;0;0;23;0;0;0;1;0;1;0;40;0;0;0;120;22;1;33;0;0;0;28;0;0;0;0;7;0;0;0;2;0;0;0;0;1;0;0;0;24;0;0;0;1;0;1;0;40;0;0;0;120;22;1;33;0;0;0;28;0;0;0;0;7;0;0;0;2;0;0;0;0;1;0;0;0;25;0;0;0;1;0;1;0;40;0;0;0;120;22;1;33;0;0;0;28;0;0;0;0;7;0;0;0;2;0;0;0;0;1;0;0;0;26;0;0;0;1;0;1;0;40;0;0;0;120;22;1;33;0;0;0;28;0;0;0;0;7;0;0;0;2;0;0;0;0;1;0;0;0;27;0;0;0;1;0;1;0;40;0;0;0;120;22;1;33;0;0;0;28;0;0;0;0;7;0;0;0;2;0;0;0;0;1;0;0;0;28;0;0;0;1;0;1;0;40;0;0;0;120;22;1;33;0;0;0;28;0;0;0;0;7;0;0;0;2;0;0;0;0;1;0;0;0;29;0;0;0;1;0;1;0;40;0;0;0;120;22;1;33;0;0;0;28;0;0;0;0;7;0;0;0;2;0;0;0;0;1;0;0;0;30;0;0;0;1;0;1;0;40;0;0;0;120;22;1;33;0;0;0;28;0;0;0;0;7;0;0;0;2;0;0;0;0;1;0;0;0;31;0;0;0;1;0;1;0;40;0;0;0;120;22;1;33;0;0;0;28;0;0;0;0;7;0;0;0;2;0;0;0;0;1;0;0;0;32;0;0;0;1;0;1;0;40;0;0;0;120;22;1;33;0;0;0;28;0;0;0;0;7;0;0;0;2;0;0;0;0;1;0;0;0;33;0;0;0;1;0;1;0;40;0;0;0;120;22;1;33;0;0;0;28;0;0;0;0;7;0;0;0;2;0;0;0;0;1;0;0;0;34;0;0;0;1;0;1;0;40;0;0;0;120;22;1;33;0;0;0;28;0;0;0;0;7;0;0;0;2;0;0;0;0;1;0;0;0;35;0;0;0;1;0;1;0;40;0;0;0;120;22;1;33;0;0;0;28;0;0;0;0;7;0;0;0;2;0;0;0;0;1;0;0;0;36;0;0;0;1;0;1;0;40;0;0;0;120;22;1;33;0;0;0;28;0;0;0;0;7;0;0;0;2;0;0;0;0;1;0;0;0;37;0;0;0;1;0;1;0;40;0;0;0;120;22;1;33;0;0;0;28;0;0;0;0;7;0;0;0;2;0;0;0;0;1;0;0;0;38;0;0;0;1;0;1;0;40;0;0;0;120;22;1;33;0;0;0;28;0;0;0;0;7;0;0;0;2;0;0;0;0;1;0;0;0;39;0;0;0;1;0;1;0;40;0;0;0;120;22;1;33;0;0;0;28;0;0;0;0;7;0;0;0;2;0;0;0;0;1;0;0;0;40;0;0;0;1;0;1;0;40;0;0;0;120].
(* a consistent forged DATA_FRAG: 1000 payload bytes, fragmentsInSubmessage 1000, fragmentSize 65535,
   dataSize 65 535 000 (completeness test passes: 1000 = ceil(65535000 / 65535)) *)
Definition w_forged_frag : list Z := [82;84;80;83;2;4;1;20;5;6;7;8;1;2;3;4;2;0;0;0;22;1;8;4;0;0;28;0;0;0;0;7;0;0;0;2;0;0;0;0;1;0;0;0;1;0;0;0;232;3;255;255;24;252;231;3;0;0;0;0;0;0;0;0;0;0;0;0;0;0;0;0;0;0;0;0;0;0;0;0;0;0;0;0;0;0;0;0;0;0;0;0;0;0;0;0;0;0;0;0;0;0;0;0;0;0;0;0;0;0;0;0;0;0;0;0;0;0;0;0;0;0;0;0;0;0;0;0;0;0;0;0;0;0;0;0;0;0;0;0;0;0;0;0;0;0;0;0;0;0;0;0;0;0;0;0;0;0;0;0;0;0;0;0;0;0;0;0;0;0;0;0;0;0;0;0;0;0;0;0;0;0;0;0;0;0;0;0;0;0;0;0;0;0;0;0;0;0;0;0;0;0;0;0;0;0;0;0;0;0;0;0;0;0;0;0;0;0;0;0;0;0;0;0;0;0;0;0;0;0;0;0;0;0;0;0;0;0;0;0;0;0;0;0;0;0;0;0;0;0;0;0;0;0;0;0;0;0;0;0;0;0;0;0;0;0;0;0;0;0;0;0;0;0;0;0;0;0;0;0;0;0;0;0;0;0;0;0;0;0;0;0;0;0;0;0;0;0;0;0;0;0;0;0;0;0;0;0;0;0;0;0;0;0;0;0;0;0;0;0;0;0;0;0;0;0;0;0;0;0;0;0;0;0;0;0;0;0;0;0;0;0;0;0;0;0;0;0;0;0;0;0;0;0;0;0;0;0;0;0;0;0;0;0;0;0;0;0;0;0;0;0;0;0;0;0;0;0;0;0;0;0;0;0;0;0;0;0;0;0;0;0;0;0;0;0;0;0;0;0;0;0;0;0;0;0;0;0;0;0;0;0;0;0;0;0;0;0;0;0;0;0;0;0;0;0;0;0;0;0;0;0;0;0;0;0;0;0;0;0;0;0;0;0;0;0;0;0;0;0;0;0;0;0;0;0;0;0;0;0;0;0;0;0;0;0;0;0;0;0;0;0;0;0;0;0;0;0;0;0;0;0;0;0;0;0;0;0;0;0;0;0;0;0;0;0;0;0;0;0;0;0;0;0;0;0;0;0;0;0;0;0;0;0;0;0;0;0;0;0;0;0;0;0;0;0;0;0;0;0;0;0;0;0;0;0;0;0;0;0;0;0;0;0;0;0;0;0;0;0;0;0;0;0;0;0;0;0;0;0;0;0;0;0;0;0;0;0;0;0;0;0;0;0;0;0;0;0;0;0;0;0;0;0;0;0;0;0;0;0;0;0;0;0;0;0;0;0;0;0;0;0;0;0;0;0;0;0;0;0;0;0;0;0;0;0;0;0;0;0;0;0;0;0;0;0;0;0;0;0;0;0;0;0;0;0;0;0;0;0;0;0;0;0;0;0;0;0;0;0;0;0;0;0;0;0;0;0;0;0;0;0;0;0;0;0;0;0;0;0;0;0;0;0;0;0;0;0;0;0;0;0;0;0;0;0;0;0;0;0;0;0;0;0;0;0;0;0;0;0;0;0;0;0;0;0;0;0;0;0;0;0;0;0;0;0;0;0;0;0;0;0;0;0;0;0;0;0;0;0;0;0;0;0;0;0;0;0;0;0;0;0;0;0;0;0;0;0;0;0;0;0;0;0;0;0;0;0;0;0;0;0;0;0;0;0;0;0;0;0;0;0;0;0;0;0;0;0;0;0;0;0;0;0;0;0;0;0;0;0;0;0;0;0;0;0;0;0;0;0;0;0;0;0;0;0;0;0;0;0;0;0;0;0;0;0;0;0;0;0;0;0;0;0;0;0;0;0;0;0;0;0;0;0;0;0;0;0;0;0;0;0;0;0;0;0;0;0;0;0;0;0;0;0;0;0;0;0;0;0;0;0;0;0;0;0;0;0;0;0;0;0;0;0;0;0;0;0;0;0;0;0;0;0;0;0;0;0;0;0;0;0;0;0;0;0;0;0;0;0;0;0;0;0;0;0;0;0;0;0;0;0;0;0;0;0;0;0;0;0;0;0;0;0;0;0;0;0;0;0;0;0;0;0;0;0;0;0;0;0;0;0;0;0;0;0;0;0;0;0;0;0;0;0;0;0;0;0;0;0;0;0;0;0;0;0;0;0;0;0;0;0;0;0;0;0;0;0;0;0;0;0;0;0;0;0;0;0;0;0;0;0;0;0;0;0;0;0;0;0;0;0;0;0;0;0;0;0;0;0;0;0;0;0;0;0;0;0;0;0;0;0;0;0;0;0;0;0;0;0;0;0;0;0;0;0;0;0;0;0;0;0;0;0;0;0;0;0;0;0;0;0;0;0;0;0].
