(* C07 (RTPS part): the cost output (bytes copied + loop iterations + bytes allocated) of the
   decoder is linear in the input length outside the over-read and rescan classes. *)
From DustDDS Require Import Base.Machine Base.Bytes Wire.WireModel Wire.WireProofs Wire.WireTotalProofs
  Wire.WireMemProofs.
Open Scope Z_scope.
Ltac Zify.zify_post_hook ::= Z.div_mod_to_equations.
Strategy expand [read_param_list].

Definition costs {A} (p : parser A) (k : Z) : Prop := forall s, 0 <= snd (p s) <= k.

Lemma costs_pret : forall A (a : A), costs (pret a) 0.
Proof. intros A a s; cbn; lia. Qed.
Lemma costs_perr : forall A e, costs (@perr A e) 0.
Proof. intros A e s; cbn; lia. Qed.
Lemma costs_ptick : forall n, 0 <= n -> costs (ptick n) n.
Proof. intros n H s; cbn [ptick snd]; lia. Qed.
Lemma costs_plift : forall A (r : res A), costs (plift r) 0.
Proof. intros A r s; destruct r; cbn; lia. Qed.
Lemma costs_read_n : forall n, costs (read_n n) (Z.of_nat n).
Proof. intros n s; unfold read_n; destruct (shorter s (Z.of_nat n)); cbn [snd]; lia. Qed.
Lemma costs_bind : forall A B (p : parser A) (f : A -> parser B) k1 k2,
  costs p k1 -> 0 <= k2 -> (forall a, costs (f a) k2) -> costs (pbind p f) (k1 + k2).
Proof.
  intros A B p f k1 k2 Hp Hk Hf s. unfold pbind. specialize (Hp s).
  destruct (p s) as [[[a s1]|e|x] c]; cbn [snd] in *; try lia.
  specialize (Hf a s1). destruct (f a s1) as [r c']; cbn [snd] in *. lia.
Qed.
Lemma costs_weaken : forall A (p : parser A) k k', costs p k -> k <= k' -> costs p k'.
Proof. intros A p k k' H L s; specialize (H s); lia. Qed.
Lemma costs_if : forall A (b : bool) (p q : parser A) k, costs p k -> costs q k -> costs (if b then p else q) k.
Proof. intros; destruct b; auto. Qed.

Lemma costs_u16 : forall le, costs (read_u16 le) 2.
Proof. intros; unfold read_u16. apply (costs_bind _ _ _ _ 2 0); [apply (costs_read_n 2)|lia|intros ?; apply costs_pret]. Qed.
Lemma costs_u32 : forall le, costs (read_u32 le) 4.
Proof. intros; unfold read_u32. apply (costs_bind _ _ _ _ 4 0); [apply (costs_read_n 4)|lia|intros ?; apply costs_pret]. Qed.
Lemma costs_i32 : forall le, costs (read_i32 le) 4.
Proof. intros; unfold read_i32. apply (costs_bind _ _ _ _ 4 0); [apply (costs_read_n 4)|lia|intros ?; apply costs_pret]. Qed.
Lemma costs_sn : forall le, costs (read_sn le) 8.
Proof.
  intros; unfold read_sn. apply (costs_bind _ _ _ _ 4 4); [apply costs_i32|lia|intros ?].
  apply (costs_bind _ _ _ _ 4 0); [apply costs_u32|lia|intros ?; apply costs_pret].
Qed.
Lemma costs_eid : costs read_entity_id 4.
Proof.
  unfold read_entity_id. apply (costs_bind _ _ _ _ 3 1); [apply (costs_read_n 3)|lia|intros ?].
  apply (costs_bind _ _ _ _ 1 0); [apply (costs_read_n 1)|lia|intros ?; apply costs_pret].
Qed.
Lemma costs_words : forall le n, costs (read_words le n) (4 * Z.of_nat n).
Proof.
  intros le n; induction n; cbn [read_words]; [apply costs_pret|].
  eapply costs_weaken.
  - apply (costs_bind _ _ _ _ 4 (4 * Z.of_nat n)); [apply costs_i32|lia|intros ?].
    eapply costs_weaken; [apply (costs_bind _ _ _ _ (4 * Z.of_nat n) 0); [exact IHn|lia|intros ?; apply costs_pret]|lia].
  - lia.
Qed.
Lemma costs_bitmap : forall le nb, costs (read_bitmap le nb) 32.
Proof.
  intros; unfold read_bitmap. eapply costs_weaken.
  - apply (costs_bind _ _ _ _ (4 * Z.of_nat (Z.to_nat (Z.min 8 (div_ceil32 nb)))) 0); [apply costs_words|lia|intros ?; apply costs_pret].
  - lia.
Qed.
Lemma costs_snset : forall le, costs (read_snset le) 44.
Proof.
  intros; unfold read_snset. apply (costs_bind _ _ _ _ 8 36); [apply costs_sn|lia|intros ?].
  apply (costs_bind _ _ _ _ 4 32); [apply costs_u32|lia|intros ?].
  apply costs_if; [eapply costs_weaken; [apply costs_perr|lia]|].
  apply (costs_bind _ _ _ _ 32 0); [apply costs_bitmap|lia|intros ?; apply costs_pret].
Qed.
Lemma costs_fnset : forall le, costs (read_fnset le) 1321.
Proof.
  intros; unfold read_fnset. apply (costs_bind _ _ _ _ 4 1317); [apply costs_u32|lia|intros base].
  apply (costs_bind _ _ _ _ 4 1313); [apply costs_u32|lia|intros nb].
  apply (costs_bind _ _ _ _ 32 1281); [apply costs_bitmap|lia|intros ws].
  apply (costs_bind _ _ _ _ 1281 0); [|lia|intros ?].
  - eapply costs_weaken; [apply costs_ptick|]; unfold FNSET_CAP; lia.
  - apply (costs_bind _ _ _ _ 0 0); [apply costs_plift|lia|intros ?; apply costs_plift].
Qed.
Lemma costs_locator : forall le, costs (read_locator le) 24.
Proof.
  intros; unfold read_locator. apply (costs_bind _ _ _ _ 4 20); [apply costs_i32|lia|intros ?].
  apply (costs_bind _ _ _ _ 4 16); [apply costs_u32|lia|intros ?].
  apply (costs_bind _ _ _ _ 16 0); [apply (costs_read_n 16)|lia|intros ?; apply costs_pret].
Qed.
Lemma costs_locs : forall le k, costs (read_locs le k) (49 * Z.of_nat k).
Proof.
  intros le k; induction k; cbn [read_locs]; [apply costs_pret|].
  eapply costs_weaken.
  - apply (costs_bind _ _ _ _ 24 (25 + 49 * Z.of_nat k)); [apply costs_locator|lia|intros ?].
    apply (costs_bind _ _ _ _ 25 (49 * Z.of_nat k)); [apply costs_ptick; unfold LOC_SIZE; lia|lia|intros ?].
    eapply costs_weaken; [apply (costs_bind _ _ _ _ (49 * Z.of_nat k) 0); [exact IHk|lia|intros ?; apply costs_pret]|lia].
  - lia.
Qed.

Lemma locator_list_cost : forall le s,
  0 <= snd (read_locator_list le s) <= 4 + 49 * Z.max 0 (dec_int le (firstn 4 s)).
Proof.
  intros le s. unfold read_locator_list, pbind.
  pose proof (costs_u32 le s) as C1.
  destruct (read_u32 le s) as [[[n s']|e|x] c] eqn:E; cbn [snd] in *; try lia.
  assert (En : n = dec_int le (firstn 4 s)) by (eapply read_u32_value; rewrite E; reflexivity).
  pose proof (costs_locs le (Z.to_nat (Z.min n (len s' / 24 + 1))) s') as C2.
  destruct (read_locs le _ s') as [r c']; cbn [snd] in *. rewrite <- En. lia.
Qed.

(* ------------------------------------------------------------------- parameters *)
Lemma read_param_cost : forall le s,
  0 <= snd (read_param le s) /\
  match fst (read_param le s) with
  | Ok (_, s1) => snd (read_param le s) <= 5 * (len s - len s1) /\ 4 <= len s - len s1
  | _ => snd (read_param le s) <= 4
  end.
Proof.
  intros le s. unfold read_param. cbv zeta. rewrite !shorter_spec.
  destruct (Z.ltb_spec (len s) 4) as [L|L]; [cbn [fst snd]; lia|].
  assert (E4 : len s = 4 + len (skipn 4 s)) by (rewrite len_skipn; unfold len in *; lia).
  set (t := skipn 4 s) in *. clearbody t.
  destruct (negb _ && negb _); [cbn [fst snd]; lia|].
  destruct (_ =? PID_SENTINEL); [cbn [fst snd]; lia|].
  set (n := dec_int le (firstn 2 (skipn 2 s))) in *.
  destruct (Z.ltb_spec (len t) n) as [L2|L2]; cbn [fst snd]; [lia|].
  unfold ARC_HDR. rewrite len_skipn. unfold len in *. lia.
Qed.

Lemma read_params_cost_aux : forall le fuel s c, c = snd (read_params le fuel s) -> 0 <= c <= 12 * len s + 4.
Proof.
  intros le fuel; induction fuel as [|k IH]; intros s c Hc; cbn [read_params] in Hc.
  - cbn [pret snd] in Hc. pose proof (len_nonneg _ s). lia.
  - unfold pbind at 1 in Hc. destruct (read_param_cost le s) as [C0 C1].
    destruct (read_param le s) as [[[p s1]|e|x] c0]; cbn [fst snd] in *; pose proof (len_nonneg _ s); try lia.
    destruct C1 as [C1 C2]. pose proof (len_nonneg _ s1) as Hs1.
    destruct (p_id p =? PID_SENTINEL); [cbn [pret snd] in Hc; lia|].
    unfold pbind, ptick in Hc. specialize (IH s1 _ eq_refl).
    destruct (read_params le k s1) as [[[ps s2]|e|x] c']; cbn [snd pret] in *; unfold PARAM_SIZE in *; lia.
Qed.
Lemma read_params_cost : forall le fuel s, 0 <= snd (read_params le fuel s) <= 12 * len s + 4.
Proof. intros; eapply read_params_cost_aux; reflexivity. Qed.

(* -------------------------------------------------------- fixed-cost submessages *)
Lemma costs_bind' : forall A B (p : parser A) (f : A -> parser B) k1 k2,
  costs p k1 -> (forall a, costs (f a) k2) -> 0 <= k2 -> costs (pbind p f) (k1 + k2).
Proof. intros; apply costs_bind; auto. Qed.

Ltac costs_auto :=
  first [ apply costs_pret | apply costs_perr | apply costs_u16 | apply costs_u32 | apply costs_i32
        | apply costs_sn | apply costs_eid | apply costs_snset | apply costs_fnset | apply costs_read_n
        | (eapply costs_bind'; [costs_auto | intros ?; costs_auto | lia]) ].

Lemma run_snd : forall A (p : parser A) v, snd (run p v) = snd (p v).
Proof. intros; unfold run; destruct (p v) as [[[a s]|e|x] c]; reflexivity. Qed.

Ltac fixed_cost :=
  rewrite run_snd;
  match goal with
  | |- 0 <= snd (?p ?v) <= _ =>
      let C := fresh "C" in eassert (C : costs p _) by costs_auto; specialize (C v); lia
  end.

Lemma acknack_cost : forall fl v, 0 <= snd (parse_acknack fl v) <= 56.
Proof. intros; unfold parse_acknack; fixed_cost. Qed.
Lemma gap_cost : forall fl v, 0 <= snd (parse_gap fl v) <= 60.
Proof. intros; unfold parse_gap; fixed_cost. Qed.
Lemma heartbeat_cost : forall fl v, 0 <= snd (parse_heartbeat fl v) <= 28.
Proof. intros; unfold parse_heartbeat; fixed_cost. Qed.
Lemma heartbeat_frag_cost : forall fl v, 0 <= snd (parse_heartbeat_frag fl v) <= 24.
Proof. intros; unfold parse_heartbeat_frag; fixed_cost. Qed.
Lemma nack_frag_cost : forall fl v, 0 <= snd (parse_nack_frag fl v) <= 1341.
Proof. intros; unfold parse_nack_frag; fixed_cost. Qed.
Lemma info_dst_cost : forall fl v, 0 <= snd (parse_info_dst fl v) <= 12.
Proof. intros; unfold parse_info_dst; fixed_cost. Qed.
Lemma info_src_cost : forall fl v, 0 <= snd (parse_info_src fl v) <= 20.
Proof. intros; unfold parse_info_src; fixed_cost. Qed.
Lemma info_ts_cost : forall fl v, 0 <= snd (parse_info_ts fl v) <= 8.
Proof. intros; unfold parse_info_ts; destruct (flag fl 1); [cbn [snd]; lia|fixed_cost]. Qed.

(* ------------------------------------------------------------ DATA / DATA_FRAG *)
Lemma read_param_list_cost : forall le s, 0 <= snd (read_param_list le s) <= 12 * len s + 4.
Proof. intros le s. exact (read_params_cost le MAX_PARAMETERS s). Qed.

Lemma data_tail_cost : forall (q dk : bool) le (region : list Z) c,
  c = snd (match (if q then read_param_list le region else (Ok ([], region), 0)) with
           | (Err e, c') => (@Err psub e, c')
           | (Panic x, c') => (Panic x, c')
           | (Ok (qos, rest), c') => (Ok (Pad : psub), c' + (if dk then ARC_HDR + len rest else 0))
           end) ->
  0 <= c <= 20 + 13 * len region.
Proof.
  intros q dk le region c Hc. pose proof (len_nonneg _ region) as Hr. destruct q.
  - pose proof (read_param_list_cost le region) as C. pose proof (read_param_list_ok le region) as O.
    destruct (read_param_list le region) as [[[qos rest]|e|x] c']; cbn [fst snd] in *; try lia.
    specialize (O qos rest eq_refl). pose proof (len_nonneg _ rest).
    assert (0 <= params_wire qos).
    { unfold params_wire. clear. induction qos as [|p t IH]; cbn [map sumZ]; [lia|]. pose proof (len_nonneg _ (p_val p)). lia. }
    unfold ARC_HDR in *. destruct dk; lia.
  - cbn [snd] in Hc. unfold ARC_HDR in *. destruct dk; lia.
Qed.

Lemma data_head_o2q : forall le data o2q rid wid sn s1, bytes_ok data ->
  fst ((_ <~ read_u16 le;; o <~ read_u16 le;; rid <~ read_entity_id;; wid <~ read_entity_id;;
        sn <~ read_sn le;; pret (o + 4, rid, wid, sn)) data) = Ok (o2q, rid, wid, sn, s1) -> 4 <= o2q.
Proof.
  intros le data o2q rid wid sn s1 Hb F0.
  apply pbind_inv_ok in F0 as (x & t1 & H1 & F0). apply consumes_read_u16 in H1 as [-> _].
  apply pbind_inv_ok in F0 as (o & t2 & H2 & F0). apply read_u16_nonneg in H2; [|apply bytes_ok_skipn; exact Hb].
  apply pbind_inv_ok in F0 as (a & t3 & _ & F0). apply pbind_inv_ok in F0 as (b & t4 & _ & F0).
  apply pbind_inv_ok in F0 as (c & t5 & _ & F0). apply pret_ok in F0 as [F0 _]. inversion F0; subst. lia.
Qed.

Lemma data_cost : forall fl sublen data c, bytes_ok data -> 0 <= sublen ->
  c = snd (parse_data fl sublen data) ->
  0 <= c <= 40 + 13 * (if sublen =? 0 then len data else sublen).
Proof.
  intros fl sublen data c Hb Hs0 Hc. unfold parse_data in Hc.
  set (dk := flag fl 2 || flag fl 3) in *. clearbody dk. rewrite shorter_spec in Hc.
  set (endp := if sublen =? 0 then len data else sublen) in *.
  assert (He : 0 <= endp) by (unfold endp; destruct (sublen =? 0); [apply len_nonneg|lia]).
  destruct (Z.ltb_spec (len data) sublen) as [L|L]; [cbn [snd] in Hc; lia|].
  pose proof (data_head_o2q (is_le fl) data) as Ho.
  assert (C0 : 0 <= snd ((_ <~ read_u16 (is_le fl);; o <~ read_u16 (is_le fl);; rid <~ read_entity_id;; wid <~ read_entity_id;;
                          sn <~ read_sn (is_le fl);; pret (o + 4, rid, wid, sn)) data) <= 20)
    by (match goal with |- 0 <= snd (?p ?v) <= _ => eassert (C : costs p _) by costs_auto; specialize (C v); lia end).
  destruct ((_ <~ read_u16 (is_le fl);; o <~ read_u16 (is_le fl);; rid <~ read_entity_id;; wid <~ read_entity_id;;
             sn <~ read_sn (is_le fl);; pret (o + 4, rid, wid, sn)) data) as [[[[[[o2q rid] wid] sn] s1]|e|x] c0];
    cbn [fst snd] in *; try lia.
  specialize (Ho o2q rid wid sn s1 Hb eq_refl). cbv zeta in Hc.
  destruct (Z.ltb_spec endp o2q) as [L2|L2]; [cbn [snd] in Hc; lia|].
  pose proof (region_len data endp o2q Ho He) as Hr.
  set (region := firstn (Z.to_nat (endp - o2q)) (skipn (Z.to_nat o2q) data)) in *. clearbody region.
  pose proof (data_tail_cost (flag fl 1) dk (is_le fl) region) as T.
  destruct (if flag fl 1 then read_param_list (is_le fl) region else (Ok ([], region), 0)) as [[[qos rest]|e|x] c'];
    cbn [snd] in *; specialize (T _ eq_refl); lia.
Qed.

Lemma data_frag_head_o2q : forall le data o2q rid wid sn fs fc fz ds s1, bytes_ok data ->
  fst ((_ <~ read_u16 le;; o <~ read_u16 le;; rid <~ read_entity_id;; wid <~ read_entity_id;;
        sn <~ read_sn le;; fs <~ read_u32 le;; fc <~ read_u16 le;; fz <~ read_u16 le;; ds <~ read_u32 le;;
        pret (o + 4, rid, wid, sn, fs, fc, fz, ds)) data) = Ok (o2q, rid, wid, sn, fs, fc, fz, ds, s1) -> 4 <= o2q.
Proof.
  intros le data o2q rid wid sn fs fc fz ds s1 Hb F0.
  apply pbind_inv_ok in F0 as (x & t1 & H1 & F0). apply consumes_read_u16 in H1 as [-> _].
  apply pbind_inv_ok in F0 as (o & t2 & H2 & F0). apply read_u16_nonneg in H2; [|apply bytes_ok_skipn; exact Hb].
  apply pbind_inv_ok in F0 as (a & t3 & _ & F0). apply pbind_inv_ok in F0 as (b & t4 & _ & F0).
  apply pbind_inv_ok in F0 as (c & t5 & _ & F0). apply pbind_inv_ok in F0 as (d & t6 & _ & F0).
  apply pbind_inv_ok in F0 as (g & t7 & _ & F0). apply pbind_inv_ok in F0 as (i & t8 & _ & F0).
  apply pbind_inv_ok in F0 as (j & t9 & _ & F0). apply pret_ok in F0 as [F0 _]. inversion F0; subst. lia.
Qed.

Lemma data_frag_cost : forall fl sublen data c, bytes_ok data -> 0 <= sublen ->
  c = snd (parse_data_frag fl sublen data) ->
  0 <= c <= 52 + 13 * (if sublen =? 0 then len data else sublen).
Proof.
  intros fl sublen data c Hb Hs0 Hc. unfold parse_data_frag in Hc. rewrite !shorter_spec in Hc.
  set (endp := if sublen =? 0 then len data else sublen) in *.
  assert (He : 0 <= endp) by (unfold endp; destruct (sublen =? 0); [apply len_nonneg|lia]).
  destruct (Z.ltb_spec (len data) sublen) as [L|L]; [cbn [snd] in Hc; lia|].
  destruct (Z.ltb_spec (len data) 32) as [L3|L3]; [cbn [snd] in Hc; lia|].
  pose proof (data_frag_head_o2q (is_le fl) data) as Ho.
  assert (C0 : 0 <= snd ((_ <~ read_u16 (is_le fl);; o <~ read_u16 (is_le fl);; rid <~ read_entity_id;; wid <~ read_entity_id;;
                          sn <~ read_sn (is_le fl);; fs <~ read_u32 (is_le fl);; fc <~ read_u16 (is_le fl);;
                          fz <~ read_u16 (is_le fl);; ds <~ read_u32 (is_le fl);;
                          pret (o + 4, rid, wid, sn, fs, fc, fz, ds)) data) <= 32)
    by (match goal with |- 0 <= snd (?p ?v) <= _ => eassert (C : costs p _) by costs_auto; specialize (C v); lia end).
  destruct ((_ <~ read_u16 (is_le fl);; o <~ read_u16 (is_le fl);; rid <~ read_entity_id;; wid <~ read_entity_id;;
             sn <~ read_sn (is_le fl);; fs <~ read_u32 (is_le fl);; fc <~ read_u16 (is_le fl);;
             fz <~ read_u16 (is_le fl);; ds <~ read_u32 (is_le fl);;
             pret (o + 4, rid, wid, sn, fs, fc, fz, ds)) data) as [[[[[[[[[[o2q rid] wid] sn] fs] fc] fz] ds] s1]|e|x] c0];
    cbn [fst snd] in *; try lia.
  specialize (Ho o2q rid wid sn fs fc fz ds s1 Hb eq_refl). cbv zeta in Hc.
  destruct (Z.ltb_spec endp o2q) as [L2|L2]; [cbn [snd] in Hc; lia|].
  pose proof (region_len data endp o2q Ho He) as Hr.
  set (region := firstn (Z.to_nat (endp - o2q)) (skipn (Z.to_nat o2q) data)) in *. clearbody region.
  pose proof (data_tail_cost (flag fl 1) true (is_le fl) region) as T.
  destruct (if flag fl 1 then read_param_list (is_le fl) region else (Ok ([], region), 0)) as [[[qos rest]|e|x] c'];
    cbn [snd] in *; specialize (T _ eq_refl); lia.
Qed.

(* ------------------------------------------------------------------ INFO_REPLY *)
Lemma locator_list_cost' : forall le s,
  0 <= snd (read_locator_list le s) <= (if len s <? 4 then 0 else 4 + 49 * Z.max 0 (dec_int le (firstn 4 s))).
Proof.
  intros le s. destruct (Z.ltb_spec (len s) 4) as [L|L]; [|apply locator_list_cost].
  unfold read_locator_list, pbind, read_u32, pbind, read_n. rewrite shorter_spec.
  destruct (Z.ltb_spec (len s) (Z.of_nat 4)); [cbn [snd]; lia|lia].
Qed.

Lemma info_reply_cost : forall fl sublen v c, bytes_ok v -> 0 <= sublen ->
  c = snd (parse_info_reply fl v) ->
  locs_overread (is_le fl) (flag fl 1) sublen v = false -> 0 <= c <= 8 + 6 * sublen.
Proof.
  intros fl sublen v c Hb Hs Hc Ho. unfold parse_info_reply in Hc. rewrite run_snd in Hc.
  unfold pbind at 1 in Hc.
  pose proof (locator_list_cost' (is_le fl) v) as C1.
  pose proof (read_locator_list_ok (is_le fl) v) as O1.
  unfold locs_overread in Ho. rewrite !shorter_spec in Ho.
  destruct (Z.ltb_spec (len v) 4) as [L|L].
  { destruct (read_locator_list (is_le fl) v) as [[[u s1]|e|x] c1]; cbn [fst snd] in *; try lia.
    all: specialize (O1 u s1 Hb eq_refl); cbv zeta in O1; lia. }
  destruct (Z.ltb_spec sublen (24 * dec_int (is_le fl) (firstn 4 v))) as [|L2]; [discriminate|].
  assert (Hn1 : 0 <= dec_int (is_le fl) (firstn 4 v)) by (apply dec_int_nonneg, bytes_ok_firstn, Hb).
  destruct (read_locator_list (is_le fl) v) as [[[u s1]|e|x] c1]; cbn [fst snd] in *; try lia.
  specialize (O1 u s1 Hb eq_refl). cbv zeta in O1. destruct O1 as (_ & Es1 & _ & _).
  unfold pbind at 1 in Hc.
  destruct (flag fl 1); cbn [negb] in Ho.
  - rewrite <- Es1 in Ho.
    pose proof (locator_list_cost' (is_le fl) s1) as C2.
    assert (Hn2 : 0 <= dec_int (is_le fl) (firstn 4 s1)).
    { apply dec_int_nonneg, bytes_ok_firstn. subst s1. apply bytes_ok_skipn, Hb. }
    destruct (Z.ltb_spec (len s1) 4) as [L3|L3].
    + destruct (read_locator_list (is_le fl) s1) as [[[m s2]|e|x] c2]; cbn [fst snd pret] in *; lia.
    + apply Z.ltb_ge in Ho.
      destruct (read_locator_list (is_le fl) s1) as [[[m s2]|e|x] c2]; cbn [fst snd pret] in *; lia.
  - cbn [pret snd] in Hc. lia.
Qed.

(* ------------------------------------------------------------------ one submessage *)
Definition rescan_bad (x : Z * Z * Z * list Z) : bool :=
  match x with (id, fl, sublen, body) =>
    if ((id =? ID_DATA) || (id =? ID_DATA_FRAG)) && (sublen =? 0)
    then negb (is_ok (fst (parse_sub id fl sublen body))) else false end.

Definition consumed_of (r : res psub) (sublen : Z) (v : list Z) : Z :=
  match r with
  | Ok sm => if (sublen =? 0) && is_data sm then len v else sublen
  | _ => sublen
  end.

Lemma parse_sub_cost : forall id fl sublen v c, bytes_ok v -> 0 <= sublen <= len v ->
  c = snd (parse_sub id fl sublen v) ->
  over_bad (id, fl, sublen, v) = false -> rescan_bad (id, fl, sublen, v) = false ->
  0 <= c <= 1341 + 13 * consumed_of (fst (parse_sub id fl sublen v)) sublen v.
Proof.
  intros id fl sublen v c Hb Hs Hc Ho Hr. unfold over_bad in Ho. unfold rescan_bad in Hr.
  assert (Hcons : sublen <= consumed_of (fst (parse_sub id fl sublen v)) sublen v).
  { unfold consumed_of. destruct (fst (parse_sub id fl sublen v)); try lia.
    destruct ((sublen =? 0) && is_data a); lia. }
  unfold parse_sub in *.
  destruct (id =? ID_ACKNACK); [pose proof (acknack_cost fl v); lia|].
  destruct (id =? ID_DATA).
  { cbn [orb andb] in Hr.
    pose proof (data_cost fl sublen v c Hb ltac:(lia) Hc) as C. pose proof (data_mem fl sublen v) as M.
    unfold consumed_of in *. destruct (fst (parse_data fl sublen v)) as [sm|e|x] eqn:E.
    - destruct (M sm Hb ltac:(lia) eq_refl) as [M1 _]. rewrite M1, andb_true_r. lia.
    - cbn [is_ok negb] in Hr. destruct (sublen =? 0); [discriminate|lia].
    - cbn [is_ok negb] in Hr. destruct (sublen =? 0); [discriminate|lia]. }
  destruct (id =? ID_DATA_FRAG).
  { cbn [orb andb] in Hr.
    pose proof (data_frag_cost fl sublen v c Hb ltac:(lia) Hc) as C. pose proof (data_frag_mem fl sublen v) as M.
    unfold consumed_of in *. destruct (fst (parse_data_frag fl sublen v)) as [sm|e|x] eqn:E.
    - destruct (M sm Hb ltac:(lia) eq_refl) as [M1 _]. rewrite M1, andb_true_r. lia.
    - cbn [is_ok negb] in Hr. destruct (sublen =? 0); [discriminate|lia].
    - cbn [is_ok negb] in Hr. destruct (sublen =? 0); [discriminate|lia]. }
  destruct (id =? ID_GAP); [pose proof (gap_cost fl v); lia|].
  destruct (id =? ID_HEARTBEAT); [pose proof (heartbeat_cost fl v); lia|].
  destruct (id =? ID_HEARTBEAT_FRAG); [pose proof (heartbeat_frag_cost fl v); lia|].
  destruct (id =? ID_INFO_DST); [pose proof (info_dst_cost fl v); lia|].
  destruct (id =? ID_INFO_REPLY); [pose proof (info_reply_cost fl sublen v c Hb ltac:(lia) Hc Ho); lia|].
  destruct (id =? ID_INFO_SRC); [pose proof (info_src_cost fl v); lia|].
  destruct (id =? ID_INFO_TS); [pose proof (info_ts_cost fl v); lia|].
  destruct (id =? ID_NACK_FRAG); [pose proof (nack_frag_cost fl v); lia|].
  destruct (id =? ID_PAD); cbn [parse_pad snd] in Hc; lia.
Qed.

(* ----------------------------------------------------------------------- the loop *)
Lemma sub_loop_cost : forall fuel v c, bytes_ok v -> c = snd (sub_loop fuel v) ->
  existsb over_bad (visits fuel v) = false -> existsb rescan_bad (visits fuel v) = false ->
  0 <= c <= 359 * len v.
Proof.
  induction fuel as [|k IH]; intros v c Hb Hc Hv Hw; pose proof (len_nonneg _ v) as Hl.
  - cbn [sub_loop snd] in Hc. lia.
  - destruct v as [|id [|fl [|b2 [|b3 v']]]]; try (cbn [sub_loop snd] in Hc; lia).
    cbn [sub_loop visits] in *. cbv zeta in *.
    set (sublen := sublen_of fl b2 b3) in *.
    assert (Hb' : bytes_ok v') by (inversion Hb as [|? ? ? Hb1]; inversion Hb1 as [|? ? ? Hb2]; inversion Hb2 as [|? ? ? Hb3]; inversion Hb3; assumption).
    assert (Hs0 : 0 <= sublen).
    { inversion Hb as [|? ? ? Hb1]; inversion Hb1 as [|? ? A2 Hb2]; inversion Hb2 as [|? ? A3 Hb3]; inversion Hb3 as [|? ? A4 ?]; subst.
      unfold sublen, sublen_of, is_byte in *. destruct (is_le fl); lia. }
    rewrite !len_cons in *. pose proof (len_nonneg _ v') as Hl'.
    rewrite shorter_spec in *.
    destruct (Z.ltb_spec (len v') sublen) as [L|L]; [cbn [snd] in Hc; lia|].
    cbn [existsb] in Hv, Hw. apply orb_false_iff in Hv as [Hv1 Hv2]. apply orb_false_iff in Hw as [Hw1 Hw2].
    pose proof (parse_sub_cost id fl sublen v' _ Hb' ltac:(lia) eq_refl Hv1 Hw1) as PC. unfold consumed_of in PC.
    destruct (parse_sub id fl sublen v') as [[sm|e|x] c0]; cbn [fst snd] in *.
    + set (consumed := if (sublen =? 0) && is_data sm then len v' else sublen) in *.
      assert (Hcn : 0 <= consumed <= len v') by (unfold consumed; destruct ((sublen =? 0) && is_data sm); lia).
      specialize (IH (skipn (Z.to_nat consumed) v') _ ltac:(apply bytes_ok_skipn; exact Hb') eq_refl Hv2 Hw2).
      rewrite len_skipn in IH.
      destruct (sub_loop k (skipn (Z.to_nat consumed) v')) as [[l'|e|x] c']; cbn [snd] in *;
        unfold SUB_SIZE in *; unfold len in *; lia.
    + specialize (IH (skipn (Z.to_nat sublen) v') _ ltac:(apply bytes_ok_skipn; exact Hb') eq_refl Hv2 Hw2).
      rewrite len_skipn in IH.
      destruct (sub_loop k (skipn (Z.to_nat sublen) v')) as [r c']; cbn [snd] in *. unfold len in *; lia.
    + lia.
Qed.

(* bytes copied + loop iterations + bytes allocated, for every byte string outside the
   INFO_REPLY over-read and DATA rescan classes *)
Theorem message_cost_linear : forall v, bytes_ok v ->
  C07_known_overread v = false -> C07_known_rescan v = false ->
  0 <= message_cost v <= COST_C * len v + COST_K.
Proof.
  intros v Hb Ho Hr. unfold message_cost, parse_message_cost. unfold C07_known_overread, C07_known_rescan, message_visits in *.
  pose proof (len_nonneg _ v) as Hl. unfold COST_C, COST_K.
  destruct (shorter v 20); [cbn [snd]; lia|].
  destruct (negb (list_eqb (firstn 4 v) RTPS_MAGIC)); [cbn [snd]; lia|].
  pose proof (sub_loop_cost MAX_SUBMESSAGES (skipn 20 v) _ ltac:(apply bytes_ok_skipn; exact Hb) eq_refl Ho Hr) as SC.
  pose proof (len_skipn_le _ 20%nat v).
  destruct (sub_loop MAX_SUBMESSAGES (skipn 20 v)) as [[l|e|x] c]; cbn [snd] in *; lia.
Qed.
