(* C07 (RTPS part): the cost output (bytes copied + loop iterations + bytes allocated) of the
   decoder is linear in the input length outside the over-read and rescan classes. *)
From DustDDS Require Import Base.Machine Base.Bytes Wire.WireModel Wire.WireProofs Wire.WireTotalProofs
  Wire.WireMemProofs.
Open Scope Z_scope.
Ltac Zify.zify_post_hook ::= Z.div_mod_to_equations.
Strategy expand [read_param_list].

Definition costs {A} (p : parser A) (k : Z) : Prop := forall s, 0 <= snd (p s) <= k.

Lemma costs_pret : forall A (a : A), costs (pret a) 0.
Proof. intros A a s; cbn; lia. Qed.
Lemma costs_perr : forall A e, costs (@perr A e) 0.
Proof. intros A e s; cbn; lia. Qed.
Lemma costs_ptick : forall n, 0 <= n -> costs (ptick n) n.
Proof. intros n H s; cbn [ptick snd]; lia. Qed.
Lemma costs_plift : forall A (r : res A), costs (plift r) 0.
Proof. intros A r s; destruct r; cbn; lia. Qed.
Lemma costs_read_n : forall n, costs (read_n n) (Z.of_nat n).
Proof. intros n s; unfold read_n; destruct (shorter s (Z.of_nat n)); cbn [snd]; lia. Qed.
Lemma costs_bind : forall A B (p : parser A) (f : A -> parser B) k1 k2,
  costs p k1 -> 0 <= k2 -> (forall a, costs (f a) k2) -> costs (pbind p f) (k1 + k2).
Proof.
  intros A B p f k1 k2 Hp Hk Hf s. unfold pbind. specialize (Hp s).
  destruct (p s) as [[[a s1]|e|x] c]; cbn [snd] in *; try lia.
  specialize (Hf a s1). destruct (f a s1) as [r c']; cbn [snd] in *. lia.
Qed.
Lemma costs_weaken : forall A (p : parser A) k k', costs p k -> k <= k' -> costs p k'.
Proof. intros A p k k' H L s; specialize (H s); lia. Qed.
Lemma costs_if : forall A (b : bool) (p q : parser A) k, costs p k -> costs q k -> costs (if b then p else q) k.
Proof. intros; destruct b; auto. Qed.

Lemma costs_u16 : forall le, costs (read_u16 le) 2.
Proof. intros; unfold read_u16. apply (costs_bind _ _ _ _ 2 0); [apply (costs_read_n 2)|lia|intros ?; apply costs_pret]. Qed.
Lemma costs_u32 : forall le, costs (read_u32 le) 4.
Proof. intros; unfold read_u32. apply (costs_bind _ _ _ _ 4 0); [apply (costs_read_n 4)|lia|intros ?; apply costs_pret]. Qed.
Lemma costs_i32 : forall le, costs (read_i32 le) 4.
Proof. intros; unfold read_i32. apply (costs_bind _ _ _ _ 4 0); [apply (costs_read_n 4)|lia|intros ?; apply costs_pret]. Qed.
Lemma costs_sn : forall le, costs (read_sn le) 8.
Proof.
  intros; unfold read_sn. apply (costs_bind _ _ _ _ 4 4); [apply costs_i32|lia|intros ?].
  apply (costs_bind _ _ _ _ 4 0); [apply costs_u32|lia|intros ?; apply costs_pret].
Qed.
Lemma costs_eid : costs read_entity_id 4.
Proof.
  unfold read_entity_id. apply (costs_bind _ _ _ _ 3 1); [apply (costs_read_n 3)|lia|intros ?].
  apply (costs_bind _ _ _ _ 1 0); [apply (costs_read_n 1)|lia|intros ?; apply costs_pret].
Qed.
Lemma costs_words : forall le n, costs (read_words le n) (4 * Z.of_nat n).
Proof.
  intros le n; induction n; cbn [read_words]; [apply costs_pret|].
  eapply costs_weaken.
  - apply (costs_bind _ _ _ _ 4 (4 * Z.of_nat n)); [apply costs_i32|lia|intros ?].
    eapply costs_weaken; [apply (costs_bind _ _ _ _ (4 * Z.of_nat n) 0); [exact IHn|lia|intros ?; apply costs_pret]|lia].
  - lia.
Qed.
Lemma costs_bitmap : forall le nb, costs (read_bitmap le nb) 32.
Proof.
  intros; unfold read_bitmap. eapply costs_weaken.
  - apply (costs_bind _ _ _ _ (4 * Z.of_nat (Z.to_nat (Z.min 8 (div_ceil32 nb)))) 0); [apply costs_words|lia|intros ?; apply costs_pret].
  - lia.
Qed.
Lemma costs_snset : forall le, costs (read_snset le) 44.
Proof.
  intros; unfold read_snset. apply (costs_bind _ _ _ _ 8 36); [apply costs_sn|lia|intros ?].
  apply (costs_bind _ _ _ _ 4 32); [apply costs_u32|lia|intros ?].
  apply costs_if; [eapply costs_weaken; [apply costs_perr|lia]|].
  apply (costs_bind _ _ _ _ 32 0); [apply costs_bitmap|lia|intros ?; apply costs_pret].
Qed.
Lemma costs_fnset : forall le, costs (read_fnset le) 1321.
Proof.
  intros; unfold read_fnset. apply (costs_bind _ _ _ _ 4 1317); [apply costs_u32|lia|intros base].
  apply (costs_bind _ _ _ _ 4 1313); [apply costs_u32|lia|intros nb].
  apply (costs_bind _ _ _ _ 32 1281); [apply costs_bitmap|lia|intros ws].
  apply (costs_bind _ _ _ _ 1281 0); [|lia|intros ?].
  - eapply costs_weaken; [apply costs_ptick|]; unfold FNSET_CAP; lia.
  - apply (costs_bind _ _ _ _ 0 0); [apply costs_plift|lia|intros ?; apply costs_plift].
Qed.
Lemma costs_locator : forall le, costs (read_locator le) 24.
Proof.
  intros; unfold read_locator. apply (costs_bind _ _ _ _ 4 20); [apply costs_i32|lia|intros ?].
  apply (costs_bind _ _ _ _ 4 16); [apply costs_u32|lia|intros ?].
  apply (costs_bind _ _ _ _ 16 0); [apply (costs_read_n 16)|lia|intros ?; apply costs_pret].
Qed.
Lemma costs_locs : forall le k, costs (read_locs le k) (49 * Z.of_nat k).
Proof.
  intros le k; induction k; cbn [read_locs]; [apply costs_pret|].
  eapply costs_weaken.
  - apply (costs_bind _ _ _ _ 24 (25 + 49 * Z.of_nat k)); [apply costs_locator|lia|intros ?].
    apply (costs_bind _ _ _ _ 25 (49 * Z.of_nat k)); [apply costs_ptick; unfold LOC_SIZE; lia|lia|intros ?].
    eapply costs_weaken; [apply (costs_bind _ _ _ _ (49 * Z.of_nat k) 0); [exact IHk|lia|intros ?; apply costs_pret]|lia].
  - lia.
Qed.

Lemma locator_list_cost : forall le s,
  0 <= snd (read_locator_list le s) <= 4 + 49 * Z.max 0 (dec_int le (firstn 4 s)).
Proof.
  intros le s. unfold read_locator_list, pbind.
  pose proof (costs_u32 le s) as C1.
  destruct (read_u32 le s) as [[[n s']|e|x] c] eqn:E; cbn [snd] in *; try lia.
  assert (En : n = dec_int le (firstn 4 s)) by (eapply read_u32_value; rewrite E; reflexivity).
  pose proof (costs_locs le (Z.to_nat (Z.min n (len s' / 24 + 1))) s') as C2.
  destruct (read_locs le _ s') as [r c']; cbn [snd] in *. rewrite <- En. lia.
Qed.

(* ------------------------------------------------------------------- parameters *)
Lemma read_param_cost : forall le s,
  0 <= snd (read_param le s) /\
  match fst (read_param le s) with
  | Ok (_, s1) => snd (read_param le s) <= 5 * (len s - len s1) /\ 4 <= len s - len s1
  | _ => snd (read_param le s) <= 4
  end.
Proof.
  intros le s. unfold read_param. cbv zeta. rewrite !shorter_spec.
  destruct (Z.ltb_spec (len s) 4) as [L|L]; [cbn [fst snd]; lia|].
  assert (E4 : len s = 4 + len (skipn 4 s)) by (rewrite len_skipn; unfold len in *; lia).
  set (t := skipn 4 s) in *. clearbody t.
  destruct (negb _ && negb _); [cbn [fst snd]; lia|].
  destruct (_ =? PID_SENTINEL); [cbn [fst snd]; lia|].
  set (n := dec_int le (firstn 2 (skipn 2 s))) in *.
  destruct (Z.ltb_spec (len t) n) as [L2|L2]; cbn [fst snd]; [lia|].
  unfold ARC_HDR. rewrite len_skipn. unfold len in *. lia.
Qed.

Lemma read_params_cost : forall le fuel s, 0 <= snd (read_params le fuel s) <= 12 * len s + 4.
Proof.
  intros le fuel; induction fuel as [|k IH]; intros s; cbn [read_params].
  - cbn [pret snd]. pose proof (len_nonneg _ s). lia.
  - unfold pbind at 1. destruct (read_param_cost le s) as [C0 C1].
    destruct (read_param le s) as [[[p s1]|e|x] c]; cbn [fst snd] in *; pose proof (len_nonneg _ s); try lia.
    destruct C1 as [C1 C2].
    destruct (p_id p =? PID_SENTINEL); [cbn [pret snd]; lia|].
    unfold pbind, ptick. specialize (IH s1).
    destruct (read_params le k s1) as [[[ps s2]|e|x] c']; cbn [snd pret] in *; unfold PARAM_SIZE;
      pose proof (len_nonneg _ s1); lia.
Qed.
