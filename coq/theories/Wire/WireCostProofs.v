(* C07 (RTPS part): the cost output (bytes copied + loop iterations + bytes allocated) of the
   decoder is linear in the input length. *)
From DustDDS Require Import Base.Machine Base.Bytes Wire.WireModel Wire.WireProofs Wire.WireTotalProofs
  Wire.WireMemProofs.
Open Scope Z_scope.
Ltac Zify.zify_post_hook ::= Z.div_mod_to_equations.
Strategy expand [read_param_list].

Definition costs {A} (p : parser A) (k : Z) : Prop := forall s, 0 <= snd (p s) <= k.

Lemma costs_pret : forall A (a : A), costs (pret a) 0.
Proof. intros A a s; cbn; lia. Qed.
Lemma costs_perr : forall A e, costs (@perr A e) 0.
Proof. intros A e s; cbn; lia. Qed.
Lemma costs_ptick : forall n, 0 <= n -> costs (ptick n) n.
Proof. intros n H s; cbn [ptick snd]; lia. Qed.
Lemma costs_plift : forall A (r : res A), costs (plift r) 0.
Proof. intros A r s; destruct r; cbn; lia. Qed.
Lemma costs_read_n : forall n, costs (read_n n) (Z.of_nat n).
Proof. intros n s; unfold read_n; destruct (shorter s (Z.of_nat n)); cbn [snd]; lia. Qed.
Lemma costs_bind : forall A B (p : parser A) (f : A -> parser B) k1 k2,
  costs p k1 -> 0 <= k2 -> (forall a, costs (f a) k2) -> costs (pbind p f) (k1 + k2).
Proof.
  intros A B p f k1 k2 Hp Hk Hf s. unfold pbind. specialize (Hp s).
  destruct (p s) as [[[a s1]|e|x] c]; cbn [snd] in *; try lia.
  specialize (Hf a s1). destruct (f a s1) as [r c']; cbn [snd] in *. lia.
Qed.
Lemma costs_weaken : forall A (p : parser A) k k', costs p k -> k <= k' -> costs p k'.
Proof. intros A p k k' H L s; specialize (H s); lia. Qed.
Lemma costs_if : forall A (b : bool) (p q : parser A) k, costs p k -> costs q k -> costs (if b then p else q) k.
Proof. intros; destruct b; auto. Qed.

Lemma costs_u16 : forall le, costs (read_u16 le) 2.
Proof. intros; unfold read_u16. apply (costs_bind _ _ _ _ 2 0); [apply (costs_read_n 2)|lia|intros ?; apply costs_pret]. Qed.
Lemma costs_u32 : forall le, costs (read_u32 le) 4.
Proof. intros; unfold read_u32. apply (costs_bind _ _ _ _ 4 0); [apply (costs_read_n 4)|lia|intros ?; apply costs_pret]. Qed.
Lemma costs_i32 : forall le, costs (read_i32 le) 4.
Proof. intros; unfold read_i32. apply (costs_bind _ _ _ _ 4 0); [apply (costs_read_n 4)|lia|intros ?; apply costs_pret]. Qed.
Lemma costs_sn : forall le, costs (read_sn le) 8.
Proof.
  intros; unfold read_sn. apply (costs_bind _ _ _ _ 4 4); [apply costs_i32|lia|intros ?].
  apply (costs_bind _ _ _ _ 4 0); [apply costs_u32|lia|intros ?; apply costs_pret].
Qed.
Lemma costs_eid : costs read_entity_id 4.
Proof.
  unfold read_entity_id. apply (costs_bind _ _ _ _ 3 1); [apply (costs_read_n 3)|lia|intros ?].
  apply (costs_bind _ _ _ _ 1 0); [apply (costs_read_n 1)|lia|intros ?; apply costs_pret].
Qed.
Lemma costs_words : forall le n, costs (read_words le n) (4 * Z.of_nat n).
Proof.
  intros le n; induction n; cbn [read_words]; [apply costs_pret|].
  eapply costs_weaken.
  - apply (costs_bind _ _ _ _ 4 (4 * Z.of_nat n)); [apply costs_i32|lia|intros ?].
    eapply costs_weaken; [apply (costs_bind _ _ _ _ (4 * Z.of_nat n) 0); [exact IHn|lia|intros ?; apply costs_pret]|lia].
  - lia.
Qed.
Lemma costs_bitmap : forall le nb, costs (read_bitmap le nb) 32.
Proof.
  intros; unfold read_bitmap. eapply costs_weaken.
  - apply (costs_bind _ _ _ _ (4 * Z.of_nat (Z.to_nat (Z.min 8 (div_ceil32 nb)))) 0); [apply costs_words|lia|intros ?; apply costs_pret].
  - lia.
Qed.
Lemma costs_snset : forall le, costs (read_snset le) 44.
Proof.
  intros; unfold read_snset. apply (costs_bind _ _ _ _ 8 36); [apply costs_sn|lia|intros ?].
  apply (costs_bind _ _ _ _ 4 32); [apply costs_u32|lia|intros ?].
  apply costs_if; [eapply costs_weaken; [apply costs_perr|lia]|].
  apply (costs_bind _ _ _ _ 32 0); [apply costs_bitmap|lia|intros ?; apply costs_pret].
Qed.
Lemma costs_fnset : forall le, costs (read_fnset le) 1321.
Proof.
  intros; unfold read_fnset. apply (costs_bind _ _ _ _ 4 1317); [apply costs_u32|lia|intros base].
  apply (costs_bind _ _ _ _ 4 1313); [apply costs_u32|lia|intros nb].
  destruct (Z.gtb_spec nb 256); [eapply costs_weaken; [apply costs_perr|lia]|].
  apply (costs_bind _ _ _ _ 32 1281); [apply costs_bitmap|lia|intros ws].
  apply (costs_bind _ _ _ _ 1281 0); [|lia|intros ?].
  - eapply costs_weaken; [apply costs_ptick|]; unfold FNSET_CAP; lia.
  - apply (costs_bind _ _ _ _ 0 0); [apply costs_plift|lia|intros ?; apply costs_plift].
Qed.
Lemma costs_locator : forall le, costs (read_locator le) 24.
Proof.
  intros; unfold read_locator. apply (costs_bind _ _ _ _ 4 20); [apply costs_i32|lia|intros ?].
  apply (costs_bind _ _ _ _ 4 16); [apply costs_u32|lia|intros ?].
  apply (costs_bind _ _ _ _ 16 0); [apply (costs_read_n 16)|lia|intros ?; apply costs_pret].
Qed.
Lemma costs_locs : forall le k, costs (read_locs le k) (49 * Z.of_nat k).
Proof.
  intros le k; induction k; cbn [read_locs]; [apply costs_pret|].
  eapply costs_weaken.
  - apply (costs_bind _ _ _ _ 24 (25 + 49 * Z.of_nat k)); [apply costs_locator|lia|intros ?].
    apply (costs_bind _ _ _ _ 25 (49 * Z.of_nat k)); [apply costs_ptick; unfold LOC_SIZE; lia|lia|intros ?].
    eapply costs_weaken; [apply (costs_bind _ _ _ _ (49 * Z.of_nat k) 0); [exact IHk|lia|intros ?; apply costs_pret]|lia].
  - lia.
Qed.

Lemma locator_list_cost : forall le s, 0 <= snd (read_locator_list le s) <= 53 + 3 * len s.
Proof.
  intros le s. unfold read_locator_list, pbind.
  pose proof (costs_u32 le s) as C1. pose proof (len_nonneg _ s) as Hl.
  pose proof (consumes_read_u32 le s) as CU.
  destruct (read_u32 le s) as [[[n s']|e|x] c]; cbn [fst snd] in *; try lia.
  destruct (CU n s' eq_refl) as [-> L4].
  pose proof (costs_locs le (Z.to_nat (Z.min n (len (skipn 4 s) / 24 + 1))) (skipn 4 s)) as C2.
  pose proof (len_skipn_le _ 4%nat s). pose proof (len_nonneg _ (skipn 4 s)).
  destruct (read_locs le _ (skipn 4 s)) as [r c']; cbn [snd] in *. lia.
Qed.

(* ------------------------------------------------------------------- parameters *)
Lemma read_param_cost : forall le s,
  0 <= snd (read_param le s) /\
  match fst (read_param le s) with
  | Ok (_, s1) => snd (read_param le s) <= 5 * (len s - len s1) /\ 4 <= len s - len s1
  | _ => snd (read_param le s) <= 4
  end.
Proof.
  intros le s. unfold read_param. cbv zeta. rewrite !shorter_spec.
  destruct (Z.ltb_spec (len s) 4) as [L|L]; [cbn [fst snd]; lia|].
  assert (E4 : len s = 4 + len (skipn 4 s)) by (rewrite len_skipn; unfold len in *; lia).
  set (t := skipn 4 s) in *. clearbody t.
  destruct (negb _ && negb _); [cbn [fst snd]; lia|].
  destruct (_ =? PID_SENTINEL); [cbn [fst snd]; lia|].
  set (n := dec_int le (firstn 2 (skipn 2 s))) in *.
  destruct (Z.ltb_spec (len t) n) as [L2|L2]; cbn [fst snd]; [lia|].
  unfold ARC_HDR. rewrite len_skipn. unfold len in *. lia.
Qed.

Lemma read_params_cost_aux : forall le fuel s c, c = snd (read_params le fuel s) -> 0 <= c <= 12 * len s + 4.
Proof.
  intros le fuel; induction fuel as [|k IH]; intros s c Hc; cbn [read_params] in Hc.
  - cbn [pret snd] in Hc. pose proof (len_nonneg _ s). lia.
  - unfold pbind at 1 in Hc. destruct (read_param_cost le s) as [C0 C1].
    destruct (read_param le s) as [[[p s1]|e|x] c0]; cbn [fst snd] in *; pose proof (len_nonneg _ s); try lia.
    destruct C1 as [C1 C2]. pose proof (len_nonneg _ s1) as Hs1.
    destruct (p_id p =? PID_SENTINEL); [cbn [pret snd] in Hc; lia|].
    unfold pbind, ptick in Hc. specialize (IH s1 _ eq_refl).
    destruct (read_params le k s1) as [[[ps s2]|e|x] c']; cbn [snd pret] in *; unfold PARAM_SIZE in *; lia.
Qed.
Lemma read_params_cost : forall le fuel s, 0 <= snd (read_params le fuel s) <= 12 * len s + 4.
Proof. intros; eapply read_params_cost_aux; reflexivity. Qed.

(* -------------------------------------------------------- fixed-cost submessages *)
Lemma costs_bind' : forall A B (p : parser A) (f : A -> parser B) k1 k2,
  costs p k1 -> (forall a, costs (f a) k2) -> 0 <= k2 -> costs (pbind p f) (k1 + k2).
Proof. intros; apply costs_bind; auto. Qed.

Ltac costs_auto :=
  first [ apply costs_pret | apply costs_perr | apply costs_u16 | apply costs_u32 | apply costs_i32
        | apply costs_sn | apply costs_eid | apply costs_snset | apply costs_fnset | apply costs_read_n
        | (eapply costs_bind'; [costs_auto | intros ?; costs_auto | lia]) ].

Lemma run_snd : forall A (p : parser A) v, snd (run p v) = snd (p v).
Proof. intros; unfold run; destruct (p v) as [[[a s]|e|x] c]; reflexivity. Qed.

Ltac fixed_cost :=
  rewrite run_snd;
  match goal with
  | |- 0 <= snd (?p ?v) <= _ =>
      let C := fresh "C" in eassert (C : costs p _) by costs_auto; specialize (C v); lia
  end.

Lemma acknack_cost : forall fl v, 0 <= snd (parse_acknack fl v) <= 56.
Proof. intros; unfold parse_acknack; fixed_cost. Qed.
Lemma gap_cost : forall fl v, 0 <= snd (parse_gap fl v) <= 60.
Proof. intros; unfold parse_gap; fixed_cost. Qed.
Lemma heartbeat_cost : forall fl v, 0 <= snd (parse_heartbeat fl v) <= 28.
Proof. intros; unfold parse_heartbeat; fixed_cost. Qed.
Lemma heartbeat_frag_cost : forall fl v, 0 <= snd (parse_heartbeat_frag fl v) <= 24.
Proof. intros; unfold parse_heartbeat_frag; fixed_cost. Qed.
Lemma nack_frag_cost : forall fl v, 0 <= snd (parse_nack_frag fl v) <= 1341.
Proof. intros; unfold parse_nack_frag; fixed_cost. Qed.
Lemma info_dst_cost : forall fl v, 0 <= snd (parse_info_dst fl v) <= 12.
Proof. intros; unfold parse_info_dst; fixed_cost. Qed.
Lemma info_src_cost : forall fl v, 0 <= snd (parse_info_src fl v) <= 20.
Proof. intros; unfold parse_info_src; fixed_cost. Qed.
Lemma info_ts_cost : forall fl v, 0 <= snd (parse_info_ts fl v) <= 8.
Proof. intros; unfold parse_info_ts; destruct (flag fl 1); [cbn [snd]; lia|fixed_cost]. Qed.

(* ------------------------------------------------------------ DATA / DATA_FRAG *)
Lemma read_param_list_cost : forall le s, 0 <= snd (read_param_list le s) <= 12 * len s + 4.
Proof. intros le s. exact (read_params_cost le MAX_PARAMETERS s). Qed.

Lemma data_tail_cost : forall (q dk : bool) le (region : list Z) c,
  c = snd (match (if q then read_param_list le region else (Ok ([], region), 0)) with
           | (Err e, c') => (@Err psub e, c')
           | (Panic x, c') => (Panic x, c')
           | (Ok (qos, rest), c') => (Ok (Pad : psub), c' + (if dk then ARC_HDR + len rest else 0))
           end) ->
  0 <= c <= 20 + 13 * len region.
Proof.
  intros q dk le region c Hc. pose proof (len_nonneg _ region) as Hr. destruct q.
  - pose proof (read_param_list_cost le region) as C. pose proof (read_param_list_ok le region) as O.
    destruct (read_param_list le region) as [[[qos rest]|e|x] c']; cbn [fst snd] in *; try lia.
    specialize (O qos rest eq_refl). pose proof (len_nonneg _ rest).
    assert (0 <= params_wire qos).
    { unfold params_wire. clear. induction qos as [|p t IH]; cbn [map sumZ]; [lia|]. pose proof (len_nonneg _ (p_val p)). lia. }
    unfold ARC_HDR in *. destruct dk; lia.
  - cbn [snd] in Hc. unfold ARC_HDR in *. destruct dk; lia.
Qed.

Lemma data_cost : forall fl sublen data c, c = snd (parse_data fl sublen data) -> 0 <= c <= 40 + 13 * len data.
Proof.
  intros fl sublen data c Hc. unfold parse_data in Hc. pose proof (len_nonneg _ data) as Hl.
  set (dk := flag fl 2 || flag fl 3) in *. clearbody dk.
  destruct (shorter data sublen); [cbn [snd] in Hc; lia|].
  assert (C0 : 0 <= snd ((_ <~ read_u16 (is_le fl);; o <~ read_u16 (is_le fl);; rid <~ read_entity_id;; wid <~ read_entity_id;;
                          sn <~ read_sn (is_le fl);; pret (o + 4, rid, wid, sn)) data) <= 20)
    by (match goal with |- 0 <= snd (?p ?v) <= _ => eassert (C : costs p _) by costs_auto; specialize (C v); lia end).
  destruct ((_ <~ read_u16 (is_le fl);; o <~ read_u16 (is_le fl);; rid <~ read_entity_id;; wid <~ read_entity_id;;
             sn <~ read_sn (is_le fl);; pret (o + 4, rid, wid, sn)) data) as [[[[[[o2q rid] wid] sn] s1]|e|x] c0];
    cbn [fst snd] in *; try lia.
  cbv zeta in Hc. set (endp := if sublen =? 0 then len data else sublen) in *.
  destruct (endp <? o2q); [cbn [snd] in Hc; lia|].
  pose proof (region_len data (Z.to_nat (endp - o2q)) (Z.to_nat o2q)) as Hr.
  set (region := firstn (Z.to_nat (endp - o2q)) (skipn (Z.to_nat o2q) data)) in *. clearbody region.
  pose proof (data_tail_cost (flag fl 1) dk (is_le fl) region) as T.
  destruct (if flag fl 1 then read_param_list (is_le fl) region else (Ok ([], region), 0)) as [[[qos rest]|e|x] c'];
    cbn [snd] in *; specialize (T _ eq_refl); lia.
Qed.

Lemma data_frag_cost : forall fl sublen data c, c = snd (parse_data_frag fl sublen data) -> 0 <= c <= 52 + 13 * len data.
Proof.
  intros fl sublen data c Hc. unfold parse_data_frag in Hc. pose proof (len_nonneg _ data) as Hl.
  destruct (shorter data sublen); [cbn [snd] in Hc; lia|].
  destruct (shorter data 32); [cbn [snd] in Hc; lia|].
  assert (C0 : 0 <= snd ((_ <~ read_u16 (is_le fl);; o <~ read_u16 (is_le fl);; rid <~ read_entity_id;; wid <~ read_entity_id;;
                          sn <~ read_sn (is_le fl);; fs <~ read_u32 (is_le fl);; fc <~ read_u16 (is_le fl);;
                          fz <~ read_u16 (is_le fl);; ds <~ read_u32 (is_le fl);;
                          pret (o + 4, rid, wid, sn, fs, fc, fz, ds)) data) <= 32)
    by (match goal with |- 0 <= snd (?p ?v) <= _ => eassert (C : costs p _) by costs_auto; specialize (C v); lia end).
  destruct ((_ <~ read_u16 (is_le fl);; o <~ read_u16 (is_le fl);; rid <~ read_entity_id;; wid <~ read_entity_id;;
             sn <~ read_sn (is_le fl);; fs <~ read_u32 (is_le fl);; fc <~ read_u16 (is_le fl);;
             fz <~ read_u16 (is_le fl);; ds <~ read_u32 (is_le fl);;
             pret (o + 4, rid, wid, sn, fs, fc, fz, ds)) data) as [[[[[[[[[[o2q rid] wid] sn] fs] fc] fz] ds] s1]|e|x] c0];
    cbn [fst snd] in *; try lia.
  cbv zeta in Hc. set (endp := if sublen =? 0 then len data else sublen) in *.
  destruct (endp <? o2q); [cbn [snd] in Hc; lia|].
  pose proof (region_len data (Z.to_nat (endp - o2q)) (Z.to_nat o2q)) as Hr.
  set (region := firstn (Z.to_nat (endp - o2q)) (skipn (Z.to_nat o2q) data)) in *. clearbody region.
  pose proof (data_tail_cost (flag fl 1) true (is_le fl) region) as T.
  destruct (if flag fl 1 then read_param_list (is_le fl) region else (Ok ([], region), 0)) as [[[qos rest]|e|x] c'];
    cbn [snd] in *; specialize (T _ eq_refl); lia.
Qed.

(* ------------------------------------------------------------------ INFO_REPLY *)
Lemma info_reply_cost : forall fl v c, c = snd (parse_info_reply fl v) -> 0 <= c <= 106 + 6 * len v.
Proof.
  intros fl v c Hc. unfold parse_info_reply in Hc. rewrite run_snd in Hc.
  unfold pbind at 1 in Hc. pose proof (len_nonneg _ v) as Hl.
  pose proof (locator_list_cost (is_le fl) v) as C1.
  pose proof (read_locator_list_ok (is_le fl) v) as O1.
  destruct (read_locator_list (is_le fl) v) as [[[u s1]|e|x] c1]; cbn [fst snd] in *; try lia.
  specialize (O1 u s1 eq_refl). pose proof (len_nonneg _ u). pose proof (len_nonneg _ s1).
  unfold pbind at 1 in Hc.
  destruct (flag fl 1).
  - pose proof (locator_list_cost (is_le fl) s1) as C2.
    destruct (read_locator_list (is_le fl) s1) as [[[m s2]|e|x] c2]; cbn [fst snd pret] in *; lia.
  - cbn [pret snd] in Hc. lia.
Qed.

(* ------------------------------------------------------------------ one submessage *)
Lemma parse_sub_cost : forall id fl sublen v c, c = snd (parse_sub id fl sublen v) -> 0 <= c <= 1341 + 13 * len v.
Proof.
  intros id fl sublen v c Hc. unfold parse_sub in Hc. pose proof (len_nonneg _ v) as Hl.
  destruct (id =? ID_ACKNACK); [pose proof (acknack_cost fl v); lia|].
  destruct (id =? ID_DATA); [pose proof (data_cost fl sublen v c Hc); lia|].
  destruct (id =? ID_DATA_FRAG); [pose proof (data_frag_cost fl sublen v c Hc); lia|].
  destruct (id =? ID_GAP); [pose proof (gap_cost fl v); lia|].
  destruct (id =? ID_HEARTBEAT); [pose proof (heartbeat_cost fl v); lia|].
  destruct (id =? ID_HEARTBEAT_FRAG); [pose proof (heartbeat_frag_cost fl v); lia|].
  destruct (id =? ID_INFO_DST); [pose proof (info_dst_cost fl v); lia|].
  destruct (id =? ID_INFO_REPLY); [pose proof (info_reply_cost fl v c Hc); lia|].
  destruct (id =? ID_INFO_SRC); [pose proof (info_src_cost fl v); lia|].
  destruct (id =? ID_INFO_TS); [pose proof (info_ts_cost fl v); lia|].
  destruct (id =? ID_NACK_FRAG); [pose proof (nack_frag_cost fl v); lia|].
  destruct (id =? ID_PAD); cbn [parse_pad snd] in Hc; lia.
Qed.

(* ----------------------------------------------------------------------- the loop *)
Lemma sub_loop_cost : forall fuel v c, c = snd (sub_loop fuel v) -> 0 <= c <= 359 * len v.
Proof.
  induction fuel as [|k IH]; intros v c Hc; pose proof (len_nonneg _ v) as Hl.
  - cbn [sub_loop snd] in Hc. lia.
  - destruct v as [|id [|fl [|b2 [|b3 v']]]]; try (cbn [sub_loop snd] in Hc; lia).
    cbn [sub_loop] in *. cbv zeta in *.
    set (sublen := sublen_of fl b2 b3) in *.
    rewrite !len_cons in *. pose proof (len_nonneg _ v') as Hl'.
    destruct (shorter v' sublen); [cbn [snd] in Hc; lia|].
    set (n := Z.to_nat (body_len_of id sublen v')) in *.
    pose proof (parse_sub_cost id fl sublen (firstn n v') _ eq_refl) as PC.
    pose proof (len_firstn_skipn n v') as Hsplit. pose proof (len_nonneg _ (firstn n v')).
    specialize (IH (skipn n v') _ eq_refl).
    destruct (parse_sub id fl sublen (firstn n v')) as [[sm|e|x] c0]; cbn [fst snd] in *.
    + destruct (sub_loop k (skipn n v')) as [[l'|e|x] c']; cbn [snd] in *; unfold SUB_SIZE in *; lia.
    + destruct (sub_loop k (skipn n v')) as [r c']; cbn [snd] in *. lia.
    + lia.
Qed.

(* bytes copied + loop iterations + bytes allocated, for every input *)
Theorem message_cost_linear : forall v, 0 <= message_cost v <= COST_C * len v + COST_K.
Proof.
  intros v. unfold message_cost, parse_message_cost.
  pose proof (len_nonneg _ v) as Hl. unfold COST_C, COST_K.
  destruct (shorter v 20); [cbn [snd]; lia|].
  destruct (negb (list_eqb (firstn 4 v) RTPS_MAGIC)); [cbn [snd]; lia|].
  pose proof (sub_loop_cost MAX_SUBMESSAGES (skipn 20 v) _ eq_refl) as SC.
  pose proof (len_skipn_le _ 20%nat v).
  destruct (sub_loop MAX_SUBMESSAGES (skipn 20 v)) as [[l|e|x] c]; cbn [snd] in *; lia.
Qed.
