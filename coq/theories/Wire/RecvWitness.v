(* C06 — non-vacuity and regression by computation on a concrete participant state
   (Wire/RecvModel.v: demo_state and the w_* byte strings). *)
From DustDDS Require Import Base.Machine Base.Bytes Wire.WireModel Wire.RecvModel Wire.RecvProofs.
Open Scope Z_scope.

Lemma demo_inv : InvC 0 demo_state.
Proof.
  split; repeat constructor; cbn; unfold i64_min, i64_max; try lia; try discriminate.
Qed.

(* the fifteen datagrams that panicked or hung the participant before the repairs (INFO_REPLY,
   GAP over 2^62 numbers, set members at i64::MAX, ACKNACK base i64::MIN, HEARTBEAT first i64::MIN,
   sequence number i64::MAX, fragment counts 65535 for one payload byte) are byte strings ... *)
Lemma former_witnesses_bytes : forallb bytes_okb former_witnesses = true.
Proof. vm_compute. reflexivity. Qed.
(* ... handled one after the other without a panic, with no sender-chosen work left *)
Lemma former_witnesses_handled :
  is_ok (run_datagrams demo_state former_witnesses) = true /\
  datagram_steps demo_state w_gap_range = 0 /\ datagram_steps demo_state w_frag_flood = 0 /\
  (forall st, handle_datagram st w_inforeply = Ok (st, [])).
Proof.
  split; [vm_compute; reflexivity|]. split; [vm_compute; reflexivity|]. split; [vm_compute; reflexivity|].
  intros st. vm_compute. destruct st; reflexivity.
Qed.

(* a datagram with eight submessages (INFO_TS, HEARTBEAT, GAP, ACKNACK, DATA_FRAG, NACK_FRAG,
   INFO_SRC, DATA) is handled, four datagrams are sent in reply *)
Lemma clean_handled :
  bytes_okb w_clean = true /\ len (subs_of w_clean) = 8 /\
  exists st1 o, handle_datagram demo_state w_clean = Ok (st1, o) /\ len o = 4.
Proof.
  split; [vm_compute; reflexivity|]. split; [vm_compute; reflexivity|].
  do 2 eexists. split; vm_compute; reflexivity.
Qed.

(* the reassembly loop is still quadratic in the fragments buffered for one sample: 40 honest
   one-byte fragments of a 40-byte sample cost (40 + 1) * 40 buffer comparisons when the last
   one arrives *)
Lemma reassembly_quadratic :
  bytes_okb w_honest_frags = true /\ datagram_steps demo_state w_honest_frags = 41 * 40.
Proof. split; vm_compute; reflexivity. Qed.

(* a consistent forged fragment announcing 65 535 000 bytes is reassembled into the 1000 bytes it
   carries *)
Lemma forged_frag_alloc :
  bytes_okb w_forged_frag = true /\ len w_forged_frag = 1056 /\
  datagram_alloc demo_state w_forged_frag = 1000 /\ is_ok (handle_datagram demo_state w_forged_frag) = true.
Proof. repeat split; vm_compute; reflexivity. Qed.
