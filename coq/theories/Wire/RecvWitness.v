(* C06 — inside every known class the property fails: concrete datagrams on a concrete
   participant state (Wire/RecvModel.v: demo_state and the w_* byte strings), by computation. *)
From DustDDS Require Import Base.Machine Base.Bytes Wire.WireModel Wire.RecvModel Wire.RecvProofs.
Open Scope Z_scope.

Lemma demo_inv : InvC 0 demo_state.
Proof.
  split; repeat constructor; cbn; unfold i64_min, i64_max; try lia; try discriminate.
Qed.

(* 1: INFO_REPLY panics every participant, whatever its state and whoever sent it *)
Lemma inforeply_panics : forall st, handle_datagram st w_inforeply = Panic S_MR_INFO_REPLY.
Proof. intros st. vm_compute. reflexivity. Qed.
Lemma inforeply_class : C06_known_dgram w_inforeply = true /\ len w_inforeply = 52.
Proof. split; vm_compute; reflexivity. Qed.

(* 2: the GAP range loop: 2^62 - 1 iterations for a 52-byte datagram *)
Lemma gap_range_steps :
  datagram_steps demo_state w_gap_range = 2 ^ 62 - 1 /\ len w_gap_range = 52 /\
  existsb k_gap_range (subs_of w_gap_range) = true /\ existsb known_panic (subs_of w_gap_range) = false.
Proof. repeat split; vm_compute; reflexivity. Qed.

(* 3: sequence number set members at the i64 boundary *)
Lemma set_iter_panics : handle_datagram demo_state w_set_iter = Panic (S_SE + 63).
Proof. vm_compute. reflexivity. Qed.
Lemma set_member_max_panics : handle_datagram demo_state w_set_member_max = Panic S_SW_REQGAP.
Proof. vm_compute. reflexivity. Qed.
(* a GAP naming i64::MAX is accepted and poisons the proxy: the next, perfectly ordinary DATA of
   that writer panics the participant *)
Lemma gap_member_max_poisons :
  exists st1 o, handle_datagram demo_state w_gap_member_max = Ok (st1, o) /\
                C06_known_dgram w_data_5 = false /\ handle_datagram st1 w_data_5 = Panic S_SR_EXPECTED.
Proof. do 2 eexists. split; [vm_compute; reflexivity|]. split; vm_compute; reflexivity. Qed.

(* 4: ACKNACK base i64::MIN *)
Lemma acknack_min_panics : handle_datagram demo_state w_acknack_min = Panic S_SW_ACKED.
Proof. vm_compute. reflexivity. Qed.

(* 5: HEARTBEAT first_sn i64::MIN: at once, or (final flag) at the next DATA *)
Lemma hb_min_panics : handle_datagram demo_state w_hb_min = Panic S_WP_FIRST.
Proof. vm_compute. reflexivity. Qed.
Lemma hb_min_poisons :
  exists st1 o, handle_datagram demo_state w_hb_min_final = Ok (st1, o) /\
                C06_known_dgram w_data_1 = false /\ handle_datagram st1 w_data_1 = Panic S_WP_FIRST.
Proof. do 2 eexists. split; [vm_compute; reflexivity|]. split; vm_compute; reflexivity. Qed.

(* 6: sequence number i64::MAX *)
Lemma nackfrag_max_panics : handle_datagram demo_state w_nackfrag_max = Panic S_SW_NFGAP.
Proof. vm_compute. reflexivity. Qed.
Lemma data_max_poisons :
  exists st1 o1 st2 o2, handle_datagram demo_state w_hb_first_max = Ok (st1, o1) /\
    C06_known_dgram w_hb_first_max = false /\
    handle_datagram st1 w_data_max = Ok (st2, o2) /\
    C06_known_dgram w_data_3 = false /\ handle_datagram st2 w_data_3 = Panic S_SR_EXPECTED.
Proof.
  do 4 eexists. split; [vm_compute; reflexivity|]. split; [vm_compute; reflexivity|].
  split; [vm_compute; reflexivity|]. split; vm_compute; reflexivity.
Qed.

(* 7: 50 DATA_FRAGs of one payload byte each, 1870 bytes: 65535 * 50 * 50 buffer comparisons
   (the count grows with the square of the number of fragments in the datagram) *)
Lemma frag_flood_steps :
  datagram_steps demo_state w_frag_flood = (65535 * 50 + 1) * 50 /\ len w_frag_flood = 1870 /\
  existsb k_frag_count (subs_of w_frag_flood) = true /\ existsb known_panic (subs_of w_frag_flood) = false /\
  steps_bound (len (subs_of w_frag_flood)) 1 (frag_bytes (subs_of w_frag_flood)) < datagram_steps demo_state w_frag_flood.
Proof. repeat split; vm_compute; reflexivity. Qed.

(* outside the classes: a datagram with eight submessages (INFO_TS, HEARTBEAT, GAP, ACKNACK,
   DATA_FRAG, NACK_FRAG, INFO_SRC, DATA) is handled, four datagrams are sent in reply *)
Lemma clean_handled :
  dgram_fine w_clean /\ len (subs_of w_clean) = 8 /\
  exists st1 o, handle_datagram demo_state w_clean = Ok (st1, o) /\ len o = 4 /\
                datagram_steps demo_state w_clean = 1.
Proof.
  split; [split; vm_compute; reflexivity|]. split; [vm_compute; reflexivity|].
  do 2 eexists. split; [vm_compute; reflexivity|]. split; vm_compute; reflexivity.
Qed.
