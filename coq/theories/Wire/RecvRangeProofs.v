(* C06 — the values the decoder hands to the handlers are in their machine ranges, for every
   byte string (bytes_ok: every element in 0..255). *)
From DustDDS Require Import Base.Machine Base.Bytes Wire.WireModel Wire.WireProofs Wire.WireSetsProofs
  Wire.WireTotalProofs Wire.WireMemProofs Wire.WireRoundProofs Wire.RecvModel Wire.RecvProofs.
Open Scope Z_scope.

Definition byields {A} (p : parser A) (P : A -> Prop) : Prop :=
  forall s a s1, bytes_ok s -> fst (p s) = Ok (a, s1) -> P a /\ bytes_ok s1.

Lemma byields_bind : forall A B (p : parser A) (f : A -> parser B) (P : A -> Prop) (Q : B -> Prop),
  byields p P -> (forall a, P a -> byields (f a) Q) -> byields (pbind p f) Q.
Proof.
  intros A B p f P Q Hp Hf s b s2 Hs Hb. apply pbind_inv_ok in Hb as (a & s1 & H1 & H2).
  destruct (Hp s a s1 Hs H1) as [Pa Hs1]. eapply Hf; eauto.
Qed.
Lemma byields_pret : forall A (a : A) (Q : A -> Prop), Q a -> byields (pret a) Q.
Proof. intros A a Q H s b s1 Hs Hb. apply pret_ok in Hb as [-> ->]. auto. Qed.
Lemma byields_weaken : forall A (p : parser A) (P Q : A -> Prop), byields p P -> (forall a, P a -> Q a) -> byields p Q.
Proof. intros A p P Q H HPQ s a s1 Hs Ha. destruct (H s a s1 Hs Ha). auto. Qed.
Lemma byields_perr : forall A e (Q : A -> Prop), byields (@perr A e) Q.
Proof. intros A e Q s a s1 _ H. discriminate. Qed.
Lemma byields_ptick : forall n, byields (ptick n) (fun _ => True).
Proof. intros n s a s1 Hs H. cbn in H. inversion H; subst. auto. Qed.
Lemma byields_if : forall A (b : bool) (p q : parser A) Q, byields p Q -> byields q Q -> byields (if b then p else q) Q.
Proof. intros; destruct b; auto. Qed.

Lemma byields_read_n : forall n, byields (read_n n) (fun b => bytes_ok b /\ length b = n).
Proof.
  intros n s a s1 Hs H. unfold read_n in H. rewrite shorter_spec in H.
  destruct (Z.ltb_spec (len s) (Z.of_nat n)) as [Hl|Hl]; cbn [fst] in H; [discriminate|].
  inversion H; subst. split; [split; [apply bytes_ok_firstn; exact Hs|]|apply bytes_ok_skipn; exact Hs].
  rewrite firstn_length_min. unfold len in Hl. lia.
Qed.

Lemma dec_int_range : forall le b, bytes_ok b -> 0 <= dec_int le b < 256 ^ len b.
Proof. intros le b H. unfold dec_int. destruct le; [apply dec_le_range|apply dec_be_range]; exact H. Qed.

Lemma byields_u16 : forall le, byields (read_u16 le) (fun x => 0 <= x <= 65535).
Proof.
  intros le. unfold read_u16. eapply byields_bind; [apply byields_read_n|]. intros b [Hb Hl].
  apply byields_pret. pose proof (dec_int_range le b Hb) as R. unfold len in R. rewrite Hl in R. cbn in R. lia.
Qed.
Lemma byields_u32 : forall le, byields (read_u32 le) in_u32.
Proof.
  intros le. unfold read_u32. eapply byields_bind; [apply byields_read_n|]. intros b [Hb Hl].
  apply byields_pret. pose proof (dec_int_range le b Hb) as R. unfold len in R. rewrite Hl in R. cbn in R.
  unfold in_u32, u32_max. lia.
Qed.
Lemma byields_i32 : forall le, byields (read_i32 le) in_i32.
Proof.
  intros le. unfold read_i32. eapply byields_bind; [apply byields_read_n|]. intros b [Hb Hl].
  apply byields_pret. apply to_signed32_range. pose proof (dec_int_range le b Hb) as R. unfold len in R. rewrite Hl in R. cbn in R.
  unfold in_u32, u32_max. lia.
Qed.
Lemma byields_sn : forall le, byields (read_sn le) in_i64.
Proof.
  intros le. unfold read_sn. eapply byields_bind; [apply byields_i32|]. intros h Hh.
  eapply byields_bind; [apply byields_u32|]. intros l Hl. apply byields_pret.
  unfold in_i32, in_u32, in_i64, i32_min, i32_max, u32_max, i64_min, i64_max, two32 in *. lia.
Qed.
Lemma byields_eid : byields read_entity_id (fun _ => True).
Proof.
  unfold read_entity_id. eapply byields_bind; [apply byields_read_n|]. intros k _.
  eapply byields_bind; [apply byields_read_n|]. intros d _. apply byields_pret. exact I.
Qed.
Lemma byields_words : forall le n, byields (read_words le n) (fun _ => True).
Proof.
  intros le. induction n as [|k IH]; cbn [read_words]; [apply byields_pret; exact I|].
  eapply byields_bind; [apply byields_i32|]. intros w _. eapply byields_bind; [exact IH|]. intros ws _.
  apply byields_pret. exact I.
Qed.
Lemma byields_bitmap : forall le nb, byields (read_bitmap le nb) (fun _ => True).
Proof.
  intros le nb. unfold read_bitmap. eapply byields_bind; [apply byields_words|]. intros ws _. apply byields_pret. exact I.
Qed.
Lemma byields_snset : forall le, byields (read_snset le) (fun s => in_i64 (ss_base s)).
Proof.
  intros le. unfold read_snset. eapply byields_bind; [apply byields_sn|]. intros base Hb.
  eapply byields_bind; [apply byields_u32|]. intros nb _.
  apply byields_if; [apply byields_perr|].
  eapply byields_bind; [apply byields_bitmap|]. intros ws _. apply byields_pret. exact Hb.
Qed.

(* FragmentNumberSet: what the decoder builds iterates without overflow *)
Lemma plift_ok' : forall A (r : res A) s a s1, fst (plift r s) = Ok (a, s1) -> r = Ok a /\ s1 = s.
Proof. intros A [x|e|y] s a s1 H; cbn in H; try discriminate. inversion H; auto. Qed.

Lemma fn_collect_u32 : forall base ws n i l, 0 <= i -> fn_collect base ws n i = Ok l ->
  Forall (fun m => base <= m <= u32_max /\ (m - base) / 32 < 8) l.
Proof.
  intros base ws n; induction n; intros i l Hi H; cbn [fn_collect] in H.
  - inversion H; constructor.
  - destruct (Z.leb_spec 8 (i / 32)); [discriminate|].
    destruct (bit_set ws i).
    + destruct (Z.gtb_spec (base + i) u32_max); [discriminate|].
      destruct (fn_collect base ws n (i + 1)) as [r|e|y] eqn:E; cbn in H; try discriminate.
      inversion H; subst. constructor.
      * split; [lia|]. replace (base + i - base) with i by lia. lia.
      * eapply IHn; [|exact E]. lia.
    + eapply IHn; [|exact H]. lia.
Qed.

Lemma In_ziota_inv : forall n j, In j (ziota n) -> 0 <= j < n.
Proof.
  intros n j H. unfold ziota in H. apply in_map_iff in H as (k & <- & Hk). apply in_seq in Hk. lia.
Qed.

Lemma byields_fnset : forall le, byields (read_fnset le) (fun fs => fset_overflows fs = false).
Proof.
  intros le. unfold read_fnset. eapply byields_bind; [apply byields_u32|]. intros base Hb.
  eapply byields_bind; [apply byields_u32|]. intros nb _.
  apply byields_if; [apply byields_perr|].
  eapply byields_bind; [apply byields_bitmap|]. intros ws _.
  eapply byields_bind; [apply byields_ptick|]. intros u _.
  intros s fs s2 Hs H. apply pbind_inv_ok in H as (set & s1 & H1 & H2).
  apply plift_ok' in H1 as [Hc ->]. apply plift_ok' in H2 as [Hn ->]. split; [|exact Hs].
  apply fn_collect_u32 in Hc; [|lia].
  assert (V : valid_fnsetb (mk_nset base set) = true).
  { unfold valid_fnsetb. cbn [ns_base ns_members]. apply andb_true_iff. split.
    - unfold in_u32b. destruct Hb. apply andb_true_iff; split; apply Z.leb_le; assumption.
    - apply forallb_forall. intros m Hm. rewrite Forall_forall in Hc. destruct (Hc m Hm) as [[M1 M2] M3].
      destruct Hb as [B0 B1].
      assert (m - base < 256) by (destruct (Z.lt_ge_cases (m - base) 256); [assumption|];
                                  assert (8 <= (m - base) / 32) by (apply Z.div_le_lower_bound; lia); lia).
      unfold in_u32b. repeat (apply andb_true_iff; split); try apply Z.leb_le; try apply Z.ltb_lt; lia. }
  destruct (fnset_new_valid (mk_nset base set) V) as (x & Hx & (_ & _ & Ho) & _). cbn [ns_base ns_members] in Hx.
  rewrite Hx in Hn. inversion Hn; subst x. clear Hn.
  unfold fset_overflows. destruct (existsb _ _) eqn:E; [|reflexivity]. exfalso.
  apply existsb_exists in E as (j & Hj & Hb2). apply In_ziota_inv in Hj.
  apply andb_true_iff in Hb2 as [Hbit Hov]. apply Z.ltb_lt in Hov.
  specialize (Ho j Hj Hbit). lia.
Qed.

(* ------------------------------------------------------------ the submessages *)
Lemma run_byields : forall A (p : parser A) (P : A -> Prop) v a, bytes_ok v -> byields p P -> fst (run p v) = Ok a -> P a.
Proof. intros A p P v a Hv Hy H. apply run_ok_inv in H as (s & H). eapply Hy; eauto. Qed.

Lemma acknack_range : forall fl v sm, bytes_ok v -> fst (parse_acknack fl v) = Ok sm -> sub_range sm.
Proof.
  intros fl v sm Hv H. unfold parse_acknack in H. eapply run_byields; [exact Hv| |exact H].
  eapply byields_bind; [apply byields_eid|]. intros rid _. eapply byields_bind; [apply byields_eid|]. intros wid _.
  eapply byields_bind; [apply byields_snset|]. intros st Hst. eapply byields_bind; [apply byields_i32|]. intros c _.
  apply byields_pret. exact Hst.
Qed.
Lemma gap_range : forall fl v sm, bytes_ok v -> fst (parse_gap fl v) = Ok sm -> sub_range sm.
Proof.
  intros fl v sm Hv H. unfold parse_gap in H. eapply run_byields; [exact Hv| |exact H].
  eapply byields_bind; [apply byields_eid|]. intros rid _. eapply byields_bind; [apply byields_eid|]. intros wid _.
  eapply byields_bind; [apply byields_sn|]. intros st Hst. eapply byields_bind; [apply byields_snset|]. intros gl Hgl.
  apply byields_pret. split; assumption.
Qed.
Lemma heartbeat_range : forall fl v sm, bytes_ok v -> fst (parse_heartbeat fl v) = Ok sm -> sub_range sm.
Proof.
  intros fl v sm Hv H. unfold parse_heartbeat in H. eapply run_byields; [exact Hv| |exact H].
  eapply byields_bind; [apply byields_eid|]. intros rid _. eapply byields_bind; [apply byields_eid|]. intros wid _.
  eapply byields_bind; [apply byields_sn|]. intros f Hf. eapply byields_bind; [apply byields_sn|]. intros l Hl.
  eapply byields_bind; [apply byields_i32|]. intros c _. apply byields_pret. split; assumption.
Qed.
Lemma nack_frag_range : forall fl v sm, bytes_ok v -> fst (parse_nack_frag fl v) = Ok sm -> sub_range sm.
Proof.
  intros fl v sm Hv H. unfold parse_nack_frag in H. eapply run_byields; [exact Hv| |exact H].
  eapply byields_bind; [apply byields_eid|]. intros rid _. eapply byields_bind; [apply byields_eid|]. intros wid _.
  eapply byields_bind; [apply byields_sn|]. intros s Hs. eapply byields_bind; [apply byields_fnset|]. intros fs Hfs.
  eapply byields_bind; [apply byields_i32|]. intros c _. apply byields_pret. split; assumption.
Qed.

Lemma data_range : forall fl sublen v sm, bytes_ok v -> fst (parse_data fl sublen v) = Ok sm -> sub_range sm.
Proof.
  intros fl sublen v sm Hv H. unfold parse_data in H.
  destruct (shorter v sublen); [cbn [fst] in H; discriminate|].
  match type of H with context [match ?p v with _ => _ end] => set (hd := p) in * end.
  assert (Hy : byields hd (fun t => in_i64 (snd t))).
  { subst hd. eapply byields_bind; [apply byields_u16|]. intros x _. eapply byields_bind; [apply byields_u16|]. intros o _.
    eapply byields_bind; [apply byields_eid|]. intros rid _. eapply byields_bind; [apply byields_eid|]. intros wid _.
    eapply byields_bind; [apply byields_sn|]. intros s Hs. apply byields_pret. exact Hs. }
  destruct (hd v) as [[[[[[o2q rid] wid] s] rest0]|e|x] c] eqn:E; cbn [fst] in H; try discriminate.
  assert (Hs : in_i64 s) by (destruct (Hy v (o2q, rid, wid, s) rest0 Hv) as [X _]; [rewrite E; reflexivity|exact X]).
  destruct (_ <? o2q); [cbn [fst] in H; discriminate|].
  match type of H with context [match ?q with _ => _ end] => destruct q as [[[qos rest]|e|x] c'] end;
    cbn [fst] in H; try discriminate.
  inversion H; subst. exact Hs.
Qed.

Lemma data_frag_range : forall fl sublen v sm, bytes_ok v -> fst (parse_data_frag fl sublen v) = Ok sm -> sub_range sm.
Proof.
  intros fl sublen v sm Hv H. unfold parse_data_frag in H.
  destruct (shorter v sublen); [cbn [fst] in H; discriminate|].
  destruct (shorter v 32); [cbn [fst] in H; discriminate|].
  match type of H with context [match ?p v with _ => _ end] => set (hd := p) in * end.
  assert (Hy : byields hd (fun t => match t with (_, _, _, s, _, fc, _, _) => in_i64 s /\ 0 <= fc end)).
  { subst hd. eapply byields_bind; [apply byields_u16|]. intros x _. eapply byields_bind; [apply byields_u16|]. intros o _.
    eapply byields_bind; [apply byields_eid|]. intros rid _. eapply byields_bind; [apply byields_eid|]. intros wid _.
    eapply byields_bind; [apply byields_sn|]. intros s Hs. eapply byields_bind; [apply byields_u32|]. intros fs _.
    eapply byields_bind; [apply byields_u16|]. intros fc Hfc. eapply byields_bind; [apply byields_u16|]. intros fz _.
    eapply byields_bind; [apply byields_u32|]. intros ds _. apply byields_pret. cbv beta in Hfc. split; [exact Hs|lia]. }
  destruct (hd v) as [[[[[[[[[[o2q rid] wid] s] fs] fc] fz] ds] rest0]|e|x] c] eqn:E; cbn [fst] in H; try discriminate.
  assert (Hs : in_i64 s /\ 0 <= fc).
  { destruct (Hy v (o2q, rid, wid, s, fs, fc, fz, ds) rest0 Hv) as [X _]; [rewrite E; reflexivity|exact X]. }
  destruct (_ <? o2q); [cbn [fst] in H; discriminate|].
  match type of H with context [match ?q with _ => _ end] => destruct q as [[[qos rest]|e|x] c'] end;
    cbn [fst] in H; try discriminate.
  inversion H; subst. exact Hs.
Qed.

Lemma other_range : forall (r : res psub * Z) sm, fst r = Ok sm ->
  (forall sm', fst r = Ok sm' -> match sm' with
     | HeartbeatFrag _ _ _ _ _ | InfoDst _ | InfoReply _ _ _ | InfoSrc _ _ _ | InfoTs _ _ _ | Pad => True | _ => False end) ->
  sub_range sm.
Proof. intros r sm H Hk. specialize (Hk sm H). destruct sm; try contradiction; exact I. Qed.

Lemma parse_sub_range : forall id fl sublen v sm, bytes_ok v -> fst (parse_sub id fl sublen v) = Ok sm -> sub_range sm.
Proof.
  intros id fl sublen v sm Hv H. unfold parse_sub in H.
  destruct (id =? ID_ACKNACK); [eapply acknack_range; eauto|].
  destruct (id =? ID_DATA); [eapply data_range; eauto|].
  destruct (id =? ID_DATA_FRAG); [eapply data_frag_range; eauto|].
  destruct (id =? ID_GAP); [eapply gap_range; eauto|].
  destruct (id =? ID_HEARTBEAT); [eapply heartbeat_range; eauto|].
  destruct (id =? ID_HEARTBEAT_FRAG).
  { unfold parse_heartbeat_frag in H. apply run_ok_inv in H as (s & H).
    repeat (apply pbind_inv_ok in H as (? & ? & _ & H)). apply pret_ok in H as [-> _]. exact I. }
  destruct (id =? ID_INFO_DST).
  { unfold parse_info_dst in H. apply run_ok_inv in H as (s & H).
    repeat (apply pbind_inv_ok in H as (? & ? & _ & H)). apply pret_ok in H as [-> _]. exact I. }
  destruct (id =? ID_INFO_REPLY).
  { unfold parse_info_reply in H. apply run_ok_inv in H as (s & H).
    repeat (apply pbind_inv_ok in H as (? & ? & _ & H)). apply pret_ok in H as [-> _]. exact I. }
  destruct (id =? ID_INFO_SRC).
  { unfold parse_info_src in H. apply run_ok_inv in H as (s & H).
    repeat (apply pbind_inv_ok in H as (? & ? & _ & H)). apply pret_ok in H as [-> _]. exact I. }
  destruct (id =? ID_INFO_TS).
  { unfold parse_info_ts in H. destruct (flag fl 1); [cbn [fst] in H; inversion H; exact I|].
    apply run_ok_inv in H as (s & H).
    repeat (apply pbind_inv_ok in H as (? & ? & _ & H)). apply pret_ok in H as [-> _]. exact I. }
  destruct (id =? ID_NACK_FRAG); [eapply nack_frag_range; eauto|].
  destruct (id =? ID_PAD); [cbn [parse_pad fst] in H; inversion H; exact I|].
  cbn [fst] in H. discriminate.
Qed.

Lemma sub_loop_range : forall fuel v l, bytes_ok v -> fst (sub_loop fuel v) = Ok l -> Forall sub_range l.
Proof.
  induction fuel as [|k IH]; intros v l Hv H; cbn [sub_loop] in H; [cbn [fst] in H; inversion H; constructor|].
  destruct v as [|id [|fl [|b2 [|b3 v']]]]; try (cbn [fst] in H; inversion H; constructor).
  assert (Hv' : bytes_ok v') by (unfold bytes_ok in *; repeat match goal with X : Forall _ (_ :: _) |- _ => inversion X; clear X; subst end; assumption).
  destruct (shorter v' _); [cbn [fst] in H; inversion H; constructor|].
  set (n := Z.to_nat _) in *.
  destruct (parse_sub id fl _ (firstn n v')) as [[sm|e|x] c] eqn:E.
  - destruct (sub_loop k (skipn n v')) as [[l'|e'|x'] c'] eqn:E2; cbn [fst] in H; try discriminate.
    inversion H; subst. constructor.
    + eapply parse_sub_range; [apply bytes_ok_firstn; exact Hv'|rewrite E; reflexivity].
    + eapply IH; [apply bytes_ok_skipn; exact Hv'|rewrite E2; reflexivity].
  - destruct (sub_loop k (skipn n v')) as [r c'] eqn:E2; cbn [fst] in H.
    eapply IH; [apply bytes_ok_skipn; exact Hv'|rewrite E2; exact H].
  - cbn [fst] in H. discriminate.
Qed.

Theorem decoded_in_range : forall bytes, bytes_ok bytes -> Forall sub_range (subs_of bytes).
Proof.
  intros bytes Hb. unfold subs_of. destruct (parse_message bytes) as [[h l]|e|x] eqn:E; try constructor.
  unfold parse_message, parse_message_cost in E.
  destruct (shorter bytes 20); [cbn [fst] in E; discriminate|].
  destruct (negb _); [cbn [fst] in E; discriminate|].
  destruct (sub_loop MAX_SUBMESSAGES (skipn 20 bytes)) as [[l'|e'|x'] c] eqn:E2; cbn [fst] in E; try discriminate.
  inversion E; subst. eapply sub_loop_range; [apply bytes_ok_skipn; exact Hb|rewrite E2; reflexivity].
Qed.
