(* Correspondence vocabulary for C08 and C07 (RTPS part): a case carries the input AND
   what the real code produced; model agreement and the property oracle are evaluated
   inside Coq on these terms. *)
From DustDDS Require Export Base.Machine Base.Bytes Wire.WireModel.
Open Scope Z_scope.

(* compact byte strings in generated case files: literal chunks and repeated patterns *)
Inductive chunk : Type := L (l : list Z) | R (n : Z) (pat : list Z).
Fixpoint rep_app (n : nat) (pat : list Z) (acc : list Z) : list Z :=
  match n with O => acc | S k => pat ++ rep_app k pat acc end.
Fixpoint X (cs : list chunk) : list Z :=
  match cs with
  | [] => []
  | L l :: t => l ++ X t
  | R n p :: t => rep_app (Z.to_nat n) p (X t)
  end.

(* ------------------------------------------------------------- equalities *)
Fixpoint list_eqb_gen {A} (eq : A -> A -> bool) (a b : list A) : bool :=
  match a, b with
  | [], [] => true
  | x :: a', y :: b' => eq x y && list_eqb_gen eq a' b'
  | _, _ => false
  end.
Definition param_eqb (a b : param) : bool := (p_id a =? p_id b) && list_eqb (p_val a) (p_val b).
Definition loc_eqb (a b : locator) : bool :=
  (l_kind a =? l_kind b) && (l_port a =? l_port b) && list_eqb (l_addr a) (l_addr b).
Definition nset_eqb (a b : nset) : bool := (ns_base a =? ns_base b) && list_eqb (ns_members a) (ns_members b).
Definition usub_eqb (a b : usub) : bool :=
  match a, b with
  | AckNack f r w s c, AckNack f' r' w' s' c' =>
      Bool.eqb f f' && list_eqb r r' && list_eqb w w' && nset_eqb s s' && (c =? c')
  | Data q d k n r w sn qs p, Data q' d' k' n' r' w' sn' qs' p' =>
      Bool.eqb q q' && Bool.eqb d d' && Bool.eqb k k' && Bool.eqb n n' && list_eqb r r' && list_eqb w w' &&
      (sn =? sn') && list_eqb_gen param_eqb qs qs' && list_eqb p p'
  | DataFrag q k n r w sn a b c d qs p, DataFrag q' k' n' r' w' sn' a' b' c' d' qs' p' =>
      Bool.eqb q q' && Bool.eqb k k' && Bool.eqb n n' && list_eqb r r' && list_eqb w w' && (sn =? sn') &&
      (a =? a') && (b =? b') && (c =? c') && (d =? d') && list_eqb_gen param_eqb qs qs' && list_eqb p p'
  | Gap r w st g, Gap r' w' st' g' => list_eqb r r' && list_eqb w w' && (st =? st') && nset_eqb g g'
  | Heartbeat f l r w a b c, Heartbeat f' l' r' w' a' b' c' =>
      Bool.eqb f f' && Bool.eqb l l' && list_eqb r r' && list_eqb w w' && (a =? a') && (b =? b') && (c =? c')
  | HeartbeatFrag r w sn lf c, HeartbeatFrag r' w' sn' lf' c' =>
      list_eqb r r' && list_eqb w w' && (sn =? sn') && (lf =? lf') && (c =? c')
  | InfoDst p, InfoDst p' => list_eqb p p'
  | InfoReply m u mu, InfoReply m' u' mu' =>
      Bool.eqb m m' && list_eqb_gen loc_eqb u u' && list_eqb_gen loc_eqb mu mu'
  | InfoSrc a b c, InfoSrc a' b' c' => list_eqb a a' && list_eqb b b' && list_eqb c c'
  | InfoTs i s f, InfoTs i' s' f' => Bool.eqb i i' && (s =? s') && (f =? f')
  | NackFrag r w sn s c, NackFrag r' w' sn' s' c' =>
      list_eqb r r' && list_eqb w w' && (sn =? sn') && nset_eqb s s' && (c =? c')
  | Pad, Pad => true
  | _, _ => false
  end.
Definition hdr_eqb (a b : hdr) : bool :=
  list_eqb (h_version a) (h_version b) && list_eqb (h_vendor a) (h_vendor b) && list_eqb (h_prefix a) (h_prefix b).
(* a submessage as printed by the harness: its fields, or "an accessor panicked" *)
Definition rsub_eqb (a b : res usub) : bool :=
  match a, b with
  | Ok x, Ok y => usub_eqb x y
  | Panic _, Panic _ => true
  | _, _ => false
  end.
Definition dec : Type := res (hdr * list (res usub)).
Definition dec_eqb (a b : dec) : bool :=
  match a, b with
  | Ok (h, l), Ok (h', l') => hdr_eqb h h' && list_eqb_gen rsub_eqb l l'
  | Err x, Err y => x =? y
  | Panic _, Panic _ => true
  | _, _ => false
  end.

(* ---------------------------------------------------------------------- C08 *)
(* input: endianness, header, submessages (sets as base + members);
   output of the real code: the encoded buffer and what try_from + accessors gave back *)
Record C08_case : Type := mkC08 {
  c8_le : bool; c8_hdr : hdr; c8_subs : list usub; c8_bytes : list Z; c8_dec : dec }.

Definition C08_model_ok (c : C08_case) : bool :=
  match encode_umessage (c8_le c) (c8_hdr c) (c8_subs c) with
  | Ok b => list_eqb b (c8_bytes c) && dec_eqb (parse_observe (c8_bytes c)) (c8_dec c)
  | _ => false
  end.

(* the property on the implementation's own output: decodes back to the same header and
   (canonical) submessages, and every length field is exact *)
Definition C08_oracle_ok (c : C08_case) : bool :=
  dec_eqb (c8_dec c) (Ok (c8_hdr c, map (fun s => Ok (canon_sub s)) (c8_subs c))) &&
  list_eqb (firstn 20 (c8_bytes c)) (enc_hdr (c8_hdr c)) &&
  lengths_exact (c8_le c) (map sub_id (c8_subs c)) (skipn 20 (c8_bytes c)).

(* class 1: a submessage or parameter longer than its 16-bit length field (C08-length-truncation) *)
Definition C08_known (c : C08_case) : N :=
  if existsb C08_known_len (c8_subs c) then 1%N else 0%N.

(* ---------------------------------------------------------------------- C07 *)
(* input: any byte string; output of the real try_from (+ accessors) and what the call
   requested from the allocator: total bytes, peak live bytes, bytes still held by the result *)
Record C07_case : Type := mkC07 {
  c7_bytes : list Z; c7_out : dec; c7_alloc : Z; c7_peak : Z; c7_kept : Z }.

Definition dec_mem (v : list Z) : Z :=
  match parse_message v with Ok (_, l) => msg_mem l | _ => 0 end.

(* the model gives the same result, and its cost outputs are not under-estimates:
   measured allocation stays within a fixed factor of the modelled cost (Vec growth
   doubles, the allocator rounds), retained memory within a factor of msg_mem *)
Definition observe_dec (r : res (hdr * list psub)) : dec :=
  x <- r ;; Ok (fst x, map observe_sub (snd x)).
Definition C07_model_ok (c : C07_case) : bool :=
  let pc := parse_message_cost (c7_bytes c) in
  dec_eqb (observe_dec (fst pc)) (c7_out c) &&
  (is_panic (c7_out c) ||
   ((c7_alloc c <=? 4 * snd pc + 1024) &&
    (c7_kept c <=? 4 * (match fst pc with Ok (_, l) => msg_mem l | _ => 0 end) + 512))).

(* the property: a value or an error, never a panic; peak memory within a small multiple
   of the input length; and (the cost part of the work item) the bytes requested from the
   allocator over the whole call within a multiple of the input length *)
Definition MEM_C : Z := 64.
Definition MEM_K : Z := 4096.
Definition ALLOC_C : Z := 256.
Definition ALLOC_K : Z := 8192.
Definition C07_oracle_ok (c : C07_case) : bool :=
  negb (is_panic (c7_out c)) && (c7_peak c <=? MEM_C * len (c7_bytes c) + MEM_K) &&
  (c7_alloc c <=? ALLOC_C * len (c7_bytes c) + ALLOC_K).

(* no recorded classes: the three former ones (FragmentNumberSet numBits, INFO_REPLY over-read,
   DATA rescan) were repaired in /repo (221c5f8, 0cb9fa7) and the model follows the fixed code *)
Definition C07_known (c : C07_case) : N := 0%N.
