(* C07 (RTPS part): the memory held by the decoded message is linear in the input length. *)
From DustDDS Require Import Base.Machine Base.Bytes Wire.WireModel Wire.WireProofs Wire.WireTotalProofs.
Open Scope Z_scope.
Ltac Zify.zify_post_hook ::= Z.div_mod_to_equations.

Lemma pret_ok : forall A (a b : A) s s1, fst (pret a s) = Ok (b, s1) -> b = a /\ s1 = s.
Proof. intros A a b s s1 H. unfold pret in H. cbn [fst] in H. inversion H; auto. Qed.
Lemma ptick_ok : forall n u s s1, fst (ptick n s) = Ok (u, s1) -> s1 = s.
Proof. intros n u s s1 H. unfold ptick in H. cbn [fst] in H. inversion H; auto. Qed.

Lemma sumZ_app : forall a b, sumZ (a ++ b) = sumZ a + sumZ b.
Proof. induction a; intros; cbn [app sumZ]; [lia|rewrite IHa; lia]. Qed.

Definition params_wire (ps : list param) : Z := sumZ (map (fun p => 4 + len (p_val p)) ps).

Lemma params_mem_wire : forall ps, sumZ (map param_mem ps) <= 10 * params_wire ps.
Proof.
  induction ps as [|p t IH]; unfold params_wire in *; cbn [map sumZ]; [lia|].
  unfold param_mem at 1, PARAM_SIZE, ARC_HDR. pose proof (len_nonneg _ (p_val p)). lia.
Qed.

(* what a successful Parameter read consumed *)
Lemma read_param_ok : forall le s p s1, fst (read_param le s) = Ok (p, s1) ->
  len s = 4 + len (p_val p) + len s1 \/ (p_id p = PID_SENTINEL /\ len s = 4 + len s1).
Proof.
  intros le s p s1. unfold read_param. cbv zeta. rewrite !shorter_spec.
  destruct (Z.ltb_spec (len s) 4) as [L|L]; [cbn [fst]; discriminate|].
  assert (E4 : len s = 4 + len (skipn 4 s)) by (rewrite len_skipn; unfold len in *; lia).
  set (t := skipn 4 s) in *. clearbody t.
  destruct (negb _ && negb _); cbn [fst]; [discriminate|].
  destruct (Z.eqb_spec (to_signed 16 (dec_int le (firstn 2 s))) PID_SENTINEL) as [E|E]; cbn [fst].
  - intros H. injection H as H1 H2. subst p s1. right. cbn [p_id]. split; [exact E|exact E4].
  - set (n := dec_int le (firstn 2 (skipn 2 s))) in *.
    destruct (Z.ltb_spec (len t) n) as [L2|L2]; cbn [fst]; [discriminate|].
    intros H. injection H as H1 H2. subst p s1. left. cbn [p_val].
    rewrite E4. rewrite len_skipn. unfold len in *. rewrite firstn_length. lia.
Qed.

Lemma read_params_ok : forall le fuel s ps rest, fst (read_params le fuel s) = Ok (ps, rest) ->
  params_wire ps + len rest <= len s.
Proof.
  intros le fuel; induction fuel as [|k IH]; intros s ps rest H; cbn [read_params] in H.
  - cbn in H. inversion H; subst. unfold params_wire; cbn; lia.
  - apply pbind_inv_ok in H as (p & s1 & H1 & H2).
    apply read_param_ok in H1.
    destruct (Z.eqb_spec (p_id p) PID_SENTINEL) as [E|E].
    + cbn in H2. inversion H2; subst. unfold params_wire; cbn [map sumZ].
      pose proof (len_nonneg _ (p_val p)). destruct H1 as [H1|[_ H1]]; lia.
    + apply pbind_inv_ok in H2 as (u & s2 & H2 & H3). cbn in H2. inversion H2; subst s2; clear H2.
      apply pbind_inv_ok in H3 as (ps' & s3 & H3 & H4). cbn in H4. inversion H4; subst; clear H4.
      apply IH in H3. destruct H1 as [H1|[H1 _]]; [|contradiction].
      unfold params_wire in *; cbn [map sumZ]. lia.
Qed.

Strategy expand [read_param_list].
Lemma read_param_list_ok : forall le s ps rest, fst (read_param_list le s) = Ok (ps, rest) ->
  params_wire ps + len rest <= len s.
Proof. intros le s ps rest H. exact (read_params_ok le MAX_PARAMETERS s ps rest H). Qed.

(* ----------------------------------------------------------------- DATA / DATA_FRAG *)
Lemma dec_int_nonneg : forall le b, bytes_ok b -> 0 <= dec_int le b.
Proof. intros [] b H; unfold dec_int; [apply dec_le_range|apply dec_be_range]; exact H. Qed.

Lemma read_n_ok : forall n s a s1, fst (read_n n s) = Ok (a, s1) -> a = firstn n s /\ s1 = skipn n s.
Proof.
  intros n s a s1. unfold read_n. destruct (shorter s (Z.of_nat n)); cbn [fst]; [discriminate|].
  intros H. injection H as H1 H2. auto.
Qed.
Lemma read_u16_nonneg : forall le s a s1, bytes_ok s -> fst (read_u16 le s) = Ok (a, s1) -> 0 <= a.
Proof.
  intros le s a s1 Hb H. unfold read_u16 in H. apply pbind_inv_ok in H as (b & s2 & H1 & H2).
  apply read_n_ok in H1 as [-> _]. unfold pret in H2. cbn [fst] in H2. injection H2 as H2 _. subst a.
  apply dec_int_nonneg. change (bytes_ok (firstn 2 s)). apply bytes_ok_firstn, Hb.
Qed.
Lemma consumes_read_u16 : forall le, consumes (read_u16 le) 2.
Proof. intros; unfold read_u16; apply consumes_pret_bind, consumes_read_n. Qed.

Lemma region_len : forall (data : list Z) a b, len (firstn a (skipn b data)) <= len data.
Proof. intros. pose proof (len_firstn_le _ a (skipn b data)). pose proof (len_skipn_le _ b data). lia. Qed.

Lemma data_mem : forall fl sublen data sm,
  fst (parse_data fl sublen data) = Ok sm -> is_data sm = true /\ sub_mem sm <= 104 + 10 * len data.
Proof.
  intros fl sublen data sm. unfold parse_data. set (dk := flag fl 2 || flag fl 3). clearbody dk.
  destruct (shorter data sublen); cbn [fst]; [discriminate|].
  match goal with |- context [match ?X with _ => _ end] => destruct X as [r0 c0] end.
  destruct r0 as [[[[[o2q rid] wid] sn] s1]|?|?]; cbn [fst]; try discriminate.
  cbv zeta.
  set (endp := if sublen =? 0 then len data else sublen).
  destruct (endp <? o2q); cbn [fst]; [discriminate|].
  pose proof (region_len data (Z.to_nat (endp - o2q)) (Z.to_nat o2q)) as Hr.
  set (region := firstn (Z.to_nat (endp - o2q)) (skipn (Z.to_nat o2q) data)) in *.
  destruct (flag fl 1).
  - pose proof (read_param_list_ok (is_le fl) region) as F1.
    destruct (read_param_list (is_le fl) region) as [[[qos rest]|?|?] c1]; cbn [fst]; try discriminate.
    intros H; injection H as H; subst sm. split; [reflexivity|].
    specialize (F1 qos rest eq_refl). pose proof (params_mem_wire qos). unfold sub_mem, SUB_SIZE, ARC_HDR.
    pose proof (len_nonneg _ rest).
    destruct dk; [|change (len (@nil Z)) with 0]; lia.
  - cbn [fst]. intros H; injection H as H; subst sm. split; [reflexivity|].
    unfold sub_mem, SUB_SIZE, ARC_HDR. cbn [map sumZ]. pose proof (len_nonneg _ region).
    destruct dk; [|change (len (@nil Z)) with 0]; lia.
Qed.

Lemma data_frag_mem : forall fl sublen data sm,
  fst (parse_data_frag fl sublen data) = Ok sm -> is_data sm = true /\ sub_mem sm <= 104 + 10 * len data.
Proof.
  intros fl sublen data sm. unfold parse_data_frag.
  destruct (shorter data sublen); cbn [fst]; [discriminate|].
  destruct (shorter data 32); cbn [fst]; [discriminate|].
  match goal with |- context [match ?X with _ => _ end] => destruct X as [r0 c0] end.
  destruct r0 as [[[[[[[[[o2q rid] wid] sn] fs] fc] fz] ds] s1]|?|?]; cbn [fst]; try discriminate.
  cbv zeta.
  set (endp := if sublen =? 0 then len data else sublen).
  destruct (endp <? o2q); cbn [fst]; [discriminate|].
  pose proof (region_len data (Z.to_nat (endp - o2q)) (Z.to_nat o2q)) as Hr.
  set (region := firstn (Z.to_nat (endp - o2q)) (skipn (Z.to_nat o2q) data)) in *.
  destruct (flag fl 1).
  - pose proof (read_param_list_ok (is_le fl) region) as F1.
    destruct (read_param_list (is_le fl) region) as [[[qos rest]|?|?] c1]; cbn [fst]; try discriminate.
    intros H; injection H as H; subst sm. split; [reflexivity|].
    specialize (F1 qos rest eq_refl). pose proof (params_mem_wire qos). unfold sub_mem, SUB_SIZE, ARC_HDR.
    pose proof (len_nonneg _ rest). lia.
  - cbn [fst]. intros H; injection H as H; subst sm. split; [reflexivity|].
    unfold sub_mem, SUB_SIZE, ARC_HDR. cbn [map sumZ]. pose proof (len_nonneg _ region). lia.
Qed.

(* ------------------------------------------------------------------ INFO_REPLY *)
Lemma consumes_read_locator : forall le, consumes (read_locator le) 24.
Proof.
  intros; unfold read_locator. apply (consumes_bind _ _ _ _ 4 20); [apply consumes_read_i32|intros].
  apply (consumes_bind _ _ _ _ 4 16); [apply consumes_read_u32|intros].
  apply consumes_pret_bind, consumes_read_n.
Qed.

Lemma read_locs_ok : forall le k s ls s1, fst (read_locs le k s) = Ok (ls, s1) ->
  length ls = k /\ s1 = skipn (24 * k) s /\ 24 * Z.of_nat k <= len s.
Proof.
  intros le k; induction k as [|k IH]; intros s ls s1 H.
  - cbn [read_locs] in H. apply pret_ok in H as [-> ->]. repeat split. unfold len; lia.
  - cbn [read_locs] in H. apply pbind_inv_ok in H as (l & t1 & H1 & H).
    apply consumes_read_locator in H1 as [-> L1].
    apply pbind_inv_ok in H as (u & t2 & H2 & H). apply ptick_ok in H2. subst t2.
    apply pbind_inv_ok in H as (ls' & t3 & H3 & H). apply pret_ok in H as [H4 H5]. subst ls s1.
    apply IH in H3 as (E1 & E2 & L2). cbn [length]. split; [lia|]. split.
    + rewrite E2, skipn_skipn. f_equal. lia.
    + rewrite len_skipn in L2. unfold len in *. lia.
Qed.

Lemma read_locator_list_ok : forall le s ls s1, fst (read_locator_list le s) = Ok (ls, s1) ->
  4 + 24 * len ls + len s1 = len s.
Proof.
  intros le s ls s1 H. unfold read_locator_list in H.
  apply pbind_inv_ok in H as (n & s' & H1 & H2).
  apply consumes_read_u32 in H1 as [-> L1].
  apply read_locs_ok in H2 as (E1 & E2 & L2).
  subst s1. rewrite !len_skipn in *. unfold len in *. rewrite ?skipn_length. rewrite E1. lia.
Qed.

Lemma run_ok_inv : forall A (p : parser A) v a, fst (run p v) = Ok a -> exists s, fst (p v) = Ok (a, s).
Proof.
  intros A p v a. unfold run. destruct (p v) as [[[x s]|e|y] c]; cbn [fst]; intros H; try discriminate.
  injection H as ->. exists s; reflexivity.
Qed.

Lemma info_reply_mem : forall fl v sm,
  fst (parse_info_reply fl v) = Ok sm -> is_data sm = false /\ sub_mem sm <= 88 + len v.
Proof.
  intros fl v sm H. unfold parse_info_reply in H. apply run_ok_inv in H as (s & H).
  apply pbind_inv_ok in H as (u & s1 & H1 & H).
  apply read_locator_list_ok in H1.
  apply pbind_inv_ok in H as (m & s2 & H2 & H). apply pret_ok in H as [H3 _]. subst sm.
  split; [reflexivity|]. unfold sub_mem, SUB_SIZE, LOC_SIZE.
  destruct (flag fl 1).
  - apply read_locator_list_ok in H2. pose proof (len_nonneg _ s2). lia.
  - apply pret_ok in H2 as [H2 _]. subst m. change (len (@nil locator)) with 0. pose proof (len_nonneg _ s1). lia.
Qed.

(* ------------------------------------------------------ the fixed-size submessages *)
Definition yields {A} (p : parser A) (P : A -> Prop) : Prop :=
  forall s a s1, fst (p s) = Ok (a, s1) -> P a.
Lemma yields_bind : forall A B (p : parser A) (f : A -> parser B) P,
  (forall a, yields (f a) P) -> yields (pbind p f) P.
Proof. intros A B p f P H s b s2 Hb. apply pbind_inv_ok in Hb as (a & s1 & _ & H2). eapply H; eauto. Qed.
Lemma yields_pret : forall A (a : A) (P : A -> Prop), P a -> yields (pret a) P.
Proof. intros A a P H s b s1 Hb. apply pret_ok in Hb as [-> _]. exact H. Qed.

Definition small (sm : psub) : Prop := is_data sm = false /\ sub_mem sm = 88.
Ltac yields_small := repeat (apply yields_bind; intros ?); apply yields_pret; split; reflexivity.

Lemma run_yields : forall A (p : parser A) (P : A -> Prop) v a, yields p P -> fst (run p v) = Ok a -> P a.
Proof. intros A p P v a Hy H. apply run_ok_inv in H as (s & H). eapply Hy; eauto. Qed.

Lemma acknack_small : forall fl v sm, fst (parse_acknack fl v) = Ok sm -> small sm.
Proof. intros fl v sm H. unfold parse_acknack in H. eapply run_yields; [|exact H]. yields_small. Qed.
Lemma gap_small : forall fl v sm, fst (parse_gap fl v) = Ok sm -> small sm.
Proof. intros fl v sm H. unfold parse_gap in H. eapply run_yields; [|exact H]. yields_small. Qed.
Lemma heartbeat_small : forall fl v sm, fst (parse_heartbeat fl v) = Ok sm -> small sm.
Proof. intros fl v sm H. unfold parse_heartbeat in H. eapply run_yields; [|exact H]. yields_small. Qed.
Lemma heartbeat_frag_small : forall fl v sm, fst (parse_heartbeat_frag fl v) = Ok sm -> small sm.
Proof. intros fl v sm H. unfold parse_heartbeat_frag in H. eapply run_yields; [|exact H]. yields_small. Qed.
Lemma nack_frag_small : forall fl v sm, fst (parse_nack_frag fl v) = Ok sm -> small sm.
Proof. intros fl v sm H. unfold parse_nack_frag in H. eapply run_yields; [|exact H]. yields_small. Qed.
Lemma info_dst_small : forall fl v sm, fst (parse_info_dst fl v) = Ok sm -> small sm.
Proof. intros fl v sm H. unfold parse_info_dst in H. eapply run_yields; [|exact H]. yields_small. Qed.
Lemma info_src_small : forall fl v sm, fst (parse_info_src fl v) = Ok sm -> small sm.
Proof. intros fl v sm H. unfold parse_info_src in H. eapply run_yields; [|exact H]. yields_small. Qed.
Lemma info_ts_small : forall fl v sm, fst (parse_info_ts fl v) = Ok sm -> small sm.
Proof.
  intros fl v sm H. unfold parse_info_ts in H. destruct (flag fl 1).
  - cbn [fst] in H. injection H as <-. split; reflexivity.
  - eapply run_yields; [|exact H]. yields_small.
Qed.

(* ------------------------------------------------------------------ one submessage *)
Lemma parse_sub_mem : forall id fl sublen v sm,
  fst (parse_sub id fl sublen v) = Ok sm -> sub_mem sm <= 104 + 10 * len v.
Proof.
  intros id fl sublen v sm H. unfold parse_sub in H. pose proof (len_nonneg _ v) as Hl.
  assert (Small : small sm -> sub_mem sm <= 104 + 10 * len v) by (intros [_ E2]; lia).
  destruct (id =? ID_ACKNACK); [apply Small; eapply acknack_small; eauto|].
  destruct (id =? ID_DATA); [apply (data_mem fl sublen v sm H)|].
  destruct (id =? ID_DATA_FRAG); [apply (data_frag_mem fl sublen v sm H)|].
  destruct (id =? ID_GAP); [apply Small; eapply gap_small; eauto|].
  destruct (id =? ID_HEARTBEAT); [apply Small; eapply heartbeat_small; eauto|].
  destruct (id =? ID_HEARTBEAT_FRAG); [apply Small; eapply heartbeat_frag_small; eauto|].
  destruct (id =? ID_INFO_DST); [apply Small; eapply info_dst_small; eauto|].
  destruct (id =? ID_INFO_REPLY); [destruct (info_reply_mem fl v sm H); lia|].
  destruct (id =? ID_INFO_SRC); [apply Small; eapply info_src_small; eauto|].
  destruct (id =? ID_INFO_TS); [apply Small; eapply info_ts_small; eauto|].
  destruct (id =? ID_NACK_FRAG); [apply Small; eapply nack_frag_small; eauto|].
  destruct (id =? ID_PAD).
  - unfold parse_pad in H. cbn [fst] in H. injection H as <-. apply Small. split; reflexivity.
  - cbn [fst] in H. discriminate.
Qed.

Lemma len_firstn_skipn : forall (n : nat) (l : list Z), len (firstn n l) + len (skipn n l) = len l.
Proof. intros. rewrite <- (firstn_skipn n l) at 3. rewrite len_app. reflexivity. Qed.

(* ----------------------------------------------------------------------- the loop *)
Lemma sub_loop_mem : forall fuel v l, fst (sub_loop fuel v) = Ok l -> msg_mem l <= 26 * len v.
Proof.
  induction fuel as [|k IH]; intros v l H.
  - cbn [sub_loop fst] in H. injection H as <-. unfold msg_mem; cbn [map sumZ]. pose proof (len_nonneg _ v). lia.
  - assert (Hnil : msg_mem (@nil psub) <= 26 * len v) by (unfold msg_mem; cbn [map sumZ]; pose proof (len_nonneg _ v); lia).
    destruct v as [|id [|fl [|b2 [|b3 v']]]]; try (cbn [sub_loop fst] in H; injection H as <-; exact Hnil).
    cbn [sub_loop] in *. cbv zeta in *.
    set (sublen := sublen_of fl b2 b3) in *.
    destruct (shorter v' sublen); [cbn [fst] in H; injection H as <-; exact Hnil|].
    set (n := Z.to_nat (body_len_of id sublen v')) in *.
    pose proof (parse_sub_mem id fl sublen (firstn n v')) as PM.
    pose proof (len_firstn_skipn n v') as Hsplit. pose proof (len_nonneg _ (firstn n v')).
    rewrite !len_cons.
    specialize (IH (skipn n v')).
    destruct (parse_sub id fl sublen (firstn n v')) as [[sm|e|x] c]; cbn [fst] in *.
    + specialize (PM sm eq_refl).
      destruct (sub_loop k (skipn n v')) as [[l'|e|x] c']; cbn [fst] in *; try discriminate.
      injection H as <-. specialize (IH l' eq_refl). unfold msg_mem in *. cbn [map sumZ]. lia.
    + destruct (sub_loop k (skipn n v')) as [r c']; cbn [fst] in *. subst r.
      specialize (IH l eq_refl). lia.
    + discriminate.
Qed.

(* the memory held by the decoded message: at most 26 bytes per input byte, for every input *)
Theorem decoded_memory_linear : forall v h l, parse_message v = Ok (h, l) -> msg_mem l <= 26 * len v.
Proof.
  intros v h l H. unfold parse_message, parse_message_cost in H.
  destruct (shorter v 20); [cbn [fst] in H; discriminate|].
  destruct (negb (list_eqb (firstn 4 v) RTPS_MAGIC)); [cbn [fst] in H; discriminate|].
  pose proof (sub_loop_mem MAX_SUBMESSAGES (skipn 20 v)) as SM.
  destruct (sub_loop MAX_SUBMESSAGES (skipn 20 v)) as [[l'|e|x] c]; cbn [fst] in *; try discriminate.
  injection H as _ <-. specialize (SM l' eq_refl).
  pose proof (len_skipn_le _ 20%nat v). lia.
Qed.
