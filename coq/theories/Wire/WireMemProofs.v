(* C07 (RTPS part): the memory held by the decoded message is linear in the input length,
   outside the INFO_REPLY over-read class. *)
From DustDDS Require Import Base.Machine Base.Bytes Wire.WireModel Wire.WireProofs Wire.WireTotalProofs.
Open Scope Z_scope.
Ltac Zify.zify_post_hook ::= Z.div_mod_to_equations.

Lemma pret_ok : forall A (a b : A) s s1, fst (pret a s) = Ok (b, s1) -> b = a /\ s1 = s.
Proof. intros A a b s s1 H. unfold pret in H. cbn [fst] in H. inversion H; auto. Qed.
Lemma ptick_ok : forall n u s s1, fst (ptick n s) = Ok (u, s1) -> s1 = s.
Proof. intros n u s s1 H. unfold ptick in H. cbn [fst] in H. inversion H; auto. Qed.

Lemma sumZ_app : forall a b, sumZ (a ++ b) = sumZ a + sumZ b.
Proof. induction a; intros; cbn [app sumZ]; [lia|rewrite IHa; lia]. Qed.

Definition params_wire (ps : list param) : Z := sumZ (map (fun p => 4 + len (p_val p)) ps).

Lemma params_mem_wire : forall ps, sumZ (map param_mem ps) <= 10 * params_wire ps.
Proof.
  induction ps as [|p t IH]; unfold params_wire in *; cbn [map sumZ]; [lia|].
  unfold param_mem at 1, PARAM_SIZE, ARC_HDR. pose proof (len_nonneg _ (p_val p)). lia.
Qed.

(* what a successful Parameter read consumed *)
Lemma read_param_ok : forall le s p s1, fst (read_param le s) = Ok (p, s1) ->
  len s = 4 + len (p_val p) + len s1 \/ (p_id p = PID_SENTINEL /\ len s = 4 + len s1).
Proof.
  intros le s p s1. unfold read_param. cbv zeta. rewrite !shorter_spec.
  destruct (Z.ltb_spec (len s) 4) as [L|L]; [cbn [fst]; discriminate|].
  assert (E4 : len s = 4 + len (skipn 4 s)) by (rewrite len_skipn; unfold len in *; lia).
  set (t := skipn 4 s) in *. clearbody t.
  destruct (negb _ && negb _); cbn [fst]; [discriminate|].
  destruct (Z.eqb_spec (to_signed 16 (dec_int le (firstn 2 s))) PID_SENTINEL) as [E|E]; cbn [fst].
  - intros H. injection H as H1 H2. subst p s1. right. cbn [p_id]. split; [exact E|exact E4].
  - set (n := dec_int le (firstn 2 (skipn 2 s))) in *.
    destruct (Z.ltb_spec (len t) n) as [L2|L2]; cbn [fst]; [discriminate|].
    intros H. injection H as H1 H2. subst p s1. left. cbn [p_val].
    rewrite E4. rewrite len_skipn. unfold len in *. rewrite firstn_length. lia.
Qed.

Lemma read_params_ok : forall le fuel s ps rest, fst (read_params le fuel s) = Ok (ps, rest) ->
  params_wire ps + len rest <= len s.
Proof.
  intros le fuel; induction fuel as [|k IH]; intros s ps rest H; cbn [read_params] in H.
  - cbn in H. inversion H; subst. unfold params_wire; cbn; lia.
  - apply pbind_inv_ok in H as (p & s1 & H1 & H2).
    apply read_param_ok in H1.
    destruct (Z.eqb_spec (p_id p) PID_SENTINEL) as [E|E].
    + cbn in H2. inversion H2; subst. unfold params_wire; cbn [map sumZ].
      pose proof (len_nonneg _ (p_val p)). destruct H1 as [H1|[_ H1]]; lia.
    + apply pbind_inv_ok in H2 as (u & s2 & H2 & H3). cbn in H2. inversion H2; subst s2; clear H2.
      apply pbind_inv_ok in H3 as (ps' & s3 & H3 & H4). cbn in H4. inversion H4; subst; clear H4.
      apply IH in H3. destruct H1 as [H1|[H1 _]]; [|contradiction].
      unfold params_wire in *; cbn [map sumZ]. lia.
Qed.

Strategy expand [read_param_list].
Lemma read_param_list_ok : forall le s ps rest, fst (read_param_list le s) = Ok (ps, rest) ->
  params_wire ps + len rest <= len s.
Proof. intros le s ps rest H. exact (read_params_ok le MAX_PARAMETERS s ps rest H). Qed.

(* ----------------------------------------------------------------- DATA / DATA_FRAG *)
Lemma dec_int_nonneg : forall le b, bytes_ok b -> 0 <= dec_int le b.
Proof. intros [] b H; unfold dec_int; [apply dec_le_range|apply dec_be_range]; exact H. Qed.

Lemma read_n_ok : forall n s a s1, fst (read_n n s) = Ok (a, s1) -> a = firstn n s /\ s1 = skipn n s.
Proof.
  intros n s a s1. unfold read_n. destruct (shorter s (Z.of_nat n)); cbn [fst]; [discriminate|].
  intros H. injection H as H1 H2. auto.
Qed.
Lemma read_u16_nonneg : forall le s a s1, bytes_ok s -> fst (read_u16 le s) = Ok (a, s1) -> 0 <= a.
Proof.
  intros le s a s1 Hb H. unfold read_u16 in H. apply pbind_inv_ok in H as (b & s2 & H1 & H2).
  apply read_n_ok in H1 as [-> _]. unfold pret in H2. cbn [fst] in H2. injection H2 as H2 _. subst a.
  apply dec_int_nonneg. change (bytes_ok (firstn 2 s)). apply bytes_ok_firstn, Hb.
Qed.
Lemma consumes_read_u16 : forall le, consumes (read_u16 le) 2.
Proof. intros; unfold read_u16; apply consumes_pret_bind, consumes_read_n. Qed.

Lemma region_len : forall (data : list Z) endp o2q, 4 <= o2q -> 0 <= endp ->
  len (firstn (Z.to_nat (endp - o2q)) (skipn (Z.to_nat o2q) data)) <= endp.
Proof.
  intros data endp o2q H1 H2. unfold len. rewrite firstn_length. lia.
Qed.

Lemma data_mem : forall fl sublen data sm, bytes_ok data -> 0 <= sublen ->
  fst (parse_data fl sublen data) = Ok sm ->
  is_data sm = true /\ sub_mem sm <= 104 + 10 * (if sublen =? 0 then len data else sublen).
Proof.
  intros fl sublen data sm Hb Hs0. unfold parse_data. set (dk := flag fl 2 || flag fl 3). clearbody dk. rewrite shorter_spec.
  destruct (Z.ltb_spec (len data) sublen) as [L|L]; cbn [fst]; [discriminate|].
  match goal with |- context [match ?X with _ => _ end] => destruct X as [r0 c0] eqn:E0 end.
  destruct r0 as [[[[[o2q rid] wid] sn] s1]|?|?]; cbn [fst]; try discriminate.
  assert (Ho : 4 <= o2q).
  { assert (F0 : fst ((_ <~ read_u16 (is_le fl);; o <~ read_u16 (is_le fl);; rid <~ read_entity_id;; wid <~ read_entity_id;;
                        sn <~ read_sn (is_le fl);; pret (o + 4, rid, wid, sn)) data) = Ok (o2q, rid, wid, sn, s1))
      by (rewrite E0; reflexivity).
    apply pbind_inv_ok in F0 as (x & t1 & H1 & F0). apply consumes_read_u16 in H1 as [-> _].
    apply pbind_inv_ok in F0 as (o & t2 & H2 & F0). apply read_u16_nonneg in H2; [|apply bytes_ok_skipn; exact Hb].
    apply pbind_inv_ok in F0 as (a & t3 & _ & F0). apply pbind_inv_ok in F0 as (b & t4 & _ & F0).
    apply pbind_inv_ok in F0 as (c & t5 & _ & F0). unfold pret in F0. cbn [fst] in F0. inversion F0; subst. lia. }
  cbv zeta.
  set (endp := if sublen =? 0 then len data else sublen).
  assert (He : 0 <= endp) by (unfold endp; destruct (sublen =? 0) eqn:Es; [apply len_nonneg|lia]).
  destruct (Z.ltb_spec endp o2q) as [L2|L2]; cbn [fst]; [discriminate|].
  pose proof (region_len data endp o2q Ho He) as Hr.
  set (region := firstn (Z.to_nat (endp - o2q)) (skipn (Z.to_nat o2q) data)) in *.
  destruct (flag fl 1).
  - pose proof (read_param_list_ok (is_le fl) region) as F1.
    destruct (read_param_list (is_le fl) region) as [[[qos rest]|?|?] c1]; cbn [fst]; try discriminate.
    intros H; injection H as H; subst sm. split; [reflexivity|].
    specialize (F1 qos rest eq_refl). pose proof (params_mem_wire qos). unfold sub_mem, SUB_SIZE, ARC_HDR.
    pose proof (len_nonneg _ rest).
    destruct dk; [|change (len (@nil Z)) with 0]; lia.
  - cbn [fst]. intros H; injection H as H; subst sm. split; [reflexivity|].
    unfold sub_mem, SUB_SIZE, ARC_HDR. cbn [map sumZ].
    destruct dk; [|change (len (@nil Z)) with 0]; lia.
Qed.

Lemma data_frag_mem : forall fl sublen data sm, bytes_ok data -> 0 <= sublen ->
  fst (parse_data_frag fl sublen data) = Ok sm ->
  is_data sm = true /\ sub_mem sm <= 104 + 10 * (if sublen =? 0 then len data else sublen).
Proof.
  intros fl sublen data sm Hb Hs0. unfold parse_data_frag. rewrite !shorter_spec.
  destruct (Z.ltb_spec (len data) sublen) as [L|L]; cbn [fst]; [discriminate|].
  destruct (Z.ltb_spec (len data) 32) as [L3|L3]; cbn [fst]; [discriminate|].
  match goal with |- context [match ?X with _ => _ end] => destruct X as [r0 c0] eqn:E0 end.
  destruct r0 as [[[[[[[[[o2q rid] wid] sn] fs] fc] fz] ds] s1]|?|?]; cbn [fst]; try discriminate.
  assert (Ho : 4 <= o2q).
  { assert (F0 : fst ((_ <~ read_u16 (is_le fl);; o <~ read_u16 (is_le fl);; rid <~ read_entity_id;; wid <~ read_entity_id;;
                        sn <~ read_sn (is_le fl);; fs <~ read_u32 (is_le fl);; fc <~ read_u16 (is_le fl);;
                        fz <~ read_u16 (is_le fl);; ds <~ read_u32 (is_le fl);;
                        pret (o + 4, rid, wid, sn, fs, fc, fz, ds)) data) = Ok (o2q, rid, wid, sn, fs, fc, fz, ds, s1))
      by (rewrite E0; reflexivity).
    apply pbind_inv_ok in F0 as (x & t1 & H1 & F0). apply consumes_read_u16 in H1 as [-> _].
    apply pbind_inv_ok in F0 as (o & t2 & H2 & F0). apply read_u16_nonneg in H2; [|apply bytes_ok_skipn; exact Hb].
    apply pbind_inv_ok in F0 as (a & t3 & _ & F0). apply pbind_inv_ok in F0 as (b & t4 & _ & F0).
    apply pbind_inv_ok in F0 as (c & t5 & _ & F0). apply pbind_inv_ok in F0 as (d & t6 & _ & F0).
    apply pbind_inv_ok in F0 as (g & t7 & _ & F0). apply pbind_inv_ok in F0 as (i & t8 & _ & F0).
    apply pbind_inv_ok in F0 as (j & t9 & _ & F0). unfold pret in F0. cbn [fst] in F0. inversion F0; subst. lia. }
  cbv zeta.
  set (endp := if sublen =? 0 then len data else sublen).
  assert (He : 0 <= endp) by (unfold endp; destruct (sublen =? 0) eqn:Es; [apply len_nonneg|lia]).
  destruct (Z.ltb_spec endp o2q) as [L2|L2]; cbn [fst]; [discriminate|].
  pose proof (region_len data endp o2q Ho He) as Hr.
  set (region := firstn (Z.to_nat (endp - o2q)) (skipn (Z.to_nat o2q) data)) in *.
  destruct (flag fl 1).
  - pose proof (read_param_list_ok (is_le fl) region) as F1.
    destruct (read_param_list (is_le fl) region) as [[[qos rest]|?|?] c1]; cbn [fst]; try discriminate.
    intros H; injection H as H; subst sm. split; [reflexivity|].
    specialize (F1 qos rest eq_refl). pose proof (params_mem_wire qos). unfold sub_mem, SUB_SIZE, ARC_HDR.
    pose proof (len_nonneg _ rest). lia.
  - cbn [fst]. intros H; injection H as H; subst sm. split; [reflexivity|].
    unfold sub_mem, SUB_SIZE, ARC_HDR. cbn [map sumZ]. lia.
Qed.

(* ------------------------------------------------------------------ INFO_REPLY *)
Lemma consumes_read_locator : forall le, consumes (read_locator le) 24.
Proof.
  intros; unfold read_locator. apply (consumes_bind _ _ _ _ 4 20); [apply consumes_read_i32|intros].
  apply (consumes_bind _ _ _ _ 4 16); [apply consumes_read_u32|intros].
  apply consumes_pret_bind, consumes_read_n.
Qed.

Lemma read_locs_ok : forall le k s ls s1, fst (read_locs le k s) = Ok (ls, s1) ->
  length ls = k /\ s1 = skipn (24 * k) s /\ 24 * Z.of_nat k <= len s.
Proof.
  intros le k; induction k as [|k IH]; intros s ls s1 H.
  - cbn [read_locs] in H. apply pret_ok in H as [-> ->]. repeat split. unfold len; lia.
  - cbn [read_locs] in H. apply pbind_inv_ok in H as (l & t1 & H1 & H).
    apply consumes_read_locator in H1 as [-> L1].
    apply pbind_inv_ok in H as (u & t2 & H2 & H). apply ptick_ok in H2. subst t2.
    apply pbind_inv_ok in H as (ls' & t3 & H3 & H). apply pret_ok in H as [H4 H5]. subst ls s1.
    apply IH in H3 as (E1 & E2 & L2). cbn [length]. split; [lia|]. split.
    + rewrite E2, skipn_skipn. f_equal. lia.
    + rewrite len_skipn in L2. unfold len in *. lia.
Qed.

Lemma read_locator_list_ok : forall le s ls s1, bytes_ok s -> fst (read_locator_list le s) = Ok (ls, s1) ->
  let n := dec_int le (firstn 4 s) in
  len ls = n /\ s1 = skipn (Z.to_nat (4 + 24 * n)) s /\ 4 <= len s /\ 0 <= n.
Proof.
  intros le s ls s1 Hb H. unfold read_locator_list in H.
  apply pbind_inv_ok in H as (n & s' & H1 & H2).
  pose proof (read_u32_value _ _ _ _ H1) as En. apply consumes_read_u32 in H1 as [-> L1].
  apply read_locs_ok in H2 as (E1 & E2 & L2). cbv zeta. rewrite <- En.
  assert (Hn : 0 <= n).
  { rewrite En. apply dec_int_nonneg. apply bytes_ok_firstn; exact Hb. }
  set (t := skipn 4 s) in *.
  assert (Ek : Z.to_nat (Z.min n (len t / 24 + 1)) = Z.to_nat n).
  { pose proof (len_nonneg _ t). lia. }
  rewrite Ek in *. split; [unfold len; lia|]. split; [|split; [exact L1|exact Hn]].
  rewrite E2. unfold t. rewrite skipn_skipn. f_equal. lia.
Qed.

Lemma run_ok_inv : forall A (p : parser A) v a, fst (run p v) = Ok a -> exists s, fst (p v) = Ok (a, s).
Proof.
  intros A p v a. unfold run. destruct (p v) as [[[x s]|e|y] c]; cbn [fst]; intros H; try discriminate.
  injection H as ->. exists s; reflexivity.
Qed.

Lemma info_reply_mem : forall fl sublen v sm, bytes_ok v -> 0 <= sublen ->
  fst (parse_info_reply fl v) = Ok sm ->
  locs_overread (is_le fl) (flag fl 1) sublen v = false ->
  is_data sm = false /\ sub_mem sm <= 88 + 2 * sublen.
Proof.
  intros fl sublen v sm Hb Hs H Ho. unfold parse_info_reply in H. apply run_ok_inv in H as (s & H).
  apply pbind_inv_ok in H as (u & s1 & H1 & H).
  apply read_locator_list_ok in H1 as (Eu & Es1 & L1 & Hn1); [|exact Hb]. cbv zeta in *.
  apply pbind_inv_ok in H as (m & s2 & H2 & H). apply pret_ok in H as [H3 _]. subst sm.
  split; [reflexivity|]. unfold sub_mem, SUB_SIZE, LOC_SIZE.
  unfold locs_overread in Ho. rewrite !shorter_spec in Ho.
  destruct (Z.ltb_spec (len v) 4) as [|_]; [lia|].
  destruct (Z.ltb_spec sublen (24 * dec_int (is_le fl) (firstn 4 v))) as [|L2]; [discriminate|].
  destruct (flag fl 1); cbn [negb] in Ho.
  - rewrite <- Es1 in Ho.
    apply read_locator_list_ok in H2 as (Em & _ & L3 & Hn2); [|subst s1; apply bytes_ok_skipn; exact Hb]. cbv zeta in *.
    destruct (Z.ltb_spec (len s1) 4) as [|_]; [lia|].
    apply Z.ltb_ge in Ho. lia.
  - apply pret_ok in H2 as [H2 _]. subst m. change (len (@nil locator)) with 0. lia.
Qed.

(* ------------------------------------------------------ the fixed-size submessages *)
Definition yields {A} (p : parser A) (P : A -> Prop) : Prop :=
  forall s a s1, fst (p s) = Ok (a, s1) -> P a.
Lemma yields_bind : forall A B (p : parser A) (f : A -> parser B) P,
  (forall a, yields (f a) P) -> yields (pbind p f) P.
Proof. intros A B p f P H s b s2 Hb. apply pbind_inv_ok in Hb as (a & s1 & _ & H2). eapply H; eauto. Qed.
Lemma yields_pret : forall A (a : A) (P : A -> Prop), P a -> yields (pret a) P.
Proof. intros A a P H s b s1 Hb. apply pret_ok in Hb as [-> _]. exact H. Qed.

Definition small (sm : psub) : Prop := is_data sm = false /\ sub_mem sm = 88.
Ltac yields_small := repeat (apply yields_bind; intros ?); apply yields_pret; split; reflexivity.

Lemma run_yields : forall A (p : parser A) (P : A -> Prop) v a, yields p P -> fst (run p v) = Ok a -> P a.
Proof. intros A p P v a Hy H. apply run_ok_inv in H as (s & H). eapply Hy; eauto. Qed.

Lemma acknack_small : forall fl v sm, fst (parse_acknack fl v) = Ok sm -> small sm.
Proof. intros fl v sm H. unfold parse_acknack in H. eapply run_yields; [|exact H]. yields_small. Qed.
Lemma gap_small : forall fl v sm, fst (parse_gap fl v) = Ok sm -> small sm.
Proof. intros fl v sm H. unfold parse_gap in H. eapply run_yields; [|exact H]. yields_small. Qed.
Lemma heartbeat_small : forall fl v sm, fst (parse_heartbeat fl v) = Ok sm -> small sm.
Proof. intros fl v sm H. unfold parse_heartbeat in H. eapply run_yields; [|exact H]. yields_small. Qed.
Lemma heartbeat_frag_small : forall fl v sm, fst (parse_heartbeat_frag fl v) = Ok sm -> small sm.
Proof. intros fl v sm H. unfold parse_heartbeat_frag in H. eapply run_yields; [|exact H]. yields_small. Qed.
Lemma nack_frag_small : forall fl v sm, fst (parse_nack_frag fl v) = Ok sm -> small sm.
Proof. intros fl v sm H. unfold parse_nack_frag in H. eapply run_yields; [|exact H]. yields_small. Qed.
Lemma info_dst_small : forall fl v sm, fst (parse_info_dst fl v) = Ok sm -> small sm.
Proof. intros fl v sm H. unfold parse_info_dst in H. eapply run_yields; [|exact H]. yields_small. Qed.
Lemma info_src_small : forall fl v sm, fst (parse_info_src fl v) = Ok sm -> small sm.
Proof. intros fl v sm H. unfold parse_info_src in H. eapply run_yields; [|exact H]. yields_small. Qed.
Lemma info_ts_small : forall fl v sm, fst (parse_info_ts fl v) = Ok sm -> small sm.
Proof.
  intros fl v sm H. unfold parse_info_ts in H. destruct (flag fl 1).
  - cbn [fst] in H. injection H as <-. split; reflexivity.
  - eapply run_yields; [|exact H]. yields_small.
Qed.

(* ------------------------------------------------------------------ one submessage *)
Definition over_bad (x : Z * Z * Z * list Z) : bool :=
  match x with (id, fl, sublen, body) =>
    if id =? ID_INFO_REPLY then locs_overread (is_le fl) (flag fl 1) sublen body else false end.

Lemma parse_sub_mem : forall id fl sublen v sm, bytes_ok v -> 0 <= sublen <= len v ->
  fst (parse_sub id fl sublen v) = Ok sm -> over_bad (id, fl, sublen, v) = false ->
  sub_mem sm <= 104 + 10 * (if (sublen =? 0) && is_data sm then len v else sublen).
Proof.
  intros id fl sublen v sm Hb Hs H Ho. unfold parse_sub in H. unfold over_bad in Ho.
  assert (Small : small sm -> sub_mem sm <= 104 + 10 * (if (sublen =? 0) && is_data sm then len v else sublen)).
  { intros [E1 E2]. rewrite E1, E2, andb_false_r. cbv iota. lia. }
  assert (Big : is_data sm = true /\ sub_mem sm <= 104 + 10 * (if sublen =? 0 then len v else sublen) ->
                sub_mem sm <= 104 + 10 * (if (sublen =? 0) && is_data sm then len v else sublen)).
  { intros [E1 E2]. rewrite E1, andb_true_r. exact E2. }
  destruct (id =? ID_ACKNACK); [apply Small; eapply acknack_small; eauto|].
  destruct (id =? ID_DATA); [apply Big; eapply data_mem; eauto; lia|].
  destruct (id =? ID_DATA_FRAG); [apply Big; eapply data_frag_mem; eauto; lia|].
  destruct (id =? ID_GAP); [apply Small; eapply gap_small; eauto|].
  destruct (id =? ID_HEARTBEAT); [apply Small; eapply heartbeat_small; eauto|].
  destruct (id =? ID_HEARTBEAT_FRAG); [apply Small; eapply heartbeat_frag_small; eauto|].
  destruct (id =? ID_INFO_DST); [apply Small; eapply info_dst_small; eauto|].
  destruct (id =? ID_INFO_REPLY).
  { destruct (info_reply_mem fl sublen v sm Hb ltac:(lia) H Ho) as [E1 E2]. rewrite E1, andb_false_r. cbv iota. lia. }
  destruct (id =? ID_INFO_SRC); [apply Small; eapply info_src_small; eauto|].
  destruct (id =? ID_INFO_TS); [apply Small; eapply info_ts_small; eauto|].
  destruct (id =? ID_NACK_FRAG); [apply Small; eapply nack_frag_small; eauto|].
  destruct (id =? ID_PAD).
  - unfold parse_pad in H. cbn [fst] in H. injection H as <-. apply Small. split; reflexivity.
  - cbn [fst] in H. discriminate.
Qed.

(* ----------------------------------------------------------------------- the loop *)
Lemma sub_loop_mem : forall fuel v l, bytes_ok v -> fst (sub_loop fuel v) = Ok l ->
  existsb over_bad (visits fuel v) = false -> msg_mem l <= 26 * len v.
Proof.
  induction fuel as [|k IH]; intros v l Hb H Hv.
  - cbn [sub_loop fst] in H. injection H as <-. unfold msg_mem; cbn [map sumZ]. pose proof (len_nonneg _ v). lia.
  - assert (Hnil : msg_mem (@nil psub) <= 26 * len v) by (unfold msg_mem; cbn [map sumZ]; pose proof (len_nonneg _ v); lia).
    destruct v as [|id [|fl [|b2 [|b3 v']]]]; try (cbn [sub_loop fst] in H; injection H as <-; exact Hnil).
    cbn [sub_loop visits] in *. cbv zeta in *.
    set (sublen := sublen_of fl b2 b3) in *.
    assert (Hb' : bytes_ok v') by (inversion Hb as [|? ? ? Hb1]; inversion Hb1 as [|? ? ? Hb2]; inversion Hb2 as [|? ? ? Hb3]; inversion Hb3; assumption).
    assert (Hs0 : 0 <= sublen).
    { inversion Hb as [|? ? ? Hb1]; inversion Hb1 as [|? ? A2 Hb2]; inversion Hb2 as [|? ? A3 Hb3]; inversion Hb3 as [|? ? A4 ?]; subst.
      unfold sublen, sublen_of, is_byte in *. destruct (is_le fl); lia. }
    rewrite shorter_spec in *.
    destruct (Z.ltb_spec (len v') sublen) as [L|L]; [cbn [fst] in H; injection H as <-; exact Hnil|].
    cbn [existsb] in Hv. apply orb_false_iff in Hv as [Hv1 Hv2].
    pose proof (parse_sub_mem id fl sublen v') as PM.
    rewrite !len_cons.
    destruct (parse_sub id fl sublen v') as [[sm|e|x] c]; cbn [fst] in *.
    + specialize (PM sm Hb' ltac:(lia) eq_refl Hv1).
      set (consumed := if (sublen =? 0) && is_data sm then len v' else sublen) in *.
      assert (Hc : 0 <= consumed <= len v') by (unfold consumed; destruct ((sublen =? 0) && is_data sm); lia).
      specialize (IH (skipn (Z.to_nat consumed) v')).
      destruct (sub_loop k (skipn (Z.to_nat consumed) v')) as [[l'|e|x] c']; cbn [fst] in *; try discriminate.
      injection H as <-. specialize (IH l' ltac:(apply bytes_ok_skipn; exact Hb') eq_refl Hv2).
      rewrite len_skipn in IH. unfold msg_mem in *. cbn [map sumZ]. unfold len in *. lia.
    + specialize (IH (skipn (Z.to_nat sublen) v')).
      destruct (sub_loop k (skipn (Z.to_nat sublen) v')) as [r c']; cbn [fst] in *. subst r.
      specialize (IH l ltac:(apply bytes_ok_skipn; exact Hb') eq_refl Hv2).
      pose proof (len_skipn_le _ (Z.to_nat sublen) v'). lia.
    + discriminate.
Qed.

(* the memory held by the decoded message: at most 26 bytes per input byte, for every byte
   string outside the INFO_REPLY over-read class *)
Theorem decoded_memory_linear : forall v h l, bytes_ok v ->
  C07_known_overread v = false -> parse_message v = Ok (h, l) -> msg_mem l <= 26 * len v.
Proof.
  intros v h l Hb Ho H. unfold parse_message, parse_message_cost in H. unfold C07_known_overread, message_visits in Ho.
  destruct (shorter v 20); [cbn [fst] in H; discriminate|].
  destruct (negb (list_eqb (firstn 4 v) RTPS_MAGIC)); [cbn [fst] in H; discriminate|].
  pose proof (sub_loop_mem MAX_SUBMESSAGES (skipn 20 v)) as SM.
  destruct (sub_loop MAX_SUBMESSAGES (skipn 20 v)) as [[l'|e|x] c]; cbn [fst] in *; try discriminate.
  injection H as _ <-. specialize (SM l' ltac:(apply bytes_ok_skipn; exact Hb) eq_refl Ho).
  pose proof (len_skipn_le _ 20%nat v). lia.
Qed.

(* ---------------------------------------------------------------------- witnesses *)
Definition hdr20 : list Z := [82; 84; 80; 83; 2; 3; 1; 2; 0; 1; 2; 3; 4; 5; 6; 7; 8; 9; 10; 11].

(* an 84-byte datagram: NACK_FRAG with numBits = 288 *)
Definition nackfrag_288 : list Z :=
  hdr20 ++ [18; 1; 60; 0] ++ [1;2;3;4] ++ [6;7;8;9] ++ [0;0;0;0; 9;0;0;0] ++ [2;0;0;0] ++ [32;1;0;0] ++
  repeat 0 32 ++ [7;0;0;0].

Lemma fragset_panics :
  len nackfrag_288 = 84 /\ bytes_ok nackfrag_288 /\ C07_known_fnset nackfrag_288 = true /\
  parse_message nackfrag_288 = Panic P_FNSET_INDEX.
Proof.
  split; [reflexivity|]. split; [apply bytes_okb_true; vm_compute; reflexivity|].
  split; vm_compute; reflexivity.
Qed.

(* INFO_REPLY headers every 8 bytes, each announcing as many locators as fit in the rest *)
Fixpoint reply_chain (k : nat) : list Z :=
  match k with
  | O => []
  | S j => [15; 1; 4; 0] ++ enc_le 4 (8 * Z.of_nat j / 24) ++ reply_chain j
  end.
Definition overread_witness : list Z := hdr20 ++ reply_chain 256.
Definition decoded_mem (v : list Z) : Z := match parse_message v with Ok (_, l) => msg_mem l | _ => 0 end.

Lemma overread_superlinear :
  len overread_witness = 2068 /\ bytes_ok overread_witness /\ C07_known_overread overread_witness = true /\
  is_ok (parse_message overread_witness) = true /\ decoded_mem overread_witness = 281608 /\
  26 * len overread_witness < decoded_mem overread_witness.
Proof.
  split; [vm_compute; reflexivity|]. split; [apply bytes_okb_true; vm_compute; reflexivity|].
  split; [vm_compute; reflexivity|]. split; [vm_compute; reflexivity|].
  assert (E : decoded_mem overread_witness = 281608) by (vm_compute; reflexivity).
  split; [exact E|]. rewrite E. vm_compute. reflexivity.
Qed.

(* DATA headers with submessage_length 0 every 4 bytes: each scans the rest and fails *)
Fixpoint data0_chain (k : nat) : list Z :=
  match k with O => [] | S j => [21; 3; 0; 0] ++ data0_chain j end.
Definition rescan_witness : list Z := hdr20 ++ data0_chain 256.

Lemma rescan_superlinear :
  len rescan_witness = 1044 /\ bytes_ok rescan_witness /\ C07_known_rescan rescan_witness = true /\
  C07_known_overread rescan_witness = false /\ is_ok (parse_message rescan_witness) = true /\
  decoded_mem rescan_witness = 0 /\
  COST_C * len rescan_witness + COST_K < message_cost rescan_witness.
Proof.
  split; [vm_compute; reflexivity|]. split; [apply bytes_okb_true; vm_compute; reflexivity|].
  split; [vm_compute; reflexivity|]. split; [vm_compute; reflexivity|]. split; [vm_compute; reflexivity|].
  split; [vm_compute; reflexivity|]. vm_compute. reflexivity.
Qed.
