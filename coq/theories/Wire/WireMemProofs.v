(* C07 (RTPS part): the memory held by the decoded message is linear in the input length,
   outside the INFO_REPLY over-read class. *)
From DustDDS Require Import Base.Machine Base.Bytes Wire.WireModel Wire.WireProofs Wire.WireTotalProofs.
Open Scope Z_scope.
Ltac Zify.zify_post_hook ::= Z.div_mod_to_equations.

Lemma sumZ_app : forall a b, sumZ (a ++ b) = sumZ a + sumZ b.
Proof. induction a; intros; cbn [app sumZ]; [lia|rewrite IHa; lia]. Qed.

Definition params_wire (ps : list param) : Z := sumZ (map (fun p => 4 + len (p_val p)) ps).

Lemma params_mem_wire : forall ps, sumZ (map param_mem ps) <= 10 * params_wire ps.
Proof.
  induction ps as [|p t IH]; unfold params_wire in *; cbn [map sumZ]; [lia|].
  unfold param_mem at 1, PARAM_SIZE, ARC_HDR. pose proof (len_nonneg _ (p_val p)). lia.
Qed.

(* what a successful Parameter read consumed *)
Lemma read_param_ok : forall le s p s1, fst (read_param le s) = Ok (p, s1) ->
  len s = 4 + len (p_val p) + len s1 \/ (p_id p = PID_SENTINEL /\ len s = 4 + len s1).
Proof.
  intros le s p s1. unfold read_param. cbv zeta. rewrite !shorter_spec.
  destruct (Z.ltb_spec (len s) 4) as [L|L]; cbn [fst]; [discriminate|].
  destruct (negb _ && negb _); cbn [fst]; [discriminate|].
  destruct (Z.eqb_spec (to_signed 16 (dec_int le (firstn 2 s))) PID_SENTINEL) as [E|E]; cbn [fst].
  - intros H; inversion H; subst; clear H. right. cbn [p_id]. split; [exact E|].
    unfold len in *. rewrite skipn_length. lia.
  - set (n := dec_int le (firstn 2 (skipn 2 s))).
    destruct (Z.ltb_spec (len (skipn 4 s)) n) as [L2|L2]; cbn [fst]; [discriminate|].
    intros H; inversion H; subst; clear H. left. cbn [p_val].
    unfold len in *. rewrite firstn_length, !skipn_length in *. lia.
Qed.

Lemma read_params_ok : forall le fuel s ps rest, fst (read_params le fuel s) = Ok (ps, rest) ->
  params_wire ps + len rest <= len s.
Proof.
  intros le fuel; induction fuel as [|k IH]; intros s ps rest H; cbn [read_params] in H.
  - cbn in H. inversion H; subst. unfold params_wire; cbn; lia.
  - apply pbind_inv_ok in H as (p & s1 & H1 & H2).
    apply read_param_ok in H1.
    destruct (Z.eqb_spec (p_id p) PID_SENTINEL) as [E|E].
    + cbn in H2. inversion H2; subst. unfold params_wire; cbn [map sumZ].
      pose proof (len_nonneg _ (p_val p)). destruct H1 as [H1|[_ H1]]; lia.
    + apply pbind_inv_ok in H2 as (u & s2 & H2 & H3). cbn in H2. inversion H2; subst s2; clear H2.
      apply pbind_inv_ok in H3 as (ps' & s3 & H3 & H4). cbn in H4. inversion H4; subst; clear H4.
      apply IH in H3. destruct H1 as [H1|[H1 _]]; [|contradiction].
      unfold params_wire in *; cbn [map sumZ]. lia.
Qed.

(* ----------------------------------------------------------------- DATA / DATA_FRAG *)
Lemma dec_int_nonneg : forall le b, bytes_ok b -> 0 <= dec_int le b.
Proof. intros [] b H; unfold dec_int; [apply dec_le_range|apply dec_be_range]; exact H. Qed.

Lemma read_u16_nonneg : forall le s a s1, bytes_ok s -> fst (read_u16 le s) = Ok (a, s1) -> 0 <= a.
Proof.
  intros le s a s1 Hb H. unfold read_u16, pbind, read_n in H. destruct (shorter s (Z.of_nat 2)); cbn in H; [discriminate|].
  inversion H; subst. apply dec_int_nonneg, bytes_ok_firstn, Hb.
Qed.
Lemma consumes_read_u16 : forall le, consumes (read_u16 le) 2.
Proof. intros; unfold read_u16; apply consumes_pret_bind, consumes_read_n. Qed.

Lemma region_len : forall (data : list Z) endp o2q, 4 <= o2q -> 0 <= endp ->
  len (firstn (Z.to_nat (endp - o2q)) (skipn (Z.to_nat o2q) data)) <= endp.
Proof.
  intros data endp o2q H1 H2. unfold len. rewrite firstn_length. lia.
Qed.

Lemma data_mem : forall fl sublen data sm, bytes_ok data ->
  fst (parse_data fl sublen data) = Ok sm ->
  is_data sm = true /\ sub_mem sm <= 104 + 10 * (if sublen =? 0 then len data else sublen).
Proof.
  intros fl sublen data sm Hb. unfold parse_data. rewrite shorter_spec.
  destruct (Z.ltb_spec (len data) sublen) as [L|L]; cbn [fst]; [discriminate|].
  match goal with |- context [match ?X with _ => _ end] => destruct X as [r0 c0] eqn:E0 end.
  destruct r0 as [[[[[o2q rid] wid] sn] s1]|?|?]; cbn [fst]; try discriminate.
  assert (Ho : 4 <= o2q).
  { assert (F0 : fst ((_ <~ read_u16 (is_le fl);; o <~ read_u16 (is_le fl);; rid <~ read_entity_id;; wid <~ read_entity_id;;
                        sn <~ read_sn (is_le fl);; pret (o + 4, rid, wid, sn)) data) = Ok (o2q, rid, wid, sn, s1))
      by (rewrite E0; reflexivity).
    apply pbind_inv_ok in F0 as (x & t1 & H1 & F0). apply consumes_read_u16 in H1 as [-> _].
    apply pbind_inv_ok in F0 as (o & t2 & H2 & F0). apply read_u16_nonneg in H2; [|apply bytes_ok_skipn; exact Hb].
    apply pbind_inv_ok in F0 as (a & t3 & _ & F0). apply pbind_inv_ok in F0 as (b & t4 & _ & F0).
    apply pbind_inv_ok in F0 as (c & t5 & _ & F0). cbn in F0. inversion F0; subst. lia. }
  cbv zeta.
  set (endp := if sublen =? 0 then len data else sublen).
  assert (He : 0 <= endp) by (unfold endp; destruct (sublen =? 0) eqn:Es; [apply len_nonneg|pose proof (len_nonneg _ data); lia]).
  assert (He' : 0 <= endp -> True) by auto.
  destruct (Z.ltb_spec endp o2q) as [L2|L2]; cbn [fst]; [discriminate|].
  pose proof (region_len data endp o2q Ho He) as Hr.
  set (region := firstn (Z.to_nat (endp - o2q)) (skipn (Z.to_nat o2q) data)) in *.
  destruct (flag fl 1).
  - destruct (read_param_list (is_le fl) region) as [r1 c1] eqn:E1.
    destruct r1 as [[qos rest]|?|?]; cbn [fst]; try discriminate.
    intros H; inversion H; subst; clear H. split; [reflexivity|].
    assert (F1 : fst (read_param_list (is_le fl) region) = Ok (qos, rest)) by (rewrite E1; reflexivity).
    apply read_params_ok in F1. pose proof (params_mem_wire qos). cbn [sub_mem]. unfold SUB_SIZE, ARC_HDR.
    pose proof (len_nonneg _ rest).
    destruct (flag fl 2 || flag fl 3); [|change (len (@nil Z)) with 0]; lia.
  - cbn [fst]. intros H; inversion H; subst; clear H. split; [reflexivity|].
    cbn [sub_mem map sumZ]. unfold SUB_SIZE, ARC_HDR.
    destruct (flag fl 2 || flag fl 3); [|change (len (@nil Z)) with 0]; lia.
Qed.

Lemma data_frag_mem : forall fl sublen data sm, bytes_ok data ->
  fst (parse_data_frag fl sublen data) = Ok sm ->
  is_data sm = true /\ sub_mem sm <= 104 + 10 * (if sublen =? 0 then len data else sublen).
Proof.
  intros fl sublen data sm Hb. unfold parse_data_frag. rewrite !shorter_spec.
  destruct (Z.ltb_spec (len data) sublen) as [L|L]; cbn [fst]; [discriminate|].
  destruct (Z.ltb_spec (len data) 32) as [L3|L3]; cbn [fst]; [discriminate|].
  match goal with |- context [match ?X with _ => _ end] => destruct X as [r0 c0] eqn:E0 end.
  destruct r0 as [[[[[[[[[o2q rid] wid] sn] fs] fc] fz] ds] s1]|?|?]; cbn [fst]; try discriminate.
  assert (Ho : 4 <= o2q).
  { assert (F0 : fst ((_ <~ read_u16 (is_le fl);; o <~ read_u16 (is_le fl);; rid <~ read_entity_id;; wid <~ read_entity_id;;
                        sn <~ read_sn (is_le fl);; fs <~ read_u32 (is_le fl);; fc <~ read_u16 (is_le fl);;
                        fz <~ read_u16 (is_le fl);; ds <~ read_u32 (is_le fl);;
                        pret (o + 4, rid, wid, sn, fs, fc, fz, ds)) data) = Ok (o2q, rid, wid, sn, fs, fc, fz, ds, s1))
      by (rewrite E0; reflexivity).
    apply pbind_inv_ok in F0 as (x & t1 & H1 & F0). apply consumes_read_u16 in H1 as [-> _].
    apply pbind_inv_ok in F0 as (o & t2 & H2 & F0). apply read_u16_nonneg in H2; [|apply bytes_ok_skipn; exact Hb].
    apply pbind_inv_ok in F0 as (a & t3 & _ & F0). apply pbind_inv_ok in F0 as (b & t4 & _ & F0).
    apply pbind_inv_ok in F0 as (c & t5 & _ & F0). apply pbind_inv_ok in F0 as (d & t6 & _ & F0).
    apply pbind_inv_ok in F0 as (g & t7 & _ & F0). apply pbind_inv_ok in F0 as (i & t8 & _ & F0).
    apply pbind_inv_ok in F0 as (j & t9 & _ & F0). cbn in F0. inversion F0; subst. lia. }
  cbv zeta.
  set (endp := if sublen =? 0 then len data else sublen).
  assert (He : 0 <= endp) by (unfold endp; destruct (sublen =? 0) eqn:Es; [apply len_nonneg|pose proof (len_nonneg _ data); lia]).
  destruct (Z.ltb_spec endp o2q) as [L2|L2]; cbn [fst]; [discriminate|].
  pose proof (region_len data endp o2q Ho He) as Hr.
  set (region := firstn (Z.to_nat (endp - o2q)) (skipn (Z.to_nat o2q) data)) in *.
  destruct (flag fl 1).
  - destruct (read_param_list (is_le fl) region) as [r1 c1] eqn:E1.
    destruct r1 as [[qos rest]|?|?]; cbn [fst]; try discriminate.
    intros H; inversion H; subst; clear H. split; [reflexivity|].
    assert (F1 : fst (read_param_list (is_le fl) region) = Ok (qos, rest)) by (rewrite E1; reflexivity).
    apply read_params_ok in F1. pose proof (params_mem_wire qos). cbn [sub_mem]. unfold SUB_SIZE, ARC_HDR.
    pose proof (len_nonneg _ rest). lia.
  - cbn [fst]. intros H; inversion H; subst; clear H. split; [reflexivity|].
    cbn [sub_mem map sumZ]. unfold SUB_SIZE, ARC_HDR. lia.
Qed.
