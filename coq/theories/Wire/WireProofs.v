(* Basic lemmas about the parser monad and the primitive readers of the RTPS wire model:
   result on an encoded prefix (for C08), absence of panics and cost (for C07). *)
From DustDDS Require Import Base.Machine Base.Bytes Wire.WireModel.
Open Scope Z_scope.
Ltac Zify.zify_post_hook ::= Z.div_mod_to_equations.

(* ------------------------------------------------------------------ lists *)
Lemma firstn_length_min : forall A n (l : list A), length (firstn n l) = Nat.min n (length l).
Proof. intros; apply firstn_length. Qed.

Lemma shorter_spec : forall s n, shorter s n = (len s <? n).
Proof.
  intros s n; unfold shorter, len. rewrite firstn_length.
  destruct (Z.ltb_spec (Z.of_nat (length s)) n) as [H|H].
  - apply Nat.ltb_lt. lia.
  - apply Nat.ltb_ge. lia.
Qed.

Lemma firstn_app_exact : forall A (a b : list A) n, length a = n -> firstn n (a ++ b) = a.
Proof.
  intros A a b n H; subst n. rewrite firstn_app, Nat.sub_diag, firstn_all. cbn [firstn]. apply app_nil_r.
Qed.
Lemma skipn_app_exact : forall A (a b : list A) n, length a = n -> skipn n (a ++ b) = b.
Proof.
  intros A a b n H; subst n. rewrite skipn_app, Nat.sub_diag, skipn_all. reflexivity.
Qed.
Lemma skipn_skipn : forall A (a b : nat) (l : list A), skipn a (skipn b l) = skipn (b + a) l.
Proof.
  intros A a b; induction b as [|b IH]; intros l; [reflexivity|].
  destruct l as [|x t]; cbn [skipn Nat.add].
  - apply skipn_nil.
  - apply IH.
Qed.
Lemma len_firstn_le : forall A n (l : list A), len (firstn n l) <= len l.
Proof. intros; unfold len; rewrite firstn_length; lia. Qed.
Lemma len_skipn : forall A n (l : list A), len (skipn n l) = len l - Z.of_nat (Nat.min n (length l)).
Proof. intros; unfold len; rewrite skipn_length; lia. Qed.
Lemma len_skipn_le : forall A n (l : list A), len (skipn n l) <= len l.
Proof. intros; rewrite len_skipn; lia. Qed.
Lemma len_repeat : forall A (x : A) n, len (repeat x n) = Z.of_nat n.
Proof. intros; unfold len; rewrite repeat_length; reflexivity. Qed.

(* ------------------------------------------------------------ monad: results *)
Lemma pbind_ok : forall A B (p : parser A) (f : A -> parser B) s a s',
  fst (p s) = Ok (a, s') -> fst (pbind p f s) = fst (f a s').
Proof.
  intros A B p f s a s' H; unfold pbind.
  destruct (p s) as [r c]; cbn [fst] in H; subst r.
  destruct (f a s'); reflexivity.
Qed.
Lemma pbind_err : forall A B (p : parser A) (f : A -> parser B) s e,
  fst (p s) = Err e -> fst (pbind p f s) = Err e.
Proof.
  intros A B p f s e H; unfold pbind.
  destruct (p s) as [r c]; cbn [fst] in H; subst r. reflexivity.
Qed.
Lemma pbind_panic : forall A B (p : parser A) (f : A -> parser B) s e,
  fst (p s) = Panic e -> fst (pbind p f s) = Panic e.
Proof.
  intros A B p f s e H; unfold pbind.
  destruct (p s) as [r c]; cbn [fst] in H; subst r. reflexivity.
Qed.
(* inversion of a successful bind *)
Lemma pbind_inv_ok : forall A B (p : parser A) (f : A -> parser B) s b s2,
  fst (pbind p f s) = Ok (b, s2) ->
  exists a s1, fst (p s) = Ok (a, s1) /\ fst (f a s1) = Ok (b, s2).
Proof.
  intros A B p f s b s2; unfold pbind.
  destruct (p s) as [[[a s1]|e|x] c]; cbn [fst].
  - destruct (f a s1) as [r c'] eqn:E; cbn [fst]; intros H. exists a, s1. rewrite E. auto.
  - discriminate.
  - discriminate.
Qed.
Lemma pbind_inv_panic : forall A B (p : parser A) (f : A -> parser B) s x,
  fst (pbind p f s) = Panic x ->
  fst (p s) = Panic x \/ exists a s1, fst (p s) = Ok (a, s1) /\ fst (f a s1) = Panic x.
Proof.
  intros A B p f s x; unfold pbind.
  destruct (p s) as [[[a s1]|e|y] c]; cbn [fst].
  - destruct (f a s1) as [r c'] eqn:E; cbn [fst]; intros H. right. exists a, s1. rewrite E. auto.
  - discriminate.
  - intros H; left; inversion H; reflexivity.
Qed.

(* ------------------------------------------------------------- no panic *)
Definition np {A} (p : parser A) : Prop := forall s, is_panic (fst (p s)) = false.

Lemma np_pret : forall A (a : A), np (pret a).
Proof. intros A a s; reflexivity. Qed.
Lemma np_perr : forall A e, np (@perr A e).
Proof. intros A e s; reflexivity. Qed.
Lemma np_ptick : forall n, np (ptick n).
Proof. intros n s; reflexivity. Qed.
Lemma np_bind : forall A B (p : parser A) (f : A -> parser B),
  np p -> (forall a, np (f a)) -> np (pbind p f).
Proof.
  intros A B p f Hp Hf s; unfold pbind. specialize (Hp s).
  destruct (p s) as [[[a s1]|e|y] c]; cbn [fst] in *.
  - specialize (Hf a s1). destruct (f a s1) as [r c']; exact Hf.
  - reflexivity.
  - discriminate.
Qed.
Lemma np_read_n : forall n, np (read_n n).
Proof. intros n s; unfold read_n; destruct (shorter s (Z.of_nat n)); reflexivity. Qed.
Lemma np_if : forall A (b : bool) (p q : parser A), np p -> np q -> np (if b then p else q).
Proof. intros; destruct b; auto. Qed.

Ltac np_tac :=
  repeat first
    [ apply np_pret | apply np_perr | apply np_ptick | apply np_read_n
    | apply np_if | (apply np_bind; [| intros ?]) ].

Lemma np_read_u16 : forall le, np (read_u16 le).
Proof. intros; unfold read_u16; np_tac. Qed.
Lemma np_read_i16 : forall le, np (read_i16 le).
Proof. intros; unfold read_i16; np_tac. Qed.
Lemma np_read_u32 : forall le, np (read_u32 le).
Proof. intros; unfold read_u32; np_tac. Qed.
Lemma np_read_i32 : forall le, np (read_i32 le).
Proof. intros; unfold read_i32; np_tac. Qed.
Lemma np_read_sn : forall le, np (read_sn le).
Proof. intros; unfold read_sn. apply np_bind; [apply np_read_i32|intros]. apply np_bind; [apply np_read_u32|intros]. apply np_pret. Qed.
Lemma np_read_entity_id : np read_entity_id.
Proof. unfold read_entity_id; np_tac. Qed.
Lemma np_read_words : forall le n, np (read_words le n).
Proof.
  intros le n; induction n; cbn [read_words]; [apply np_pret|].
  apply np_bind; [apply np_read_i32|intros]. apply np_bind; [exact IHn|intros]. apply np_pret.
Qed.
Lemma np_read_bitmap : forall le nb, np (read_bitmap le nb).
Proof. intros; unfold read_bitmap. apply np_bind; [apply np_read_words|intros; apply np_pret]. Qed.
Lemma np_read_snset : forall le, np (read_snset le).
Proof.
  intros; unfold read_snset. apply np_bind; [apply np_read_sn|intros].
  apply np_bind; [apply np_read_u32|intros]. apply np_if; [apply np_perr|].
  apply np_bind; [apply np_read_bitmap|intros; apply np_pret].
Qed.
Lemma np_read_locator : forall le, np (read_locator le).
Proof.
  intros; unfold read_locator. apply np_bind; [apply np_read_i32|intros].
  apply np_bind; [apply np_read_u32|intros]. apply np_bind; [apply np_read_n|intros; apply np_pret].
Qed.
Lemma np_read_locs : forall le n, np (read_locs le n).
Proof.
  intros le n; induction n; cbn [read_locs]; [apply np_pret|].
  apply np_bind; [apply np_read_locator|intros]. apply np_bind; [apply np_ptick|intros].
  apply np_bind; [exact IHn|intros; apply np_pret].
Qed.
Lemma np_read_locator_list : forall le, np (read_locator_list le).
Proof.
  intros le s; unfold read_locator_list.
  apply (np_bind _ _ (read_u32 le) (fun n s' => read_locs le (Z.to_nat (Z.min n (len s' / 24 + 1))) s')).
  - apply np_read_u32.
  - intros n s'. apply np_read_locs.
Qed.
Lemma np_read_param : forall le, np (read_param le).
Proof.
  intros le s; unfold read_param.
  destruct (shorter s 4); [reflexivity|].
  destruct (negb _ && negb _); [reflexivity|].
  destruct (_ =? PID_SENTINEL); [reflexivity|].
  destruct (shorter _ _); reflexivity.
Qed.
Lemma np_read_params : forall le n, np (read_params le n).
Proof.
  intros le n; induction n; cbn [read_params]; [apply np_pret|].
  apply np_bind; [apply np_read_param|intros p].
  apply np_if; [apply np_pret|].
  apply np_bind; [apply np_ptick|intros]. apply np_bind; [exact IHn|intros; apply np_pret].
Qed.
Lemma np_read_param_list : forall le, np (read_param_list le).
Proof. intros; apply np_read_params. Qed.

Lemma run_panic : forall A (p : parser A) v, is_panic (fst (run p v)) = is_panic (fst (p v)).
Proof. intros; unfold run; destruct (p v) as [[[a s]|e|x] c]; reflexivity. Qed.
