(* Proofs about the RTPS wire model (C08 round trip, C07 totality and cost). *)
From DustDDS Require Import Base.Machine Base.Bytes Wire.WireModel.
Open Scope Z_scope.

Lemma placeholder_u32 : forall x, in_u32 x -> dec_le (enc_le 4 x) = x.
Proof. exact u32_le_roundtrip. Qed.
