(* SequenceNumberSet / FragmentNumberSet: new(), the set() iterators and the decoder's
   collect loop, characterised through the 256 bits of the bitmap. *)
From DustDDS Require Import Base.Machine Base.Bytes Wire.WireModel Wire.WireProofs Wire.WireBitsProofs.
From Coq Require Import Sorting.Sorted.
Open Scope Z_scope.
Ltac Zify.zify_post_hook ::= Z.div_mod_to_equations.

(* ------------------------------------------------------------ new(): pure form *)
Fixpoint new_pure (base : Z) (ms : list Z) (nb : Z) (ws : list Z) : Z * list Z :=
  match ms with
  | [] => (nb, ws)
  | m :: t => new_pure base t (if m - base + 1 >? nb then m - base + 1 else nb) (set_bit ws (m - base))
  end.

Definition valid_ms (base : Z) (ms : list Z) : Prop := Forall (fun m => base <= m < base + 256) ms.

Lemma fnset_new_loop_pure : forall base ms nb ws, valid_ms base ms ->
  fnset_new_loop base ms nb ws = Ok (new_pure base ms nb ws).
Proof.
  intros base ms; induction ms as [|m t IH]; intros nb ws H; cbn [fnset_new_loop new_pure]; [reflexivity|].
  inversion H as [|? ? Hm Ht]; subst.
  destruct (Z.ltb_spec m base); [lia|].
  destruct (Z.leb_spec 8 ((m - base) / 32)); [lia|]. apply IH; exact Ht.
Qed.

Lemma snset_new_loop_pure : forall base ms nb ws, valid_ms base ms ->
  snset_new_loop base ms nb ws = Ok (new_pure base ms nb ws).
Proof.
  intros base ms; induction ms as [|m t IH]; intros nb ws H; cbn [snset_new_loop new_pure]; [reflexivity|].
  inversion H as [|? ? Hm Ht]; subst.
  assert (Hi : in_i64b (m - base) = true).
  { unfold in_i64b, i64_min, i64_max. apply andb_true_iff; split; apply Z.leb_le; lia. }
  rewrite Hi. cbn [negb].
  assert (Hw : wrap_u32 (m - base) = m - base) by (unfold wrap_u32, two32; lia).
  rewrite Hw.
  destruct (Z.leb_spec 8 ((m - base) / 32)); [lia|]. apply IH; exact Ht.
Qed.

(* what new() builds *)
Record built (base : Z) (ms : list Z) (nb0 : Z) (ws0 : list Z) (nb : Z) (ws : list Z) : Prop := {
  b_wf : wf_words ws;
  b_bits : forall i, 0 <= i < 256 -> bit_set ws i = bit_set ws0 i || existsb (fun m => m - base =? i) ms;
  b_ge : nb0 <= nb;
  b_cover : forall m, In m ms -> m - base < nb;
  b_top : nb = nb0 \/ exists m, In m ms /\ nb = m - base + 1 }.

Lemma new_pure_built : forall base ms nb0 ws0, valid_ms base ms -> wf_words ws0 ->
  built base ms nb0 ws0 (fst (new_pure base ms nb0 ws0)) (snd (new_pure base ms nb0 ws0)).
Proof.
  intros base ms; induction ms as [|m t IH]; intros nb0 ws0 H Hw; cbn [new_pure].
  - constructor; cbn [fst snd existsb In]; auto; try lia; try tauto.
    intros; rewrite orb_false_r; reflexivity.
  - pose proof (Forall_inv H) as Hm; pose proof (Forall_inv_tail H) as Ht. cbv beta in Hm.
    specialize (IH (if m - base + 1 >? nb0 then m - base + 1 else nb0) (set_bit ws0 (m - base)) Ht (set_bit_wf _ _ Hw)).
    destruct IH as [I1 I2 I3 I4 I5].
    set (r := new_pure base t _ _) in *.
    constructor.
    + exact I1.
    + intros i Hi. rewrite I2 by lia. rewrite bit_set_set_bit by (auto; lia).
      cbn [existsb]. rewrite (Z.eqb_sym i). destruct (m - base =? i), (bit_set ws0 i), (existsb _ t); reflexivity.
    + destruct (Z.gtb_spec (m - base + 1) nb0); lia.
    + intros x [Ex|Hx]; [subst x|apply I4; exact Hx]. destruct (Z.gtb_spec (m - base + 1) nb0); lia.
    + destruct I5 as [E|(x & Hx & E)].
      * destruct (Z.gtb_spec (m - base + 1) nb0).
        -- right. exists m. split; [left; reflexivity|lia].
        -- left. lia.
      * right. exists x. split; [right; exact Hx|exact E].
Qed.

(* the struct produced by new(base, ms) from the empty bitmap *)
Record wf_set (nb : Z) (ws : list Z) : Prop := {
  s_wf : wf_words ws;
  s_nb : 0 <= nb <= 256;
  s_clear : forall i, nb <= i < 256 -> bit_set ws i = false;
  s_top : nb = 0 \/ bit_set ws (nb - 1) = true }.

Lemma existsb_delta : forall base ms i, existsb (fun m => m - base =? i) ms = true <-> In (base + i) ms.
Proof.
  intros base ms i; rewrite existsb_exists; split.
  - intros (m & Hm & E). apply Z.eqb_eq in E. replace (base + i) with m by lia. exact Hm.
  - intros H. exists (base + i). split; [exact H|]. apply Z.eqb_eq. lia.
Qed.

Lemma new_pure_wf_set : forall base ms, valid_ms base ms ->
  let r := new_pure base ms 0 zero_map in
  wf_set (fst r) (snd r) /\
  (forall i, 0 <= i < 256 -> (bit_set (snd r) i = true <-> In (base + i) ms)).
Proof.
  intros base ms H r. destruct (new_pure_built base ms 0 zero_map H wf_zero_map) as [B1 B2 B3 B4 B5].
  fold r in B1, B2, B3, B4, B5.
  assert (Hbits : forall i, 0 <= i < 256 -> (bit_set (snd r) i = true <-> In (base + i) ms)).
  { intros i Hi. rewrite B2 by lia. rewrite bit_set_zero. cbn [orb]. apply existsb_delta. }
  unfold valid_ms in H. rewrite Forall_forall in H.
  split; [|exact Hbits].
  constructor.
  - exact B1.
  - destruct B5 as [E|(m & Hm & E)]; [lia|]. specialize (H m Hm). lia.
  - intros i Hi. destruct (bit_set (snd r) i) eqn:E; [|reflexivity].
    apply Hbits in E; [|lia]. apply B4 in E. lia.
  - destruct B5 as [E|(m & Hm & E)]; [left; exact E|]. right.
    specialize (H m Hm). apply Hbits; [lia|]. replace (base + (fst r - 1)) with m by lia. exact Hm.
Qed.

(* ------------------------------------------------------- enumerating the bits *)
Fixpoint zseq (i : Z) (n : nat) : list Z :=
  match n with O => [] | S k => i :: zseq (i + 1) k end.
Lemma In_zseq : forall n i x, In x (zseq i n) <-> i <= x < i + Z.of_nat n.
Proof.
  induction n; intros i x; cbn [zseq In]; [lia|]. rewrite IHn. lia.
Qed.
Definition set_list (base : Z) (ws : list Z) (i : Z) (n : nat) : list Z :=
  map (Z.add base) (filter (bit_set ws) (zseq i n)).

Lemma members_from_list : forall maxv site base ws n i,
  (forall j, i <= j < i + Z.of_nat n -> bit_set ws j = true -> base + j <= maxv) ->
  members_from maxv site base ws n i = Ok (set_list base ws i n).
Proof.
  intros maxv site base ws n; induction n; intros i H; cbn [members_from]; [reflexivity|].
  unfold set_list; cbn [zseq filter].
  destruct (bit_set ws i) eqn:E.
  - destruct (Z.gtb_spec (base + i) maxv) as [Hg|Hg]; [specialize (H i ltac:(lia) E); lia|].
    rewrite IHn by (intros j Hj; apply H; lia). reflexivity.
  - apply IHn. intros j Hj; apply H; lia.
Qed.

Lemma snset_members_from_list : forall base ws n i,
  (forall j, i <= j < i + Z.of_nat n -> bit_set ws j = true -> base + j < i64_max) ->
  snset_members_from base ws n i = Ok (set_list base ws i n).
Proof.
  intros base ws n; induction n; intros i H; cbn [snset_members_from]; [reflexivity|].
  unfold set_list; cbn [zseq filter].
  destruct (bit_set ws i) eqn:E.
  - destruct (Z.leb_spec i64_max (base + i)) as [Hg|Hg]; [specialize (H i ltac:(lia) E); lia|].
    rewrite IHn by (intros j Hj; apply H; lia). reflexivity.
  - apply IHn. intros j Hj; apply H; lia.
Qed.

Lemma fn_collect_list : forall base ws n i, 0 <= i -> i + Z.of_nat n <= 256 ->
  (forall j, i <= j < i + Z.of_nat n -> bit_set ws j = true -> base + j <= u32_max) ->
  fn_collect base ws n i = Ok (set_list base ws i n).
Proof.
  intros base ws n; induction n; intros i Hi Hn H; cbn [fn_collect]; [reflexivity|].
  unfold set_list; cbn [zseq filter].
  destruct (Z.leb_spec 8 (i / 32)); [lia|].
  destruct (bit_set ws i) eqn:E.
  - destruct (Z.gtb_spec (base + i) u32_max) as [Hg|Hg]; [specialize (H i ltac:(lia) E); lia|].
    rewrite IHn by (try lia; intros j Hj; apply H; lia). reflexivity.
  - apply IHn; try lia. intros j Hj; apply H; lia.
Qed.

Lemma In_set_list : forall base ws i n x,
  In x (set_list base ws i n) <-> exists j, i <= j < i + Z.of_nat n /\ bit_set ws j = true /\ x = base + j.
Proof.
  intros; unfold set_list. rewrite in_map_iff. split.
  - intros (j & E & Hj). apply filter_In in Hj as [Hj Hb]. apply In_zseq in Hj. exists j; auto.
  - intros (j & Hj & Hb & E). exists j. split; [auto|]. apply filter_In. split; [apply In_zseq; exact Hj|exact Hb].
Qed.

Lemma valid_set_list : forall base ws n, (Z.of_nat n <= 256) -> valid_ms base (set_list base ws 0 n).
Proof.
  intros base ws n Hn. unfold valid_ms. apply Forall_forall. intros x Hx.
  apply In_set_list in Hx as (j & Hj & _ & ->). lia.
Qed.

(* new() on the members of a well-formed set gives the set back *)
Lemma new_pure_idem : forall base nb ws, wf_set nb ws ->
  new_pure base (set_list base ws 0 (Z.to_nat nb)) 0 zero_map = (nb, ws).
Proof.
  intros base nb ws [W N C T].
  assert (Hv : valid_ms base (set_list base ws 0 (Z.to_nat nb))) by (apply valid_set_list; lia).
  destruct (new_pure_built base _ 0 zero_map Hv wf_zero_map) as [B1 B2 B3 B4 B5].
  set (r := new_pure base _ 0 zero_map) in *.
  assert (Ews : snd r = ws).
  { apply words_ext; auto. intros i Hi. rewrite B2 by lia. rewrite bit_set_zero. cbn [orb].
    destruct (bit_set ws i) eqn:E.
    - apply existsb_delta. apply In_set_list. exists i. repeat split; auto; try lia.
      destruct (Z.lt_ge_cases i nb); [lia|]. rewrite C in E by lia. discriminate.
    - destruct (existsb _ _) eqn:E2; [|reflexivity]. apply existsb_delta in E2.
      apply In_set_list in E2 as (j & Hj & Hb & Ej). assert (j = i) by lia. subst j. congruence. }
  assert (Enb : fst r = nb).
  { assert (fst r <= nb).
    { destruct B5 as [E|(m & Hm & E)]; [lia|]. apply In_set_list in Hm as (j & Hj & _ & ->). lia. }
    destruct T as [->|T]; [lia|].
    destruct (Z.eq_dec nb 0) as [->|Hnz]; [lia|].
    assert (In (base + (nb - 1)) (set_list base ws 0 (Z.to_nat nb))).
    { apply In_set_list. exists (nb - 1). repeat split; auto; lia. }
    apply B4 in H0. lia. }
  destruct r as [a b]; cbn [fst snd] in *; congruence.
Qed.

(* ------------------------------------------------------------ canon_members *)
Definition ssorted (l : list Z) : Prop := StronglySorted Z.lt l.

Lemma In_insert_sorted : forall x y l, In x (insert_sorted y l) <-> x = y \/ In x l.
Proof.
  intros x y l; induction l as [|z t IH]; cbn [insert_sorted In]; [intuition congruence|].
  destruct (Z.ltb_spec y z); cbn [In]; [intuition congruence|].
  destruct (Z.eqb_spec y z); cbn [In]; [subst; intuition congruence|]. rewrite IH. intuition congruence.
Qed.
Lemma insert_sorted_sorted : forall y l, ssorted l -> ssorted (insert_sorted y l).
Proof.
  intros y l H; induction H as [|z t Ht IH Hz]; cbn [insert_sorted]; [repeat constructor|].
  destruct (Z.ltb_spec y z).
  - constructor; [constructor; auto|]. constructor; [exact H|]. rewrite Forall_forall in *. intros w Hw. specialize (Hz w Hw). lia.
  - destruct (Z.eqb_spec y z); [constructor; auto|].
    constructor; [exact IH|]. rewrite Forall_forall in *. intros w Hw.
    apply In_insert_sorted in Hw as [->|Hw]; [lia|auto].
Qed.
Lemma canon_members_sorted : forall l, ssorted (canon_members l).
Proof. induction l; cbn; [constructor|apply insert_sorted_sorted; exact IHl]. Qed.
Lemma In_canon_members : forall x l, In x (canon_members l) <-> In x l.
Proof.
  intros x l; induction l as [|y t IH]; cbn [canon_members fold_right In]; [tauto|].
  fold (canon_members t). rewrite In_insert_sorted, IH. intuition congruence.
Qed.

Lemma ssorted_ext : forall a b, ssorted a -> ssorted b -> (forall x, In x a <-> In x b) -> a = b.
Proof.
  induction a as [|x a IH]; intros b Ha Hb H.
  - destruct b as [|y b]; [reflexivity|]. exfalso. apply (H y). left; reflexivity.
  - destruct b as [|y b]; [exfalso; apply (H x); left; reflexivity|].
    inversion Ha as [|? ? Sa Fa]; inversion Hb as [|? ? Sb Fb]; subst.
    rewrite Forall_forall in Fa, Fb.
    assert (x = y).
    { destruct (proj1 (H x) (or_introl eq_refl)) as [->|Hx]; [reflexivity|].
      destruct (proj2 (H y) (or_introl eq_refl)) as [->|Hy]; [reflexivity|].
      specialize (Fa y Hy). specialize (Fb x Hx). lia. }
    subst y. f_equal. apply IH; auto. intros z; split; intros Hz.
    + destruct (proj1 (H z) (or_intror Hz)) as [->|]; [|assumption]. specialize (Fa _ Hz). lia.
    + destruct (proj2 (H z) (or_intror Hz)) as [->|]; [|assumption]. specialize (Fb _ Hz). lia.
Qed.

Lemma zseq_filter_sorted : forall f n i, ssorted (filter f (zseq i n)).
Proof.
  intros f n; induction n; intros i; cbn [zseq filter]; [constructor|].
  destruct (f i); [|apply IHn]. constructor; [apply IHn|].
  apply Forall_forall. intros x Hx. apply filter_In in Hx as [Hx _]. apply In_zseq in Hx. lia.
Qed.
Lemma map_add_sorted : forall base l, ssorted l -> ssorted (map (Z.add base) l).
Proof.
  intros base l H; induction H as [|x t Ht IH Hx]; cbn [map]; constructor; auto.
  rewrite Forall_forall in *. intros y Hy. apply in_map_iff in Hy as (z & <- & Hz). specialize (Hx z Hz). lia.
Qed.
Lemma set_list_sorted : forall base ws i n, ssorted (set_list base ws i n).
Proof. intros; apply map_add_sorted, zseq_filter_sorted. Qed.

(* the members of new(base, ms), as the iterator lists them, are the canonical members *)
Lemma set_list_new_canon : forall base ms, valid_ms base ms ->
  let r := new_pure base ms 0 zero_map in
  set_list base (snd r) 0 (Z.to_nat (fst r)) = canon_members ms.
Proof.
  intros base ms H r. destruct (new_pure_wf_set base ms H) as [[W N C T] Hb]. fold r in W, N, C, T, Hb.
  apply ssorted_ext; [apply set_list_sorted|apply canon_members_sorted|].
  intros x. rewrite In_canon_members, In_set_list. split.
  - intros (j & Hj & Hs & ->). apply Hb; [lia|exact Hs].
  - intros Hx. unfold valid_ms in H. rewrite Forall_forall in H. specialize (H x Hx).
    exists (x - base). assert (Hbit : bit_set (snd r) (x - base) = true).
    { apply Hb; [lia|]. replace (base + (x - base)) with x by lia. exact Hx. }
    repeat split; try lia; auto.
    destruct (Z.lt_ge_cases (x - base) (fst r)); [lia|]. rewrite C in Hbit by lia. discriminate.
Qed.
