(* C06 — correspondence vocabulary: a case is the measured RTPS state of the victim's user-defined
   endpoints, the injected datagrams and what the real participant did with each of them. *)
From DustDDS Require Export Base.Machine Base.Bytes Wire.WireModel Wire.WireCorr Wire.RecvModel.
Open Scope Z_scope.

Inductive obs : Type :=
| OOk (peak maxreq : Z) (sent : list (list Z))   (* peak of live bytes and largest single request while handling; user datagrams sent *)
| OPanic (site : Z)                        (* file * 10000 + line; 0 or file >= 7: a file outside this model *)
| OHang
| OOom (bytes : Z).

Record C06_case : Type := mkC06 {
  c6_init : pstate;
  c6_dgrams : list (list chunk);           (* compact byte strings, see WireCorr.X *)
  c6_obs : list obs;
  c6_probe : Z }.                          (* liveness probe: 1 passed, 0 failed, 2 not run *)

(* ----------------------------------------------------- outputs: real vs model *)
Definition osum_eqb (a b : osum) : bool :=
  match a, b with
  | OAck r w b1 m c, OAck r' w' b1' m' c' => list_eqb r r' && list_eqb w w' && (b1 =? b1') && list_eqb m m' && (c =? c')
  | ONackFrag r w s b1 m c, ONackFrag r' w' s' b1' m' c' =>
      list_eqb r r' && list_eqb w w' && (s =? s') && (b1 =? b1') && list_eqb m m' && (c =? c')
  | OData r w s l, OData r' w' s' l' => list_eqb r r' && list_eqb w w' && (s =? s') && (l =? l')
  | ODataFrag r w s f l, ODataFrag r' w' s' f' l' => list_eqb r r' && list_eqb w w' && (s =? s') && (f =? f') && (l =? l')
  | OGap r w s b1, OGap r' w' s' b1' => list_eqb r r' && list_eqb w w' && (s =? s') && (b1 =? b1')
  | _, _ => false
  end.
(* what a sent submessage shows of itself; None: not listed (INFO_*, HEARTBEAT) or unreadable *)
Definition project (m : psub) : list osum :=
  match m with
  | AckNack _ r w st c => [OAck r w (ss_base st) (sn_members st) c]
  | NackFrag r w s fs c => match fnset_members fs with Ok ms => [ONackFrag r w s (fs_base fs) ms c] | _ => [] end
  | Data _ _ _ _ r w s _ p => [OData r w s (len p)]
  | DataFrag _ _ _ r w s fst _ _ _ _ p => [ODataFrag r w s fst (len p)]
  | Gap r w s gl => [OGap r w s (ss_base gl)]
  | _ => []
  end.
(* entity ids of builtin endpoints have the two top bits of the kind octet set; the measured
   state only holds the user-defined endpoints: what builtin endpoints send is not compared *)
Definition builtin_eid (e : list Z) : bool := 192 <=? nth 3 e 0.
Definition osum_builtin (o : osum) : bool :=
  match o with
  | OAck r w _ _ _ | ONackFrag r w _ _ _ _ | OData r w _ _ | ODataFrag r w _ _ _ | OGap r w _ _ => builtin_eid r || builtin_eid w
  end.
Definition project_dgram (b : list Z) : list osum :=
  filter (fun o => negb (osum_builtin o)) (flat_map project (subs_of b)).
Definition nonempty {A} (l : list A) : bool := match l with [] => false | _ => true end.
Definition outs_match (model : outs) (sent : list (list Z)) : bool :=
  list_eqb_gen (list_eqb_gen osum_eqb) (filter nonempty model) (filter nonempty (map project_dgram sent)).

(* a panic while a builtin endpoint is addressed is not predicted either *)
Definition touches_builtin (m : psub) : bool :=
  match m with
  | AckNack _ r w _ _ => builtin_eid r || builtin_eid w
  | Data _ _ _ _ r w _ _ _ => builtin_eid r || builtin_eid w
  | DataFrag _ _ _ r w _ _ _ _ _ _ _ => builtin_eid r || builtin_eid w
  | Gap r w _ _ => builtin_eid r || builtin_eid w
  | Heartbeat _ _ r w _ _ _ => builtin_eid r || builtin_eid w
  | HeartbeatFrag r w _ _ _ => builtin_eid r || builtin_eid w
  | NackFrag r w _ _ _ => builtin_eid r || builtin_eid w
  | _ => false
  end.
Definition dgram_touches_builtin (b : list Z) : bool := existsb touches_builtin (subs_of b).

Definition STEPS_OK_MAX : Z := 2 ^ 40.     (* more predicted steps than this: the real run cannot finish in time *)
Definition STEPS_HANG_MIN : Z := 2 ^ 30.   (* fewer predicted steps than this: the real run cannot time out *)

Fixpoint run_model (st : pstate) (ds : list (list Z)) (os : list obs) : bool :=
  match ds, os with
  | [], [] => true
  | d :: ds', o :: os' =>
      match handle_datagram st d, o with
      | Ok (st', out), OOk _ _ sent =>
          outs_match out sent && (datagram_steps st d <? STEPS_OK_MAX) && run_model st' ds' os'
      | Ok _, OPanic s => (s =? 0) || (7 <=? site_file s) || dgram_touches_builtin d
      | Ok _, OHang => STEPS_HANG_MIN <=? datagram_steps st d
      | Ok _, OOom _ => true      (* allocation in DCPS code after the handlers (outside this model) *)
      | Panic s, OPanic s' => site_file s =? site_file s'
      | Panic _, OHang => STEPS_HANG_MIN <=? datagram_steps st d
      | _, _ => false
      end
  | _ :: _, [] => true          (* the run ended earlier (panic / hang) *)
  | [], _ :: _ => false
  end.

Definition C06_model_ok (c : C06_case) : bool := run_model (c6_init c) (map X (c6_dgrams c)) (c6_obs c).

(* ------------------------------------------------------------------- oracle *)
Definition ALLOC_C : Z := 64.
Definition ALLOC_K : Z := 262144.
(* one allocation request: at most 64 bytes per datagram byte + 64 KiB (the unchanged code stays
   below 48 KiB + 1 per byte on every stream) *)
Definition REQ_C : Z := 64.
Definition REQ_K : Z := 65536.
Fixpoint obs_fine (ds : list (list Z)) (os : list obs) : bool :=
  match ds, os with
  | [], [] => true
  | d :: ds', OOk peak maxreq _ :: os' =>
      (peak <=? ALLOC_C * len d + ALLOC_K) && (maxreq <=? REQ_C * len d + REQ_K) && obs_fine ds' os'
  | _, _ => false
  end.
Definition C06_oracle_ok (c : C06_case) : bool :=
  obs_fine (map X (c6_dgrams c)) (c6_obs c) && negb (c6_probe c =? 0).

(* no known class is left: every rejected case is a violation *)
Definition C06_known (c : C06_case) : N := 0%N.
