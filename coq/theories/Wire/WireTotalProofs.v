(* C07 (RTPS part): the decoder never panics outside the FragmentNumberSet class. *)
From DustDDS Require Import Base.Machine Base.Bytes Wire.WireModel Wire.WireProofs.
Open Scope Z_scope.
Ltac Zify.zify_post_hook ::= Z.div_mod_to_equations.

Ltac np_solve :=
  repeat first
    [ apply np_pret | apply np_perr | apply np_ptick | apply np_read_n
    | apply np_read_u16 | apply np_read_i16 | apply np_read_u32 | apply np_read_i32
    | apply np_read_sn | apply np_read_entity_id | apply np_read_snset | apply np_read_bitmap
    | apply np_read_locator_list | apply np_read_param_list
    | apply np_if | (apply np_bind; [| intros ?]) ].

(* --------------------------------------------- parsers that can never panic *)
Lemma acknack_np : forall fl v, is_panic (fst (parse_acknack fl v)) = false.
Proof. intros; unfold parse_acknack; rewrite run_panic. revert v. change (np (rid <~ read_entity_id;; wid <~ read_entity_id;; st <~ read_snset (is_le fl);; c <~ read_i32 (is_le fl);; pret (AckNack (flag fl 1) rid wid st c : psub))). np_solve. Qed.
Lemma gap_np : forall fl v, is_panic (fst (parse_gap fl v)) = false.
Proof. intros; unfold parse_gap; rewrite run_panic. revert v.
  match goal with |- forall v, is_panic (fst (?p v)) = false => change (np p) end. np_solve. Qed.
Lemma heartbeat_np : forall fl v, is_panic (fst (parse_heartbeat fl v)) = false.
Proof. intros; unfold parse_heartbeat; rewrite run_panic. revert v.
  match goal with |- forall v, is_panic (fst (?p v)) = false => change (np p) end. np_solve. Qed.
Lemma heartbeat_frag_np : forall fl v, is_panic (fst (parse_heartbeat_frag fl v)) = false.
Proof. intros; unfold parse_heartbeat_frag; rewrite run_panic. revert v.
  match goal with |- forall v, is_panic (fst (?p v)) = false => change (np p) end. np_solve. Qed.
Lemma info_dst_np : forall fl v, is_panic (fst (parse_info_dst fl v)) = false.
Proof. intros; unfold parse_info_dst; rewrite run_panic. revert v.
  match goal with |- forall v, is_panic (fst (?p v)) = false => change (np p) end. np_solve. Qed.
Lemma info_src_np : forall fl v, is_panic (fst (parse_info_src fl v)) = false.
Proof. intros; unfold parse_info_src; rewrite run_panic. revert v.
  match goal with |- forall v, is_panic (fst (?p v)) = false => change (np p) end. np_solve. Qed.
Lemma info_ts_np : forall fl v, is_panic (fst (parse_info_ts fl v)) = false.
Proof. intros; unfold parse_info_ts. destruct (flag fl 1); [reflexivity|]. rewrite run_panic. revert v.
  match goal with |- forall v, is_panic (fst (?p v)) = false => change (np p) end. np_solve. Qed.
Lemma info_reply_np : forall fl v, is_panic (fst (parse_info_reply fl v)) = false.
Proof. intros; unfold parse_info_reply; rewrite run_panic. revert v.
  match goal with |- forall v, is_panic (fst (?p v)) = false => change (np p) end. np_solve. Qed.

Ltac destruct_np_match lem :=
  match goal with
  | |- context [match ?X with _ => _ end] =>
      let H := fresh "Hnp" in
      assert (H : is_panic (fst X) = false) by lem;
      destruct X as [[[? ?]|?|?] ?]; cbn [fst is_panic] in H; try discriminate H; try reflexivity
  end.

Lemma data_np : forall fl sublen v, is_panic (fst (parse_data fl sublen v)) = false.
Proof.
  intros; unfold parse_data. destruct (shorter v sublen); [reflexivity|].
  destruct_np_match ltac:(revert v; match goal with |- forall v, is_panic (fst (?p v)) = false => change (np p) end; np_solve).
  destruct p as [[[o2q rid] wid] sn].
  destruct (_ <? o2q); [reflexivity|].
  destruct (flag fl 1).
  - destruct_np_match ltac:(apply np_read_param_list).
  - reflexivity.
Qed.
Lemma data_frag_np : forall fl sublen v, is_panic (fst (parse_data_frag fl sublen v)) = false.
Proof.
  intros; unfold parse_data_frag. destruct (shorter v sublen); [reflexivity|].
  destruct (shorter v 32); [reflexivity|].
  destruct_np_match ltac:(revert v; match goal with |- forall v, is_panic (fst (?p v)) = false => change (np p) end; np_solve).
  destruct p as [[[[[[[o2q rid] wid] sn] fs] fc] fz] ds].
  destruct (_ <? o2q); [reflexivity|].
  destruct (flag fl 1).
  - destruct_np_match ltac:(apply np_read_param_list).
  - reflexivity.
Qed.

(* ------------------------------------------------- how much a parser consumes *)
Definition consumes {A} (p : parser A) (k : nat) : Prop :=
  forall s a s1, fst (p s) = Ok (a, s1) -> s1 = skipn k s /\ Z.of_nat k <= len s.

Lemma consumes_read_n : forall n, consumes (read_n n) n.
Proof.
  intros n s a s1; unfold read_n. rewrite shorter_spec.
  destruct (Z.ltb_spec (len s) (Z.of_nat n)) as [Hl|Hl]; cbn [fst]; [discriminate|].
  intros H; inversion H; subst. split; [reflexivity|lia].
Qed.
Lemma consumes_pret_bind : forall A B (p : parser A) (g : A -> B) k,
  consumes p k -> consumes (pbind p (fun a => pret (g a))) k.
Proof.
  intros A B p g k Hp s b s2 H. apply pbind_inv_ok in H as (a & s1 & H1 & H2).
  cbn in H2. inversion H2; subst. eapply Hp; eauto.
Qed.
Lemma consumes_bind : forall A B (p : parser A) (f : A -> parser B) k1 k2,
  consumes p k1 -> (forall a, consumes (f a) k2) -> consumes (pbind p f) (k1 + k2).
Proof.
  intros A B p f k1 k2 Hp Hf s b s2 H. apply pbind_inv_ok in H as (a & s1 & H1 & H2).
  apply Hp in H1 as [E1 L1]. apply Hf in H2 as [E2 L2]. subst s1.
  rewrite skipn_skipn in E2. split.
  - exact E2.
  - rewrite len_skipn in L2. unfold len in *. lia.
Qed.
Lemma consumes_read_u32 : forall le, consumes (read_u32 le) 4.
Proof. intros; unfold read_u32; apply consumes_pret_bind, consumes_read_n. Qed.
Lemma consumes_read_i32 : forall le, consumes (read_i32 le) 4.
Proof. intros; unfold read_i32; apply consumes_pret_bind, consumes_read_n. Qed.
Lemma consumes_read_sn : forall le, consumes (read_sn le) 8.
Proof.
  intros; unfold read_sn. apply (consumes_bind _ _ _ _ 4 4); [apply consumes_read_i32|intros].
  apply consumes_pret_bind, consumes_read_u32.
Qed.
Lemma consumes_read_entity_id : consumes read_entity_id 4.
Proof.
  unfold read_entity_id. apply (consumes_bind _ _ _ _ 3 1); [apply consumes_read_n|intros].
  apply consumes_pret_bind, consumes_read_n.
Qed.

Lemma read_u32_value : forall le s a s1, fst (read_u32 le s) = Ok (a, s1) -> a = dec_int le (firstn 4 s).
Proof.
  intros le s a s1; unfold read_u32, pbind, read_n. destruct (shorter s (Z.of_nat 4)); cbn; [discriminate|].
  intros H; inversion H; reflexivity.
Qed.
Lemma read_i32_value : forall le s a s1, fst (read_i32 le s) = Ok (a, s1) -> a = to_signed 32 (dec_int le (firstn 4 s)).
Proof.
  intros le s a s1; unfold read_i32, pbind, read_n. destruct (shorter s (Z.of_nat 4)); cbn; [discriminate|].
  intros H; inversion H; reflexivity.
Qed.
Lemma read_words_value : forall le n s ws s1, fst (read_words le n s) = Ok (ws, s1) ->
  ws = words_at le n s /\ 4 * Z.of_nat n <= len s.
Proof.
  intros le n; induction n; intros s ws s1 H.
  - cbn in H. inversion H; subst. split; [reflexivity|]. unfold len; lia.
  - cbn [read_words] in H. apply pbind_inv_ok in H as (w & s2 & H1 & H2).
    apply pbind_inv_ok in H2 as (ws' & s3 & H2 & H3). cbn in H3. inversion H3; subst.
    pose proof (read_i32_value _ _ _ _ H1) as Ew. apply consumes_read_i32 in H1 as [E1 L1]. subst s2.
    apply IHn in H2 as [E2 L2]. cbn [words_at]. split; [congruence|].
    rewrite len_skipn in L2. unfold len in *. lia.
Qed.

(* ------------------------------------------------------- FragmentNumberSet *)
Lemma bind_panic_inv : forall A B (r : res A) (f : A -> res B) x,
  (forall a y, f a <> Panic y) -> bind r f = Panic x -> r = Panic x.
Proof. intros A B r f x Hf H; destruct r; cbn in H; [exfalso; eapply Hf; eauto|discriminate|inversion H; reflexivity]. Qed.

Lemma fn_collect_panic : forall base ws n i x, 0 <= i -> fn_collect base ws n i = Panic x ->
  exists j, i <= j < i + Z.of_nat n /\
            (256 <= j \/ (j < 256 /\ bit_set ws j = true /\ u32_max < base + j)).
Proof.
  intros base ws n; induction n; intros i x Hi H; cbn [fn_collect] in H; [discriminate|].
  destruct (Z.leb_spec 8 (i / 32)).
  - exists i. split; [lia|]. left. lia.
  - destruct (bit_set ws i) eqn:Eb.
    + destruct (Z.gtb_spec (base + i) u32_max).
      * exists i. split; [lia|]. right. repeat split; auto; lia.
      * apply bind_panic_inv in H; [|intros a y; discriminate].
        apply IHn in H as (j & Hj & Hc); [|lia]. exists j. split; [lia|exact Hc].
    + apply IHn in H as (j & Hj & Hc); [|lia]. exists j. split; [lia|exact Hc].
Qed.

Lemma fn_collect_range : forall base ws n i l, 0 <= i -> fn_collect base ws n i = Ok l ->
  Forall (fun m => base <= m /\ (m - base) / 32 < 8) l.
Proof.
  intros base ws n; induction n; intros i l Hi H; cbn [fn_collect] in H.
  - inversion H; constructor.
  - destruct (Z.leb_spec 8 (i / 32)); [discriminate|].
    destruct (bit_set ws i).
    + destruct (Z.gtb_spec (base + i) u32_max); [discriminate|].
      destruct (fn_collect base ws n (i + 1)) as [r|e|y] eqn:E; cbn in H; try discriminate.
      inversion H; subst. constructor.
      * split; [lia|]. replace (base + i - base) with i by lia. lia.
      * eapply IHn; [|exact E]. lia.
    + eapply IHn; [|exact H]. lia.
Qed.

Lemma fnset_new_loop_np : forall base l nb ws,
  Forall (fun m => base <= m /\ (m - base) / 32 < 8) l ->
  exists r, fnset_new_loop base l nb ws = Ok r.
Proof.
  intros base l; induction l as [|m t IH]; intros nb ws H; cbn [fnset_new_loop].
  - eexists; reflexivity.
  - inversion H as [|? ? [H1 H2] Ht]; subst.
    destruct (Z.ltb_spec m base); [lia|].
    destruct (Z.leb_spec 8 ((m - base) / 32)); [lia|]. apply IH; auto.
Qed.

Lemma In_iota : forall n j, 0 <= j < n -> In j (iota n).
Proof.
  intros n j H; unfold iota. apply in_map_iff. exists (Z.to_nat j). split; [lia|].
  apply in_seq. lia.
Qed.

Lemma plift_panic : forall A (r : res A) s x, fst (plift r s) = Panic x -> r = Panic x.
Proof. intros A r s x; destruct r; cbn; intros H; inversion H; reflexivity. Qed.
Lemma plift_ok : forall A (r : res A) s a s1, fst (plift r s) = Ok (a, s1) -> r = Ok a /\ s1 = s.
Proof. intros A r s a s1; destruct r; cbn; intros H; inversion H; auto. Qed.

(* a panic of read_fnset means: the set is complete on the wire and is bad *)
Lemma read_fnset_panic : forall le s x, fst (read_fnset le s) = Panic x ->
  let base := dec_int le (firstn 4 s) in
  let nb := dec_int le (firstn 4 (skipn 4 s)) in
  let m := Z.min 8 (div_ceil32 nb) in
  8 + 4 * m <= len s /\ 0 <= m /\
  ((256 <? nb) || existsb (fun i => bit_set (pad8 (words_at le (Z.to_nat m) (skipn 8 s))) i && (u32_max <? base + i))
                          (iota (Z.min nb 256))) = true.
Proof.
  intros le s x H. unfold read_fnset in H.
  apply pbind_inv_panic in H as [H|(base & s1 & Hb & H)]; [pose proof (np_read_u32 le s) as N; rewrite H in N; discriminate|].
  apply pbind_inv_panic in H as [H|(nb & s2 & Hn & H)]; [pose proof (np_read_u32 le s1) as N; rewrite H in N; discriminate|].
  apply pbind_inv_panic in H as [H|(ws & s3 & Hw & H)]; [pose proof (np_read_bitmap le nb s2) as N; rewrite H in N; discriminate|].
  apply pbind_inv_panic in H as [H|(u & s4 & Ht & H)]; [cbn in H; discriminate|].
  cbn in Ht. inversion Ht; subst s4; clear Ht.
  pose proof (read_u32_value _ _ _ _ Hb) as Eb. apply consumes_read_u32 in Hb as [E1 L1]. subst s1.
  pose proof (read_u32_value _ _ _ _ Hn) as En. apply consumes_read_u32 in Hn as [E2 L2]. subst s2.
  rewrite skipn_skipn in Hw. change (4 + 4)%nat with 8%nat in Hw.
  unfold read_bitmap in Hw. apply pbind_inv_ok in Hw as (wl & s5 & Hw & Hp). cbn in Hp. inversion Hp; subst ws s5; clear Hp.
  apply read_words_value in Hw as [Ew Lw].
  rewrite len_skipn in L2. cbv zeta. rewrite <- Eb, <- En.
  assert (Hm : 0 <= Z.min 8 (div_ceil32 nb) \/ Z.min 8 (div_ceil32 nb) < 0) by lia.
  assert (Lw' : 4 * Z.of_nat (Z.to_nat (Z.min 8 (div_ceil32 nb))) <= len (skipn 8 s)) by exact Lw.
  rewrite len_skipn in Lw'.
  (* the collect loop or new() panics *)
  apply pbind_inv_panic in H as [H|(set & s6 & Hs & H)].
  - apply plift_panic in H. apply fn_collect_panic in H as (j & Hj & Hc); [|lia].
    assert (0 <= nb) by lia.
    split; [|split].
    + unfold div_ceil32, len in *. lia.
    + unfold div_ceil32. lia.
    + apply orb_true_iff. destruct Hc as [Hc|(Hc1 & Hc2 & Hc3)].
      * left. apply Z.ltb_lt. lia.
      * right. apply existsb_exists. exists j. split.
        -- apply In_iota. lia.
        -- rewrite Ew in Hc2. rewrite Hc2. apply Z.ltb_lt in Hc3. rewrite Hc3. reflexivity.
  - exfalso. apply plift_ok in Hs as [Hs _]. apply plift_panic in H.
    apply fn_collect_range in Hs; [|lia].
    unfold fnset_new in H.
    destruct (fnset_new_loop_np base set 0 zero_map Hs) as [r Hr]. rewrite Hr in H. cbn in H. discriminate.
Qed.

Lemma nack_frag_panic : forall fl v, is_panic (fst (parse_nack_frag fl v)) = true -> fnset_bad (is_le fl) v = true.
Proof.
  intros fl v H. unfold parse_nack_frag in H. rewrite run_panic in H.
  match type of H with is_panic (fst ?X) = true => destruct (fst X) as [a|e|x] eqn:E; try discriminate H end.
  clear H.
  apply pbind_inv_panic in E as [H|(rid & s1 & H1 & E)]; [pose proof (np_read_entity_id v) as N; rewrite H in N; discriminate|].
  apply pbind_inv_panic in E as [H|(wid & s2 & H2 & E)]; [pose proof (np_read_entity_id s1) as N; rewrite H in N; discriminate|].
  apply pbind_inv_panic in E as [H|(sn & s3 & H3 & E)]; [pose proof (np_read_sn (is_le fl) s2) as N; rewrite H in N; discriminate|].
  apply consumes_read_entity_id in H1 as [E1 L1]. subst s1.
  apply consumes_read_entity_id in H2 as [E2 L2]. subst s2.
  apply consumes_read_sn in H3 as [E3 L3]. subst s3.
  rewrite !skipn_skipn in E. change (4 + (4 + 8))%nat with 16%nat in E.
  rewrite !len_skipn in *.
  apply pbind_inv_panic in E as [H|(st & s4 & H4 & E)].
  - apply read_fnset_panic in H. cbv zeta in H. destruct H as (Hl & Hm & Hb).
    unfold fnset_bad. rewrite !shorter_spec.
    rewrite len_skipn in Hl.
    destruct (Z.ltb_spec (len v) 24); [unfold len in *; lia|].
    destruct (Z.ltb_spec (len (skipn 16 v)) (8 + 4 * Z.min 8 (div_ceil32 (dec_int (is_le fl) (firstn 4 (skipn 4 (skipn 16 v))))))).
    + rewrite len_skipn in *. unfold len in *. lia.
    + exact Hb.
  - exfalso. apply pbind_inv_panic in E as [H|(c & s5 & H5 & E)].
    + pose proof (np_read_i32 (is_le fl) s4) as N; rewrite H in N; discriminate.
    + cbn in E. discriminate.
Qed.

(* ------------------------------------------------------------ the submessage loop *)
Definition nf_bad (x : Z * Z * Z * list Z) : bool :=
  match x with (id, fl, _, body) => if id =? ID_NACK_FRAG then fnset_bad (is_le fl) body else false end.

Lemma parse_sub_panic : forall id fl sublen v,
  is_panic (fst (parse_sub id fl sublen v)) = true -> nf_bad (id, fl, sublen, v) = true.
Proof.
  intros id fl sublen v H. unfold parse_sub in H. unfold nf_bad.
  destruct (id =? ID_ACKNACK) eqn:E1; [rewrite acknack_np in H; discriminate|].
  destruct (id =? ID_DATA) eqn:E2; [rewrite data_np in H; discriminate|].
  destruct (id =? ID_DATA_FRAG) eqn:E3; [rewrite data_frag_np in H; discriminate|].
  destruct (id =? ID_GAP) eqn:E4; [rewrite gap_np in H; discriminate|].
  destruct (id =? ID_HEARTBEAT) eqn:E5; [rewrite heartbeat_np in H; discriminate|].
  destruct (id =? ID_HEARTBEAT_FRAG) eqn:E6; [rewrite heartbeat_frag_np in H; discriminate|].
  destruct (id =? ID_INFO_DST) eqn:E7; [rewrite info_dst_np in H; discriminate|].
  destruct (id =? ID_INFO_REPLY) eqn:E8; [rewrite info_reply_np in H; discriminate|].
  destruct (id =? ID_INFO_SRC) eqn:E9; [rewrite info_src_np in H; discriminate|].
  destruct (id =? ID_INFO_TS) eqn:E10; [rewrite info_ts_np in H; discriminate|].
  destruct (id =? ID_NACK_FRAG) eqn:E11; [apply nack_frag_panic; exact H|].
  destruct (id =? ID_PAD); cbn in H; discriminate.
Qed.

Lemma sub_loop_np : forall fuel v,
  existsb nf_bad (visits fuel v) = false -> is_panic (fst (sub_loop fuel v)) = false.
Proof.
  induction fuel as [|k IH]; intros v H; [reflexivity|].
  destruct v as [|id [|fl [|b2 [|b3 v']]]]; try reflexivity.
  cbn [sub_loop visits] in *. cbv zeta in *.
  destruct (shorter v' (sublen_of fl b2 b3)); [reflexivity|].
  cbn [existsb] in H. apply orb_false_iff in H as [Hb Hr].
  pose proof (parse_sub_panic id fl (sublen_of fl b2 b3) v') as Hp.
  destruct (parse_sub id fl (sublen_of fl b2 b3) v') as [[sm|e|x] c]; cbn [fst] in *.
  - apply IH in Hr. destruct (sub_loop k _) as [[l|e|x] c']; cbn [fst is_panic] in *; auto.
  - apply IH in Hr. destruct (sub_loop k _) as [r c']; cbn [fst] in *; auto.
  - rewrite Hp in Hb by reflexivity. discriminate.
Qed.

Theorem parse_message_total : forall v,
  C07_known_fnset v = false -> is_panic (parse_message v) = false.
Proof.
  intros v H. unfold parse_message, parse_message_cost.
  unfold C07_known_fnset, message_visits in H.
  destruct (shorter v 20); [reflexivity|].
  destruct (negb (list_eqb (firstn 4 v) RTPS_MAGIC)); [reflexivity|].
  apply sub_loop_np in H.
  destruct (sub_loop MAX_SUBMESSAGES (skipn 20 v)) as [[l|e|x] c]; cbn [fst is_panic] in *; auto.
Qed.

(* ------------------------------------------------- the class is exactly the panics *)
Definition succeeds {A} (k : nat) (p : parser A) : Prop :=
  forall s, Z.of_nat k <= len s -> exists a, fst (p s) = Ok (a, skipn k s).

Lemma succeeds_read_n : forall n, succeeds n (read_n n).
Proof.
  intros n s H. unfold read_n. rewrite shorter_spec.
  destruct (Z.ltb_spec (len s) (Z.of_nat n)); [lia|]. eexists; reflexivity.
Qed.
Lemma succeeds_ret : forall A B (p : parser A) (g : A -> B) k, succeeds k p -> succeeds k (pbind p (fun a => pret (g a))).
Proof.
  intros A B p g k Hp s H. destruct (Hp s H) as (a & E). exists (g a).
  rewrite (pbind_ok _ _ p _ s a (skipn k s) E). reflexivity.
Qed.
Lemma succeeds_bind : forall A B (p : parser A) (f : A -> parser B) k1 k2,
  succeeds k1 p -> (forall a, succeeds k2 (f a)) -> succeeds (k1 + k2) (pbind p f).
Proof.
  intros A B p f k1 k2 Hp Hf s H. destruct (Hp s ltac:(lia)) as (a & E).
  destruct (Hf a (skipn k1 s)) as (b & E2). { rewrite len_skipn. unfold len in *. lia. }
  exists b. rewrite (pbind_ok _ _ p f s a (skipn k1 s) E), E2, skipn_skipn. reflexivity.
Qed.
Lemma succeeds_u32 : forall le, succeeds 4 (read_u32 le).
Proof. intros; unfold read_u32; apply succeeds_ret, succeeds_read_n. Qed.
Lemma succeeds_i32 : forall le, succeeds 4 (read_i32 le).
Proof. intros; unfold read_i32; apply succeeds_ret, succeeds_read_n. Qed.
Lemma succeeds_sn : forall le, succeeds 8 (read_sn le).
Proof. intros; unfold read_sn. apply (succeeds_bind _ _ _ _ 4 4); [apply succeeds_i32|intros ?; apply succeeds_ret, succeeds_u32]. Qed.
Lemma succeeds_eid : succeeds 4 read_entity_id.
Proof. unfold read_entity_id. apply (succeeds_bind _ _ _ _ 3 1); [apply succeeds_read_n|intros ?; apply succeeds_ret, succeeds_read_n]. Qed.

Lemma read_words_succeeds : forall le n s, 4 * Z.of_nat n <= len s ->
  fst (read_words le n s) = Ok (words_at le n s, skipn (4 * n) s).
Proof.
  intros le n; induction n; intros s H; [reflexivity|].
  cbn [read_words words_at].
  destruct (succeeds_i32 le s ltac:(lia)) as (w & E).
  pose proof (read_i32_value _ _ _ _ E) as Ew.
  rewrite (pbind_ok _ _ (read_i32 le) _ s w (skipn 4 s) E).
  rewrite (pbind_ok _ _ (read_words le n) _ (skipn 4 s) (words_at le n (skipn 4 s)) (skipn (4 * n) (skipn 4 s))).
  - cbn [pret fst]. rewrite Ew, skipn_skipn. do 3 f_equal. lia.
  - apply IHn. rewrite len_skipn. unfold len in *. lia.
Qed.

Lemma fn_collect_panics : forall base ws n i, 0 <= i ->
  (exists j, i <= j < i + Z.of_nat n /\ (256 <= j \/ (bit_set ws j = true /\ u32_max < base + j))) ->
  is_panic (fn_collect base ws n i) = true.
Proof.
  intros base ws n; induction n; intros i Hi (j & Hj & Hc); [lia|]. cbn [fn_collect].
  destruct (Z.leb_spec 8 (i / 32)); [reflexivity|].
  assert (Rec : j <> i -> is_panic (fn_collect base ws n (i + 1)) = true).
  { intros Hne. apply IHn; [lia|]. exists j. split; [lia|exact Hc]. }
  destruct (bit_set ws i) eqn:Eb.
  - destruct (Z.gtb_spec (base + i) u32_max); [reflexivity|].
    assert (j <> i) by (intros ->; destruct Hc as [Hc|[_ Hc]]; lia).
    specialize (Rec H1). destruct (fn_collect base ws n (i + 1)); cbn in *; congruence.
  - apply Rec. intros ->. destruct Hc as [Hc|[Hc _]]; [lia|congruence].
Qed.

Lemma In_iota_inv : forall n j, In j (iota n) -> 0 <= j < n.
Proof.
  intros n j H. unfold iota in H. apply in_map_iff in H as (k & <- & Hk). apply in_seq in Hk. lia.
Qed.

Lemma read_fnset_panics : forall le s,
  let base := dec_int le (firstn 4 s) in
  let nb := dec_int le (firstn 4 (skipn 4 s)) in
  let m := Z.min 8 (div_ceil32 nb) in
  8 + 4 * m <= len s ->
  ((256 <? nb) || existsb (fun i => bit_set (pad8 (words_at le (Z.to_nat m) (skipn 8 s))) i && (u32_max <? base + i))
                          (iota (Z.min nb 256))) = true ->
  is_panic (fst (read_fnset le s)) = true.
Proof.
  intros le s base nb m Hl Hbad. unfold read_fnset.
  assert (Hm : 0 <= m -> True) by auto.
  assert (L8 : 8 <= len s \/ len s < 8) by lia.
  destruct (Z.le_gt_cases 0 m) as [Hm0|Hm0].
  2:{ (* m < 0 means nb is very negative: nothing is bad *)
      exfalso. unfold m, div_ceil32 in Hm0. apply orb_true_iff in Hbad as [Hb|Hb].
      - apply Z.ltb_lt in Hb. lia.
      - apply existsb_exists in Hb as (i & Hi & _). apply In_iota_inv in Hi. lia. }
  destruct (succeeds_u32 le s ltac:(lia)) as (b0 & E0).
  pose proof (read_u32_value _ _ _ _ E0) as Eb0. fold base in Eb0.
  rewrite (pbind_ok _ _ (read_u32 le) _ s b0 (skipn 4 s) E0).
  destruct (succeeds_u32 le (skipn 4 s)) as (n0 & E1). { rewrite len_skipn. unfold len in *. lia. }
  pose proof (read_u32_value _ _ _ _ E1) as En0. fold nb in En0.
  rewrite (pbind_ok _ _ (read_u32 le) _ (skipn 4 s) n0 (skipn 4 (skipn 4 s)) E1).
  rewrite skipn_skipn. change (4 + 4)%nat with 8%nat. subst b0 n0.
  unfold read_bitmap. fold m.
  assert (Ew : fst (read_words le (Z.to_nat m) (skipn 8 s)) = Ok (words_at le (Z.to_nat m) (skipn 8 s), skipn (4 * Z.to_nat m) (skipn 8 s))).
  { apply read_words_succeeds. rewrite len_skipn. unfold len in *. lia. }
  set (ws := words_at le (Z.to_nat m) (skipn 8 s)) in *.
  set (rest := skipn (4 * Z.to_nat m) (skipn 8 s)) in *.
  rewrite (pbind_ok _ _ _ _ (skipn 8 s) (pad8 ws) rest).
  2:{ rewrite (pbind_ok _ _ (read_words le (Z.to_nat m)) _ (skipn 8 s) ws rest Ew). reflexivity. }
  rewrite (pbind_ok _ _ (ptick _) _ rest tt rest) by reflexivity.
  assert (P : is_panic (fn_collect base (pad8 ws) (Z.to_nat (Z.min nb 257)) 0) = true).
  { apply fn_collect_panics; [lia|]. apply orb_true_iff in Hbad as [Hb|Hb].
    - apply Z.ltb_lt in Hb. exists 256. split; [lia|left; lia].
    - apply existsb_exists in Hb as (i & Hi & Hc). apply In_iota_inv in Hi. apply andb_true_iff in Hc as [Hc1 Hc2].
      apply Z.ltb_lt in Hc2. exists i. split; [lia|right; auto]. }
  destruct (fn_collect base (pad8 ws) (Z.to_nat (Z.min nb 257)) 0) as [l|e|x] eqn:Ec; try discriminate P.
  rewrite (pbind_panic _ _ (plift (Panic x)) _ rest x) by reflexivity. reflexivity.
Qed.

Lemma nack_frag_bad_panics : forall fl v, fnset_bad (is_le fl) v = true -> is_panic (fst (parse_nack_frag fl v)) = true.
Proof.
  intros fl v H. unfold fnset_bad in H. rewrite !shorter_spec in H.
  destruct (Z.ltb_spec (len v) 24) as [L|L]; [discriminate|].
  set (s := skipn 16 v) in *.
  destruct (Z.ltb_spec (len s) (8 + 4 * Z.min 8 (div_ceil32 (dec_int (is_le fl) (firstn 4 (skipn 4 s)))))) as [L2|L2]; [discriminate|].
  unfold parse_nack_frag. rewrite run_panic.
  destruct (succeeds_eid v ltac:(lia)) as (rid & E1).
  rewrite (pbind_ok _ _ read_entity_id _ v rid (skipn 4 v) E1).
  destruct (succeeds_eid (skipn 4 v)) as (wid & E2). { rewrite len_skipn. unfold len in *. lia. }
  rewrite (pbind_ok _ _ read_entity_id _ (skipn 4 v) wid (skipn 4 (skipn 4 v)) E2).
  destruct (succeeds_sn (is_le fl) (skipn 4 (skipn 4 v))) as (sn & E3). { rewrite !len_skipn. unfold len in *. rewrite ?skipn_length. lia. }
  rewrite (pbind_ok _ _ (read_sn (is_le fl)) _ _ sn (skipn 8 (skipn 4 (skipn 4 v))) E3).
  rewrite !skipn_skipn. change (4 + 4 + 8)%nat with 16%nat. fold s.
  pose proof (read_fnset_panics (is_le fl) s L2 H) as P.
  destruct (fst (read_fnset (is_le fl) s)) as [a|e|x] eqn:Ef; try discriminate P.
  rewrite (pbind_panic _ _ (read_fnset (is_le fl)) _ s x Ef). reflexivity.
Qed.

Lemma parse_sub_bad_panics : forall id fl sublen v,
  nf_bad (id, fl, sublen, v) = true -> is_panic (fst (parse_sub id fl sublen v)) = true.
Proof.
  intros id fl sublen v H. unfold nf_bad in H. destruct (Z.eqb_spec id ID_NACK_FRAG) as [->|]; [|discriminate].
  unfold parse_sub. change (ID_NACK_FRAG =? ID_ACKNACK) with false. change (ID_NACK_FRAG =? ID_DATA) with false.
  change (ID_NACK_FRAG =? ID_DATA_FRAG) with false. change (ID_NACK_FRAG =? ID_GAP) with false.
  change (ID_NACK_FRAG =? ID_HEARTBEAT) with false. change (ID_NACK_FRAG =? ID_HEARTBEAT_FRAG) with false.
  change (ID_NACK_FRAG =? ID_INFO_DST) with false. change (ID_NACK_FRAG =? ID_INFO_REPLY) with false.
  change (ID_NACK_FRAG =? ID_INFO_SRC) with false. change (ID_NACK_FRAG =? ID_INFO_TS) with false.
  change (ID_NACK_FRAG =? ID_NACK_FRAG) with true. cbv iota.
  apply nack_frag_bad_panics; exact H.
Qed.

Lemma sub_loop_bad_panics : forall fuel v,
  existsb nf_bad (visits fuel v) = true -> is_panic (fst (sub_loop fuel v)) = true.
Proof.
  induction fuel as [|k IH]; intros v H; [discriminate|].
  destruct v as [|id [|fl [|b2 [|b3 v']]]]; try discriminate.
  cbn [sub_loop visits] in *. cbv zeta in *.
  destruct (shorter v' (sublen_of fl b2 b3)); [discriminate|].
  cbn [existsb] in H.
  pose proof (parse_sub_bad_panics id fl (sublen_of fl b2 b3) v') as Hp.
  destruct (parse_sub id fl (sublen_of fl b2 b3) v') as [[sm|e|x] c]; cbn [fst] in *.
  - destruct (nf_bad _) eqn:Eb; [specialize (Hp eq_refl); discriminate|]. cbn [orb] in H.
    apply IH in H. destruct (sub_loop k _) as [[l|e|x] c']; cbn [fst is_panic] in *; auto; discriminate.
  - destruct (nf_bad _) eqn:Eb; [specialize (Hp eq_refl); discriminate|]. cbn [orb] in H.
    apply IH in H. destruct (sub_loop k _) as [r c']; cbn [fst] in *; auto.
  - reflexivity.
Qed.

Theorem parse_message_panics_in_class : forall v,
  C07_known_fnset v = true -> is_panic (parse_message v) = true.
Proof.
  intros v H. unfold parse_message, parse_message_cost.
  unfold C07_known_fnset, message_visits in H.
  destruct (shorter v 20); [discriminate|].
  destruct (negb (list_eqb (firstn 4 v) RTPS_MAGIC)); [discriminate|].
  apply sub_loop_bad_panics in H.
  destruct (sub_loop MAX_SUBMESSAGES (skipn 20 v)) as [[l|e|x] c]; cbn [fst is_panic] in *; auto.
Qed.
