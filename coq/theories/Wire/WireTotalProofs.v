(* C07 (RTPS part): the decoder never panics. *)
From DustDDS Require Import Base.Machine Base.Bytes Wire.WireModel Wire.WireProofs.
Open Scope Z_scope.
Ltac Zify.zify_post_hook ::= Z.div_mod_to_equations.

Ltac np_solve :=
  repeat first
    [ apply np_pret | apply np_perr | apply np_ptick | apply np_read_n
    | apply np_read_u16 | apply np_read_i16 | apply np_read_u32 | apply np_read_i32
    | apply np_read_sn | apply np_read_entity_id | apply np_read_snset | apply np_read_bitmap
    | apply np_read_locator_list | apply np_read_param_list
    | apply np_if | (apply np_bind; [| intros ?]) ].

(* --------------------------------------------- parsers that can never panic *)
Lemma acknack_np : forall fl v, is_panic (fst (parse_acknack fl v)) = false.
Proof. intros; unfold parse_acknack; rewrite run_panic. revert v. change (np (rid <~ read_entity_id;; wid <~ read_entity_id;; st <~ read_snset (is_le fl);; c <~ read_i32 (is_le fl);; pret (AckNack (flag fl 1) rid wid st c : psub))). np_solve. Qed.
Lemma gap_np : forall fl v, is_panic (fst (parse_gap fl v)) = false.
Proof. intros; unfold parse_gap; rewrite run_panic. revert v.
  match goal with |- forall v, is_panic (fst (?p v)) = false => change (np p) end. np_solve. Qed.
Lemma heartbeat_np : forall fl v, is_panic (fst (parse_heartbeat fl v)) = false.
Proof. intros; unfold parse_heartbeat; rewrite run_panic. revert v.
  match goal with |- forall v, is_panic (fst (?p v)) = false => change (np p) end. np_solve. Qed.
Lemma heartbeat_frag_np : forall fl v, is_panic (fst (parse_heartbeat_frag fl v)) = false.
Proof. intros; unfold parse_heartbeat_frag; rewrite run_panic. revert v.
  match goal with |- forall v, is_panic (fst (?p v)) = false => change (np p) end. np_solve. Qed.
Lemma info_dst_np : forall fl v, is_panic (fst (parse_info_dst fl v)) = false.
Proof. intros; unfold parse_info_dst; rewrite run_panic. revert v.
  match goal with |- forall v, is_panic (fst (?p v)) = false => change (np p) end. np_solve. Qed.
Lemma info_src_np : forall fl v, is_panic (fst (parse_info_src fl v)) = false.
Proof. intros; unfold parse_info_src; rewrite run_panic. revert v.
  match goal with |- forall v, is_panic (fst (?p v)) = false => change (np p) end. np_solve. Qed.
Lemma info_ts_np : forall fl v, is_panic (fst (parse_info_ts fl v)) = false.
Proof. intros; unfold parse_info_ts. destruct (flag fl 1); [reflexivity|]. rewrite run_panic. revert v.
  match goal with |- forall v, is_panic (fst (?p v)) = false => change (np p) end. np_solve. Qed.
Lemma info_reply_np : forall fl v, is_panic (fst (parse_info_reply fl v)) = false.
Proof. intros; unfold parse_info_reply; rewrite run_panic. revert v.
  match goal with |- forall v, is_panic (fst (?p v)) = false => change (np p) end. np_solve. Qed.

Ltac destruct_np_match lem :=
  match goal with
  | |- context [match ?X with _ => _ end] =>
      let H := fresh "Hnp" in
      assert (H : is_panic (fst X) = false) by lem;
      destruct X as [[[? ?]|?|?] ?]; cbn [fst is_panic] in H; try discriminate H; try reflexivity
  end.

Lemma data_np : forall fl sublen v, is_panic (fst (parse_data fl sublen v)) = false.
Proof.
  intros; unfold parse_data. destruct (shorter v sublen); [reflexivity|].
  destruct_np_match ltac:(revert v; match goal with |- forall v, is_panic (fst (?p v)) = false => change (np p) end; np_solve).
  destruct p as [[[o2q rid] wid] sn].
  destruct (_ <? o2q); [reflexivity|].
  destruct (flag fl 1).
  - destruct_np_match ltac:(apply np_read_param_list).
  - reflexivity.
Qed.
Lemma data_frag_np : forall fl sublen v, is_panic (fst (parse_data_frag fl sublen v)) = false.
Proof.
  intros; unfold parse_data_frag. destruct (shorter v sublen); [reflexivity|].
  destruct (shorter v 32); [reflexivity|].
  destruct_np_match ltac:(revert v; match goal with |- forall v, is_panic (fst (?p v)) = false => change (np p) end; np_solve).
  destruct p as [[[[[[[o2q rid] wid] sn] fs] fc] fz] ds].
  destruct (_ <? o2q); [reflexivity|].
  destruct (flag fl 1).
  - destruct_np_match ltac:(apply np_read_param_list).
  - reflexivity.
Qed.

(* ------------------------------------------------- how much a parser consumes *)
Definition consumes {A} (p : parser A) (k : nat) : Prop :=
  forall s a s1, fst (p s) = Ok (a, s1) -> s1 = skipn k s /\ Z.of_nat k <= len s.

Lemma consumes_read_n : forall n, consumes (read_n n) n.
Proof.
  intros n s a s1; unfold read_n. rewrite shorter_spec.
  destruct (Z.ltb_spec (len s) (Z.of_nat n)) as [Hl|Hl]; cbn [fst]; [discriminate|].
  intros H; inversion H; subst. split; [reflexivity|lia].
Qed.
Lemma consumes_pret_bind : forall A B (p : parser A) (g : A -> B) k,
  consumes p k -> consumes (pbind p (fun a => pret (g a))) k.
Proof.
  intros A B p g k Hp s b s2 H. apply pbind_inv_ok in H as (a & s1 & H1 & H2).
  cbn in H2. inversion H2; subst. eapply Hp; eauto.
Qed.
Lemma consumes_bind : forall A B (p : parser A) (f : A -> parser B) k1 k2,
  consumes p k1 -> (forall a, consumes (f a) k2) -> consumes (pbind p f) (k1 + k2).
Proof.
  intros A B p f k1 k2 Hp Hf s b s2 H. apply pbind_inv_ok in H as (a & s1 & H1 & H2).
  apply Hp in H1 as [E1 L1]. apply Hf in H2 as [E2 L2]. subst s1.
  rewrite skipn_skipn in E2. split.
  - exact E2.
  - rewrite len_skipn in L2. unfold len in *. lia.
Qed.
Lemma consumes_read_u32 : forall le, consumes (read_u32 le) 4.
Proof. intros; unfold read_u32; apply consumes_pret_bind, consumes_read_n. Qed.
Lemma consumes_read_i32 : forall le, consumes (read_i32 le) 4.
Proof. intros; unfold read_i32; apply consumes_pret_bind, consumes_read_n. Qed.
Lemma consumes_read_sn : forall le, consumes (read_sn le) 8.
Proof.
  intros; unfold read_sn. apply (consumes_bind _ _ _ _ 4 4); [apply consumes_read_i32|intros].
  apply consumes_pret_bind, consumes_read_u32.
Qed.
Lemma consumes_read_entity_id : consumes read_entity_id 4.
Proof.
  unfold read_entity_id. apply (consumes_bind _ _ _ _ 3 1); [apply consumes_read_n|intros].
  apply consumes_pret_bind, consumes_read_n.
Qed.

Lemma read_u32_value : forall le s a s1, fst (read_u32 le s) = Ok (a, s1) -> a = dec_int le (firstn 4 s).
Proof.
  intros le s a s1; unfold read_u32, pbind, read_n. destruct (shorter s (Z.of_nat 4)); cbn; [discriminate|].
  intros H; inversion H; reflexivity.
Qed.
Lemma read_i32_value : forall le s a s1, fst (read_i32 le s) = Ok (a, s1) -> a = to_signed 32 (dec_int le (firstn 4 s)).
Proof.
  intros le s a s1; unfold read_i32, pbind, read_n. destruct (shorter s (Z.of_nat 4)); cbn; [discriminate|].
  intros H; inversion H; reflexivity.
Qed.
(* ------------------------------------------------------- FragmentNumberSet *)
Lemma fn_collect_np : forall base ws n i, 0 <= i -> i + Z.of_nat n <= 256 ->
  is_panic (fn_collect base ws n i) = false.
Proof.
  intros base ws n; induction n; intros i Hi Hn; cbn [fn_collect]; [reflexivity|].
  destruct (Z.leb_spec 8 (i / 32)); [lia|].
  destruct (bit_set ws i).
  - destruct (base + i >? u32_max); [reflexivity|].
    specialize (IHn (i + 1) ltac:(lia) ltac:(lia)).
    destruct (fn_collect base ws n (i + 1)); cbn in *; auto.
  - apply IHn; lia.
Qed.

Lemma fn_collect_range : forall base ws n i l, 0 <= i -> fn_collect base ws n i = Ok l ->
  Forall (fun m => base <= m /\ (m - base) / 32 < 8) l.
Proof.
  intros base ws n; induction n; intros i l Hi H; cbn [fn_collect] in H.
  - inversion H; constructor.
  - destruct (Z.leb_spec 8 (i / 32)); [discriminate|].
    destruct (bit_set ws i).
    + destruct (Z.gtb_spec (base + i) u32_max); [discriminate|].
      destruct (fn_collect base ws n (i + 1)) as [r|e|y] eqn:E; cbn in H; try discriminate.
      inversion H; subst. constructor.
      * split; [lia|]. replace (base + i - base) with i by lia. lia.
      * eapply IHn; [|exact E]. lia.
    + eapply IHn; [|exact H]. lia.
Qed.

Lemma fnset_new_loop_np : forall base l nb ws,
  Forall (fun m => base <= m /\ (m - base) / 32 < 8) l ->
  exists r, fnset_new_loop base l nb ws = Ok r.
Proof.
  intros base l; induction l as [|m t IH]; intros nb ws H; cbn [fnset_new_loop].
  - eexists; reflexivity.
  - inversion H as [|? ? [H1 H2] Ht]; subst.
    destruct (Z.ltb_spec m base); [lia|].
    destruct (Z.leb_spec 8 ((m - base) / 32)); [lia|]. apply IH; auto.
Qed.

(* the collect loop followed by new(): a value or InvalidData, for every bitmap *)
Lemma collect_new_np : forall base ws nb, nb <= 256 ->
  np (set <~ plift (fn_collect base ws (Z.to_nat nb) 0) ;; plift (fnset_new base set)).
Proof.
  intros base ws nb Hn s. unfold pbind.
  pose proof (fn_collect_np base ws (Z.to_nat nb) 0 ltac:(lia) ltac:(lia)) as N.
  destruct (fn_collect base ws (Z.to_nat nb) 0) as [l|e|x] eqn:E; cbn [plift fst is_panic] in *; try reflexivity; try discriminate.
  apply fn_collect_range in E; [|lia]. unfold fnset_new.
  destruct (fnset_new_loop_np base l 0 zero_map E) as [r Hr]. rewrite Hr. reflexivity.
Qed.

Lemma np_read_fnset : forall le, np (read_fnset le).
Proof.
  intros le. unfold read_fnset.
  apply np_bind; [apply np_read_u32|intros base]. apply np_bind; [apply np_read_u32|intros nb].
  destruct (Z.gtb_spec nb 256); [apply np_perr|].
  apply np_bind; [apply np_read_bitmap|intros ws]. apply np_bind; [apply np_ptick|intros u].
  apply collect_new_np. lia.
Qed.

Lemma nack_frag_np : forall fl v, is_panic (fst (parse_nack_frag fl v)) = false.
Proof. intros; unfold parse_nack_frag; rewrite run_panic. revert v.
  match goal with |- forall v, is_panic (fst (?p v)) = false => change (np p) end.
  apply np_bind; [apply np_read_entity_id|intros ?]. apply np_bind; [apply np_read_entity_id|intros ?].
  apply np_bind; [apply np_read_sn|intros ?]. apply np_bind; [apply np_read_fnset|intros ?].
  apply np_bind; [apply np_read_i32|intros ?]. apply np_pret. Qed.

(* ------------------------------------------------------------ the submessage loop *)
Lemma parse_sub_np : forall id fl sublen v, is_panic (fst (parse_sub id fl sublen v)) = false.
Proof.
  intros id fl sublen v. unfold parse_sub.
  destruct (id =? ID_ACKNACK); [apply acknack_np|].
  destruct (id =? ID_DATA); [apply data_np|].
  destruct (id =? ID_DATA_FRAG); [apply data_frag_np|].
  destruct (id =? ID_GAP); [apply gap_np|].
  destruct (id =? ID_HEARTBEAT); [apply heartbeat_np|].
  destruct (id =? ID_HEARTBEAT_FRAG); [apply heartbeat_frag_np|].
  destruct (id =? ID_INFO_DST); [apply info_dst_np|].
  destruct (id =? ID_INFO_REPLY); [apply info_reply_np|].
  destruct (id =? ID_INFO_SRC); [apply info_src_np|].
  destruct (id =? ID_INFO_TS); [apply info_ts_np|].
  destruct (id =? ID_NACK_FRAG); [apply nack_frag_np|].
  destruct (id =? ID_PAD); reflexivity.
Qed.

Lemma sub_loop_np : forall fuel v, is_panic (fst (sub_loop fuel v)) = false.
Proof.
  induction fuel as [|k IH]; intros v; [reflexivity|].
  destruct v as [|id [|fl [|b2 [|b3 v']]]]; try reflexivity.
  cbn [sub_loop]. cbv zeta.
  destruct (shorter v' (sublen_of fl b2 b3)); [reflexivity|].
  set (n := Z.to_nat (body_len_of id (sublen_of fl b2 b3) v')).
  pose proof (parse_sub_np id fl (sublen_of fl b2 b3) (firstn n v')) as Hp.
  pose proof (IH (skipn n v')) as Hr.
  destruct (parse_sub id fl (sublen_of fl b2 b3) (firstn n v')) as [[sm|e|x] c]; cbn [fst is_panic] in *; try discriminate.
  - destruct (sub_loop k (skipn n v')) as [[l|e|x] c']; cbn [fst is_panic] in *; auto.
  - destruct (sub_loop k (skipn n v')) as [r c']; cbn [fst] in *; auto.
Qed.

Theorem parse_message_total : forall v, is_panic (parse_message v) = false.
Proof.
  intros v. unfold parse_message, parse_message_cost.
  destruct (shorter v 20); [reflexivity|].
  destruct (negb (list_eqb (firstn 4 v) RTPS_MAGIC)); [reflexivity|].
  pose proof (sub_loop_np MAX_SUBMESSAGES (skipn 20 v)) as H.
  destruct (sub_loop MAX_SUBMESSAGES (skipn 20 v)) as [[l|e|x] c]; cbn [fst is_panic] in *; auto.
Qed.
