(* Byte-level model of the RTPS wire codec of dust-dds (definitions only).
   Sources (all under dds/src/rtps_messages/):
     overall_structure.rs   Read/consume on &[u8], SequenceNumber, Locator, SubmessageHeaderRead,
                            RtpsMessageRead::try_from (submessage loop, MAX_SUBMESSAGES),
                            RtpsMessageWrite::new + write_submessage_into_bytes (`len as u16`)
     submessage_elements.rs SequenceNumberSet, FragmentNumberSet, LocatorList, Parameter(List)
     submessages/*.rs       the 12 submessage kinds
     types.rs               integer readers (both endiannesses), Time, submessage ids
   Bytes are `list Z` (0..255).  Decoders run in the `parser` monad: the result is a
   `res` (value + remaining slice | returned error | panic) and a COST, the second output:
   every byte copied by read_exact, every loop iteration and every byte requested from
   the allocator adds to it.  The debug profile is modelled (overflow panics). *)
From DustDDS Require Export Base.Machine Base.Bytes.
Open Scope Z_scope.

(* RtpsMessageError *)
Definition E_IO : Z := 1.
Definition E_INVALID : Z := 2.
Definition E_NOTENOUGH : Z := 3.
Definition E_UNKNOWN : Z := 4.
(* panic sites = line numbers in submessage_elements.rs *)
Definition P_FNSET_INDEX : Z := 151.   (* bitmap[delta_n / 32], index 8 of [i32; 8] *)
Definition P_SNSET_NEW : Z := 28.      (* sequence_number - base overflows / index in new() *)
Definition P_FNSET_NEW : Z := 121.     (* fragment_number - base underflows / index in new() *)
Definition P_FNSET_ITER : Z := 178.    (* set(): base + delta_n as u32 overflows *)

(* modelled allocation sizes (bytes) *)
Definition SUB_SIZE : Z := 88.         (* one RtpsSubmessageReadKind pushed on the Vec *)
Definition ARC_HDR : Z := 16.          (* Arc<[u8]> header *)
Definition PARAM_SIZE : Z := 24.       (* one Parameter pushed on the Vec *)
Definition LOC_SIZE : Z := 24.         (* one Locator pushed on the Vec *)
Definition FNSET_CAP : Z := 1024.      (* Vec::<u32>::with_capacity(256) *)

(* ------------------------------------------------------------ parser monad *)
Definition parser (A : Type) : Type := list Z -> res (A * list Z) * Z.

Definition pret {A} (a : A) : parser A := fun s => (Ok (a, s), 0).
Definition perr {A} (e : Z) : parser A := fun _ => (Err e, 0).
Definition ppanic {A} (p : Z) : parser A := fun _ => (Panic p, 0).
Definition ptick (n : Z) : parser unit := fun s => (Ok (tt, s), n).
Definition pbind {A B} (p : parser A) (f : A -> parser B) : parser B := fun s =>
  match p s with
  | (Ok (a, s'), c) => match f a s' with (r, c') => (r, c + c') end
  | (Err e, c) => (Err e, c)
  | (Panic x, c) => (Panic x, c)
  end.
Notation "x <~ p ;; k" := (pbind p (fun x => k)) (at level 61, p at next level, right associativity).
(* lift a pure `res` computation *)
Definition plift {A} (r : res A) : parser A := fun s =>
  match r with Ok a => (Ok (a, s), 0) | Err e => (Err e, 0) | Panic p => (Panic p, 0) end.

(* `len s < n`, decided by looking at no more than n elements (lists can be 200 kB) *)
Definition shorter (s : list Z) (n : Z) : bool :=
  Nat.ltb (length (firstn (Z.to_nat n) s)) (Z.to_nat n).

(* Read::read_exact on &[u8] with an n-byte buffer *)
Definition read_n (n : nat) : parser (list Z) := fun s =>
  if shorter s (Z.of_nat n) then (Err E_IO, 0)
  else (Ok (firstn n s, skipn n s), Z.of_nat n).

Definition dec_int (le : bool) (b : list Z) : Z := if le then dec_le b else dec_be b.
Definition read_u16 (le : bool) : parser Z := b <~ read_n 2 ;; pret (dec_int le b).
Definition read_i16 (le : bool) : parser Z := b <~ read_n 2 ;; pret (to_signed 16 (dec_int le b)).
Definition read_u32 (le : bool) : parser Z := b <~ read_n 4 ;; pret (dec_int le b).
Definition read_i32 (le : bool) : parser Z := b <~ read_n 4 ;; pret (to_signed 32 (dec_int le b)).

(* SequenceNumber: ((high as i64) << 32) + low as i64 *)
Definition read_sn (le : bool) : parser Z :=
  h <~ read_i32 le ;; l <~ read_u32 le ;; pret (h * two32 + l).
(* EntityId: 3 + 1 octets, kept as the 4 bytes *)
Definition read_entity_id : parser (list Z) :=
  k <~ read_n 3 ;; d <~ read_n 1 ;; pret (k ++ d).

(* --------------------------------------------------------------- number sets *)
Record snset : Type := mk_snset { ss_base : Z; ss_bits : Z; ss_map : list Z }.
Record fnset : Type := mk_fnset { fs_base : Z; fs_bits : Z; fs_map : list Z }.
(* what the accessors base() / set() show: base and members *)
Record nset : Type := mk_nset { ns_base : Z; ns_members : list Z }.

Definition zero_map : list Z := [0; 0; 0; 0; 0; 0; 0; 0].
Definition div_ceil32 (n : Z) : Z := (n + 31) / 32.

Fixpoint read_words (le : bool) (n : nat) : parser (list Z) :=
  match n with
  | O => pret []
  | S k => w <~ read_i32 le ;; ws <~ read_words le k ;; pret (w :: ws)
  end.
(* `for bitmap_i in bitmap.iter_mut().take(m)`: at most 8 words are read *)
Definition pad8 (ws : list Z) : list Z := ws ++ repeat 0 (8 - length ws)%nat.
Definition read_bitmap (le : bool) (nbits : Z) : parser (list Z) :=
  ws <~ read_words le (Z.to_nat (Z.min 8 (div_ceil32 nbits))) ;; pret (pad8 ws).

(* (bitmap[i / 32] & (1 << (31 - i % 32))) == (1 << (31 - i % 32)) on i32 words *)
Definition bit_set (ws : list Z) (i : Z) : bool :=
  Z.testbit (nth (Z.to_nat (i / 32)) ws 0) (31 - i mod 32).
(* bitmap[d / 32] |= 1 << (31 - d % 32) on i32 words *)
Fixpoint upd_nth (n : nat) (f : Z -> Z) (l : list Z) : list Z :=
  match l, n with
  | [], _ => []
  | x :: t, O => f x :: t
  | x :: t, S k => x :: upd_nth k f t
  end.
Definition mask_i32 (d : Z) : Z := wrap_i32 (2 ^ (31 - d mod 32)).
Definition set_bit (ws : list Z) (d : Z) : list Z :=
  upd_nth (Z.to_nat (d / 32)) (fun w => Z.lor w (mask_i32 d)) ws.

(* SequenceNumberSet::new *)
Fixpoint snset_new_loop (base : Z) (members : list Z) (nb : Z) (ws : list Z) : res (Z * list Z) :=
  match members with
  | [] => Ok (nb, ws)
  | m :: t =>
      if negb (in_i64b (m - base)) then Panic P_SNSET_NEW else
      let d := wrap_u32 (m - base) in
      if 8 <=? d / 32 then Panic P_SNSET_NEW else
      snset_new_loop base t (if d + 1 >? nb then d + 1 else nb) (set_bit ws d)
  end.
Definition snset_new (base : Z) (members : list Z) : res snset :=
  r <- snset_new_loop base members 0 zero_map ;; Ok (mk_snset base (fst r) (snd r)).

(* FragmentNumberSet::new (u32 arithmetic) *)
Fixpoint fnset_new_loop (base : Z) (members : list Z) (nb : Z) (ws : list Z) : res (Z * list Z) :=
  match members with
  | [] => Ok (nb, ws)
  | m :: t =>
      if m <? base then Panic P_FNSET_NEW else
      let d := m - base in
      if 8 <=? d / 32 then Panic P_FNSET_NEW else
      fnset_new_loop base t (if d + 1 >? nb then d + 1 else nb) (set_bit ws d)
  end.
Definition fnset_new (base : Z) (members : list Z) : res fnset :=
  r <- fnset_new_loop base members 0 zero_map ;; Ok (mk_fnset base (fst r) (snd r)).

(* the FragmentNumberSet set() iterator: members in increasing order; `base + delta` is an
   overflow-checked add (debug profile) *)
Fixpoint members_from (maxv : Z) (site : Z) (base : Z) (ws : list Z) (n : nat) (i : Z) : res (list Z) :=
  match n with
  | O => Ok []
  | S k =>
      if bit_set ws i then
        if base + i >? maxv then Panic site
        else r <- members_from maxv site base ws k (i + 1) ;; Ok (base + i :: r)
      else members_from maxv site base ws k (i + 1)
  end.
(* SequenceNumberSet::set() after fix 6f37365: `base.checked_add(delta).filter(|sn| *sn < i64::MAX)`
   returns None at the first set bit whose member would be >= i64::MAX, which ends the
   iteration (collect / for stop at the first None); no panic *)
Fixpoint snset_members_from (base : Z) (ws : list Z) (n : nat) (i : Z) : res (list Z) :=
  match n with
  | O => Ok []
  | S k =>
      if bit_set ws i then
        if i64_max <=? base + i then Ok []
        else r <- snset_members_from base ws k (i + 1) ;; Ok (base + i :: r)
      else snset_members_from base ws k (i + 1)
  end.
(* num_bits <= 256 for every set the decoder or new() can produce; the iterator would
   index out of the bitmap beyond that, which cannot happen for such values *)
Definition snset_members (s : snset) : res (list Z) :=
  snset_members_from (ss_base s) (ss_map s) (Z.to_nat (ss_bits s)) 0.
Definition fnset_members (s : fnset) : res (list Z) :=
  members_from u32_max P_FNSET_ITER (fs_base s) (fs_map s) (Z.to_nat (fs_bits s)) 0.

(* SequenceNumberSet::try_read_from_bytes *)
Definition read_snset (le : bool) : parser snset :=
  base <~ read_sn le ;;
  nb <~ read_u32 le ;;
  if nb >? 256 then perr E_INVALID else
  ws <~ read_bitmap le nb ;;
  pret (mk_snset base nb ws).

(* the loop `for delta_n in 0..num_bits as usize` of FragmentNumberSet::try_read_from_bytes
   (num_bits <= 256 is checked before, fix 221c5f8): bitmap[delta_n / 32] is still an indexing
   of [i32; 8]; base.checked_add(delta_n) returns InvalidData on overflow *)
Fixpoint fn_collect (base : Z) (ws : list Z) (n : nat) (i : Z) : res (list Z) :=
  match n with
  | O => Ok []
  | S k =>
      if 8 <=? i / 32 then Panic P_FNSET_INDEX else
      if bit_set ws i then
        if base + i >? u32_max then Err E_INVALID
        else r <- fn_collect base ws k (i + 1) ;; Ok (base + i :: r)
      else fn_collect base ws k (i + 1)
  end.
Definition read_fnset (le : bool) : parser fnset :=
  base <~ read_u32 le ;;
  nb <~ read_u32 le ;;
  if nb >? 256 then perr E_INVALID else
  ws <~ read_bitmap le nb ;;
  _ <~ ptick (FNSET_CAP + Z.max 0 nb) ;;
  set <~ plift (fn_collect base ws (Z.to_nat nb) 0) ;;
  plift (fnset_new base set).

(* Encoders take the endianness e; dust-dds itself only writes e = true (to_le_bytes).
   e = false is the big-endian layout of the same values, used to state that the decoder
   accepts both.  Signed values are written through their two's complement image
   (enc_le / enc_be reduce modulo 256^n). *)
Definition enc_int (e : bool) (n : nat) (x : Z) : list Z := if e then enc_le n x else enc_be n x.
Definition enc_sn (e : bool) (x : Z) : list Z := enc_int e 4 (x / two32) ++ enc_int e 4 x.
Definition enc_words (e : bool) (ws : list Z) : list Z := flat_map (enc_int e 4) ws.
Definition enc_snset (e : bool) (s : snset) : list Z :=
  enc_sn e (ss_base s) ++ enc_int e 4 (ss_bits s) ++ enc_words e (firstn (Z.to_nat (div_ceil32 (ss_bits s))) (ss_map s)).
Definition enc_fnset (e : bool) (s : fnset) : list Z :=
  enc_int e 4 (fs_base s) ++ enc_int e 4 (fs_bits s) ++ enc_words e (firstn (Z.to_nat (div_ceil32 (fs_bits s))) (fs_map s)).

(* ------------------------------------------------------------------ locators *)
Record locator : Type := mk_loc { l_kind : Z; l_port : Z; l_addr : list Z }.

Definition read_locator (le : bool) : parser locator :=
  k <~ read_i32 le ;; p <~ read_u32 le ;; a <~ read_n 16 ;; pret (mk_loc k p a).
Fixpoint read_locs (le : bool) (n : nat) : parser (list locator) :=
  match n with
  | O => pret []
  | S k => l <~ read_locator le ;; _ <~ ptick (1 + LOC_SIZE) ;; ls <~ read_locs le k ;; pret (l :: ls)
  end.
(* `for _ in 0..num_locators`: every iteration needs 24 more bytes, so after
   len/24 iterations the next one returns Err; the fuel is capped accordingly
   (num_locators itself can be 2^32-1) *)
Definition read_locator_list (le : bool) : parser (list locator) := fun s =>
  (n <~ read_u32 le ;;
   fun s' => read_locs le (Z.to_nat (Z.min n (len s' / 24 + 1))) s') s.

Definition enc_locator (e : bool) (l : locator) : list Z := enc_int e 4 (l_kind l) ++ enc_int e 4 (l_port l) ++ l_addr l.
Definition enc_locator_list (e : bool) (ls : list locator) : list Z :=
  enc_int e 4 (len ls) ++ flat_map (enc_locator e) ls.

(* ---------------------------------------------------------------- parameters *)
Record param : Type := mk_param { p_id : Z; p_val : list Z }.
Definition PID_SENTINEL : Z := 1.

(* Parameter::try_read_from_bytes *)
Definition read_param (le : bool) : parser param := fun s =>
  if shorter s 4 then (Err E_NOTENOUGH, 0) else
  let pid := to_signed 16 (dec_int le (firstn 2 s)) in
  let length := dec_int le (firstn 2 (skipn 2 s)) in
  let s' := skipn 4 s in
  if negb (pid =? PID_SENTINEL) && negb (length mod 4 =? 0) then (Err E_INVALID, 4) else
  if pid =? PID_SENTINEL then (Ok (mk_param pid [], s'), 4) else
  if shorter s' length then (Err E_NOTENOUGH, 4) else
  (Ok (mk_param pid (firstn (Z.to_nat length) s'), skipn (Z.to_nat length) s'), 4 + ARC_HDR + Z.max 0 length).

(* ParameterList::try_read_from_bytes, MAX_PARAMETERS = 2^16 iterations *)
Fixpoint read_params (le : bool) (fuel : nat) : parser (list param) :=
  match fuel with
  | O => pret []
  | S k =>
      p <~ read_param le ;;
      if p_id p =? PID_SENTINEL then pret []
      else _ <~ ptick (1 + PARAM_SIZE) ;; ps <~ read_params le k ;; pret (p :: ps)
  end.
Definition MAX_PARAMETERS : nat := Z.to_nat 65536.
Definition read_param_list (le : bool) : parser (list param) := read_params le MAX_PARAMETERS.

Definition pad_len (n : Z) : Z := (4 - n mod 4) mod 4.
Definition enc_param (e : bool) (p : param) : list Z :=
  let pad := pad_len (len (p_val p)) in
  enc_int e 2 (p_id p) ++ enc_int e 2 (len (p_val p) + pad) ++ p_val p ++ repeat 0 (Z.to_nat pad).
Definition enc_param_list (e : bool) (ps : list param) : list Z :=
  flat_map (enc_param e) ps ++ enc_int e 2 PID_SENTINEL ++ [0; 0].

(* --------------------------------------------------------------- submessages *)
(* S / F: representation of SequenceNumberSet / FragmentNumberSet
   (snset / fnset = the Rust structs, nset = base + members as seen through the accessors) *)
Inductive sub (S F : Type) : Type :=
| AckNack (final : bool) (rid wid : list Z) (state : S) (count : Z)
| Data (q d k n : bool) (rid wid : list Z) (sn : Z) (qos : list param) (payload : list Z)
| DataFrag (q k n : bool) (rid wid : list Z) (sn : Z) (fstart fcount fsize dsize : Z)
           (qos : list param) (payload : list Z)
| Gap (rid wid : list Z) (start : Z) (gl : S)
| Heartbeat (final live : bool) (rid wid : list Z) (first last : Z) (count : Z)
| HeartbeatFrag (rid wid : list Z) (sn : Z) (lastfrag : Z) (count : Z)
| InfoDst (prefix : list Z)
| InfoReply (mflag : bool) (uni multi : list locator)
| InfoSrc (version vendor prefix : list Z)
| InfoTs (inval : bool) (sec frac : Z)
| NackFrag (rid wid : list Z) (sn : Z) (fstate : F) (count : Z)
| Pad.
Arguments AckNack {S F}. Arguments Data {S F}. Arguments DataFrag {S F}. Arguments Gap {S F}.
Arguments Heartbeat {S F}. Arguments HeartbeatFrag {S F}. Arguments InfoDst {S F}.
Arguments InfoReply {S F}. Arguments InfoSrc {S F}. Arguments InfoTs {S F}.
Arguments NackFrag {S F}. Arguments Pad {S F}.

Definition psub : Type := sub snset fnset.    (* the Rust structs *)
Definition usub : Type := sub nset nset.      (* sets as base + member list *)

Definition ID_PAD : Z := 1.        Definition ID_ACKNACK : Z := 6.
Definition ID_HEARTBEAT : Z := 7.  Definition ID_GAP : Z := 8.
Definition ID_INFO_TS : Z := 9.    Definition ID_INFO_SRC : Z := 12.
Definition ID_INFO_DST : Z := 14.  Definition ID_INFO_REPLY : Z := 15.
Definition ID_NACK_FRAG : Z := 18. Definition ID_HEARTBEAT_FRAG : Z := 19.
Definition ID_DATA : Z := 21.      Definition ID_DATA_FRAG : Z := 22.

Definition flag (fl : Z) (i : Z) : bool := Z.testbit fl i.
Definition is_le (fl : Z) : bool := flag fl 0.

(* run a parser on the submessage body and drop the remaining slice *)
Definition run {A} (p : parser A) (v : list Z) : res A * Z :=
  match p v with
  | (Ok (a, _), c) => (Ok a, c)
  | (Err e, c) => (Err e, c)
  | (Panic x, c) => (Panic x, c)
  end.

Definition parse_acknack (fl : Z) (v : list Z) : res psub * Z :=
  let le := is_le fl in
  run (rid <~ read_entity_id ;; wid <~ read_entity_id ;; st <~ read_snset le ;; c <~ read_i32 le ;;
       pret (AckNack (flag fl 1) rid wid st c)) v.

Definition parse_gap (fl : Z) (v : list Z) : res psub * Z :=
  let le := is_le fl in
  run (rid <~ read_entity_id ;; wid <~ read_entity_id ;; st <~ read_sn le ;; gl <~ read_snset le ;;
       pret (Gap rid wid st gl)) v.

Definition parse_heartbeat (fl : Z) (v : list Z) : res psub * Z :=
  let le := is_le fl in
  run (rid <~ read_entity_id ;; wid <~ read_entity_id ;; f <~ read_sn le ;; l <~ read_sn le ;;
       c <~ read_i32 le ;; pret (Heartbeat (flag fl 1) (flag fl 2) rid wid f l c)) v.

Definition parse_heartbeat_frag (fl : Z) (v : list Z) : res psub * Z :=
  let le := is_le fl in
  run (rid <~ read_entity_id ;; wid <~ read_entity_id ;; sn <~ read_sn le ;; lf <~ read_u32 le ;;
       c <~ read_i32 le ;; pret (HeartbeatFrag rid wid sn lf c)) v.

Definition parse_nack_frag (fl : Z) (v : list Z) : res psub * Z :=
  let le := is_le fl in
  run (rid <~ read_entity_id ;; wid <~ read_entity_id ;; sn <~ read_sn le ;; st <~ read_fnset le ;;
       c <~ read_i32 le ;; pret (NackFrag rid wid sn st c)) v.

Definition parse_info_dst (fl : Z) (v : list Z) : res psub * Z :=
  run (p <~ read_n 12 ;; pret (InfoDst p)) v.

Definition parse_info_src (fl : Z) (v : list Z) : res psub * Z :=
  let le := is_le fl in
  run (_ <~ read_i32 le ;; ver <~ read_n 2 ;; ven <~ read_n 2 ;; p <~ read_n 12 ;;
       pret (InfoSrc ver ven p)) v.

Definition parse_info_ts (fl : Z) (v : list Z) : res psub * Z :=
  let le := is_le fl in
  if flag fl 1 then (Ok (InfoTs true u32_max u32_max), 0)
  else run (s <~ read_u32 le ;; f <~ read_u32 le ;; pret (InfoTs false s f)) v.

Definition parse_info_reply (fl : Z) (v : list Z) : res psub * Z :=
  let le := is_le fl in
  run (u <~ read_locator_list le ;;
       m <~ (if flag fl 1 then read_locator_list le else pret []) ;;
       pret (InfoReply (flag fl 1) u m)) v.

Definition parse_pad (fl : Z) (v : list Z) : res psub * Z := (Ok Pad, 0).

(* DataSubmessage::try_from_bytes; sublen = submessage_length of the header *)
Definition parse_data (fl sublen : Z) (data : list Z) : res psub * Z :=
  let le := is_le fl in
  if shorter data sublen then (Err E_INVALID, 0) else
  match (_ <~ read_u16 le ;; o <~ read_u16 le ;; rid <~ read_entity_id ;; wid <~ read_entity_id ;;
         sn <~ read_sn le ;; pret (o + 4, rid, wid, sn)) data with
  | (Err e, c) => (Err e, c)
  | (Panic x, c) => (Panic x, c)
  | (Ok ((o2q, rid, wid, sn), _), c) =>
      let end_position := if sublen =? 0 then len data else sublen in
      if end_position <? o2q then (Err E_INVALID, c) else
      let region := firstn (Z.to_nat (end_position - o2q)) (skipn (Z.to_nat o2q) data) in
      match (if flag fl 1 then read_param_list le region else (Ok ([], region), 0)) with
      | (Err e, c') => (Err e, c + c')
      | (Panic x, c') => (Panic x, c + c')
      | (Ok (qos, rest), c') =>
          let dk := flag fl 2 || flag fl 3 in
          (Ok (Data (flag fl 1) (flag fl 2) (flag fl 3) (flag fl 4) rid wid sn qos
                    (if dk then rest else [])),
           c + c' + (if dk then ARC_HDR + len rest else 0))
      end
  end.

(* DataFragSubmessage::try_from_bytes *)
Definition parse_data_frag (fl sublen : Z) (data : list Z) : res psub * Z :=
  let le := is_le fl in
  if shorter data sublen then (Err E_INVALID, 0) else
  if shorter data 32 then (Err E_NOTENOUGH, 0) else
  match (_ <~ read_u16 le ;; o <~ read_u16 le ;; rid <~ read_entity_id ;; wid <~ read_entity_id ;;
         sn <~ read_sn le ;; fs <~ read_u32 le ;; fc <~ read_u16 le ;; fz <~ read_u16 le ;;
         ds <~ read_u32 le ;; pret (o + 4, rid, wid, sn, fs, fc, fz, ds)) data with
  | (Err e, c) => (Err e, c)
  | (Panic x, c) => (Panic x, c)
  | (Ok ((o2q, rid, wid, sn, fs, fc, fz, ds), _), c) =>
      let end_position := if sublen =? 0 then len data else sublen in
      if end_position <? o2q then (Err E_INVALID, c) else
      let region := firstn (Z.to_nat (end_position - o2q)) (skipn (Z.to_nat o2q) data) in
      match (if flag fl 1 then read_param_list le region else (Ok ([], region), 0)) with
      | (Err e, c') => (Err e, c + c')
      | (Panic x, c') => (Panic x, c + c')
      | (Ok (qos, rest), c') =>
          (Ok (DataFrag (flag fl 1) (flag fl 2) (flag fl 3) rid wid sn fs fc fz ds qos rest),
           c + c' + ARC_HDR + len rest)
      end
  end.

Definition parse_sub (id fl sublen : Z) (v : list Z) : res psub * Z :=
  if id =? ID_ACKNACK then parse_acknack fl v
  else if id =? ID_DATA then parse_data fl sublen v
  else if id =? ID_DATA_FRAG then parse_data_frag fl sublen v
  else if id =? ID_GAP then parse_gap fl v
  else if id =? ID_HEARTBEAT then parse_heartbeat fl v
  else if id =? ID_HEARTBEAT_FRAG then parse_heartbeat_frag fl v
  else if id =? ID_INFO_DST then parse_info_dst fl v
  else if id =? ID_INFO_REPLY then parse_info_reply fl v
  else if id =? ID_INFO_SRC then parse_info_src fl v
  else if id =? ID_INFO_TS then parse_info_ts fl v
  else if id =? ID_NACK_FRAG then parse_nack_frag fl v
  else if id =? ID_PAD then parse_pad fl v
  else (Err E_UNKNOWN, 0).

Definition is_data {S F} (s : sub S F) : bool :=
  match s with Data _ _ _ _ _ _ _ _ _ | DataFrag _ _ _ _ _ _ _ _ _ _ _ _ => true | _ => false end.

(* --------------------------------------------------------------- the message *)
Record hdr : Type := mk_hdr { h_version : list Z; h_vendor : list Z; h_prefix : list Z }.

Definition sublen_of (fl b2 b3 : Z) : Z := if is_le fl then b2 + 256 * b3 else 256 * b2 + b3.

Definition is_data_id (id : Z) : bool := (id =? ID_DATA) || (id =? ID_DATA_FRAG).
(* bytes handed to the parser: exactly submessage_length of them; a DATA / DATA_FRAG of length 0
   extends to the end of the datagram (decided on the id, before parsing) *)
Definition body_len_of (id sublen : Z) (v' : list Z) : Z :=
  if (sublen =? 0) && is_data_id id then len v' else sublen.

(* the `for _ in 0..MAX_SUBMESSAGES` loop of RtpsMessageRead::try_from (after fix 0cb9fa7):
   split_at(submessage_length), parse the first part, always continue with the rest *)
Fixpoint sub_loop (fuel : nat) (v : list Z) : res (list psub) * Z :=
  match fuel with
  | O => (Ok [], 0)
  | S k =>
      match v with
      | id :: fl :: b2 :: b3 :: v' =>
          let sublen := sublen_of fl b2 b3 in
          if shorter v' sublen then (Ok [], 5) else
          let n := Z.to_nat (body_len_of id sublen v') in
          match parse_sub id fl sublen (firstn n v') with
          | (Panic x, c) => (Panic x, 5 + c)
          | (Err _, c) =>
              match sub_loop k (skipn n v') with
              | (r, c') => (r, 5 + c + c')
              end
          | (Ok sm, c) =>
              match sub_loop k (skipn n v') with
              | (Ok l, c') => (Ok (sm :: l), 5 + c + SUB_SIZE + c')
              | (r, c') => (r, 5 + c + SUB_SIZE + c')
              end
          end
      | _ => (Ok [], 0)
      end
  end.
Definition MAX_SUBMESSAGES : nat := Z.to_nat 65536.

Definition RTPS_MAGIC : list Z := [82; 84; 80; 83].
Fixpoint list_eqb (a b : list Z) : bool :=
  match a, b with
  | [], [] => true
  | x :: a', y :: b' => (x =? y) && list_eqb a' b'
  | _, _ => false
  end.

Definition parse_message_cost (v : list Z) : res (hdr * list psub) * Z :=
  if shorter v 20 then (Err E_NOTENOUGH, 0) else
  if negb (list_eqb (firstn 4 v) RTPS_MAGIC) then (Err E_INVALID, 0) else
  let h := mk_hdr (firstn 2 (skipn 4 v)) (firstn 2 (skipn 6 v)) (firstn 12 (skipn 8 v)) in
  match sub_loop MAX_SUBMESSAGES (skipn 20 v) with
  | (Ok l, c) => (Ok (h, l), 20 + c)
  | (Err e, c) => (Err e, 20 + c)
  | (Panic x, c) => (Panic x, 20 + c)
  end.
Definition parse_message (v : list Z) : res (hdr * list psub) := fst (parse_message_cost v).
Definition message_cost (v : list Z) : Z := snd (parse_message_cost v).

(* ------------------------------------------------------------------ encoders *)
Definition b2z (b : bool) : Z := if b then 1 else 0.
(* SubmessageHeaderWrite::new: endianness bit + flags shifted by one *)
Fixpoint flags_octet_from (i : Z) (fs : list bool) : Z :=
  match fs with
  | [] => 0
  | f :: t => (if f then 2 ^ i else 0) + flags_octet_from (i + 1) t
  end.
Definition flags_octet (e : bool) (fs : list bool) : Z := b2z e + flags_octet_from 1 fs.

Definition sub_id {S F} (s : sub S F) : Z :=
  match s with
  | AckNack _ _ _ _ _ => ID_ACKNACK | Data _ _ _ _ _ _ _ _ _ => ID_DATA
  | DataFrag _ _ _ _ _ _ _ _ _ _ _ _ => ID_DATA_FRAG | Gap _ _ _ _ => ID_GAP
  | Heartbeat _ _ _ _ _ _ _ => ID_HEARTBEAT | HeartbeatFrag _ _ _ _ _ => ID_HEARTBEAT_FRAG
  | InfoDst _ => ID_INFO_DST | InfoReply _ _ _ => ID_INFO_REPLY | InfoSrc _ _ _ => ID_INFO_SRC
  | InfoTs _ _ _ => ID_INFO_TS | NackFrag _ _ _ _ _ => ID_NACK_FRAG | Pad => ID_PAD
  end.
(* the flag lists handed to SubmessageHeaderWrite::new (INFO_REPLY passes its multicast flag
   since fix 4006ca4) *)
Definition sub_flags {S F} (s : sub S F) : list bool :=
  match s with
  | AckNack f _ _ _ _ => [f]
  | Data q d k n _ _ _ _ _ => [q; d; k; n]
  | DataFrag q k n _ _ _ _ _ _ _ _ _ => [q; k; n]
  | Heartbeat f l _ _ _ _ _ => [f; l]
  | InfoTs i _ _ => [i]
  | InfoReply m _ _ => [m]
  | _ => []
  end.
(* write_submessage_elements_into_bytes *)
Definition enc_body (e : bool) (s : psub) : list Z :=
  match s with
  | AckNack _ rid wid st c => rid ++ wid ++ enc_snset e st ++ enc_int e 4 c
  | Data q d k _ rid wid sn qos payload =>
      enc_int e 2 0 ++ enc_int e 2 16 ++ rid ++ wid ++ enc_sn e sn ++
      (if q then enc_param_list e qos else []) ++ (if d || k then payload else [])
  | DataFrag q _ _ rid wid sn fs fc fz ds qos payload =>
      enc_int e 2 0 ++ enc_int e 2 28 ++ rid ++ wid ++ enc_sn e sn ++ enc_int e 4 fs ++ enc_int e 2 fc ++
      enc_int e 2 fz ++ enc_int e 4 ds ++ (if q then enc_param_list e qos else []) ++ payload
  | Gap rid wid st gl => rid ++ wid ++ enc_sn e st ++ enc_snset e gl
  | Heartbeat _ _ rid wid f l c => rid ++ wid ++ enc_sn e f ++ enc_sn e l ++ enc_int e 4 c
  | HeartbeatFrag rid wid sn lf c => rid ++ wid ++ enc_sn e sn ++ enc_int e 4 lf ++ enc_int e 4 c
  | InfoDst p => p
  | InfoReply m u mu => enc_locator_list e u ++ (if m then enc_locator_list e mu else [])
  | InfoSrc ver ven p => [0; 0; 0; 0] ++ ver ++ ven ++ p
  | InfoTs i s f => if i then [] else enc_int e 4 s ++ enc_int e 4 f
  | NackFrag rid wid sn st c => rid ++ wid ++ enc_sn e sn ++ enc_fnset e st ++ enc_int e 4 c
  | Pad => []
  end.
(* write_submessage_into_bytes: header back-patched with `len as u16` *)
Definition enc_sub (e : bool) (s : psub) : list Z :=
  let body := enc_body e s in
  [sub_id s; flags_octet e (sub_flags s)] ++ enc_int e 2 (len body) ++ body.
Definition enc_hdr (h : hdr) : list Z := RTPS_MAGIC ++ h_version h ++ h_vendor h ++ h_prefix h.
Definition encode_message (e : bool) (h : hdr) (subs : list psub) : list Z :=
  enc_hdr h ++ flat_map (enc_sub e) subs.

(* ------------------------------------------- sets as base + member list level *)
Definition res_map {A B} (f : A -> B) (r : res A) : res B := x <- r ;; Ok (f x).

(* build the Rust structs from base + members through new() *)
Definition build_sub (s : usub) : res psub :=
  match s with
  | AckNack f rid wid st c => x <- snset_new (ns_base st) (ns_members st) ;; Ok (AckNack f rid wid x c)
  | Gap rid wid start gl => x <- snset_new (ns_base gl) (ns_members gl) ;; Ok (Gap rid wid start x)
  | NackFrag rid wid sn st c => x <- fnset_new (ns_base st) (ns_members st) ;; Ok (NackFrag rid wid sn x c)
  | Data q d k n rid wid sn qos p => Ok (Data q d k n rid wid sn qos p)
  | DataFrag q k n rid wid sn a b c d qos p => Ok (DataFrag q k n rid wid sn a b c d qos p)
  | Heartbeat f l rid wid a b c => Ok (Heartbeat f l rid wid a b c)
  | HeartbeatFrag rid wid sn lf c => Ok (HeartbeatFrag rid wid sn lf c)
  | InfoDst p => Ok (InfoDst p)
  | InfoReply m u mu => Ok (InfoReply m u mu)
  | InfoSrc a b c => Ok (InfoSrc a b c)
  | InfoTs i s f => Ok (InfoTs i s f)
  | Pad => Ok Pad
  end.
(* look at a decoded submessage through base() / set() *)
Definition observe_sub (s : psub) : res usub :=
  match s with
  | AckNack f rid wid st c => m <- snset_members st ;; Ok (AckNack f rid wid (mk_nset (ss_base st) m) c)
  | Gap rid wid start gl => m <- snset_members gl ;; Ok (Gap rid wid start (mk_nset (ss_base gl) m))
  | NackFrag rid wid sn st c => m <- fnset_members st ;; Ok (NackFrag rid wid sn (mk_nset (fs_base st) m) c)
  | Data q d k n rid wid sn qos p => Ok (Data q d k n rid wid sn qos p)
  | DataFrag q k n rid wid sn a b c d qos p => Ok (DataFrag q k n rid wid sn a b c d qos p)
  | Heartbeat f l rid wid a b c => Ok (Heartbeat f l rid wid a b c)
  | HeartbeatFrag rid wid sn lf c => Ok (HeartbeatFrag rid wid sn lf c)
  | InfoDst p => Ok (InfoDst p)
  | InfoReply m u mu => Ok (InfoReply m u mu)
  | InfoSrc a b c => Ok (InfoSrc a b c)
  | InfoTs i s f => Ok (InfoTs i s f)
  | Pad => Ok Pad
  end.
Fixpoint mapM {A B} (f : A -> res B) (l : list A) : res (list B) :=
  match l with
  | [] => Ok []
  | x :: t => y <- f x ;; ys <- mapM f t ;; Ok (y :: ys)
  end.

(* RtpsMessageWrite::new on submessages built with new(), then buffer() *)
Definition encode_umessage (e : bool) (h : hdr) (subs : list usub) : res (list Z) :=
  ps <- mapM build_sub subs ;; Ok (encode_message e h ps).
(* try_from, then every submessage seen through its accessors *)
Definition parse_observe (v : list Z) : res (hdr * list (res usub)) :=
  r <- parse_message v ;; Ok (fst r, map observe_sub (snd r)).

(* ------------------------------------------- what a round trip should give back *)
(* members as the iterator shows them: increasing, no duplicates *)
Fixpoint insert_sorted (x : Z) (l : list Z) : list Z :=
  match l with
  | [] => [x]
  | y :: t => if x <? y then x :: l else if x =? y then l else y :: insert_sorted x t
  end.
Definition canon_members (l : list Z) : list Z := fold_right insert_sorted [] l.
Definition canon_set (s : nset) : nset := mk_nset (ns_base s) (canon_members (ns_members s)).
Definition pad_param (p : param) : param :=
  mk_param (p_id p) (p_val p ++ repeat 0 (Z.to_nat (pad_len (len (p_val p))))).
(* the identity except: members ordered; parameter values padded to 4; fields that the
   flags exclude from the wire come back as their defaults *)
Definition canon_sub (s : usub) : usub :=
  match s with
  | AckNack f rid wid st c => AckNack f rid wid (canon_set st) c
  | Gap rid wid start gl => Gap rid wid start (canon_set gl)
  | NackFrag rid wid sn st c => NackFrag rid wid sn (canon_set st) c
  | Data q d k n rid wid sn qos p =>
      Data q d k n rid wid sn (if q then map pad_param qos else []) (if d || k then p else [])
  | DataFrag q k n rid wid sn a b c d qos p =>
      DataFrag q k n rid wid sn a b c d (if q then map pad_param qos else []) p
  | InfoTs i s f => if i then InfoTs true u32_max u32_max else InfoTs false s f
  | InfoReply m u mu => InfoReply m u (if m then mu else [])
  | other => other
  end.

(* heap bytes held by a decoded submessage / message (the memory the result retains) *)
Definition param_mem (p : param) : Z := PARAM_SIZE + ARC_HDR + len (p_val p).
Fixpoint sumZ (l : list Z) : Z := match l with [] => 0 | x :: t => x + sumZ t end.
Definition sub_mem {S F} (s : sub S F) : Z :=
  SUB_SIZE +
  match s with
  | Data _ _ _ _ _ _ _ qos p => sumZ (map param_mem qos) + ARC_HDR + len p
  | DataFrag _ _ _ _ _ _ _ _ _ _ qos p => sumZ (map param_mem qos) + ARC_HDR + len p
  | InfoReply _ u m => LOC_SIZE * (len u + len m)
  | _ => 0
  end.
Definition msg_mem {S F} (l : list (sub S F)) : Z := sumZ (map sub_mem l).

(* ----------------------------------------------------- well-formedness (types) *)
Definition arr (n : nat) (l : list Z) : Prop := length l = n /\ bytes_ok l.
Definition arrb (n : nat) (l : list Z) : bool := Nat.eqb (length l) n && bytes_okb l.
Definition in_u16b (z : Z) : bool := (0 <=? z) && (z <=? 65535).

(* set validity: every member within base .. base+255 (what new() accepts); a sequence number
   set member is below i64::MAX (i64::MAX is not a usable sequence number: the set() iterator
   ends there, and every consumer adds 1) *)
Definition valid_snsetb (s : nset) : bool :=
  in_i64b (ns_base s) &&
  forallb (fun m => in_i64b m && (m <? i64_max) && (ns_base s <=? m) && (m <? ns_base s + 256)) (ns_members s).
Definition valid_fnsetb (s : nset) : bool :=
  in_u32b (ns_base s) && forallb (fun m => in_u32b m && (ns_base s <=? m) && (m <? ns_base s + 256)) (ns_members s).
(* a parameter: i16 id other than the sentinel, byte value *)
Definition wf_paramb (p : param) : bool :=
  (-32768 <=? p_id p) && (p_id p <=? 32767) && negb (p_id p =? PID_SENTINEL) && bytes_okb (p_val p).
Definition wf_locb (l : locator) : bool := in_i32b (l_kind l) && in_u32b (l_port l) && arrb 16 (l_addr l).

Definition wf_subb (s : usub) : bool :=
  match s with
  | AckNack _ rid wid st c => arrb 4 rid && arrb 4 wid && valid_snsetb st && in_i32b c
  | Data _ _ _ _ rid wid sn qos p => arrb 4 rid && arrb 4 wid && in_i64b sn && forallb wf_paramb qos && bytes_okb p
  | DataFrag _ _ _ rid wid sn fs fc fz ds qos p =>
      arrb 4 rid && arrb 4 wid && in_i64b sn && in_u32b fs && in_u16b fc && in_u16b fz && in_u32b ds &&
      forallb wf_paramb qos && bytes_okb p
  | Gap rid wid start gl => arrb 4 rid && arrb 4 wid && in_i64b start && valid_snsetb gl
  | Heartbeat _ _ rid wid a b c => arrb 4 rid && arrb 4 wid && in_i64b a && in_i64b b && in_i32b c
  | HeartbeatFrag rid wid sn lf c => arrb 4 rid && arrb 4 wid && in_i64b sn && in_u32b lf && in_i32b c
  | InfoDst p => arrb 12 p
  | InfoReply _ u m => forallb wf_locb u && forallb wf_locb m && (len u <=? u32_max) && (len m <=? u32_max)
  | InfoSrc a b c => arrb 2 a && arrb 2 b && arrb 12 c
  | InfoTs _ s f => in_u32b s && in_u32b f
  | NackFrag rid wid sn st c => arrb 4 rid && arrb 4 wid && in_i64b sn && valid_fnsetb st && in_i32b c
  | Pad => true
  end.
Definition wf_hdrb (h : hdr) : bool := arrb 2 (h_version h) && arrb 2 (h_vendor h) && arrb 12 (h_prefix h).

(* ---------------------------------------- the 16-bit length truncation class (recorded
   finding of C08): a submessage body or a padded parameter longer than 65535 bytes *)
Definition param_too_long (p : param) : bool := 65535 <? len (p_val p) + pad_len (len (p_val p)).
Definition qos_of (s : usub) : list param :=
  match s with
  | Data q _ _ _ _ _ _ qos _ => if q then qos else []
  | DataFrag q _ _ _ _ _ _ _ _ _ qos _ => if q then qos else []
  | _ => []
  end.
Definition body_len (s : usub) : Z :=
  match build_sub s with Ok p => len (enc_body true p) | _ => 0 end.
Definition C08_known_len (s : usub) : bool :=
  (65535 <? body_len s) || existsb param_too_long (qos_of s).

(* ------------------------------------------------ oracle: length fields exact *)
(* walk the encoded submessages: ids in order, every octets_to_next_header lands exactly
   on the next header, the last one on the end of the buffer *)
Fixpoint lengths_exact (e : bool) (ids : list Z) (v : list Z) : bool :=
  match ids with
  | [] => match v with [] => true | _ => false end
  | i :: t =>
      match v with
      | id :: fl :: b2 :: b3 :: v' =>
          (id =? i) && Bool.eqb (is_le fl) e && (sublen_of fl b2 b3 <=? len v') &&
          lengths_exact e t (skipn (Z.to_nat (sublen_of fl b2 b3)) v')
      | _ => false
      end
  end.

(* -------------------------------------------------- C07: the linear bounds claimed *)
Definition COST_C : Z := 400.
Definition COST_K : Z := 64.
