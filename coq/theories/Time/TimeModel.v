(* Model of dds/src/dcps/infrastructure/time.rs, the Time part of
   dds/src/rtps_messages/types.rs, transport/types.rs::Time and
   rtps/behavior_types.rs::Duration.  Definitions only (no proofs) so that the
   correspondence check can run the model even when a proof is broken. *)
From DustDDS Require Export Base.Machine.
Open Scope Z_scope.

Definition NS : Z := 1000000000.

(* dds Duration and dds Time have the same shape: (sec : i32, nanosec : u32) *)
Record dur : Type := mkdur { sec : Z; nanosec : Z }.
(* rtps wire forms: behavior_types::Duration (seconds : i32, fraction : u32) and
   rtps_messages::types::Time (seconds : u32, fraction : u32) *)
Record wire : Type := mkwire { wsec : Z; wfrac : Z }.

Definition wf_dur (d : dur) : Prop := in_i32 (sec d) /\ in_u32 (nanosec d).
Definition normalized (d : dur) : Prop := in_i32 (sec d) /\ 0 <= nanosec d < NS.
Definition normalizedb (d : dur) : bool :=
  in_i32b (sec d) && (0 <=? nanosec d) && (nanosec d <? NS).

(* time.rs: fn fraction_to_nanosec / fn nanosec_to_fraction (same text in types.rs) *)
Definition fraction_to_nanosec (f : Z) : Z := wrap_u32 ((f * NS) / two32).
Definition nanosec_to_fraction (n : Z) : Z := wrap_u32 ((n * two32 + 999999999) / NS).

(* Duration::new / Time::new (dds): saturating *)
Definition dur_new (s n : Z) : dur :=
  mkdur (sat_i32 (s + wrap_i32 (n / NS))) (n mod NS).

(* impl Add<Duration> for Duration, impl Add<Duration> for Time *)
Definition dur_add (a b : dur) : dur :=
  let sec0 := sat_i32 (sec a + sec b) in
  let n := nanosec a + nanosec b in
  let s := n / NS in
  let n' := n - s * NS in
  mkdur (sat_i32 (sec0 + wrap_i32 s)) (wrap_u32 n').

(* impl Sub<Duration> for Duration *)
Definition dur_sub (a b : dur) : dur :=
  let sec0 := sat_i32 (sec a - sec b) in
  let diff := nanosec a - nanosec b in
  if diff <? 0 then mkdur (sat_i32 (sec0 - 1)) (wrap_u32 (NS + diff))
  else mkdur sec0 (nanosec a - nanosec b).

(* impl Sub<Time> for Time *)
Definition time_sub (a b : dur) : dur :=
  dur_sub (dur_new (sec a) (nanosec a)) (dur_new (sec b) (nanosec b)).

(* conversions dds Duration <-> rtps behavior Duration *)
Definition rtps_of_dds_duration (d : dur) : wire := mkwire (sec d) (nanosec_to_fraction (nanosec d)).
Definition dds_of_rtps_duration (w : wire) : dur := mkdur (wsec w) (fraction_to_nanosec (wfrac w)).
(* conversions dds Duration <-> rtps_messages Time *)
Definition rtpstime_of_dds_duration (d : dur) : wire :=
  mkwire (wrap_u32 (sec d)) (nanosec_to_fraction (nanosec d)).
Definition dds_duration_of_rtpstime (w : wire) : dur :=
  mkdur (wrap_i32 (wsec w)) (fraction_to_nanosec (wfrac w)).

(* transport::types::Time::new : `sec + (nanosec / 1e9) as i32` is a checked add
   in the debug profile *)
Definition tt_new (s n : Z) : res dur :=
  let s' := s + wrap_i32 (n / NS) in
  if in_i32b s' then Ok (mkdur s' (n mod NS)) else Panic 1.

(* the path of a source timestamp: dds Time -> transport Time -> rtps Time
   -> (wire) -> rtps Time -> transport Time -> dds Time *)
Definition timestamp_to_wire (t : dur) : res wire :=
  tt <- tt_new (sec t) (nanosec t) ;;
  Ok (mkwire (wrap_u32 (sec tt)) (nanosec_to_fraction (nanosec tt))).
Definition timestamp_of_wire (w : wire) : res dur :=
  tt <- tt_new (wrap_i32 (wsec w)) (fraction_to_nanosec (wfrac w)) ;;
  Ok (dur_new (sec tt) (nanosec tt)).
Definition timestamp_roundtrip (t : dur) : res dur :=
  w <- timestamp_to_wire t ;; timestamp_of_wire w.

(* derived lexicographic Ord of (sec, nanosec) *)
Definition dur_le (a b : dur) : Prop :=
  sec a < sec b \/ (sec a = sec b /\ nanosec a <= nanosec b).
Definition dur_leb (a b : dur) : bool :=
  (sec a <? sec b) || ((sec a =? sec b) && (nanosec a <=? nanosec b)).

Definition dur_eqb (a b : dur) : bool := (sec a =? sec b) && (nanosec a =? nanosec b).
Definition wire_eqb (a b : wire) : bool := (wsec a =? wsec b) && (wfrac a =? wfrac b).
Definition res_dur_eqb (a b : res dur) : bool :=
  match a, b with
  | Ok x, Ok y => dur_eqb x y
  | Err x, Err y => x =? y
  | Panic _, Panic _ => true
  | _, _ => false
  end.

(* the seconds of an addition/subtraction leave the i32 range, i.e. the code's
   saturating arithmetic clamps; class of the recorded finding C14-saturation *)
Definition add_saturates (a b : dur) : bool :=
  negb (in_i32b (sec a + sec b)) ||
  negb (in_i32b (sec a + sec b + (nanosec a + nanosec b) / NS)).
Definition sub_saturates (a b : dur) : bool :=
  negb (in_i32b (sec a - sec b)) ||
  negb (in_i32b (sec a - sec b - (if nanosec a - nanosec b <? 0 then 1 else 0))).

(* ---- oracles: the property itself as booleans on implementation output ---- *)
(* wire conversion and back must be the identity on normalized values *)
Definition oracle_roundtrip (d back : dur) : bool := dur_eqb d back.
Definition oracle_normalized_out (r : dur) : bool := normalizedb r.
