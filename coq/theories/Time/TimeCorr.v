(* Correspondence vocabulary for C14: one case = one call of the real code with
   its observed output; the model and the oracle are applied inside Coq. *)
From DustDDS Require Export Base.Machine Time.TimeModel.
Open Scope Z_scope.

Inductive C14_op : Type :=
| RtDur (d : dur)          (* dds Duration -> rtps Duration -> dds Duration *)
| RtTime (d : dur)         (* dds Duration -> rtps_messages Time -> dds Duration *)
| RtTs (d : dur)           (* dds Time -> transport Time -> rtps Time -> back *)
| OfWireDur (w : wire)     (* rtps Duration (any fraction) -> dds Duration *)
| OfWireTs (w : wire)      (* rtps Time (any fraction) -> transport -> dds Time *)
| New (s n : Z)            (* Duration::new *)
| Add (a b : dur) | Sub (a b : dur) | TSub (a b : dur) | TAdd (a b : dur)
| MonoAdd (a b c : dur) | MonoSub (a b c : dur).

(* output: list of (sec, nanosec) results, or panic *)
Record C14_case : Type := mkC14 { c_op : C14_op; c_out : res (list dur) }.

Definition one (d : dur) : res (list dur) := Ok [d].
Definition lift1 (r : res dur) : res (list dur) := x <- r ;; Ok [x].

Definition C14_run (o : C14_op) : res (list dur) :=
  match o with
  | RtDur d => one (dds_of_rtps_duration (rtps_of_dds_duration d))
  | RtTime d => one (dds_duration_of_rtpstime (rtpstime_of_dds_duration d))
  | RtTs d => lift1 (timestamp_roundtrip d)
  | OfWireDur w => one (dds_of_rtps_duration w)
  | OfWireTs w => lift1 (timestamp_of_wire w)
  | New s n => one (dur_new s n)
  | Add a b => one (dur_add a b)
  | TAdd a b => one (dur_add a b)
  | Sub a b => one (dur_sub a b)
  | TSub a b => one (time_sub a b)
  | MonoAdd a b c => Ok [dur_add a c; dur_add b c]
  | MonoSub a b c => Ok [dur_sub a c; dur_sub b c]
  end.

Fixpoint durs_eqb (x y : list dur) : bool :=
  match x, y with
  | [], [] => true
  | a :: x', b :: y' => dur_eqb a b && durs_eqb x' y'
  | _, _ => false
  end.
Definition out_eqb (a b : res (list dur)) : bool :=
  match a, b with
  | Ok x, Ok y => durs_eqb x y
  | Err x, Err y => x =? y
  | Panic _, Panic _ => true
  | _, _ => false
  end.

Definition C14_model_ok (c : C14_case) : bool := out_eqb (C14_run (c_op c)) (c_out c).

(* the property, on the implementation's output *)
Definition C14_oracle_ok (c : C14_case) : bool :=
  match c_op c, c_out c with
  | RtDur d, Ok [r] | RtTime d, Ok [r] | RtTs d, Ok [r] => oracle_roundtrip d r
  | OfWireDur _, Ok [r] | OfWireTs _, Ok [r] | New _ _, Ok [r]
  | Add _ _, Ok [r] | Sub _ _, Ok [r] | TSub _ _, Ok [r] | TAdd _ _, Ok [r] => oracle_normalized_out r
  | MonoAdd a b _, Ok [r1; r2] | MonoSub a b _, Ok [r1; r2] =>
      oracle_normalized_out r1 && oracle_normalized_out r2 &&
      (if dur_leb a b then dur_leb r1 r2 else true)
  | _, _ => false
  end.

(* class 1: the i32 seconds clamp (recorded finding C14-saturation) *)
Definition C14_known (c : C14_case) : N :=
  match c_op c with
  | MonoAdd a b c' => if add_saturates a c' || add_saturates b c' then 1%N else 0%N
  | MonoSub a b c' => if sub_saturates a c' || sub_saturates b c' then 1%N else 0%N
  | _ => 0%N
  end.
