From DustDDS Require Import Base.Machine Time.TimeModel.
Open Scope Z_scope.
Ltac Zify.zify_post_hook ::= Z.div_mod_to_equations.

Lemma f2n_n2f n : 0 <= n < NS -> fraction_to_nanosec (nanosec_to_fraction n) = n.
Proof.
  unfold fraction_to_nanosec, nanosec_to_fraction, wrap_u32, NS, two32. intros H. lia.
Qed.

Lemma n2f_fits n : 0 <= n < NS -> 0 <= (n * two32 + 999999999) / NS < two32.
Proof. unfold NS, two32. intros; lia. Qed.

Lemma f2n_normalized f : in_u32 f -> 0 <= fraction_to_nanosec f < NS.
Proof. unfold in_u32, u32_max, fraction_to_nanosec, wrap_u32, NS, two32. intros; lia. Qed.

Lemma wrap_i32_u32 s : in_i32 s -> wrap_i32 (wrap_u32 s) = s.
Proof. unfold in_i32, i32_min, i32_max, wrap_i32, wrap_u32, two32. intros; lia. Qed.

Lemma roundtrip_duration d : normalized d ->
  dds_of_rtps_duration (rtps_of_dds_duration d) = d.
Proof.
  destruct d as [s n]; unfold normalized, dds_of_rtps_duration, rtps_of_dds_duration; cbn [sec nanosec wsec wfrac].
  intros [_ Hn]. now rewrite f2n_n2f.
Qed.

Lemma roundtrip_rtpstime d : normalized d ->
  dds_duration_of_rtpstime (rtpstime_of_dds_duration d) = d.
Proof.
  destruct d as [s n]; unfold normalized, dds_duration_of_rtpstime, rtpstime_of_dds_duration; cbn [sec nanosec wsec wfrac].
  intros [Hs Hn]. now rewrite f2n_n2f, wrap_i32_u32.
Qed.

Lemma div_small n : 0 <= n < NS -> n / NS = 0 /\ n mod NS = n.
Proof. unfold NS; intros; split; lia. Qed.

Lemma tt_new_normalized s n : in_i32 s -> 0 <= n < NS -> tt_new s n = Ok (mkdur s n).
Proof.
  intros Hs Hn. unfold tt_new. destruct (div_small n Hn) as [-> ->].
  replace (s + wrap_i32 0) with s by (unfold wrap_i32, two32; lia).
  unfold in_i32b. unfold in_i32 in Hs.
  destruct (i32_min <=? s) eqn:E1; destruct (s <=? i32_max) eqn:E2; try reflexivity; lia.
Qed.

Lemma dur_new_normalized s n : in_i32 s -> 0 <= n < NS -> dur_new s n = mkdur s n.
Proof.
  intros Hs Hn. unfold dur_new. destruct (div_small n Hn) as [-> ->].
  f_equal. unfold sat_i32, wrap_i32, two32, in_i32, i32_min, i32_max in *. lia.
Qed.

Lemma roundtrip_timestamp t : normalized t -> timestamp_roundtrip t = Ok t.
Proof.
  destruct t as [s n]. intros [Hs Hn]; cbn in Hs, Hn.
  unfold timestamp_roundtrip, timestamp_to_wire, timestamp_of_wire; cbn [sec nanosec].
  rewrite tt_new_normalized by assumption. cbn [bind sec nanosec wsec wfrac].
  rewrite wrap_i32_u32, f2n_n2f by assumption.
  rewrite tt_new_normalized by assumption. cbn [bind sec nanosec].
  now rewrite dur_new_normalized.
Qed.

(* ---- arithmetic: normalization ---- *)
Lemma sat_in z : in_i32 (sat_i32 z).
Proof. unfold in_i32, sat_i32, i32_min, i32_max; lia. Qed.

Lemma add_normalized a b : normalized a -> normalized b -> normalized (dur_add a b).
Proof.
  destruct a as [sa na], b as [sb nb]. unfold normalized, dur_add; cbn [sec nanosec wsec wfrac].
  intros [Ha Hna] [Hb Hnb]. split; [apply sat_in|].
  unfold wrap_u32, NS, two32 in *. lia.
Qed.

Lemma sub_normalized a b : normalized a -> normalized b -> normalized (dur_sub a b).
Proof.
  destruct a as [sa na], b as [sb nb]. unfold normalized, dur_sub; cbn [sec nanosec wsec wfrac].
  intros [Ha Hna] [Hb Hnb].
  destruct (na - nb <? 0) eqn:E; cbn [sec nanosec]; (split; [apply sat_in|]);
  unfold wrap_u32, NS, two32 in *; lia.
Qed.

Lemma new_normalized s n : in_u32 n -> normalized (dur_new s n).
Proof.
  unfold normalized, dur_new; cbn [sec nanosec]. intros Hn. split; [apply sat_in|]. unfold NS; lia.
Qed.

Lemma time_sub_normalized a b : wf_dur a -> wf_dur b -> normalized (time_sub a b).
Proof.
  intros [_ Ha] [_ Hb]. unfold time_sub. apply sub_normalized; now apply new_normalized.
Qed.

(* ---- arithmetic: exactness and monotonicity away from saturation ---- *)
Definition nanos (d : dur) : Z := sec d * NS + nanosec d.

Lemma in_i32b_true z : in_i32b z = true <-> in_i32 z.
Proof. unfold in_i32b, in_i32. rewrite andb_true_iff, !Z.leb_le. tauto. Qed.

Lemma wrap_i32_small z : in_i32 z -> wrap_i32 z = z.
Proof. unfold in_i32, i32_min, i32_max, wrap_i32, two32; intros; lia. Qed.
Lemma wrap_u32_small z : in_u32 z -> wrap_u32 z = z.
Proof. unfold in_u32, u32_max, wrap_u32, two32; intros; lia. Qed.

Lemma add_exact a b : normalized a -> normalized b -> add_saturates a b = false ->
  nanos (dur_add a b) = nanos a + nanos b.
Proof.
  destruct a as [sa na], b as [sb nb]. unfold normalized, add_saturates, dur_add, nanos;
    cbn [sec nanosec].
  intros [Ha Hna] [Hb Hnb] Hs. apply orb_false_iff in Hs. destruct Hs as [Hs0 Hs].
  apply negb_false_iff, in_i32b_true in Hs0. apply negb_false_iff, in_i32b_true in Hs.
  set (q := (na + nb) / NS) in *.
  assert (Hq : 0 <= q <= 1 /\ NS * q <= na + nb < NS * q + NS)
    by (unfold q, NS in *; lia).
  clearbody q. destruct Hq as [Hq1 Hq2].
  rewrite wrap_i32_small by (unfold in_i32, i32_min, i32_max; lia).
  rewrite wrap_u32_small by (unfold in_u32, u32_max, NS in *; lia).
  unfold sat_i32, in_i32, i32_min, i32_max, NS in *. lia.
Qed.

Lemma sub_exact a b : normalized a -> normalized b -> sub_saturates a b = false ->
  nanos (dur_sub a b) = nanos a - nanos b.
Proof.
  destruct a as [sa na], b as [sb nb]. unfold normalized, sub_saturates, dur_sub, nanos; cbn [sec nanosec wsec wfrac].
  intros [Ha Hna] [Hb Hnb] Hs. apply orb_false_iff in Hs. destruct Hs as [Hs0 Hs].
  apply negb_false_iff, in_i32b_true in Hs0. apply negb_false_iff, in_i32b_true in Hs.
  destruct (na - nb <? 0) eqn:E; cbn [sec nanosec];
  [rewrite wrap_u32_small by (unfold in_u32, u32_max, NS in *; lia)|];
  unfold sat_i32, in_i32, i32_min, i32_max, NS in *; lia.
Qed.

Lemma dur_le_nanos a b : normalized a -> normalized b -> (dur_le a b <-> nanos a <= nanos b).
Proof.
  destruct a as [sa na], b as [sb nb]. unfold normalized, dur_le, nanos, NS; cbn [sec nanosec wsec wfrac].
  intros [_ Hna] [_ Hnb]. split; intros H; nia.
Qed.

Lemma add_monotone a b c : normalized a -> normalized b -> normalized c ->
  add_saturates a c = false -> add_saturates b c = false ->
  dur_le a b -> dur_le (dur_add a c) (dur_add b c).
Proof.
  intros Ha Hb Hc Sa Sb Hle.
  apply dur_le_nanos; try (apply add_normalized; assumption).
  rewrite !add_exact by assumption. apply (dur_le_nanos a b Ha Hb) in Hle. lia.
Qed.

Lemma sub_monotone a b c : normalized a -> normalized b -> normalized c ->
  sub_saturates a c = false -> sub_saturates b c = false ->
  dur_le a b -> dur_le (dur_sub a c) (dur_sub b c).
Proof.
  intros Ha Hb Hc Sa Sb Hle.
  apply dur_le_nanos; try (apply sub_normalized; assumption).
  rewrite !sub_exact by assumption. apply (dur_le_nanos a b Ha Hb) in Hle. lia.
Qed.

(* the saturation class is real: monotonicity fails inside it (recorded finding) *)
Lemma add_monotone_refuted_when_saturating :
  exists a b c, normalized a /\ normalized b /\ normalized c /\
    add_saturates b c = true /\ dur_le a b /\ ~ dur_le (dur_add a c) (dur_add b c).
Proof.
  exists (mkdur i32_max 500000000), (mkdur i32_max 900000000), (mkdur 0 200000000).
  unfold normalized, dur_le, in_i32; cbn [sec nanosec]. unfold NS, i32_min, i32_max. 
  repeat split; try lia. intros [H|[_ H]]; [discriminate H| apply H; reflexivity].
Qed.

(* oracle soundness *)
Lemma dur_eqb_eq a b : dur_eqb a b = true <-> a = b.
Proof.
  destruct a as [sa na], b as [sb nb]; unfold dur_eqb; cbn [sec nanosec]. rewrite andb_true_iff, !Z.eqb_eq.
  split; [intros [-> ->]; reflexivity | intros H; injection H; auto].
Qed.
Lemma normalizedb_true d : normalizedb d = true <-> normalized d.
Proof.
  unfold normalizedb, normalized. rewrite !andb_true_iff, in_i32b_true, Z.leb_le, Z.ltb_lt. tauto.
Qed.
