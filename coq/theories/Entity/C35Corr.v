(* C35 — correspondence and trace oracle.
   The oracle tracks, from the OBSERVED results only, which proxies denote live entities and the handle each
   creation returned; it demands that (a) no operation panics or gets stuck, (b) a creation returns a handle or an
   error, (c) the handle of a new entity differs from the handle of every entity alive at that moment (participants
   included), (d) get_instance_handle keeps returning the handle of the creation.
   There is no known class any more: since b2cf990 an exhausted id counter makes the creation return
   OutOfResources (the per-participant creation counts are still tracked: they were the signature of the former
   finding C35-counter-overflow and only document where a failure happened). *)
From DustDDS Require Export Entity.EntityCorr.
Open Scope Z_scope.

Record hent : Type := mkHE { he_h : handle; he_live : bool; he_part : Z; he_par : Z; he_name : Z }.
Record pcnt : Type := mkPC { pc_pub : Z; pc_sub : Z; pc_w : Z; pc_r : Z; pc_t : Z }.
Record h35 : Type := mkH35 {
  a_P : list hent; a_T : list hent; a_PUB : list hent; a_SUB : list hent; a_W : list hent; a_R : list hent;
  a_C : list (Z * Z);          (* content filtered topic proxies: participant index, related topic name *)
  a_cnt : list pcnt            (* per participant proxy: creations counted so far *)
}.
Definition h35_0 : h35 := mkH35 [] [] [] [] [] [] [] [].

Definition hkill (e : hent) : hent := mkHE (he_h e) false (he_part e) (he_par e) (he_name e).
Definition live_handles (l : list hent) : list handle := map he_h (filter he_live l).
Definition all_live (a : h35) : list handle :=
  live_handles (a_P a) ++ live_handles (a_T a) ++ live_handles (a_PUB a) ++ live_handles (a_SUB a)
  ++ live_handles (a_W a) ++ live_handles (a_R a).
Definition hmem (h : handle) (l : list handle) : bool := existsb (heqb h) l.

Definition a_G (sd : side) (a : h35) := match sd with SPub => a_PUB a | SSub => a_SUB a end.
Definition a_E (sd : side) (a : h35) := match sd with SPub => a_W a | SSub => a_R a end.
Definition setA_P a l := mkH35 l (a_T a) (a_PUB a) (a_SUB a) (a_W a) (a_R a) (a_C a) (a_cnt a).
Definition setA_T a l := mkH35 (a_P a) l (a_PUB a) (a_SUB a) (a_W a) (a_R a) (a_C a) (a_cnt a).
Definition setA_G sd a l :=
  match sd with
  | SPub => mkH35 (a_P a) (a_T a) l (a_SUB a) (a_W a) (a_R a) (a_C a) (a_cnt a)
  | SSub => mkH35 (a_P a) (a_T a) (a_PUB a) l (a_W a) (a_R a) (a_C a) (a_cnt a)
  end.
Definition setA_E sd a l :=
  match sd with
  | SPub => mkH35 (a_P a) (a_T a) (a_PUB a) (a_SUB a) l (a_R a) (a_C a) (a_cnt a)
  | SSub => mkH35 (a_P a) (a_T a) (a_PUB a) (a_SUB a) (a_W a) l (a_C a) (a_cnt a)
  end.
Definition setA_C a l := mkH35 (a_P a) (a_T a) (a_PUB a) (a_SUB a) (a_W a) (a_R a) l (a_cnt a).
Definition setA_cnt a l := mkH35 (a_P a) (a_T a) (a_PUB a) (a_SUB a) (a_W a) (a_R a) (a_C a) l.

Definition pc0 : pcnt := mkPC 0 0 0 0 0.
Definition cnt_of (a : h35) (p : Z) : pcnt := match nthz (a_cnt a) p with Some c => c | None => pc0 end.
Definition add_g (sd : side) (n : Z) (c : pcnt) : pcnt :=
  match sd with
  | SPub => mkPC (pc_pub c + n) (pc_sub c) (pc_w c) (pc_r c) (pc_t c)
  | SSub => mkPC (pc_pub c) (pc_sub c + n) (pc_w c) (pc_r c) (pc_t c)
  end.
Definition add_e (sd : side) (n : Z) (c : pcnt) : pcnt :=
  match sd with
  | SPub => mkPC (pc_pub c) (pc_sub c) (pc_w c + n) (pc_r c) (pc_t c)
  | SSub => mkPC (pc_pub c) (pc_sub c) (pc_w c) (pc_r c + n) (pc_t c)
  end.
Definition add_t (n : Z) (c : pcnt) : pcnt := mkPC (pc_pub c) (pc_sub c) (pc_w c) (pc_r c) (pc_t c + n).
Definition get_g (sd : side) (c : pcnt) : Z := match sd with SPub => pc_pub c | SSub => pc_sub c end.
Definition get_e (sd : side) (c : pcnt) : Z := match sd with SPub => pc_w c | SSub => pc_r c end.
Definition bumpcnt (a : h35) (p : Z) (g : pcnt -> pcnt) : h35 := setA_cnt a (updz (a_cnt a) p g).

Definition in_hpart (p : Z) (e : hent) : bool := he_part e =? p.
Definition hkill_if (f : hent -> bool) (l : list hent) : list hent := map (fun e => if f e then hkill e else e) l.
Definition kill_children (a : h35) (p : Z) : h35 :=
  mkH35 (a_P a) (hkill_if (in_hpart p) (a_T a)) (hkill_if (in_hpart p) (a_PUB a)) (hkill_if (in_hpart p) (a_SUB a))
        (hkill_if (in_hpart p) (a_W a)) (hkill_if (in_hpart p) (a_R a)) (a_C a) (a_cnt a).

(* class of a failure at a creation whose counter (before the creation) is c, n creations requested: none is
   excused any more *)
Definition cls_at (c n maxv : Z) : N := 0%N.

(* a successful creation returning h: distinct from everything alive *)
Definition chk_new (a : h35) (h : handle) (c maxv : Z) : list N :=
  if hmem h (all_live a) then [0%N] else [].

Definition ep_create (a : h35) (sd : side) (g : Z) (r : ret) : h35 * list N :=
  match nthz (a_G sd a) g with
  | None => (a, [])
  | Some ge =>
      let p := he_part ge in
      let c := get_e sd (cnt_of a p) in
      match r with
      | RHandle h =>
          (bumpcnt (setA_E sd a (a_E sd a ++ [mkHE h true p g 0])) p (add_e sd 1), chk_new a h c 65535)
      | RErr e =>
          (* a writer whose QoS is refused has already used a counter value *)
          (match sd with SPub => if e =? E_INCONSISTENT then bumpcnt a p (add_e sd 1) else a | SSub => a end, [])
      | _ => (a, [cls_at c 1 65535])
      end
  end.

Definition c35_step (a : h35) (o : wop) (r : ret) : h35 * list N :=
  match r with
  | RBad => (a, [])
  | _ =>
  match o with
  | WP _ =>
      match r with
      | RHandle h =>
          (setA_cnt (setA_P a (a_P a ++ [mkHE h true (Z.of_nat (length (a_P a))) (-1) 0])) (a_cnt a ++ [pc0]),
           chk_new a h 0 u32_max)
      | RErr _ => (a, [])
      | _ => (a, [0%N])
      end
  | WG sd p _ =>
      let c := get_g sd (cnt_of a p) in
      match r with
      | RHandle h =>
          (bumpcnt (setA_G sd a (a_G sd a ++ [mkHE h true p (-1) 0])) p (add_g sd 1), chk_new a h c 255)
      | RErr _ => (a, [])
      | _ => (a, [cls_at c 1 255])
      end
  | WT p name _ =>
      let c := pc_t (cnt_of a p) in
      match r with
      | RHandle h =>
          (bumpcnt (setA_T a (a_T a ++ [mkHE h true p (-1) name])) p (add_t 1), chk_new a h c 65535)
      | RErr _ => (a, [])
      | _ => (a, [cls_at c 1 65535])
      end
  | WCft _ _ t =>
      match nthz (a_T a) t with
      | None => (a, [])
      | Some te =>
          let c := pc_t (cnt_of a (he_part te)) in
          match r with
          | RUnit => (bumpcnt (setA_C a (a_C a ++ [(he_part te, he_name te)])) (he_part te) (add_t 1), [])
          | RErr _ => (a, [])
          | _ => (a, [cls_at c 1 65535])
          end
      end
  | WE sd g _ _ => ep_create a sd g r
  | WRc g _ _ => ep_create a SSub g r
  | WDelE sd e _ =>
      (if is_unit r then setA_E sd a (updz (a_E sd a) e hkill) else a,
       match r with RUnit | RErr _ => [] | _ => [0%N] end)
  | WDelG sd g _ =>
      (if is_unit r then setA_G sd a (updz (a_G sd a) g hkill) else a,
       match r with RUnit | RErr _ => [] | _ => [0%N] end)
  | WDelT t _ =>
      match nthz (a_T a) t with
      | None => (a, [])
      | Some te =>
          (* the implementation deletes by name *)
          (if is_unit r then
             setA_T a (hkill_if (fun e => (he_part e =? he_part te) && (he_name e =? he_name te)) (a_T a))
           else a,
           match r with RUnit | RErr _ => [] | _ => [0%N] end)
      end
  | WDelAll p => (if is_unit r then kill_children a p else a, match r with RUnit | RErr _ => [] | _ => [0%N] end)
  | WDelP p =>
      (if is_unit r then setA_P (kill_children a p) (updz (a_P a) p hkill) else a,
       match r with RUnit | RErr _ => [] | _ => [0%N] end)
  | WH k i =>
      let l := match k with KP => a_P a | KT => a_T a | KPUB => a_PUB a | KSUB => a_SUB a | KW => a_W a | KR => a_R a end in
      match nthz l i, r with
      | Some e, RHandle h => (a, if heqb h (he_h e) then [] else [0%N])
      | Some _, _ => (a, [0%N])
      | None, _ => (a, [])
      end
  | WBurnG sd p n =>
      let c := get_g sd (cnt_of a p) in
      match r with
      | RBurn d _ => (bumpcnt a p (add_g sd d), [])
      | RErr _ => (a, [])
      | _ => (a, [cls_at c n 255])
      end
  | WBurnT p n =>
      let c := pc_t (cnt_of a p) in
      match r with
      | RBurn d _ => (bumpcnt a p (add_t d), [])
      | RErr _ => (a, [])
      | _ => (a, [cls_at c n 65535])
      end
  | WBurnE sd g _ n =>
      match nthz (a_G sd a) g with
      | None => (a, [])
      | Some ge =>
          let p := he_part ge in
          let c := get_e sd (cnt_of a p) in
          match r with
          | RBurn d _ => (bumpcnt a p (add_e sd d), [])
          | RErr _ => (a, [])
          | _ => (a, [cls_at c n 65535])
          end
      end
  | _ => (a, match r with RPanic => [0%N] | _ => [] end)
  end
  end.

Fixpoint c35_run (a : h35) (tr : list (wop * ret)) : list N :=
  match tr with
  | [] => []
  | (o, r) :: t => let (a1, v) := c35_step a o r in v ++ c35_run a1 t
  end.

Definition C35_viol (c : ent_case) : list N := c35_run h35_0 (zip_trace (c_ops c) (c_outs c)).
Definition C35_model_ok : ent_case -> bool := ent_model_ok.
Definition C35_oracle_ok (c : ent_case) : bool := is_nil (C35_viol c).
Definition C35_known (c : ent_case) : N := 0%N.

(* the same scenarios on a harness built WITHOUT overflow checks (thorough tier): the model runs in the Release
   profile (which no longer differs from Debug); the oracle is the same *)
Definition C35R_model_ok (c : ent_case) : bool := rets_eqb (wrun Release init_world (c_ops c)) (c_outs c).
Definition C35R_oracle_ok : ent_case -> bool := C35_oracle_ok.
Definition C35R_known : ent_case -> N := C35_known.
