(* C37 — proofs about QoS validation: every set_qos / create path of the model, for any state. *)
From DustDDS Require Import Base.Machine Entity.EntityModel Entity.EntityLemmas Entity.C36Proofs Entity.C37Corr.
Open Scope Z_scope.

(* ------------------------------------------------------------------ lifting participant-level facts *)
Lemma with_part_eval : forall f ph k p, find_part f ph = Some p ->
    with_part f ph k = (set_parts f (upd_first (is_part ph) (fun _ => fst (k p)) (f_parts f)), snd (k p)).
Proof. intros f ph k p H. unfold with_part. rewrite H. destruct (k p); reflexivity. Qed.

Lemma find_part_after : forall f ph p p', find_part f ph = Some p -> pa_h p' = pa_h p ->
    find_part (set_parts f (upd_first (is_part ph) (fun _ => p') (f_parts f))) ph = Some p'.
Proof. intros. unfold find_part, set_parts; cbn [f_parts]. eapply find_part_upd; eauto. Qed.

Lemma groups_set_groups : forall sd p l, groups sd (set_groups sd p l) = l.
Proof. intros [|] p l; reflexivity. Qed.
Lemma pa_h_set_groups : forall sd p l, pa_h (set_groups sd p l) = pa_h p.
Proof. intros [|] p l; reflexivity. Qed.

(* ------------------------------------------------------------------ writers and readers *)
Section Endpoint.
  Variables (pr : profile) (f : factory) (sd : side) (ph gh eh : handle) (p : part) (g : group) (e : endpoint).
  Hypothesis Hp : find_part f ph = Some p.
  Hypothesis Hg : find_first (is_group gh) (groups sd p) = Some g.
  Hypothesis He : find_first (is_ep eh) (g_eps g) = Some e.

  Lemma ep_get : fstep pr f (FGetEpQos sd ph gh eh) = (f, REQ (e_q e)).
  Proof.
    cbn [fstep]. apply with_part_unchanged with (p := p); auto. unfold get_ep_qos. rewrite Hg, He. reflexivity.
  Qed.

  Lemma ep_set_inconsistent : forall q, is_consistent (ekind_of sd) q = false ->
      fstep pr f (FSetEpQos sd ph gh eh (Some q)) = (f, RErr E_INCONSISTENT).
  Proof.
    intros q Hq. cbn [fstep]. apply with_part_unchanged with (p := p); auto.
    unfold set_ep_qos. rewrite Hg, He, Hq. reflexivity.
  Qed.

  Lemma ep_set_immutable : forall q, e_en e = true -> is_consistent (ekind_of sd) q = true ->
      check_immutability (e_q e) q = false ->
      fstep pr f (FSetEpQos sd ph gh eh (Some q)) = (f, RErr E_IMMUTABLE).
  Proof.
    intros q Hen Hq Hi. cbn [fstep]. apply with_part_unchanged with (p := p); auto.
    unfold set_ep_qos. rewrite Hg, He, Hq, Hen, Hi. reflexivity.
  Qed.

  Lemma ep_set_accepted : forall q, is_consistent (ekind_of sd) q = true ->
      (e_en e = false \/ check_immutability (e_q e) q = true) ->
      exists f', fstep pr f (FSetEpQos sd ph gh eh (Some q)) = (f', RUnit) /\
                 fstep pr f' (FGetEpQos sd ph gh eh) = (f', REQ q).
  Proof.
    intros q Hq Hok. cbn [fstep]. rewrite (with_part_eval _ _ _ p Hp).
    unfold set_ep_qos. rewrite Hg, He, Hq. cbn [negb].
    assert (Hc : e_en e && negb (check_immutability (e_q e) q) = false).
    { destruct Hok as [->| ->]; [reflexivity|]. cbn. apply andb_false_r. }
    rewrite Hc. cbn [fst snd]. eexists; split; [reflexivity|].
    set (p' := set_groups sd p _).
    assert (Hp' : find_part (set_parts f (upd_first (is_part ph) (fun _ => p') (f_parts f))) ph = Some p').
    { apply find_part_after with (p := p); auto. apply pa_h_set_groups. }
    apply with_part_unchanged with (p := p'); auto.
    unfold get_ep_qos, p'. rewrite groups_set_groups.
    assert (Hg' := find_upd_first (is_group gh)
                     (fun x => set_group_eps x (upd_first (is_ep eh) (fun y => set_ep_q y q) (g_eps x)))
                     _ g Hg).
    rewrite Hg'.
    - cbn [g_eps set_group_eps].
      rewrite (find_upd_first (is_ep eh) (fun y => set_ep_q y q) _ e He).
      + reflexivity.
      + apply find_first_some in He. destruct He as [_ H]. exact H.
    - apply find_first_some in Hg. destruct Hg as [_ H]. exact H.
  Qed.

  (* any outcome of set_qos is one of the three; a rejection leaves the factory untouched *)
  Lemma ep_set_cases : forall q,
      let r := fstep pr f (FSetEpQos sd ph gh eh (Some q)) in
      (snd r = RUnit) \/ (r = (f, RErr E_INCONSISTENT)) \/ (r = (f, RErr E_IMMUTABLE)).
  Proof.
    intros q. destruct (is_consistent (ekind_of sd) q) eqn:Hq.
    - destruct (e_en e) eqn:Hen; [destruct (check_immutability (e_q e) q) eqn:Hi|].
      + destruct (ep_set_accepted q Hq (or_intror Hi)) as (f' & H & _). left. cbn zeta. rewrite H. reflexivity.
      + right; right. apply ep_set_immutable; auto.
      + destruct (ep_set_accepted q Hq (or_introl Hen)) as (f' & H & _). left. cbn zeta. rewrite H. reflexivity.
    - right; left. apply ep_set_inconsistent; auto.
  Qed.
End Endpoint.

(* creation with an inconsistent QoS: refused, no entity added (a writer whose id counter is exhausted is refused
   with OutOfResources before its QoS is looked at; otherwise it still consumes a counter value) *)
Lemma create_endpoint_inconsistent : forall pr sd p gh name q,
    is_consistent (ekind_of sd) q = false ->
    lookup_topic sd p name <> None -> find_first (is_group gh) (groups sd p) <> None ->
    let r := create_endpoint pr sd p gh name (Some q) in
    (snd r = RErr E_INCONSISTENT \/ (sd = SPub /\ 65535 <= ecounter sd p /\ snd r = RErr E_OUT_OF_RESOURCES)) /\
    pa_pubs (fst r) = pa_pubs p /\ pa_subs (fst r) = pa_subs p /\ pa_topics (fst r) = pa_topics p.
Proof.
  intros pr sd p gh name q Hq Ht Hg. unfold create_endpoint. rewrite Hq.
  destruct (lookup_topic sd p name); [|contradiction].
  destruct (find_first (is_group gh) (groups sd p)); [|contradiction].
  destruct sd; cbn zeta.
  - unfold next_id. destruct (ecounter SPub p <? 65535) eqn:E; cbn; auto.
    split; auto. right. apply Z.ltb_ge in E. repeat split; auto.
  - cbn; auto.
Qed.

(* create_topic with an inconsistent QoS (since 3e9f0b1): refused, nothing changes *)
Lemma create_topic_inconsistent : forall pr f ph name q p,
    find_part f ph = Some p -> is_consistent KTopic q = false ->
    fstep pr f (FCreateTopic ph name (Some q)) = (f, RErr E_INCONSISTENT) \/
    fstep pr f (FCreateTopic ph name (Some q)) = (f, RErr E_PRECONDITION).
Proof.
  intros pr f ph name q p Hp Hq. cbn [fstep].
  destruct (existsb (is_topic name) (pa_topics p)) eqn:E.
  - right. apply with_part_unchanged with (p := p); auto. unfold create_topic. rewrite E. reflexivity.
  - left. apply with_part_unchanged with (p := p); auto. unfold create_topic. rewrite E, Hq. reflexivity.
Qed.

(* ------------------------------------------------------------------ topics *)
Section Topic.
  Variables (pr : profile) (f : factory) (ph : handle) (name : Z) (p : part) (t : topic).
  Hypothesis Hp : find_part f ph = Some p.
  Hypothesis Ht : find_first (is_topic name) (pa_topics p) = Some t.

  Lemma topic_get : fstep pr f (FGetTopicQos ph name) = (f, REQ (t_q t)).
  Proof.
    cbn [fstep]. apply with_part_unchanged with (p := p); auto. unfold get_topic_qos. rewrite Ht. reflexivity.
  Qed.
  Lemma topic_set_inconsistent : forall q, is_consistent KTopic q = false ->
      fstep pr f (FSetTopicQos ph name (Some q)) = (f, RErr E_INCONSISTENT).
  Proof.
    intros q Hq. cbn [fstep]. apply with_part_unchanged with (p := p); auto.
    unfold set_topic_qos. rewrite Ht, Hq. reflexivity.
  Qed.
  Lemma topic_set_immutable : forall q, t_en t = true -> is_consistent KTopic q = true ->
      check_immutability (t_q t) q = false ->
      fstep pr f (FSetTopicQos ph name (Some q)) = (f, RErr E_IMMUTABLE).
  Proof.
    intros q Hen Hq Hi. cbn [fstep]. apply with_part_unchanged with (p := p); auto.
    unfold set_topic_qos. rewrite Ht, Hq, Hen, Hi. reflexivity.
  Qed.
  Lemma topic_set_accepted : forall q, is_consistent KTopic q = true ->
      (t_en t = false \/ check_immutability (t_q t) q = true) ->
      exists f', fstep pr f (FSetTopicQos ph name (Some q)) = (f', RUnit) /\
                 fstep pr f' (FGetTopicQos ph name) = (f', REQ q).
  Proof.
    intros q Hq Hok. cbn [fstep]. rewrite (with_part_eval _ _ _ p Hp).
    unfold set_topic_qos. rewrite Ht, Hq. cbn [negb].
    assert (Hc : t_en t && negb (check_immutability (t_q t) q) = false).
    { destruct Hok as [->| ->]; [reflexivity|]. cbn. apply andb_false_r. }
    rewrite Hc. cbn [fst snd]. eexists; split; [reflexivity|].
    set (p' := set_topics p _).
    assert (Hp' : find_part (set_parts f (upd_first (is_part ph) (fun _ => p') (f_parts f))) ph = Some p').
    { apply find_part_after with (p := p); auto. }
    apply with_part_unchanged with (p := p'); auto.
    unfold get_topic_qos, p'. cbn [pa_topics set_topics].
    rewrite (find_upd_first (is_topic name) (fun x => set_topic_q x q) _ t Ht).
    - reflexivity.
    - apply find_first_some in Ht. destruct Ht as [_ H]. exact H.
  Qed.
End Topic.

(* ------------------------------------------------------------------ publishers and subscribers *)
Section Group.
  Variables (pr : profile) (f : factory) (sd : side) (ph gh : handle) (p : part) (g : group).
  Hypothesis Hp : find_part f ph = Some p.
  Hypothesis Hg : find_first (is_group gh) (groups sd p) = Some g.

  Lemma group_get : fstep pr f (FGetGroupQos sd ph gh) = (f, RGQ (g_q g)).
  Proof.
    cbn [fstep]. apply with_part_unchanged with (p := p); auto. unfold get_group_qos. rewrite Hg. reflexivity.
  Qed.
  Lemma group_set_accepted : forall q,
      (g_en g = false \/ presentation_eqb (g_q g) q = true) ->
      exists f', fstep pr f (FSetGroupQos sd ph gh (Some q)) = (f', RUnit) /\
                 fstep pr f' (FGetGroupQos sd ph gh) = (f', RGQ q).
  Proof.
    intros q Hok. cbn [fstep]. rewrite (with_part_eval _ _ _ p Hp).
    unfold set_group_qos. rewrite Hg.
    assert (Hc : g_en g && negb (presentation_eqb (g_q g) q) = false).
    { destruct Hok as [->| ->]; [reflexivity|cbn; apply andb_false_r]. }
    rewrite Hc. cbn [fst snd]. eexists; split; [reflexivity|].
    set (p' := set_groups sd p _).
    assert (Hp' : find_part (set_parts f (upd_first (is_part ph) (fun _ => p') (f_parts f))) ph = Some p').
    { apply find_part_after with (p := p); auto. apply pa_h_set_groups. }
    apply with_part_unchanged with (p := p'); auto.
    unfold get_group_qos, p'. rewrite groups_set_groups.
    rewrite (find_upd_first (is_group gh) (fun x => set_group_q x q) _ g Hg).
    - reflexivity.
    - apply find_first_some in Hg. destruct Hg as [_ H]. exact H.
  Qed.

  (* publisher (since 5256dfd) and subscriber alike *)
  Lemma group_set_immutable : forall q, g_en g = true -> presentation_eqb (g_q g) q = false ->
      fstep pr f (FSetGroupQos sd ph gh (Some q)) = (f, RErr E_IMMUTABLE).
  Proof.
    intros q Hen Hi. cbn [fstep]. apply with_part_unchanged with (p := p); auto.
    unfold set_group_qos. rewrite Hg, Hen, Hi. reflexivity.
  Qed.
End Group.

(* participant: nothing is immutable or inconsistent *)
Lemma part_set_get : forall pr f ph p q, find_part f ph = Some p ->
    exists f', fstep pr f (FSetPartQos ph (Some q)) = (f', RUnit) /\ fstep pr f' (FGetPartQos ph) = (f', RPQ q).
Proof.
  intros pr f ph p q Hp. cbn [fstep]. rewrite (with_part_eval _ _ _ p Hp). cbn [set_part_qos fst snd].
  eexists; split; [reflexivity|].
  apply with_part_unchanged with (p := set_part_q p q); [|reflexivity].
  apply find_part_after with (p := p); auto.
Qed.

(* ------------------------------------------------------------------ the code's checks are the specification's *)
Definition len_in_range (a : option Z) : Prop := match a with None => True | Some v => 0 <= v <= i32_max end.
Definition qos_in_range (q : eqos) : Prop :=
  len_in_range (q_ms q) /\ len_in_range (q_mspi q) /\ match q_hist q with None => True | Some d => 0 <= d <= u32_max end.

Lemma is_consistent_spec : forall k q, qos_in_range q -> is_consistent k q = spec_consistent k q.
Proof.
  intros k q (Hms & Hmspi & Hh). unfold is_consistent, spec_consistent, hist_fits, length_lt, len_ge, usize_gt_length,
    dk_lt, dur_ge, len_in_range, wrap_u64, two64, i32_max, u32_max in *.
  destruct (q_ms q) as [ms|], (q_mspi q) as [mspi|], (q_hist q) as [d|]; cbn [negb andb orb];
    try rewrite Z.mod_small by lia;
    destruct k; cbn [negb andb orb];
    repeat match goal with
           | |- context [?a <? ?b] => destruct (Z.ltb_spec a b)
           | |- context [?a <=? ?b] => destruct (Z.leb_spec a b)
           | |- context [?a =? 0] => destruct (Z.eqb_spec a 0)
           end; cbn [negb andb orb]; try reflexivity; try lia;
    destruct (q_dl q), (q_sep q); cbn [negb andb orb];
    repeat match goal with
           | |- context [?a <? ?b] => destruct (Z.ltb_spec a b)
           | |- context [?a <=? ?b] => destruct (Z.leb_spec a b)
           end; cbn [negb andb orb]; try reflexivity; try lia.
Qed.

Lemma check_immutability_spec : forall a b, check_immutability a b = spec_imm_same a b.
Proof.
  intros a b. unfold check_immutability, spec_imm_same, durability_ne, liveliness_ne, reliability_ne, dest_order_ne,
    history_ne, resource_limits_ne, ownership_ne.
  destruct (q_dur a =? q_dur b), (q_lk a =? q_lk b), (oz_eqb (q_ll a) (q_ll b)), (q_rel a =? q_rel b),
    (oz_eqb (q_mbt a) (q_mbt b)), (q_ord a =? q_ord b), (oz_eqb (q_hist a) (q_hist b)), (oz_eqb (q_ms a) (q_ms b)),
    (oz_eqb (q_mi a) (q_mi b)), (oz_eqb (q_mspi a) (q_mspi b)), (q_own a =? q_own b); reflexivity.
Qed.

(* ------------------------------------------------------------------ regressions of 5256dfd and 3e9f0b1 on the model *)
Definition P0 : handle := part_handle 0.
Definition q_bad_topic : eqos :=
  mkEQ 0 None (Some 0) 0 None 0 (Some 100000000) 0 (Some 5) None None (Some 3) 0 None 0 0 0 (Some 0) 0 true None.
Definition g_topic_scope : gqos := mkGQ 1 true false 0 0 true.
Lemma fixed_defects_regression : forall pr,
  snd (frun pr init_factory [FCreatePart None; FCreateTopic P0 1 (Some q_bad_topic); FGetTopicQos P0 1;
                             FCreateGroup SPub P0 None; FSetGroupQos SPub P0 (mkH 0 0 0 0 8) (Some g_topic_scope);
                             FGetGroupQos SPub P0 (mkH 0 0 0 0 8)]) =
  [RHandle P0; RErr E_INCONSISTENT; RErr E_DELETED; RHandle (mkH 0 0 0 0 8); RErr E_IMMUTABLE; RGQ default_gqos].
Proof. intros [|]; vm_compute; reflexivity. Qed.
