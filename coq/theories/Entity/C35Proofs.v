(* C35 — for every history of mails: no panic and pairwise distinct handles / GUIDs, unless a counter reached the
   maximum of its type; witnesses for the two ways the property fails inside that class. *)
From DustDDS Require Import Base.Machine Entity.EntityModel Entity.EntityLemmas Entity.HandleInv Entity.HandleStep.
Open Scope Z_scope.

(* ------------------------------------------------------------------ factory invariant *)
Definition finv (f : factory) : Prop :=
  0 <= f_next f <= u32_max /\
  Forall part_inv (f_parts f) /\
  NoDup (map pa_h (f_parts f)) /\
  Forall (fun p => exists i, 0 <= i < f_next f /\ pa_h p = part_handle i) (f_parts f).

Lemma finv_init : finv init_factory.
Proof. unfold finv, init_factory, u32_max; cbn. repeat split; try constructor; lia. Qed.

Lemma part_inv_new : forall i q, 0 <= i -> part_inv (new_part (part_handle i) q).
Proof.
  intros i q Hi. constructor; cbn.
  - exists i; auto.
  - intros [|]; cbn; lia.
  - intros [|]; cbn; lia.
  - lia.
  - intros [|]; apply ginv_nil.
  - split; constructor.
Qed.

Lemma upd_first_map_found : forall {A B} (k : A -> B) (P : A -> bool) l x x',
    find_first P l = Some x -> k x' = k x -> map k (upd_first P (fun _ => x') l) = map k l.
Proof.
  intros A B k P l x x'. induction l as [|y t IH]; cbn; intros Hf Hk; auto.
  destruct (P y).
  - inversion Hf; subst. cbn. rewrite Hk. reflexivity.
  - cbn. rewrite IH; auto.
Qed.
Lemma in_upd_first_cases : forall {A} (P : A -> bool) g l x q,
    find_first P l = Some x -> In q l -> q = x \/ In q (upd_first P g l).
Proof.
  intros A P g l x q. induction l as [|y t IH]; cbn; intros Hf Hq; [contradiction|].
  destruct (P y).
  - inversion Hf; subst. destruct Hq as [<-|Hq]; [auto|right; right; auto].
  - destruct Hq as [<-|Hq]; [right; left; auto|]. destruct (IH Hf Hq); auto. right; right; auto.
Qed.
Lemma in_upd_first_new : forall {A} (P : A -> bool) (x' : A) l x,
    find_first P l = Some x -> In x' (upd_first P (fun _ => x') l).
Proof.
  intros A P x' l x. induction l as [|y t IH]; cbn; intros Hf; [discriminate|].
  destruct (P y); [left; auto|right; auto].
Qed.
Lemma forall_upd_first_const : forall {A} (Q : A -> Prop) (P : A -> bool) (x' : A) l,
    Forall Q l -> Q x' -> Forall Q (upd_first P (fun _ => x') l).
Proof. intros. apply forall_upd_first; auto. Qed.

Lemma existsb_false_in : forall {A} (P : A -> bool) l x, existsb P l = false -> In x l -> P x = false.
Proof.
  intros A P l x H Hin. destruct (P x) eqn:E; auto.
  assert (existsb P l = true) by (apply existsb_exists; exists x; auto). congruence.
Qed.
Lemma existsb_false_all : forall {A} (P : A -> bool) l, (forall x, In x l -> P x = false) -> existsb P l = false.
Proof.
  intros A P l H. destruct (existsb P l) eqn:E; auto. apply existsb_exists in E. destruct E as (x & Hx & Hp).
  rewrite (H x Hx) in Hp; discriminate.
Qed.

(* one participant-level operation lifted to the factory *)
Lemma with_part_step : forall f ph k f' r,
    preserves k -> finv f -> with_part f ph k = (f', r) -> any_ovf f' = false ->
    finv f' /\ r <> RPanic /\ any_ovf f = false.
Proof.
  intros f ph k f' r Hk Hinv Hw Ho. unfold with_part in Hw.
  destruct (find_part f ph) as [p|] eqn:Hf.
  2:{ inversion Hw; subst. split; [exact Hinv|split; [discriminate|exact Ho]]. }
  destruct Hinv as (Hn & Hp & Hd & Hi).
  destruct (k p) as [p' r'] eqn:Hkp. inversion Hw; subst; clear Hw.
  unfold find_part in Hf. destruct (find_first_some _ _ _ Hf) as [Hin Hisp].
  unfold any_ovf in Ho. cbn [f_ovf f_parts set_parts] in Ho. apply orb_false_iff in Ho. destruct Ho as [Hfo Hpo].
  assert (Hp'o : pa_ovf p' = false).
  { eapply existsb_false_in; [exact Hpo|]. eapply in_upd_first_new; eauto. }
  rewrite Forall_forall in Hp. specialize (Hk p (Hp p Hin)). rewrite Hkp in Hk. cbn [fst snd] in Hk.
  destruct (Hk Hp'o) as (Hi' & Hh' & Hpo' & Hr).
  split; [|split; auto].
  - unfold finv. cbn [f_next f_parts set_parts]. repeat split; try tauto.
    + apply forall_upd_first_const; auto. apply Forall_forall; auto.
    + rewrite (upd_first_map_found pa_h _ _ p p' Hf Hh'). auto.
    + apply forall_upd_first_const; auto. rewrite Forall_forall in Hi. rewrite Hh'. apply Hi; auto.
  - unfold any_ovf. rewrite Hfo. cbn. apply existsb_false_all. intros q Hq.
    destruct (in_upd_first_cases (is_part ph) (fun _ => p') _ p q Hf Hq) as [->|Hq']; auto.
    eapply existsb_false_in; eauto.
Qed.

Lemma fstep_inv : forall pr f o f' r,
    finv f -> fstep pr f o = (f', r) -> any_ovf f' = false ->
    finv f' /\ r <> RPanic /\ any_ovf f = false.
Proof.
  intros pr f o f' r Hinv Hs Ho.
  destruct o; cbn [fstep] in Hs;
    try (eapply with_part_step; [|exact Hinv|exact Hs|exact Ho]).
  - (* factory qos *) inversion Hs; subst. destruct Hinv as (H1 & H2 & H3 & H4).
    split; [|split; [discriminate|exact Ho]]. repeat split; auto; tauto.
  - (* create participant *)
    unfold create_part in Hs. inversion Hs; subst; clear Hs. destruct Hinv as (Hn & Hp & Hd & Hi).
    unfold any_ovf in Ho. cbn [f_ovf f_parts] in Ho. apply orb_false_iff in Ho. destruct Ho as [Ho1 Ho2].
    apply orb_false_iff in Ho1. destruct Ho1 as [Hfo Hmax]. apply Z.eqb_neq in Hmax.
    rewrite existsb_app in Ho2. apply orb_false_iff in Ho2. destruct Ho2 as [Ho2 _].
    assert (Hw : wrap_u32 (f_next f + 1) = f_next f + 1).
    { unfold wrap_u32, two32, u32_max in *. rewrite Z.mod_small; lia. }
    assert (Hp1 : forall qos, let p1 := (if f_auto f then fst (enable_part (new_part (part_handle (f_next f)) qos))
                                         else new_part (part_handle (f_next f)) qos) in
                  part_inv p1 /\ pa_h p1 = part_handle (f_next f)).
    { intros qos. cbn zeta. destruct (f_auto f).
      - destruct (ks_enable_part (new_part (part_handle (f_next f)) qos)) as [Hs _].
        split; [eapply part_inv_skel; [exact Hs|apply part_inv_new; lia]|].
        unfold skel in Hs. inversion Hs; auto.
      - split; [apply part_inv_new; lia|reflexivity]. }
    specialize (Hp1 (match q with Some x => x | None => f_defp f end)). cbn zeta in Hp1.
    match type of Hp1 with part_inv ?x /\ _ => set (p1 := x) in * end.
    destruct Hp1 as [Hp1 Hh1].
    split; [|split; [discriminate|unfold any_ovf; rewrite Hfo, Ho2; reflexivity]].
    unfold finv. cbn [f_next f_parts]. rewrite Hw.
    match goal with |- context [f_parts f ++ [?x]] => change x with p1 end.
    repeat split; try (unfold u32_max in *; lia).
    + apply Forall_app; split; auto.
    + rewrite map_app. cbn [map]. rewrite Hh1. apply nodup_app; auto.
      * constructor; [intros []|constructor].
      * intros x Hx [<-|[]]. apply in_map_iff in Hx. destruct Hx as (p & Hph & Hin).
        rewrite Forall_forall in Hi. destruct (Hi p Hin) as (i & Hi1 & Hi2). rewrite Hi2 in Hph.
        unfold part_handle in Hph. inversion Hph. lia.
    + apply Forall_app; split.
      * eapply Forall_impl; [|exact Hi]. intros p (i & Hi1 & Hi2). exists i; split; auto; lia.
      * constructor; [|constructor]. exists (f_next f); split; auto; lia.
  - (* delete participant *)
    unfold delete_part in Hs. destruct (find_part f ph) as [p|] eqn:Hf.
    2:{ inversion Hs; subst. split; [exact Hinv|split; [discriminate|exact Ho]]. }
    destruct (negb (part_is_empty p)).
    { inversion Hs; subst. split; [exact Hinv|split; [discriminate|exact Ho]]. }
    inversion Hs; subst; clear Hs. destruct Hinv as (Hn & Hp & Hd & Hi).
    unfold any_ovf in Ho. cbn [f_ovf f_parts] in Ho. apply orb_false_iff in Ho. destruct Ho as [Ho1 Ho2].
    apply orb_false_iff in Ho1. destruct Ho1 as [Hfo Hpo].
    split; [|split; [discriminate|]].
    + unfold finv. cbn [f_next f_parts]. repeat split; try tauto.
      * apply forall_rem_first; auto.
      * apply nodup_map_rem_first; auto.
      * apply forall_rem_first; auto.
    + unfold any_ovf. rewrite Hfo. cbn. apply existsb_false_all. intros q Hq.
      unfold find_part in Hf.
      (* q is the removed one or still there *)
      assert (Hcase : q = p \/ In q (rem_first (is_part ph) (f_parts f))).
      { clear - Hf Hq. induction (f_parts f) as [|y t IH]; cbn in *; [contradiction|].
        destruct (is_part ph y).
        - inversion Hf; subst. destruct Hq; auto.
        - destruct Hq as [<-|Hq]; [right; left; auto|]. destruct (IH Hf Hq); auto. right; right; auto. }
      destruct Hcase as [->|Hq']; auto. eapply existsb_false_in; eauto.
  - apply pres_create_group.
  - apply pres_delete_group.
  - apply pres_create_topic.
  - apply pres_delete_topic.
  - apply pres_create_cft.
  - apply keeps_preserves; [apply ks_delete_cft|intros; discriminate].
  - apply pres_create_endpoint.
  - apply pres_delete_endpoint.
  - apply pres_delete_contained.
  - apply keeps_preserves; [apply ks_get_part_qos|intros; discriminate].
  - apply keeps_preserves; [apply ks_set_part_qos|intros; discriminate].
  - apply keeps_preserves; [apply ks_enable_part|intros p; unfold enable_part; destruct (pa_en p); discriminate].
  - apply keeps_preserves; [apply ks_get_group_qos|].
    intros p; unfold get_group_qos; destruct (find_first (is_group gh) (groups sd p)); discriminate.
  - apply keeps_preserves; [apply ks_set_group_qos|].
    intros p; unfold set_group_qos; destruct (find_first (is_group gh) (groups sd p)); [|discriminate].
    match goal with |- context [if ?c then _ else _] => destruct c end; discriminate.
  - apply keeps_preserves; [apply ks_get_ep_qos|].
    intros p; unfold get_ep_qos; destruct (find_first (is_group gh) (groups sd p)); [|discriminate].
    destruct (find_first (is_ep eh) (g_eps g)); discriminate.
  - apply keeps_preserves; [apply ks_set_ep_qos|].
    intros p; unfold set_ep_qos; destruct (find_first (is_group gh) (groups sd p)); [|discriminate].
    destruct (find_first (is_ep eh) (g_eps g)); [|discriminate].
    repeat (match goal with |- context [if ?c then _ else _] => destruct c end; try discriminate).
  - apply keeps_preserves; [apply ks_enable_ep|].
    intros p; unfold enable_ep; destruct (find_first (is_group gh) (groups sd p)); [|discriminate].
    destruct (find_first (is_ep eh) (g_eps g)); discriminate.
  - apply keeps_preserves; [apply ks_status_ep|].
    intros p; unfold status_ep; destruct (find_first (is_group gh) (groups sd p)); [|discriminate].
    destruct (find_first (is_ep eh) (g_eps g)); discriminate.
  - apply keeps_preserves; [apply ks_get_topic_qos|].
    intros p; unfold get_topic_qos; destruct (find_first (is_topic name) (pa_topics p)); discriminate.
  - apply keeps_preserves; [apply ks_set_topic_qos|].
    intros p; unfold set_topic_qos; destruct (find_first (is_topic name) (pa_topics p)); [|discriminate].
    repeat (match goal with |- context [if ?c then _ else _] => destruct c end; try discriminate).
  - apply keeps_preserves; [apply ks_enable_topic|].
    intros p; unfold enable_topic; destruct (find_first (is_topic name) (pa_topics p)); discriminate.
Qed.

(* ------------------------------------------------------------------ the ghost flag only goes up *)
Definition mono (k : part -> part * ret) : Prop := forall p, pa_ovf (fst (k p)) = false -> pa_ovf p = false.

Lemma mono_keeps : forall k, keeps_skel k -> mono k.
Proof. intros k H p Ho. destruct (H p) as [_ E]. congruence. Qed.

Lemma mono_create_group : forall pr sd q, mono (fun p => create_group pr sd p q).
Proof.
  intros pr sd q p H. unfold create_group in H.
  destruct (panics pr (bump 255 (gcounter sd p))); cbn [fst] in H;
    [destruct sd; cbn in H|rewrite gs_ovf in H]; apply orb_false_iff in H; tauto.
Qed.
Lemma mono_delete_group : forall sd parent gh, mono (fun p => delete_group sd p parent gh).
Proof.
  intros sd parent gh p H. unfold delete_group in H.
  destruct (negb (heqb parent (pa_h p))); auto.
  destruct (find_first (is_group gh) (groups sd p)); auto.
  destruct (negb (is_nil (g_eps g))); auto. cbn [fst] in H. rewrite ps_ovf in H; auto.
Qed.
Lemma mono_create_topic : forall pr name q, mono (fun p => create_topic pr p name q).
Proof.
  intros pr name q p H. unfold create_topic in H.
  destruct (existsb (is_topic name) (pa_topics p)); auto.
  destruct (panics pr (bump 65535 (pa_tc p))).
  - cbn in H. apply orb_false_iff in H; tauto.
  - match type of H with pa_ovf (fst (if ?en then _ else _)) = _ =>
      destruct (create_topic_tail
                  (set_topics (set_tcounter p (bump 65535 (pa_tc p)))
                     (pa_topics (set_tcounter p (bump 65535 (pa_tc p))) ++
                      [mkTp (child_handle (pa_h p) 0 (lo8 (pa_tc p)) (hi8 (pa_tc p)) KIND_TOPIC) name false
                            (match q with Some x => x | None => pa_deftopic p end)]))
                  name (child_handle (pa_h p) 0 (lo8 (pa_tc p)) (hi8 (pa_tc p)) KIND_TOPIC) en)
        as (_ & Hov & _) end.
    cbn zeta in Hov. rewrite Hov in H. cbn in H. apply orb_false_iff in H; tauto.
Qed.
Lemma mono_delete_topic : forall parent name, mono (fun p => delete_topic p parent name).
Proof.
  intros parent name p H. unfold delete_topic in H.
  destruct (negb (heqb (pa_h p) parent)); auto.
  destruct (find_first (is_topic name) (pa_topics p)); auto.
  destruct (existsb (uses_topic (t_name t)) (pa_pubs p)); auto.
  destruct (existsb (uses_topic (t_name t)) (pa_subs p)); auto.
Qed.
Lemma mono_create_cft : forall pr name related, mono (fun p => create_cft pr p name related).
Proof.
  intros pr name related p H. unfold create_cft in H.
  destruct (negb (existsb (is_topic related) (pa_topics p))); auto.
  destruct (panics pr (bump 65535 (pa_tc p))); cbn in H; apply orb_false_iff in H; tauto.
Qed.
Lemma mono_create_endpoint : forall pr sd gh name q, mono (fun p => create_endpoint pr sd p gh name q).
Proof.
  intros pr sd gh name q p H. destruct (pa_ovf p) eqn:Hp; auto.
  assert (E : pa_ovf (fst (create_endpoint pr sd p gh name q)) = true); [|cbn beta in H; congruence].
  clear H. unfold create_endpoint, push_endpoint.
  repeat match goal with
         | |- context [match ?x with _ => _ end] => destruct x
         end; cbn [fst]; rewrite ?ps_ovf, ?es0_ovf, ?Hp; reflexivity.
Qed.
Lemma mono_delete_endpoint : forall sd gh eh, mono (fun p => delete_endpoint sd p gh eh).
Proof.
  intros sd gh eh p H. unfold delete_endpoint in H.
  destruct (find_first (is_group gh) (groups sd p)); auto.
  destruct (find_first (is_ep eh) (g_eps g)); auto. cbn [fst] in H. rewrite ps_ovf in H; auto.
Qed.
Lemma mono_delete_contained : mono delete_contained.
Proof. intros p H. exact H. Qed.

Lemma with_part_mono : forall f ph k f' r,
    mono k -> with_part f ph k = (f', r) -> any_ovf f' = false -> any_ovf f = false.
Proof.
  intros f ph k f' r Hk Hw Ho. unfold with_part in Hw.
  destruct (find_part f ph) as [p|] eqn:Hf; [|inversion Hw; subst; auto].
  destruct (k p) as [p' r'] eqn:Hkp. inversion Hw; subst; clear Hw.
  unfold any_ovf in *. cbn [f_ovf f_parts set_parts] in Ho. apply orb_false_iff in Ho. destruct Ho as [Hfo Hpo].
  rewrite Hfo. cbn. apply existsb_false_all. intros q Hq. unfold find_part in Hf.
  destruct (in_upd_first_cases (is_part ph) (fun _ => p') _ p q Hf Hq) as [->|Hq'].
  - apply Hk. rewrite Hkp. cbn. eapply existsb_false_in; [exact Hpo|]. eapply in_upd_first_new; eauto.
  - eapply existsb_false_in; eauto.
Qed.

Lemma fstep_ovf_mono : forall pr f o f' r, fstep pr f o = (f', r) -> any_ovf f' = false -> any_ovf f = false.
Proof.
  intros pr f o f' r Hs Ho. destruct o; cbn [fstep] in Hs;
    try (eapply with_part_mono; [|exact Hs|exact Ho]).
  - inversion Hs; subst. exact Ho.
  - unfold create_part in Hs. inversion Hs; subst; clear Hs. unfold any_ovf in *. cbn [f_ovf f_parts] in Ho.
    apply orb_false_iff in Ho. destruct Ho as [Ho1 Ho2]. apply orb_false_iff in Ho1. destruct Ho1 as [Ho1 _].
    rewrite existsb_app in Ho2. apply orb_false_iff in Ho2. destruct Ho2 as [Ho2 _]. rewrite Ho1, Ho2. reflexivity.
  - unfold delete_part in Hs. destruct (find_part f ph) as [p|] eqn:Hf; [|inversion Hs; subst; auto].
    destruct (negb (part_is_empty p)); [inversion Hs; subst; auto|].
    inversion Hs; subst; clear Hs. unfold any_ovf in *. cbn [f_ovf f_parts] in Ho.
    apply orb_false_iff in Ho. destruct Ho as [Ho1 Ho2]. apply orb_false_iff in Ho1. destruct Ho1 as [Hfo Hp].
    rewrite Hfo. cbn. apply existsb_false_all. intros x Hx. unfold find_part in Hf.
    assert (Hcase : x = p \/ In x (rem_first (is_part ph) (f_parts f))).
    { clear - Hf Hx. induction (f_parts f) as [|y t IH]; cbn in *; [contradiction|].
      destruct (is_part ph y).
      - inversion Hf; subst. destruct Hx; auto.
      - destruct Hx as [<-|Hx]; [right; left; auto|]. destruct (IH Hf Hx); auto. right; right; auto. }
    destruct Hcase as [->|Hx']; auto. eapply existsb_false_in; eauto.
  - apply mono_create_group.
  - apply mono_delete_group.
  - apply mono_create_topic.
  - apply mono_delete_topic.
  - apply mono_create_cft.
  - apply mono_keeps, ks_delete_cft.
  - apply mono_create_endpoint.
  - apply mono_delete_endpoint.
  - apply mono_delete_contained.
  - apply mono_keeps, ks_get_part_qos.
  - apply mono_keeps, ks_set_part_qos.
  - apply mono_keeps, ks_enable_part.
  - apply mono_keeps, ks_get_group_qos.
  - apply mono_keeps, ks_set_group_qos.
  - apply mono_keeps, ks_get_ep_qos.
  - apply mono_keeps, ks_set_ep_qos.
  - apply mono_keeps, ks_enable_ep.
  - apply mono_keeps, ks_status_ep.
  - apply mono_keeps, ks_get_topic_qos.
  - apply mono_keeps, ks_set_topic_qos.
  - apply mono_keeps, ks_enable_topic.
Qed.

(* ------------------------------------------------------------------ histories *)
Definition is_rpanic (r : ret) : bool := match r with RPanic => true | _ => false end.
Lemma frun_cons : forall pr f o t f1 r,
    fstep pr f o = (f1, r) ->
    frun pr f (o :: t) = if is_rpanic r then (f1, [RPanic])
                         else (fst (frun pr f1 t), r :: snd (frun pr f1 t)).
Proof.
  intros pr f o t f1 r H. cbn [frun]. rewrite H. destruct r; cbn [is_rpanic]; try reflexivity;
    destruct (frun pr f1 t); reflexivity.
Qed.

Lemma frun_ovf_mono : forall pr ops f, any_ovf (fst (frun pr f ops)) = false -> any_ovf f = false.
Proof.
  intros pr ops. induction ops as [|o t IH]; intros f H; [exact H|].
  destruct (fstep pr f o) as [f1 r] eqn:Hs. rewrite (frun_cons _ _ _ _ _ _ Hs) in H.
  eapply fstep_ovf_mono; [exact Hs|]. destruct (is_rpanic r); cbn [fst] in H; auto.
Qed.

Lemma frun_inv : forall pr ops f,
    finv f -> any_ovf (fst (frun pr f ops)) = false ->
    finv (fst (frun pr f ops)) /\ ~ In RPanic (snd (frun pr f ops)).
Proof.
  intros pr ops. induction ops as [|o t IH]; intros f Hinv Ho.
  - cbn. split; auto.
  - destruct (fstep pr f o) as [f1 r] eqn:Hs. rewrite (frun_cons _ _ _ _ _ _ Hs) in *.
    destruct (is_rpanic r) eqn:Hr; cbn [fst snd] in *.
    + exfalso. destruct r; try discriminate.
      destruct (fstep_inv pr f o f1 RPanic Hinv Hs Ho) as (_ & Hn & _). congruence.
    + assert (Hf1 : any_ovf f1 = false) by (eapply frun_ovf_mono; eauto).
      destruct (fstep_inv pr f o f1 r Hinv Hs Hf1) as (Hinv1 & Hnp & _).
      destruct (IH f1 Hinv1 Ho) as [H1 H2]. split; auto.
      intros [E|E]; [congruence|contradiction].
Qed.

(* ------------------------------------------------------------------ from the invariant to distinct handles *)
Definition gsk_handles (ge : gsk) : list handle := fst ge :: map fst (snd ge).

Lemma group_handles_proj : forall g, group_handles g = gsk_handles (gproj g).
Proof. intros g. unfold group_handles, gsk_handles, gproj; cbn. rewrite map_map. reflexivity. Qed.
Lemma flat_group_handles_proj : forall gs, flat_map group_handles gs = flat_map gsk_handles (map gproj gs).
Proof. induction gs as [|g t IH]; cbn [flat_map map]; auto. rewrite IH, group_handles_proj. reflexivity. Qed.

Lemma gsk_facts : forall ph gk ek gc ec ge,
    gshape ph gk gc (fst ge) -> Forall (eshape ph (fst ge) ek ec) (snd ge) ->
    forall h, In h (gsk_handles ge) ->
              h_inst h = h_inst ph /\ h_k0 h = h_k0 (fst ge) /\ (h_kind h = gk \/ h_kind h = ek).
Proof.
  intros ph gk ek gc ec ge (c & Hc & Hg) Hes h [<-|Hh].
  - rewrite Hg. cbn. auto.
  - apply in_map_iff in Hh. destruct Hh as (e & <- & Hin). rewrite Forall_forall in Hes.
    destruct (Hes e Hin) as (d & Hd & He & _). rewrite He. cbn. auto.
Qed.

Lemma ginv_nodup : forall ph gk ek gc ec G,
    gk <> ek -> ginv ph gk ek gc ec G -> NoDup (flat_map gsk_handles G).
Proof.
  intros ph gk ek gc ec G Hk [Hn Hf]. induction G as [|ge G IH]; cbn; [constructor|].
  inversion Hn as [|? ? Hnotin Hn']; subst. inversion Hf as [|? ? (Hgs & Hnd & Hes) Hf']; subst.
  change (fst ge :: map fst (snd ge) ++ flat_map gsk_handles G) with (gsk_handles ge ++ flat_map gsk_handles G).
  apply nodup_app.
  - (* inside one group *)
    unfold gsk_handles. constructor; auto. intros Hin. apply in_map_iff in Hin. destruct Hin as (e & He & Hin).
    rewrite Forall_forall in Hes. destruct (Hes e Hin) as (d & _ & Hh & _).
    destruct Hgs as (c & _ & Hg). rewrite Hh, Hg in He. unfold child_handle in He. inversion He. congruence.
  - apply IH; auto.
  - (* two groups: different first key byte *)
    intros h Hh Hh'. apply in_flat_map in Hh'. destruct Hh' as (ge' & Hin' & Hh').
    rewrite Forall_forall in Hf'. destruct (Hf' ge' Hin') as (Hgs' & _ & Hes').
    destruct (gsk_facts ph gk ek gc ec ge Hgs Hes h Hh) as (_ & Hk0 & _).
    destruct (gsk_facts ph gk ek gc ec ge' Hgs' Hes' h Hh') as (_ & Hk0' & _).
    apply Hnotin. destruct Hgs as (c & _ & Hg). destruct Hgs' as (c' & _ & Hg').
    apply in_map_iff. exists ge'. split; auto.
    rewrite Hg, Hg' in *. cbn in Hk0, Hk0'. rewrite Hk0 in Hk0'. subst. reflexivity.
Qed.

Lemma ginv_facts : forall ph gk ek gc ec G, ginv ph gk ek gc ec G ->
    forall h, In h (flat_map gsk_handles G) -> h_inst h = h_inst ph /\ (h_kind h = gk \/ h_kind h = ek).
Proof.
  intros ph gk ek gc ec G [_ Hf] h Hh. apply in_flat_map in Hh. destruct Hh as (ge & Hin & Hh).
  rewrite Forall_forall in Hf. destruct (Hf ge Hin) as (Hgs & _ & Hes).
  destruct (gsk_facts ph gk ek gc ec ge Hgs Hes h Hh) as (H1 & _ & H2). auto.
Qed.

Lemma part_handles_facts : forall p, part_inv p -> forall h, In h (part_handles p) -> h_inst h = h_inst (pa_h p).
Proof.
  intros p Hi h Hh. unfold part_handles in Hh. destruct Hh as [<-|Hh]; auto.
  rewrite !in_app_iff in Hh. destruct Hh as [Hh|[Hh|Hh]].
  - rewrite flat_group_handles_proj in Hh. apply (ginv_facts _ _ _ _ _ _ (pi_groups _ Hi SPub) h Hh).
  - rewrite flat_group_handles_proj in Hh. apply (ginv_facts _ _ _ _ _ _ (pi_groups _ Hi SSub) h Hh).
  - destruct (pi_topics _ Hi) as [_ Hf]. rewrite Forall_forall in Hf. destruct (Hf h Hh) as (c & _ & ->). reflexivity.
Qed.

Lemma part_handles_nodup : forall p, part_inv p -> NoDup (part_handles p).
Proof.
  intros p Hi. unfold part_handles.
  destruct (pi_self _ Hi) as (i & _ & Hself).
  assert (HP := ginv_facts _ _ _ _ _ _ (pi_groups _ Hi SPub)).
  assert (HS := ginv_facts _ _ _ _ _ _ (pi_groups _ Hi SSub)).
  destruct (pi_topics _ Hi) as [HTn HTf]. rewrite Forall_forall in HTf.
  rewrite !flat_group_handles_proj. fold (sproj SPub p) (sproj SSub p) (tproj p).
  constructor.
  - rewrite !in_app_iff. rewrite Hself. intros [H|[H|H]].
    + destruct (HP _ H) as [_ [K|K]]; cbn in K; discriminate.
    + destruct (HS _ H) as [_ [K|K]]; cbn in K; discriminate.
    + destruct (HTf _ H) as (c & _ & K). inversion K.
  - apply nodup_app; [|apply nodup_app|].
    + eapply ginv_nodup; [|apply (pi_groups _ Hi SPub)]; cbn; discriminate.
    + eapply ginv_nodup; [|apply (pi_groups _ Hi SSub)]; cbn; discriminate.
    + exact HTn.
    + intros h H1 H2. destruct (HS _ H1) as [_ [K|K]]; destruct (HTf _ H2) as (c & _ & E); rewrite E in K; cbn in K;
        discriminate.
    + intros h H1 H2. rewrite in_app_iff in H2. destruct (HP _ H1) as [_ K1]. destruct H2 as [H2|H2].
      * destruct (HS _ H2) as [_ K2].
        cbv [group_kind ep_kind KIND_WRITER_GROUP KIND_READER_GROUP KIND_WRITER_WITH_KEY KIND_READER_WITH_KEY] in K1, K2.
        lia.
      * destruct (HTf _ H2) as (c & _ & E). rewrite E in K1. cbn in K1. destruct K1; discriminate.
Qed.

Lemma all_handles_nodup : forall f, finv f -> NoDup (all_handles f).
Proof.
  intros f (_ & Hp & Hd & _). unfold all_handles. induction (f_parts f) as [|p t IH]; cbn [flat_map]; [constructor|].
  cbn [map] in Hd. inversion Hp; subst. inversion Hd; subst. apply nodup_app.
  - apply part_handles_nodup; auto.
  - apply IH; auto.
  - intros h Hh Hh'. apply in_flat_map in Hh'. destruct Hh' as (p' & Hin & Hh').
    rewrite Forall_forall in H2.
    pose proof (part_handles_facts p H1 h Hh) as E1. pose proof (part_handles_facts p' (H2 p' Hin) h Hh') as E2.
    destruct (pi_self _ H1) as (i & _ & Ei). destruct (pi_self _ (H2 p' Hin)) as (i' & _ & Ei').
    apply H3. apply in_map_iff. exists p'. split; auto.
    rewrite Ei, Ei' in *. cbn in E1, E2. rewrite E1 in E2. subst. reflexivity.
Qed.

(* GUIDs of the RTPS writers/readers: the endpoint handles again *)
Lemma guid_is_handle : forall f, finv f -> forall p g e,
    In p (f_parts f) -> In g (pa_pubs p) \/ In g (pa_subs p) -> In e (g_eps g) -> e_guid e = e_h e.
Proof.
  intros f (_ & Hp & _) p g e Hpin Hg He. rewrite Forall_forall in Hp. specialize (Hp p Hpin).
  assert (H : forall sd, In g (groups sd p) -> e_guid e = e_h e).
  { intros sd Hin. destruct (pi_groups _ Hp sd) as [_ Hf]. rewrite Forall_forall in Hf.
    assert (Hin' : In (gproj g) (sproj sd p)) by (apply in_map; auto).
    destruct (Hf _ Hin') as (_ & _ & Hes). rewrite Forall_forall in Hes.
    assert (Hine : In (eproj e) (snd (gproj g))) by (apply in_map; auto).
    destruct (Hes _ Hine) as (c & _ & _ & Hsnd). exact Hsnd. }
  destruct Hg; [apply (H SPub)|apply (H SSub)]; auto.
Qed.

Definition all_guids (f : factory) : list handle := flat_map part_guids (f_parts f).

Lemma nodup_flat_map_tail : forall {A B} (a : A -> B) (b : A -> list B) l,
    NoDup (flat_map (fun x => a x :: b x) l) -> NoDup (flat_map b l).
Proof.
  induction l as [|x t IH]; cbn; intros H; [constructor|].
  inversion H as [|? ? Hn Hd]; subst. apply nodup_app_inv in Hd. destruct Hd as (H1 & H2 & H3).
  apply nodup_app; auto. intros y Hy Hy'. apply (H3 y Hy).
  apply in_flat_map in Hy'. destruct Hy' as (z & Hz & Hy'). apply in_flat_map. exists z; split; auto. right; auto.
Qed.

Lemma part_guids_eq : forall p, part_inv p ->
    part_guids p = flat_map (fun g => map e_h (g_eps g)) (pa_pubs p) ++ flat_map (fun g => map e_h (g_eps g)) (pa_subs p).
Proof.
  intros p Hi. unfold part_guids.
  assert (H : forall sd, flat_map (fun g => map e_guid (g_eps g)) (groups sd p)
                         = flat_map (fun g => map e_h (g_eps g)) (groups sd p)).
  { intros sd. destruct (pi_groups _ Hi sd) as [_ Hf]. unfold sproj in Hf. rewrite Forall_forall in Hf.
    induction (groups sd p) as [|g t IH]; cbn; auto. rewrite IH.
    - f_equal. destruct (Hf (gproj g) (or_introl eq_refl)) as (_ & _ & Hes). rewrite Forall_forall in Hes.
      apply map_ext_in. intros e He. destruct (Hes (eproj e) (in_map eproj _ _ He)) as (c & _ & _ & Hs). exact Hs.
    - intros x Hx. apply Hf. right; auto. }
  pose proof (H SPub) as HP. pose proof (H SSub) as HS. cbn [groups] in HP, HS. rewrite HP, HS. reflexivity.
Qed.

Lemma all_guids_nodup : forall f, finv f -> NoDup (all_guids f).
Proof.
  intros f Hinv. pose proof (all_handles_nodup f Hinv) as Hn. destruct Hinv as (_ & Hp & _).
  unfold all_guids, all_handles in *. induction (f_parts f) as [|p t IH]; cbn [flat_map] in *; [constructor|].
  inversion Hp; subst. apply nodup_app_inv in Hn. destruct Hn as (Hn1 & Hn2 & Hn3).
  assert (Hsub : forall h, In h (part_guids p) -> In h (part_handles p)).
  { intros h Hh. rewrite (part_guids_eq p H1) in Hh. unfold part_handles. right. rewrite !in_app_iff.
    rewrite in_app_iff in Hh. destruct Hh as [Hh|Hh]; [left|right; left];
      apply in_flat_map in Hh; destruct Hh as (g & Hg & Hh); apply in_flat_map; exists g; split; auto; right; auto. }
  apply nodup_app.
  - rewrite (part_guids_eq p H1). unfold part_handles in Hn1. inversion Hn1 as [|? ? _ Hn1']; subst.
    apply nodup_app_inv in Hn1'. destruct Hn1' as (Ha & Hb & Hc). apply nodup_app_inv in Hb. destruct Hb as (Hb & _ & _).
    apply nodup_app.
    + apply (nodup_flat_map_tail g_h (fun g => map e_h (g_eps g))). exact Ha.
    + apply (nodup_flat_map_tail g_h (fun g => map e_h (g_eps g))). exact Hb.
    + intros h H1' H2'. apply (Hc h).
      * apply in_flat_map in H1'. destruct H1' as (g & Hg & Hh). apply in_flat_map. exists g; split; auto. right; auto.
      * rewrite in_app_iff. left. apply in_flat_map in H2'. destruct H2' as (g & Hg & Hh). apply in_flat_map.
        exists g; split; auto. right; auto.
  - apply IH; auto.
  - intros h Hh Hh'. apply (Hn3 h (Hsub h Hh)).
    apply in_flat_map in Hh'. destruct Hh' as (p' & Hin & Hh'). apply in_flat_map. exists p'. split; auto.
    rewrite Forall_forall in H2. specialize (H2 p' Hin).
    rewrite (part_guids_eq p' H2) in Hh'. unfold part_handles. right. rewrite !in_app_iff.
    rewrite in_app_iff in Hh'. destruct Hh' as [Hh'|Hh']; [left|right; left];
      apply in_flat_map in Hh'; destruct Hh' as (g & Hg & Hx); apply in_flat_map; exists g; split; auto; right; auto.
Qed.

(* ------------------------------------------------------------------ the two theorems and their refutations *)
Theorem no_panic_and_distinct : forall pr ops,
    let f := fst (frun pr init_factory ops) in
    any_ovf f = false ->
    ~ In RPanic (snd (frun pr init_factory ops)) /\ NoDup (all_handles f) /\ NoDup (all_guids f).
Proof.
  intros pr ops f Ho. destruct (frun_inv pr ops init_factory finv_init Ho) as [Hi Hn].
  split; auto. split; [apply all_handles_nodup|apply all_guids_nodup]; auto.
Qed.

(* Debug: the 256th publisher panics the worker *)
Fixpoint repeat_op (o : fop) (n : nat) : list fop := match n with O => [] | S k => o :: repeat_op o k end.
Definition pubs_256 : list fop := FCreatePart None :: repeat_op (FCreateGroup SPub (part_handle 0) None) 256.
Lemma debug_panics_at_256th_publisher :
  nth 256 (snd (frun Debug init_factory pubs_256)) RUnit = RPanic /\
  length (snd (frun Debug init_factory pubs_256)) = 257%nat.
Proof. vm_compute. split; reflexivity. Qed.

(* Release: the 257th publisher gets the handle of the first one, which is still alive *)
Definition pubs_257 : list fop := FCreatePart None :: repeat_op (FCreateGroup SPub (part_handle 0) None) 257.
Lemma release_duplicates_handle_at_257th_publisher :
  let r := frun Release init_factory pubs_257 in
  ~ In RPanic (snd r) /\ nth 1 (snd r) RUnit = nth 257 (snd r) RUnit /\
  nth 1 (snd r) RUnit = RHandle (mkH 0 0 0 0 8) /\ ~ NoDup (all_handles (fst r)).
Proof.
  vm_compute. split; [|split; [reflexivity|split; [reflexivity|]]].
  - intros H. repeat (destruct H as [H|H]; [discriminate|]). exact H.
  - intros H. inversion H as [|? ? _ H1]; subst. inversion H1 as [|? ? Hn _]; subst. apply Hn.
    do 255 right. left. reflexivity.
Qed.
