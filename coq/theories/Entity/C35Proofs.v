(* C35 — for every history of mails: no panic and pairwise distinct handles / GUIDs, unless a counter reached the
   maximum of its type; witnesses for the two ways the property fails inside that class. *)
From DustDDS Require Import Base.Machine Entity.EntityModel Entity.EntityLemmas Entity.HandleInv Entity.HandleStep.
Open Scope Z_scope.

(* ------------------------------------------------------------------ factory invariant *)
Definition finv (f : factory) : Prop :=
  0 <= f_next f <= u32_max /\
  Forall part_inv (f_parts f) /\
  NoDup (map pa_h (f_parts f)) /\
  Forall (fun p => exists i, 0 <= i < f_next f /\ pa_h p = part_handle i) (f_parts f).

Lemma finv_init : finv init_factory.
Proof. unfold finv, init_factory, u32_max; cbn. repeat split; try constructor; lia. Qed.

Lemma part_inv_new : forall i q, 0 <= i -> part_inv (new_part (part_handle i) q).
Proof.
  intros i q Hi. constructor; cbn.
  - exists i; auto.
  - intros [|]; cbn; lia.
  - intros [|]; cbn; lia.
  - lia.
  - intros [|]; apply ginv_nil.
  - split; constructor.
Qed.

Lemma upd_first_map_found : forall {A B} (k : A -> B) (P : A -> bool) l x x',
    find_first P l = Some x -> k x' = k x -> map k (upd_first P (fun _ => x') l) = map k l.
Proof.
  intros A B k P l x x'. induction l as [|y t IH]; cbn; intros Hf Hk; auto.
  destruct (P y).
  - inversion Hf; subst. cbn. rewrite Hk. reflexivity.
  - cbn. rewrite IH; auto.
Qed.
Lemma in_upd_first_cases : forall {A} (P : A -> bool) g l x q,
    find_first P l = Some x -> In q l -> q = x \/ In q (upd_first P g l).
Proof.
  intros A P g l x q. induction l as [|y t IH]; cbn; intros Hf Hq; [contradiction|].
  destruct (P y).
  - inversion Hf; subst. destruct Hq as [<-|Hq]; [auto|right; right; auto].
  - destruct Hq as [<-|Hq]; [right; left; auto|]. destruct (IH Hf Hq); auto. right; right; auto.
Qed.
Lemma in_upd_first_new : forall {A} (P : A -> bool) (x' : A) l x,
    find_first P l = Some x -> In x' (upd_first P (fun _ => x') l).
Proof.
  intros A P x' l x. induction l as [|y t IH]; cbn; intros Hf; [discriminate|].
  destruct (P y); [left; auto|right; auto].
Qed.
Lemma forall_upd_first_const : forall {A} (Q : A -> Prop) (P : A -> bool) (x' : A) l,
    Forall Q l -> Q x' -> Forall Q (upd_first P (fun _ => x') l).
Proof. intros. apply forall_upd_first; auto. Qed.

Lemma existsb_false_in : forall {A} (P : A -> bool) l x, existsb P l = false -> In x l -> P x = false.
Proof.
  intros A P l x H Hin. destruct (P x) eqn:E; auto.
  assert (existsb P l = true) by (apply existsb_exists; exists x; auto). congruence.
Qed.
Lemma existsb_false_all : forall {A} (P : A -> bool) l, (forall x, In x l -> P x = false) -> existsb P l = false.
Proof.
  intros A P l H. destruct (existsb P l) eqn:E; auto. apply existsb_exists in E. destruct E as (x & Hx & Hp).
  rewrite (H x Hx) in Hp; discriminate.
Qed.

(* one participant-level operation lifted to the factory *)
Lemma with_part_step : forall f ph k f' r,
    preserves k -> finv f -> with_part f ph k = (f', r) ->
    finv f' /\ r <> RPanic /\ any_ovf f' = any_ovf f.
Proof.
  intros f ph k f' r Hk Hinv Hw. unfold with_part in Hw.
  destruct (find_part f ph) as [p|] eqn:Hf.
  2:{ inversion Hw; subst. split; [exact Hinv|split; [discriminate|reflexivity]]. }
  destruct Hinv as (Hn & Hp & Hd & Hi).
  destruct (k p) as [p' r'] eqn:Hkp. inversion Hw; subst; clear Hw.
  unfold find_part in Hf. destruct (find_first_some _ _ _ Hf) as [Hin Hisp].
  rewrite Forall_forall in Hp. specialize (Hk p (Hp p Hin)). rewrite Hkp in Hk. cbn [fst snd] in Hk.
  destruct Hk as (Hi' & Hh' & Hr).
  split; [|split; [auto|reflexivity]].
  unfold finv. cbn [f_next f_parts set_parts]. repeat split; try tauto.
  - apply forall_upd_first_const; auto. apply Forall_forall; auto.
  - rewrite (upd_first_map_found pa_h _ _ p p' Hf Hh'). auto.
  - apply forall_upd_first_const; auto. rewrite Forall_forall in Hi. rewrite Hh'. apply Hi; auto.
Qed.

(* the participant-level operation behind a mail *)
Definition part_op (pr : profile) (o : fop) : option (handle * (part -> part * ret)) :=
  match o with
  | FSetFactoryQos _ | FCreatePart _ | FDeletePart _ => None
  | FCreateGroup sd ph q => Some (ph, fun p => create_group pr sd p q)
  | FDeleteGroup sd ph parent gh => Some (ph, fun p => delete_group sd p parent gh)
  | FCreateTopic ph name q => Some (ph, fun p => create_topic pr p name q)
  | FDeleteTopic ph parent name => Some (ph, fun p => delete_topic p parent name)
  | FCreateCft ph name related => Some (ph, fun p => create_cft pr p name related)
  | FDeleteCft ph name => Some (ph, fun p => delete_cft p name)
  | FCreateEp sd ph gh name q => Some (ph, fun p => create_endpoint pr sd p gh name q)
  | FDeleteEp sd ph gh eh => Some (ph, fun p => delete_endpoint sd p gh eh)
  | FDeleteContained ph => Some (ph, delete_contained)
  | FGetPartQos ph => Some (ph, fun p => (p, RPQ (pa_q p)))
  | FSetPartQos ph q => Some (ph, fun p => set_part_qos p q)
  | FEnablePart ph => Some (ph, enable_part)
  | FGetGroupQos sd ph gh => Some (ph, fun p => get_group_qos sd p gh)
  | FSetGroupQos sd ph gh q => Some (ph, fun p => set_group_qos sd p gh q)
  | FGetEpQos sd ph gh eh => Some (ph, fun p => get_ep_qos sd p gh eh)
  | FSetEpQos sd ph gh eh q => Some (ph, fun p => set_ep_qos sd p gh eh q)
  | FEnableEp sd ph gh eh => Some (ph, fun p => enable_ep sd p gh eh)
  | FStatusEp sd ph gh eh => Some (ph, fun p => status_ep sd p gh eh)
  | FGetTopicQos ph name => Some (ph, fun p => get_topic_qos p name)
  | FSetTopicQos ph name q => Some (ph, fun p => set_topic_qos p name q)
  | FEnableTopic ph name => Some (ph, fun p => enable_topic p name)
  end.

Lemma part_op_spec : forall pr o ph k f, part_op pr o = Some (ph, k) -> fstep pr f o = with_part f ph k.
Proof. intros pr o ph k f H. destruct o; cbn in H; inversion H; subst; reflexivity. Qed.

Lemma part_op_preserves : forall pr o ph k, part_op pr o = Some (ph, k) -> preserves k.
Proof.
  intros pr o ph k H. destruct o; cbn in H; inversion H; subst; clear H.
  - apply pres_create_group.
  - apply pres_delete_group.
  - apply pres_create_topic.
  - apply pres_delete_topic.
  - apply pres_create_cft.
  - apply keeps_preserves; [apply ks_delete_cft|].
    intros p; unfold delete_cft; destruct (find_first (is_cft name) (pa_cfts p)); [|discriminate].
    destruct (existsb (uses_topic name) (pa_subs p)); discriminate.
  - apply pres_create_endpoint.
  - apply pres_delete_endpoint.
  - apply pres_delete_contained.
  - apply keeps_preserves; [apply ks_get_part_qos|intros; discriminate].
  - apply keeps_preserves; [apply ks_set_part_qos|intros; discriminate].
  - apply keeps_preserves; [apply ks_enable_part|intros p; unfold enable_part; destruct (pa_en p); discriminate].
  - apply keeps_preserves; [apply ks_get_group_qos|].
    intros p; unfold get_group_qos; destruct (find_first (is_group gh) (groups sd p)); discriminate.
  - apply keeps_preserves; [apply ks_set_group_qos|].
    intros p; unfold set_group_qos; destruct (find_first (is_group gh) (groups sd p)); [|discriminate].
    match goal with |- context [if ?c then _ else _] => destruct c end; discriminate.
  - apply keeps_preserves; [apply ks_get_ep_qos|].
    intros p; unfold get_ep_qos; destruct (find_first (is_group gh) (groups sd p)); [|discriminate].
    destruct (find_first (is_ep eh) (g_eps g)); discriminate.
  - apply keeps_preserves; [apply ks_set_ep_qos|].
    intros p; unfold set_ep_qos; destruct (find_first (is_group gh) (groups sd p)); [|discriminate].
    destruct (find_first (is_ep eh) (g_eps g)); [|discriminate].
    repeat (match goal with |- context [if ?c then _ else _] => destruct c end; try discriminate).
  - apply keeps_preserves; [apply ks_enable_ep|].
    intros p; unfold enable_ep; destruct (find_first (is_group gh) (groups sd p)); [|discriminate].
    destruct (find_first (is_ep eh) (g_eps g)); discriminate.
  - apply keeps_preserves; [apply ks_status_ep|].
    intros p; unfold status_ep; destruct (find_first (is_group gh) (groups sd p)); [|discriminate].
    destruct (find_first (is_ep eh) (g_eps g)); discriminate.
  - apply keeps_preserves; [apply ks_get_topic_qos|].
    intros p; unfold get_topic_qos; destruct (find_first (is_topic name) (pa_topics p)); discriminate.
  - apply keeps_preserves; [apply ks_set_topic_qos|].
    intros p; unfold set_topic_qos; destruct (find_first (is_topic name) (pa_topics p)); [|discriminate].
    repeat (match goal with |- context [if ?c then _ else _] => destruct c end; try discriminate).
  - apply keeps_preserves; [apply ks_enable_topic|].
    intros p; unfold enable_topic; destruct (find_first (is_topic name) (pa_topics p)); discriminate.
Qed.

(* f_next / f_ovf only move at create_participant *)
Definition is_create_part (o : fop) : bool := match o with FCreatePart _ => true | _ => false end.
Lemma fstep_counter_other : forall pr f o f' r,
    is_create_part o = false -> fstep pr f o = (f', r) -> f_next f' = f_next f /\ f_ovf f' = f_ovf f.
Proof.
  intros pr f o f' r Hc Hs. destruct (part_op pr o) as [[ph k]|] eqn:Hop.
  - rewrite (part_op_spec _ _ _ _ f Hop) in Hs. unfold with_part in Hs.
    destruct (find_part f ph); [destruct (k p)|]; inversion Hs; subst; auto.
  - destruct o; cbn in Hop, Hc; try discriminate; cbn [fstep] in Hs.
    + inversion Hs; subst; auto.
    + unfold delete_part in Hs. destruct (find_part f ph); [destruct (negb (part_is_empty p))|];
        inversion Hs; subst; auto.
Qed.

Lemma fstep_inv : forall pr f o f' r,
    finv f -> fstep pr f o = (f', r) -> any_ovf f' = false ->
    finv f' /\ r <> RPanic /\ any_ovf f = false.
Proof.
  intros pr f o f' r Hinv Hs Ho.
  destruct (part_op pr o) as [[ph k]|] eqn:Hop.
  - rewrite (part_op_spec _ _ _ _ f Hop) in Hs.
    destruct (with_part_step f ph k f' r (part_op_preserves _ _ _ _ Hop) Hinv Hs) as (H1 & H2 & H3).
    split; [exact H1|split; [exact H2|congruence]].
  - destruct o; cbn in Hop; try discriminate; cbn [fstep] in Hs.
    + (* factory qos *) inversion Hs; subst. destruct Hinv as (H1 & H2 & H3 & H4).
      split; [|split; [discriminate|exact Ho]]. repeat split; auto; tauto.
    + (* create participant *)
      unfold create_part in Hs. inversion Hs; subst; clear Hs. destruct Hinv as (Hn & Hp & Hd & Hi).
      unfold any_ovf in *. cbn [f_ovf f_parts] in Ho. apply orb_false_iff in Ho. destruct Ho as [Hfo Hmax].
      apply Z.eqb_neq in Hmax.
      assert (Hw : wrap_u32 (f_next f + 1) = f_next f + 1).
      { unfold wrap_u32, two32, u32_max in *. rewrite Z.mod_small; lia. }
      assert (Hp1 : forall qos, let p1 := (if f_auto f then fst (enable_part (new_part (part_handle (f_next f)) qos))
                                           else new_part (part_handle (f_next f)) qos) in
                    part_inv p1 /\ pa_h p1 = part_handle (f_next f)).
      { intros qos. cbn zeta. destruct (f_auto f).
        - pose proof (ks_enable_part (new_part (part_handle (f_next f)) qos)) as Hs.
          split; [eapply part_inv_skel; [exact Hs|apply part_inv_new; lia]|].
          unfold skel in Hs. inversion Hs; auto.
        - split; [apply part_inv_new; lia|reflexivity]. }
      specialize (Hp1 (match q with Some x => x | None => f_defp f end)). cbn zeta in Hp1.
      match type of Hp1 with part_inv ?x /\ _ => set (p1 := x) in * end.
      destruct Hp1 as [Hp1 Hh1].
      split; [|split; [discriminate|exact Hfo]].
      unfold finv. cbn [f_next f_parts]. rewrite Hw.
      match goal with |- context [f_parts f ++ [?x]] => change x with p1 end.
      repeat split; try (unfold u32_max in *; lia).
      * apply Forall_app; split; auto.
      * rewrite map_app. cbn [map]. rewrite Hh1. apply nodup_app; auto.
        -- constructor; [intros []|constructor].
        -- intros x Hx [<-|[]]. apply in_map_iff in Hx. destruct Hx as (p & Hph & Hin).
           rewrite Forall_forall in Hi. destruct (Hi p Hin) as (i & Hi1 & Hi2). rewrite Hi2 in Hph.
           unfold part_handle in Hph. inversion Hph. lia.
      * apply Forall_app; split.
        -- eapply Forall_impl; [|exact Hi]. intros p (i & Hi1 & Hi2). exists i; split; auto; lia.
        -- constructor; [|constructor]. exists (f_next f); split; auto; lia.
    + (* delete participant *)
      unfold delete_part in Hs. destruct (find_part f ph) as [p|] eqn:Hf.
      2:{ inversion Hs; subst. split; [exact Hinv|split; [discriminate|exact Ho]]. }
      destruct (negb (part_is_empty p)).
      { inversion Hs; subst. split; [exact Hinv|split; [discriminate|exact Ho]]. }
      inversion Hs; subst; clear Hs. destruct Hinv as (Hn & Hp & Hd & Hi).
      split; [|split; [discriminate|exact Ho]].
      unfold finv. cbn [f_next f_parts]. repeat split; try tauto.
      * apply forall_rem_first; auto.
      * apply nodup_map_rem_first; auto.
      * apply forall_rem_first; auto.
Qed.

Lemma fstep_ovf_mono : forall pr f o f' r, fstep pr f o = (f', r) -> any_ovf f' = false -> any_ovf f = false.
Proof.
  intros pr f o f' r Hs Ho. destruct (is_create_part o) eqn:Hc.
  - destruct o; try discriminate. cbn [fstep] in Hs. unfold create_part in Hs. inversion Hs; subst.
    unfold any_ovf in *. cbn [f_ovf] in Ho. apply orb_false_iff in Ho. tauto.
  - destruct (fstep_counter_other pr f o f' r Hc Hs) as [_ E]. unfold any_ovf in *. congruence.
Qed.

(* ------------------------------------------------------------------ histories *)
Definition is_rpanic (r : ret) : bool := match r with RPanic => true | _ => false end.
Lemma frun_cons : forall pr f o t f1 r,
    fstep pr f o = (f1, r) ->
    frun pr f (o :: t) = if is_rpanic r then (f1, [RPanic])
                         else (fst (frun pr f1 t), r :: snd (frun pr f1 t)).
Proof.
  intros pr f o t f1 r H. cbn [frun]. rewrite H. destruct r; cbn [is_rpanic]; try reflexivity;
    destruct (frun pr f1 t); reflexivity.
Qed.

Lemma frun_ovf_mono : forall pr ops f, any_ovf (fst (frun pr f ops)) = false -> any_ovf f = false.
Proof.
  intros pr ops. induction ops as [|o t IH]; intros f H; [exact H|].
  destruct (fstep pr f o) as [f1 r] eqn:Hs. rewrite (frun_cons _ _ _ _ _ _ Hs) in H.
  eapply fstep_ovf_mono; [exact Hs|]. destruct (is_rpanic r); cbn [fst] in H; auto.
Qed.

Lemma frun_inv : forall pr ops f,
    finv f -> any_ovf (fst (frun pr f ops)) = false ->
    finv (fst (frun pr f ops)) /\ ~ In RPanic (snd (frun pr f ops)).
Proof.
  intros pr ops. induction ops as [|o t IH]; intros f Hinv Ho.
  - cbn. split; auto.
  - destruct (fstep pr f o) as [f1 r] eqn:Hs. rewrite (frun_cons _ _ _ _ _ _ Hs) in *.
    destruct (is_rpanic r) eqn:Hr; cbn [fst snd] in *.
    + exfalso. destruct r; try discriminate.
      destruct (fstep_inv pr f o f1 RPanic Hinv Hs Ho) as (_ & Hn & _). congruence.
    + assert (Hf1 : any_ovf f1 = false) by (eapply frun_ovf_mono; eauto).
      destruct (fstep_inv pr f o f1 r Hinv Hs Hf1) as (Hinv1 & Hnp & _).
      destruct (IH f1 Hinv1 Ho) as [H1 H2]. split; auto.
      intros [E|E]; [congruence|contradiction].
Qed.

(* fewer than 2^32 create_participant mails: the participant instance number never wraps *)
Definition n_create_part (ops : list fop) : Z := Z.of_nat (length (filter is_create_part ops)).
Lemma frun_no_wrap : forall pr ops f,
    f_ovf f = false -> 0 <= f_next f -> f_next f + n_create_part ops <= u32_max ->
    any_ovf (fst (frun pr f ops)) = false.
Proof.
  intros pr ops. induction ops as [|o t IH]; intros f Hf H0 Hn; [exact Hf|].
  destruct (fstep pr f o) as [f1 r] eqn:Hs. rewrite (frun_cons _ _ _ _ _ _ Hs).
  unfold n_create_part in *. cbn [filter] in Hn.
  destruct (is_create_part o) eqn:Hc.
  - cbn [length] in Hn. rewrite Nat2Z.inj_succ in Hn.
    destruct o; try discriminate. cbn [fstep] in Hs. unfold create_part in Hs. inversion Hs; subst; clear Hs.
    assert (Hne : (f_next f =? u32_max) = false) by (apply Z.eqb_neq; lia).
    assert (Hw : wrap_u32 (f_next f + 1) = f_next f + 1).
    { unfold wrap_u32, two32, u32_max in *. rewrite Z.mod_small; lia. }
    cbn [is_rpanic fst]. apply IH; cbn [f_ovf f_next].
    + rewrite Hf, Hne. reflexivity.
    + rewrite Hw. lia.
    + rewrite Hw. lia.
  - destruct (fstep_counter_other pr f o f1 r Hc Hs) as [E1 E2].
    destruct (is_rpanic r); cbn [fst].
    + unfold any_ovf. congruence.
    + apply IH; [congruence|rewrite E1; exact H0|rewrite E1; exact Hn].
Qed.

(* ------------------------------------------------------------------ from the invariant to distinct handles *)
Definition gsk_handles (ge : gsk) : list handle := fst ge :: map fst (snd ge).

Lemma group_handles_proj : forall g, group_handles g = gsk_handles (gproj g).
Proof. intros g. unfold group_handles, gsk_handles, gproj; cbn. rewrite map_map. reflexivity. Qed.
Lemma flat_group_handles_proj : forall gs, flat_map group_handles gs = flat_map gsk_handles (map gproj gs).
Proof. induction gs as [|g t IH]; cbn [flat_map map]; auto. rewrite IH, group_handles_proj. reflexivity. Qed.

Lemma gsk_facts : forall ph gk ek gc ec ge,
    gshape ph gk gc (fst ge) -> Forall (eshape ph (fst ge) ek ec) (snd ge) ->
    forall h, In h (gsk_handles ge) ->
              h_inst h = h_inst ph /\ h_k0 h = h_k0 (fst ge) /\ (h_kind h = gk \/ h_kind h = ek).
Proof.
  intros ph gk ek gc ec ge (c & Hc & Hg) Hes h [<-|Hh].
  - rewrite Hg. cbn. auto.
  - apply in_map_iff in Hh. destruct Hh as (e & <- & Hin). rewrite Forall_forall in Hes.
    destruct (Hes e Hin) as (d & Hd & He & _). rewrite He. cbn. auto.
Qed.

Lemma ginv_nodup : forall ph gk ek gc ec G,
    gk <> ek -> ginv ph gk ek gc ec G -> NoDup (flat_map gsk_handles G).
Proof.
  intros ph gk ek gc ec G Hk [Hn Hf]. induction G as [|ge G IH]; cbn; [constructor|].
  inversion Hn as [|? ? Hnotin Hn']; subst. inversion Hf as [|? ? (Hgs & Hnd & Hes) Hf']; subst.
  change (fst ge :: map fst (snd ge) ++ flat_map gsk_handles G) with (gsk_handles ge ++ flat_map gsk_handles G).
  apply nodup_app.
  - (* inside one group *)
    unfold gsk_handles. constructor; auto. intros Hin. apply in_map_iff in Hin. destruct Hin as (e & He & Hin).
    rewrite Forall_forall in Hes. destruct (Hes e Hin) as (d & _ & Hh & _).
    destruct Hgs as (c & _ & Hg). rewrite Hh, Hg in He. unfold child_handle in He. inversion He. congruence.
  - apply IH; auto.
  - (* two groups: different first key byte *)
    intros h Hh Hh'. apply in_flat_map in Hh'. destruct Hh' as (ge' & Hin' & Hh').
    rewrite Forall_forall in Hf'. destruct (Hf' ge' Hin') as (Hgs' & _ & Hes').
    destruct (gsk_facts ph gk ek gc ec ge Hgs Hes h Hh) as (_ & Hk0 & _).
    destruct (gsk_facts ph gk ek gc ec ge' Hgs' Hes' h Hh') as (_ & Hk0' & _).
    apply Hnotin. destruct Hgs as (c & _ & Hg). destruct Hgs' as (c' & _ & Hg').
    apply in_map_iff. exists ge'. split; auto.
    rewrite Hg, Hg' in *. cbn in Hk0, Hk0'. rewrite Hk0 in Hk0'. subst. reflexivity.
Qed.

Lemma ginv_facts : forall ph gk ek gc ec G, ginv ph gk ek gc ec G ->
    forall h, In h (flat_map gsk_handles G) -> h_inst h = h_inst ph /\ (h_kind h = gk \/ h_kind h = ek).
Proof.
  intros ph gk ek gc ec G [_ Hf] h Hh. apply in_flat_map in Hh. destruct Hh as (ge & Hin & Hh).
  rewrite Forall_forall in Hf. destruct (Hf ge Hin) as (Hgs & _ & Hes).
  destruct (gsk_facts ph gk ek gc ec ge Hgs Hes h Hh) as (H1 & _ & H2). auto.
Qed.

Lemma part_handles_facts : forall p, part_inv p -> forall h, In h (part_handles p) -> h_inst h = h_inst (pa_h p).
Proof.
  intros p Hi h Hh. unfold part_handles in Hh. destruct Hh as [<-|Hh]; auto.
  rewrite !in_app_iff in Hh. destruct Hh as [Hh|[Hh|Hh]].
  - rewrite flat_group_handles_proj in Hh. apply (ginv_facts _ _ _ _ _ _ (pi_groups _ Hi SPub) h Hh).
  - rewrite flat_group_handles_proj in Hh. apply (ginv_facts _ _ _ _ _ _ (pi_groups _ Hi SSub) h Hh).
  - destruct (pi_topics _ Hi) as [_ Hf]. rewrite Forall_forall in Hf. destruct (Hf h Hh) as (c & _ & ->). reflexivity.
Qed.

Lemma part_handles_nodup : forall p, part_inv p -> NoDup (part_handles p).
Proof.
  intros p Hi. unfold part_handles.
  destruct (pi_self _ Hi) as (i & _ & Hself).
  assert (HP := ginv_facts _ _ _ _ _ _ (pi_groups _ Hi SPub)).
  assert (HS := ginv_facts _ _ _ _ _ _ (pi_groups _ Hi SSub)).
  destruct (pi_topics _ Hi) as [HTn HTf]. rewrite Forall_forall in HTf.
  rewrite !flat_group_handles_proj. fold (sproj SPub p) (sproj SSub p) (tproj p).
  constructor.
  - rewrite !in_app_iff. rewrite Hself. intros [H|[H|H]].
    + destruct (HP _ H) as [_ [K|K]]; cbn in K; discriminate.
    + destruct (HS _ H) as [_ [K|K]]; cbn in K; discriminate.
    + destruct (HTf _ H) as (c & _ & K). inversion K.
  - apply nodup_app; [|apply nodup_app|].
    + eapply ginv_nodup; [|apply (pi_groups _ Hi SPub)]; cbn; discriminate.
    + eapply ginv_nodup; [|apply (pi_groups _ Hi SSub)]; cbn; discriminate.
    + exact HTn.
    + intros h H1 H2. destruct (HS _ H1) as [_ [K|K]]; destruct (HTf _ H2) as (c & _ & E); rewrite E in K; cbn in K;
        discriminate.
    + intros h H1 H2. rewrite in_app_iff in H2. destruct (HP _ H1) as [_ K1]. destruct H2 as [H2|H2].
      * destruct (HS _ H2) as [_ K2].
        cbv [group_kind ep_kind KIND_WRITER_GROUP KIND_READER_GROUP KIND_WRITER_WITH_KEY KIND_READER_WITH_KEY] in K1, K2.
        lia.
      * destruct (HTf _ H2) as (c & _ & E). rewrite E in K1. cbn in K1. destruct K1; discriminate.
Qed.

Lemma all_handles_nodup : forall f, finv f -> NoDup (all_handles f).
Proof.
  intros f (_ & Hp & Hd & _). unfold all_handles. induction (f_parts f) as [|p t IH]; cbn [flat_map]; [constructor|].
  cbn [map] in Hd. inversion Hp; subst. inversion Hd; subst. apply nodup_app.
  - apply part_handles_nodup; auto.
  - apply IH; auto.
  - intros h Hh Hh'. apply in_flat_map in Hh'. destruct Hh' as (p' & Hin & Hh').
    rewrite Forall_forall in H2.
    pose proof (part_handles_facts p H1 h Hh) as E1. pose proof (part_handles_facts p' (H2 p' Hin) h Hh') as E2.
    destruct (pi_self _ H1) as (i & _ & Ei). destruct (pi_self _ (H2 p' Hin)) as (i' & _ & Ei').
    apply H3. apply in_map_iff. exists p'. split; auto.
    rewrite Ei, Ei' in *. cbn in E1, E2. rewrite E1 in E2. subst. reflexivity.
Qed.

(* GUIDs of the RTPS writers/readers: the endpoint handles again *)
Lemma guid_is_handle : forall f, finv f -> forall p g e,
    In p (f_parts f) -> In g (pa_pubs p) \/ In g (pa_subs p) -> In e (g_eps g) -> e_guid e = e_h e.
Proof.
  intros f (_ & Hp & _) p g e Hpin Hg He. rewrite Forall_forall in Hp. specialize (Hp p Hpin).
  assert (H : forall sd, In g (groups sd p) -> e_guid e = e_h e).
  { intros sd Hin. destruct (pi_groups _ Hp sd) as [_ Hf]. rewrite Forall_forall in Hf.
    assert (Hin' : In (gproj g) (sproj sd p)) by (apply in_map; auto).
    destruct (Hf _ Hin') as (_ & _ & Hes). rewrite Forall_forall in Hes.
    assert (Hine : In (eproj e) (snd (gproj g))) by (apply in_map; auto).
    destruct (Hes _ Hine) as (c & _ & _ & Hsnd). exact Hsnd. }
  destruct Hg; [apply (H SPub)|apply (H SSub)]; auto.
Qed.

Definition all_guids (f : factory) : list handle := flat_map part_guids (f_parts f).

Lemma nodup_flat_map_tail : forall {A B} (a : A -> B) (b : A -> list B) l,
    NoDup (flat_map (fun x => a x :: b x) l) -> NoDup (flat_map b l).
Proof.
  induction l as [|x t IH]; cbn; intros H; [constructor|].
  inversion H as [|? ? Hn Hd]; subst. apply nodup_app_inv in Hd. destruct Hd as (H1 & H2 & H3).
  apply nodup_app; auto. intros y Hy Hy'. apply (H3 y Hy).
  apply in_flat_map in Hy'. destruct Hy' as (z & Hz & Hy'). apply in_flat_map. exists z; split; auto. right; auto.
Qed.

Lemma part_guids_eq : forall p, part_inv p ->
    part_guids p = flat_map (fun g => map e_h (g_eps g)) (pa_pubs p) ++ flat_map (fun g => map e_h (g_eps g)) (pa_subs p).
Proof.
  intros p Hi. unfold part_guids.
  assert (H : forall sd, flat_map (fun g => map e_guid (g_eps g)) (groups sd p)
                         = flat_map (fun g => map e_h (g_eps g)) (groups sd p)).
  { intros sd. destruct (pi_groups _ Hi sd) as [_ Hf]. unfold sproj in Hf. rewrite Forall_forall in Hf.
    induction (groups sd p) as [|g t IH]; cbn; auto. rewrite IH.
    - f_equal. destruct (Hf (gproj g) (or_introl eq_refl)) as (_ & _ & Hes). rewrite Forall_forall in Hes.
      apply map_ext_in. intros e He. destruct (Hes (eproj e) (in_map eproj _ _ He)) as (c & _ & _ & Hs). exact Hs.
    - intros x Hx. apply Hf. right; auto. }
  pose proof (H SPub) as HP. pose proof (H SSub) as HS. cbn [groups] in HP, HS. rewrite HP, HS. reflexivity.
Qed.

Lemma all_guids_nodup : forall f, finv f -> NoDup (all_guids f).
Proof.
  intros f Hinv. pose proof (all_handles_nodup f Hinv) as Hn. destruct Hinv as (_ & Hp & _).
  unfold all_guids, all_handles in *. induction (f_parts f) as [|p t IH]; cbn [flat_map] in *; [constructor|].
  inversion Hp; subst. apply nodup_app_inv in Hn. destruct Hn as (Hn1 & Hn2 & Hn3).
  assert (Hsub : forall h, In h (part_guids p) -> In h (part_handles p)).
  { intros h Hh. rewrite (part_guids_eq p H1) in Hh. unfold part_handles. right. rewrite !in_app_iff.
    rewrite in_app_iff in Hh. destruct Hh as [Hh|Hh]; [left|right; left];
      apply in_flat_map in Hh; destruct Hh as (g & Hg & Hh); apply in_flat_map; exists g; split; auto; right; auto. }
  apply nodup_app.
  - rewrite (part_guids_eq p H1). unfold part_handles in Hn1. inversion Hn1 as [|? ? _ Hn1']; subst.
    apply nodup_app_inv in Hn1'. destruct Hn1' as (Ha & Hb & Hc). apply nodup_app_inv in Hb. destruct Hb as (Hb & _ & _).
    apply nodup_app.
    + apply (nodup_flat_map_tail g_h (fun g => map e_h (g_eps g))). exact Ha.
    + apply (nodup_flat_map_tail g_h (fun g => map e_h (g_eps g))). exact Hb.
    + intros h H1' H2'. apply (Hc h).
      * apply in_flat_map in H1'. destruct H1' as (g & Hg & Hh). apply in_flat_map. exists g; split; auto. right; auto.
      * rewrite in_app_iff. left. apply in_flat_map in H2'. destruct H2' as (g & Hg & Hh). apply in_flat_map.
        exists g; split; auto. right; auto.
  - apply IH; auto.
  - intros h Hh Hh'. apply (Hn3 h (Hsub h Hh)).
    apply in_flat_map in Hh'. destruct Hh' as (p' & Hin & Hh'). apply in_flat_map. exists p'. split; auto.
    rewrite Forall_forall in H2. specialize (H2 p' Hin).
    rewrite (part_guids_eq p' H2) in Hh'. unfold part_handles. right. rewrite !in_app_iff.
    rewrite in_app_iff in Hh'. destruct Hh' as [Hh'|Hh']; [left|right; left];
      apply in_flat_map in Hh'; destruct Hh' as (g & Hg & Hx); apply in_flat_map; exists g; split; auto; right; auto.
Qed.

(* ------------------------------------------------------------------ the theorem *)
Theorem no_panic_and_distinct : forall pr ops,
    n_create_part ops <= u32_max ->
    let f := fst (frun pr init_factory ops) in
    ~ In RPanic (snd (frun pr init_factory ops)) /\ NoDup (all_handles f) /\ NoDup (all_guids f).
Proof.
  intros pr ops Hn f.
  assert (Ho : any_ovf f = false) by (apply frun_no_wrap; cbn; auto; lia).
  destruct (frun_inv pr ops init_factory finv_init Ho) as [Hi Hnp].
  split; auto. split; [apply all_handles_nodup|apply all_guids_nodup]; auto.
Qed.

(* a creation whose counter is exhausted returns OutOfResources and changes nothing *)
Lemma exhausted_group_counter : forall pr sd p q,
    gcounter sd p = 255 -> create_group pr sd p q = (p, RErr E_OUT_OF_RESOURCES).
Proof. intros pr sd p q H. unfold create_group. rewrite H. reflexivity. Qed.
Lemma exhausted_topic_counter : forall pr p name q,
    pa_tc p = 65535 ->
    fst (create_topic pr p name q) = p /\ exists c, snd (create_topic pr p name q) = RErr c.
Proof.
  intros pr p name q H. unfold create_topic. rewrite H.
  replace (next_id 65535 65535) with (@None Z) by reflexivity.
  destruct (existsb (is_topic name) (pa_topics p)); [split; [reflexivity|eexists; reflexivity]|].
  destruct q as [x|]; [destruct (is_consistent KTopic x)|]; split; try reflexivity; eexists; reflexivity.
Qed.
Lemma exhausted_endpoint_counter : forall pr sd p gh name q r,
    ecounter sd p = 65535 -> snd (create_endpoint pr sd p gh name q) = r ->
    exists c, r = RErr c /\ fst (create_endpoint pr sd p gh name q) = p.
Proof.
  intros pr sd p gh name q r H Hr. subst r. unfold create_endpoint. rewrite H.
  replace (next_id 65535 65535) with (@None Z) by reflexivity.
  destruct (lookup_topic sd p name); [|eexists; split; reflexivity].
  destruct (find_first (is_group gh) (groups sd p)); [|eexists; split; reflexivity].
  destruct sd; cbn [ekind_of].
  - eexists; split; reflexivity.
  - destruct q as [x|]; [destruct (is_consistent KReader x)|]; eexists; split; reflexivity.
Qed.

(* regression of b2cf990 on the model: the 256th and 257th publisher are refused, the first 255 keep their handles *)
Fixpoint repeat_op (o : fop) (n : nat) : list fop := match n with O => [] | S k => o :: repeat_op o k end.
Lemma publishers_256_and_257_are_refused : forall pr,
  let r := frun pr init_factory (FCreatePart None :: repeat_op (FCreateGroup SPub (part_handle 0) None) 257) in
  nth 255 (snd r) RUnit = RHandle (mkH 0 254 0 0 8) /\
  nth 256 (snd r) RUnit = RErr E_OUT_OF_RESOURCES /\ nth 257 (snd r) RUnit = RErr E_OUT_OF_RESOURCES /\
  length (all_handles (fst r)) = 256%nat.
Proof. intros [|]; vm_compute; repeat split; reflexivity. Qed.
