(* C37 — correspondence and trace oracle.
   Spec side (written from DDS 1.4 2.2.3 / table "Changeable", not from the code):
     consistent(q)  :  max_samples >= max_samples_per_instance (Unlimited = infinity), 1 <= KEEP_LAST depth <=
                       max_samples_per_instance, reader: deadline.period >= time_based_filter.minimum_separation,
                       writer (XTypes 7.6.3.1): at most one data representation offered;
     immutable once enabled: DURABILITY, LIVELINESS, RELIABILITY, DESTINATION_ORDER, HISTORY, RESOURCE_LIMITS,
                       OWNERSHIP (topic / writer / reader) and PRESENTATION (publisher / subscriber).
   The tracker follows, from the OBSERVED results, the QoS every live proxy must currently have and whether the
   entity is certainly enabled / certainly not enabled, and checks every create / set_qos / get_qos result. *)
From DustDDS Require Export Entity.EntityCorr.
Open Scope Z_scope.

(* ---- spec-level predicates ---- *)
Definition len_ge (a b : option Z) : bool :=     (* a >= b with None = infinity *)
  match a, b with
  | None, _ => true
  | Some _, None => false
  | Some x, Some y => y <=? x
  end.
Definition dur_ge (a b : option Z) : bool :=     (* a >= b with None = infinite *)
  match a, b with
  | None, _ => true
  | Some _, None => false
  | Some x, Some y => y <=? x
  end.
Definition spec_consistent (k : ekind) (q : eqos) : bool :=
  len_ge (q_ms q) (q_mspi q)
  && match q_hist q with None => true | Some d => (1 <=? d) && len_ge (q_mspi q) (Some d) end
  && match k with KReader => dur_ge (q_dl q) (q_sep q) | _ => true end
  && match k with KWriter => rep_len (q_rep q) <=? 1 | _ => true end.
(* values for which the specification says nothing: negative lengths *)
Definition len_wf (a : option Z) : bool := match a with None => true | Some v => 0 <=? v end.
Definition malformed (q : eqos) : bool := negb (len_wf (q_ms q) && len_wf (q_mi q) && len_wf (q_mspi q)).

Definition spec_imm_same (a b : eqos) : bool :=
  (q_dur a =? q_dur b) && (q_lk a =? q_lk b) && oz_eqb (q_ll a) (q_ll b) && (q_rel a =? q_rel b)
  && oz_eqb (q_mbt a) (q_mbt b) && (q_ord a =? q_ord b) && oz_eqb (q_hist a) (q_hist b)
  && oz_eqb (q_ms a) (q_ms b) && oz_eqb (q_mi a) (q_mi b) && oz_eqb (q_mspi a) (q_mspi b) && (q_own a =? q_own b).
Definition spec_pres_same (a b : gqos) : bool :=
  (g_sc a =? g_sc b) && Bool.eqb (g_coh a) (g_coh b) && Bool.eqb (g_oa a) (g_oa b).

(* ---- tracker ---- *)
Inductive qv : Type := QE (q : eqos) | QG (q : gqos) | QP (q : pqos).
Definition qv_eqb (a b : qv) : bool :=
  match a, b with
  | QE x, QE y => eqos_eqb x y | QG x, QG y => gqos_eqb x y | QP x, QP y => pqos_eqb x y | _, _ => false
  end.
Definition qv_of_ret (r : ret) : option qv :=
  match r with REQ q => Some (QE q) | RGQ q => Some (QG q) | RPQ q => Some (QP q) | _ => None end.

Record qent : Type := mkQE {
  qe_live : bool;
  qe_en : option bool;     (* Some true: certainly enabled; Some false: certainly not; None: the spec does not say *)
  qe_part : Z; qe_par : Z; qe_name : Z;
  qe_q : qv
}.
Record q37 : Type := mkQ37 {
  b_auto : bool;           (* factory autoenable *)
  b_P : list qent; b_T : list qent; b_PUB : list qent; b_SUB : list qent; b_W : list qent; b_R : list qent
}.
Definition q37_0 : q37 := mkQ37 true [] [] [] [] [] [].

Definition b_G (sd : side) (b : q37) := match sd with SPub => b_PUB b | SSub => b_SUB b end.
Definition b_E (sd : side) (b : q37) := match sd with SPub => b_W b | SSub => b_R b end.
Definition setB_P b l := mkQ37 (b_auto b) l (b_T b) (b_PUB b) (b_SUB b) (b_W b) (b_R b).
Definition setB_T b l := mkQ37 (b_auto b) (b_P b) l (b_PUB b) (b_SUB b) (b_W b) (b_R b).
Definition setB_G sd b l :=
  match sd with
  | SPub => mkQ37 (b_auto b) (b_P b) (b_T b) l (b_SUB b) (b_W b) (b_R b)
  | SSub => mkQ37 (b_auto b) (b_P b) (b_T b) (b_PUB b) l (b_W b) (b_R b)
  end.
Definition setB_E sd b l :=
  match sd with
  | SPub => mkQ37 (b_auto b) (b_P b) (b_T b) (b_PUB b) (b_SUB b) l (b_R b)
  | SSub => mkQ37 (b_auto b) (b_P b) (b_T b) (b_PUB b) (b_SUB b) (b_W b) l
  end.

Definition qkill (e : qent) : qent := mkQE false (qe_en e) (qe_part e) (qe_par e) (qe_name e) (qe_q e).
Definition qset_q (q : qv) (e : qent) : qent := mkQE (qe_live e) (qe_en e) (qe_part e) (qe_par e) (qe_name e) q.
Definition qset_en (v : option bool) (e : qent) : qent := mkQE (qe_live e) v (qe_part e) (qe_par e) (qe_name e) (qe_q e).
Definition qkill_if (f : qent -> bool) (l : list qent) : list qent := map (fun e => if f e then qkill e else e) l.
Definition in_qpart (p : Z) (e : qent) : bool := qe_part e =? p.

(* three-valued "parent is enabled and autoenables" *)
Definition tri_and (a : option bool) (b : bool) : option bool :=
  match a with
  | Some true => Some b
  | Some false => Some false
  | None => if b then None else Some false
  end.
Definition auto_of (q : qv) : bool :=
  match q with QP x => p_auto x | QG x => g_auto x | QE _ => true end.
Definition child_en (parent : qent) : option bool := tri_and (qe_en parent) (auto_of (qe_q parent)).
(* enable() of a participant that was not certainly enabled: what happens to its children is not ours to say *)
Definition blur (p : Z) (l : list qent) : list qent :=
  map (fun e => if in_qpart p e then
                  match qe_en e with Some true => e | _ => qset_en None e end
                else e) l.

(* classes 1 (publisher presentation mutable) and 2 (create_topic accepts an inconsistent QoS) were repaired by
   5256dfd and 3e9f0b1: such behaviour is an unexplained violation again *)

Definition ent_ok (b : q37) (e : qent) : bool :=
  qe_live e && match nthz (b_P b) (qe_part e) with Some p => qe_live p | None => false end.

(* result of a creation with QoS q (already restricted to the kind) of kind k; cls = class of "accepted although
   inconsistent" *)
Definition chk_create_e (k : ekind) (q : option eqos) (r : ret) (cls : N) : list N :=
  match q with
  | None => []
  | Some x =>
      if malformed x then []
      else if spec_consistent k x then (if is_err r E_INCONSISTENT then [0%N] else [])
      else (if is_err r E_INCONSISTENT then [] else if is_err r E_DELETED then [] else [cls])
  end.

(* set_qos on a live entity whose current value is cur: new value q', immutable part changed?, inconsistent? *)
Definition chk_set (en : option bool) (bad : bool) (inconsistent : bool) (imm_changed : bool) (r : ret) (cls : N)
  : list N :=
  if is_err r E_DELETED then []
  else if bad then []
  else if inconsistent then (if is_err r E_INCONSISTENT then [] else [0%N])
  else if imm_changed then
    match en with
    | Some true => if is_err r E_IMMUTABLE then [] else [cls]
    | Some false => if is_unit r then [] else [0%N]
    | None => if is_unit r || is_err r E_IMMUTABLE then [] else [0%N]
    end
  else (if is_unit r then [] else [0%N]).

Definition chk_get (b : q37) (e : qent) (r : ret) : list N :=
  if negb (ent_ok b e) then []
  else if is_err r E_DELETED then []
  else match qv_of_ret r with
       | Some v => if qv_eqb v (qe_q e) then [] else [0%N]
       | None => [0%N]
       end.

Definition c37_step (b : q37) (o : wop) (r : ret) : q37 * list N :=
  match r with
  | RPanic => (b, [0%N])
  | RBad => (b, [])
  | _ =>
  match o with
  | WFq a => (if is_unit r then mkQ37 a (b_P b) (b_T b) (b_PUB b) (b_SUB b) (b_W b) (b_R b) else b, [])
  | WP q =>
      if is_handle r then
        (setB_P b (b_P b ++ [mkQE true (Some (b_auto b)) (Z.of_nat (length (b_P b))) (-1) 0
                                  (QP (match q with Some x => x | None => default_pqos end))]), [])
      else (b, [0%N])
  | WT p name q =>
      match nthz (b_P b) p with
      | None => (b, [])
      | Some pe =>
          let q' := option_map (restrict KTopic) q in
          let v := if qe_live pe then chk_create_e KTopic q' r 0%N else [] in
          if is_handle r then
            (setB_T b (b_T b ++ [mkQE true (child_en pe) p (-1) name
                                      (QE (match q' with Some x => x | None => default_eqos KTopic end))]), v)
          else (b, v)
      end
  | WG sd p q =>
      match nthz (b_P b) p with
      | None => (b, [])
      | Some pe =>
          if is_handle r then
            (setB_G sd b (b_G sd b ++ [mkQE true (child_en pe) p (-1) 0
                                            (QG (match q with Some x => x | None => default_gqos end))]), [])
          else (b, [])
      end
  | WE sd g _ q =>
      match nthz (b_G sd b) g with
      | None => (b, [])
      | Some ge =>
          let k := ekind_of sd in
          let q' := option_map (restrict k) q in
          let v := if ent_ok b ge then chk_create_e k q' r 0%N else [] in
          if is_handle r then
            (setB_E sd b (b_E sd b ++ [mkQE true (child_en ge) (qe_part ge) g 0
                                            (QE (match q' with Some x => x | None => default_eqos k end))]), v)
          else (b, v)
      end
  | WRc g _ q =>
      match nthz (b_SUB b) g with
      | None => (b, [])
      | Some ge =>
          let q' := option_map (restrict KReader) q in
          let v := if ent_ok b ge then chk_create_e KReader q' r 0%N else [] in
          if is_handle r then
            (setB_E SSub b (b_R b ++ [mkQE true (child_en ge) (qe_part ge) g 0
                                           (QE (match q' with Some x => x | None => default_eqos KReader end))]), v)
          else (b, v)
      end
  | WDelE sd e _ => (if is_unit r then setB_E sd b (updz (b_E sd b) e qkill) else b, [])
  | WDelG sd g _ => (if is_unit r then setB_G sd b (updz (b_G sd b) g qkill) else b, [])
  | WDelT t _ =>
      match nthz (b_T b) t with
      | None => (b, [])
      | Some te =>
          (if is_unit r then
             setB_T b (qkill_if (fun e => (qe_part e =? qe_part te) && (qe_name e =? qe_name te)) (b_T b))
           else b, [])
      end
  | WDelAll p | WDelP p =>
      if is_unit r then
        (mkQ37 (b_auto b)
               (match o with WDelP _ => updz (b_P b) p qkill | _ => b_P b end)
               (qkill_if (in_qpart p) (b_T b)) (qkill_if (in_qpart p) (b_PUB b)) (qkill_if (in_qpart p) (b_SUB b))
               (qkill_if (in_qpart p) (b_W b)) (qkill_if (in_qpart p) (b_R b)), [])
      else (b, [])
  | WGq k i =>
      let l := match k with KP => b_P b | KT => b_T b | KPUB => b_PUB b | KSUB => b_SUB b | KW => b_W b | KR => b_R b end in
      match nthz l i with Some e => (b, chk_get b e r) | None => (b, []) end
  | WSqP i q =>
      match nthz (b_P b) i with
      | None => (b, [])
      | Some e =>
          let q' := match q with Some x => x | None => default_pqos end in
          let v := if qe_live e then chk_set (qe_en e) false false false r 0%N else [] in
          (if is_unit r then setB_P b (updz (b_P b) i (qset_q (QP q'))) else b, v)
      end
  | WSqG sd i q =>
      match nthz (b_G sd b) i with
      | None => (b, [])
      | Some e =>
          let q' := match q with Some x => x | None => default_gqos end in
          let changed := match qe_q e with QG cur => negb (spec_pres_same cur q') | _ => false end in
          let v := if ent_ok b e then
                     chk_set (qe_en e) false false changed r
                             0%N
                   else [] in
          (if is_unit r then setB_G sd b (updz (b_G sd b) i (qset_q (QG q'))) else b, v)
      end
  | WSqE sd i q =>
      match nthz (b_E sd b) i with
      | None => (b, [])
      | Some e =>
          let k := ekind_of sd in
          let q' := match q with Some x => restrict k x | None => default_eqos k end in
          let changed := match qe_q e with QE cur => negb (spec_imm_same cur q') | _ => false end in
          let v := if ent_ok b e then
                     chk_set (qe_en e) (malformed q') (negb (spec_consistent k q')) changed r 0%N
                   else [] in
          (if is_unit r then setB_E sd b (updz (b_E sd b) i (qset_q (QE q'))) else b, v)
      end
  | WSqT i q =>
      match nthz (b_T b) i with
      | None => (b, [])
      | Some e =>
          let q' := match q with Some x => restrict KTopic x | None => default_eqos KTopic end in
          let changed := match qe_q e with QE cur => negb (spec_imm_same cur q') | _ => false end in
          let v := if ent_ok b e then
                     chk_set (qe_en e) (malformed q') (negb (spec_consistent KTopic q')) changed r 0%N
                   else [] in
          (if is_unit r then setB_T b (updz (b_T b) i (qset_q (QE q'))) else b, v)
      end
  | WEn k i =>
      if negb (is_unit r) then (b, [])
      else match k with
           | KP =>
               match nthz (b_P b) i with
               | None => (b, [])
               | Some e =>
                   match qe_en e with
                   | Some true => (b, [])
                   | _ => (mkQ37 (b_auto b) (updz (b_P b) i (qset_en (Some true))) (blur i (b_T b))
                                 (blur i (b_PUB b)) (blur i (b_SUB b)) (blur i (b_W b)) (blur i (b_R b)), [])
                   end
               end
           | KT => (setB_T b (updz (b_T b) i (qset_en (Some true))), [])
           | KW => (setB_E SPub b (updz (b_W b) i (qset_en (Some true))), [])
           | KR => (setB_E SSub b (updz (b_R b) i (qset_en (Some true))), [])
           | _ => (b, [])
           end
  | _ => (b, [])
  end
  end.

(* ---- "announced to remote participants": observed through get_matched_publication_data /
   get_matched_subscription_data on the other side, once the harness has let discovery settle after the last
   change.  The model does not predict these observations (RAny); the oracle compares them with the QoS the
   tracker knows to be the current, accepted one. ---- *)
Record q37x : Type := mkQX { x_b : q37; x_settled : bool }.
Definition q37x_0 : q37x := mkQX q37_0 false.

Definition dz (o : option Z) : Z := match o with Some v => v | None => -1 end.
Definition bz (b : bool) : Z := if b then 1 else 0.
Fixpoint zs_eqb (a b : list Z) : bool :=
  match a, b with
  | [], [] => true
  | x :: a', y :: b' => (x =? y) && zs_eqb a' b'
  | _, _ => false
  end.
Definition CLS_GROUP_NOT_ANNOUNCED : N := 3%N.

(* publication: dur dl lat lk ll rel mbt ls ud own str ord | sc coh oa part | td | gd | rep *)
Definition chk_mpd (b : q37) (wr : Z) (r : ret) : list N :=
  match r, nthz (b_W b) wr with
  | RAnn l, Some we =>
      match qe_q we, nthz (b_PUB b) (qe_par we) with
      | QE q, Some pe =>
          match qe_q pe with
          | QG g =>
              let own := [q_dur q; dz (q_dl q); dz (q_lat q); q_lk q; dz (q_ll q); q_rel q; dz (q_mbt q); dz (q_ls q);
                          q_ud q; q_own q; q_str q; q_ord q] in
              let grp := [g_sc g; bz (g_coh g); bz (g_oa g); g_part g] in
              if negb (zs_eqb (firstn 12 l) own) || negb (nth 18 l (-9) =? q_rep q) then [0%N]
              else if negb (zs_eqb (firstn 4 (skipn 12 l)) grp) || negb (nth 17 l (-9) =? g_gd g)
                   then [CLS_GROUP_NOT_ANNOUNCED]
              else []
          | _ => []
          end
      | _, _ => []
      end
  | _, _ => []
  end.
(* subscription: dur dl lat lk ll rel mbt own ord ud sep | sc coh oa part | td | gd | rep *)
Definition chk_msd (b : q37) (rd : Z) (r : ret) : list N :=
  match r, nthz (b_R b) rd with
  | RAnn l, Some re =>
      match qe_q re, nthz (b_SUB b) (qe_par re) with
      | QE q, Some se =>
          match qe_q se with
          | QG g =>
              let own := [q_dur q; dz (q_dl q); dz (q_lat q); q_lk q; dz (q_ll q); q_rel q; dz (q_mbt q); q_own q;
                          q_ord q; q_ud q; dz (q_sep q)] in
              let grp := [g_sc g; bz (g_coh g); bz (g_oa g); g_part g] in
              if negb (zs_eqb (firstn 11 l) own) || negb (nth 17 l (-9) =? q_rep q) then [0%N]
              else if negb (zs_eqb (firstn 4 (skipn 11 l)) grp) || negb (nth 16 l (-9) =? g_gd g)
                   then [CLS_GROUP_NOT_ANNOUNCED]
              else []
          | _ => []
          end
      | _, _ => []
      end
  | _, _ => []
  end.

Definition c37x_step (x : q37x) (o : wop) (r : ret) : q37x * list N :=
  match o with
  | WSettle => (mkQX (x_b x) true, [])
  | WMpd _ wr => (x, if x_settled x then chk_mpd (x_b x) wr r else [])
  | WMsd _ rd => (x, if x_settled x then chk_msd (x_b x) rd r else [])
  | WGq _ _ | WH _ _ | WKeepnet | WSt _ _ =>
      let (b', v) := c37_step (x_b x) o r in (mkQX b' (x_settled x), v)
  | _ => let (b', v) := c37_step (x_b x) o r in (mkQX b' false, v)
  end.

Fixpoint c37_run (x : q37x) (tr : list (wop * ret)) : list N :=
  match tr with
  | [] => []
  | (o, r) :: t => let (x1, v) := c37x_step x o r in v ++ c37_run x1 t
  end.

Definition C37_viol (c : ent_case) : list N := c37_run q37x_0 (zip_trace (c_ops c) (c_outs c)).
Definition C37_model_ok : ent_case -> bool := ent_model_ok.
Definition C37_oracle_ok (c : ent_case) : bool := is_nil (C37_viol c).
Definition C37_known (c : ent_case) : N :=
  match C37_viol c with
  | [] => 0%N
  | x :: t => if existsb (N.eqb 0) (x :: t) then 0%N else x
  end.
