(* C36 — proofs about deletion preconditions, deleted entities and delete_contained_entities. *)
From DustDDS Require Import Base.Machine Entity.EntityModel Entity.EntityLemmas.
Open Scope Z_scope.

Lemma set_parts_id : forall f, set_parts f (f_parts f) = f.
Proof. destruct f; reflexivity. Qed.

Lemma with_part_unchanged : forall f ph p k r,
    find_part f ph = Some p -> k p = (p, r) -> with_part f ph k = (f, r).
Proof.
  intros f ph p k r Hf Hk. unfold with_part. rewrite Hf, Hk.
  unfold find_part in Hf. rewrite (upd_first_same _ _ _ Hf), set_parts_id. reflexivity.
Qed.
Lemma with_part_missing : forall f ph k, find_part f ph = None -> with_part f ph k = (f, RErr E_DELETED).
Proof. intros f ph k H; unfold with_part; rewrite H; reflexivity. Qed.

(* ---------------------------------------------------------------- sentence 1: non-empty parents, topics in use *)
Lemma delete_part_nonempty : forall pr f ph p,
    find_part f ph = Some p -> part_is_empty p = false ->
    fstep pr f (FDeletePart ph) = (f, RErr E_PRECONDITION).
Proof. intros pr f ph p Hf He. cbn [fstep]. unfold delete_part. rewrite Hf, He. reflexivity. Qed.

Lemma delete_group_nonempty : forall pr f sd ph parent gh p g,
    find_part f ph = Some p -> find_first (is_group gh) (groups sd p) = Some g -> g_eps g <> [] ->
    fstep pr f (FDeleteGroup sd ph parent gh) = (f, RErr E_PRECONDITION).
Proof.
  intros pr f sd ph parent gh p g Hf Hg He. cbn [fstep].
  apply with_part_unchanged with (p := p); auto.
  unfold delete_group. destruct (heqb parent (pa_h p)); cbn [negb]; auto.
  rewrite Hg. destruct (g_eps g); [contradiction|reflexivity].
Qed.

Definition topic_in_use (p : part) (name : Z) : Prop :=
  exists g e, (In g (pa_pubs p) \/ In g (pa_subs p)) /\ In e (g_eps g) /\ e_topic e = name.

Lemma existsb_uses : forall name l g e, In g l -> In e (g_eps g) -> e_topic e = name ->
    existsb (uses_topic name) l = true.
Proof.
  intros name l g e Hg He Hn. apply existsb_exists. exists g; split; auto.
  unfold uses_topic. apply existsb_exists. exists e; split; auto. apply Z.eqb_eq; auto.
Qed.

Lemma delete_topic_in_use : forall pr f ph parent name p,
    find_part f ph = Some p -> In name (map t_name (pa_topics p)) -> topic_in_use p name ->
    fstep pr f (FDeleteTopic ph parent name) = (f, RErr E_PRECONDITION).
Proof.
  intros pr f ph parent name p Hf Hn (g & e & Hg & He & Hu). cbn [fstep].
  apply with_part_unchanged with (p := p); auto.
  unfold delete_topic. destruct (heqb (pa_h p) parent); cbn [negb]; auto.
  destruct (find_first (is_topic name) (pa_topics p)) as [t|] eqn:Ht.
  - apply find_first_some in Ht. destruct Ht as [_ Ht]. unfold is_topic in Ht. apply Z.eqb_eq in Ht.
    rewrite Ht. destruct Hg as [Hg|Hg].
    + rewrite (existsb_uses name _ g e Hg He Hu). reflexivity.
    + destruct (existsb (uses_topic name) (pa_pubs p)); auto.
      rewrite (existsb_uses name _ g e Hg He Hu). reflexivity.
  - exfalso. apply in_map_iff in Hn. destruct Hn as (t & Htn & Hin).
    rewrite find_first_none in Ht. specialize (Ht t Hin). unfold is_topic in Ht. rewrite Htn, Z.eqb_refl in Ht.
    discriminate.
Qed.

(* since 7cc766b: a topic that a content filtered topic refers to, and a content filtered topic a reader was created on *)
Lemma delete_topic_with_cft : forall pr f ph parent name p c,
    find_part f ph = Some p -> In c (pa_cfts p) -> c_rel c = name ->
    (exists c0, fstep pr f (FDeleteTopic ph parent name) = (f, RErr c0) /\
                (In name (map t_name (pa_topics p)) -> c0 = E_PRECONDITION)).
Proof.
  intros pr f ph parent name p c Hf Hc Hr. cbn [fstep].
  assert (Hex : existsb (fun c => c_rel c =? name) (pa_cfts p) = true).
  { apply existsb_exists. exists c; split; auto. apply Z.eqb_eq; auto. }
  unfold with_part. rewrite Hf.
  assert (Hid : set_parts f (upd_first (is_part ph) (fun _ => p) (f_parts f)) = f).
  { unfold find_part in Hf. rewrite (upd_first_same _ _ _ Hf). apply set_parts_id. }
  unfold delete_topic. destruct (negb (heqb (pa_h p) parent)); [rewrite Hid; eexists; split; [reflexivity|auto]|].
  destruct (find_first (is_topic name) (pa_topics p)) as [t|] eqn:Ht.
  - destruct (existsb (uses_topic (t_name t)) (pa_pubs p)); [rewrite Hid; eexists; split; [reflexivity|auto]|].
    destruct (existsb (uses_topic (t_name t)) (pa_subs p)); [rewrite Hid; eexists; split; [reflexivity|auto]|].
    rewrite Hex, Hid. eexists; split; [reflexivity|auto].
  - rewrite Hid. eexists; split; [reflexivity|]. intros Hn. exfalso.
    apply in_map_iff in Hn. destruct Hn as (t & Htn & Hin).
    rewrite find_first_none in Ht. specialize (Ht t Hin). unfold is_topic in Ht. rewrite Htn, Z.eqb_refl in Ht.
    discriminate.
Qed.

Lemma delete_cft_in_use : forall pr f ph name p g e,
    find_part f ph = Some p -> In name (map c_name (pa_cfts p)) ->
    In g (pa_subs p) -> In e (g_eps g) -> e_topic e = name ->
    fstep pr f (FDeleteCft ph name) = (f, RErr E_PRECONDITION).
Proof.
  intros pr f ph name p g e Hf Hn Hg He Ht. cbn [fstep]. apply with_part_unchanged with (p := p); auto.
  unfold delete_cft. destruct (find_first (is_cft name) (pa_cfts p)) eqn:Hc.
  - rewrite (existsb_uses name _ g e Hg He Ht). reflexivity.
  - exfalso. apply in_map_iff in Hn. destruct Hn as (c & Hcn & Hin).
    rewrite find_first_none in Hc. specialize (Hc c Hin). unfold is_cft in Hc. rewrite Hcn, Z.eqb_refl in Hc.
    discriminate.
Qed.

(* ---------------------------------------------------------------- sentence 2: entities that are not there *)
Definition group_missing (sd : side) (p : part) (gh : handle) : bool :=
  match find_first (is_group gh) (groups sd p) with None => true | Some _ => false end.
Definition ep_missing (sd : side) (p : part) (gh eh : handle) : bool :=
  match find_first (is_group gh) (groups sd p) with
  | None => true
  | Some g => match find_first (is_ep eh) (g_eps g) with None => true | Some _ => false end
  end.
Definition topic_missing (p : part) (name : Z) : bool :=
  match find_first (is_topic name) (pa_topics p) with None => true | Some _ => false end.
Definition cft_missing (p : part) (name : Z) : bool :=
  match find_first (is_cft name) (pa_cfts p) with None => true | Some _ => false end.

(* the entity the mail addresses (or, for a creation, the parent / topic it needs) is not in the tree *)
Definition target_missing (f : factory) (o : fop) : bool :=
  match o with
  | FSetFactoryQos _ | FCreatePart _ => false
  | FDeletePart ph => match find_part f ph with None => true | Some _ => false end
  | FCreateGroup _ ph _ | FCreateTopic ph _ _ | FCreateCft ph _ _ | FDeleteContained ph
  | FGetPartQos ph | FSetPartQos ph _ | FEnablePart ph =>
      match find_part f ph with None => true | Some _ => false end
  | FDeleteCft ph name =>
      match find_part f ph with None => true | Some p => cft_missing p name end
  | FDeleteGroup sd ph parent gh =>
      match find_part f ph with None => true | Some p => heqb parent (pa_h p) && group_missing sd p gh end
  | FDeleteTopic ph parent name =>
      match find_part f ph with None => true | Some p => heqb (pa_h p) parent && topic_missing p name end
  | FCreateEp sd ph gh name _ =>
      match find_part f ph with
      | None => true
      | Some p => match lookup_topic sd p name with None => true | Some _ => group_missing sd p gh end
      end
  | FGetGroupQos sd ph gh | FSetGroupQos sd ph gh _ =>
      match find_part f ph with None => true | Some p => group_missing sd p gh end
  | FDeleteEp sd ph gh eh | FGetEpQos sd ph gh eh | FSetEpQos sd ph gh eh _ | FEnableEp sd ph gh eh
  | FStatusEp sd ph gh eh =>
      match find_part f ph with None => true | Some p => ep_missing sd p gh eh end
  | FGetTopicQos ph name | FSetTopicQos ph name _ | FEnableTopic ph name =>
      match find_part f ph with None => true | Some p => topic_missing p name end
  end.

Lemma op_on_missing_entity : forall pr f o,
    target_missing f o = true -> fstep pr f o = (f, RErr E_DELETED).
Proof.
  intros pr f o H. destruct o; cbn [target_missing] in H; try discriminate; cbn [fstep];
    try (destruct (find_part f ph) as [p|] eqn:Hf; [|try (apply with_part_missing; assumption)]).
  all: try discriminate.
  all: try (apply with_part_unchanged with (p := p); [assumption|]).
  - (* delete part *) unfold delete_part; rewrite Hf; reflexivity.
  - (* delete group *) apply andb_true_iff in H. destruct H as [Hp Hm]. unfold delete_group, group_missing in *.
    rewrite Hp; cbn [negb]. destruct (find_first (is_group gh) (groups sd p)); [discriminate|reflexivity].
  - (* delete topic *) apply andb_true_iff in H. destruct H as [Hp Hm]. unfold delete_topic, topic_missing in *.
    rewrite Hp; cbn [negb]. destruct (find_first (is_topic name) (pa_topics p)); [discriminate|reflexivity].
  - (* delete cft *) unfold delete_cft, cft_missing in *.
    destruct (find_first (is_cft name) (pa_cfts p)); [discriminate|reflexivity].
  - (* create ep *) unfold create_endpoint, group_missing in *. destruct (lookup_topic sd p name); [|reflexivity].
    destruct (find_first (is_group gh) (groups sd p)); [discriminate|reflexivity].
  - (* delete ep *) unfold delete_endpoint, ep_missing in *.
    destruct (find_first (is_group gh) (groups sd p)); [|reflexivity].
    destruct (find_first (is_ep eh) (g_eps g)); [discriminate|reflexivity].
  - unfold get_group_qos, group_missing in *.
    destruct (find_first (is_group gh) (groups sd p)); [discriminate|reflexivity].
  - unfold set_group_qos, group_missing in *.
    destruct (find_first (is_group gh) (groups sd p)); [discriminate|reflexivity].
  - unfold get_ep_qos, ep_missing in *.
    destruct (find_first (is_group gh) (groups sd p)); [|reflexivity].
    destruct (find_first (is_ep eh) (g_eps g)); [discriminate|reflexivity].
  - unfold set_ep_qos, ep_missing in *.
    destruct (find_first (is_group gh) (groups sd p)); [|reflexivity].
    destruct (find_first (is_ep eh) (g_eps g)); [discriminate|reflexivity].
  - unfold enable_ep, ep_missing in *.
    destruct (find_first (is_group gh) (groups sd p)); [|reflexivity].
    destruct (find_first (is_ep eh) (g_eps g)); [discriminate|reflexivity].
  - unfold status_ep, ep_missing in *.
    destruct (find_first (is_group gh) (groups sd p)); [|reflexivity].
    destruct (find_first (is_ep eh) (g_eps g)); [discriminate|reflexivity].
  - unfold get_topic_qos, topic_missing in *.
    destruct (find_first (is_topic name) (pa_topics p)); [discriminate|reflexivity].
  - unfold set_topic_qos, topic_missing in *.
    destruct (find_first (is_topic name) (pa_topics p)); [discriminate|reflexivity].
  - unfold enable_topic, topic_missing in *.
    destruct (find_first (is_topic name) (pa_topics p)); [discriminate|reflexivity].
Qed.

(* ---------------------------------------------------------------- deleting through the wrong parent *)
Lemma delete_group_wrong_participant : forall pr f sd ph parent gh p,
    find_part f ph = Some p -> parent <> pa_h p ->
    fstep pr f (FDeleteGroup sd ph parent gh) = (f, RErr E_PRECONDITION).
Proof.
  intros pr f sd ph parent gh p Hf Hne. cbn [fstep]. apply with_part_unchanged with (p := p); auto.
  unfold delete_group. apply heqb_neq in Hne. rewrite Hne. reflexivity.
Qed.
Lemma delete_topic_wrong_participant : forall pr f ph parent name p,
    find_part f ph = Some p -> parent <> pa_h p ->
    fstep pr f (FDeleteTopic ph parent name) = (f, RErr E_PRECONDITION).
Proof.
  intros pr f ph parent name p Hf Hne. cbn [fstep]. apply with_part_unchanged with (p := p); auto.
  unfold delete_topic. assert (H : heqb (pa_h p) parent = false) by (apply heqb_neq; congruence).
  rewrite H. reflexivity.
Qed.
(* a writer/reader can only be deleted through the publisher/subscriber whose list holds it *)
Lemma delete_ep_wrong_group : forall pr f sd ph gh eh p g,
    find_part f ph = Some p -> find_first (is_group gh) (groups sd p) = Some g ->
    ~ In eh (map e_h (g_eps g)) ->
    fstep pr f (FDeleteEp sd ph gh eh) = (f, RErr E_DELETED).
Proof.
  intros pr f sd ph gh eh p g Hf Hg Hn. apply op_on_missing_entity. cbn [target_missing]. rewrite Hf.
  unfold ep_missing. rewrite Hg. destruct (find_first (is_ep eh) (g_eps g)) as [e|] eqn:He; auto.
  exfalso. apply find_first_some in He. destruct He as [Hin He]. unfold is_ep in He. apply heqb_eq in He.
  apply Hn. rewrite <- He. apply in_map; auto.
Qed.

(* ---------------------------------------------------------------- sentence 3: delete_contained_entities *)
Lemma find_part_upd : forall f ph p p',
    find_part f ph = Some p -> pa_h p' = pa_h p ->
    find_first (is_part ph) (upd_first (is_part ph) (fun _ => p') (f_parts f)) = Some p'.
Proof.
  intros f ph p p' Hf Hh. unfold find_part in Hf.
  assert (Hp : is_part ph p = true) by (apply find_first_some in Hf; tauto).
  apply (find_upd_first (is_part ph) (fun _ => p') _ p Hf).
  unfold is_part in *. rewrite Hh; auto.
Qed.

Lemma delete_contained_leaves_empty_and_deletable : forall pr f ph p,
    find_part f ph = Some p ->
    exists f1 p1,
      fstep pr f (FDeleteContained ph) = (f1, RUnit) /\
      find_part f1 ph = Some p1 /\ pa_pubs p1 = [] /\ pa_subs p1 = [] /\ pa_topics p1 = [] /\ pa_cfts p1 = [] /\
      snd (fstep pr f1 (FDeletePart ph)) = RUnit.
Proof.
  intros pr f ph p Hf. cbn [fstep]. unfold with_part. rewrite Hf. cbn [delete_contained].
  set (p1 := set_topics (set_cfts (set_groups SSub (set_groups SPub p []) []) []) []).
  eexists; exists p1. split; [reflexivity|].
  assert (Hf1 : find_part (set_parts f (upd_first (is_part ph) (fun _ => p1) (f_parts f))) ph = Some p1).
  { unfold find_part, set_parts; cbn [f_parts]. apply find_part_upd with (p := p); auto. }
  split; [exact Hf1|]. repeat split; try reflexivity.
  unfold delete_part. rewrite Hf1. reflexivity.
Qed.

(* regression of the former finding C36-cft-not-contained (fixed by 7cc766b) on the model *)
Definition cft_regression : list fop :=
  [FCreatePart None; FCreateTopic (part_handle 0) 1 None; FCreateCft (part_handle 0) (-1) 1;
   FDeleteTopic (part_handle 0) (part_handle 0) 1; FDeleteCft (part_handle 0) (-1); FDeleteCft (part_handle 0) (-1);
   FCreateCft (part_handle 0) (-2) 1; FDeleteContained (part_handle 0); FDeletePart (part_handle 0)].
Lemma cft_is_a_contained_entity : forall pr,
  snd (frun pr init_factory cft_regression) =
  [RHandle (part_handle 0); RHandle (mkH 0 0 0 0 10); RUnit; RErr E_PRECONDITION; RUnit; RErr E_DELETED; RUnit; RUnit;
   RUnit].
Proof. intros [|]; vm_compute; reflexivity. Qed.

(* a failed delete leaves every entity answering: the state is literally the same *)
Lemma failed_delete_changes_nothing : forall pr f o f' c,
    (match o with
     | FDeletePart _ | FDeleteGroup _ _ _ _ | FDeleteTopic _ _ _ | FDeleteEp _ _ _ _ | FDeleteCft _ _ => True
     | _ => False end) ->
    fstep pr f o = (f', RErr c) -> f' = f.
Proof.
  intros pr f o f' c Ho H. destruct o; try contradiction; cbn [fstep] in H.
  - unfold delete_part in H. destruct (find_part f ph); [|inversion H; auto].
    destruct (negb (part_is_empty p)); inversion H; auto.
  - unfold with_part in H. destruct (find_part f ph) as [p|] eqn:Hf; [|inversion H; auto].
    unfold delete_group in H.
    assert (Hid : set_parts f (upd_first (is_part ph) (fun _ => p) (f_parts f)) = f).
    { unfold find_part in Hf. rewrite (upd_first_same _ _ _ Hf). apply set_parts_id. }
    destruct (negb (heqb parent (pa_h p))); [inversion H; subst; auto|].
    destruct (find_first (is_group gh) (groups sd p)); [|inversion H; subst; auto].
    destruct (negb (is_nil (g_eps g))); inversion H; subst; auto.
  - unfold with_part in H. destruct (find_part f ph) as [p|] eqn:Hf; [|inversion H; auto].
    unfold delete_topic in H.
    assert (Hid : set_parts f (upd_first (is_part ph) (fun _ => p) (f_parts f)) = f).
    { unfold find_part in Hf. rewrite (upd_first_same _ _ _ Hf). apply set_parts_id. }
    destruct (negb (heqb (pa_h p) parent)); [inversion H; subst; auto|].
    destruct (find_first (is_topic name) (pa_topics p)); [|inversion H; subst; auto].
    destruct (existsb (uses_topic (t_name t)) (pa_pubs p)); [inversion H; subst; auto|].
    destruct (existsb (uses_topic (t_name t)) (pa_subs p)); [inversion H; subst; auto|].
    destruct (existsb (fun c => c_rel c =? name) (pa_cfts p)); inversion H; subst; auto.
  - unfold with_part in H. destruct (find_part f ph) as [p|] eqn:Hf; [|inversion H; auto].
    unfold delete_cft in H.
    assert (Hid : set_parts f (upd_first (is_part ph) (fun _ => p) (f_parts f)) = f).
    { unfold find_part in Hf. rewrite (upd_first_same _ _ _ Hf). apply set_parts_id. }
    destruct (find_first (is_cft name) (pa_cfts p)); [|inversion H; subst; auto].
    destruct (existsb (uses_topic name) (pa_subs p)); inversion H; subst; auto.
  - unfold with_part in H. destruct (find_part f ph) as [p|] eqn:Hf; [|inversion H; auto].
    unfold delete_endpoint in H.
    assert (Hid : set_parts f (upd_first (is_part ph) (fun _ => p) (f_parts f)) = f).
    { unfold find_part in Hf. rewrite (upd_first_same _ _ _ Hf). apply set_parts_id. }
    destruct (find_first (is_group gh) (groups sd p)); [|inversion H; subst; auto].
    destruct (find_first (is_ep eh) (g_eps g)); inversion H; subst; auto.
Qed.
