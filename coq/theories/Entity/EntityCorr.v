(* Correspondence vocabulary shared by C35 / C36 / C37: one case = one scenario (list of application-level
   operations) together with the results the REAL stack returned for them (harness/src/bin/entity.rs); the model
   (Debug profile = the profile of the harness build) must predict exactly these results. *)
From DustDDS Require Export Base.Machine Entity.EntityModel.
Open Scope Z_scope.

Record ent_case : Type := mkEC { c_ops : list wop; c_outs : list ret }.

Definition ent_model_ok (c : ent_case) : bool := rets_eqb (wrun Debug init_world (c_ops c)) (c_outs c).

(* ---- helpers for the trace oracles (spec-level trackers driven by the observed results) ---- *)
Definition is_err (r : ret) (c : Z) : bool := match r with RErr x => x =? c | _ => false end.
Definition is_unit (r : ret) : bool := match r with RUnit => true | _ => false end.
Definition is_handle (r : ret) : bool := match r with RHandle _ => true | _ => false end.
Definition any_err (r : ret) : bool := match r with RErr _ => true | _ => false end.

Fixpoint updz {A} (l : list A) (i : Z) (g : A -> A) : list A :=
  match l with
  | [] => []
  | x :: t => if i =? 0 then g x :: t else x :: updz t (i - 1) g
  end.

(* pair every op with its result; ops after a panic have none *)
Fixpoint zip_trace (ops : list wop) (outs : list ret) : list (wop * ret) :=
  match ops, outs with
  | o :: ops', r :: outs' => (o, r) :: zip_trace ops' outs'
  | _, _ => []
  end.
