(* Factory level: a handle that was issued and is absent stays absent along every history (no overflow). *)
From DustDDS Require Import Base.Machine Entity.EntityModel Entity.EntityLemmas Entity.HandleInv Entity.HandleStep
     Entity.C35Proofs Entity.NoReuse.
Open Scope Z_scope.

Definition old (f : factory) (h : handle) : Prop :=
  0 <= h_inst h < f_next f /\
  forall p, In p (f_parts f) -> h_inst (pa_h p) = h_inst h -> h = pa_h p \/ old_in p h.

Lemma in_all_handles : forall f h, In h (all_handles f) <-> exists p, In p (f_parts f) /\ In h (part_handles p).
Proof. intros. unfold all_handles. apply in_flat_map. Qed.

Lemma inst_unique : forall f p p', finv f -> In p (f_parts f) -> In p' (f_parts f) ->
    h_inst (pa_h p) = h_inst (pa_h p') -> p = p'.
Proof.
  intros f p p' (_ & Hp & Hd & Hi) Hin Hin' E. rewrite Forall_forall in Hi.
  destruct (Hi p Hin) as (i & _ & Ei). destruct (Hi p' Hin') as (i' & _ & Ei').
  assert (Eh : pa_h p = pa_h p').
  { rewrite Ei, Ei' in *. cbn in E. subst. reflexivity. }
  clear - Hd Hin Hin' Eh. induction (f_parts f) as [|y t IH]; [contradiction|].
  cbn [map] in Hd. inversion Hd; subst. destruct Hin as [<-|Hin], Hin' as [<-|Hin']; auto.
  - exfalso. apply H1. rewrite Eh. apply in_map; auto.
  - exfalso. apply H1. rewrite <- Eh. apply in_map; auto.
Qed.

Lemma present_old : forall f h, finv f -> In h (all_handles f) -> old f h.
Proof.
  intros f h Hinv Hh. apply in_all_handles in Hh. destruct Hh as (p & Hin & Hh).
  pose proof Hinv as (_ & Hp & _ & Hi). rewrite Forall_forall in Hp, Hi.
  pose proof (part_handles_facts p (Hp p Hin) h Hh) as Einst.
  destruct (Hi p Hin) as (i & Hir & Ei). split.
  - rewrite Einst, Ei. cbn. lia.
  - intros p' Hin' E. assert (p' = p) by (eapply inst_unique; eauto; congruence). subst p'.
    apply present_old_in; auto.
Qed.

Lemma part_op_grows : forall pr o ph k, part_op pr o = Some (ph, k) -> grows k.
Proof.
  intros pr o ph k H. destruct o; cbn in H; inversion H; subst; clear H.
  - apply grows_create_group.
  - apply grows_delete_group.
  - apply grows_create_topic.
  - apply grows_delete_topic.
  - apply grows_create_cft.
  - apply grows_keeps, ks_delete_cft.
  - apply grows_create_endpoint.
  - apply grows_delete_endpoint.
  - apply grows_delete_contained.
  - apply grows_keeps, ks_get_part_qos.
  - apply grows_keeps, ks_set_part_qos.
  - apply grows_keeps, ks_enable_part.
  - apply grows_keeps, ks_get_group_qos.
  - apply grows_keeps, ks_set_group_qos.
  - apply grows_keeps, ks_get_ep_qos.
  - apply grows_keeps, ks_set_ep_qos.
  - apply grows_keeps, ks_enable_ep.
  - apply grows_keeps, ks_status_ep.
  - apply grows_keeps, ks_get_topic_qos.
  - apply grows_keeps, ks_set_topic_qos.
  - apply grows_keeps, ks_enable_topic.
Qed.

(* one step: old handles stay old, and whatever is present afterwards was present before or is not old *)
Lemma with_part_old : forall f ph k f' r h,
    preserves k -> grows k -> finv f -> with_part f ph k = (f', r) ->
    (old f h -> old f' h) /\
    (In h (all_handles f') -> In h (all_handles f) \/ ~ old f h).
Proof.
  intros f ph k f' r h Hpres Hgr Hinv Hw. unfold with_part in Hw.
  destruct (find_part f ph) as [p|] eqn:Hf; [|inversion Hw; subst; auto].
  destruct (k p) as [p' r'] eqn:Hkp. inversion Hw; subst; clear Hw.
  unfold find_part in Hf. destruct (find_first_some _ _ _ Hf) as [Hin _].
  pose proof Hinv as (_ & Hp & _ & _). rewrite Forall_forall in Hp.
  specialize (Hpres p (Hp p Hin)). specialize (Hgr p (Hp p Hin)). rewrite Hkp in *. cbn [fst snd] in *.
  destruct Hpres as (Hi' & Hh' & _). destruct Hgr as [Hcnt Hnew].
  split.
  - intros [Hr Hold]. split; [exact Hr|]. cbn [f_parts set_parts]. intros q Hq E.
    apply upd_first_in in Hq. destruct Hq as [Hq|(y & Hy & _ & ->)]; [auto|].
    rewrite Hh' in *. destruct (Hold p Hin E) as [H|H]; auto. right. eapply old_in_mono; eauto.
  - intros Hh. apply in_all_handles in Hh. cbn [f_parts set_parts] in Hh. destruct Hh as (q & Hq & Hhq).
    apply upd_first_in in Hq. destruct Hq as [Hq|(y & Hy & _ & ->)].
    + left. apply in_all_handles. exists q; auto.
    + destruct (Hnew h Hhq) as [H|[Hno Hne]].
      * left. apply in_all_handles. exists p; auto.
      * right. intros [_ Hold]. pose proof (part_handles_facts p' Hi' h Hhq) as Einst. rewrite Hh' in Einst.
        destruct (Hold p Hin (eq_sym Einst)) as [H|H]; auto.
Qed.

Lemma fstep_old : forall pr f o f' r h,
    finv f -> fstep pr f o = (f', r) -> any_ovf f' = false ->
    (old f h -> old f' h) /\ (In h (all_handles f') -> In h (all_handles f) \/ ~ old f h).
Proof.
  intros pr f o f' r h Hinv Hs Ho.
  destruct (part_op pr o) as [[ph k]|] eqn:Hop.
  - rewrite (part_op_spec _ _ _ _ f Hop) in Hs.
    eapply with_part_old; eauto; [eapply part_op_preserves|eapply part_op_grows]; eauto.
  - destruct o; cbn in Hop; try discriminate; cbn [fstep] in Hs.
    + inversion Hs; subst. split; auto.
    + (* create participant *)
      unfold create_part in Hs. inversion Hs; subst; clear Hs.
      unfold any_ovf in Ho. cbn [f_ovf f_parts] in Ho. apply orb_false_iff in Ho. destruct Ho as [_ Hmax].
      apply Z.eqb_neq in Hmax.
      destruct Hinv as (Hn & _).
      assert (Hw : wrap_u32 (f_next f + 1) = f_next f + 1).
      { unfold wrap_u32, two32, u32_max in *. rewrite Z.mod_small; lia. }
      set (p1 := if f_auto f then fst (enable_part (new_part (part_handle (f_next f)) (match q with Some x => x | None => f_defp f end)))
                 else new_part (part_handle (f_next f)) (match q with Some x => x | None => f_defp f end)).
      assert (Hp1 : pa_h p1 = part_handle (f_next f) /\ part_handles p1 = [part_handle (f_next f)]).
      { unfold p1. destruct (f_auto f); split; reflexivity. }
      destruct Hp1 as [Hh1 Hl1]. split.
      * intros [Hr Hold]. split; [cbn [f_next]; rewrite Hw; lia|]. cbn [f_parts]. intros p Hp E.
        apply in_app_iff in Hp. destruct Hp as [Hp|[<-|[]]]; auto.
        exfalso. change (h_inst (pa_h p1) = h_inst h) in E. rewrite Hh1 in E. cbn in E. lia.
      * intros Hh. apply in_all_handles in Hh. cbn [f_parts] in Hh. destruct Hh as (p & Hp & Hhp).
        apply in_app_iff in Hp. destruct Hp as [Hp|[<-|[]]].
        -- left. apply in_all_handles. exists p; auto.
        -- right. change (In h (part_handles p1)) in Hhp. rewrite Hl1 in Hhp. destruct Hhp as [<-|[]].
           intros [Hr _]. cbn in Hr. lia.
    + (* delete participant *)
      unfold delete_part in Hs. destruct (find_part f ph); [|inversion Hs; subst; auto].
      destruct (negb (part_is_empty p)); [inversion Hs; subst; auto|].
      inversion Hs; subst; clear Hs. split.
      * intros [Hr Hold]. split; [exact Hr|]. cbn [f_parts]. intros q Hq E. apply Hold; auto.
        eapply rem_first_in; eauto.
      * intros Hh. left. apply in_all_handles in Hh. cbn [f_parts] in Hh. destruct Hh as (q & Hq & Hhq).
        apply in_all_handles. exists q. split; auto. eapply rem_first_in; eauto.
Qed.

(* what was issued and is gone never comes back *)
Lemma frun_gone_stays_gone : forall pr ops f h,
    finv f -> any_ovf (fst (frun pr f ops)) = false ->
    old f h -> ~ In h (all_handles f) ->
    old (fst (frun pr f ops)) h /\ ~ In h (all_handles (fst (frun pr f ops))).
Proof.
  intros pr ops. induction ops as [|o t IH]; intros f h Hinv Ho Hold Habs; [cbn; auto|].
  destruct (fstep pr f o) as [f1 r] eqn:Hs. rewrite (frun_cons _ _ _ _ _ _ Hs) in *.
  destruct (is_rpanic r) eqn:Hr; cbn [fst] in *.
  - destruct (fstep_old pr f o f1 r h Hinv Hs Ho) as [H1 H2]. split; auto. intros H. destruct (H2 H); auto.
  - assert (Hf1 : any_ovf f1 = false) by (eapply frun_ovf_mono; eauto).
    destruct (fstep_inv pr f o f1 r Hinv Hs Hf1) as (Hinv1 & _ & _).
    destruct (fstep_old pr f o f1 r h Hinv Hs Hf1) as [H1 H2].
    apply IH; auto. intros H. destruct (H2 H); auto.
Qed.

Lemma frun_old_mono : forall pr ops f h,
    finv f -> any_ovf (fst (frun pr f ops)) = false -> old f h -> old (fst (frun pr f ops)) h.
Proof.
  intros pr ops. induction ops as [|o t IH]; intros f h Hinv Ho Hold; [exact Hold|].
  destruct (fstep pr f o) as [f1 r] eqn:Hs. rewrite (frun_cons _ _ _ _ _ _ Hs) in *.
  destruct (is_rpanic r) eqn:Hr; cbn [fst] in *.
  - destruct (fstep_old pr f o f1 r h Hinv Hs Ho) as [H1 _]. auto.
  - assert (Hf1 : any_ovf f1 = false) by (eapply frun_ovf_mono; eauto).
    destruct (fstep_inv pr f o f1 r Hinv Hs Hf1) as (Hinv1 & _ & _).
    destruct (fstep_old pr f o f1 r h Hinv Hs Hf1) as [H1 _]. apply IH; auto.
Qed.

Theorem deleted_handle_never_returns : forall pr opsA opsB opsC h,
    let fA := fst (frun pr init_factory opsA) in
    let fB := fst (frun pr fA opsB) in
    let fC := fst (frun pr fB opsC) in
    any_ovf fC = false ->
    In h (all_handles fA) -> ~ In h (all_handles fB) -> ~ In h (all_handles fC).
Proof.
  intros pr opsA opsB opsC h fA fB fC Ho HA HB.
  assert (HoB : any_ovf fB = false) by (eapply frun_ovf_mono; eauto).
  assert (HoA : any_ovf fA = false) by (eapply frun_ovf_mono; eauto).
  destruct (frun_inv pr opsA init_factory finv_init HoA) as [HiA _]. fold fA in HiA.
  destruct (frun_inv pr opsB fA HiA HoB) as [HiB _]. fold fB in HiB.
  pose proof (present_old fA h HiA HA) as HoldA.
  pose proof (frun_old_mono pr opsB fA h HiA HoB HoldA) as HoldB. fold fB in HoldB.
  destruct (frun_gone_stays_gone pr opsC fB h HiB Ho HoldB HB) as [_ H]. exact H.
Qed.

(* ------------------------------------------------------------------ absent handle => the entity is missing *)
Lemma find_group_present : forall f p sd gh g, In p (f_parts f) ->
    find_first (is_group gh) (groups sd p) = Some g -> In gh (all_handles f).
Proof.
  intros f p sd gh g Hp Hg. apply find_first_some in Hg. destruct Hg as [Hin Hh]. unfold is_group in Hh.
  apply heqb_eq in Hh. subst gh. apply in_all_handles. exists p. split; auto.
  unfold part_handles. right. rewrite !in_app_iff.
  destruct sd; [left|right; left]; apply in_flat_map; exists g; split; auto; left; reflexivity.
Qed.
Lemma find_ep_present : forall f p sd g eh e, In p (f_parts f) -> In g (groups sd p) ->
    find_first (is_ep eh) (g_eps g) = Some e -> In eh (all_handles f).
Proof.
  intros f p sd g eh e Hp Hg He. apply find_first_some in He. destruct He as [Hin Hh]. unfold is_ep in Hh.
  apply heqb_eq in Hh. subst eh. apply in_all_handles. exists p. split; auto.
  unfold part_handles. right. rewrite !in_app_iff.
  destruct sd; [left|right; left]; apply in_flat_map; exists g; split; auto; right; apply in_map; auto.
Qed.
Lemma find_part_present : forall f ph p, find_part f ph = Some p -> In ph (all_handles f).
Proof.
  intros f ph p H. unfold find_part in H. apply find_first_some in H. destruct H as [Hin Hh]. unfold is_part in Hh.
  apply heqb_eq in Hh. subst ph. apply in_all_handles. exists p. split; auto. left; reflexivity.
Qed.
