(* C36 — the history part: a deleted entity (handle issued, no longer in the tree) never comes back, so every
   operation naming its handle returns AlreadyDeleted for ever; topics are addressed by name and escape this. *)
From DustDDS Require Import Base.Machine Entity.EntityModel Entity.EntityLemmas Entity.HandleInv Entity.HandleStep
     Entity.C35Proofs Entity.NoReuse Entity.NoReuseRun Entity.C36Proofs.
Open Scope Z_scope.

(* h is the handle through which mail o reaches its target: the participant, the publisher/subscriber or the
   writer/reader handle (for delete_publisher/subscriber: the handle of the entity to delete when the call goes
   through the participant it names as parent) *)
Definition names_handle (o : fop) (h : handle) : bool :=
  match o with
  | FSetFactoryQos _ | FCreatePart _ => false
  | FDeletePart ph => heqb ph h
  | FCreateGroup _ ph _ | FCreateTopic ph _ _ | FCreateCft ph _ _ | FDeleteCft ph _ | FDeleteContained ph
  | FGetPartQos ph | FSetPartQos ph _ | FEnablePart ph
  | FGetTopicQos ph _ | FSetTopicQos ph _ _ | FEnableTopic ph _ | FDeleteTopic ph _ _ => heqb ph h
  | FDeleteGroup _ ph parent gh => heqb ph h || (heqb parent ph && heqb gh h)
  | FCreateEp _ ph gh _ _ | FGetGroupQos _ ph gh | FSetGroupQos _ ph gh _ => heqb ph h || heqb gh h
  | FDeleteEp _ ph gh eh | FGetEpQos _ ph gh eh | FSetEpQos _ ph gh eh _ | FEnableEp _ ph gh eh
  | FStatusEp _ ph gh eh => heqb ph h || heqb gh h || heqb eh h
  end.

Lemma find_part_handle : forall f ph p, find_part f ph = Some p -> pa_h p = ph /\ In p (f_parts f).
Proof.
  intros f ph p H. unfold find_part in H. apply find_first_some in H. destruct H as [Hin Hh].
  unfold is_part in Hh. apply heqb_eq in Hh. auto.
Qed.

Lemma absent_handle_target_missing : forall f o h,
    names_handle o h = true -> ~ In h (all_handles f) -> target_missing f o = true.
Proof.
  intros f o h Hn Ha.
  assert (Hpart : forall ph, heqb ph h = true -> find_part f ph = None).
  { intros ph E. apply heqb_eq in E. subst ph. destruct (find_part f h) eqn:Hf; auto.
    exfalso. apply Ha. eapply find_part_present; eauto. }
  assert (Hgrp : forall sd p gh, In p (f_parts f) -> heqb gh h = true -> group_missing sd p gh = true).
  { intros sd p gh Hp E. apply heqb_eq in E. subst gh. unfold group_missing.
    destruct (find_first (is_group h) (groups sd p)) eqn:Hg; auto.
    exfalso. apply Ha. eapply find_group_present; eauto. }
  assert (Hep : forall sd p gh eh, In p (f_parts f) -> heqb gh h = true \/ heqb eh h = true -> ep_missing sd p gh eh = true).
  { intros sd p gh eh Hp E. unfold ep_missing.
    destruct (find_first (is_group gh) (groups sd p)) as [g|] eqn:Hg; auto.
    destruct E as [E|E].
    - apply heqb_eq in E. subst gh. exfalso. apply Ha. eapply find_group_present; eauto.
    - apply heqb_eq in E. subst eh. destruct (find_first (is_ep h) (g_eps g)) eqn:He; auto.
      exfalso. apply Ha. apply find_first_some in Hg. destruct Hg as [Hgin _]. eapply find_ep_present; eauto. }
  destruct o; cbn [names_handle target_missing] in *; try discriminate;
    try (rewrite (Hpart _ Hn); reflexivity);
    destruct (find_part f ph) as [p|] eqn:Hf; auto;
    destruct (find_part_handle _ _ _ Hf) as [Hh Hin];
    repeat (apply orb_true_iff in Hn; destruct Hn as [Hn|Hn]);
    try (rewrite (Hpart _ Hn) in Hf; discriminate).
  all: try (apply andb_true_iff in Hn; destruct Hn as [Hpar Hg]; rewrite Hh, Hpar; cbn [andb]; eapply Hgrp; eauto; fail).
  all: try (destruct (lookup_topic sd p name); auto).
  all: first [eapply Hgrp; eauto; fail | eapply Hep; eauto; fail].
Qed.

Theorem operations_on_deleted_entities : forall pr opsA opsB opsC h o,
    let fA := fst (frun pr init_factory opsA) in
    let fB := fst (frun pr fA opsB) in
    let fC := fst (frun pr fB opsC) in
    any_ovf fC = false ->
    In h (all_handles fA) -> ~ In h (all_handles fB) ->
    names_handle o h = true ->
    fstep pr fC o = (fC, RErr E_DELETED).
Proof.
  intros pr opsA opsB opsC h o fA fB fC Ho HA HB Hn.
  apply op_on_missing_entity. eapply absent_handle_target_missing; eauto.
  eapply deleted_handle_never_returns; eauto.
Qed.

(* topics are addressed by (participant, name): once the name is created again the mails of the old proxy reach
   the new topic *)
Definition q_keep5 : eqos :=
  mkEQ 0 None (Some 0) 0 None 0 (Some 100000000) 0 (Some 5) None None None 0 None 0 0 0 (Some 0) 0 true None.
Lemma deleted_topic_answers_again_after_name_reuse :
  snd (frun Debug init_factory
         [FCreatePart None; FCreateTopic (part_handle 0) 1 None; FDeleteTopic (part_handle 0) (part_handle 0) 1;
          FGetTopicQos (part_handle 0) 1; FCreateTopic (part_handle 0) 1 (Some q_keep5);
          FGetTopicQos (part_handle 0) 1]) =
  [RHandle (part_handle 0); RHandle (mkH 0 0 0 0 10); RUnit; RErr E_DELETED; RHandle (mkH 0 0 1 0 10); REQ q_keep5].
Proof. vm_compute. reflexivity. Qed.
