(* Lemmas about the Vec helpers and handles shared by the C35 / C36 / C37 proofs. *)
From DustDDS Require Import Base.Machine Entity.EntityModel.
Open Scope Z_scope.

Lemma heqb_eq : forall a b, heqb a b = true <-> a = b.
Proof.
  intros [a1 a2 a3 a4 a5] [b1 b2 b3 b4 b5]; unfold heqb; cbn [h_inst h_k0 h_k1 h_k2 h_kind].
  rewrite !andb_true_iff, !Z.eqb_eq. split.
  - intros [[[[-> ->] ->] ->] ->]; reflexivity.
  - intros H; inversion H; auto.
Qed.
Lemma heqb_refl : forall a, heqb a a = true.
Proof. intros; apply heqb_eq; reflexivity. Qed.
Lemma heqb_neq : forall a b, heqb a b = false <-> a <> b.
Proof.
  intros a b; split; intros H.
  - intros E; apply heqb_eq in E; congruence.
  - destruct (heqb a b) eqn:E; auto. apply heqb_eq in E; contradiction.
Qed.
Lemma heqb_sym : forall a b, heqb a b = heqb b a.
Proof.
  intros a b. destruct (heqb a b) eqn:E.
  - apply heqb_eq in E; subst; symmetry; apply heqb_refl.
  - symmetry; apply heqb_neq; apply heqb_neq in E; congruence.
Qed.

Section ListLemmas.
  Context {A : Type}.
  Implicit Types (p : A -> bool) (l : list A).

  Lemma find_first_some : forall p l x, find_first p l = Some x -> In x l /\ p x = true.
  Proof.
    induction l as [|y t IH]; cbn; intros x H; [discriminate|].
    destruct (p y) eqn:E.
    - inversion H; subst; auto.
    - destruct (IH _ H); auto.
  Qed.
  Lemma find_first_none : forall p l, find_first p l = None <-> forall x, In x l -> p x = false.
  Proof.
    induction l as [|y t IH]; cbn.
    - split; intros; [contradiction|reflexivity].
    - destruct (p y) eqn:E; split; intros H.
      + discriminate.
      + rewrite (H y) in E by auto; discriminate.
      + intros x [<-|Hx]; auto. apply IH; auto.
      + apply IH; intros; apply H; auto.
  Qed.
  Lemma find_first_app : forall p l1 l2,
      find_first p (l1 ++ l2) = match find_first p l1 with Some x => Some x | None => find_first p l2 end.
  Proof. induction l1 as [|y t IH]; cbn; intros; auto. destruct (p y); auto. Qed.

  (* writing back what was found changes nothing *)
  Lemma upd_first_same : forall p l x, find_first p l = Some x -> upd_first p (fun _ => x) l = l.
  Proof.
    induction l as [|y t IH]; cbn; intros x H; [reflexivity|].
    destruct (p y); [inversion H; reflexivity|]. rewrite IH; auto.
  Qed.
  Lemma upd_first_none : forall p g l, find_first p l = None -> upd_first p g l = l.
  Proof.
    induction l as [|y t IH]; cbn; intros H; [reflexivity|].
    destruct (p y); [discriminate|]. rewrite IH; auto.
  Qed.
  Lemma upd_first_in : forall p g l x, In x (upd_first p g l) -> In x l \/ exists y, In y l /\ p y = true /\ x = g y.
  Proof.
    induction l as [|y t IH]; cbn; intros x H; [contradiction|].
    destruct (p y) eqn:E; cbn in H.
    - destruct H as [<-|H]; [right; exists y; auto|auto].
    - destruct H as [<-|H]; [auto|]. destruct (IH _ H) as [?|(z & ? & ? & ?)]; [auto|right; exists z; auto].
  Qed.
  Lemma upd_first_length : forall p g l, length (upd_first p g l) = length l.
  Proof. induction l as [|y t IH]; cbn; auto. destruct (p y); cbn; auto. Qed.
  Lemma upd_first_map : forall {B} (k : A -> B) p g l,
      (forall y, k (g y) = k y) -> map k (upd_first p g l) = map k l.
  Proof. induction l as [|y t IH]; cbn; intros H; auto. destruct (p y); cbn; rewrite ?H, ?IH; auto. Qed.
  Lemma find_upd_first : forall p g l x,
      find_first p l = Some x -> p (g x) = true -> find_first p (upd_first p g l) = Some (g x).
  Proof.
    induction l as [|y t IH]; cbn; intros x H Hg; [discriminate|].
    destruct (p y) eqn:E.
    - inversion H; subst. cbn. rewrite Hg; reflexivity.
    - cbn. rewrite E. apply IH; auto.
  Qed.

  Lemma rem_first_in : forall p l x, In x (rem_first p l) -> In x l.
  Proof.
    induction l as [|y t IH]; cbn; intros x H; auto.
    destruct (p y); [auto|]. destruct H; auto.
  Qed.
  Lemma rem_first_none : forall p l, find_first p l = None -> rem_first p l = l.
  Proof.
    induction l as [|y t IH]; cbn; intros H; auto.
    destruct (p y); [discriminate|]. rewrite IH; auto.
  Qed.
  Lemma filter_in' : forall p l x, In x (filter p l) -> In x l.
  Proof. intros p l x H; apply filter_In in H; tauto. Qed.

  Lemma is_nil_true : forall l, is_nil l = true <-> l = [].
  Proof. destruct l; cbn; split; intros; congruence. Qed.
End ListLemmas.

Lemma nodup_map_sub : forall {A B} (k : A -> B) (l l' : list A),
    NoDup (map k l) -> (forall x, In x l' -> In x l) -> NoDup l' -> NoDup (map k l').
Proof.
  intros A B k l l' Hn Hs Hd.
  induction Hd as [|x t Hx Hd IH]; cbn; [constructor|].
  constructor.
  - intros Hin. apply in_map_iff in Hin. destruct Hin as (y & Hy & Hyt).
    assert (x = y).
    { clear IH. assert (Hxl : In x l) by (apply Hs; left; auto).
      assert (Hyl : In y l) by (apply Hs; right; auto).
      revert Hn Hxl Hyl Hy. clear. induction l as [|z l IH]; cbn; intros Hn Hx Hy E; [contradiction|].
      inversion Hn; subst.
      destruct Hx as [->|Hx], Hy as [->|Hy]; auto.
      - exfalso; apply H1. rewrite <- E. apply in_map; auto.
      - exfalso; apply H1. rewrite E. apply in_map; auto. }
    subst; contradiction.
  - apply IH. intros; apply Hs; right; auto.
Qed.
