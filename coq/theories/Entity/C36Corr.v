(* C36 — correspondence and trace oracle.
   The oracle is a spec-level tracker of the DDS entity tree (which proxies denote live entities, who is whose
   parent, which topic names are in use), updated from the OBSERVED results, that checks every result against
   the property:  delete of a non-empty parent / of a topic in use -> PreconditionNotMet, the entity and its
   children keep answering; any operation through a proxy of a deleted entity -> AlreadyDeleted; deleting through
   a parent that is not the entity's parent fails; after delete_contained_entities every child (content filtered
   topics included, since 7cc766b) is deleted and delete_participant succeeds.  Every violation carries a class: 0 = not explained, k > 0 = the recorded
   finding k. *)
From DustDDS Require Export Entity.EntityCorr.
Open Scope Z_scope.

(* one tracked proxy *)
Record tent : Type := mkTE {
  te_live : bool;
  te_part : Z;       (* index of the participant proxy it belongs to (a participant: its own index) *)
  te_par : Z;        (* index of the parent publisher/subscriber proxy (endpoints), else -1 *)
  te_name : Z;       (* topic: its name; cft: the related topic's name; endpoint: the name of the topic it uses *)
  te_flag : bool;    (* endpoint: created on a content filtered topic *)
  te_cft : Z         (* content filtered topic: its own name; reader created on one: that name; else 0 *)
}.
Record trk : Type := mkTrk {
  k_P : list tent; k_T : list tent; k_C : list tent; k_PUB : list tent; k_SUB : list tent;
  k_W : list tent; k_R : list tent
}.
Definition trk0 : trk := mkTrk [] [] [] [] [] [] [].

Definition kill (e : tent) : tent := mkTE false (te_part e) (te_par e) (te_name e) (te_flag e) (te_cft e).
Fixpoint kill_first (f : tent -> bool) (l : list tent) : list tent :=
  match l with
  | [] => []
  | e :: t => if te_live e && f e then kill e :: t else e :: kill_first f t
  end.
Definition kill_if (p : tent -> bool) (l : list tent) : list tent := map (fun e => if p e then kill e else e) l.
Definition ex_live (p : tent -> bool) (l : list tent) : bool := existsb (fun e => te_live e && p e) l.

Definition k_G (sd : side) (k : trk) := match sd with SPub => k_PUB k | SSub => k_SUB k end.
Definition k_E (sd : side) (k : trk) := match sd with SPub => k_W k | SSub => k_R k end.
Definition set_P k l := mkTrk l (k_T k) (k_C k) (k_PUB k) (k_SUB k) (k_W k) (k_R k).
Definition set_T k l := mkTrk (k_P k) l (k_C k) (k_PUB k) (k_SUB k) (k_W k) (k_R k).
Definition set_C k l := mkTrk (k_P k) (k_T k) l (k_PUB k) (k_SUB k) (k_W k) (k_R k).
Definition set_G sd k l :=
  match sd with
  | SPub => mkTrk (k_P k) (k_T k) (k_C k) l (k_SUB k) (k_W k) (k_R k)
  | SSub => mkTrk (k_P k) (k_T k) (k_C k) (k_PUB k) l (k_W k) (k_R k)
  end.
Definition set_E sd k l :=
  match sd with
  | SPub => mkTrk (k_P k) (k_T k) (k_C k) (k_PUB k) (k_SUB k) l (k_R k)
  | SSub => mkTrk (k_P k) (k_T k) (k_C k) (k_PUB k) (k_SUB k) (k_W k) l
  end.

Definition in_part (p : Z) (e : tent) : bool := te_part e =? p.
Definition part_live (k : trk) (p : Z) : bool :=
  match nthz (k_P k) p with Some e => te_live e | None => false end.
(* live contained entities of participant p *)
Definition has_children (k : trk) (p : Z) : bool :=
  ex_live (in_part p) (k_T k) || ex_live (in_part p) (k_C k) || ex_live (in_part p) (k_PUB k)
  || ex_live (in_part p) (k_SUB k).
Definition group_has_eps (sd : side) (k : trk) (g : Z) : bool := ex_live (fun e => te_par e =? g) (k_E sd k).
Definition uses (p name : Z) (e : tent) : bool := (te_part e =? p) && (te_name e =? name).
(* direct users: readers/writers created on the topic itself; indirect: through a content filtered topic *)
Definition topic_direct_use (k : trk) (p name : Z) : bool :=
  ex_live (fun e => uses p name e && negb (te_flag e)) (k_W k)
  || ex_live (fun e => uses p name e && negb (te_flag e)) (k_R k).
(* a live content filtered topic refers to the topic (a reader created on one keeps it alive) *)
Definition topic_cft_use (k : trk) (p name : Z) : bool := ex_live (uses p name) (k_C k).
(* content filtered topics are resolved by name as well: another live proxy of the same participant and name *)
Definition same_cft (ce : tent) (e : tent) : bool := (te_part e =? te_part ce) && (te_cft e =? te_cft ce).
Definition cft_twin (k : trk) (ce : tent) : bool := ex_live (same_cft ce) (k_C k).
(* another LIVE topic proxy with the same participant and name (the name was created again) *)
Definition name_recreated (k : trk) (p name : Z) : bool := ex_live (uses p name) (k_T k).

Definition kill_part_children (k : trk) (p : Z) : trk :=
  mkTrk (k_P k) (kill_if (in_part p) (k_T k)) (kill_if (in_part p) (k_C k)) (kill_if (in_part p) (k_PUB k))
        (kill_if (in_part p) (k_SUB k)) (kill_if (in_part p) (k_W k)) (kill_if (in_part p) (k_R k)).

(* class 1 (content filtered topics not contained) was repaired by 7cc766b *)
Definition CLS_NAME : N := 2%N.    (* topic proxies are resolved by name: a stale proxy reaches the new topic *)

(* an operation through proxy e that is NOT a delete: dead -> AlreadyDeleted, live -> anything but AlreadyDeleted *)
Definition chk_use (live : bool) (r : ret) (cls_if_alive_answer : N) : list N :=
  if live then (if is_err r E_DELETED then [0%N] else [])
  else (if is_err r E_DELETED then [] else [cls_if_alive_answer]).

Definition topic_entry_live (k : trk) (e : tent) : bool := te_live e && part_live k (te_part e).
(* class of "a dead topic proxy answered": known when the name exists again *)
Definition stale_topic_cls (k : trk) (e : tent) : N :=
  if name_recreated k (te_part e) (te_name e) then CLS_NAME else 0%N.

Definition c36_step (k : trk) (o : wop) (r : ret) : trk * list N :=
  match r with
  | RPanic => (k, [0%N])
  | RBad => (k, [])
  | _ =>
  match o with
  | WFq _ => (k, [])
  | WP _ =>
      if is_handle r then (set_P k (k_P k ++ [mkTE true (Z.of_nat (length (k_P k))) (-1) 0 false 0]), [])
      else (k, [0%N])
  | WT p name _ =>
      let v := chk_use (part_live k p) r 0%N in
      if is_handle r then (set_T k (k_T k ++ [mkTE true p (-1) name false 0]), v) else (k, v)
  | WCft p name t =>
      match nthz (k_T k) t with
      | None => (k, [])
      | Some te =>
          let live := topic_entry_live k te in
          (* the deleted topic is an ARGUMENT here: any error will do (the code says PreconditionNotMet) *)
          let v := if live then chk_use true r 0%N
                   else if any_err r then [] else [stale_topic_cls k te] in
          if is_unit r then
            (set_C k (k_C k ++ [mkTE true (te_part te) (-1) (te_name te) false name]), v)
          else (k, v)
      end
  | WG sd p _ =>
      let v := chk_use (part_live k p) r 0%N in
      if is_handle r then (set_G sd k (k_G sd k ++ [mkTE true p (-1) 0 false 0]), v) else (k, v)
  | WE sd g t _ =>
      match nthz (k_G sd k) g, nthz (k_T k) t with
      | Some ge, Some te =>
          let glive := te_live ge && part_live k (te_part ge) in
          (* the topic proxy must denote a live topic of the group's participant *)
          let same := te_part te =? te_part ge in
          let tlive := topic_entry_live k te in
          let v := if negb glive then chk_use false r 0%N
                   else if negb same then []
                   else if tlive then chk_use true r 0%N
                   else chk_use false r (stale_topic_cls k te) in
          if is_handle r then (set_E sd k (k_E sd k ++ [mkTE true (te_part ge) g (te_name te) false 0]), v)
          else (k, v)
      | _, _ => (k, [])
      end
  | WRc g c _ =>
      match nthz (k_SUB k) g, nthz (k_C k) c with
      | Some ge, Some ce =>
          let glive := te_live ge && part_live k (te_part ge) in
          let same := te_part ce =? te_part ge in
          let v := if negb glive then chk_use false r 0%N
                   else if negb same then []
                   else if te_live ce then chk_use true r 0%N
                   else if cft_twin k ce then []
                   else chk_use false r 0%N in
          if is_handle r then (set_E SSub k (k_R k ++ [mkTE true (te_part ge) g (te_name ce) true (te_cft ce)]), v)
          else (k, v)
      | _, _ => (k, [])
      end
  | WDelE sd e via =>
      match nthz (k_E sd k) e with
      | None => (k, [])
      | Some ee =>
          let own := match via with None => true | Some v => v =? te_par ee end in
          let vialive := match via with
                         | None => true
                         | Some v => match nthz (k_G sd k) v with
                                     | Some ge => te_live ge && part_live k (te_part ge) | None => false end
                         end in
          let k1 := if is_unit r then set_E sd k (updz (k_E sd k) e kill) else k in
          if negb (te_live ee) then (k1, if any_err r then [] else [0%N])
          else if negb own || negb vialive then (k1, if any_err r then [] else [0%N])
          else (k1, if is_unit r then [] else [0%N])
      end
  | WDelG sd g via =>
      match nthz (k_G sd k) g with
      | None => (k, [])
      | Some ge =>
          let own := match via with None => true | Some v => v =? te_part ge end in
          let vp := match via with None => te_part ge | Some v => v end in
          let k1 := if is_unit r then set_G sd k (updz (k_G sd k) g kill) else k in
          if negb (te_live ge) || negb (part_live k (te_part ge)) then
            (k1, if (if own then is_err r E_DELETED else any_err r) then [] else [0%N])
          else if negb own || negb (part_live k vp) then (k1, if any_err r then [] else [0%N])
          else if group_has_eps sd k g then (k1, if is_err r E_PRECONDITION then [] else [0%N])
          else (k1, if is_unit r then [] else [0%N])
      end
  | WDelT t via =>
      match nthz (k_T k) t with
      | None => (k, [])
      | Some te =>
          let p := te_part te in
          let own := match via with None => true | Some v => v =? p end in
          let vp := match via with None => p | Some v => v end in
          (* the implementation deletes BY NAME: follow it *)
          let k1 := if is_unit r then set_T k (kill_if (uses p (te_name te)) (k_T k)) else k in
          if negb (topic_entry_live k te) then
            (k1, if (if own then is_err r E_DELETED else any_err r) then []
                 else [if own then stale_topic_cls k te else 0%N])
          else if negb own || negb (part_live k vp) then (k1, if any_err r then [] else [0%N])
          else if topic_direct_use k p (te_name te) then (k1, if is_err r E_PRECONDITION then [] else [0%N])
          else if topic_cft_use k p (te_name te) then (k1, if is_err r E_PRECONDITION then [] else [0%N])
          else (k1, if is_unit r then [] else [0%N])
      end
  | WDelCft c via =>
      match nthz (k_C k) c with
      | None => (k, [])
      | Some ce =>
          let live := te_live ce && part_live k (te_part ce) in
          (* the implementation removes the first entry of that name: follow it *)
          let k1 := if is_unit r then
                      set_C k (if live then updz (k_C k) c kill else kill_first (same_cft ce) (k_C k))
                    else k in
          if negb live then
            (k1, if cft_twin k ce && part_live k (te_part ce) then [] else if is_err r E_DELETED then [] else [0%N])
          else if ex_live (fun e => te_flag e && same_cft ce e) (k_R k) then
            (* a reader was created on it *)
            (k1, if is_err r E_PRECONDITION then [] else [0%N])
          else (k1, if is_unit r then [] else [0%N])
      end
  | WDelAll p =>
      if part_live k p then
        (if is_unit r then (kill_part_children k p, []) else (k, [0%N]))
      else (k, if is_err r E_DELETED then [] else [0%N])
  | WDelP p =>
      match nthz (k_P k) p with
      | None => (k, [])
      | Some pe =>
          let k1 := if is_unit r then set_P (kill_part_children k p) (updz (k_P k) p kill) else k in
          if negb (te_live pe) then (k1, if is_err r E_DELETED then [] else [0%N])
          else if has_children k p then (k1, if is_err r E_PRECONDITION then [] else [0%N])
          else (k1, if is_unit r then [] else [0%N])
      end
  | WGq kd i | WEn kd i =>
      match kd with
      | KP => (k, chk_use (part_live k i) r 0%N)
      | KT => match nthz (k_T k) i with
              | Some te => (k, chk_use (topic_entry_live k te) r (stale_topic_cls k te)) | None => (k, []) end
      | KPUB => match nthz (k_PUB k) i with
                | Some e => (k, chk_use (te_live e && part_live k (te_part e)) r 0%N) | None => (k, []) end
      | KSUB => match nthz (k_SUB k) i with
                | Some e => (k, chk_use (te_live e && part_live k (te_part e)) r 0%N) | None => (k, []) end
      | KW => match nthz (k_W k) i with
              | Some e => (k, chk_use (te_live e && part_live k (te_part e)) r 0%N) | None => (k, []) end
      | KR => match nthz (k_R k) i with
              | Some e => (k, chk_use (te_live e && part_live k (te_part e)) r 0%N) | None => (k, []) end
      end
  | WSqP i _ => (k, chk_use (part_live k i) r 0%N)
  | WSqG sd i _ =>
      match nthz (k_G sd k) i with
      | Some e => (k, chk_use (te_live e && part_live k (te_part e)) r 0%N) | None => (k, []) end
  | WSqE sd i _ | WSt sd i =>
      match nthz (k_E sd k) i with
      | Some e => (k, chk_use (te_live e && part_live k (te_part e)) r 0%N) | None => (k, []) end
  | WSqT i _ =>
      match nthz (k_T k) i with
      | Some te => (k, chk_use (topic_entry_live k te) r (stale_topic_cls k te)) | None => (k, []) end
  | WH _ _ | WKeepnet | WSettle | WMpd _ _ | WMsd _ _ => (k, [])
  | WBurnG _ p _ | WBurnT p _ => (k, chk_use (part_live k p) (match r with RBurn _ x => x | x => x end) 0%N)
  | WBurnE sd g _ _ =>
      match nthz (k_G sd k) g with
      | Some e => (k, chk_use (te_live e && part_live k (te_part e)) (match r with RBurn _ x => x | x => x end) 0%N)
      | None => (k, []) end
  end
  end.

Fixpoint c36_run (k : trk) (tr : list (wop * ret)) : list N :=
  match tr with
  | [] => []
  | (o, r) :: t => let (k1, v) := c36_step k o r in v ++ c36_run k1 t
  end.

Definition C36_viol (c : ent_case) : list N := c36_run trk0 (zip_trace (c_ops c) (c_outs c)).
Definition C36_model_ok : ent_case -> bool := ent_model_ok.
Definition C36_oracle_ok (c : ent_case) : bool := is_nil (C36_viol c).
Definition C36_known (c : ent_case) : N :=
  match C36_viol c with
  | [] => 0%N
  | x :: t => if existsb (N.eqb 0) (x :: t) then 0%N else x
  end.
