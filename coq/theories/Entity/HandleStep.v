(* Every operation of the model preserves the handle invariant as long as no counter has overflowed. *)
From DustDDS Require Import Base.Machine Entity.EntityModel Entity.EntityLemmas Entity.HandleInv.
Open Scope Z_scope.

Definition other (sd : side) : side := match sd with SPub => SSub | SSub => SPub end.

(* ------------------------------------------------------------------ projections of the setters *)
Lemma sproj_set_groups_same : forall sd p l, sproj sd (set_groups sd p l) = map gproj l.
Proof. intros [|] p l; reflexivity. Qed.
Lemma sproj_set_groups_other : forall sd p l, sproj (other sd) (set_groups sd p l) = sproj (other sd) p.
Proof. intros [|] p l; reflexivity. Qed.
Lemma groups_set_groups_same : forall sd p l, groups sd (set_groups sd p l) = l.
Proof. intros [|] p l; reflexivity. Qed.

Lemma part_inv_build : forall p p',
    part_inv p -> pa_h p' = pa_h p ->
    (forall sd, 0 <= gcounter sd p' <= 255) -> (forall sd, 0 <= ecounter sd p' <= 65535) ->
    0 <= pa_tc p' <= 65535 ->
    (forall sd, ginv (pa_h p) (group_kind sd) (ep_kind sd) (gcounter sd p') (ecounter sd p') (sproj sd p')) ->
    tinv (pa_h p) (pa_tc p') (tproj p') -> part_inv p'.
Proof.
  intros p p' Hi Hh Hg He Ht Hgr Htop. constructor; auto.
  - rewrite Hh. apply (pi_self _ Hi).
  - intros sd. rewrite Hh. apply Hgr.
  - rewrite Hh. auto.
Qed.

Lemma side_cases : forall (P : side -> Prop) sd, P sd -> P (other sd) -> forall s, P s.
Proof. intros P [|] H1 H2 [|]; auto. Qed.

(* operations that leave the skeleton alone *)
Lemma gproj_set_group_q : forall g q, gproj (set_group_q g q) = gproj g.
Proof. reflexivity. Qed.
Lemma eproj_set_ep_q : forall e q, eproj (set_ep_q e q) = eproj e.
Proof. reflexivity. Qed.
Lemma eproj_set_ep_en : forall e, eproj (set_ep_en e) = eproj e.
Proof. reflexivity. Qed.

Lemma skel_set_groups_upd : forall sd p P g,
    (forall x, gproj (g x) = gproj x) ->
    skel (set_groups sd p (upd_first P g (groups sd p))) = skel p.
Proof.
  intros sd p P g H. unfold skel, sproj, tproj.
  destruct sd; cbn; rewrite (upd_first_map gproj P g _ H); reflexivity.
Qed.
Lemma skel_set_topics_upd : forall p P g,
    (forall x, t_h (g x) = t_h x) ->
    skel (set_topics p (upd_first P g (pa_topics p))) = skel p.
Proof.
  intros p P g H. unfold skel, sproj, tproj. cbn. rewrite (upd_first_map t_h P g _ H); reflexivity.
Qed.

Definition keeps_skel (k : part -> part * ret) : Prop :=
  forall p, skel (fst (k p)) = skel p /\ pa_ovf (fst (k p)) = pa_ovf p.

Lemma ks_set_group_qos : forall sd gh q, keeps_skel (fun p => set_group_qos sd p gh q).
Proof.
  intros sd gh q p. unfold set_group_qos. destruct (find_first (is_group gh) (groups sd p)); cbn; auto.
  match goal with |- context [if ?c then _ else _] => destruct c end; cbn; auto.
  split; [apply skel_set_groups_upd; reflexivity|destruct sd; reflexivity].
Qed.
Lemma ks_get_group_qos : forall sd gh, keeps_skel (fun p => get_group_qos sd p gh).
Proof. intros sd gh p. unfold get_group_qos. destruct (find_first (is_group gh) (groups sd p)); cbn; auto. Qed.
Lemma ks_get_ep_qos : forall sd gh eh, keeps_skel (fun p => get_ep_qos sd p gh eh).
Proof.
  intros sd gh eh p. unfold get_ep_qos. destruct (find_first (is_group gh) (groups sd p)); cbn; auto.
  destruct (find_first (is_ep eh) (g_eps g)); cbn; auto.
Qed.
Lemma ks_status_ep : forall sd gh eh, keeps_skel (fun p => status_ep sd p gh eh).
Proof.
  intros sd gh eh p. unfold status_ep. destruct (find_first (is_group gh) (groups sd p)); cbn; auto.
  destruct (find_first (is_ep eh) (g_eps g)); cbn; auto.
Qed.
Lemma ks_set_ep_qos : forall sd gh eh q, keeps_skel (fun p => set_ep_qos sd p gh eh q).
Proof.
  intros sd gh eh q p. unfold set_ep_qos. destruct (find_first (is_group gh) (groups sd p)); cbn; auto.
  destruct (find_first (is_ep eh) (g_eps g)); cbn; auto.
  repeat (match goal with |- context [if ?c then _ else _] => destruct c end; cbn; auto).
  split; [|destruct sd; reflexivity]. apply skel_set_groups_upd. intros x. unfold gproj; cbn. f_equal.
  apply upd_first_map. reflexivity.
Qed.
Lemma ks_enable_ep : forall sd gh eh, keeps_skel (fun p => enable_ep sd p gh eh).
Proof.
  intros sd gh eh p. unfold enable_ep. destruct (find_first (is_group gh) (groups sd p)); cbn; auto.
  destruct (find_first (is_ep eh) (g_eps g)); cbn; auto.
  split; [|destruct sd; reflexivity]. apply skel_set_groups_upd. intros x. unfold gproj; cbn. f_equal.
  apply upd_first_map. reflexivity.
Qed.
Lemma ks_get_topic_qos : forall name, keeps_skel (fun p => get_topic_qos p name).
Proof. intros name p. unfold get_topic_qos. destruct (find_first (is_topic name) (pa_topics p)); cbn; auto. Qed.
Lemma ks_set_topic_qos : forall name q, keeps_skel (fun p => set_topic_qos p name q).
Proof.
  intros name q p. unfold set_topic_qos. destruct (find_first (is_topic name) (pa_topics p)); cbn; auto.
  repeat (match goal with |- context [if ?c then _ else _] => destruct c end; cbn; auto).
  split; [|reflexivity]. apply skel_set_topics_upd. reflexivity.
Qed.
Lemma ks_enable_topic : forall name, keeps_skel (fun p => enable_topic p name).
Proof.
  intros name p. unfold enable_topic. destruct (find_first (is_topic name) (pa_topics p)); cbn; auto.
  split; [|reflexivity]. apply skel_set_topics_upd. reflexivity.
Qed.
Lemma ks_set_part_qos : forall q, keeps_skel (fun p => set_part_qos p q).
Proof. intros q p. split; reflexivity. Qed.
Lemma ks_get_part_qos : keeps_skel (fun p => (p, RPQ (pa_q p))).
Proof. intros p. split; reflexivity. Qed.
Lemma ks_enable_part : keeps_skel enable_part.
Proof.
  intros p. unfold enable_part. destruct (pa_en p); cbn; auto. split; [|reflexivity].
  unfold skel, sproj, tproj; cbn. rewrite map_map. reflexivity.
Qed.
Lemma ks_delete_cft : forall name, keeps_skel (fun p => delete_cft p name).
Proof. intros name p; split; reflexivity. Qed.

(* ------------------------------------------------------------------ the operations that change the skeleton *)
Definition preserves (k : part -> part * ret) : Prop :=
  forall p, part_inv p -> pa_ovf (fst (k p)) = false ->
            part_inv (fst (k p)) /\ pa_h (fst (k p)) = pa_h p /\ pa_ovf p = false /\ snd (k p) <> RPanic.

Lemma keeps_preserves : forall k, keeps_skel k -> (forall p, snd (k p) <> RPanic) -> preserves k.
Proof.
  intros k H Hn p Hi Ho. destruct (H p) as [Hs Hov]. split; [|split; [|split]]; auto.
  - eapply part_inv_skel; eauto.
  - unfold skel in Hs. inversion Hs; auto.
  - congruence.
Qed.

(* facts about  set_groups sd (set_gcounter sd p cv) l *)
Section GroupSet.
  Variables (sd : side) (p : part) (cv : Z * bool) (l : list group).
  Let p' := set_groups sd (set_gcounter sd p cv) l.
  Lemma gs_h : pa_h p' = pa_h p. Proof. destruct sd; reflexivity. Qed.
  Lemma gs_ovf : pa_ovf p' = pa_ovf p || snd cv. Proof. destruct sd; reflexivity. Qed.
  Lemma gs_gc_same : gcounter sd p' = fst cv. Proof. destruct sd; reflexivity. Qed.
  Lemma gs_gc_other : gcounter (other sd) p' = gcounter (other sd) p. Proof. destruct sd; reflexivity. Qed.
  Lemma gs_ec : forall s, ecounter s p' = ecounter s p. Proof. destruct sd, s; reflexivity. Qed.
  Lemma gs_tc : pa_tc p' = pa_tc p. Proof. destruct sd; reflexivity. Qed.
  Lemma gs_tproj : tproj p' = tproj p. Proof. destruct sd; reflexivity. Qed.
  Lemma gs_sproj_same : sproj sd p' = map gproj l. Proof. destruct sd; reflexivity. Qed.
  Lemma gs_sproj_other : sproj (other sd) p' = sproj (other sd) p. Proof. destruct sd; reflexivity. Qed.
End GroupSet.
Lemma gs_groups0 : forall sd p cv, groups sd (set_gcounter sd p cv) = groups sd p.
Proof. intros [|] p cv; reflexivity. Qed.

(* facts about  set_groups sd (set_ecounter sd p cv) l *)
Section EpSet.
  Variables (sd : side) (p : part) (cv : Z * bool) (l : list group).
  Let p' := set_groups sd (set_ecounter sd p cv) l.
  Lemma es_h : pa_h p' = pa_h p. Proof. destruct sd; reflexivity. Qed.
  Lemma es_ovf : pa_ovf p' = pa_ovf p || snd cv. Proof. destruct sd; reflexivity. Qed.
  Lemma es_ec_same : ecounter sd p' = fst cv. Proof. destruct sd; reflexivity. Qed.
  Lemma es_ec_other : ecounter (other sd) p' = ecounter (other sd) p. Proof. destruct sd; reflexivity. Qed.
  Lemma es_gc : forall s, gcounter s p' = gcounter s p. Proof. destruct sd, s; reflexivity. Qed.
  Lemma es_tc : pa_tc p' = pa_tc p. Proof. destruct sd; reflexivity. Qed.
  Lemma es_tproj : tproj p' = tproj p. Proof. destruct sd; reflexivity. Qed.
  Lemma es_sproj_same : sproj sd p' = map gproj l. Proof. destruct sd; reflexivity. Qed.
  Lemma es_sproj_other : sproj (other sd) p' = sproj (other sd) p. Proof. destruct sd; reflexivity. Qed.
End EpSet.
Lemma es_groups0 : forall sd p cv, groups sd (set_ecounter sd p cv) = groups sd p.
Proof. intros [|] p cv; reflexivity. Qed.
Lemma es0_h : forall sd p cv, pa_h (set_ecounter sd p cv) = pa_h p.
Proof. intros [|] p cv; reflexivity. Qed.
Lemma es0_ovf : forall sd p cv, pa_ovf (set_ecounter sd p cv) = pa_ovf p || snd cv.
Proof. intros [|] p cv; reflexivity. Qed.

(* facts about  set_groups sd p l *)
Section PlainSet.
  Variables (sd : side) (p : part) (l : list group).
  Let p' := set_groups sd p l.
  Lemma ps_h : pa_h p' = pa_h p. Proof. destruct sd; reflexivity. Qed.
  Lemma ps_ovf : pa_ovf p' = pa_ovf p. Proof. destruct sd; reflexivity. Qed.
  Lemma ps_gc : forall s, gcounter s p' = gcounter s p. Proof. destruct sd, s; reflexivity. Qed.
  Lemma ps_ec : forall s, ecounter s p' = ecounter s p. Proof. destruct sd, s; reflexivity. Qed.
  Lemma ps_tc : pa_tc p' = pa_tc p. Proof. destruct sd; reflexivity. Qed.
  Lemma ps_tproj : tproj p' = tproj p. Proof. destruct sd; reflexivity. Qed.
End PlainSet.

Lemma pres_create_group : forall pr sd q, preserves (fun p => create_group pr sd p q).
Proof.
  intros pr sd q p Hi Ho. unfold create_group in *.
  set (cv := bump 255 (gcounter sd p)) in *.
  set (g := mkGr (child_handle (pa_h p) (gcounter sd p) 0 0 (group_kind sd)) (pa_en p && p_auto (pa_q p))
                 (match q with Some x => x | None => defgq sd p end) (default_eqos (ekind_of sd)) []) in *.
  assert (Hflag : pa_ovf p = false /\ snd cv = false).
  { destruct (panics pr cv); cbn [fst] in Ho; [destruct sd; cbn in Ho|rewrite gs_ovf in Ho];
      apply orb_false_iff in Ho; auto. }
  destruct Hflag as [Hp Hcv]. destruct (bump_ok _ _ Hcv) as [Hlt Hfst]. fold cv in Hfst.
  assert (Hpan : panics pr cv = false) by (destruct pr; cbn; auto).
  rewrite Hpan in *. cbn [fst snd].
  split; [|split; [apply gs_h|split; [auto|discriminate]]].
  pose proof (pi_gc _ Hi) as Hgc. pose proof (pi_ec _ Hi) as Hec.
  apply part_inv_build with (p := p); auto.
  - apply gs_h.
  - apply (side_cases _ sd); [rewrite gs_gc_same, Hfst; specialize (Hgc sd); lia|rewrite gs_gc_other; apply Hgc].
  - intros s; rewrite gs_ec; apply Hec.
  - rewrite gs_tc. apply (pi_tc _ Hi).
  - apply (side_cases _ sd).
    + rewrite gs_sproj_same, gs_gc_same, gs_ec, Hfst, gs_groups0, map_app.
      apply ginv_new_group; [apply (Hgc sd)|apply (pi_groups _ Hi sd)].
    + rewrite gs_sproj_other, gs_gc_other, gs_ec. apply (pi_groups _ Hi (other sd)).
  - rewrite gs_tproj, gs_tc. apply (pi_topics _ Hi).
Qed.

Lemma pres_delete_group : forall sd parent gh, preserves (fun p => delete_group sd p parent gh).
Proof.
  intros sd parent gh p Hi Ho. unfold delete_group in *.
  destruct (negb (heqb parent (pa_h p))); [cbn in *; repeat split; auto; discriminate|].
  destruct (find_first (is_group gh) (groups sd p)); [|cbn in *; repeat split; auto; discriminate].
  destruct (negb (is_nil (g_eps g))); [cbn in *; repeat split; auto; discriminate|].
  cbn [fst snd] in *. rewrite ps_ovf in Ho.
  split; [|split; [apply ps_h|split; [auto|discriminate]]].
  apply part_inv_build with (p := p); auto.
  - apply ps_h.
  - intros s; rewrite ps_gc; apply (pi_gc _ Hi).
  - intros s; rewrite ps_ec; apply (pi_ec _ Hi).
  - rewrite ps_tc; apply (pi_tc _ Hi).
  - intros s. rewrite ps_gc, ps_ec. revert s. apply (side_cases _ sd).
    + rewrite sproj_set_groups_same.
      rewrite (map_rem_first gproj (is_group gh) (fun ge => heqb (fst ge) gh)) by reflexivity.
      apply ginv_rem_group. apply (pi_groups _ Hi sd).
    + rewrite sproj_set_groups_other. apply (pi_groups _ Hi (other sd)).
  - rewrite ps_tproj, ps_tc. apply (pi_topics _ Hi).
Qed.

Lemma pres_delete_endpoint : forall sd gh eh, preserves (fun p => delete_endpoint sd p gh eh).
Proof.
  intros sd gh eh p Hi Ho. unfold delete_endpoint in *.
  destruct (find_first (is_group gh) (groups sd p)); [|cbn in *; repeat split; auto; discriminate].
  destruct (find_first (is_ep eh) (g_eps g)); [|cbn in *; repeat split; auto; discriminate].
  cbn [fst snd] in *. rewrite ps_ovf in Ho.
  split; [|split; [apply ps_h|split; [auto|discriminate]]].
  apply part_inv_build with (p := p); auto.
  - apply ps_h.
  - intros s; rewrite ps_gc; apply (pi_gc _ Hi).
  - intros s; rewrite ps_ec; apply (pi_ec _ Hi).
  - rewrite ps_tc; apply (pi_tc _ Hi).
  - intros s. rewrite ps_gc, ps_ec. revert s. apply (side_cases _ sd).
    + rewrite sproj_set_groups_same.
      rewrite (map_upd_first gproj (is_group gh) (fun ge => heqb (fst ge) gh) _
                 (fun ge => (fst ge, rem_first (fun e => heqb (fst e) eh) (snd ge)))).
      * apply ginv_rem_ep. apply (pi_groups _ Hi sd).
      * reflexivity.
      * intros x. unfold gproj; cbn. f_equal.
        apply (map_rem_first eproj (is_ep eh) (fun e => heqb (fst e) eh)). reflexivity.
    + rewrite sproj_set_groups_other. apply (pi_groups _ Hi (other sd)).
  - rewrite ps_tproj, ps_tc. apply (pi_topics _ Hi).
Qed.

Lemma pres_delete_contained : preserves delete_contained.
Proof.
  intros p Hi Ho. unfold delete_contained in *. cbn [fst snd] in *.
  split; [|split; [reflexivity|split; [exact Ho|discriminate]]].
  apply part_inv_build with (p := p); auto.
  - intros [|]; apply (pi_gc _ Hi).
  - intros [|]; apply (pi_ec _ Hi).
  - apply (pi_tc _ Hi).
  - intros [|]; apply ginv_nil.
  - split; constructor.
Qed.
