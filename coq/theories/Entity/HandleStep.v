(* Every operation of the model preserves the handle invariant as long as no counter has overflowed. *)
From DustDDS Require Import Base.Machine Entity.EntityModel Entity.EntityLemmas Entity.HandleInv.
Open Scope Z_scope.

Definition other (sd : side) : side := match sd with SPub => SSub | SSub => SPub end.

(* ------------------------------------------------------------------ projections of the setters *)
Lemma sproj_set_groups_same : forall sd p l, sproj sd (set_groups sd p l) = map gproj l.
Proof. intros [|] p l; reflexivity. Qed.
Lemma sproj_set_groups_other : forall sd p l, sproj (other sd) (set_groups sd p l) = sproj (other sd) p.
Proof. intros [|] p l; reflexivity. Qed.
Lemma groups_set_groups_same : forall sd p l, groups sd (set_groups sd p l) = l.
Proof. intros [|] p l; reflexivity. Qed.

Lemma part_inv_build : forall p p',
    part_inv p -> pa_h p' = pa_h p ->
    (forall sd, 0 <= gcounter sd p' <= 255) -> (forall sd, 0 <= ecounter sd p' <= 65535) ->
    0 <= pa_tc p' <= 65535 ->
    (forall sd, ginv (pa_h p) (group_kind sd) (ep_kind sd) (gcounter sd p') (ecounter sd p') (sproj sd p')) ->
    tinv (pa_h p) (pa_tc p') (tproj p') -> part_inv p'.
Proof.
  intros p p' Hi Hh Hg He Ht Hgr Htop. constructor; auto.
  - rewrite Hh. apply (pi_self _ Hi).
  - intros sd. rewrite Hh. apply Hgr.
  - rewrite Hh. auto.
Qed.

Lemma side_cases : forall (P : side -> Prop) sd, P sd -> P (other sd) -> forall s, P s.
Proof. intros P [|] H1 H2 [|]; auto. Qed.

(* operations that leave the skeleton alone *)
Lemma gproj_set_group_q : forall g q, gproj (set_group_q g q) = gproj g.
Proof. reflexivity. Qed.
Lemma eproj_set_ep_q : forall e q, eproj (set_ep_q e q) = eproj e.
Proof. reflexivity. Qed.
Lemma eproj_set_ep_en : forall e, eproj (set_ep_en e) = eproj e.
Proof. reflexivity. Qed.

Lemma skel_set_groups_upd : forall sd p P g,
    (forall x, gproj (g x) = gproj x) ->
    skel (set_groups sd p (upd_first P g (groups sd p))) = skel p.
Proof.
  intros sd p P g H. unfold skel, sproj, tproj.
  destruct sd; cbn; rewrite (upd_first_map gproj P g _ H); reflexivity.
Qed.
Lemma skel_set_topics_upd : forall p P g,
    (forall x, t_h (g x) = t_h x) ->
    skel (set_topics p (upd_first P g (pa_topics p))) = skel p.
Proof.
  intros p P g H. unfold skel, sproj, tproj. cbn. rewrite (upd_first_map t_h P g _ H); reflexivity.
Qed.

Definition keeps_skel (k : part -> part * ret) : Prop := forall p, skel (fst (k p)) = skel p.

Lemma ks_set_group_qos : forall sd gh q, keeps_skel (fun p => set_group_qos sd p gh q).
Proof.
  intros sd gh q p. unfold set_group_qos. destruct (find_first (is_group gh) (groups sd p)); cbn; auto.
  match goal with |- context [if ?c then _ else _] => destruct c end; cbn; auto.
  apply skel_set_groups_upd; reflexivity.
Qed.
Lemma ks_get_group_qos : forall sd gh, keeps_skel (fun p => get_group_qos sd p gh).
Proof. intros sd gh p. unfold get_group_qos. destruct (find_first (is_group gh) (groups sd p)); cbn; auto. Qed.
Lemma ks_get_ep_qos : forall sd gh eh, keeps_skel (fun p => get_ep_qos sd p gh eh).
Proof.
  intros sd gh eh p. unfold get_ep_qos. destruct (find_first (is_group gh) (groups sd p)); cbn; auto.
  destruct (find_first (is_ep eh) (g_eps g)); cbn; auto.
Qed.
Lemma ks_status_ep : forall sd gh eh, keeps_skel (fun p => status_ep sd p gh eh).
Proof.
  intros sd gh eh p. unfold status_ep. destruct (find_first (is_group gh) (groups sd p)); cbn; auto.
  destruct (find_first (is_ep eh) (g_eps g)); cbn; auto.
Qed.
Lemma ks_set_ep_qos : forall sd gh eh q, keeps_skel (fun p => set_ep_qos sd p gh eh q).
Proof.
  intros sd gh eh q p. unfold set_ep_qos. destruct (find_first (is_group gh) (groups sd p)); cbn; auto.
  destruct (find_first (is_ep eh) (g_eps g)); cbn; auto.
  repeat (match goal with |- context [if ?c then _ else _] => destruct c end; cbn; auto).
  apply skel_set_groups_upd. intros x. unfold gproj; cbn. f_equal.
  apply upd_first_map. reflexivity.
Qed.
Lemma ks_enable_ep : forall sd gh eh, keeps_skel (fun p => enable_ep sd p gh eh).
Proof.
  intros sd gh eh p. unfold enable_ep. destruct (find_first (is_group gh) (groups sd p)); cbn; auto.
  destruct (find_first (is_ep eh) (g_eps g)); cbn; auto.
  apply skel_set_groups_upd. intros x. unfold gproj; cbn. f_equal.
  apply upd_first_map. reflexivity.
Qed.
Lemma ks_get_topic_qos : forall name, keeps_skel (fun p => get_topic_qos p name).
Proof. intros name p. unfold get_topic_qos. destruct (find_first (is_topic name) (pa_topics p)); cbn; auto. Qed.
Lemma ks_set_topic_qos : forall name q, keeps_skel (fun p => set_topic_qos p name q).
Proof.
  intros name q p. unfold set_topic_qos. destruct (find_first (is_topic name) (pa_topics p)); cbn; auto.
  repeat (match goal with |- context [if ?c then _ else _] => destruct c end; cbn; auto).
  apply skel_set_topics_upd. reflexivity.
Qed.
Lemma ks_enable_topic : forall name, keeps_skel (fun p => enable_topic p name).
Proof.
  intros name p. unfold enable_topic. destruct (find_first (is_topic name) (pa_topics p)); cbn; auto.
  apply skel_set_topics_upd. reflexivity.
Qed.
Lemma ks_set_part_qos : forall q, keeps_skel (fun p => set_part_qos p q).
Proof. intros q p. reflexivity. Qed.
Lemma ks_get_part_qos : keeps_skel (fun p => (p, RPQ (pa_q p))).
Proof. intros p. reflexivity. Qed.
Lemma ks_enable_part : keeps_skel enable_part.
Proof.
  intros p. unfold enable_part. destruct (pa_en p); cbn; auto.
  unfold skel, sproj, tproj; cbn. rewrite map_map. reflexivity.
Qed.
Lemma ks_delete_cft : forall name, keeps_skel (fun p => delete_cft p name).
Proof.
  intros name p. unfold delete_cft. destruct (find_first (is_cft name) (pa_cfts p)); cbn; auto.
  destruct (existsb (uses_topic name) (pa_subs p)); cbn; auto.
Qed.

(* ------------------------------------------------------------------ the operations that change the skeleton *)
Definition preserves (k : part -> part * ret) : Prop :=
  forall p, part_inv p -> part_inv (fst (k p)) /\ pa_h (fst (k p)) = pa_h p /\ snd (k p) <> RPanic.

Lemma keeps_preserves : forall k, keeps_skel k -> (forall p, snd (k p) <> RPanic) -> preserves k.
Proof.
  intros k H Hn p Hi. pose proof (H p) as Hs. split; [|split]; auto.
  - eapply part_inv_skel; eauto.
  - unfold skel in Hs. inversion Hs; auto.
Qed.

(* facts about  set_groups sd (set_gcounter sd p c) l *)
Section GroupSet.
  Variables (sd : side) (p : part) (c : Z) (l : list group).
  Let p' := set_groups sd (set_gcounter sd p c) l.
  Lemma gs_h : pa_h p' = pa_h p. Proof. destruct sd; reflexivity. Qed.
  Lemma gs_gc_same : gcounter sd p' = c. Proof. destruct sd; reflexivity. Qed.
  Lemma gs_gc_other : gcounter (other sd) p' = gcounter (other sd) p. Proof. destruct sd; reflexivity. Qed.
  Lemma gs_ec : forall s, ecounter s p' = ecounter s p. Proof. destruct sd, s; reflexivity. Qed.
  Lemma gs_tc : pa_tc p' = pa_tc p. Proof. destruct sd; reflexivity. Qed.
  Lemma gs_tproj : tproj p' = tproj p. Proof. destruct sd; reflexivity. Qed.
  Lemma gs_sproj_same : sproj sd p' = map gproj l. Proof. destruct sd; reflexivity. Qed.
  Lemma gs_sproj_other : sproj (other sd) p' = sproj (other sd) p. Proof. destruct sd; reflexivity. Qed.
End GroupSet.
Lemma gs_groups0 : forall sd p c, groups sd (set_gcounter sd p c) = groups sd p.
Proof. intros [|] p c; reflexivity. Qed.

(* facts about  set_groups sd (set_ecounter sd p c) l *)
Section EpSet.
  Variables (sd : side) (p : part) (c : Z) (l : list group).
  Let p' := set_groups sd (set_ecounter sd p c) l.
  Lemma es_h : pa_h p' = pa_h p. Proof. destruct sd; reflexivity. Qed.
  Lemma es_ec_same : ecounter sd p' = c. Proof. destruct sd; reflexivity. Qed.
  Lemma es_ec_other : ecounter (other sd) p' = ecounter (other sd) p. Proof. destruct sd; reflexivity. Qed.
  Lemma es_gc : forall s, gcounter s p' = gcounter s p. Proof. destruct sd, s; reflexivity. Qed.
  Lemma es_tc : pa_tc p' = pa_tc p. Proof. destruct sd; reflexivity. Qed.
  Lemma es_tproj : tproj p' = tproj p. Proof. destruct sd; reflexivity. Qed.
  Lemma es_sproj_same : sproj sd p' = map gproj l. Proof. destruct sd; reflexivity. Qed.
  Lemma es_sproj_other : sproj (other sd) p' = sproj (other sd) p. Proof. destruct sd; reflexivity. Qed.
End EpSet.
Lemma es_groups0 : forall sd p c, groups sd (set_ecounter sd p c) = groups sd p.
Proof. intros [|] p c; reflexivity. Qed.
Lemma es0_h : forall sd p c, pa_h (set_ecounter sd p c) = pa_h p.
Proof. intros [|] p c; reflexivity. Qed.

(* facts about  set_groups sd p l *)
Section PlainSet.
  Variables (sd : side) (p : part) (l : list group).
  Let p' := set_groups sd p l.
  Lemma ps_h : pa_h p' = pa_h p. Proof. destruct sd; reflexivity. Qed.
  Lemma ps_gc : forall s, gcounter s p' = gcounter s p. Proof. destruct sd, s; reflexivity. Qed.
  Lemma ps_ec : forall s, ecounter s p' = ecounter s p. Proof. destruct sd, s; reflexivity. Qed.
  Lemma ps_tc : pa_tc p' = pa_tc p. Proof. destruct sd; reflexivity. Qed.
  Lemma ps_tproj : tproj p' = tproj p. Proof. destruct sd; reflexivity. Qed.
End PlainSet.

Ltac unchanged := cbn [fst snd]; split; [assumption|split; [reflexivity|discriminate]].

Lemma pres_create_group : forall pr sd q, preserves (fun p => create_group pr sd p q).
Proof.
  intros pr sd q p Hi. unfold create_group.
  destruct (next_id 255 (gcounter sd p)) as [c'|] eqn:Hn; [|unchanged].
  destruct (next_id_some _ _ _ Hn) as [Hlt ->]. cbn [fst snd].
  split; [|split; [apply gs_h|discriminate]].
  pose proof (pi_gc _ Hi) as Hgc. pose proof (pi_ec _ Hi) as Hec.
  apply part_inv_build with (p := p); auto.
  - apply gs_h.
  - apply (side_cases _ sd); [rewrite gs_gc_same; specialize (Hgc sd); lia|rewrite gs_gc_other; apply Hgc].
  - intros s; rewrite gs_ec; apply Hec.
  - rewrite gs_tc. apply (pi_tc _ Hi).
  - apply (side_cases _ sd).
    + rewrite gs_sproj_same, gs_gc_same, gs_ec, gs_groups0, map_app.
      apply ginv_new_group; [apply (Hgc sd)|apply (pi_groups _ Hi sd)].
    + rewrite gs_sproj_other, gs_gc_other, gs_ec. apply (pi_groups _ Hi (other sd)).
  - rewrite gs_tproj, gs_tc. apply (pi_topics _ Hi).
Qed.

Lemma pres_delete_group : forall sd parent gh, preserves (fun p => delete_group sd p parent gh).
Proof.
  intros sd parent gh p Hi. unfold delete_group.
  destruct (negb (heqb parent (pa_h p))); [unchanged|].
  destruct (find_first (is_group gh) (groups sd p)); [|unchanged].
  destruct (negb (is_nil (g_eps g))); [unchanged|].
  cbn [fst snd]. split; [|split; [apply ps_h|discriminate]].
  apply part_inv_build with (p := p); auto.
  - apply ps_h.
  - intros s; rewrite ps_gc; apply (pi_gc _ Hi).
  - intros s; rewrite ps_ec; apply (pi_ec _ Hi).
  - rewrite ps_tc; apply (pi_tc _ Hi).
  - intros s. rewrite ps_gc, ps_ec. revert s. apply (side_cases _ sd).
    + rewrite sproj_set_groups_same.
      rewrite (map_rem_first gproj (is_group gh) (fun ge => heqb (fst ge) gh)) by reflexivity.
      apply ginv_rem_group. apply (pi_groups _ Hi sd).
    + rewrite sproj_set_groups_other. apply (pi_groups _ Hi (other sd)).
  - rewrite ps_tproj, ps_tc. apply (pi_topics _ Hi).
Qed.

Lemma pres_delete_endpoint : forall sd gh eh, preserves (fun p => delete_endpoint sd p gh eh).
Proof.
  intros sd gh eh p Hi. unfold delete_endpoint.
  destruct (find_first (is_group gh) (groups sd p)); [|unchanged].
  destruct (find_first (is_ep eh) (g_eps g)); [|unchanged].
  cbn [fst snd]. split; [|split; [apply ps_h|discriminate]].
  apply part_inv_build with (p := p); auto.
  - apply ps_h.
  - intros s; rewrite ps_gc; apply (pi_gc _ Hi).
  - intros s; rewrite ps_ec; apply (pi_ec _ Hi).
  - rewrite ps_tc; apply (pi_tc _ Hi).
  - intros s. rewrite ps_gc, ps_ec. revert s. apply (side_cases _ sd).
    + rewrite sproj_set_groups_same.
      rewrite (map_upd_first gproj (is_group gh) (fun ge => heqb (fst ge) gh) _
                 (fun ge => (fst ge, rem_first (fun e => heqb (fst e) eh) (snd ge)))).
      * apply ginv_rem_ep. apply (pi_groups _ Hi sd).
      * reflexivity.
      * intros x. unfold gproj; cbn. f_equal.
        apply (map_rem_first eproj (is_ep eh) (fun e => heqb (fst e) eh)). reflexivity.
    + rewrite sproj_set_groups_other. apply (pi_groups _ Hi (other sd)).
  - rewrite ps_tproj, ps_tc. apply (pi_topics _ Hi).
Qed.

Lemma pres_delete_contained : preserves delete_contained.
Proof.
  intros p Hi. unfold delete_contained. cbn [fst snd].
  split; [|split; [reflexivity|discriminate]].
  apply part_inv_build with (p := p); auto.
  - intros [|]; [apply (pi_gc _ Hi SPub)|apply (pi_gc _ Hi SSub)].
  - intros [|]; [apply (pi_ec _ Hi SPub)|apply (pi_ec _ Hi SSub)].
  - apply (pi_tc _ Hi).
  - intros [|]; apply ginv_nil.
  - split; constructor.
Qed.

Lemma create_topic_tail : forall p2 name h (en : bool),
    let r := if en then match enable_topic p2 name with (p3, RUnit) => (p3, RHandle h) | (p3, r) => (p3, r) end
             else (p2, RHandle h) in
    skel (fst r) = skel p2 /\ snd r <> RPanic.
Proof.
  intros p2 name h en. destruct en; cbn zeta; [|cbn; split; auto; discriminate].
  pose proof (ks_enable_topic name p2) as Hs.
  unfold enable_topic in *. destruct (find_first (is_topic name) (pa_topics p2)); cbn in *;
    split; auto; discriminate.
Qed.

Lemma pres_create_topic : forall pr name q, preserves (fun p => create_topic pr p name q).
Proof.
  intros pr name q p Hi. unfold create_topic.
  destruct (existsb (is_topic name) (pa_topics p)); [unchanged|].
  match goal with |- context [match ?x with Some qos => _ | None => (p, RErr E_INCONSISTENT) end] =>
    destruct x as [qos|] end; [|unchanged].
  destruct (next_id 65535 (pa_tc p)) as [c'|] eqn:Hn; [|unchanged].
  destruct (next_id_some _ _ _ Hn) as [Hlt ->].
  set (h := child_handle (pa_h p) 0 (lo8 (pa_tc p)) (hi8 (pa_tc p)) KIND_TOPIC) in *.
  set (p2 := set_topics (set_tcounter p (pa_tc p + 1)) (pa_topics (set_tcounter p (pa_tc p + 1)) ++ [mkTp h name false qos])).
  destruct (create_topic_tail p2 name h (pa_en p && p_auto (pa_q p))) as (Hs & Hnp). cbn zeta in Hs, Hnp.
  assert (Hi2 : part_inv p2).
  { apply part_inv_build with (p := p); auto; try reflexivity.
    - intros [|]; [apply (pi_gc _ Hi SPub)|apply (pi_gc _ Hi SSub)].
    - intros [|]; [apply (pi_ec _ Hi SPub)|apply (pi_ec _ Hi SSub)].
    - cbn. pose proof (pi_tc _ Hi). lia.
    - intros [|]; [apply (pi_groups _ Hi SPub)|apply (pi_groups _ Hi SSub)].
    - unfold p2, tproj. cbn [pa_topics set_topics set_tcounter pa_tc]. rewrite map_app. cbn [map t_h].
      apply tinv_new; [apply (pi_tc _ Hi)|apply (pi_topics _ Hi)]. }
  split; [eapply part_inv_skel; eauto|]. split; auto.
  unfold skel in Hs. inversion Hs. reflexivity.
Qed.

Lemma pres_delete_topic : forall parent name, preserves (fun p => delete_topic p parent name).
Proof.
  intros parent name p Hi. unfold delete_topic.
  destruct (negb (heqb (pa_h p) parent)); [unchanged|].
  destruct (find_first (is_topic name) (pa_topics p)); [|unchanged].
  destruct (existsb (uses_topic (t_name t)) (pa_pubs p)); [unchanged|].
  destruct (existsb (uses_topic (t_name t)) (pa_subs p)); [unchanged|].
  destruct (existsb (fun c => c_rel c =? name) (pa_cfts p)); [unchanged|].
  cbn [fst snd]. split; [|split; [reflexivity|discriminate]].
  apply part_inv_build with (p := p); auto; try reflexivity.
  - intros [|]; [apply (pi_gc _ Hi SPub)|apply (pi_gc _ Hi SSub)].
  - intros [|]; [apply (pi_ec _ Hi SPub)|apply (pi_ec _ Hi SSub)].
  - apply (pi_tc _ Hi).
  - intros [|]; [apply (pi_groups _ Hi SPub)|apply (pi_groups _ Hi SSub)].
  - destruct (pi_topics _ Hi) as [Hn Hf]. unfold tproj in *. cbn [pa_topics set_topics pa_tc]. split.
    + apply nodup_map_filter; auto.
    + apply Forall_forall. intros h Hh. rewrite Forall_forall in Hf. apply Hf.
      apply in_map_iff in Hh. destruct Hh as (x & <- & Hx). apply in_map. eapply filter_in'; eauto.
Qed.

Lemma pres_create_cft : forall pr name related, preserves (fun p => create_cft pr p name related).
Proof.
  intros pr name related p Hi. unfold create_cft.
  destruct (negb (existsb (is_topic related) (pa_topics p))); [unchanged|].
  destruct (next_id 65535 (pa_tc p)) as [c'|] eqn:Hn; [|unchanged].
  destruct (next_id_some _ _ _ Hn) as [Hlt ->]. cbn [fst snd].
  split; [|split; [reflexivity|discriminate]].
  apply part_inv_build with (p := p); auto; try reflexivity.
  - intros [|]; [apply (pi_gc _ Hi SPub)|apply (pi_gc _ Hi SSub)].
  - intros [|]; [apply (pi_ec _ Hi SPub)|apply (pi_ec _ Hi SSub)].
  - cbn. pose proof (pi_tc _ Hi). lia.
  - intros [|]; [apply (pi_groups _ Hi SPub)|apply (pi_groups _ Hi SSub)].
  - cbn [pa_tc set_cfts set_tcounter]. unfold tproj; cbn [pa_topics set_cfts set_tcounter].
    eapply tinv_mono; [|apply (pi_topics _ Hi)]. lia.
Qed.

(* the endpoint counter moved on, nothing else *)
Lemma part_inv_ecounter : forall sd p,
    part_inv p -> ecounter sd p < 65535 -> part_inv (set_ecounter sd p (ecounter sd p + 1)).
Proof.
  intros sd p Hi Hlt.
  apply part_inv_build with (p := p); auto.
  - apply es0_h.
  - intros s. destruct sd, s; cbn; first [apply (pi_gc _ Hi SPub)|apply (pi_gc _ Hi SSub)].
  - intros s. pose proof (pi_ec _ Hi SPub). pose proof (pi_ec _ Hi SSub). destruct sd, s; cbn in *; lia.
  - destruct sd; apply (pi_tc _ Hi).
  - intros s. pose proof (pi_groups _ Hi s) as Hg.
    assert (E : sproj s (set_ecounter sd p (ecounter sd p + 1)) = sproj s p) by (destruct sd, s; reflexivity).
    assert (Eg : gcounter s (set_ecounter sd p (ecounter sd p + 1)) = gcounter s p) by (destruct sd, s; reflexivity).
    rewrite E, Eg. eapply ginv_mono; [| |exact Hg]; [lia|].
    destruct sd, s; cbn in *; lia.
  - assert (E : tproj (set_ecounter sd p (ecounter sd p + 1)) = tproj p) by (destruct sd; reflexivity).
    assert (Et : pa_tc (set_ecounter sd p (ecounter sd p + 1)) = pa_tc p) by (destruct sd; reflexivity).
    rewrite E, Et. apply (pi_topics _ Hi).
Qed.

Lemma pres_push_endpoint : forall sd p g name qos,
    part_inv p -> ecounter sd p < 65535 ->
    let h := child_handle (pa_h p) (h_k0 (g_h g)) (lo8 (ecounter sd p)) (hi8 (ecounter sd p)) (ep_kind sd) in
    let r := push_endpoint sd (set_ecounter sd p (ecounter sd p + 1)) g h name qos in
    part_inv (fst r) /\ pa_h (fst r) = pa_h p /\ snd r <> RPanic.
Proof.
  intros sd p g name qos Hi Hlt h r. unfold r, push_endpoint. cbn [fst snd].
  split; [|split; [rewrite ps_h; apply es0_h|discriminate]].
  apply part_inv_build with (p := p); auto.
  - rewrite ps_h. apply es0_h.
  - intros s. rewrite ps_gc. destruct sd, s; cbn; first [apply (pi_gc _ Hi SPub)|apply (pi_gc _ Hi SSub)].
  - intros s. rewrite ps_ec. pose proof (pi_ec _ Hi SPub). pose proof (pi_ec _ Hi SSub).
    destruct sd, s; cbn in *; lia.
  - rewrite ps_tc. destruct sd; apply (pi_tc _ Hi).
  - intros s. rewrite ps_gc, ps_ec. revert s. apply (side_cases _ sd).
    + rewrite sproj_set_groups_same, es_groups0.
      rewrite (map_upd_first gproj (is_group (g_h g)) (fun ge => heqb (fst ge) (g_h g)) _
                 (fun ge => (fst ge, snd ge ++ [(h, h)]))).
      * assert (Eg : gcounter sd (set_ecounter sd p (ecounter sd p + 1)) = gcounter sd p) by (destruct sd; reflexivity).
        assert (Ee : ecounter sd (set_ecounter sd p (ecounter sd p + 1)) = ecounter sd p + 1) by (destruct sd; reflexivity).
        rewrite Eg, Ee. unfold h. apply ginv_new_ep; [apply (pi_ec _ Hi sd)|apply (pi_groups _ Hi sd)].
      * reflexivity.
      * intros x. unfold gproj; cbn. rewrite map_app. reflexivity.
    + assert (E : forall l, sproj (other sd) (set_groups sd (set_ecounter sd p (ecounter sd p + 1)) l) = sproj (other sd) p)
        by (intros; destruct sd; reflexivity).
      assert (Eg : gcounter (other sd) (set_ecounter sd p (ecounter sd p + 1)) = gcounter (other sd) p) by (destruct sd; reflexivity).
      assert (Ee : ecounter (other sd) (set_ecounter sd p (ecounter sd p + 1)) = ecounter (other sd) p) by (destruct sd; reflexivity).
      rewrite E, Eg, Ee. apply (pi_groups _ Hi (other sd)).
  - rewrite ps_tproj, ps_tc.
    assert (E : tproj (set_ecounter sd p (ecounter sd p + 1)) = tproj p) by (destruct sd; reflexivity).
    assert (Et : pa_tc (set_ecounter sd p (ecounter sd p + 1)) = pa_tc p) by (destruct sd; reflexivity).
    rewrite E, Et. apply (pi_topics _ Hi).
Qed.

Lemma pres_create_endpoint : forall pr sd gh name q, preserves (fun p => create_endpoint pr sd p gh name q).
Proof.
  intros pr sd gh name q p Hi. unfold create_endpoint.
  destruct (lookup_topic sd p name); [|unchanged].
  destruct (find_first (is_group gh) (groups sd p)) as [g|] eqn:Hg; [|unchanged].
  set (qchk := match q with
               | Some x => if is_consistent (ekind_of sd) x then Some x else None
               | None => Some (g_defq g) end).
  destruct sd.
  - destruct (next_id 65535 (ecounter SPub p)) as [c'|] eqn:Hn; [|unchanged].
    destruct (next_id_some _ _ _ Hn) as [Hlt ->].
    destruct qchk as [qos|].
    + apply (pres_push_endpoint SPub p g name qos Hi Hlt).
    + cbn [fst snd]. split; [apply part_inv_ecounter; auto|split; [apply es0_h|discriminate]].
  - destruct qchk as [qos|]; [|unchanged].
    destruct (next_id 65535 (ecounter SSub p)) as [c'|] eqn:Hn; [|unchanged].
    destruct (next_id_some _ _ _ Hn) as [Hlt ->].
    apply (pres_push_endpoint SSub p g name qos Hi Hlt).
Qed.
