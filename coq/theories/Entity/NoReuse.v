(* A handle that has been issued is never issued again (no overflow): what is deleted stays deleted. *)
From DustDDS Require Import Base.Machine Entity.EntityModel Entity.EntityLemmas Entity.HandleInv Entity.HandleStep
     Entity.C35Proofs.
Open Scope Z_scope.
Ltac Zify.zify_post_hook ::= Z.div_mod_to_equations.

Definition ctr16 (h : handle) : Z := h_k1 h + 256 * h_k2 h.
Lemma ctr16_child : forall ph k0 c kind, 0 <= c <= 65535 -> ctr16 (child_handle ph k0 (lo8 c) (hi8 c) kind) = c.
Proof. intros. unfold ctr16, child_handle, lo8, hi8; cbn [h_k1 h_k2]. lia. Qed.

(* x carries a counter value that participant p has already handed out *)
Definition old_in (p : part) (x : handle) : Prop :=
  (h_kind x = KIND_WRITER_GROUP /\ h_k0 x < pa_pubc p) \/
  (h_kind x = KIND_READER_GROUP /\ h_k0 x < pa_subc p) \/
  (h_kind x = KIND_WRITER_WITH_KEY /\ ctr16 x < pa_wc p) \/
  (h_kind x = KIND_READER_WITH_KEY /\ ctr16 x < pa_rc p) \/
  (h_kind x = KIND_TOPIC /\ ctr16 x < pa_tc p).

Definition counters_le (p p' : part) : Prop :=
  pa_pubc p <= pa_pubc p' /\ pa_subc p <= pa_subc p' /\ pa_wc p <= pa_wc p' /\ pa_rc p <= pa_rc p' /\ pa_tc p <= pa_tc p'.
Lemma old_in_mono : forall p p' x, counters_le p p' -> old_in p x -> old_in p' x.
Proof. unfold counters_le, old_in. intros p p' x (H1 & H2 & H3 & H4 & H5) H. intuition lia. Qed.
Lemma counters_le_refl : forall p, counters_le p p.
Proof. unfold counters_le; intros; lia. Qed.

(* part_handles only looks at the skeleton *)
Lemma part_handles_proj : forall p,
    part_handles p = pa_h p :: flat_map gsk_handles (sproj SPub p) ++ flat_map gsk_handles (sproj SSub p) ++ tproj p.
Proof. intros p. unfold part_handles. rewrite !flat_group_handles_proj. reflexivity. Qed.
Lemma part_handles_skel : forall p p', skel p' = skel p -> part_handles p' = part_handles p.
Proof.
  intros p p' H. rewrite !part_handles_proj. unfold skel in H. inversion H as [[H1 H2 H3 H4 H5 H6 H7 H8 H9]].
  rewrite H1, H7, H8, H9. reflexivity.
Qed.
Lemma counters_skel : forall p p', skel p' = skel p -> counters_le p p'.
Proof. intros p p' H. unfold skel in H. inversion H. unfold counters_le. lia. Qed.

(* present handles are old *)
Lemma present_old_in : forall p, part_inv p -> forall x, In x (part_handles p) -> x = pa_h p \/ old_in p x.
Proof.
  intros p Hi x Hx. rewrite part_handles_proj in Hx. destruct Hx as [<-|Hx]; auto. right.
  rewrite !in_app_iff in Hx.
  assert (HG : forall sd, In x (flat_map gsk_handles (sproj sd p)) ->
               (h_kind x = group_kind sd /\ h_k0 x < gcounter sd p) \/ (h_kind x = ep_kind sd /\ ctr16 x < ecounter sd p)).
  { intros sd H. destruct (pi_groups _ Hi sd) as [_ Hf]. apply in_flat_map in H. destruct H as (ge & Hin & Hx').
    rewrite Forall_forall in Hf. destruct (Hf ge Hin) as ((c & Hc & Hg) & _ & Hes).
    destruct Hx' as [<-|Hx'].
    - left. rewrite Hg. cbn. split; auto; lia.
    - right. apply in_map_iff in Hx'. destruct Hx' as (e & <- & Hine). rewrite Forall_forall in Hes.
      destruct (Hes e Hine) as (d & Hd & He & _). rewrite He. pose proof (pi_ec _ Hi sd).
      rewrite ctr16_child by lia. cbn. split; auto; lia. }
  unfold old_in. destruct Hx as [Hx|[Hx|Hx]].
  - destruct (HG SPub Hx) as [H|H]; cbn in H; tauto.
  - destruct (HG SSub Hx) as [H|H]; cbn in H; tauto.
  - destruct (pi_topics _ Hi) as [_ Hf]. rewrite Forall_forall in Hf. destruct (Hf x Hx) as (c & Hc & ->).
    pose proof (pi_tc _ Hi). rewrite ctr16_child by lia. cbn. right; right; right; right. split; auto; lia.
Qed.

(* what a participant-level operation may do to the handle set *)
Definition grows (k : part -> part * ret) : Prop :=
  forall p, part_inv p ->
            counters_le p (fst (k p)) /\
            (forall x, In x (part_handles (fst (k p))) -> In x (part_handles p) \/ ~ old_in p x /\ x <> pa_h p).

Lemma grows_keeps : forall k, keeps_skel k -> grows k.
Proof.
  intros k H p Hi. pose proof (H p) as Hs. split; [apply counters_skel; auto|].
  intros x Hx. rewrite (part_handles_skel _ _ Hs) in Hx. auto.
Qed.

Lemma in_flat_rem_first : forall {A B} (f : A -> list B) P l x, In x (flat_map f (rem_first P l)) -> In x (flat_map f l).
Proof.
  intros A B f P l x H. apply in_flat_map in H. destruct H as (y & Hy & Hx). apply in_flat_map. exists y; split; auto.
  eapply rem_first_in; eauto.
Qed.
Lemma in_flat_upd_first : forall {A B} (f : A -> list B) P g l x,
    In x (flat_map f (upd_first P g l)) -> In x (flat_map f l) \/ exists y, In y l /\ P y = true /\ In x (f (g y)).
Proof.
  intros A B f P g l x H. apply in_flat_map in H. destruct H as (y & Hy & Hx).
  apply upd_first_in in Hy. destruct Hy as [Hy|(z & Hz & HP & ->)].
  - left. apply in_flat_map. exists y; auto.
  - right. exists z; auto.
Qed.

Lemma in_part_handles : forall p x,
    In x (part_handles p) <->
    x = pa_h p \/ (exists sd, In x (flat_map gsk_handles (sproj sd p))) \/ In x (tproj p).
Proof.
  intros p x. rewrite part_handles_proj. cbn [In]. rewrite !in_app_iff. split.
  - intros [H|[H|[H|H]]]; auto; right; left; [exists SPub|exists SSub]; auto.
  - intros [H|[[[|] H]|H]]; auto.
Qed.
Lemma side_eq_dec : forall a b : side, a = b \/ a = other b.
Proof. intros [|] [|]; auto. Qed.

Lemma grows_create_group : forall pr sd q, grows (fun p => create_group pr sd p q).
Proof.
  intros pr sd q p Hi. unfold create_group.
  destruct (next_id 255 (gcounter sd p)) as [c'|] eqn:Hn; [|split; [apply counters_le_refl|auto]].
  destruct (next_id_some _ _ _ Hn) as [Hlt ->].
  set (h := child_handle (pa_h p) (gcounter sd p) 0 0 (group_kind sd)) in *.
  cbn [fst]. split.
  - unfold counters_le. destruct sd; cbn in *; lia.
  - intros x Hx. apply in_part_handles in Hx. rewrite gs_h, gs_tproj in Hx.
    assert (Hcase : In x (part_handles p) \/ x = h).
    { destruct Hx as [->|[[s Hx]|Hx]].
      - left. apply in_part_handles; auto.
      - destruct (side_eq_dec s sd) as [->| ->].
        + rewrite gs_sproj_same, gs_groups0, map_app, flat_map_app, in_app_iff in Hx.
          destruct Hx as [Hx|Hx]; [left; apply in_part_handles; right; left; exists sd; exact Hx|].
          cbn in Hx. destruct Hx as [<-|[]]. right; reflexivity.
        + rewrite gs_sproj_other in Hx. left. apply in_part_handles. right; left. exists (other sd); exact Hx.
      - left. apply in_part_handles; auto. }
    destruct Hcase as [H| ->]; auto. right. split.
    + unfold old_in, h, child_handle; cbn [h_kind h_k0 h_k1 h_k2]. unfold ctr16; cbn [h_k1 h_k2]. destruct sd; cbn [gcounter group_kind];
        cbv [KIND_WRITER_GROUP KIND_READER_GROUP KIND_WRITER_WITH_KEY KIND_READER_WITH_KEY KIND_TOPIC]; lia.
    + destruct (pi_self _ Hi) as (i & _ & E). unfold h. rewrite E. unfold child_handle, part_handle.
      destruct sd; cbn; intros E'; inversion E'.
Qed.

Lemma grows_delete_group : forall sd parent gh, grows (fun p => delete_group sd p parent gh).
Proof.
  intros sd parent gh p Hi. unfold delete_group in *.
  destruct (negb (heqb parent (pa_h p))); [split; [apply counters_le_refl|auto]|].
  destruct (find_first (is_group gh) (groups sd p)); [|split; [apply counters_le_refl|auto]].
  destruct (negb (is_nil (g_eps g))); [split; [apply counters_le_refl|auto]|].
  cbn [fst]. split; [unfold counters_le; destruct sd; cbn; lia|].
  intros x Hx. left. apply in_part_handles in Hx. apply in_part_handles. rewrite ps_h, ps_tproj in Hx.
  destruct Hx as [->|[[s Hx]|Hx]]; auto. right; left. exists s.
  destruct (side_eq_dec s sd) as [->| ->].
  - rewrite sproj_set_groups_same in Hx.
    rewrite (map_rem_first gproj (is_group gh) (fun ge => heqb (fst ge) gh)) in Hx by reflexivity.
    eapply in_flat_rem_first; eauto.
  - rewrite sproj_set_groups_other in Hx. exact Hx.
Qed.

Lemma grows_delete_endpoint : forall sd gh eh, grows (fun p => delete_endpoint sd p gh eh).
Proof.
  intros sd gh eh p Hi. unfold delete_endpoint in *.
  destruct (find_first (is_group gh) (groups sd p)); [|split; [apply counters_le_refl|auto]].
  destruct (find_first (is_ep eh) (g_eps g)); [|split; [apply counters_le_refl|auto]].
  cbn [fst]. split; [unfold counters_le; destruct sd; cbn; lia|].
  intros x Hx. left. apply in_part_handles in Hx. apply in_part_handles. rewrite ps_h, ps_tproj in Hx.
  destruct Hx as [->|[[s Hx]|Hx]]; auto. right; left. exists s.
  destruct (side_eq_dec s sd) as [->| ->]; [|rewrite sproj_set_groups_other in Hx; exact Hx].
  rewrite sproj_set_groups_same in Hx. unfold sproj.
  apply in_flat_map in Hx. destruct Hx as (ge & Hge & Hx').
  apply in_map_iff in Hge. destruct Hge as (y & <- & Hy). apply upd_first_in in Hy.
  destruct Hy as [Hy|(z & Hz & _ & ->)].
  - apply in_flat_map. exists (gproj y). split; auto. apply in_map; auto.
  - apply in_flat_map. exists (gproj z). split; [apply in_map; auto|].
    unfold gsk_handles, gproj in *. cbn [fst snd g_h g_eps set_group_eps] in *. destruct Hx' as [H|H]; [left; auto|right].
    rewrite map_map in *. apply in_map_iff in H. destruct H as (e0 & <- & He0). apply in_map_iff. exists e0; split; auto.
    eapply rem_first_in; eauto.
Qed.

Lemma grows_delete_contained : grows delete_contained.
Proof.
  intros p Hi. unfold delete_contained. cbn [fst]. split; [unfold counters_le; cbn; lia|].
  intros x Hx. rewrite part_handles_proj in Hx. cbn in Hx. destruct Hx as [<-|[]]. left. rewrite part_handles_proj. left; auto.
Qed.

Lemma grows_create_cft : forall pr name related, grows (fun p => create_cft pr p name related).
Proof.
  intros pr name related p Hi. unfold create_cft.
  destruct (negb (existsb (is_topic related) (pa_topics p))); [split; [apply counters_le_refl|auto]|].
  destruct (next_id 65535 (pa_tc p)) as [c'|] eqn:Hn; [|split; [apply counters_le_refl|auto]].
  destruct (next_id_some _ _ _ Hn) as [Hlt ->]. cbn [fst]. split; [unfold counters_le; cbn; lia|].
  intros x Hx. left. exact Hx.
Qed.

Lemma grows_delete_topic : forall parent name, grows (fun p => delete_topic p parent name).
Proof.
  intros parent name p Hi. unfold delete_topic in *.
  destruct (negb (heqb (pa_h p) parent)); [split; [apply counters_le_refl|auto]|].
  destruct (find_first (is_topic name) (pa_topics p)); [|split; [apply counters_le_refl|auto]].
  destruct (existsb (uses_topic (t_name t)) (pa_pubs p)); [split; [apply counters_le_refl|auto]|].
  destruct (existsb (uses_topic (t_name t)) (pa_subs p)); [split; [apply counters_le_refl|auto]|].
  destruct (existsb (fun c => c_rel c =? name) (pa_cfts p)); [split; [apply counters_le_refl|auto]|].
  cbn [fst]. split; [unfold counters_le; cbn; lia|].
  intros x Hx. left. unfold part_handles in *. cbn [pa_h pa_pubs pa_subs pa_topics set_topics] in *.
  destruct Hx as [<-|Hx]; [left; auto|right]. rewrite !in_app_iff in *. destruct Hx as [Hx|[Hx|Hx]]; auto.
  right; right. apply in_map_iff in Hx. destruct Hx as (y & <- & Hy). apply in_map. eapply filter_in'; eauto.
Qed.

Lemma grows_create_topic : forall pr name q, grows (fun p => create_topic pr p name q).
Proof.
  intros pr name q p Hi. unfold create_topic.
  destruct (existsb (is_topic name) (pa_topics p)); [split; [apply counters_le_refl|auto]|].
  match goal with |- context [match ?x with Some qos => _ | None => (p, RErr E_INCONSISTENT) end] =>
    destruct x as [qos|] end; [|split; [apply counters_le_refl|auto]].
  destruct (next_id 65535 (pa_tc p)) as [c'|] eqn:Hn; [|split; [apply counters_le_refl|auto]].
  destruct (next_id_some _ _ _ Hn) as [Hlt ->].
  set (h := child_handle (pa_h p) 0 (lo8 (pa_tc p)) (hi8 (pa_tc p)) KIND_TOPIC) in *.
  set (p2 := set_topics (set_tcounter p (pa_tc p + 1)) (pa_topics (set_tcounter p (pa_tc p + 1)) ++ [mkTp h name false qos])).
  destruct (create_topic_tail p2 name h (pa_en p && p_auto (pa_q p))) as (Hs & _). cbn zeta in Hs.
  assert (H2 : counters_le p p2 /\ forall x, In x (part_handles p2) -> In x (part_handles p) \/ x = h).
  { split; [unfold counters_le, p2; cbn; lia|]. intros x Hx. unfold part_handles, p2 in *.
    cbn [pa_h pa_pubs pa_subs pa_topics set_topics set_tcounter] in *. destruct Hx as [<-|Hx]; [left; left; auto|].
    rewrite !in_app_iff in Hx. rewrite map_app, in_app_iff in Hx. cbn [map t_h In] in Hx.
    destruct Hx as [Hx|[Hx|[Hx|[Hx|[]]]]]; auto; left; right; rewrite !in_app_iff; auto. }
  destruct H2 as [Hc Hh]. split.
  - destruct Hc as (c1 & c2 & c3 & c4 & c5). pose proof (counters_skel _ _ Hs) as (d1 & d2 & d3 & d4 & d5).
    unfold counters_le. lia.
  - intros x Hx. rewrite (part_handles_skel _ _ Hs) in Hx. destruct (Hh x Hx) as [H| ->]; auto. right. split.
    + unfold old_in, h. pose proof (pi_tc _ Hi). rewrite ctr16_child by lia. unfold child_handle; cbn.
      cbv [KIND_WRITER_GROUP KIND_READER_GROUP KIND_WRITER_WITH_KEY KIND_READER_WITH_KEY KIND_TOPIC]. lia.
    + destruct (pi_self _ Hi) as (i & _ & E). unfold h. rewrite E. unfold child_handle, part_handle; cbn. intros E'; inversion E'.
Qed.

Lemma grows_push_endpoint : forall sd p g name qos,
    part_inv p -> ecounter sd p < 65535 ->
    let h := child_handle (pa_h p) (h_k0 (g_h g)) (lo8 (ecounter sd p)) (hi8 (ecounter sd p)) (ep_kind sd) in
    let p' := fst (push_endpoint sd (set_ecounter sd p (ecounter sd p + 1)) g h name qos) in
    counters_le p p' /\ forall x, In x (part_handles p') -> In x (part_handles p) \/ ~ old_in p x /\ x <> pa_h p.
Proof.
  intros sd p g name qos Hi Hlt h p'. unfold p', push_endpoint. cbn [fst].
  split; [unfold counters_le; destruct sd; cbn in *; lia|].
  intros x Hx. apply in_part_handles in Hx. rewrite ps_h, es0_h, ps_tproj in Hx.
  assert (Et : tproj (set_ecounter sd p (ecounter sd p + 1)) = tproj p) by (destruct sd; reflexivity). rewrite Et in Hx.
  assert (Hcase : In x (part_handles p) \/ x = h).
  { destruct Hx as [->|[[s Hx]|Hx]]; [left; apply in_part_handles; auto| |left; apply in_part_handles; auto].
    destruct (side_eq_dec s sd) as [->| ->].
    - rewrite sproj_set_groups_same, es_groups0 in Hx.
      apply in_flat_map in Hx. destruct Hx as (ge & Hge & Hx').
      apply in_map_iff in Hge. destruct Hge as (y & <- & Hy). apply upd_first_in in Hy.
      destruct Hy as [Hy|(z & Hz & _ & ->)].
      + left. apply in_part_handles. right; left. exists sd. apply in_flat_map. exists (gproj y). split; auto.
        apply in_map; auto.
      + unfold gsk_handles, gproj in Hx'. cbn [fst snd g_h g_eps set_group_eps] in Hx'.
        assert (Hz' : In x (gsk_handles (gproj z)) -> In x (part_handles p)).
        { intros H. apply in_part_handles. right; left. exists sd. apply in_flat_map. exists (gproj z).
          split; [apply in_map; auto|exact H]. }
        destruct Hx' as [H|H].
        * left. apply Hz'. left. exact H.
        * rewrite map_map, map_app, in_app_iff in H. destruct H as [H|H].
          { left. apply Hz'. right. unfold gproj; cbn [snd]. rewrite map_map. exact H. }
          { cbn in H. destruct H as [<-|[]]. right. reflexivity. }
    - assert (E : forall l, sproj (other sd) (set_groups sd (set_ecounter sd p (ecounter sd p + 1)) l) = sproj (other sd) p)
        by (intros; destruct sd; reflexivity).
      rewrite E in Hx. left. apply in_part_handles. right; left. exists (other sd). exact Hx. }
  destruct Hcase as [H| ->]; auto. right. split.
  - unfold old_in, h. pose proof (pi_ec _ Hi sd). rewrite ctr16_child by lia. unfold child_handle; cbn.
    destruct sd; cbn;
      cbv [KIND_WRITER_GROUP KIND_READER_GROUP KIND_WRITER_WITH_KEY KIND_READER_WITH_KEY KIND_TOPIC]; cbn in *; lia.
  - destruct (pi_self _ Hi) as (i & _ & E). unfold h. rewrite E. unfold child_handle, part_handle.
    destruct sd; cbn; intros E'; inversion E'.
Qed.

Lemma grows_create_endpoint : forall pr sd gh name q, grows (fun p => create_endpoint pr sd p gh name q).
Proof.
  intros pr sd gh name q p Hi. unfold create_endpoint.
  destruct (lookup_topic sd p name); [|split; [apply counters_le_refl|auto]].
  destruct (find_first (is_group gh) (groups sd p)) as [g|] eqn:Hg; [|split; [apply counters_le_refl|auto]].
  set (qchk := match q with
               | Some x => if is_consistent (ekind_of sd) x then Some x else None
               | None => Some (g_defq g) end).
  destruct sd.
  - destruct (next_id 65535 (ecounter SPub p)) as [c'|] eqn:Hn; [|split; [apply counters_le_refl|auto]].
    destruct (next_id_some _ _ _ Hn) as [Hlt ->].
    destruct qchk as [qos|].
    + apply (grows_push_endpoint SPub p g name qos Hi Hlt).
    + cbn [fst]. split; [unfold counters_le; cbn in *; lia|]. intros x Hx. left. exact Hx.
  - destruct qchk as [qos|]; [|split; [apply counters_le_refl|auto]].
    destruct (next_id 65535 (ecounter SSub p)) as [c'|] eqn:Hn; [|split; [apply counters_le_refl|auto]].
    destruct (next_id_some _ _ _ Hn) as [Hlt ->].
    apply (grows_push_endpoint SSub p g name qos Hi Hlt).
Qed.
