(* Entity tree of dust-dds (C35 / C36 / C37): definitions only.

   Transcribed from
     dds/src/dcps/dcps_participant_factory.rs          create/delete_participant, set_qos
     dds/src/dcps/dcps_mail_handler.rs                 which participant a mail is routed to
     dds/src/dcps/dcps_domain_participant/participant_entity.rs   counters, is_empty, remove_*
     .../participant_methods.rs  publisher_methods.rs  subscriber_methods.rs  topic_methods.rs
     .../writer_methods.rs  reader_methods.rs          (get/set qos, enable)
     dds/src/dcps/infrastructure/qos.rs, qos_policy.rs (is_consistent, check_immutability, Length / DurationKind order)
     dds/src/dds_async/*.rs                            which handles a proxy object puts into a mail

   Representation choices
   * InstanceHandle ([u8;16]) = record (inst, k0, k1, k2, kind): bytes 0..7 are the constant host/app id of the
     factory, bytes 8..11 the little-endian u32 participant instance number `inst`, bytes 12..15 the entity id.
   * Vec = list in storage order; `find`/`position` = first match.
   * counters are Z with their Rust widths; since b2cf990 they are incremented with checked_add(1) and an exhausted
     counter makes the creation return OutOfResources, so the build profile (kept as a parameter of the step
     functions) no longer matters; the only wrapping counter left is the AtomicU32 participant instance number
     (fetch_add), whose wrap-around after 2^32 create_participant calls is recorded by the ghost flag f_ovf.
   * topic names are Z: n >= 0 is the topic name "t<n>", n < 0 the content-filtered-topic name "c<-n-1>"; built-in
     topic names are never used by the harness and are not modelled.
   * QoS: one record for topic / writer / reader QoS (slots a kind does not have keep a constant), one for
     publisher / subscriber QoS, one for participant QoS.  Durations are option Z (None = Infinite, Some ns),
     Length is option Z (None = Unlimited), history is option Z (None = KeepAll, Some depth). *)
From DustDDS Require Export Base.Machine.
Open Scope Z_scope.

(* ------------------------------------------------------------------ handles *)
Record handle : Type := mkH { h_inst : Z; h_k0 : Z; h_k1 : Z; h_k2 : Z; h_kind : Z }.

Definition heqb (a b : handle) : bool :=
  (h_inst a =? h_inst b) && (h_k0 a =? h_k0 b) && (h_k1 a =? h_k1 b) && (h_k2 a =? h_k2 b)
  && (h_kind a =? h_kind b).

(* ENTITYID_PARTICIPANT = [0,0,1] 0xc1 *)
Definition part_handle (inst : Z) : handle := mkH inst 0 0 1 193.
(* InstanceHandle::new([parent[0..12], k0, k1, k2, kind]) *)
Definition child_handle (parent : handle) (k0 k1 k2 kind : Z) : handle := mkH (h_inst parent) k0 k1 k2 kind.

Definition lo8 (c : Z) : Z := c mod 256.          (* to_ne_bytes()[0] / to_le_bytes()[0] of a u16 *)
Definition hi8 (c : Z) : Z := (c / 256) mod 256.  (* ...[1] *)

Definition KIND_WRITER_GROUP : Z := 8.
Definition KIND_READER_GROUP : Z := 9.
Definition KIND_TOPIC : Z := 10.
Definition KIND_WRITER_WITH_KEY : Z := 2.
Definition KIND_READER_WITH_KEY : Z := 7.

(* ------------------------------------------------------------------ counters *)
Inductive profile : Type := Debug | Release.

(* `c.checked_add(1)` on an unsigned counter whose largest value is maxv *)
Definition next_id (maxv c : Z) : option Z := if c <? maxv then Some (c + 1) else None.

(* ------------------------------------------------------------------ QoS *)
Record eqos : Type := mkEQ {
  q_dur : Z;            (* durability kind 0..3 *)
  q_dl : option Z;      (* deadline period *)
  q_lat : option Z;     (* latency budget *)
  q_lk : Z;             (* liveliness kind 0..2 *)
  q_ll : option Z;      (* liveliness lease duration *)
  q_rel : Z;            (* reliability kind 0 best effort, 1 reliable *)
  q_mbt : option Z;     (* reliability max blocking time *)
  q_ord : Z;            (* destination order kind *)
  q_hist : option Z;    (* history: None keep all, Some depth (u32) keep last *)
  q_ms : option Z;      (* resource limits: max samples (i32 or unlimited) *)
  q_mi : option Z;      (* max instances *)
  q_mspi : option Z;    (* max samples per instance *)
  q_tp : Z;             (* transport priority *)
  q_ls : option Z;      (* lifespan *)
  q_own : Z;            (* ownership kind *)
  q_str : Z;            (* ownership strength *)
  q_ud : Z;             (* user data / topic data (tag of the byte vector) *)
  q_sep : option Z;     (* time based filter minimum separation *)
  q_rep : Z;            (* data representation list: 0 [], 1 [XCDR], 2 [XCDR2], 3 [XCDR,XCDR2], 4 [XCDR2,XCDR] *)
  q_adu : bool;         (* writer data lifecycle autodispose *)
  q_apn : option Z      (* reader data lifecycle autopurge nowriter delay *)
}.

Record gqos : Type := mkGQ {
  g_sc : Z; g_coh : bool; g_oa : bool;   (* presentation *)
  g_part : Z;                            (* partition (tag) *)
  g_gd : Z;                              (* group data (tag) *)
  g_auto : bool                          (* entity factory autoenable *)
}.

Record pqos : Type := mkPQ { p_ud : Z; p_auto : bool }.

Definition oz_eqb (a b : option Z) : bool :=
  match a, b with Some x, Some y => x =? y | None, None => true | _, _ => false end.

Definition eqos_eqb (a b : eqos) : bool :=
  (q_dur a =? q_dur b) && oz_eqb (q_dl a) (q_dl b) && oz_eqb (q_lat a) (q_lat b) && (q_lk a =? q_lk b)
  && oz_eqb (q_ll a) (q_ll b) && (q_rel a =? q_rel b) && oz_eqb (q_mbt a) (q_mbt b) && (q_ord a =? q_ord b)
  && oz_eqb (q_hist a) (q_hist b) && oz_eqb (q_ms a) (q_ms b) && oz_eqb (q_mi a) (q_mi b)
  && oz_eqb (q_mspi a) (q_mspi b) && (q_tp a =? q_tp b) && oz_eqb (q_ls a) (q_ls b) && (q_own a =? q_own b)
  && (q_str a =? q_str b) && (q_ud a =? q_ud b) && oz_eqb (q_sep a) (q_sep b) && (q_rep a =? q_rep b)
  && Bool.eqb (q_adu a) (q_adu b) && oz_eqb (q_apn a) (q_apn b).

Definition gqos_eqb (a b : gqos) : bool :=
  (g_sc a =? g_sc b) && Bool.eqb (g_coh a) (g_coh b) && Bool.eqb (g_oa a) (g_oa b) && (g_part a =? g_part b)
  && (g_gd a =? g_gd b) && Bool.eqb (g_auto a) (g_auto b).

Definition pqos_eqb (a b : pqos) : bool := (p_ud a =? p_ud b) && Bool.eqb (p_auto a) (p_auto b).

(* which entity kind an eqos belongs to *)
Inductive ekind : Type := KTopic | KWriter | KReader.
Inductive side : Type := SPub | SSub.        (* publisher+writers / subscriber+readers *)
Definition ekind_of (sd : side) : ekind := match sd with SPub => KWriter | SSub => KReader end.

(* TopicQos / DataWriterQos / DataReaderQos ::const_default() *)
Definition default_eqos (k : ekind) : eqos :=
  mkEQ 0 None (Some 0) 0 None (match k with KWriter => 1 | _ => 0 end) (Some 100000000) 0 (Some 1)
       None None None 0 None 0 0 0 (Some 0) 0 true None.
Definition default_gqos : gqos := mkGQ 0 false false 0 0 true.
Definition default_pqos : pqos := mkPQ 0 true.

(* slots that do not exist on a kind carry the constant of default_eqos *)
Definition restrict (k : ekind) (q : eqos) : eqos :=
  match k with
  | KTopic => mkEQ (q_dur q) (q_dl q) (q_lat q) (q_lk q) (q_ll q) (q_rel q) (q_mbt q) (q_ord q) (q_hist q)
                   (q_ms q) (q_mi q) (q_mspi q) (q_tp q) (q_ls q) (q_own q) 0 (q_ud q) (Some 0) (q_rep q) true None
  | KWriter => mkEQ (q_dur q) (q_dl q) (q_lat q) (q_lk q) (q_ll q) (q_rel q) (q_mbt q) (q_ord q) (q_hist q)
                   (q_ms q) (q_mi q) (q_mspi q) (q_tp q) (q_ls q) (q_own q) (q_str q) (q_ud q) (Some 0) (q_rep q)
                   (q_adu q) None
  | KReader => mkEQ (q_dur q) (q_dl q) (q_lat q) (q_lk q) (q_ll q) (q_rel q) (q_mbt q) (q_ord q) (q_hist q)
                   (q_ms q) (q_mi q) (q_mspi q) 0 None (q_own q) 0 (q_ud q) (q_sep q) (q_rep q) true (q_apn q)
  end.

(* impl PartialOrd for Length:  a < b *)
Definition length_lt (a b : option Z) : bool :=
  match a, b with
  | None, _ => false
  | Some _, None => true
  | Some x, Some y => x <? y
  end.
(* impl PartialOrd<Length> for usize:  (depth as usize) > l ; `*value as usize` sign-extends an i32 *)
Definition usize_gt_length (d : Z) (l : option Z) : bool :=
  match l with
  | None => false
  | Some v => wrap_u64 v <? d
  end.
(* impl PartialOrd for DurationKind:  a < b *)
Definition dk_lt (a b : option Z) : bool :=
  match a, b with
  | Some x, Some y => x <? y
  | Some _, None => true
  | None, _ => false
  end.
Definition rep_len (r : Z) : Z := if r =? 0 then 0 else if (r =? 1) || (r =? 2) then 1 else 2.

(* <kind>Qos::is_consistent, true = Ok(()) *)
Definition hist_fits (q : eqos) : bool :=
  match q_hist q with
  | Some depth => negb ((depth =? 0) || usize_gt_length depth (q_mspi q))   (* KEEP_LAST(0) is refused *)
  | None => true
  end.
Definition is_consistent (k : ekind) (q : eqos) : bool :=
  match k with
  | KWriter =>
      if 1 <? rep_len (q_rep q) then false
      else if length_lt (q_ms q) (q_mspi q) then false
      else hist_fits q
  | KReader =>
      if length_lt (q_ms q) (q_mspi q) then false
      else if negb (hist_fits q) then false
      else if dk_lt (q_dl q) (q_sep q) then false
      else true
  | KTopic =>
      if length_lt (q_ms q) (q_mspi q) then false
      else hist_fits q
  end.

(* the seven policies compared by DataWriterQos / DataReaderQos::check_immutability and by set_topic_qos,
   in the order of the code; true = Ok(()) *)
Definition durability_ne (a b : eqos) : bool := negb (q_dur a =? q_dur b).
Definition liveliness_ne (a b : eqos) : bool := negb ((q_lk a =? q_lk b) && oz_eqb (q_ll a) (q_ll b)).
Definition reliability_ne (a b : eqos) : bool := negb ((q_rel a =? q_rel b) && oz_eqb (q_mbt a) (q_mbt b)).
Definition dest_order_ne (a b : eqos) : bool := negb (q_ord a =? q_ord b).
Definition history_ne (a b : eqos) : bool := negb (oz_eqb (q_hist a) (q_hist b)).
Definition resource_limits_ne (a b : eqos) : bool :=
  negb (oz_eqb (q_ms a) (q_ms b) && oz_eqb (q_mi a) (q_mi b) && oz_eqb (q_mspi a) (q_mspi b)).
Definition ownership_ne (a b : eqos) : bool := negb (q_own a =? q_own b).
Definition check_immutability (a b : eqos) : bool :=
  negb (durability_ne a b || liveliness_ne a b || reliability_ne a b || dest_order_ne a b
        || history_ne a b || resource_limits_ne a b || ownership_ne a b).
(* SubscriberQos::check_immutability: self.presentation != other.presentation *)
Definition presentation_eqb (a b : gqos) : bool :=
  (g_sc a =? g_sc b) && Bool.eqb (g_coh a) (g_coh b) && Bool.eqb (g_oa a) (g_oa b).

(* ------------------------------------------------------------------ entities *)
Record endpoint : Type := mkEp {
  e_h : handle;       (* instance handle *)
  e_guid : handle;    (* Guid::new(prefix of the participant handle, entity_id) of the RTPS reader/writer *)
  e_topic : Z;        (* topic_name *)
  e_en : bool;
  e_q : eqos
}.
Record group : Type := mkGr {
  g_h : handle; g_en : bool; g_q : gqos;
  g_defq : eqos;               (* default_datawriter_qos / default_data_reader_qos *)
  g_eps : list endpoint        (* data_writer_list / data_reader_list *)
}.
Record topic : Type := mkTp { t_h : handle; t_name : Z; t_en : bool; t_q : eqos }.
Record cft : Type := mkCft { c_name : Z; c_rel : Z }.

Record part : Type := mkPa {
  pa_h : handle; pa_en : bool; pa_q : pqos;
  pa_pubc : Z;      (* publisher_counter  : u8  *)
  pa_subc : Z;      (* subscriber_counter : u8  *)
  pa_wc : Z;        (* writer_counter     : u16 *)
  pa_rc : Z;        (* reader_counter     : u16 *)
  pa_tc : Z;        (* topic_counter      : u16 *)
  pa_pubs : list group; pa_subs : list group;
  pa_topics : list topic; pa_cfts : list cft;
  pa_defpub : gqos; pa_defsub : gqos; pa_deftopic : eqos
}.

Record factory : Type := mkF {
  f_parts : list part;
  f_auto : bool;            (* DomainParticipantFactoryQos.entity_factory.autoenable_created_entities *)
  f_defp : pqos;            (* default_participant_qos *)
  f_next : Z;               (* DomainParticipantFactoryAsync::entity_counter : AtomicU32 (fetch_add wraps) *)
  f_ovf : bool              (* ghost: f_next wrapped around (2^32 participants were created) *)
}.

Definition init_factory : factory := mkF [] true default_pqos 0 false.

(* ------------------------------------------------------------------ list helpers (Vec API) *)
Section ListOps.
  Context {A : Type}.
  (* iter().find(p) *)
  Fixpoint find_first (p : A -> bool) (l : list A) : option A :=
    match l with [] => None | x :: t => if p x then Some x else find_first p t end.
  (* iter_mut().find(p) followed by an assignment through the reference *)
  Fixpoint upd_first (p : A -> bool) (g : A -> A) (l : list A) : list A :=
    match l with [] => [] | x :: t => if p x then g x :: t else x :: upd_first p g t end.
  (* position(p) then remove(i) *)
  Fixpoint rem_first (p : A -> bool) (l : list A) : list A :=
    match l with [] => [] | x :: t => if p x then t else x :: rem_first p t end.
End ListOps.
Definition is_nil {A} (l : list A) : bool := match l with [] => true | _ => false end.

(* ------------------------------------------------------------------ results *)
Inductive ret : Type :=
| RUnit                         (* Ok(()) *)
| RHandle (h : handle)          (* Ok(handle) of a created entity / get_instance_handle *)
| RErr (c : Z)                  (* Err(DdsError), numbered as in the harness *)
| REQ (q : eqos) | RGQ (q : gqos) | RPQ (q : pqos)    (* get_qos *)
| RBurn (done : Z) (r : ret)    (* burn ops: iterations done, first failure or RUnit *)
| RBad                          (* the scenario names a proxy that does not exist *)
| RAnn (l : list Z)             (* discovered QoS of a matched remote endpoint (observed only; see WMpd) *)
| RAny                          (* the model makes no prediction (discovery is not modelled here) *)
| RPanic.                       (* the worker task panicked: the participant factory is dead *)

Definition E_PRECONDITION : Z := 4.
Definition E_OUT_OF_RESOURCES : Z := 5.
Definition E_IMMUTABLE : Z := 7.
Definition E_INCONSISTENT : Z := 8.
Definition E_DELETED : Z := 9.

(* ------------------------------------------------------------------ participant-level operations *)
Definition groups (sd : side) (p : part) : list group :=
  match sd with SPub => pa_pubs p | SSub => pa_subs p end.
Definition set_groups (sd : side) (p : part) (l : list group) : part :=
  match sd with
  | SPub => mkPa (pa_h p) (pa_en p) (pa_q p) (pa_pubc p) (pa_subc p) (pa_wc p) (pa_rc p) (pa_tc p) l (pa_subs p)
                 (pa_topics p) (pa_cfts p) (pa_defpub p) (pa_defsub p) (pa_deftopic p)
  | SSub => mkPa (pa_h p) (pa_en p) (pa_q p) (pa_pubc p) (pa_subc p) (pa_wc p) (pa_rc p) (pa_tc p) (pa_pubs p) l
                 (pa_topics p) (pa_cfts p) (pa_defpub p) (pa_defsub p) (pa_deftopic p)
  end.
Definition set_topics (p : part) (l : list topic) : part :=
  mkPa (pa_h p) (pa_en p) (pa_q p) (pa_pubc p) (pa_subc p) (pa_wc p) (pa_rc p) (pa_tc p) (pa_pubs p) (pa_subs p)
       l (pa_cfts p) (pa_defpub p) (pa_defsub p) (pa_deftopic p).
Definition set_cfts (p : part) (l : list cft) : part :=
  mkPa (pa_h p) (pa_en p) (pa_q p) (pa_pubc p) (pa_subc p) (pa_wc p) (pa_rc p) (pa_tc p) (pa_pubs p) (pa_subs p)
       (pa_topics p) l (pa_defpub p) (pa_defsub p) (pa_deftopic p).
(* group counter (u8), endpoint counter (u16), topic counter (u16) *)
Definition gcounter (sd : side) (p : part) : Z := match sd with SPub => pa_pubc p | SSub => pa_subc p end.
Definition ecounter (sd : side) (p : part) : Z := match sd with SPub => pa_wc p | SSub => pa_rc p end.
Definition set_gcounter (sd : side) (p : part) (c : Z) : part :=
  match sd with
  | SPub => mkPa (pa_h p) (pa_en p) (pa_q p) c (pa_subc p) (pa_wc p) (pa_rc p) (pa_tc p) (pa_pubs p)
                 (pa_subs p) (pa_topics p) (pa_cfts p) (pa_defpub p) (pa_defsub p) (pa_deftopic p)
  | SSub => mkPa (pa_h p) (pa_en p) (pa_q p) (pa_pubc p) c (pa_wc p) (pa_rc p) (pa_tc p) (pa_pubs p)
                 (pa_subs p) (pa_topics p) (pa_cfts p) (pa_defpub p) (pa_defsub p) (pa_deftopic p)
  end.
Definition set_ecounter (sd : side) (p : part) (c : Z) : part :=
  match sd with
  | SPub => mkPa (pa_h p) (pa_en p) (pa_q p) (pa_pubc p) (pa_subc p) c (pa_rc p) (pa_tc p) (pa_pubs p)
                 (pa_subs p) (pa_topics p) (pa_cfts p) (pa_defpub p) (pa_defsub p) (pa_deftopic p)
  | SSub => mkPa (pa_h p) (pa_en p) (pa_q p) (pa_pubc p) (pa_subc p) (pa_wc p) c (pa_tc p) (pa_pubs p)
                 (pa_subs p) (pa_topics p) (pa_cfts p) (pa_defpub p) (pa_defsub p) (pa_deftopic p)
  end.
Definition set_tcounter (p : part) (c : Z) : part :=
  mkPa (pa_h p) (pa_en p) (pa_q p) (pa_pubc p) (pa_subc p) (pa_wc p) (pa_rc p) c (pa_pubs p) (pa_subs p)
       (pa_topics p) (pa_cfts p) (pa_defpub p) (pa_defsub p) (pa_deftopic p).
Definition set_part_en (p : part) (b : bool) : part :=
  mkPa (pa_h p) b (pa_q p) (pa_pubc p) (pa_subc p) (pa_wc p) (pa_rc p) (pa_tc p) (pa_pubs p) (pa_subs p)
       (pa_topics p) (pa_cfts p) (pa_defpub p) (pa_defsub p) (pa_deftopic p).
Definition set_part_q (p : part) (q : pqos) : part :=
  mkPa (pa_h p) (pa_en p) q (pa_pubc p) (pa_subc p) (pa_wc p) (pa_rc p) (pa_tc p) (pa_pubs p) (pa_subs p)
       (pa_topics p) (pa_cfts p) (pa_defpub p) (pa_defsub p) (pa_deftopic p).

Definition defgq (sd : side) (p : part) : gqos := match sd with SPub => pa_defpub p | SSub => pa_defsub p end.
Definition group_kind (sd : side) : Z := match sd with SPub => KIND_WRITER_GROUP | SSub => KIND_READER_GROUP end.
Definition ep_kind (sd : side) : Z := match sd with SPub => KIND_WRITER_WITH_KEY | SSub => KIND_READER_WITH_KEY end.

Definition set_group_eps (g : group) (l : list endpoint) : group := mkGr (g_h g) (g_en g) (g_q g) (g_defq g) l.
Definition set_group_q (g : group) (q : gqos) : group := mkGr (g_h g) (g_en g) q (g_defq g) (g_eps g).
Definition set_ep_q (e : endpoint) (q : eqos) : endpoint := mkEp (e_h e) (e_guid e) (e_topic e) (e_en e) q.
Definition set_ep_en (e : endpoint) : endpoint := mkEp (e_h e) (e_guid e) (e_topic e) true (e_q e).
Definition set_topic_q (t : topic) (q : eqos) : topic := mkTp (t_h t) (t_name t) (t_en t) q.
Definition set_topic_en (t : topic) : topic := mkTp (t_h t) (t_name t) true (t_q t).

Definition is_group (h : handle) (g : group) : bool := heqb (g_h g) h.
Definition is_ep (h : handle) (e : endpoint) : bool := heqb (e_h e) h.
Definition is_topic (n : Z) (t : topic) : bool := t_name t =? n.
Definition is_cft (n : Z) (c : cft) : bool := c_name c =? n.

(* create_user_defined_publisher / _subscriber  (participant_methods.rs:40, :131) *)
Definition create_group (pr : profile) (sd : side) (p : part) (q : option gqos) : part * ret :=
  let qos := match q with None => defgq sd p | Some x => x end in
  let h := child_handle (pa_h p) (gcounter sd p) 0 0 (group_kind sd) in
  match next_id 255 (gcounter sd p) with
  | None => (p, RErr E_OUT_OF_RESOURCES)
  | Some c' =>
      let p1 := set_gcounter sd p c' in
      let g := mkGr h (pa_en p && p_auto (pa_q p)) qos (default_eqos (ekind_of sd)) [] in
      (set_groups sd p1 (groups sd p1 ++ [g]), RHandle h)
  end.

(* delete_user_defined_publisher / _subscriber  (participant_methods.rs:99, :188) *)
Definition delete_group (sd : side) (p : part) (parent gh : handle) : part * ret :=
  if negb (heqb parent (pa_h p)) then (p, RErr E_PRECONDITION)
  else match find_first (is_group gh) (groups sd p) with
       | None => (p, RErr E_DELETED)
       | Some g =>
           if negb (is_nil (g_eps g)) then (p, RErr E_PRECONDITION)
           else (set_groups sd p (rem_first (is_group gh) (groups sd p)), RUnit)
       end.

(* enable_topic (topic_methods.rs:89) *)
Definition enable_topic (p : part) (name : Z) : part * ret :=
  match find_first (is_topic name) (pa_topics p) with
  | None => (p, RErr E_DELETED)
  | Some _ => (set_topics p (upd_first (is_topic name) set_topic_en (pa_topics p)), RUnit)
  end.

(* create_topic (participant_methods.rs:222); built-in names are not modelled; since 3e9f0b1 a specific QoS is
   checked with is_consistent first *)
Definition create_topic (pr : profile) (p : part) (name : Z) (q : option eqos) : part * ret :=
  if existsb (is_topic name) (pa_topics p) then (p, RErr E_PRECONDITION)
  else
    match (match q with
           | None => Some (pa_deftopic p)
           | Some x => if is_consistent KTopic x then Some x else None
           end) with
    | None => (p, RErr E_INCONSISTENT)
    | Some qos =>
        let h := child_handle (pa_h p) 0 (lo8 (pa_tc p)) (hi8 (pa_tc p)) KIND_TOPIC in
        match next_id 65535 (pa_tc p) with
        | None => (p, RErr E_OUT_OF_RESOURCES)
        | Some c' =>
            let p1 := set_tcounter p c' in
            let p2 := set_topics p1 (pa_topics p1 ++ [mkTp h name false qos]) in
            if pa_en p && p_auto (pa_q p) then
              match enable_topic p2 name with
              | (p3, RUnit) => (p3, RHandle h)
              | (p3, r) => (p3, r)
              end
            else (p2, RHandle h)
        end
    end.

Definition uses_topic (name : Z) (g : group) : bool := existsb (fun e => e_topic e =? name) (g_eps g).

(* delete_user_defined_topic (participant_methods.rs:303) *)
Definition delete_topic (p : part) (parent : handle) (name : Z) : part * ret :=
  if negb (heqb (pa_h p) parent) then (p, RErr E_PRECONDITION)
  else match find_first (is_topic name) (pa_topics p) with
       | None => (p, RErr E_DELETED)
       | Some t =>
           if existsb (uses_topic (t_name t)) (pa_pubs p) then (p, RErr E_PRECONDITION)
           else if existsb (uses_topic (t_name t)) (pa_subs p) then (p, RErr E_PRECONDITION)
           else if existsb (fun c => c_rel c =? name) (pa_cfts p) then (p, RErr E_PRECONDITION)   (* since 7cc766b *)
           else (set_topics p (filter (fun x => negb (is_topic name x)) (pa_topics p)), RUnit)
       end.

(* create_content_filtered_topic (participant_methods.rs:355): shares topic_counter; the handle is dropped by
   the async layer *)
Definition create_cft (pr : profile) (p : part) (name related : Z) : part * ret :=
  if negb (existsb (is_topic related) (pa_topics p)) then (p, RErr E_PRECONDITION)
  else match next_id 65535 (pa_tc p) with
       | None => (p, RErr E_OUT_OF_RESOURCES)
       | Some c' => let p1 := set_tcounter p c' in (set_cfts p1 (pa_cfts p1 ++ [mkCft name related]), RUnit)
       end.
(* delete_content_filtered_topic (participant_methods.rs, since 7cc766b): AlreadyDeleted if unknown,
   PreconditionNotMet while a data reader was created on it, else the first entry of that name is removed *)
Definition delete_cft (p : part) (name : Z) : part * ret :=
  match find_first (is_cft name) (pa_cfts p) with
  | None => (p, RErr E_DELETED)
  | Some _ =>
      if existsb (uses_topic name) (pa_subs p) then (p, RErr E_PRECONDITION)
      else (set_cfts p (rem_first (is_cft name) (pa_cfts p)), RUnit)
  end.

(* topic lookup of create_data_reader (subscriber_methods.rs:43) / create_data_writer (publisher_methods.rs:38) *)
Definition lookup_topic (sd : side) (p : part) (name : Z) : option topic :=
  match sd with
  | SPub => find_first (is_topic name) (pa_topics p)
  | SSub =>
      match find_first (is_cft name) (pa_cfts p) with
      | Some c => find_first (is_topic (c_rel c)) (pa_topics p)
      | None => find_first (is_topic name) (pa_topics p)
      end
  end.

(* the tail shared by both: push the endpoint, enable it when the group is enabled and autoenables *)
Definition push_endpoint (sd : side) (p : part) (g : group) (h : handle) (name : Z) (qos : eqos) : part * ret :=
  let e := mkEp h h name (g_en g && g_auto (g_q g)) qos in
  (set_groups sd p (upd_first (is_group (g_h g)) (fun x => set_group_eps x (g_eps x ++ [e])) (groups sd p)),
   RHandle h).

(* create_data_writer (publisher_methods.rs:29): the counter is checked and incremented BEFORE the QoS check;
   create_data_reader (subscriber_methods.rs:34): the QoS check comes first *)
Definition create_endpoint (pr : profile) (sd : side) (p : part) (gh : handle) (name : Z) (q : option eqos)
  : part * ret :=
  match lookup_topic sd p name with
  | None => (p, RErr E_DELETED)
  | Some _ =>
      match find_first (is_group gh) (groups sd p) with
      | None => (p, RErr E_DELETED)
      | Some g =>
          let c := ecounter sd p in
          let h := child_handle (pa_h p) (h_k0 (g_h g)) (lo8 c) (hi8 c) (ep_kind sd) in
          let qchk := match q with
                      | None => Some (g_defq g)
                      | Some x => if is_consistent (ekind_of sd) x then Some x else None
                      end in
          match sd with
          | SPub =>
              match next_id 65535 c with
              | None => (p, RErr E_OUT_OF_RESOURCES)
              | Some c' =>
                  let p1 := set_ecounter sd p c' in
                  match qchk with
                  | None => (p1, RErr E_INCONSISTENT)
                  | Some qos => push_endpoint sd p1 g h name qos
                  end
              end
          | SSub =>
              match qchk with
              | None => (p, RErr E_INCONSISTENT)
              | Some qos =>
                  match next_id 65535 c with
                  | None => (p, RErr E_OUT_OF_RESOURCES)
                  | Some c' => push_endpoint sd (set_ecounter sd p c') g h name qos
                  end
              end
          end
      end
  end.

(* delete_data_writer / delete_data_reader *)
Definition delete_endpoint (sd : side) (p : part) (gh eh : handle) : part * ret :=
  match find_first (is_group gh) (groups sd p) with
  | None => (p, RErr E_DELETED)
  | Some g =>
      match find_first (is_ep eh) (g_eps g) with
      | None => (p, RErr E_DELETED)
      | Some _ =>
          (set_groups sd p (upd_first (is_group gh) (fun x => set_group_eps x (rem_first (is_ep eh) (g_eps x)))
                                      (groups sd p)), RUnit)
      end
  end.

(* delete_participant_contained_entities (participant_methods.rs:508): since 7cc766b the content filtered topics go
   as well *)
Definition delete_contained (p : part) : part * ret :=
  (set_topics (set_cfts (set_groups SSub (set_groups SPub p []) []) []) [], RUnit).

(* DomainParticipantEntity::is_empty *)
Definition part_is_empty (p : part) : bool :=
  is_nil (pa_pubs p) && is_nil (pa_subs p) && is_nil (pa_cfts p) && is_nil (pa_topics p).

(* get/set qos *)
Definition get_group_qos (sd : side) (p : part) (gh : handle) : part * ret :=
  match find_first (is_group gh) (groups sd p) with
  | None => (p, RErr E_DELETED)
  | Some g => (p, RGQ (g_q g))
  end.
(* set_publisher_qos (publisher_methods.rs:197, since 5256dfd) / set_subscriber_qos (subscriber_methods.rs:296):
   presentation is immutable once enabled *)
Definition set_group_qos (sd : side) (p : part) (gh : handle) (q : option gqos) : part * ret :=
  let qos := match q with None => defgq sd p | Some x => x end in
  match find_first (is_group gh) (groups sd p) with
  | None => (p, RErr E_DELETED)
  | Some g =>
      if g_en g && negb (presentation_eqb (g_q g) qos) then (p, RErr E_IMMUTABLE)
      else (set_groups sd p (upd_first (is_group gh) (fun x => set_group_q x qos) (groups sd p)), RUnit)
  end.

Definition get_ep_qos (sd : side) (p : part) (gh eh : handle) : part * ret :=
  match find_first (is_group gh) (groups sd p) with
  | None => (p, RErr E_DELETED)
  | Some g =>
      match find_first (is_ep eh) (g_eps g) with
      | None => (p, RErr E_DELETED)
      | Some e => (p, REQ (e_q e))
      end
  end.
(* set_data_writer_qos (writer_methods.rs:521) / set_data_reader_qos (reader_methods.rs:426) *)
Definition set_ep_qos (sd : side) (p : part) (gh eh : handle) (q : option eqos) : part * ret :=
  match find_first (is_group gh) (groups sd p) with
  | None => (p, RErr E_DELETED)
  | Some g =>
      let qos := match q with None => g_defq g | Some x => x end in
      match find_first (is_ep eh) (g_eps g) with
      | None => (p, RErr E_DELETED)
      | Some e =>
          if negb (is_consistent (ekind_of sd) qos) then (p, RErr E_INCONSISTENT)
          else if e_en e && negb (check_immutability (e_q e) qos) then (p, RErr E_IMMUTABLE)
          else (set_groups sd p
                  (upd_first (is_group gh)
                     (fun x => set_group_eps x (upd_first (is_ep eh) (fun y => set_ep_q y qos) (g_eps x)))
                     (groups sd p)), RUnit)
      end
  end.
(* enable_data_writer / enable_data_reader *)
Definition enable_ep (sd : side) (p : part) (gh eh : handle) : part * ret :=
  match find_first (is_group gh) (groups sd p) with
  | None => (p, RErr E_DELETED)
  | Some g =>
      match find_first (is_ep eh) (g_eps g) with
      | None => (p, RErr E_DELETED)
      | Some _ =>
          (set_groups sd p
             (upd_first (is_group gh)
                (fun x => set_group_eps x (upd_first (is_ep eh) set_ep_en (g_eps x))) (groups sd p)), RUnit)
      end
  end.
(* get_publication_matched_status / get_subscription_matched_status: only the lookups are modelled *)
Definition status_ep (sd : side) (p : part) (gh eh : handle) : part * ret :=
  match find_first (is_group gh) (groups sd p) with
  | None => (p, RErr E_DELETED)
  | Some g =>
      match find_first (is_ep eh) (g_eps g) with
      | None => (p, RErr E_DELETED)
      | Some _ => (p, RUnit)
      end
  end.

Definition get_topic_qos (p : part) (name : Z) : part * ret :=
  match find_first (is_topic name) (pa_topics p) with
  | None => (p, RErr E_DELETED)
  | Some t => (p, REQ (t_q t))
  end.
(* set_topic_qos (topic_methods.rs:38) *)
Definition set_topic_qos (p : part) (name : Z) (q : option eqos) : part * ret :=
  let qos := match q with None => pa_deftopic p | Some x => x end in
  match find_first (is_topic name) (pa_topics p) with
  | None => (p, RErr E_DELETED)
  | Some t =>
      if negb (is_consistent KTopic qos) then (p, RErr E_INCONSISTENT)
      else if t_en t && negb (check_immutability (t_q t) qos) then (p, RErr E_IMMUTABLE)
      else (set_topics p (upd_first (is_topic name) (fun x => set_topic_q x qos) (pa_topics p)), RUnit)
  end.

(* set_domain_participant_qos (participant_methods.rs:651): QosKind::Default is DomainParticipantQos::default() *)
Definition set_part_qos (p : part) (q : option pqos) : part * ret :=
  (set_part_q p (match q with None => default_pqos | Some x => x end), RUnit).
(* enable_domain_participant (participant_methods.rs:688): topics are enabled, publishers/subscribers are not *)
Definition enable_part (p : part) : part * ret :=
  if pa_en p then (p, RUnit)
  else (set_part_en (set_topics p (map set_topic_en (pa_topics p))) true, RUnit).

(* ------------------------------------------------------------------ factory-level operations (one per mail) *)
Inductive fop : Type :=
| FSetFactoryQos (auto : bool)
| FCreatePart (q : option pqos)
| FDeletePart (ph : handle)
| FCreateGroup (sd : side) (ph : handle) (q : option gqos)
| FDeleteGroup (sd : side) (ph parent gh : handle)   (* ph: participant the mail is routed to; parent: compared *)
| FCreateTopic (ph : handle) (name : Z) (q : option eqos)
| FDeleteTopic (ph parent : handle) (name : Z)
| FCreateCft (ph : handle) (name related : Z)
| FDeleteCft (ph : handle) (name : Z)
| FCreateEp (sd : side) (ph gh : handle) (name : Z) (q : option eqos)
| FDeleteEp (sd : side) (ph gh eh : handle)
| FDeleteContained (ph : handle)
| FGetPartQos (ph : handle) | FSetPartQos (ph : handle) (q : option pqos) | FEnablePart (ph : handle)
| FGetGroupQos (sd : side) (ph gh : handle) | FSetGroupQos (sd : side) (ph gh : handle) (q : option gqos)
| FGetEpQos (sd : side) (ph gh eh : handle) | FSetEpQos (sd : side) (ph gh eh : handle) (q : option eqos)
| FEnableEp (sd : side) (ph gh eh : handle) | FStatusEp (sd : side) (ph gh eh : handle)
| FGetTopicQos (ph : handle) (name : Z) | FSetTopicQos (ph : handle) (name : Z) (q : option eqos)
| FEnableTopic (ph : handle) (name : Z).

Definition is_part (h : handle) (p : part) : bool := heqb (pa_h p) h.
Definition find_part (f : factory) (h : handle) : option part := find_first (is_part h) (f_parts f).
Definition set_parts (f : factory) (l : list part) : factory := mkF l (f_auto f) (f_defp f) (f_next f) (f_ovf f).

(* find_participant(..).and_then(|p| op(p)): AlreadyDeleted when the participant is not in the list *)
Definition with_part (f : factory) (ph : handle) (k : part -> part * ret) : factory * ret :=
  match find_part f ph with
  | None => (f, RErr E_DELETED)
  | Some p => let (p', r) := k p in (set_parts f (upd_first (is_part ph) (fun _ => p') (f_parts f)), r)
  end.

Definition new_part (h : handle) (q : pqos) : part :=
  mkPa h false q 0 0 0 0 0 [] [] [] [] default_gqos default_gqos (default_eqos KTopic).

(* DomainParticipantFactoryAsync::create_participant + DcpsParticipantFactory::create_participant *)
Definition create_part (f : factory) (q : option pqos) : factory * ret :=
  let qos := match q with None => f_defp f | Some x => x end in
  let h := part_handle (f_next f) in
  let p := new_part h qos in
  let p1 := if f_auto f then fst (enable_part p) else p in
  (mkF (f_parts f ++ [p1]) (f_auto f) (f_defp f) (wrap_u32 (f_next f + 1))
       (f_ovf f || (f_next f =? u32_max)), RHandle h).

(* DcpsParticipantFactory::delete_participant *)
Definition delete_part (f : factory) (ph : handle) : factory * ret :=
  match find_part f ph with
  | None => (f, RErr E_DELETED)
  | Some p =>
      if negb (part_is_empty p) then (f, RErr E_PRECONDITION)
      else (mkF (rem_first (is_part ph) (f_parts f)) (f_auto f) (f_defp f) (f_next f) (f_ovf f), RUnit)
  end.

Definition fstep (pr : profile) (f : factory) (o : fop) : factory * ret :=
  match o with
  | FSetFactoryQos a => (mkF (f_parts f) a (f_defp f) (f_next f) (f_ovf f), RUnit)
  | FCreatePart q => create_part f q
  | FDeletePart ph => delete_part f ph
  | FCreateGroup sd ph q => with_part f ph (fun p => create_group pr sd p q)
  | FDeleteGroup sd ph parent gh => with_part f ph (fun p => delete_group sd p parent gh)
  | FCreateTopic ph name q => with_part f ph (fun p => create_topic pr p name q)
  | FDeleteTopic ph parent name => with_part f ph (fun p => delete_topic p parent name)
  | FCreateCft ph name related => with_part f ph (fun p => create_cft pr p name related)
  | FDeleteCft ph name => with_part f ph (fun p => delete_cft p name)
  | FCreateEp sd ph gh name q => with_part f ph (fun p => create_endpoint pr sd p gh name q)
  | FDeleteEp sd ph gh eh => with_part f ph (fun p => delete_endpoint sd p gh eh)
  | FDeleteContained ph => with_part f ph delete_contained
  | FGetPartQos ph => with_part f ph (fun p => (p, RPQ (pa_q p)))
  | FSetPartQos ph q => with_part f ph (fun p => set_part_qos p q)
  | FEnablePart ph => with_part f ph enable_part
  | FGetGroupQos sd ph gh => with_part f ph (fun p => get_group_qos sd p gh)
  | FSetGroupQos sd ph gh q => with_part f ph (fun p => set_group_qos sd p gh q)
  | FGetEpQos sd ph gh eh => with_part f ph (fun p => get_ep_qos sd p gh eh)
  | FSetEpQos sd ph gh eh q => with_part f ph (fun p => set_ep_qos sd p gh eh q)
  | FEnableEp sd ph gh eh => with_part f ph (fun p => enable_ep sd p gh eh)
  | FStatusEp sd ph gh eh => with_part f ph (fun p => status_ep sd p gh eh)
  | FGetTopicQos ph name => with_part f ph (fun p => get_topic_qos p name)
  | FSetTopicQos ph name q => with_part f ph (fun p => set_topic_qos p name q)
  | FEnableTopic ph name => with_part f ph (fun p => enable_topic p name)
  end.

(* a history of mails; the worker dies at the first panic *)
Fixpoint frun (pr : profile) (f : factory) (ops : list fop) : factory * list ret :=
  match ops with
  | [] => (f, [])
  | o :: t =>
      match fstep pr f o with
      | (f1, RPanic) => (f1, [RPanic])
      | (f1, r) => let (f2, rs) := frun pr f1 t in (f2, r :: rs)
      end
  end.

(* ------------------------------------------------------------------ observers used by the theorems *)
Definition group_handles (g : group) : list handle := g_h g :: map e_h (g_eps g).
Definition part_handles (p : part) : list handle :=
  pa_h p :: flat_map group_handles (pa_pubs p) ++ flat_map group_handles (pa_subs p) ++ map t_h (pa_topics p).
Definition all_handles (f : factory) : list handle := flat_map part_handles (f_parts f).
Definition part_guids (p : part) : list handle :=
  flat_map (fun g => map e_guid (g_eps g)) (pa_pubs p) ++ flat_map (fun g => map e_guid (g_eps g)) (pa_subs p).
(* the participant instance number wrapped around: more than 2^32 - 1 participants were created *)
Definition any_ovf (f : factory) : bool := f_ovf f.

(* ------------------------------------------------------------------ the application side (dds_async proxies)
   A proxy object only stores handles (and, for topics, the NAME); the scenario names proxies by their index in
   the list of successfully created proxies of their kind, exactly as harness/src/bin/entity.rs does. *)
Inductive pkind : Type := KP | KT | KPUB | KSUB | KW | KR.

Record world : Type := mkWd {
  w_f : factory;
  x_parts : list handle;                       (* DomainParticipantAsync.handle *)
  x_topics : list (handle * Z * handle);       (* TopicAsync: participant handle, topic_name, handle *)
  x_cfts : list (handle * Z);                  (* ContentFilteredTopicAsync: participant of the related topic, name *)
  x_pubs : list (handle * handle);             (* PublisherAsync: participant handle, handle *)
  x_subs : list (handle * handle);
  x_ws : list (handle * handle * handle);      (* DataWriterAsync: participant, publisher, handle *)
  x_rs : list (handle * handle * handle)
}.
Definition init_world : world := mkWd init_factory [] [] [] [] [] [] [].

Definition nthz {A} (l : list A) (i : Z) : option A := if i <? 0 then None else nth_error l (Z.to_nat i).

Definition x_groups (sd : side) (w : world) := match sd with SPub => x_pubs w | SSub => x_subs w end.
Definition x_eps (sd : side) (w : world) := match sd with SPub => x_ws w | SSub => x_rs w end.
Definition set_wf (w : world) (f : factory) : world :=
  mkWd f (x_parts w) (x_topics w) (x_cfts w) (x_pubs w) (x_subs w) (x_ws w) (x_rs w).
Definition push_part (w : world) (h : handle) : world :=
  mkWd (w_f w) (x_parts w ++ [h]) (x_topics w) (x_cfts w) (x_pubs w) (x_subs w) (x_ws w) (x_rs w).
Definition push_topic (w : world) (x : handle * Z * handle) : world :=
  mkWd (w_f w) (x_parts w) (x_topics w ++ [x]) (x_cfts w) (x_pubs w) (x_subs w) (x_ws w) (x_rs w).
Definition push_cft (w : world) (x : handle * Z) : world :=
  mkWd (w_f w) (x_parts w) (x_topics w) (x_cfts w ++ [x]) (x_pubs w) (x_subs w) (x_ws w) (x_rs w).
Definition push_group (sd : side) (w : world) (x : handle * handle) : world :=
  match sd with
  | SPub => mkWd (w_f w) (x_parts w) (x_topics w) (x_cfts w) (x_pubs w ++ [x]) (x_subs w) (x_ws w) (x_rs w)
  | SSub => mkWd (w_f w) (x_parts w) (x_topics w) (x_cfts w) (x_pubs w) (x_subs w ++ [x]) (x_ws w) (x_rs w)
  end.
Definition push_ep (sd : side) (w : world) (x : handle * handle * handle) : world :=
  match sd with
  | SPub => mkWd (w_f w) (x_parts w) (x_topics w) (x_cfts w) (x_pubs w) (x_subs w) (x_ws w ++ [x]) (x_rs w)
  | SSub => mkWd (w_f w) (x_parts w) (x_topics w) (x_cfts w) (x_pubs w) (x_subs w) (x_ws w) (x_rs w ++ [x])
  end.

Definition BURN_NAME : Z := 1000000.   (* the topic "burn" of burnT *)

Inductive wop : Type :=
| WFq (a : bool)
| WP (q : option pqos)
| WT (p : Z) (name : Z) (q : option eqos)
| WCft (p : Z) (name : Z) (t : Z)
| WG (sd : side) (p : Z) (q : option gqos)
| WE (sd : side) (g t : Z) (q : option eqos)
| WRc (g c : Z) (q : option eqos)
| WDelE (sd : side) (e : Z) (via : option Z)
| WDelG (sd : side) (g : Z) (via : option Z)
| WDelT (t : Z) (via : option Z)
| WDelCft (c : Z) (via : option Z)
| WDelAll (p : Z)
| WDelP (p : Z)
| WGq (k : pkind) (i : Z)
| WSqP (i : Z) (q : option pqos)
| WSqG (sd : side) (i : Z) (q : option gqos)
| WSqE (sd : side) (i : Z) (q : option eqos)
| WSqT (i : Z) (q : option eqos)
| WEn (k : pkind) (i : Z)
| WH (k : pkind) (i : Z)
| WSt (sd : side) (i : Z)
| WKeepnet                     (* harness: keep the in-flight datagrams from now on *)
| WSettle                      (* harness: deliver everything, let 600 ms pass *)
| WMpd (r w : Z)               (* reader r: get_matched_publication_data(writer w) -- not predicted *)
| WMsd (w r : Z)               (* writer w: get_matched_subscription_data(reader r) -- not predicted *)
| WBurnG (sd : side) (p : Z) (n : Z)
| WBurnT (p : Z) (n : Z)
| WBurnE (sd : side) (g t : Z) (n : Z).

(* run one mail and keep the proxies *)
Definition mail (pr : profile) (w : world) (o : fop) : world * ret :=
  let (f, r) := fstep pr (w_f w) o in (set_wf w f, r).

(* n times: create with default QoS, delete; stops at the first result that is not Ok *)
Fixpoint burn (pr : profile) (n : nat) (f : factory) (mk : fop) (del : handle -> fop) (done : Z) : factory * ret :=
  match n with
  | O => (f, RBurn done RUnit)
  | S n' =>
      match fstep pr f mk with
      | (f1, RHandle h) =>
          match fstep pr f1 (del h) with
          | (f2, RUnit) => burn pr n' f2 mk del (done + 1)
          | (f2, RPanic) => (f2, RPanic)
          | (f2, r) => (f2, RBurn done r)
          end
      | (f1, RPanic) => (f1, RPanic)
      | (f1, r) => (f1, RBurn done r)
      end
  end.

Definition wstep (pr : profile) (w : world) (o : wop) : world * ret :=
  match o with
  | WFq a => mail pr w (FSetFactoryQos a)
  | WP q =>
      match mail pr w (FCreatePart q) with
      | (w1, RHandle h) => (push_part w1 h, RHandle h)
      | x => x
      end
  | WT p name q =>
      match nthz (x_parts w) p with
      | None => (w, RBad)
      | Some ph =>
          match mail pr w (FCreateTopic ph name (option_map (restrict KTopic) q)) with
          | (w1, RHandle h) => (push_topic w1 (ph, name, h), RHandle h)
          | x => x
          end
      end
  | WCft p name t =>
      match nthz (x_parts w) p, nthz (x_topics w) t with
      | Some _, Some (tph, tname, _) =>
          match mail pr w (FCreateCft tph name tname) with
          | (w1, RUnit) => (push_cft w1 (tph, name), RUnit)
          | x => x
          end
      | _, _ => (w, RBad)
      end
  | WG sd p q =>
      match nthz (x_parts w) p with
      | None => (w, RBad)
      | Some ph =>
          match mail pr w (FCreateGroup sd ph q) with
          | (w1, RHandle h) => (push_group sd w1 (ph, h), RHandle h)
          | x => x
          end
      end
  | WE sd g t q =>
      match nthz (x_groups sd w) g, nthz (x_topics w) t with
      | Some (ph, gh), Some (_, tname, _) =>
          match mail pr w (FCreateEp sd ph gh tname (option_map (restrict (ekind_of sd)) q)) with
          | (w1, RHandle h) => (push_ep sd w1 (ph, gh, h), RHandle h)
          | x => x
          end
      | _, _ => (w, RBad)
      end
  | WRc g c q =>
      match nthz (x_subs w) g, nthz (x_cfts w) c with
      | Some (ph, gh), Some (_, cname) =>
          match mail pr w (FCreateEp SSub ph gh cname (option_map (restrict KReader) q)) with
          | (w1, RHandle h) => (push_ep SSub w1 (ph, gh, h), RHandle h)
          | x => x
          end
      | _, _ => (w, RBad)
      end
  | WDelE sd e via =>
      match nthz (x_eps sd w) e with
      | None => (w, RBad)
      | Some (ph, gh, eh) =>
          match via with
          | None => mail pr w (FDeleteEp sd ph gh eh)
          | Some v =>
              match nthz (x_groups sd w) v with
              | None => (w, RBad)
              | Some (vph, vgh) => mail pr w (FDeleteEp sd vph vgh eh)
              end
          end
      end
  | WDelG sd g via =>
      match nthz (x_groups sd w) g with
      | None => (w, RBad)
      | Some (ph, gh) =>
          match via with
          | None => mail pr w (FDeleteGroup sd ph ph gh)
          | Some v =>
              match nthz (x_parts w) v with
              | None => (w, RBad)
              | Some vph => mail pr w (FDeleteGroup sd vph ph gh)
              end
          end
      end
  | WDelT t via =>
      match nthz (x_topics w) t with
      | None => (w, RBad)
      | Some (ph, name, _) =>
          match via with
          | None => mail pr w (FDeleteTopic ph ph name)
          | Some v =>
              match nthz (x_parts w) v with
              | None => (w, RBad)
              | Some vph => mail pr w (FDeleteTopic ph vph name)
              end
          end
      end
  | WDelCft c via =>
      match nthz (x_cfts w) c with
      | None => (w, RBad)
      | Some (ph, name) =>
          match via with
          | None => mail pr w (FDeleteCft ph name)
          | Some v =>
              match nthz (x_parts w) v with
              | None => (w, RBad)
              | Some _ => mail pr w (FDeleteCft ph name)
              end
          end
      end
  | WDelAll p =>
      match nthz (x_parts w) p with
      | None => (w, RBad)
      | Some ph => mail pr w (FDeleteContained ph)
      end
  | WDelP p =>
      match nthz (x_parts w) p with
      | None => (w, RBad)
      | Some ph => mail pr w (FDeletePart ph)
      end
  | WGq k i =>
      match k with
      | KP => match nthz (x_parts w) i with Some ph => mail pr w (FGetPartQos ph) | None => (w, RBad) end
      | KT => match nthz (x_topics w) i with
              | Some (ph, name, _) => mail pr w (FGetTopicQos ph name) | None => (w, RBad) end
      | KPUB => match nthz (x_pubs w) i with
                | Some (ph, gh) => mail pr w (FGetGroupQos SPub ph gh) | None => (w, RBad) end
      | KSUB => match nthz (x_subs w) i with
                | Some (ph, gh) => mail pr w (FGetGroupQos SSub ph gh) | None => (w, RBad) end
      | KW => match nthz (x_ws w) i with
              | Some (ph, gh, eh) => mail pr w (FGetEpQos SPub ph gh eh) | None => (w, RBad) end
      | KR => match nthz (x_rs w) i with
              | Some (ph, gh, eh) => mail pr w (FGetEpQos SSub ph gh eh) | None => (w, RBad) end
      end
  | WSqP i q =>
      match nthz (x_parts w) i with Some ph => mail pr w (FSetPartQos ph q) | None => (w, RBad) end
  | WSqG sd i q =>
      match nthz (x_groups sd w) i with
      | Some (ph, gh) => mail pr w (FSetGroupQos sd ph gh q) | None => (w, RBad) end
  | WSqE sd i q =>
      match nthz (x_eps sd w) i with
      | Some (ph, gh, eh) => mail pr w (FSetEpQos sd ph gh eh (option_map (restrict (ekind_of sd)) q))
      | None => (w, RBad) end
  | WSqT i q =>
      match nthz (x_topics w) i with
      | Some (ph, name, _) => mail pr w (FSetTopicQos ph name (option_map (restrict KTopic) q))
      | None => (w, RBad) end
  | WEn k i =>
      match k with
      | KP => match nthz (x_parts w) i with Some ph => mail pr w (FEnablePart ph) | None => (w, RBad) end
      | KT => match nthz (x_topics w) i with
              | Some (ph, name, _) => mail pr w (FEnableTopic ph name) | None => (w, RBad) end
      | KW => match nthz (x_ws w) i with
              | Some (ph, gh, eh) => mail pr w (FEnableEp SPub ph gh eh) | None => (w, RBad) end
      | KR => match nthz (x_rs w) i with
              | Some (ph, gh, eh) => mail pr w (FEnableEp SSub ph gh eh) | None => (w, RBad) end
      | _ => (w, RBad)    (* PublisherAsync::enable / SubscriberAsync::enable are todo!(): not offered *)
      end
  | WH k i =>
      match k with
      | KP => match nthz (x_parts w) i with Some h => (w, RHandle h) | None => (w, RBad) end
      | KT => match nthz (x_topics w) i with Some (_, _, h) => (w, RHandle h) | None => (w, RBad) end
      | KPUB => match nthz (x_pubs w) i with Some (_, h) => (w, RHandle h) | None => (w, RBad) end
      | KSUB => match nthz (x_subs w) i with Some (_, h) => (w, RHandle h) | None => (w, RBad) end
      | KW => match nthz (x_ws w) i with Some (_, _, h) => (w, RHandle h) | None => (w, RBad) end
      | KR => match nthz (x_rs w) i with Some (_, _, h) => (w, RHandle h) | None => (w, RBad) end
      end
  | WSt sd i =>
      match nthz (x_eps sd w) i with
      | Some (ph, gh, eh) => mail pr w (FStatusEp sd ph gh eh) | None => (w, RBad) end
  | WKeepnet | WSettle => (w, RUnit)
  | WMpd r wi =>
      match nthz (x_rs w) r, nthz (x_ws w) wi with
      | Some _, Some _ => (w, RAny)
      | _, _ => (w, RBad)
      end
  | WMsd wi r =>
      match nthz (x_ws w) wi, nthz (x_rs w) r with
      | Some _, Some _ => (w, RAny)
      | _, _ => (w, RBad)
      end
  | WBurnG sd p n =>
      match nthz (x_parts w) p with
      | None => (w, RBad)
      | Some ph =>
          let (f, r) := burn pr (Z.to_nat n) (w_f w) (FCreateGroup sd ph None) (fun h => FDeleteGroup sd ph ph h) 0 in
          (set_wf w f, r)
      end
  | WBurnT p n =>
      match nthz (x_parts w) p with
      | None => (w, RBad)
      | Some ph =>
          let (f, r) := burn pr (Z.to_nat n) (w_f w) (FCreateTopic ph BURN_NAME None)
                             (fun _ => FDeleteTopic ph ph BURN_NAME) 0 in
          (set_wf w f, r)
      end
  | WBurnE sd g t n =>
      (* harness order: the topic proxy first, the group proxy inside the loop *)
      match nthz (x_topics w) t with
      | None => (w, RBad)
      | Some (_, tname, _) =>
          if n <=? 0 then (w, RBurn 0 RUnit)
          else match nthz (x_groups sd w) g with
               | None => (w, RBad)
               | Some (ph, gh) =>
                   let (f, r) := burn pr (Z.to_nat n) (w_f w) (FCreateEp sd ph gh tname None)
                                      (fun h => FDeleteEp sd ph gh h) 0 in
                   (set_wf w f, r)
               end
      end
  end.

(* the observable trace of a scenario: one result per op, cut after the first panic *)
Fixpoint wrun (pr : profile) (w : world) (ops : list wop) : list ret :=
  match ops with
  | [] => []
  | o :: t =>
      match wstep pr w o with
      | (_, RPanic) => [RPanic]
      | (w1, r) => r :: wrun pr w1 t
      end
  end.
Fixpoint wfinal (pr : profile) (w : world) (ops : list wop) : world :=
  match ops with
  | [] => w
  | o :: t =>
      match wstep pr w o with
      | (w1, RPanic) => w1
      | (w1, _) => wfinal pr w1 t
      end
  end.

(* ------------------------------------------------------------------ result comparison *)
(* a = what the model predicts, b = what was observed *)
Fixpoint ret_eqb (a b : ret) : bool :=
  match a, b with
  | RAny, _ => true
  | RUnit, RUnit => true
  | RHandle x, RHandle y => heqb x y
  | RErr x, RErr y => x =? y
  | REQ x, REQ y => eqos_eqb x y
  | RGQ x, RGQ y => gqos_eqb x y
  | RPQ x, RPQ y => pqos_eqb x y
  | RBurn n x, RBurn m y => (n =? m) && ret_eqb x y
  | RBad, RBad => true
  | RPanic, RPanic => true
  | _, _ => false
  end.
Fixpoint rets_eqb (a b : list ret) : bool :=
  match a, b with
  | [], [] => true
  | x :: a', y :: b' => ret_eqb x y && rets_eqb a' b'
  | _, _ => false
  end.
