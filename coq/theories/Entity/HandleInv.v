(* The handle invariant of the entity tree (shared by C35 and C36), stated on projections of the state
   (handles only) so that every QoS / enable operation trivially preserves it. *)
From DustDDS Require Import Base.Machine Entity.EntityModel Entity.EntityLemmas.
From Coq Require Import Permutation.
Open Scope Z_scope.
Ltac Zify.zify_post_hook ::= Z.div_mod_to_equations.

(* ------------------------------------------------------------------ bytes of a u16 counter *)
Lemma lo_hi_inj : forall c d, 0 <= c <= 65535 -> 0 <= d <= 65535 -> lo8 c = lo8 d -> hi8 c = hi8 d -> c = d.
Proof. unfold lo8, hi8; intros; lia. Qed.
Lemma lo8_range : forall c, 0 <= lo8 c <= 255.
Proof. unfold lo8; intros; lia. Qed.
Lemma hi8_range : forall c, 0 <= hi8 c <= 255.
Proof. unfold hi8; intros; lia. Qed.

Lemma next_id_some : forall maxv c c', next_id maxv c = Some c' -> c < maxv /\ c' = c + 1.
Proof.
  unfold next_id; intros maxv c c' H. destruct (c <? maxv) eqn:E; [|discriminate].
  apply Z.ltb_lt in E. inversion H; auto.
Qed.

(* ------------------------------------------------------------------ generic list facts *)
Lemma nodup_app : forall {A} (a b : list A),
    NoDup a -> NoDup b -> (forall x, In x a -> In x b -> False) -> NoDup (a ++ b).
Proof.
  induction a as [|x a IH]; cbn; intros b Ha Hb Hd; auto.
  inversion Ha; subst. constructor.
  - rewrite in_app_iff. intros [H|H]; [contradiction|]. eapply Hd; eauto.
  - apply IH; auto. intros y Hy Hy'. eapply Hd; eauto.
Qed.
Lemma nodup_app_inv : forall {A} (a b : list A),
    NoDup (a ++ b) -> NoDup a /\ NoDup b /\ (forall x, In x a -> In x b -> False).
Proof.
  induction a as [|x a IH]; cbn; intros b H.
  - repeat split; auto. constructor.
  - inversion H; subst. destruct (IH _ H3) as (Ha & Hb & Hd). repeat split; auto.
    + constructor; auto. intros Hx; apply H2; apply in_app_iff; auto.
    + intros y [<-|Hy] Hy'; [apply H2; apply in_app_iff; auto|eapply Hd; eauto].
Qed.

Section Proj.
  Context {A B : Type} (k : A -> B).
  Lemma map_upd_first : forall (P : A -> bool) (P' : B -> bool) (g : A -> A) (g' : B -> B) l,
      (forall x, P x = P' (k x)) -> (forall x, k (g x) = g' (k x)) ->
      map k (upd_first P g l) = upd_first P' g' (map k l).
  Proof.
    intros P P' g g' l HP Hg. induction l as [|x t IH]; cbn; auto.
    rewrite <- HP. destruct (P x); cbn; rewrite ?Hg, ?IH; auto.
  Qed.
  Lemma map_rem_first : forall (P : A -> bool) (P' : B -> bool) l,
      (forall x, P x = P' (k x)) -> map k (rem_first P l) = rem_first P' (map k l).
  Proof.
    intros P P' l HP. induction l as [|x t IH]; cbn; auto.
    rewrite <- HP. destruct (P x); cbn; rewrite ?IH; auto.
  Qed.
  Lemma map_filter_proj : forall (P : A -> bool) (P' : B -> bool) l,
      (forall x, P x = P' (k x)) -> map k (filter P l) = filter P' (map k l).
  Proof.
    intros P P' l HP. induction l as [|x t IH]; cbn; auto.
    rewrite <- HP. destruct (P x); cbn; rewrite ?IH; auto.
  Qed.
  Lemma find_first_proj : forall (P : A -> bool) (P' : B -> bool) l,
      (forall x, P x = P' (k x)) -> option_map k (find_first P l) = find_first P' (map k l).
  Proof.
    intros P P' l HP. induction l as [|x t IH]; cbn; auto.
    rewrite <- HP. destruct (P x); cbn; auto.
  Qed.
End Proj.

Lemma nodup_rem_first : forall {A} (P : A -> bool) l, NoDup l -> NoDup (rem_first P l).
Proof.
  induction l as [|x t IH]; cbn; intros H; auto. inversion H; subst.
  destruct (P x); auto. constructor; auto. intros Hx; apply H2. eapply rem_first_in; eauto.
Qed.
Lemma nodup_map_rem_first : forall {A B} (k : A -> B) (P : A -> bool) l,
    NoDup (map k l) -> NoDup (map k (rem_first P l)).
Proof.
  induction l as [|x t IH]; cbn; intros H; auto. inversion H; subst.
  destruct (P x); auto. cbn. constructor; auto.
  intros Hx; apply H2. apply in_map_iff in Hx. destruct Hx as (y & Hy & Hin).
  apply in_map_iff. exists y; split; auto. eapply rem_first_in; eauto.
Qed.
Lemma nodup_map_filter : forall {A B} (k : A -> B) (P : A -> bool) l,
    NoDup (map k l) -> NoDup (map k (filter P l)).
Proof.
  induction l as [|x t IH]; cbn; intros H; auto. inversion H; subst.
  destruct (P x); auto. cbn. constructor; auto.
  intros Hx; apply H2. apply in_map_iff in Hx. destruct Hx as (y & Hy & Hin).
  apply in_map_iff. exists y; split; auto. eapply filter_in'; eauto.
Qed.
Lemma forall_rem_first : forall {A} (Q : A -> Prop) (P : A -> bool) l, Forall Q l -> Forall Q (rem_first P l).
Proof.
  intros A Q P l H. apply Forall_forall. intros x Hx. rewrite Forall_forall in H. apply H.
  eapply rem_first_in; eauto.
Qed.
Lemma forall_upd_first : forall {A} (Q : A -> Prop) (P : A -> bool) g l,
    Forall Q l -> (forall x, In x l -> Q x -> P x = true -> Q (g x)) -> Forall Q (upd_first P g l).
Proof.
  intros A Q P g l H Hg. apply Forall_forall. intros x Hx. rewrite Forall_forall in H.
  apply upd_first_in in Hx. destruct Hx as [Hx|(y & Hy & HP & ->)]; auto.
Qed.

(* ------------------------------------------------------------------ projections *)
Definition eproj (e : endpoint) : handle * handle := (e_h e, e_guid e).
Definition gproj (g : group) : handle * list (handle * handle) := (g_h g, map eproj (g_eps g)).
Definition sproj (sd : side) (p : part) := map gproj (groups sd p).
Definition tproj (p : part) : list handle := map t_h (pa_topics p).

Definition gsk := (handle * list (handle * handle))%type.

(* endpoint e = (handle, guid) of a group with handle gh, participant handle ph, below counter ec *)
Definition eshape (ph gh : handle) (ek ec : Z) (e : handle * handle) : Prop :=
  exists c, 0 <= c < ec /\ fst e = child_handle ph (h_k0 gh) (lo8 c) (hi8 c) ek /\ snd e = fst e.
Definition gshape (ph : handle) (gk gc : Z) (gh : handle) : Prop :=
  exists c, 0 <= c < gc /\ gh = child_handle ph c 0 0 gk.
Definition ginv (ph : handle) (gk ek gc ec : Z) (G : list gsk) : Prop :=
  NoDup (map fst G) /\
  Forall (fun ge => gshape ph gk gc (fst ge) /\ NoDup (map fst (snd ge)) /\
                    Forall (eshape ph (fst ge) ek ec) (snd ge)) G.
Definition tshape (ph : handle) (tc : Z) (h : handle) : Prop :=
  exists c, 0 <= c < tc /\ h = child_handle ph 0 (lo8 c) (hi8 c) KIND_TOPIC.
Definition tinv (ph : handle) (tc : Z) (T : list handle) : Prop := NoDup T /\ Forall (tshape ph tc) T.

Lemma ginv_nil : forall ph gk ek gc ec, ginv ph gk ek gc ec [].
Proof. intros; split; constructor. Qed.

Lemma ginv_mono : forall ph gk ek gc ec gc' ec' G,
    gc <= gc' -> ec <= ec' -> ginv ph gk ek gc ec G -> ginv ph gk ek gc' ec' G.
Proof.
  intros ph gk ek gc ec gc' ec' G Hg He [Hn Hf]. split; auto.
  eapply Forall_impl; [|exact Hf]. cbn. intros ge ((c & Hc & Hh) & Hnd & Hes). repeat split; auto.
  - exists c; split; auto; lia.
  - eapply Forall_impl; [|exact Hes]. intros e (d & Hd & H1 & H2). exists d; repeat split; auto; lia.
Qed.

Lemma ginv_new_group : forall ph gk ek gc ec G,
    0 <= gc -> ginv ph gk ek gc ec G ->
    ginv ph gk ek (gc + 1) ec (G ++ [(child_handle ph gc 0 0 gk, [])]).
Proof.
  intros ph gk ek gc ec G H0 Hi. assert (Hi' : ginv ph gk ek (gc + 1) ec G) by (eapply ginv_mono; [| |exact Hi]; lia). destruct Hi' as [Hn Hf].
  destruct Hi as [_ Hf0]. split.
  - rewrite map_app. cbn. apply nodup_app; auto.
    + constructor; [intros []|constructor].
    + intros x Hx [<-|[]]. apply in_map_iff in Hx. destruct Hx as (ge & Hge & Hin).
      rewrite Forall_forall in Hf0. destruct (Hf0 _ Hin) as ((c & Hc & Hh) & _).
      rewrite Hh in Hge. unfold child_handle in Hge. inversion Hge. lia.
  - apply Forall_app; split; auto. constructor; [|constructor]. cbn. repeat split.
    + exists gc; split; auto; lia.
    + constructor.
    + constructor.
Qed.

Lemma ginv_rem_group : forall ph gk ek gc ec G (P : gsk -> bool),
    ginv ph gk ek gc ec G -> ginv ph gk ek gc ec (rem_first P G).
Proof.
  intros ph gk ek gc ec G P [Hn Hf]. split.
  - apply nodup_map_rem_first; auto.
  - apply forall_rem_first; auto.
Qed.

Lemma ginv_upd_group : forall ph gk ek gc ec G (P : gsk -> bool) (g : gsk -> gsk),
    ginv ph gk ek gc ec G ->
    (forall ge, fst (g ge) = fst ge) ->
    (forall ge, In ge G -> P ge = true ->
                NoDup (map fst (snd ge)) -> Forall (eshape ph (fst ge) ek ec) (snd ge) ->
                NoDup (map fst (snd (g ge))) /\ Forall (eshape ph (fst ge) ek ec) (snd (g ge))) ->
    ginv ph gk ek gc ec (upd_first P g G).
Proof.
  intros ph gk ek gc ec G P g [Hn Hf] Hfst Hg. split.
  - rewrite upd_first_map by exact Hfst. auto.
  - apply forall_upd_first; auto. cbn. intros ge Hin (Hs & Hnd & Hes) HP.
    rewrite Hfst. destruct (Hg ge Hin HP Hnd Hes). auto.
Qed.

(* a new endpoint with the current counter value *)
Lemma ginv_new_ep : forall ph gk ek gc ec G gh,
    0 <= ec <= 65535 -> ginv ph gk ek gc ec G ->
    let e := (child_handle ph (h_k0 gh) (lo8 ec) (hi8 ec) ek, child_handle ph (h_k0 gh) (lo8 ec) (hi8 ec) ek) in
    ginv ph gk ek gc (ec + 1)
         (upd_first (fun ge => heqb (fst ge) gh) (fun ge => (fst ge, snd ge ++ [e])) G).
Proof.
  intros ph gk ek gc ec G gh Hec Hi e.
  assert (Hi' : ginv ph gk ek gc (ec + 1) G) by (eapply ginv_mono; [| |exact Hi]; lia).
  destruct Hi as [_ Hf0].
  apply ginv_upd_group; auto.
  intros ge Hin HP Hnd Hes. cbn [fst snd]. apply heqb_eq in HP. split.
  - rewrite map_app. apply nodup_app; auto.
    + cbn. constructor; [intros []|constructor].
    + cbn. intros x Hx [<-|[]]. apply in_map_iff in Hx. destruct Hx as (e0 & He0 & Hin0).
      rewrite Forall_forall in Hf0. destruct (Hf0 _ Hin) as (_ & _ & Hes0).
      rewrite Forall_forall in Hes0. destruct (Hes0 _ Hin0) as (c & Hc & Hh & _).
      rewrite Hh in He0. unfold child_handle in He0. inversion He0.
      assert (c = ec) by (apply lo_hi_inj; auto; lia). lia.
  - apply Forall_app; split; auto. constructor; [|constructor].
    exists ec. cbn [fst snd]. rewrite HP. repeat split; auto; lia.
Qed.

Lemma ginv_rem_ep : forall ph gk ek gc ec G (P : gsk -> bool) (Q : handle * handle -> bool),
    ginv ph gk ek gc ec G ->
    ginv ph gk ek gc ec (upd_first P (fun ge => (fst ge, rem_first Q (snd ge))) G).
Proof.
  intros. apply ginv_upd_group; auto. intros ge Hin HP Hnd Hes. cbn [fst snd]. split.
  - apply nodup_map_rem_first; auto.
  - apply forall_rem_first; auto.
Qed.

Lemma tinv_mono : forall ph tc tc' T, tc <= tc' -> tinv ph tc T -> tinv ph tc' T.
Proof.
  intros ph tc tc' T H [Hn Hf]. split; auto. eapply Forall_impl; [|exact Hf].
  intros h (c & Hc & Hh). exists c; split; auto; lia.
Qed.
Lemma tinv_new : forall ph tc T, 0 <= tc <= 65535 -> tinv ph tc T ->
    tinv ph (tc + 1) (T ++ [child_handle ph 0 (lo8 tc) (hi8 tc) KIND_TOPIC]).
Proof.
  intros ph tc T Htc Hi. assert (Hi' : tinv ph (tc + 1) T) by (eapply tinv_mono; [|exact Hi]; lia). destruct Hi' as [Hn Hf]. destruct Hi as [_ Hf0].
  split.
  - apply nodup_app; auto.
    + constructor; [intros []|constructor].
    + intros x Hx [<-|[]]. rewrite Forall_forall in Hf0. destruct (Hf0 _ Hx) as (c & Hc & Hh).
      unfold child_handle in Hh. inversion Hh. assert (tc = c) by (apply lo_hi_inj; auto; lia). lia.
  - apply Forall_app; split; auto. constructor; [|constructor]. exists tc; split; auto; lia.
Qed.

(* ------------------------------------------------------------------ the participant invariant *)
Record part_inv (p : part) : Prop := mkPI {
  pi_self : exists i, 0 <= i /\ pa_h p = part_handle i;
  pi_gc : forall sd, 0 <= gcounter sd p <= 255;
  pi_ec : forall sd, 0 <= ecounter sd p <= 65535;
  pi_tc : 0 <= pa_tc p <= 65535;
  pi_groups : forall sd, ginv (pa_h p) (group_kind sd) (ep_kind sd) (gcounter sd p) (ecounter sd p) (sproj sd p);
  pi_topics : tinv (pa_h p) (pa_tc p) (tproj p)
}.

(* everything the invariant looks at *)
Definition skel (p : part) :=
  (pa_h p, (pa_pubc p, pa_subc p, pa_wc p, pa_rc p, pa_tc p), (sproj SPub p, sproj SSub p, tproj p)).

Lemma part_inv_skel : forall p p', skel p' = skel p -> part_inv p -> part_inv p'.
Proof.
  intros p p' H Hi. unfold skel in H. inversion H as [[Hh Hpc Hsc Hwc Hrc Htc Hsp Hss Htp]].
  destruct Hi as [Hs Hg He Ht Hgr Htop].
  constructor.
  - rewrite Hh; auto.
  - intros [|]; cbn; rewrite ?Hpc, ?Hsc; [apply (Hg SPub)|apply (Hg SSub)].
  - intros [|]; cbn; rewrite ?Hwc, ?Hrc; [apply (He SPub)|apply (He SSub)].
  - rewrite Htc; auto.
  - intros [|]; cbn [gcounter ecounter]; rewrite Hh, ?Hpc, ?Hsc, ?Hwc, ?Hrc, ?Hsp, ?Hss;
      [apply (Hgr SPub)|apply (Hgr SSub)].
  - rewrite Hh, Htc, Htp; auto.
Qed.
