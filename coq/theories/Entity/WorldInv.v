(* The application-level scenarios (wop: calls through dds_async proxies) only ever send mails: the factory
   invariant and the no-panic property carry over to every scenario. *)
From DustDDS Require Import Base.Machine Entity.EntityModel Entity.EntityLemmas Entity.HandleInv Entity.HandleStep
     Entity.C35Proofs.
Open Scope Z_scope.

Definition winv_step (pr : profile) (f : factory) (f' : factory) (r : ret) : Prop :=
  any_ovf f' = false -> finv f' /\ r <> RPanic /\ any_ovf f = false.

Lemma mail_inv : forall pr w o w' r,
    finv (w_f w) -> mail pr w o = (w', r) -> winv_step pr (w_f w) (w_f w') r.
Proof.
  intros pr w o w' r Hinv Hm Ho. unfold mail in Hm. destruct (fstep pr (w_f w) o) as [f1 r1] eqn:Hs.
  inversion Hm; subst. cbn [w_f set_wf] in *. eapply fstep_inv; eauto.
Qed.

Lemma burn_ovf_mono : forall pr n f mk del done f' r,
    burn pr n f mk del done = (f', r) -> any_ovf f' = false -> any_ovf f = false.
Proof.
  intros pr n. induction n as [|n IH]; intros f mk del done f' r Hb Ho; cbn [burn] in Hb.
  - inversion Hb; subst; auto.
  - destruct (fstep pr f mk) as [f1 r1] eqn:Hs1.
    assert (M1 : any_ovf f1 = false -> any_ovf f = false) by (intros; eapply fstep_ovf_mono; eauto).
    destruct r1; try (inversion Hb; subst; auto; fail).
    destruct (fstep pr f1 (del h)) as [f2 r2] eqn:Hs2.
    assert (M2 : any_ovf f2 = false -> any_ovf f1 = false) by (intros; eapply fstep_ovf_mono; eauto).
    destruct r2; try (inversion Hb; subst; auto; fail).
    apply M1, M2. eapply IH; eauto.
Qed.

Lemma burn_inv : forall pr n f mk del done f' r,
    finv f -> burn pr n f mk del done = (f', r) -> winv_step pr f f' r.
Proof.
  intros pr n. induction n as [|n IH]; intros f mk del done f' r Hinv Hb Ho; cbn [burn] in Hb.
  - inversion Hb; subst. split; [exact Hinv|split; [discriminate|exact Ho]].
  - pose proof (burn_ovf_mono pr (S n) f mk del done f' r) as Hmono. cbn [burn] in Hmono.
    destruct (fstep pr f mk) as [f1 r1] eqn:Hs1.
    destruct r1;
      try (inversion Hb; subst; destruct (fstep_inv pr f mk f' _ Hinv Hs1 Ho) as (H1 & H2 & H3);
           split; [exact H1|split; [first [discriminate|congruence]|exact H3]]).
    destruct (fstep pr f1 (del h)) as [f2 r2] eqn:Hs2.
    assert (Hf : any_ovf f = false) by (apply Hmono; auto).
    destruct r2;
      try (inversion Hb; subst;
           assert (Hf1 : any_ovf f1 = false) by (eapply fstep_ovf_mono; eauto);
           destruct (fstep_inv pr f mk f1 _ Hinv Hs1 Hf1) as (H1 & _ & _);
           destruct (fstep_inv pr f1 (del h) f' _ H1 Hs2 Ho) as (H4 & H5 & _);
           split; [exact H4|split; [first [discriminate|congruence]|exact Hf]]).
    assert (Hf2 : any_ovf f2 = false) by (eapply burn_ovf_mono; eauto).
    assert (Hf1 : any_ovf f1 = false) by (eapply fstep_ovf_mono; eauto).
    destruct (fstep_inv pr f mk f1 _ Hinv Hs1 Hf1) as (H1 & _ & _).
    destruct (fstep_inv pr f1 (del h) f2 _ H1 Hs2 Hf2) as (H4 & _ & _).
    destruct (IH f2 mk del (done + 1) f' r H4 Hb Ho) as (H7 & H8 & _). split; [exact H7|split; [exact H8|exact Hf]].
Qed.

Lemma w_f_push_group : forall sd w x, w_f (push_group sd w x) = w_f w.
Proof. intros [|] w x; reflexivity. Qed.
Lemma w_f_push_ep : forall sd w x, w_f (push_ep sd w x) = w_f w.
Proof. intros [|] w x; reflexivity. Qed.

Ltac w_trivial Hw Hinv :=
  inversion Hw; subst; intros Ho; split; [exact Hinv|split; [discriminate|exact Ho]].
Ltac w_mail Hw Hinv := eapply mail_inv; [exact Hinv|exact Hw].
Ltac w_push Hw Hinv :=
  match type of Hw with
  | context [match mail ?pr ?w ?x with _ => _ end] =>
      let w1 := fresh "w1" in let r1 := fresh "r1" in let Hm := fresh "Hm" in
      destruct (mail pr w x) as [w1 r1] eqn:Hm; destruct r1; inversion Hw; subst;
      cbn [w_f push_part push_topic push_cft]; rewrite ?w_f_push_group, ?w_f_push_ep;
      (eapply mail_inv; [exact Hinv|exact Hm])
  end.
Ltac w_burn Hw Hinv :=
  match type of Hw with
  | context [burn ?pr ?n ?f ?mk ?del ?d] =>
      let f1 := fresh "f1" in let r1 := fresh "r1" in let Hb := fresh "Hb" in
      destruct (burn pr n f mk del d) as [f1 r1] eqn:Hb; inversion Hw; subst; cbn [w_f set_wf];
      (eapply burn_inv; [exact Hinv|exact Hb])
  end.

Lemma wstep_inv : forall pr w o w' r,
    finv (w_f w) -> wstep pr w o = (w', r) -> winv_step pr (w_f w) (w_f w') r.
Proof.
  intros pr w o w' r Hinv Hw.
  destruct o; cbn [wstep] in Hw;
    repeat match type of Hw with
           | context [match ?x with _ => _ end] =>
               match x with
               | mail _ _ _ => fail 1
               | burn _ _ _ _ _ _ => fail 1
               | _ => destruct x eqn:?
               end
           end;
    first [w_mail Hw Hinv | w_push Hw Hinv | w_burn Hw Hinv | w_trivial Hw Hinv].
Qed.

Lemma mail_mono : forall pr w o w' r, mail pr w o = (w', r) -> any_ovf (w_f w') = false -> any_ovf (w_f w) = false.
Proof.
  intros pr w o w' r Hm Ho. unfold mail in Hm. destruct (fstep pr (w_f w) o) as [f1 r1] eqn:Hs.
  inversion Hm; subst. cbn [w_f set_wf] in *. eapply fstep_ovf_mono; eauto.
Qed.

Ltac m_trivial Hw := inversion Hw; subst; intros Ho; exact Ho.
Ltac m_mail Hw := eapply mail_mono; exact Hw.
Ltac m_push Hw :=
  match type of Hw with
  | context [match mail ?pr ?w ?x with _ => _ end] =>
      let w1 := fresh "w1" in let r1 := fresh "r1" in let Hm := fresh "Hm" in
      destruct (mail pr w x) as [w1 r1] eqn:Hm; destruct r1; inversion Hw; subst;
      cbn [w_f push_part push_topic push_cft]; rewrite ?w_f_push_group, ?w_f_push_ep;
      (eapply mail_mono; exact Hm)
  end.
Ltac m_burn Hw :=
  match type of Hw with
  | context [burn ?pr ?n ?f ?mk ?del ?d] =>
      let f1 := fresh "f1" in let r1 := fresh "r1" in let Hb := fresh "Hb" in
      destruct (burn pr n f mk del d) as [f1 r1] eqn:Hb; inversion Hw; subst; cbn [w_f set_wf];
      (eapply burn_ovf_mono; exact Hb)
  end.

Lemma wstep_ovf_mono : forall pr w o w' r,
    wstep pr w o = (w', r) -> any_ovf (w_f w') = false -> any_ovf (w_f w) = false.
Proof.
  intros pr w o w' r Hw.
  destruct o; cbn [wstep] in Hw;
    repeat match type of Hw with
           | context [match ?x with _ => _ end] =>
               match x with
               | mail _ _ _ => fail 1
               | burn _ _ _ _ _ _ => fail 1
               | _ => destruct x eqn:?
               end
           end;
    first [m_mail Hw | m_push Hw | m_burn Hw | m_trivial Hw].
Qed.

Lemma wfinal_ovf_mono : forall pr ops w, any_ovf (w_f (wfinal pr w ops)) = false -> any_ovf (w_f w) = false.
Proof.
  intros pr ops. induction ops as [|o t IH]; intros w H; cbn [wfinal] in H; [exact H|].
  destruct (wstep pr w o) as [w1 r] eqn:Hs.
  eapply wstep_ovf_mono; [exact Hs|]. destruct r; try (apply IH; exact H). exact H.
Qed.

(* every scenario: as long as no counter overflowed, the invariant holds at the end and nothing panicked *)
Theorem wrun_inv : forall pr ops w,
    finv (w_f w) -> any_ovf (w_f (wfinal pr w ops)) = false ->
    finv (w_f (wfinal pr w ops)) /\ ~ In RPanic (wrun pr w ops).
Proof.
  intros pr ops. induction ops as [|o t IH]; intros w Hinv Ho; cbn [wfinal wrun] in *; [split; auto|].
  destruct (wstep pr w o) as [w1 r] eqn:Hs. pose proof (wstep_inv pr w o w1 r Hinv Hs) as Hstep.
  destruct (is_rpanic r) eqn:Hr.
  - destruct r; try discriminate. destruct (Hstep Ho) as (_ & Hn & _). congruence.
  - assert (Ho' : any_ovf (w_f (wfinal pr w1 t)) = false) by (destruct r; auto; discriminate).
    assert (Hgoal : finv (w_f (wfinal pr w1 t)) /\ ~ In RPanic (r :: wrun pr w1 t)).
    { destruct (Hstep (wfinal_ovf_mono pr t w1 Ho')) as (H1 & H2 & _). destruct (IH w1 H1 Ho') as [H3 H4]. split; auto.
      intros [E'|E']; [congruence|contradiction]. }
    destruct r; try exact Hgoal. discriminate.
Qed.

(* only create_participant calls move the participant instance number *)
Definition same_counter (f f' : factory) : Prop := f_next f' = f_next f /\ f_ovf f' = f_ovf f.
Lemma same_counter_refl : forall f, same_counter f f. Proof. split; reflexivity. Qed.
Lemma same_counter_trans : forall a b c, same_counter a b -> same_counter b c -> same_counter a c.
Proof. unfold same_counter; intros a b c [H1 H2] [H3 H4]; split; congruence. Qed.

Lemma mail_counter : forall pr w o w' r,
    is_create_part o = false -> mail pr w o = (w', r) -> same_counter (w_f w) (w_f w').
Proof.
  intros pr w o w' r Hc Hm. unfold mail in Hm. destruct (fstep pr (w_f w) o) as [f1 r1] eqn:Hs.
  inversion Hm; subst. cbn [w_f set_wf]. eapply fstep_counter_other; eauto.
Qed.
Lemma burn_counter : forall pr n f mk del done f' r,
    is_create_part mk = false -> (forall h, is_create_part (del h) = false) ->
    burn pr n f mk del done = (f', r) -> same_counter f f'.
Proof.
  intros pr n. induction n as [|n IH]; intros f mk del done f' r Hmk Hdel Hb; cbn [burn] in Hb.
  - inversion Hb; subst. apply same_counter_refl.
  - destruct (fstep pr f mk) as [f1 r1] eqn:Hs1.
    pose proof (fstep_counter_other pr f mk f1 r1 Hmk Hs1) as H1.
    destruct r1; try (inversion Hb; subst; exact H1).
    destruct (fstep pr f1 (del h)) as [f2 r2] eqn:Hs2.
    pose proof (fstep_counter_other pr f1 (del h) f2 r2 (Hdel h) Hs2) as H2.
    pose proof (same_counter_trans _ _ _ H1 H2) as H12.
    destruct r2; try (inversion Hb; subst; exact H12).
    eapply same_counter_trans; [exact H12|]. eapply IH; eauto.
Qed.

Definition is_wp (o : wop) : bool := match o with WP _ => true | _ => false end.

Ltac c_trivial Hw := inversion Hw; subst; apply same_counter_refl.
Ltac c_mail Hw := eapply mail_counter; [|exact Hw]; reflexivity.
Ltac c_push Hw :=
  match type of Hw with
  | context [match mail ?pr ?w ?x with _ => _ end] =>
      let w1 := fresh "w1" in let r1 := fresh "r1" in let Hm := fresh "Hm" in
      destruct (mail pr w x) as [w1 r1] eqn:Hm; destruct r1; inversion Hw; subst;
      cbn [w_f push_part push_topic push_cft]; rewrite ?w_f_push_group, ?w_f_push_ep;
      (eapply mail_counter; [|exact Hm]; reflexivity)
  end.
Ltac c_burn Hw :=
  match type of Hw with
  | context [burn ?pr ?n ?f ?mk ?del ?d] =>
      let f1 := fresh "f1" in let r1 := fresh "r1" in let Hb := fresh "Hb" in
      destruct (burn pr n f mk del d) as [f1 r1] eqn:Hb; inversion Hw; subst; cbn [w_f set_wf];
      (eapply burn_counter; [| |exact Hb]; [reflexivity|intros; reflexivity])
  end.

Lemma wstep_counter : forall pr w o w' r,
    is_wp o = false -> wstep pr w o = (w', r) -> same_counter (w_f w) (w_f w').
Proof.
  intros pr w o w' r Hc Hw.
  destruct o; try discriminate; cbn [wstep] in Hw;
    repeat match type of Hw with
           | context [match ?x with _ => _ end] =>
               match x with
               | mail _ _ _ => fail 1
               | burn _ _ _ _ _ _ => fail 1
               | _ => destruct x eqn:?
               end
           end;
    first [c_mail Hw | c_push Hw | c_burn Hw | c_trivial Hw].
Qed.

Definition n_wp (ops : list wop) : Z := Z.of_nat (length (filter is_wp ops)).

Lemma wfinal_no_wrap : forall pr ops w,
    f_ovf (w_f w) = false -> 0 <= f_next (w_f w) -> f_next (w_f w) + n_wp ops <= u32_max ->
    any_ovf (w_f (wfinal pr w ops)) = false.
Proof.
  intros pr ops. induction ops as [|o t IH]; intros w Hf H0 Hn; [exact Hf|].
  cbn [wfinal]. destruct (wstep pr w o) as [w1 r] eqn:Hs.
  unfold n_wp in *. cbn [filter] in Hn.
  assert (Hgoal : f_ovf (w_f w1) = false /\ 0 <= f_next (w_f w1) /\
                  f_next (w_f w1) + Z.of_nat (length (filter is_wp t)) <= u32_max).
  { destruct (is_wp o) eqn:Hc.
    - cbn [length] in Hn. rewrite Nat2Z.inj_succ in Hn. destruct o; try discriminate. cbn [wstep] in Hs.
      unfold mail in Hs. cbn [fstep] in Hs. unfold create_part in Hs. cbn [fst snd] in Hs.
      inversion Hs; subst; clear Hs. cbn [w_f push_part set_wf f_ovf f_next].
      assert (Hne : (f_next (w_f w) =? u32_max) = false) by (apply Z.eqb_neq; lia).
      assert (Hw : wrap_u32 (f_next (w_f w) + 1) = f_next (w_f w) + 1).
      { unfold wrap_u32, two32, u32_max in *. rewrite Z.mod_small; lia. }
      rewrite Hf, Hne, Hw. repeat split; auto; lia.
    - destruct (wstep_counter pr w o w1 r Hc Hs) as [E1 E2]. rewrite E1, E2. auto. }
  destruct Hgoal as (G1 & G2 & G3).
  destruct r; try (apply IH; auto). exact G1.
Qed.

(* every scenario with fewer than 2^32 create_participant calls *)
Corollary scenario_no_panic_and_distinct : forall pr ops,
    n_wp ops <= u32_max ->
    let w := wfinal pr init_world ops in
    ~ In RPanic (wrun pr init_world ops) /\ NoDup (all_handles (w_f w)) /\ NoDup (all_guids (w_f w)).
Proof.
  intros pr ops Hn w.
  assert (Ho : any_ovf (w_f w) = false) by (apply wfinal_no_wrap; cbn; auto; lia).
  destruct (wrun_inv pr ops init_world finv_init Ho) as [Hi Hnp].
  split; auto. split; [apply all_handles_nodup|apply all_guids_nodup]; auto.
Qed.
