From DustDDS Require Export Base.Machine Transport.FragSizeModel.
Open Scope Z_scope.
(* one case: a sequence of set_fragment_size calls on a fresh factory; observed:
   per call (result code: 0 ok / 3 BadParameter, stored value afterwards) *)
Record C38_case := mkC38 { c38_calls : list Z; c38_obs : list (Z * Z) }.

Fixpoint c38_model (cur : Z) (calls : list Z) : list (Z * Z) :=
  match calls with
  | [] => []
  | n :: t => let '(r, cur') := set_fragment_size cur n in
              ((match r with Ok _ => 0 | Err c => c | Panic _ => -1 end), cur') :: c38_model cur' t
  end.
Fixpoint obs_eqb (a b : list (Z * Z)) : bool :=
  match a, b with
  | [], [] => true
  | (x1, y1) :: a', (x2, y2) :: b' => (x1 =? x2) && (y1 =? y2) && obs_eqb a' b'
  | _, _ => false
  end.
Definition C38_model_ok (c : C38_case) : bool :=
  obs_eqb (c38_model default_fragment_size (c38_calls c)) (c38_obs c).
(* the property itself on the implementation's observations *)
Fixpoint c38_oracle (cur : Z) (calls : list Z) (obs : list (Z * Z)) : bool :=
  match calls, obs with
  | [], [] => true
  | n :: t, (r, after) :: o =>
      (if in_range n then (r =? 0) && (after =? n) else (r =? BAD_PARAMETER) && (after =? cur))
      && c38_oracle after t o
  | _, _ => false
  end.
Definition C38_oracle_ok (c : C38_case) : bool :=
  c38_oracle default_fragment_size (c38_calls c) (c38_obs c).
Definition C38_known (c : C38_case) : N := 0%N.
