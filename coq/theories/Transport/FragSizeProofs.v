From DustDDS Require Import Base.Machine Transport.FragSizeModel.
Open Scope Z_scope.

Lemma in_range_iff n : in_range n = true <-> 8 <= n <= 65000.
Proof. unfold in_range. rewrite andb_true_iff, !Z.leb_le. tauto. Qed.

Lemma accepts_iff cur n :
  (fst (set_fragment_size cur n) = Ok tt <-> 8 <= n <= 65000) /\
  (fst (set_fragment_size cur n) = Err BAD_PARAMETER <-> ~ (8 <= n <= 65000)).
Proof.
  unfold set_fragment_size. destruct (in_range n) eqn:E; cbn [fst].
  - apply in_range_iff in E. split; split; intros; try tauto; try discriminate.
  - assert (~ 8 <= n <= 65000) by (intro H; apply in_range_iff in H; congruence).
    split; split; intros; try tauto; try discriminate; reflexivity.
Qed.

Lemma reject_keeps cur n : ~ (8 <= n <= 65000) -> snd (set_fragment_size cur n) = cur.
Proof.
  intros H. unfold set_fragment_size. destruct (in_range n) eqn:E; [|reflexivity].
  apply in_range_iff in E. tauto.
Qed.

Lemma accept_stores cur n : 8 <= n <= 65000 -> snd (set_fragment_size cur n) = n.
Proof.
  intros H. apply in_range_iff in H. unfold set_fragment_size. now rewrite H.
Qed.

(* for every history of calls the stored value is always inside the range *)
Lemma run_in_range_from cur ns : 8 <= cur <= 65000 -> 8 <= fold_left step ns cur <= 65000.
Proof.
  revert cur. induction ns as [|n ns IH]; intros cur H; cbn [fold_left]; [exact H|].
  apply IH. unfold step, set_fragment_size. destruct (in_range n) eqn:E; cbn [snd]; [|exact H].
  now apply in_range_iff.
Qed.
Lemma run_in_range ns : 8 <= run ns <= 65000.
Proof. apply run_in_range_from. unfold default_fragment_size. lia. Qed.
