(* Model of RtpsUdpTransportParticipantFactory::set_fragment_size
   (dds/src/rtps_udp_transport/udp_transport.rs).  State = the stored fragment size. *)
From DustDDS Require Export Base.Machine.
Open Scope Z_scope.

Definition BAD_PARAMETER : Z := 3.

Definition in_range (n : Z) : bool := (8 <=? n) && (n <=? 65000).

(* returns (result, new stored value) *)
Definition set_fragment_size (cur n : Z) : res unit * Z :=
  if in_range n then (Ok tt, n) else (Err BAD_PARAMETER, cur).

Definition default_fragment_size : Z := 1344.

Definition step (cur : Z) (n : Z) : Z := snd (set_fragment_size cur n).
Definition run (ns : list Z) : Z := fold_left step ns default_fragment_size.

Definition res_unit_eqb (a b : res unit) : bool :=
  match a, b with
  | Ok _, Ok _ => true | Err x, Err y => x =? y | Panic _, Panic _ => true | _, _ => false end.
