(* C15, request/offered QoS part.  Model of
     dds/src/dcps/infrastructure/qos_policy.rs  (hand-written and derived PartialOrd of the
        policy kinds and policy structs),
     dds/src/dcps/infrastructure/time.rs        (derived order of Duration, PartialOrd of DurationKind),
     dds/src/dcps/dcps_domain_participant/discovery_methods.rs
        get_discovered_reader_incompatible_qos_policy_list  (l. 3480)
        get_discovered_writer_incompatible_qos_policy_list  (l. 3538)
     as they read after the fix commits f03d4da (liveliness) and 908a0e8 (presentation)
   and, separately, the request/offered table of DDS 1.4 (2.2.3) + DDS-XTypes 7.6.3.1
   (`dds_rxo`), written without looking at the code.  Definitions only. *)
From DustDDS Require Export Base.Machine.
Open Scope Z_scope.

(* ------------------------------------------------------------------ Option<Ordering> *)
(* Rust `a < b` on PartialOrd is `partial_cmp(a,b) == Some(Less)`, `a > b` is
   `== Some(Greater)`; `comparison` plays core::cmp::Ordering (Lt = Less, Gt = Greater). *)
Definition pcmp := option comparison.
Definition p_lt (c : pcmp) : bool := match c with Some Lt => true | _ => false end.
Definition p_gt (c : pcmp) : bool := match c with Some Gt => true | _ => false end.

(* #[derive(PartialOrd)] on a struct: lexicographic, first field first:
     match a.f1.partial_cmp(&b.f1) { Some(Equal) => a.f2.partial_cmp(&b.f2), c => c } *)
Definition lex (c1 : pcmp) (c2 : pcmp) : pcmp :=
  match c1 with Some Eq => c2 | c => c end.

(* ------------------------------------------------------------------ kinds (qos_policy.rs) *)
Inductive durability_kind := Volatile | TransientLocal | Transient | Persistent.
(* impl PartialOrd for DurabilityQosPolicyKind (qos_policy.rs:373): a 4x4 table *)
Definition durability_kind_pcmp (a b : durability_kind) : pcmp :=
  match a with
  | Volatile => match b with
                | Volatile => Some Eq | TransientLocal => Some Lt
                | Transient => Some Lt | Persistent => Some Lt end
  | TransientLocal => match b with
                | Volatile => Some Gt | TransientLocal => Some Eq
                | Transient => Some Lt | Persistent => Some Lt end
  | Transient => match b with
                | Volatile => Some Gt | TransientLocal => Some Gt
                | Transient => Some Eq | Persistent => Some Lt end
  | Persistent => match b with
                | Volatile => Some Gt | TransientLocal => Some Gt
                | Transient => Some Gt | Persistent => Some Eq end
  end.

Inductive access_scope := ScopeInstance | ScopeTopic.
(* impl PartialOrd for PresentationQosPolicyAccessScopeKind (qos_policy.rs:454) *)
Definition access_scope_pcmp (a b : access_scope) : pcmp :=
  match a with
  | ScopeInstance => match b with ScopeInstance => Some Eq | ScopeTopic => Some Lt end
  | ScopeTopic => match b with ScopeInstance => Some Gt | ScopeTopic => Some Eq end
  end.

Inductive liveliness_kind := Automatic | ManualByParticipant | ManualByTopic.
(* impl PartialOrd for LivelinessQosPolicyKind (qos_policy.rs:728) *)
Definition liveliness_kind_pcmp (a b : liveliness_kind) : pcmp :=
  match a with
  | Automatic => match b with
                 | Automatic => Some Eq | ManualByParticipant => Some Lt | ManualByTopic => Some Lt end
  | ManualByParticipant => match b with
                 | Automatic => Some Gt | ManualByParticipant => Some Eq | ManualByTopic => Some Lt end
  | ManualByTopic => match b with
                 | Automatic => Some Gt | ManualByParticipant => Some Gt | ManualByTopic => Some Eq end
  end.

Inductive reliability_kind := BestEffort | Reliable.
(* impl PartialOrd for ReliabilityQosPolicyKind (qos_policy.rs:916) *)
Definition reliability_kind_pcmp (a b : reliability_kind) : pcmp :=
  match a with
  | BestEffort => match b with BestEffort => Some Eq | Reliable => Some Lt end
  | Reliable => match b with BestEffort => Some Gt | Reliable => Some Eq end
  end.

Inductive destination_order_kind := ByReceptionTimestamp | BySourceTimestamp.
(* impl PartialOrd for DestinationOrderQosPolicyKind (qos_policy.rs:1000) *)
Definition destination_order_kind_pcmp (a b : destination_order_kind) : pcmp :=
  match a with
  | ByReceptionTimestamp => match b with ByReceptionTimestamp => Some Eq | BySourceTimestamp => Some Lt end
  | BySourceTimestamp => match b with ByReceptionTimestamp => Some Gt | BySourceTimestamp => Some Eq end
  end.

Inductive ownership_kind := Shared | Exclusive.
(* #[derive(PartialEq)] *)
Definition ownership_kind_eqb (a b : ownership_kind) : bool :=
  match a, b with Shared, Shared => true | Exclusive, Exclusive => true | _, _ => false end.

(* ------------------------------------------------------------------ durations (time.rs) *)
(* struct Duration { sec: i32, nanosec: u32 } with #[derive(PartialOrd, Ord)] *)
Record duration : Type := mkduration { d_sec : Z; d_nanosec : Z }.
Definition duration_pcmp (a b : duration) : pcmp :=
  lex (Some (d_sec a ?= d_sec b)) (Some (d_nanosec a ?= d_nanosec b)).

(* enum DurationKind { Finite(Duration), Infinite }; impl PartialOrd (time.rs:44) *)
Inductive duration_kind := Finite (d : duration) | Infinite.
Definition duration_kind_pcmp (a b : duration_kind) : pcmp :=
  match a with
  | Finite this => match b with
                   | Finite v => duration_pcmp this v
                   | Infinite => Some Lt end
  | Infinite => match b with
                | Finite _ => Some Gt
                | Infinite => Some Eq end
  end.

(* ------------------------------------------------------------------ policy structs *)
(* #[derive(PartialOrd)] struct DurabilityQosPolicy { kind } *)
Definition durability_policy_pcmp (a b : durability_kind) : pcmp := durability_kind_pcmp a b.
(* #[derive(PartialOrd)] struct DeadlineQosPolicy { period: DurationKind } *)
Definition deadline_policy_pcmp (a b : duration_kind) : pcmp := duration_kind_pcmp a b.
(* #[derive(PartialOrd)] struct LatencyBudgetQosPolicy { duration: DurationKind } *)
Definition latency_policy_pcmp (a b : duration_kind) : pcmp := duration_kind_pcmp a b.
(* #[derive(PartialOrd)] struct LivelinessQosPolicy { kind, lease_duration }  (qos_policy.rs:775):
   the derive compares `kind` first and the lease only on equal kinds.  Since fix f03d4da the
   two functions below no longer use this order (they compare the two fields separately);
   the definition is kept as the transcription of the derive that still exists. *)
Record liveliness_policy : Type := mkliveliness { l_kind : liveliness_kind; l_lease : duration_kind }.
Definition liveliness_policy_pcmp (a b : liveliness_policy) : pcmp :=
  lex (liveliness_kind_pcmp (l_kind a) (l_kind b)) (duration_kind_pcmp (l_lease a) (l_lease b)).
(* #[derive(PartialOrd)] struct DestinationOrderQosPolicy { kind } *)
Definition destination_order_policy_pcmp (a b : destination_order_kind) : pcmp :=
  destination_order_kind_pcmp a b.

(* struct PresentationQosPolicy { access_scope, coherent_access, ordered_access } *)
Record presentation_policy : Type :=
  mkpresentation { p_scope : access_scope; p_coherent : bool; p_ordered : bool }.

(* QosPolicyId constants (qos_policy.rs:147-195) *)
Definition DURABILITY_ID : Z := 2.
Definition PRESENTATION_ID : Z := 3.
Definition DEADLINE_ID : Z := 4.
Definition LATENCYBUDGET_ID : Z := 5.
Definition OWNERSHIP_ID : Z := 6.
Definition LIVELINESS_ID : Z := 8.
Definition RELIABILITY_ID : Z := 11.
Definition DESTINATIONORDER_ID : Z := 12.
Definition DATA_REPRESENTATION_ID : Z := 23.
Definition XCDR_DATA_REPRESENTATION : Z := 0.

(* The QoS of one endpoint that takes part in matching: the DataWriterQos /
   DataReaderQos fields read by the two functions plus the presentation policy of
   the owning Publisher / Subscriber (for a discovered endpoint: the fields of
   Subscription/PublicationBuiltinTopicData). *)
Record eqos : Type := mkeqos {
  q_durability : durability_kind;
  q_presentation : presentation_policy;
  q_deadline : duration_kind;
  q_latency : duration_kind;
  q_liveliness : liveliness_policy;
  q_reliability : reliability_kind;
  q_destination_order : destination_order_kind;
  q_ownership : ownership_kind;
  q_representation : list Z          (* Vec<u16> *)
}.

Fixpoint contains (l : list Z) (x : Z) : bool :=
  match l with [] => false | y :: t => (y =? x) || contains t x end.
Definition is_empty (l : list Z) : bool := match l with [] => true | _ => false end.
Definition first_or (l : list Z) (d : Z) : Z := match l with [] => d | x :: _ => x end.
Definition push_if (b : bool) (id : Z) : list Z := if b then [id] else [].

(* fn get_discovered_reader_incompatible_qos_policy_list(writer_qos, discovered_reader_data,
   publisher_qos): `w` = local writer (+ its publisher), `r` = discovered reader.
   The pushes are in source order. *)
Definition reader_incompatible (w r : eqos) : list Z :=
  push_if (p_lt (durability_policy_pcmp (q_durability w) (q_durability r))) DURABILITY_ID ++
  push_if (p_lt (access_scope_pcmp (p_scope (q_presentation w)) (p_scope (q_presentation r)))
           || (p_coherent (q_presentation r) && negb (p_coherent (q_presentation w)))
           || (p_ordered (q_presentation r) && negb (p_ordered (q_presentation w))))
          PRESENTATION_ID ++
  push_if (p_gt (deadline_policy_pcmp (q_deadline w) (q_deadline r))) DEADLINE_ID ++
  push_if (p_gt (latency_policy_pcmp (q_latency w) (q_latency r))) LATENCYBUDGET_ID ++
  push_if (p_lt (liveliness_kind_pcmp (l_kind (q_liveliness w)) (l_kind (q_liveliness r)))
           || p_gt (duration_kind_pcmp (l_lease (q_liveliness w)) (l_lease (q_liveliness r))))
          LIVELINESS_ID ++
  push_if (p_lt (reliability_kind_pcmp (q_reliability w) (q_reliability r))) RELIABILITY_ID ++
  push_if (p_lt (destination_order_policy_pcmp (q_destination_order w) (q_destination_order r)))
          DESTINATIONORDER_ID ++
  push_if (negb (ownership_kind_eqb (q_ownership w) (q_ownership r))) OWNERSHIP_ID ++
  (let offered := first_or (q_representation w) XCDR_DATA_REPRESENTATION in
   push_if (negb (contains (q_representation r) offered
                  || ((offered =? XCDR_DATA_REPRESENTATION) && is_empty (q_representation r))))
           DATA_REPRESENTATION_ID).

(* fn get_discovered_writer_incompatible_qos_policy_list(data_reader, publication_builtin_topic_data,
   subscriber_qos): `r` = local reader (+ its subscriber), `w` = discovered writer.
   Note the different push order (PRESENTATION first). *)
Definition writer_incompatible (r w : eqos) : list Z :=
  push_if (p_gt (access_scope_pcmp (p_scope (q_presentation r)) (p_scope (q_presentation w)))
           || (p_coherent (q_presentation r) && negb (p_coherent (q_presentation w)))
           || (p_ordered (q_presentation r) && negb (p_ordered (q_presentation w))))
          PRESENTATION_ID ++
  push_if (p_gt (durability_policy_pcmp (q_durability r) (q_durability w))) DURABILITY_ID ++
  push_if (p_lt (deadline_policy_pcmp (q_deadline r) (q_deadline w))) DEADLINE_ID ++
  push_if (p_lt (latency_policy_pcmp (q_latency r) (q_latency w))) LATENCYBUDGET_ID ++
  push_if (p_gt (liveliness_kind_pcmp (l_kind (q_liveliness r)) (l_kind (q_liveliness w)))
           || p_lt (duration_kind_pcmp (l_lease (q_liveliness r)) (l_lease (q_liveliness w))))
          LIVELINESS_ID ++
  push_if (p_gt (reliability_kind_pcmp (q_reliability r) (q_reliability w))) RELIABILITY_ID ++
  push_if (p_gt (destination_order_policy_pcmp (q_destination_order r) (q_destination_order w)))
          DESTINATIONORDER_ID ++
  push_if (negb (ownership_kind_eqb (q_ownership r) (q_ownership w))) OWNERSHIP_ID ++
  (let offered := first_or (q_representation w) XCDR_DATA_REPRESENTATION in
   push_if (if negb (contains (q_representation r) offered)
            then negb ((offered =? XCDR_DATA_REPRESENTATION) && is_empty (q_representation r))
            else false)
           DATA_REPRESENTATION_ID).

(* ================================================================== the specification *)
(* DDS 1.4, 2.2.3 "Supported QoS", request/offered column, one clause per policy.
   `off` = what the DataWriter (and its Publisher) offers, `req` = what the DataReader
   (and its Subscriber) requests. *)
Definition durability_rank (k : durability_kind) : Z :=
  match k with Volatile => 0 | TransientLocal => 1 | Transient => 2 | Persistent => 3 end.
Definition scope_rank (k : access_scope) : Z :=
  match k with ScopeInstance => 0 | ScopeTopic => 1 end.
Definition liveliness_rank (k : liveliness_kind) : Z :=
  match k with Automatic => 0 | ManualByParticipant => 1 | ManualByTopic => 2 end.
Definition reliability_rank (k : reliability_kind) : Z :=
  match k with BestEffort => 0 | Reliable => 1 end.
Definition destination_order_rank (k : destination_order_kind) : Z :=
  match k with ByReceptionTimestamp => 0 | BySourceTimestamp => 1 end.

Definition NANOS_PER_SEC : Z := 1000000000.
(* length of a finite duration in nanoseconds *)
Definition duration_ns (d : duration) : Z := d_sec d * NANOS_PER_SEC + d_nanosec d.
(* a <= b on durations, DURATION_INFINITE being larger than every finite one *)
Definition spec_dk_leb (a b : duration_kind) : bool :=
  match a, b with
  | _, Infinite => true
  | Infinite, Finite _ => false
  | Finite x, Finite y => duration_ns x <=? duration_ns y
  end.

(* 2.2.3.4  offered kind >= requested kind *)
Definition spec_durability_ok (off req : eqos) : bool :=
  durability_rank (q_durability req) <=? durability_rank (q_durability off).
(* 2.2.3.6  offered access_scope >= requested access_scope; requested coherent_access is
   FALSE or both TRUE; requested ordered_access is FALSE or both TRUE *)
Definition spec_presentation_ok (off req : eqos) : bool :=
  (scope_rank (p_scope (q_presentation req)) <=? scope_rank (p_scope (q_presentation off)))
  && implb (p_coherent (q_presentation req)) (p_coherent (q_presentation off))
  && implb (p_ordered (q_presentation req)) (p_ordered (q_presentation off)).
(* 2.2.3.7  offered deadline period <= requested deadline period *)
Definition spec_deadline_ok (off req : eqos) : bool := spec_dk_leb (q_deadline off) (q_deadline req).
(* 2.2.3.8  offered duration <= requested duration *)
Definition spec_latency_ok (off req : eqos) : bool := spec_dk_leb (q_latency off) (q_latency req).
(* 2.2.3.11 offered kind >= requested kind AND offered lease_duration <= requested lease_duration *)
Definition spec_liveliness_kind_ok (off req : eqos) : bool :=
  liveliness_rank (l_kind (q_liveliness req)) <=? liveliness_rank (l_kind (q_liveliness off)).
Definition spec_liveliness_lease_ok (off req : eqos) : bool :=
  spec_dk_leb (l_lease (q_liveliness off)) (l_lease (q_liveliness req)).
Definition spec_liveliness_ok (off req : eqos) : bool :=
  spec_liveliness_kind_ok off req && spec_liveliness_lease_ok off req.
(* 2.2.3.14 offered kind >= requested kind *)
Definition spec_reliability_ok (off req : eqos) : bool :=
  reliability_rank (q_reliability req) <=? reliability_rank (q_reliability off).
(* 2.2.3.17 offered kind >= requested kind *)
Definition spec_destination_order_ok (off req : eqos) : bool :=
  destination_order_rank (q_destination_order req) <=? destination_order_rank (q_destination_order off).
(* 2.2.3.9  offered kind == requested kind *)
Definition spec_ownership_ok (off req : eqos) : bool :=
  match q_ownership off, q_ownership req with
  | Shared, Shared | Exclusive, Exclusive => true | _, _ => false end.
(* DDS-XTypes 7.6.3.1.1: the writer offers the first element of its list, the reader accepts
   any element of its list; an empty list stands for [XCDR_DATA_REPRESENTATION] *)
Definition spec_effective_representation (l : list Z) : list Z :=
  match l with [] => [XCDR_DATA_REPRESENTATION] | _ => l end.
Definition spec_representation_ok (off req : eqos) : bool :=
  match spec_effective_representation (q_representation off) with
  | o :: _ => existsb (Z.eqb o) (spec_effective_representation (q_representation req))
  | [] => false
  end.

(* does the standard declare policy `id` incompatible for this pair? *)
Definition spec_policy_fails (id : Z) (off req : eqos) : bool :=
  if id =? DURABILITY_ID then negb (spec_durability_ok off req)
  else if id =? PRESENTATION_ID then negb (spec_presentation_ok off req)
  else if id =? DEADLINE_ID then negb (spec_deadline_ok off req)
  else if id =? LATENCYBUDGET_ID then negb (spec_latency_ok off req)
  else if id =? LIVELINESS_ID then negb (spec_liveliness_ok off req)
  else if id =? RELIABILITY_ID then negb (spec_reliability_ok off req)
  else if id =? DESTINATIONORDER_ID then negb (spec_destination_order_ok off req)
  else if id =? OWNERSHIP_ID then negb (spec_ownership_ok off req)
  else if id =? DATA_REPRESENTATION_ID then negb (spec_representation_ok off req)
  else false.

Definition rxo_policy_ids : list Z :=
  [DURABILITY_ID; PRESENTATION_ID; DEADLINE_ID; LATENCYBUDGET_ID; LIVELINESS_ID;
   RELIABILITY_ID; DESTINATIONORDER_ID; OWNERSHIP_ID; DATA_REPRESENTATION_ID].

(* the policies the standard declares incompatible, and the overall verdict *)
Definition spec_failing (off req : eqos) : list Z :=
  filter (fun id => spec_policy_fails id off req) rxo_policy_ids.
Definition dds_rxo (off req : eqos) : bool := is_empty (spec_failing off req).

(* ------------------------------------------------------------------ domain *)
(* Duration values built by Duration::new are normalized (C14): 0 <= nanosec < 10^9. *)
Definition duration_normalized (d : duration) : Prop := 0 <= d_nanosec d < NANOS_PER_SEC.
Definition dk_normalized (k : duration_kind) : Prop :=
  match k with Finite d => duration_normalized d | Infinite => True end.
Definition eqos_normalized (q : eqos) : Prop :=
  dk_normalized (q_deadline q) /\ dk_normalized (q_latency q) /\ dk_normalized (l_lease (q_liveliness q)).
Definition dk_normalizedb (k : duration_kind) : bool :=
  match k with Finite d => (0 <=? d_nanosec d) && (d_nanosec d <? NANOS_PER_SEC) | Infinite => true end.
Definition eqos_normalizedb (q : eqos) : bool :=
  dk_normalizedb (q_deadline q) && dk_normalizedb (q_latency q) && dk_normalizedb (l_lease (q_liveliness q)).
