(* Correspondence vocabulary for C15: one case = one (writer, reader) configuration with
   the two observations made on the real code (writer's participant, reader's participant). *)
From DustDDS Require Export Base.Machine Qos.CompatModel Qos.PartitionModel Qos.MatchModel.
Open Scope Z_scope.

(* compact constructors for the generated case files: kinds as small numbers *)
Definition dur_of (k : Z) : durability_kind :=
  if k =? 0 then Volatile else if k =? 1 then TransientLocal else if k =? 2 then Transient else Persistent.
Definition live_of (k : Z) : liveliness_kind :=
  if k =? 0 then Automatic else if k =? 1 then ManualByParticipant else ManualByTopic.
Definition b_of (k : Z) : bool := negb (k =? 0).
Definition F (s n : Z) : duration_kind := Finite (mkduration s n).
Definition Inf : duration_kind := Infinite.
Definition Q (du sc co od : Z) (dl lb : duration_kind) (lk : Z) (ll : duration_kind)
             (re dor ow : Z) (rep : list Z) : eqos :=
  mkeqos (dur_of du)
         (mkpresentation (if sc =? 0 then ScopeInstance else ScopeTopic) (b_of co) (b_of od))
         dl lb (mkliveliness (live_of lk) ll)
         (if re =? 0 then BestEffort else Reliable)
         (if dor =? 0 then ByReceptionTimestamp else BySourceTimestamp)
         (if ow =? 0 then Shared else Exclusive) rep.

Inductive obs : Type := Obs (v : verdict) | ObsOther.
Record C15_case : Type := mkC15 { k_cfg : config; k_w : obs; k_r : obs }.
Definition M : obs := Obs VMatched.
Definition N0 : obs := Obs VNothing.
Definition T : obs := Obs VInconsistentTopic.
Definition In_ (last : Z) (ids : list Z) : obs := Obs (VIncompatible last ids).
Definition K (te ty : Z) (off req : eqos) (pp sp : list name) (w r : obs) : C15_case :=
  mkC15 (mkconfig (b_of te) (b_of ty) off req pp sp) w r.

Fixpoint zlist_eqb (a b : list Z) : bool :=
  match a, b with
  | [], [] => true
  | x :: a', y :: b' => (x =? y) && zlist_eqb a' b'
  | _, _ => false
  end.
Definition verdict_eqb (a b : verdict) : bool :=
  match a, b with
  | VNothing, VNothing | VInconsistentTopic, VInconsistentTopic | VMatched, VMatched => true
  | VIncompatible l1 i1, VIncompatible l2 i2 => (l1 =? l2) && zlist_eqb i1 i2
  | _, _ => false
  end.
Definition agrees (m : option verdict) (o : obs) : bool :=
  match m, o with
  | None, _ => true                       (* partition name outside the described regex fragment *)
  | Some v, Obs v' => verdict_eqb v v'
  | Some _, ObsOther => false
  end.

Definition C15_model_ok (c : C15_case) : bool :=
  agrees (writer_side (k_cfg c)) (k_w c) && agrees (reader_side (k_cfg c)) (k_r c).

Definition obs_matched (o : obs) : bool := match o with Obs v => is_matched v | ObsOther => false end.
Definition obs_reports (o : obs) (fs : list Z) : bool :=
  match o with Obs v => reports v fs | ObsOther => false end.
Definition obs_nothing (o : obs) : bool := match o with Obs VNothing => true | _ => false end.

(* the property, on the implementation's two observations *)
Definition C15_oracle_ok (c : C15_case) : bool :=
  let cfg := k_cfg c in
  if negb (config_in_domain cfg) then true
  else
    Bool.eqb (obs_matched (k_w c)) (dds_should_match cfg)
    && Bool.eqb (obs_matched (k_r c)) (dds_should_match cfg)
    && (if dds_incompatible_pair cfg
        then obs_reports (k_w c) (spec_failing (c_off cfg) (c_req cfg))
             && obs_reports (k_r c) (spec_failing (c_off cfg) (c_req cfg))
        else true).

(* known-finding class of a rejected case (evaluated only when the oracle rejects) *)
Definition C15_known (c : C15_case) : N :=
  let cfg := k_cfg c in
  if c_topic_eq cfg && c_type_eq cfg then
    let spec_part := dds_partition_match (c_pub_part cfg) (c_sub_part cfg) in
    if xorb (negb (obs_nothing (k_w c))) spec_part || xorb (negb (obs_nothing (k_r c))) spec_part
    then (* the partition verdict is not the standard's *)
      if known_default (c_pub_part cfg) (c_sub_part cfg) then 4%N
      else if known_two_wildcards (c_pub_part cfg) (c_sub_part cfg) then 5%N
      else if known_plus (c_pub_part cfg) (c_sub_part cfg) then 3%N
      (* class 6 (newline) was fixed by d70d0d9; the number is not reused *)
      else 0%N
    else 0%N   (* classes 1 (liveliness) and 2 (presentation) were fixed by f03d4da / 908a0e8;
                  the numbers are not reused *)
  else 0%N.
