(* Correspondence vocabulary for C15: one case = one (writer, reader) configuration with
   the two observations made on the real code (writer's participant, reader's participant). *)
From DustDDS Require Export Base.Machine Qos.CompatModel Qos.PartitionModel Qos.MatchModel.
Open Scope Z_scope.

(* compact constructors for the generated case files: kinds as small numbers *)
Definition dur_of (k : Z) : durability_kind :=
  if k =? 0 then Volatile else if k =? 1 then TransientLocal else if k =? 2 then Transient else Persistent.
Definition live_of (k : Z) : liveliness_kind :=
  if k =? 0 then Automatic else if k =? 1 then ManualByParticipant else ManualByTopic.
Definition b_of (k : Z) : bool := negb (k =? 0).
Definition F (s n : Z) : duration_kind := Finite (mkduration s n).
Definition Inf : duration_kind := Infinite.
Definition Q (du sc co od : Z) (dl lb : duration_kind) (lk : Z) (ll : duration_kind)
             (re dor ow : Z) (rep : list Z) : eqos :=
  mkeqos (dur_of du)
         (mkpresentation (if sc =? 0 then ScopeInstance else ScopeTopic) (b_of co) (b_of od))
         dl lb (mkliveliness (live_of lk) ll)
         (if re =? 0 then BestEffort else Reliable)
         (if dor =? 0 then ByReceptionTimestamp else BySourceTimestamp)
         (if ow =? 0 then Shared else Exclusive) rep.

Inductive obs : Type := Obs (v : verdict) | ObsOther.
Record C15_case : Type := mkC15 { k_cfg : config; k_w : obs; k_r : obs }.
Definition M : obs := Obs VMatched.
Definition N0 : obs := Obs VNothing.
Definition T : obs := Obs VInconsistentTopic.
Definition In_ (last : Z) (ids : list Z) : obs := Obs (VIncompatible last ids).
Definition K (te ty : Z) (off req : eqos) (pp sp : list name) (w r : obs) : C15_case :=
  mkC15 (mkconfig (b_of te) (b_of ty) off req pp sp) w r.

(* ---- compact form of the exhaustive kind enumeration (thorough tier): one number per case,
   z = n + 2^20 * (wcode + 2^12 * rcode).  n in [0, 589824) is the mixed-radix index of the
   kind combination, digits (most significant first)
     d1:4 d2:4 s1 c1 o1 s2 c2 o2 :2 k1:3 k2:3 r1 r2 x1 x2 w1 w2 :2
   (durability, scope, coherent, ordered, liveliness kind, reliability, destination order,
   ownership; 1 = writer side, 2 = reader side), and the duration fields rotate through five
   boundary durations with i = n + 1 -- exactly as `kind_case(n)` of props/C15.py. *)
Definition dur5 (k : Z) : duration_kind :=
  if k =? 0 then F 0 0 else if k =? 1 then F 0 1 else if k =? 2 then F 1 0
  else if k =? 3 then F 2147483647 999999999 else Inf.
Definition enum_cfg (n : Z) : config :=
  let i := n + 1 in
  let a := dur5 (i mod 5) in let b := dur5 ((i / 5) mod 5) in
  let c := dur5 ((i / 25) mod 5) in let d := dur5 ((i / 125) mod 5) in
  let w2 := n mod 2 in let n1 := n / 2 in
  let w1 := n1 mod 2 in let n2 := n1 / 2 in
  let x2 := n2 mod 2 in let n3 := n2 / 2 in
  let x1 := n3 mod 2 in let n4 := n3 / 2 in
  let r2 := n4 mod 2 in let n5 := n4 / 2 in
  let r1 := n5 mod 2 in let n6 := n5 / 2 in
  let k2 := n6 mod 3 in let n7 := n6 / 3 in
  let k1 := n7 mod 3 in let n8 := n7 / 3 in
  let o2 := n8 mod 2 in let n9 := n8 / 2 in
  let c2 := n9 mod 2 in let n10 := n9 / 2 in
  let s2 := n10 mod 2 in let n11 := n10 / 2 in
  let o1 := n11 mod 2 in let n12 := n11 / 2 in
  let c1 := n12 mod 2 in let n13 := n12 / 2 in
  let s1 := n13 mod 2 in let n14 := n13 / 2 in
  let d2 := n14 mod 4 in let d1 := (n14 / 4) mod 4 in
  mkconfig true true
    (Q d1 s1 c1 o1 a b k1 c r1 x1 w1 [])
    (Q d2 s2 c2 o2 b a k2 d r2 x2 w2 [])
    [] [].

(* one observation as a 12-bit number: tag + 8 * mask; tag 0 = matched, 1 = nothing,
   2 = inconsistent topic, 3 = other, 4 = incompatible.  For tag 4 the status lists, in the
   push order of that side's function, the policies whose bit is set in `mask` (bit k = k-th
   element of the order) and last_policy_id is the first of them.  An observation that is
   not of this shape is not written in this form (props/C15.py falls back to `K`). *)
Definition writer_side_order : list Z := [2; 3; 4; 5; 8; 11; 12; 6; 23].
Definition reader_side_order : list Z := [3; 2; 4; 5; 8; 11; 12; 6; 23].
Fixpoint pick (ids : list Z) (mask : Z) : list Z :=
  match ids with
  | [] => []
  | id :: t => (if Z.odd mask then [id] else []) ++ pick t (mask / 2)
  end.
Definition obs_of_code (order : list Z) (z : Z) : obs :=
  let tag := z mod 8 in
  if tag =? 0 then M else if tag =? 1 then N0 else if tag =? 2 then T
  else if tag =? 4 then let ids := pick order (z / 8) in In_ (hd 0 ids) ids
  else ObsOther.
(* z = n + 2^20 * (wcode + 2^12 * rcode) *)
Definition EZ (z : Z) : C15_case :=
  mkC15 (enum_cfg (z mod 1048576))
        (obs_of_code writer_side_order ((z / 1048576) mod 4096))
        (obs_of_code reader_side_order (z / 4294967296)).

Fixpoint zlist_eqb (a b : list Z) : bool :=
  match a, b with
  | [], [] => true
  | x :: a', y :: b' => (x =? y) && zlist_eqb a' b'
  | _, _ => false
  end.
Definition verdict_eqb (a b : verdict) : bool :=
  match a, b with
  | VNothing, VNothing | VInconsistentTopic, VInconsistentTopic | VMatched, VMatched => true
  | VIncompatible l1 i1, VIncompatible l2 i2 => (l1 =? l2) && zlist_eqb i1 i2
  | _, _ => false
  end.
Definition agrees (m : option verdict) (o : obs) : bool :=
  match m, o with
  | None, _ => true                       (* partition name outside the described regex fragment *)
  | Some v, Obs v' => verdict_eqb v v'
  | Some _, ObsOther => false
  end.

Definition C15_model_ok (c : C15_case) : bool :=
  agrees (writer_side (k_cfg c)) (k_w c) && agrees (reader_side (k_cfg c)) (k_r c).

Definition obs_matched (o : obs) : bool := match o with Obs v => is_matched v | ObsOther => false end.
Definition obs_reports (o : obs) (fs : list Z) : bool :=
  match o with Obs v => reports v fs | ObsOther => false end.
Definition obs_nothing (o : obs) : bool := match o with Obs VNothing => true | _ => false end.

(* the property, on the implementation's two observations *)
Definition C15_oracle_ok (c : C15_case) : bool :=
  let cfg := k_cfg c in
  if negb (config_in_domain cfg) then true
  else
    Bool.eqb (obs_matched (k_w c)) (dds_should_match cfg)
    && Bool.eqb (obs_matched (k_r c)) (dds_should_match cfg)
    && (if dds_incompatible_pair cfg
        then obs_reports (k_w c) (spec_failing (c_off cfg) (c_req cfg))
             && obs_reports (k_r c) (spec_failing (c_off cfg) (c_req cfg))
        else true).

(* known-finding class of a rejected case (evaluated only when the oracle rejects) *)
Definition C15_known (c : C15_case) : N :=
  let cfg := k_cfg c in
  if c_topic_eq cfg && c_type_eq cfg then
    let spec_part := dds_partition_match (c_pub_part cfg) (c_sub_part cfg) in
    if xorb (negb (obs_nothing (k_w c))) spec_part || xorb (negb (obs_nothing (k_r c))) spec_part
    then (* the partition verdict is not the standard's *)
      if known_default (c_pub_part cfg) (c_sub_part cfg) then 4%N
      else if known_two_wildcards (c_pub_part cfg) (c_sub_part cfg) then 5%N
      else if known_plus (c_pub_part cfg) (c_sub_part cfg) then 3%N
      (* class 6 (newline) was fixed by d70d0d9; the number is not reused *)
      else 0%N
    else 0%N   (* classes 1 (liveliness) and 2 (presentation) were fixed by f03d4da / 908a0e8;
                  the numbers are not reused *)
  else 0%N.
