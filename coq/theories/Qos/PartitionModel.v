(* C15, partition part.  Model of
     dds/src/dcps/dcps_domain_participant/discovery_methods.rs
        fn fnmatch_to_regex (l. 3603)                         -> `fnmatch_to_regex`
        the partition test of process_discovered_readers (l. 920-962) and
        process_discovered_writers (l. 1556-1596)             -> `partition_matched`
   The `regex` crate itself is NOT modelled from its source: `regex_parse` / `reps_match`
   describe what `Regex::new(s)` / `is_match` do on the strings `fnmatch_to_regex` can
   produce (anchored, literals escaped, `.`, `.*`, bracket classes, `+`); this description
   is compared with the real crate by the correspondence run.
   Independent specification: POSIX fnmatch (`fn_tokens`, `fn_match`) and the PARTITION
   rule of DDS 1.4, 2.2.3.13 (`dds_partition_match`).  Definitions only.
   A character is its Unicode scalar value (Z); a name is a list of characters. *)
From DustDDS Require Export Base.Machine.
Open Scope Z_scope.

Definition name := list Z.

Definition c_newline : Z := 10.
Definition c_bang : Z := 33.      (* ! *)
Definition c_amp : Z := 38.       (* & *)
Definition c_star : Z := 42.      (* * *)
Definition c_plus : Z := 43.      (* + *)
Definition c_dash : Z := 45.      (* - *)
Definition c_qmark : Z := 63.     (* ? *)
Definition c_lbrack : Z := 91.    (* [ *)
Definition c_bslash : Z := 92.    (* \ *)
Definition c_rbrack : Z := 93.    (* ] *)
Definition c_caret : Z := 94.     (* ^ *)
Definition c_tilde : Z := 126.    (* ~ *)

Fixpoint name_eqb (a b : name) : bool :=
  match a, b with
  | [], [] => true
  | x :: a', y :: b' => (x =? y) && name_eqb a' b'
  | _, _ => false
  end.
Fixpoint names_eqb (a b : list name) : bool :=
  match a, b with
  | [], [] => true
  | x :: a', y :: b' => name_eqb x y && names_eqb a' b'
  | _, _ => false
  end.
Definition name_in (n : name) (l : list name) : bool := existsb (name_eqb n) l.

(* ================================================================== the code *)
(* The regex string, piece by piece.  `(?s)^` in front (d70d0d9) and `$` at the end are implicit. *)
Inductive tok : Type :=
| TLit (c : Z)                          (* one character of regex::escape(literal) *)
| TDot                                  (* "."  *)
| TDotStar                              (* ".*" *)
| TClass (neg : bool) (body : list Z)   (* "[" ["^"] body "]" copied from the pattern *)
| TPlus.                                (* "+"  *)

(* fn flush_literal(out, lit) *)
Definition flush (out : list tok) (lit : list Z) : list tok := out ++ map TLit lit.

(* the inner `while let Some(ch) = chars.next()` of the '[' arm: returns
   (closed, every character pushed onto `class` by the loop, remaining input) *)
Fixpoint scan_class (p : list Z) (acc : list Z) : bool * list Z * list Z :=
  match p with
  | [] => (false, acc, [])
  | ch :: p' =>
      if ch =? c_rbrack then (true, acc ++ [ch], p')
      else if ch =? c_bslash then
        match p' with
        | esc :: p'' => scan_class p'' (acc ++ [ch; esc])
        | [] => (false, acc ++ [ch], [])
        end
      else scan_class p' (acc ++ [ch])
  end.

(* the main `while let Some(c) = chars.next()`; the fuel only makes the recursion
   structural (every iteration consumes at least one character) *)
Fixpoint translate_loop (fuel : nat) (p : list Z) (out : list tok) (lit : list Z) : list tok :=
  match fuel with
  | O => flush out lit
  | S fuel' =>
    match p with
    | [] => flush out lit                         (* after the loop: flush_literal; push('$') *)
    | c :: p' =>
        if c =? c_bslash then
          match p' with
          | next :: p'' => translate_loop fuel' p'' out (lit ++ [next])
          | [] => translate_loop fuel' [] out (lit ++ [c_bslash])
          end
        else if c =? c_star then translate_loop fuel' p' (flush out lit ++ [TDotStar]) []
        else if c =? c_qmark then translate_loop fuel' p' (flush out lit ++ [TDot]) []
        else if c =? c_lbrack then
          let out1 := flush out lit in
          let '(neg, p1) :=
            match p' with
            | n :: q => if (n =? c_bang) || (n =? c_caret) then (true, q) else (false, p')
            | [] => (false, p')
            end in
          let '(closed, pushed, rest) := scan_class p1 [] in
          if closed
          then translate_loop fuel' rest (out1 ++ [TClass neg (removelast pushed)]) []
          else (* literal.push('['); literal.push_str(&class[1..]) *)
               translate_loop fuel' rest out1 (c_lbrack :: (if neg then [c_caret] else []) ++ pushed)
        else if c =? c_plus then translate_loop fuel' p' (flush out lit ++ [TPlus]) []
        else translate_loop fuel' p' out (lit ++ [c])
    end
  end.

Definition fnmatch_to_regex (pattern : name) : list tok :=
  translate_loop (S (length pattern)) pattern [] [].

(* ------------------------------------------------------------------ the regex crate, as used here *)
Inductive cset : Type :=
| CSingle (c : Z)
| CAny                                    (* `.` under the s flag: every character *)
| CRanges (neg : bool) (rs : list (Z * Z)).
Inductive rep : Type := ROne (s : cset) | RStar (s : cset) | RPlus (s : cset).

Definition in_range (c : Z) (r : Z * Z) : bool := (fst r <=? c) && (c <=? snd r).
Definition cset_mem (s : cset) (c : Z) : bool :=
  match s with
  | CSingle x => c =? x
  | CAny => true
  | CRanges neg rs => xorb neg (existsb (in_range c) rs)
  end.

(* characters that mean only themselves inside a bracket class, for the regex crate
   and for fnmatch alike *)
Definition plain (c : Z) : bool :=
  negb ((c =? c_lbrack) || (c =? c_rbrack) || (c =? c_bslash) || (c =? c_caret)
        || (c =? c_dash) || (c =? c_amp) || (c =? c_tilde)).

Inductive parsed (A : Type) : Type :=
| POk (a : A)
| PError           (* Regex::new returns Err: the name is dropped by filter_map(.ok()) *)
| PUnsupported.    (* outside the described fragment: the model gives no answer *)
Arguments POk {A} a.
Arguments PError {A}.
Arguments PUnsupported {A}.

(* the body of a class made of plain characters and ranges lo-hi of plain characters *)
Fixpoint parse_class (body : list Z) : parsed (list (Z * Z)) :=
  match body with
  | [] => POk []
  | c :: t =>
      match t with
      | d :: hi :: t' =>
          if d =? c_dash then
            (if plain c && plain hi then
               (if c <=? hi then
                  match parse_class t' with POk rs => POk ((c, hi) :: rs) | e => e end
                else PError)
             else PUnsupported)
          else if plain c then match parse_class t with POk rs => POk ((c, c) :: rs) | e => e end
          else PUnsupported
      | _ => if plain c then match parse_class t with POk rs => POk ((c, c) :: rs) | e => e end
             else PUnsupported
      end
  end.

Definition plus_rep (r : rep) : rep :=
  match r with ROne s => RPlus s | RStar s => RStar s | RPlus s => RPlus s end.

(* `x+` repeats the piece before it; directly after `^` it repeats the anchor, which
   changes nothing *)
Fixpoint regex_parse (ts : list tok) (acc : list rep) : parsed (list rep) :=
  match ts with
  | [] => POk acc
  | TLit c :: t => regex_parse t (acc ++ [ROne (CSingle c)])
  | TDot :: t => regex_parse t (acc ++ [ROne CAny])
  | TDotStar :: t => regex_parse t (acc ++ [RStar CAny])
  | TClass neg body :: t =>
      match body with
      | [] => PUnsupported
      | _ => match parse_class body with
             | POk rs => regex_parse t (acc ++ [ROne (CRanges neg rs)])
             | PError => PError
             | PUnsupported => PUnsupported
             end
      end
  | TPlus :: t =>
      match acc with
      | [] => regex_parse t acc
      | _ => regex_parse t (removelast acc ++ [plus_rep (last acc (ROne CAny))])
      end
  end.

Definition is_nil (s : name) : bool := match s with [] => true | _ => false end.

(* zero or more characters accepted by `mem`, then `k` on what is left (greedy or not
   does not matter for a yes/no answer) *)
Fixpoint star_match (k : name -> bool) (mem : Z -> bool) (s : name) : bool :=
  k s || match s with c :: s' => mem c && star_match k mem s' | [] => false end.

(* is_match of the anchored regex: the pieces must consume the whole name *)
Fixpoint reps_match (rs : list rep) (s : name) : bool :=
  match rs with
  | [] => is_nil s
  | ROne cs :: rest =>
      match s with c :: s' => cset_mem cs c && reps_match rest s' | [] => false end
  | RStar cs :: rest => star_match (reps_match rest) (cset_mem cs) s
  | RPlus cs :: rest =>
      match s with
      | c :: s' => cset_mem cs c && star_match (reps_match rest) (cset_mem cs) s'
      | [] => false
      end
  end.

(* Regex::new(&fnmatch_to_regex(n)) *)
Definition compile (n : name) : parsed (list rep) := regex_parse (fnmatch_to_regex n) [].

(* patterns.iter().filter_map(|n| Regex::new(&fnmatch_to_regex(n)).ok())
           .any(|regex| names.iter().any(|n| regex.is_match(n)))        (None = unsupported) *)
Fixpoint any_regex_match (patterns names : list name) : option bool :=
  match patterns with
  | [] => Some false
  | p :: t =>
      match compile p, any_regex_match t names with
      | PUnsupported, _ | _, None => None
      | PError, r => r
      | POk reps, Some r => Some (existsb (reps_match reps) names || r)
      end
  end.

(* is_partition_matched; `received` is the partition of the discovered endpoint,
   `local` the partition of the local publisher / subscriber *)
Definition partition_matched (received local : list name) : option bool :=
  let is_any_name_matched := existsb (fun n => name_in n local) received in
  match any_regex_match received local, any_regex_match local received with
  | Some r1, Some r2 => Some (names_eqb received local || is_any_name_matched || r1 || r2)
  | _, _ => None
  end.

(* ================================================================== the specification *)
(* POSIX fnmatch(pattern, string, 0), IEEE 1003.1 2.13: `*` any string, `?` any one
   character, `[...]` a bracket expression (`!` -- and, as everywhere in practice, `^` --
   negates), a backslash quotes the next character.  The bracket expressions covered are
   lists of plain characters and ranges; patterns outside (unterminated `[`, `[]...]`,
   character classes, a trailing backslash, reversed ranges) have no value here. *)
Inductive ftok : Type :=
| FLit (c : Z) | FAny | FStar | FSet (neg : bool) (rs : list (Z * Z)).

(* the elements of a bracket expression up to the closing `]` *)
Fixpoint fn_bracket_items (p : list Z) : option (list (Z * Z) * list Z) :=
  match p with
  | [] => None
  | c :: t =>
      if c =? c_rbrack then Some ([], t)
      else
        match t with
        | d :: hi :: t' =>
            if d =? c_dash then
              (if plain c && plain hi && (c <=? hi)
               then match fn_bracket_items t' with Some (rs, r) => Some ((c, hi) :: rs, r) | None => None end
               else None)
            else if plain c
                 then match fn_bracket_items t with Some (rs, r) => Some ((c, c) :: rs, r) | None => None end
                 else None
        | _ => if plain c
               then match fn_bracket_items t with Some (rs, r) => Some ((c, c) :: rs, r) | None => None end
               else None
        end
  end.

Definition fn_bracket (p : list Z) : option (bool * list (Z * Z) * list Z) :=
  let '(neg, p1) :=
    match p with
    | n :: q => if (n =? c_bang) || (n =? c_caret) then (true, q) else (false, p)
    | [] => (false, p)
    end in
  match fn_bracket_items p1 with
  | Some (r :: rs, rest) => Some (neg, r :: rs, rest)
  | _ => None
  end.

Fixpoint fn_tokens_fuel (fuel : nat) (p : list Z) : option (list ftok) :=
  match fuel with
  | O => None
  | S fuel' =>
    match p with
    | [] => Some []
    | c :: p' =>
        if c =? c_bslash then
          match p' with
          | q :: p'' => option_map (cons (FLit q)) (fn_tokens_fuel fuel' p'')
          | [] => None
          end
        else if c =? c_star then option_map (cons FStar) (fn_tokens_fuel fuel' p')
        else if c =? c_qmark then option_map (cons FAny) (fn_tokens_fuel fuel' p')
        else if c =? c_lbrack then
          match fn_bracket p' with
          | Some (neg, rs, rest) => option_map (cons (FSet neg rs)) (fn_tokens_fuel fuel' rest)
          | None => None
          end
        else option_map (cons (FLit c)) (fn_tokens_fuel fuel' p')
    end
  end.
Definition fn_tokens (p : name) : option (list ftok) := fn_tokens_fuel (S (length p)) p.

Definition ftok_mem (t : ftok) (c : Z) : bool :=
  match t with
  | FLit x => c =? x
  | FAny => true
  | FStar => true
  | FSet neg rs => xorb neg (existsb (in_range c) rs)
  end.

Fixpoint fn_match (ts : list ftok) (s : name) : bool :=
  match ts with
  | [] => is_nil s
  | FStar :: rest => star_match (fn_match rest) (fun _ => true) s
  | t :: rest =>
      match s with c :: s' => ftok_mem t c && fn_match rest s' | [] => false end
  end.

(* fnmatch(pattern, string) where defined *)
Definition fnmatch (pattern s : name) : option bool :=
  option_map (fun ts => fn_match ts s) (fn_tokens pattern).

(* DDS 1.4, 2.2.3.13 PARTITION.  A name "contains wildcards" when it contains a character
   that is special to fnmatch. *)
Definition special (c : Z) : bool :=
  (c =? c_star) || (c =? c_qmark) || (c =? c_lbrack) || (c =? c_bslash).
Definition wild (n : name) : bool := existsb special n.

(* two names match: equal plain names, or one plain name that fits the other, a pattern;
   "no two names that both contain wildcards will ever be considered to match" *)
Definition dds_name_match (a b : name) : bool :=
  if wild a && wild b then false
  else if wild a then match fnmatch a b with Some r => r | None => false end
  else if wild b then match fnmatch b a with Some r => r | None => false end
  else name_eqb a b.

(* "The default value is an empty sequence ... equivalent to a sequence containing a
   single element consisting of the empty string": the zero-length default partition *)
Definition effective_partition (l : list name) : list name :=
  match l with [] => [[]] | _ => l end.

(* the entities communicate iff some partition of one matches some partition of the other *)
Definition dds_partition_match (pub sub : list name) : bool :=
  existsb (fun a => existsb (fun b => dds_name_match a b) (effective_partition sub))
          (effective_partition pub).

(* ------------------------------------------------------------------ domain and known classes *)
Definition fn_supported (n : name) : bool :=
  match fn_tokens n with Some _ => true | None => false end.
Definition names_supported (l : list name) : bool := forallb fn_supported l.

Definition is_tplus (t : tok) : bool := match t with TPlus => true | _ => false end.
(* class 3 (finding C15-partition-plus): an unquoted `+` outside a bracket expression is
   turned into the regex repetition operator *)
Definition has_plus (n : name) : bool := existsb is_tplus (fnmatch_to_regex n).
Definition known_plus (a b : list name) : bool := existsb has_plus a || existsb has_plus b.

(* class 4 (finding C15-partition-default): exactly one side has the empty (default)
   partition list; the code compares it with nothing instead of with "" *)
Definition no_names (l : list name) : bool := match l with [] => true | _ => false end.
Definition known_default (a b : list name) : bool := xorb (no_names a) (no_names b).

(* what the code does for one pair of names, in either role *)
Definition code_pair_match (a b : name) : bool :=
  name_eqb a b
  || match compile a with POk ra => reps_match ra b | _ => false end
  || match compile b with POk rb => reps_match rb a | _ => false end.
(* class 5 (finding C15-partition-two-wildcards): the code matches two names that both
   contain wildcards (as equal strings, or one as a pattern for the other) *)
Definition known_two_wildcards (a b : list name) : bool :=
  existsb (fun x => existsb (fun y => wild x && wild y && code_pair_match x y) b) a.

(* class 6 (C15-partition-newline: `.` did not match a line feed) was fixed by d70d0d9
   (the regex now starts with `(?s)`); the number is not reused *)

Definition known_partition (a b : list name) : bool :=
  known_plus a b || known_default a b || known_two_wildcards a b.
