(* C15: the matched / incompatible decision of the two call sites against the property *)
From DustDDS Require Import Base.Machine Qos.CompatModel Qos.CompatProofs Qos.PartitionModel
  Qos.PartitionProofs Qos.MatchModel.
From Coq Require Import Permutation.
Open Scope Z_scope.

(* ------------------------------------------------------------------ both sides reach the same verdict *)
Inductive verdict_equiv : verdict -> verdict -> Prop :=
| ve_nothing : verdict_equiv VNothing VNothing
| ve_topic : verdict_equiv VInconsistentTopic VInconsistentTopic
| ve_matched : verdict_equiv VMatched VMatched
| ve_incompatible l1 i1 l2 i2 :
    Permutation i1 i2 -> In l1 i1 -> In l2 i2 -> verdict_equiv (VIncompatible l1 i1) (VIncompatible l2 i2).

Definition option_equiv (a b : option verdict) : Prop :=
  match a, b with
  | Some x, Some y => verdict_equiv x y
  | None, None => True
  | _, _ => False
  end.

Lemma verdict_of_list_equiv l1 l2 :
  Permutation l1 l2 -> verdict_equiv (verdict_of_list l1) (verdict_of_list l2).
Proof.
  intros P. destruct l1 as [|a t1], l2 as [|b t2]; cbn.
  - constructor.
  - apply Permutation_nil in P. discriminate P.
  - apply Permutation_sym, Permutation_nil in P. discriminate P.
  - constructor; [exact P|left; reflexivity|left; reflexivity].
Qed.

Theorem both_sides_agree c : option_equiv (writer_side c) (reader_side c).
Proof.
  unfold writer_side, reader_side, decide.
  rewrite (partition_matched_sym (c_sub_part c) (c_pub_part c)).
  destruct (c_topic_eq c); cbn [negb]; [|constructor].
  destruct (partition_matched (c_pub_part c) (c_sub_part c)) as [[|]|]; cbn; try constructor.
  destruct (c_type_eq c); cbn [negb]; [|constructor].
  apply verdict_of_list_equiv, both_sides_permutation.
Qed.

Corollary both_sides_matched c :
  writer_side c = Some VMatched <-> reader_side c = Some VMatched.
Proof.
  pose proof (both_sides_agree c) as H. unfold option_equiv in H.
  destruct (writer_side c) as [v1|], (reader_side c) as [v2|]; try contradiction; split; intros E;
    try discriminate E; inversion E; subst; inversion H; reflexivity.
Qed.

(* ------------------------------------------------------------------ matched iff the standard says so *)
Lemma verdict_of_list_matched l : verdict_of_list l = VMatched <-> l = [].
Proof. destruct l; cbn; split; congruence. Qed.

Lemma in_domain_split c : config_in_domain c = true ->
  eqos_normalized (c_off c) /\ eqos_normalized (c_req c) /\
  names_supported (c_pub_part c) = true /\ names_supported (c_sub_part c) = true.
Proof.
  unfold config_in_domain. rewrite !Bool.andb_true_iff, !eqos_normalizedb_true. tauto.
Qed.
Lemma not_known_split c : config_known c = false ->
  known_partition (c_pub_part c) (c_sub_part c) = false.
Proof. unfold config_known. auto. Qed.

Lemma code_pair_match_sym x y : code_pair_match x y = code_pair_match y x.
Proof.
  unfold code_pair_match. rewrite (name_eqb_sym x y).
  destruct (name_eqb y x), (match compile x with POk ra => reps_match ra y | _ => false end),
           (match compile y with POk rb => reps_match rb x | _ => false end); reflexivity.
Qed.
Lemma known_two_wildcards_sym a b : known_two_wildcards a b = known_two_wildcards b a.
Proof.
  unfold known_two_wildcards.
  rewrite (existsb_swap (fun x y => wild x && wild y && code_pair_match x y) a b).
  apply existsb_ext_in. intros y _. apply existsb_ext_in. intros x _.
  rewrite (code_pair_match_sym x y), (Bool.andb_comm (wild x)). reflexivity.
Qed.
Lemma known_partition_sym a b : known_partition a b = known_partition b a.
Proof.
  unfold known_partition, known_plus, known_default.
  rewrite (known_two_wildcards_sym a b).
  rewrite (Bool.orb_comm (existsb has_plus a)), (Bool.xorb_comm (no_names a)).
  reflexivity.
Qed.

Theorem writer_side_matched_iff_spec c :
  config_in_domain c = true -> config_known c = false ->
  (writer_side c = Some VMatched <-> dds_should_match c = true).
Proof.
  intros D K. apply in_domain_split in D as (No & Nr & Sp & Ss). apply not_known_split in K as Kp.
  unfold writer_side, decide, dds_should_match.
  rewrite (partition_match_eq_spec (c_sub_part c) (c_pub_part c) Ss Sp)
    by (rewrite known_partition_sym; exact Kp).
  rewrite (dds_partition_match_sym (c_sub_part c) (c_pub_part c)).
  pose proof (reader_side_eq_spec (c_off c) (c_req c) No Nr) as R.
  destruct (c_topic_eq c), (c_type_eq c), (dds_partition_match (c_pub_part c) (c_sub_part c));
    cbn [negb andb]; try (split; discriminate).
  rewrite <- R. split.
  - intros E. inversion E as [E']. apply verdict_of_list_matched. exact E'.
  - intros E. rewrite E. reflexivity.
Qed.

Theorem reader_side_matched_iff_spec c :
  config_in_domain c = true -> config_known c = false ->
  (reader_side c = Some VMatched <-> dds_should_match c = true).
Proof. intros D K. rewrite <- both_sides_matched. apply writer_side_matched_iff_spec; assumption. Qed.

(* ------------------------------------------------------------------ an incompatible pair is reported, naming the offending policies *)
Definition names_exactly (v : verdict) (fs : list Z) : Prop :=
  exists last ids, v = VIncompatible last ids /\ (forall id, In id ids <-> In id fs) /\ NoDup ids /\ In last ids.

Lemma dds_rxo_false_failing off req : dds_rxo off req = false -> spec_failing off req <> [].
Proof. unfold dds_rxo. destruct (spec_failing off req); [discriminate|discriminate]. Qed.

Theorem writer_side_reports_incompatible c :
  config_in_domain c = true -> config_known c = false -> dds_incompatible_pair c = true ->
  exists v, writer_side c = Some v /\ names_exactly v (spec_failing (c_off c) (c_req c)).
Proof.
  intros D K I. apply in_domain_split in D as (No & Nr & Sp & Ss). apply not_known_split in K as Kp.
  unfold dds_incompatible_pair in I. rewrite !Bool.andb_true_iff, Bool.negb_true_iff in I.
  destruct I as (((Ht & Hy) & Hp) & Hx).
  unfold writer_side, decide.
  rewrite (partition_match_eq_spec (c_sub_part c) (c_pub_part c) Ss Sp)
    by (rewrite known_partition_sym; exact Kp).
  rewrite (dds_partition_match_sym (c_sub_part c) (c_pub_part c)), Ht, Hy, Hp. cbn [negb].
  pose proof (reader_reported_policies_exact (c_off c) (c_req c) No Nr) as Ex.
  pose proof (NoDup_reader_incompatible (c_off c) (c_req c)) as ND.
  destruct (reader_incompatible (c_off c) (c_req c)) as [|id t] eqn:E.
  - exfalso. apply (dds_rxo_false_failing _ _ Hx).
    destruct (spec_failing (c_off c) (c_req c)) as [|x xs] eqn:F; [reflexivity|].
    assert (In x (spec_failing (c_off c) (c_req c))) as Hin by (rewrite F; left; reflexivity).
    apply in_spec_failing in Hin. apply Ex in Hin. destruct Hin.
  - eexists. split; [reflexivity|]. exists id, (id :: t). repeat split; auto.
    + intros H. apply in_spec_failing. apply Ex. exact H.
    + intros H. apply Ex. apply in_spec_failing. exact H.
    + left. reflexivity.
Qed.

Theorem reader_side_reports_incompatible c :
  config_in_domain c = true -> config_known c = false -> dds_incompatible_pair c = true ->
  exists v, reader_side c = Some v /\ names_exactly v (spec_failing (c_off c) (c_req c)).
Proof.
  intros D K I. destruct (writer_side_reports_incompatible c D K I) as (v & Ev & (last & ids & -> & Hin & ND & Hl)).
  pose proof (both_sides_agree c) as A. rewrite Ev in A. unfold option_equiv in A.
  destruct (reader_side c) as [v2|]; [|contradiction]. inversion A as [| | |l1 i1 l2 i2 P H1 H2]; subst.
  eexists. split; [reflexivity|]. exists l2, i2. repeat split; auto.
  - intros H. apply Hin. eapply Permutation_in; [apply Permutation_sym; exact P|exact H].
  - intros H. eapply Permutation_in; [exact P|]. apply Hin. exact H.
  - eapply Permutation_NoDup; eassumption.
Qed.

(* ------------------------------------------------------------------ the boolean oracle means what it says *)
Lemma contains_In l x : contains l x = true <-> In x l.
Proof.
  induction l as [|y t IH]; cbn; [split; [discriminate|tauto]|].
  rewrite Bool.orb_true_iff, Z.eqb_eq, IH. tauto.
Qed.
Lemma subset_spec a b : subset a b = true <-> forall x, In x a -> In x b.
Proof.
  induction a as [|y t IH]; cbn; [split; [intros _ x []|reflexivity]|].
  rewrite Bool.andb_true_iff, contains_In, IH. split.
  - intros [H1 H2] x [->|Hx]; auto.
  - intros H. split; [apply H; left; reflexivity|intros x Hx; apply H; right; exact Hx].
Qed.
Lemma nodupb_spec a : nodupb a = true <-> NoDup a.
Proof.
  induction a as [|y t IH]; cbn; [split; [constructor|reflexivity]|].
  rewrite Bool.andb_true_iff, Bool.negb_true_iff, IH. split.
  - intros [H1 H2]. constructor; [|exact H2]. intros Hin. apply contains_In in Hin. congruence.
  - intros H. inversion H; subst. split; [|assumption].
    destruct (contains t y) eqn:E; [|reflexivity]. apply contains_In in E. contradiction.
Qed.

Theorem reports_sound v fs : reports v fs = true <-> names_exactly v fs.
Proof.
  unfold reports, names_exactly. destruct v as [| | |last ids].
  1-3: split; [discriminate|intros (l & i & E & _); discriminate E].
  rewrite !Bool.andb_true_iff, !subset_spec, nodupb_spec, contains_In. split.
  - intros (((H1 & H2) & H3) & H4). exists last, ids. repeat split; auto.
  - intros (l & i & E & H1 & H2 & H3). inversion E; subst. repeat split; auto; intros x Hx; apply H1; exact Hx.
Qed.

(* non-vacuity: a configuration in the domain, outside the classes, that matches; and one
   that is an incompatible pair *)
Definition example_cfg (req : eqos) : config :=
  mkconfig true true
    (mkeqos TransientLocal (mkpresentation ScopeTopic true false) (Finite (mkduration 1 0)) (Finite (mkduration 0 0))
            (mkliveliness ManualByTopic (Finite (mkduration 5 0))) Reliable BySourceTimestamp Shared [2])
    req [[97; 42]] [[97; 98]].
Example example_matches :
  let c := example_cfg (mkeqos Volatile (mkpresentation ScopeInstance true false) Infinite (Finite (mkduration 1 0))
                          (mkliveliness Automatic (Finite (mkduration 10 0))) BestEffort ByReceptionTimestamp Shared [0; 2]) in
  config_in_domain c = true /\ config_known c = false /\ dds_should_match c = true /\ writer_side c = Some VMatched.
Proof. vm_compute. auto. Qed.
Example example_incompatible :
  let c := example_cfg (mkeqos Persistent (mkpresentation ScopeInstance true false) Infinite (Finite (mkduration 1 0))
                          (mkliveliness ManualByParticipant (Finite (mkduration 10 0))) BestEffort ByReceptionTimestamp Exclusive [0]) in
  config_in_domain c = true /\ config_known c = false /\ dds_incompatible_pair c = true /\
  writer_side c = Some (VIncompatible 2 [2; 6; 23]) /\ reader_side c = Some (VIncompatible 2 [2; 6; 23]).
Proof. vm_compute. auto. Qed.
